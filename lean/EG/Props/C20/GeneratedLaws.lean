/-
  C20 — the headline theorems restated over the code REGENERATED FROM THE RUST TEXT (EG/Generated/MockSrc.lean).

  `srcRun` replays a history with the generated functions (`MockDisplay_draw_pixel`, `DrawTarget_draw_iter`,
  `MockDisplay_set_pixel`, the two flag setters; `fill_contiguous` / `fill_solid` / `clear` are the trait defaults, i.e.
  `draw_iter` of `Call.lowerDefault`: tied to the source by Props/C03/GeneratedAdapters.lean). By `src_run_eq_model` it
  is the hand model's `MD.run`, so every theorem of Props/C20.lean carries over: the statements below mention only
  generated functions and the vocabulary of the property text (`Inside`, `lastTo`, `Touched`).
-/
import EG.Props.C20.GeneratedColors
import EG.Props.C20.Types
set_option linter.unusedSimpArgs false
set_option linter.unusedVariables false
namespace EG.C20.GeneratedLaws
open EG EG.Mock EG.RectSrcPrelude EG.MockSrcPrelude EG.MockSrcLemmas EG.Generated EG.Generated.MockSrc EG.C20.Generated

/-- one operation of a history, by the generated code. -/
def srcStep (d : MD) : Op → MutRes MD MD
  | .drawPixel p c => MockDisplay_draw_pixel d p c
  | .call c => DrawTarget_draw_iter d (c.lowerDefault displayArea)
  | .setPixel p c => MockDisplay_set_pixel d p c
  | .setOverdraw v => MockDisplay_set_allow_overdraw d v
  | .setOob v => MockDisplay_set_allow_out_of_bounds_drawing d v

/-- a history, by the generated code: stops at the first panic. -/
def srcRun (d : MD) : List Op → MutRes MD MD
  | [] => .ok d
  | o :: rest => (srcStep d o).bind (fun d' => srcRun d' rest)

theorem src_step_eq_model (d : MD) (o : Op) : toRes (srcStep d o) = d.step o := by
  cases o with
  | drawPixel p c => exact MockDisplay_draw_pixel_src_eq_model d p c
  | call c => exact DrawTarget_draw_iter_src_eq_model _ d
  | setPixel p c =>
    simp only [srcStep, MD.step]
    rw [MockDisplay_set_pixel_src_eq_model]
    cases d.setPixel p c <;> rfl
  | setOverdraw v => rfl
  | setOob v => rfl

/-- the replay by generated code IS the hand model's `run` (same final display, panics at the same operation leaving the
same display). -/
theorem src_run_eq_model (ops : List Op) (d : MD) : toRes (srcRun d ops) = d.run ops := by
  induction ops generalizing d with
  | nil => rfl
  | cons o rest ih =>
    have hs := src_step_eq_model d o
    simp only [srcRun, MD.run]
    rw [← hs]
    cases srcStep d o with
    | ok v => rw [bind_ok]; simp only [toRes]; exact ih v
    | panic m s => rw [bind_panic]; rfl

theorem src_run_ok {d0 d : MD} {ops : List Op} (h : srcRun d0 ops = .ok d) : d0.run ops = .ok d := by
  rw [← src_run_eq_model, h]; rfl

/-! ### `get_pixel` after any history -/

/-- HEADLINE over generated code: after any non-panicking history (generated `draw_pixel` / `draw_iter` / `set_pixel` / flag
setters) from a fresh display, the generated `get_pixel` returns, for every cell, the colour last drawn to it and `None`
if it was never written. -/
theorem src_get_pixel_last_drawn (d0 d : MD) (ops : List Op) (hnew : d0.pixels = MD.new.pixels)
    (h : srcRun d0 ops = .ok d) (p : Pt) (hp : Inside p) :
    MockDisplay_get_pixel d p = .ok (lastTo (ops.flatMap Op.writes) p none) := by
  have hm := history_refines_map_new d0 d ops hnew (src_run_ok h) p hp
  rw [← MockDisplay_get_pixel_src_eq_model] at hm
  cases hg : MockDisplay_get_pixel d p with
  | ok v => rw [hg] at hm; simp only [toOpt, Option.some.injEq] at hm; rw [hm]
  | panic m s => rw [hg] at hm; cases hm

example : ∃ d, srcRun (MD.new.setAllowOob true)
    [.drawPixel ⟨1, 2⟩ 5, .drawPixel ⟨-1, 70⟩ 9, .call (.fillSolid ⟨⟨3, 3⟩, ⟨2, 1⟩⟩ 7)] = .ok d ∧ Inside ⟨1, 2⟩ := by
  obtain ⟨d, hd⟩ : ∃ d, (MD.new.setAllowOob true).run
      [.drawPixel ⟨1, 2⟩ 5, .drawPixel ⟨-1, 70⟩ 9, .call (.fillSolid ⟨⟨3, 3⟩, ⟨2, 1⟩⟩ 7)] = .ok d := ⟨_, rfl⟩
  rw [← src_run_eq_model] at hd
  cases hr : srcRun (MD.new.setAllowOob true)
      [.drawPixel ⟨1, 2⟩ 5, .drawPixel ⟨-1, 70⟩ 9, .call (.fillSolid ⟨⟨3, 3⟩, ⟨2, 1⟩⟩ 7)] with
  | ok v => exact ⟨v, rfl, by decide⟩
  | panic m s => rw [hr] at hd; cases hd

/-- histories of `DrawTarget` calls: the generated `get_pixel` is the pixel map of the other properties' recording targets. -/
theorem src_drawing_history_last_write (d0 d : MD) (calls : List Call) (hnew : d0.pixels = MD.new.pixels)
    (h : srcRun d0 (calls.map Op.call) = .ok d) (p : Pt) (hp : Inside p) :
    MockDisplay_get_pixel d p = .ok (lastWrite (calls.flatMap (Call.lowerDefault displayArea)) p) := by
  have hm := drawing_history_last_write d0 d calls hnew (src_run_ok h) p hp
  rw [← MockDisplay_get_pixel_src_eq_model] at hm
  cases hg : MockDisplay_get_pixel d p with
  | ok v => rw [hg] at hm; simp only [toOpt, Option.some.injEq] at hm; rw [hm]
  | panic m s => rw [hg] at hm; cases hm

/-! ### when drawing panics -/

theorem toRes_isOk_false_iff (r : MutRes MD MD) : (toRes r).isOk = false ↔ ∃ m s, r = .panic m s := by
  cases r with
  | ok v => simp [toRes, Res.isOk]
  | panic m s => simp [toRes, Res.isOk]

/-- HEADLINE over generated code: the generated `draw_pixel` panics exactly when the point is outside while the bounds
check is on, or inside on a cell already drawn while the overdraw check is on; the display is left as it was. -/
theorem src_draw_pixel_panics_iff (d : MD) (p : Pt) (c : Color) :
    (∃ m s, MockDisplay_draw_pixel d p c = .panic m s) ↔
      (¬ Inside p ∧ d.allowOob = false) ∨
      (Inside p ∧ d.allowOverdraw = false ∧ ∃ old, MockDisplay_get_pixel d p = .ok (some old)) := by
  rw [← toRes_isOk_false_iff, MockDisplay_draw_pixel_src_eq_model, panics_iff]
  have hg : (∃ old, d.getPixel p = some (some old)) ↔ ∃ old, MockDisplay_get_pixel d p = .ok (some old) := by
    rw [← MockDisplay_get_pixel_src_eq_model]
    cases MockDisplay_get_pixel d p with
    | ok v => simp [toOpt]
    | panic m s => simp [toOpt]
  rw [hg]

theorem src_draw_pixel_panic_state (d s : MD) (p : Pt) (c : Color) (m : String)
    (h : MockDisplay_draw_pixel d p c = .panic m s) : s = d := by
  have := MockDisplay_draw_pixel_src_eq_model d p c
  rw [h] at this
  exact panic_leaves_display d s p c this.symm

/-- the two panic messages of `draw_pixel`, and which one fires. -/
theorem src_draw_pixel_panic_msg_outside (d : MD) (p : Pt) (c : Color) (h : ¬ Inside p) (ha : d.allowOob = false) :
    MockDisplay_draw_pixel d p c = .panic "tried to draw pixel outside the display area (x: {}, y: {})" d := by
  have hc : displayArea.contains p = false := by
    rw [Bool.eq_false_iff]; intro h'; exact h (contains_iff_inside.mp h')
  unfold MockDisplay_draw_pixel
  mock_simp [DISPLAY_AREA_src_eq_model, contains_display_src, hc, ha, Bool.not_false, ↓reduceIte]

example : ¬ Inside ⟨64, 0⟩ ∧ MD.new.allowOob = false := by decide

theorem src_draw_pixel_panic_msg_twice (d : MD) (p : Pt) (c old : Color) (h : Inside p) (ha : d.allowOverdraw = false)
    (hg : MockDisplay_get_pixel d p = .ok (some old)) :
    MockDisplay_draw_pixel d p c = .panic "tried to draw pixel twice (x: {}, y: {})" d := by
  have hc : displayArea.contains p = true := contains_iff_inside.mpr h
  unfold MockDisplay_draw_pixel
  mock_simp [DISPLAY_AREA_src_eq_model, contains_display_src, hc, ha, hg, Bool.not_false, Bool.not_true, Bool.false_eq_true,
    ↓reduceIte, Option.isSome]

/-- generated `draw_iter` (hence the inherited `fill_contiguous` / `fill_solid` / `clear`) panics exactly when one of its
pixels is outside with the bounds check on, or hits a cell the display held or an earlier pixel of the call drew with the
overdraw check on. -/
theorem src_draw_iter_panics_iff (d : MD) (ws : Writes) :
    (∃ m s, DrawTarget_draw_iter d ws = .panic m s) ↔
      ∃ pre w post, ws = pre ++ w :: post ∧
        ((¬ Inside w.1 ∧ d.allowOob = false) ∨
         (Inside w.1 ∧ d.allowOverdraw = false ∧ (lastTo (drawWrites pre) w.1 (d.cell w.1)).isSome = true)) := by
  rw [← toRes_isOk_false_iff, DrawTarget_draw_iter_src_eq_model, draw_iter_panics_iff]

/-- what a panicking generated `draw_iter` leaves behind: exactly the pixels before the offending one are drawn. -/
theorem src_draw_iter_panic_state (d s : MD) (ws : Writes) (m : String) (h : DrawTarget_draw_iter d ws = .panic m s) :
    ∃ pre w post, ws = pre ++ w :: post ∧ toRes (DrawTarget_draw_iter d pre) = .ok s ∧
      ∃ m' s', MockDisplay_draw_pixel s w.1 w.2 = .panic m' s' := by
  have hm := DrawTarget_draw_iter_src_eq_model ws d
  rw [h] at hm
  obtain ⟨pre, w, post, e, hpre, hw⟩ := draw_iter_panic_state d s ws hm.symm
  refine ⟨pre, w, post, e, ?_, ?_⟩
  · rw [DrawTarget_draw_iter_src_eq_model]; exact hpre
  · rw [← toRes_isOk_false_iff, MockDisplay_draw_pixel_src_eq_model]; exact hw

example : ∃ m s, DrawTarget_draw_iter MD.new [(⟨0, 0⟩, 1), (⟨0, 0⟩, 2)] = .panic m s := by
  rw [← toRes_isOk_false_iff, DrawTarget_draw_iter_src_eq_model]; rfl

/-- generated `set_pixel` panics exactly outside the display, whatever the flags. -/
theorem src_set_pixel_panics_iff (d : MD) (p : Pt) (c : Option Color) :
    (∃ m s, MockDisplay_set_pixel d p c = .panic m s) ↔ ¬ Inside p := by
  rw [← toRes_isOk_false_iff, MockDisplay_set_pixel_src_eq_model, ← set_pixel_panics_iff d p c]
  cases d.setPixel p c <;> simp [optRes, Res.isOk]

/-! ### equality, `diff`, `affected_area` -/

/-- generated `eq` never panics and is true exactly when all 64 x 64 cells (read by the generated `get_pixel`) agree. -/
theorem src_eq_iff_cells (a b : MD) :
    PartialEq_eq a b = .ok true ↔ ∀ p, Inside p → MockDisplay_get_pixel a p = MockDisplay_get_pixel b p := by
  rw [PartialEq_eq_src_eq_model]
  have h := eq_iff_cells a b
  constructor
  · intro he p hp
    have he' : a.eq b = true := by cases hab : a.eq b <;> simp_all
    have := h.mp he' p hp
    rw [getPixel_inside a hp, getPixel_inside b hp] at this
    have ha := MockDisplay_get_pixel_src_eq_model a p
    have hb := MockDisplay_get_pixel_src_eq_model b p
    rw [getPixel_inside a hp] at ha
    rw [getPixel_inside b hp] at hb
    cases hga : MockDisplay_get_pixel a p with
    | panic m s => rw [hga] at ha; cases ha
    | ok va =>
      cases hgb : MockDisplay_get_pixel b p with
      | panic m s => rw [hgb] at hb; cases hb
      | ok vb =>
        rw [hga] at ha; rw [hgb] at hb
        simp only [toOpt, Option.some.injEq] at ha hb this
        rw [ha, hb, this]
  · intro hc
    have : a.eq b = true := h.mpr (fun p hp => by
      rw [← MockDisplay_get_pixel_src_eq_model, ← MockDisplay_get_pixel_src_eq_model, hc p hp])
    rw [this]

/-- generated `diff` never panics, and its result compares equal to a fresh display exactly when the two displays
compare equal. -/
theorem src_diff_empty_iff_eq (a b : MD) :
    ∃ D, MockDisplay_diff a b = .ok D ∧ (PartialEq_eq D MD.new = .ok true ↔ PartialEq_eq a b = .ok true) := by
  obtain ⟨D, hD⟩ := diff_total a b
  have hm := MockDisplay_diff_src_eq_model a b
  rw [hD] at hm
  cases hs : MockDisplay_diff a b with
  | panic m s => rw [hs] at hm; cases hm
  | ok D' =>
    rw [hs] at hm
    simp only [toOpt, Option.some.injEq] at hm
    subst hm
    refine ⟨D', rfl, ?_⟩
    rw [PartialEq_eq_src_eq_model, PartialEq_eq_src_eq_model]
    have := diff_empty_iff_eq a b D' hD
    constructor
    · intro h1
      have h2 : D'.eq MD.new = true := by cases hq : D'.eq MD.new <;> simp_all
      rw [this.mp h2]
    · intro h1
      have h2 : a.eq b = true := by cases hq : a.eq b <;> simp_all
      rw [this.mpr h2]

/-- generated `affected_area` never panics and is the tight bounding box of the touched cells: it contains each of
them, and any rectangle containing them all contains it; zero-sized when nothing is touched. -/
theorem src_affected_area_tight (d : MD) :
    ∃ r, MockDisplay_affected_area d = .ok r ∧
      (∀ p, Touched d p → r.contains p = true) ∧
      (∀ r' : Rect, (∀ p, Touched d p → r'.contains p = true) → ∀ q, r.contains q = true → r'.contains q = true) ∧
      ((¬ ∃ p, Touched d p) → r = Rect.zero) :=
  ⟨d.affectedArea, MockDisplay_affected_area_src_eq_model d, affected_area_contains d, affected_area_least d,
    affected_area_zero_of_untouched d⟩

/-! ### what is outside the translation -/

/-- every function of every `impl` of `MockDisplay` is translated except the four formatting-only assertion helpers
(an added function, e.g. a `fill_solid` override of `DrawTarget`, would be translated and appear in `translated`). -/
theorem mock_untranslated_pinned :
    MockSrc.untranslated = ["assert_eq", "assert_eq_with_message", "assert_pattern", "assert_pattern_with_message"] ∧
    MockSrc.translated.length = 46 ∧
    "DrawTarget_draw_iter" ∈ MockSrc.translated.map (·.1) ∧
    "DrawTarget_fill_solid" ∉ MockSrc.translated.map (·.1) ∧ "DrawTarget_fill_contiguous" ∉ MockSrc.translated.map (·.1) ∧
    "DrawTarget_clear" ∉ MockSrc.translated.map (·.1) := by decide

/-- the colour types with a regenerated `ColorMapping` impl are the model's `allCT` (and the list tr_mock.py reads). -/
theorem mock_mapping_types_pinned :
    MockSrc.mappingTypes.map ctOfRustName = allCT.map some ∧
    MockSrc.mappingTypes = EG.Generated.MockTypes.mappingTypes.map (·.1) := by decide

end EG.C20.GeneratedLaws
