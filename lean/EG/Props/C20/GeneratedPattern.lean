/-
  C20 — the `Debug` impl and `from_pattern` REGENERATED FROM THE RUST TEXT against the hand model.

  `Debug::fmt` is proved to write, for EVERY display whose cells hold valid colour values of the type: the header line, then
  exactly the model's `MD.debugRows` (one line per row, `chunks(64).take(64 - empty_rows)`, a space for `None`, the type's
  character otherwise), then the "(n empty rows skipped)" line exactly when the model's `MD.emptyRows` (`rchunks(64)
  .take_while(all None).count()`) is positive, with that number, then "]" (`renderDebug`, which only sequences the
  prelude's two write primitives), and that these writes concatenate to the `String` `MD.debugText`
  (`Debug_fmt_text_src_eq_model`). `from_pattern`: for every pattern, a panic exactly where the model's `fromPattern`
  rejects, the model's display otherwise.
-/
import EG.Props.C20.GeneratedColors
set_option linter.unusedSimpArgs false
set_option linter.unusedVariables false
namespace EG.C20.GeneratedPattern
open EG EG.Mock EG.RectSrcPrelude EG.MockSrcPrelude EG.MockSrcLemmas EG.Generated EG.Generated.MockSrc EG.C20.Generated
open EG.C20.GeneratedColors

/-! ### `Debug` -/

/-- the writes of `Debug::fmt`, in order, given the character rows and the number of skipped rows. -/
def renderDebug (f : Formatter) (rows : List (List Char)) (e : Nat) : Formatter :=
  let f1 := fmt_writeln f "MockDisplay[" []
  let f2 := rows.foldl (fun s row => fmt_writeln (row.foldl fmt_write_char s) "" []) f1
  let f3 := if e > 0 then fmt_writeln f2 "({} empty rows skipped)" [usize_display e] else f2
  fmt_writeln f3 "]" []

/-- every cell of the display holds a valid colour value of the type (`Nat` lacks the type bound). -/
def CellsValid (C : CT) (d : MD) : Prop := ∀ c ∈ d.pixels.toList, ∀ col, c = some col → ValidColor C col

example : CellsValid .rgb565 MD.new := by
  intro c hc col h
  have : c = none := by
    simp only [MD.new, Vector.toList_replicate, List.mem_replicate] at hc
    exact hc.2
  rw [this] at h; cases h

theorem pixels_length (d : MD) : d.pixels.toList.length = 64 * 64 := by simp

theorem array_chunks_src (d : MD) : array_chunks (MockDisplay_pixels d) MockSrc.SIZE = d.rows := by
  show chunksFuel 64 d.pixels.toList.length d.pixels.toList = chunks64 d.pixels.toList 64
  exact chunksFuel_eq_chunks64 64 _ _ (pixels_length d) (by rw [pixels_length]; omega)

theorem array_rchunks_src (d : MD) : array_rchunks (MockDisplay_pixels d) MockSrc.SIZE = d.rows.reverse := by
  show rchunksFuel 64 d.pixels.toList.length d.pixels.toList = (chunks64 d.pixels.toList 64).reverse
  exact rchunksFuel_eq_chunks64 64 _ _ (pixels_length d) (by rw [pixels_length]; omega)

/-- `empty_rows` of the source is the model's. -/
theorem empty_rows_src (d : MD) :
    iter_count (iter_take_while (array_rchunks (MockDisplay_pixels d) MockSrc.SIZE)
      (fun row => iter_all (slice_iter row) (fun x => option_is_none x))) = d.emptyRows := by
  rw [array_rchunks_src]; rfl

theorem length_takeWhile_le' {α : Type} (p : α → Bool) : ∀ l : List α, (l.takeWhile p).length ≤ l.length
  | [] => Nat.le_refl _
  | a :: as => by
    simp only [List.takeWhile_cons]
    split
    · simp only [List.length_cons]; have := length_takeWhile_le' p as; omega
    · simp

theorem src_emptyRows_le (d : MD) : d.emptyRows ≤ 64 := by
  unfold MD.emptyRows
  have h1 := length_takeWhile_le' (fun row : List (Option Color) => row.all Option.isNone) d.rows.reverse
  have h2 : d.rows.reverse.length = 64 := by rw [List.length_reverse]; exact chunks64_length 64 _
  omega

theorem mem_chunks64 : ∀ (n : Nat) (l row : List (Option Color)) (c : Option Color),
    row ∈ chunks64 l n → c ∈ row → c ∈ l
  | 0, l, row, c, h, _ => by cases h
  | n + 1, l, row, c, h, hc => by
    simp only [chunks64, List.mem_cons] at h
    rcases h with h | h
    · subst h; exact List.mem_of_mem_take hc
    · exact List.mem_of_mem_drop (mem_chunks64 n _ row c h hc)

/-- the character of a cell, as the model's `debugRows` writes it. -/
def cellChar (C : CT) : Option Color → Char
  | none => ' '
  | some col => colorToChar C col

theorem src_debugRows_eq (C : CT) (d : MD) :
    d.debugRows C = (d.rows.take (64 - d.emptyRows)).map (fun row => row.map (cellChar C)) := by
  unfold MD.debugRows
  first
    | rfl
    | (congr 1; funext row; congr 1; funext c; cases c <;> rfl)

/-- the inner loop: one row. -/
theorem row_loop_src (C : CT) : ∀ (row : List (Option Color)) (s : Formatter),
    (∀ c ∈ row, ∀ col, c = some col → ValidColor C col) →
    toOpt (loopM (fun (color : Option Color) (s : Formatter) =>
        (option_map_or_p color ' ' (fun x => ColorMapping_color_to_char C x)).bind
          (fun ch => (MutRes.ok (fmt_write_char s ch) : Panics Formatter))) row s)
      = some ((row.map (cellChar C)).foldl fmt_write_char s)
  | [], s, _ => rfl
  | c :: rest, s, hv => by
    have hrest : ∀ c' ∈ rest, ∀ col, c' = some col → ValidColor C col :=
      fun c' hc' => hv c' (List.mem_cons_of_mem _ hc')
    simp only [loopM, List.map_cons, List.foldl_cons]
    cases c with
    | none =>
      simp only [option_map_or_p, bind_ok, cellChar]
      exact row_loop_src C rest _ hrest
    | some col =>
      have hc := ColorMapping_color_to_char_src_eq_model C col (hv (some col) (List.mem_cons_self) col rfl)
      obtain ⟨_, hok⟩ := toOpt_eq_some hc
      simp only [option_map_or_p, hok, bind_ok, cellChar]
      exact row_loop_src C rest _ hrest

/-- the outer loop: the rows. -/
theorem rows_loop_src (C : CT) : ∀ (rows : List (List (Option Color))) (s : Formatter),
    (∀ row ∈ rows, ∀ c ∈ row, ∀ col, c = some col → ValidColor C col) →
    toOpt (loopM (fun (row : List (Option Color)) (s : Formatter) =>
        (loopM (fun (color : Option Color) (s : Formatter) =>
          (option_map_or_p color ' ' (fun x => ColorMapping_color_to_char C x)).bind
            (fun ch => (MutRes.ok (fmt_write_char s ch) : Panics Formatter))) row s).bind
          (fun s' => (MutRes.ok (fmt_writeln s' "" []) : Panics Formatter))) rows s)
      = some ((rows.map (fun row => row.map (cellChar C))).foldl
          (fun s row => fmt_writeln (row.foldl fmt_write_char s) "" []) s)
  | [], s, _ => rfl
  | row :: rest, s, hv => by
    have hr := row_loop_src C row s (hv row List.mem_cons_self)
    obtain ⟨_, hok⟩ := toOpt_eq_some hr
    simp only [loopM, List.map_cons, List.foldl_cons, hok, bind_ok]
    exact rows_loop_src C rest _ (fun r hr' => hv r (List.mem_cons_of_mem _ hr'))

/-- `Debug::fmt`: never panics on valid cells, and writes exactly the model's rows and skipped-rows line. -/
theorem Debug_fmt_src_eq_model (C : CT) (d : MD) (f : Formatter) (hv : CellsValid C d) :
    toOpt (Debug_fmt C d f) = some (renderDebug f (d.debugRows C) d.emptyRows) := by
  unfold Debug_fmt
  simp only [bind_def, pure_def, empty_rows_src, array_chunks_src]
  have hsub : usize_sub MockSrc.SIZE d.emptyRows = .ok (64 - d.emptyRows) := by
    have := src_emptyRows_le d
    simp only [usize_sub, SIZE_src_eq_model, Mock.SIZE, this, ↓reduceIte]
  rw [hsub, bind_ok]
  have hvalid : ∀ row ∈ List.take (64 - d.emptyRows) d.rows, ∀ c ∈ row, ∀ col, c = some col → ValidColor C col := by
    intro row hrow c hc col hcol
    exact hv c (mem_chunks64 64 _ row c (List.mem_of_mem_take hrow) hc) col hcol
  have hloop := rows_loop_src C (List.take (64 - d.emptyRows) d.rows) (fmt_writeln f "MockDisplay[" []) hvalid
  obtain ⟨_, hok⟩ := toOpt_eq_some hloop
  rw [forIn_yield' _ (fun (row : List (Option Color)) (s : Formatter) =>
        (loopM (fun (color : Option Color) (s : Formatter) =>
          (option_map_or_p color ' ' (fun x => ColorMapping_color_to_char C x)).bind
            (fun ch => (MutRes.ok (fmt_write_char s ch) : Panics Formatter))) row s).bind
          (fun s' => (MutRes.ok (fmt_writeln s' "" []) : Panics Formatter)))
      (by
        intro row s
        rw [forIn_yield' _ (fun (color : Option Color) (s : Formatter) =>
          (option_map_or_p color ' ' (fun x => ColorMapping_color_to_char C x)).bind
            (fun ch => (MutRes.ok (fmt_write_char s ch) : Panics Formatter))) (by intro c s'; rw [bind_assoc]; rfl)]
        rw [bind_assoc]
        congr 1
        try (funext x; rw [bind_ok]))]
  simp only [iter_take, hok, bind_ok, bind_ok_right, renderDebug, src_debugRows_eq, usize_gt]
  by_cases he : d.emptyRows > 0
  · simp only [he, decide_true, ↓reduceIte, toOpt]
  · simp only [he, decide_false, Bool.false_eq_true, ↓reduceIte, toOpt]

theorem push_fold_toList : ∀ (row : List Char) (s : String), (row.foldl fmt_write_char s).toList = s.toList ++ row
  | [], s => by simp
  | c :: rest, s => by
    rw [List.foldl_cons, push_fold_toList rest]
    simp only [fmt_write_char, String.toList_push, List.append_assoc, List.singleton_append]

theorem fmtSubst_empty : fmtSubst "".toList [] = [] := by decide
theorem fmtSubst_header : fmtSubst "MockDisplay[".toList [] = "MockDisplay[".toList := by decide
theorem fmtSubst_close : fmtSubst "]".toList [] = "]".toList := by decide
theorem fmtSubst_skipped (a : String) :
    fmtSubst "({} empty rows skipped)".toList [a] = "(".toList ++ a.toList ++ " empty rows skipped)".toList := by
  rfl

theorem rows_fold_toList : ∀ (rows : List (List Char)) (s : String),
    (rows.foldl (fun s row => fmt_writeln (row.foldl fmt_write_char s) "" []) s).toList
      = s.toList ++ rows.flatMap (fun r => r ++ ['\n'])
  | [], s => by simp
  | r :: rest, s => by
    rw [List.foldl_cons, rows_fold_toList rest]
    simp only [fmt_writeln, String.toList_append, push_fold_toList, fmtSubst_empty, String.toList_ofList,
      List.flatMap_cons, List.append_assoc, List.append_nil]
    rfl

/-- the writes of `Debug::fmt` concatenate to the model's complete `{:?}` text. -/
theorem renderDebug_eq_debugText (C : CT) (d : MD) (f : String) :
    renderDebug f (d.debugRows C) d.emptyRows = f ++ d.debugText C := by
  apply String.ext
  unfold renderDebug MD.debugText
  have l1 : "MockDisplay[\n".toList = "MockDisplay[".toList ++ ['\n'] := by decide
  have l2 : " empty rows skipped)\n".toList = " empty rows skipped)".toList ++ ['\n'] := by decide
  have l3 : "]\n".toList = "]".toList ++ ['\n'] := by decide
  have l4 : "\n".toList = ['\n'] := by decide
  have l5 : "".toList = [] := by decide
  by_cases he : d.emptyRows > 0
  · simp only [he, ↓reduceIte, fmt_writeln, String.toList_append, rows_fold_toList, String.toList_ofList,
      fmtSubst_header, fmtSubst_close, fmtSubst_skipped, usize_display, String.toList_join, List.flatMap_map,
      l1, l2, l3, l4, List.append_assoc, List.append_nil]
  · simp only [he, ↓reduceIte, fmt_writeln, String.toList_append, rows_fold_toList, String.toList_ofList,
      fmtSubst_header, fmtSubst_close, fmtSubst_skipped, usize_display, String.toList_join, List.flatMap_map,
      l1, l2, l3, l4, List.append_assoc, List.append_nil]
    simp only [l5, List.nil_append, List.append_nil]

/-- `Debug::fmt` appends exactly the model's complete `{:?}` text to the formatter (valid cells). -/
theorem Debug_fmt_text_src_eq_model (C : CT) (d : MD) (f : Formatter) (hv : CellsValid C d) :
    toOpt (Debug_fmt C d f) = some (f ++ d.debugText C) := by
  rw [Debug_fmt_src_eq_model C d f hv, renderDebug_eq_debugText]

/-! ### `from_pattern` -/

/-- the result of `from_pattern` with the kind of panic forgotten. -/
def patOpt : PatRes → Option MD
  | .ok d => some d
  | _ => none

/-- padding with `repeat(None)` on fuel, cut to `n`: the fuel does not matter once it is at least `n`. -/
theorem take_pad_fuel (n fuel : Nat) (hf : n ≤ fuel) (cs : List (Option Color)) :
    List.take n (cs ++ List.replicate fuel none) = List.take n (cs ++ List.replicate n none) := by
  rw [List.take_append, List.take_append, List.take_replicate, List.take_replicate]
  congr 2
  omega

/-- the conversion closure of `from_pattern`. -/
def convSrc (C : CT) (c : Char) : Panics (Option Color) :=
  match c with
  | ' ' => MutRes.ok none
  | _ => MutRes.bind (ColorMapping_char_to_color C c) fun v => MutRes.ok (some v)

theorem convSrc_eq (C : CT) (c : Char) : toOpt (convSrc C c) = convChar C c := by
  unfold convSrc convChar
  split
  · rfl
  · rename_i h
    have hne : ¬ c = ' ' := fun e => h e
    simp only [hne, ↓reduceIte]
    rw [← ColorMapping_char_to_color_src_eq_model]
    cases ColorMapping_char_to_color C c <;> rfl

theorem mapP_convRow (C : CT) : ∀ row : List Char, toOpt (mapP (convSrc C) row) = convRow C row
  | [] => rfl
  | c :: rest => by
    have h1 := convSrc_eq C c
    have h2 := mapP_convRow C rest
    simp only [mapP, convRow]
    rw [← h1, ← h2]
    cases convSrc C c with
    | panic m s => rw [bind_panic]; rfl
    | ok v =>
      rw [bind_ok]
      cases mapP (convSrc C) rest with
      | panic m s => rw [bind_panic]; rfl
      | ok vs => rw [bind_ok]; rfl

/-- the row closure of `from_pattern`. -/
def rowSrc (C : CT) (fuel : Nat) (row : List Char) : Panics (List (Option Color)) :=
  (mapP (convSrc C) row).bind fun cs => MutRes.ok (List.take 64 (cs ++ List.replicate fuel none))

theorem mapP_rows (C : CT) (fuel : Nat) (hf : 64 ≤ fuel) : ∀ pat : List (List Char),
    toOpt (mapP (rowSrc C fuel) pat) = (convRows C pat).map (fun rows => rows.map padRow)
  | [] => rfl
  | r :: rest => by
    have h1 := mapP_convRow C r
    have h2 := mapP_rows C fuel hf rest
    simp only [mapP, convRows, rowSrc]
    rw [← h1]
    cases mapP (convSrc C) r with
    | panic m s => simp only [bind_panic]; rfl
    | ok cs =>
      simp only [bind_ok]
      cases hm : mapP (rowSrc C fuel) rest with
      | panic m s =>
        rw [hm] at h2
        simp only [bind_panic, toOpt]
        cases hc : convRows C rest with
        | none => rfl
        | some x => rw [hc] at h2; cases h2
      | ok vs =>
        rw [hm] at h2
        simp only [bind_ok, toOpt]
        cases hc : convRows C rest with
        | none => rw [hc] at h2; cases h2
        | some x =>
          rw [hc] at h2
          simp only [toOpt, Option.map_some, Option.some.injEq] at h2
          subst h2
          simp only [Option.map_some, List.map_cons, padRow, take_pad_fuel 64 fuel hf]

/-- the body of the copy loop of `from_pattern`. -/
def storeSrc (x : Nat × Option Color) (s : MD) : Panics MD :=
  (array_set (MockDisplay_pixels s) x.1 x.2).bind fun v => MutRes.ok (MockDisplay_with_pixels s v)

theorem store_loop : ∀ (L : List (Option Color)) (k : Nat) (d : MD), k + L.length = 4096 →
    ∃ d', loopM storeSrc ((List.range' k L.length).zip L) d = .ok d' ∧
      d'.pixels.toList = d.pixels.toList.take k ++ L ∧ d'.allowOverdraw = d.allowOverdraw ∧ d'.allowOob = d.allowOob
  | [], k, d, h => by
    refine ⟨d, rfl, ?_, rfl, rfl⟩
    rw [List.append_nil, List.take_of_length_le (by simp at h; simp; omega)]
  | a :: rest, k, d, h => by
    have hk : k < 4096 := by simp at h; omega
    obtain ⟨d', h1, h2, h3, h4⟩ := store_loop rest (k + 1) { d with pixels := d.pixels.set k a hk } (by simp at h ⊢; omega)
    refine ⟨d', ?_, ?_, h3, h4⟩
    · rw [List.length_cons, List.range'_succ, List.zip_cons_cons]
      simp only [loopM, storeSrc, array_set, MockDisplay_pixels, hk, ↓reduceDIte, bind_ok, MockDisplay_with_pixels]
      exact h1
    · rw [h2]
      simp only [Vector.toList_set]
      rw [List.take_succ_eq_append_getElem (by simp; omega), List.take_set_of_le (Nat.le_refl k), List.getElem_set_self,
        List.append_assoc]
      rfl

/-- the loop over the rows with the `assert_eq!` of the row width. -/
def rowAssertSrc (W : Nat) (x : Nat × List Char) (u : PUnit) : Panics PUnit :=
  (rs_assert (rs_eq (str_len x.snd) W)
    "Row #{} is {} characters wide (must be {} characters to match previous rows)").bind fun _ => MutRes.ok PUnit.unit

theorem row_assert_loop (W : Nat) : ∀ (l : List (Nat × List Char)),
    toOpt (loopM (rowAssertSrc W) l PUnit.unit) = if (l.map Prod.snd).all (fun r => rowLen r == W) then some PUnit.unit else none
  | [] => rfl
  | x :: rest => by
    have ih := row_assert_loop W rest
    simp only [loopM, rowAssertSrc, List.map_cons, List.all_cons, rs_assert, rs_eq, str_len, rowLen] at ih ⊢
    by_cases h : ((List.map Char.utf8Size x.snd).sum == W) = true
    · simp only [h, ↓reduceIte, bind_ok, Bool.true_and]
      exact ih
    · simp only [h, Bool.false_eq_true, ↓reduceIte, bind_panic, toOpt, Bool.false_and]

/-- the hand model's `fromPattern` with the width of the first row given. -/
def fromPatternW (C : CT) (pat : List (List Char)) (W : Nat) : PatRes :=
  if ¬ W ≤ 64 then .panicWidth
  else if ¬ pat.length ≤ 64 then .panicHeight
  else if ¬ pat.all (fun r => rowLen r == W) then .panicRow
  else match convRows C pat with
    | none => .panicChar
    | some rows => .ok ⟨cellsOfPattern rows, false, false⟩

theorem width_src (C : CT) (pat : List (List Char)) :
    ∃ W, option_map_or (slice_first pat) 0 (fun row => str_len row) = W ∧ fromPattern C pat = fromPatternW C pat W := by
  cases pat with
  | nil => exact ⟨0, rfl, rfl⟩
  | cons r rest => exact ⟨rowLen r, rfl, rfl⟩

theorem flat_map_rw (C : CT) (fuel : Nat) (pat : List (List Char)) (g : List Char → Panics (List (Option Color)))
    (h : ∀ row, g row = rowSrc C fuel row) :
    iter_flat_map_p (slice_iter pat) g = (mapP (rowSrc C fuel) pat).bind (fun ls => MutRes.ok ls.flatten) := by
  have : g = rowSrc C fuel := funext h
  subst this; rfl

theorem toOpt_none {σ α : Type} {r : MutRes σ α} (h : toOpt r = none) : ∃ m s, r = .panic m s := by
  cases r with
  | ok v => cases h
  | panic m s => exact ⟨m, s, rfl⟩

/-- `from_pattern`: panics on exactly the patterns the model rejects (width in bytes of the first row, height, ragged
rows, a character the type does not accept), and otherwise builds the model's display (`fuel` is what `iter::repeat` runs
on: any value from 4096 on). -/
theorem MockDisplay_from_pattern_src_eq_model (C : CT) (fuel : Nat) (pat : List (List Char)) (hf : 4096 ≤ fuel) :
    toOpt (MockDisplay_from_pattern C fuel pat) = patOpt (fromPattern C pat) := by
  unfold MockDisplay_from_pattern
  simp only [bind_def, pure_def, MockDisplay_new_src_eq_model, bind_ok]
  obtain ⟨W, hW1, hW2⟩ := width_src C pat
  rw [hW1, hW2]
  unfold fromPatternW
  by_cases h1n : ¬ W ≤ 64
  · have h1 := h1n
    simp only [rs_assert, usize_le, SIZE_src_eq_model, Mock.SIZE, h1, decide_false, Bool.false_eq_true, ↓reduceIte, bind_panic,
      toOpt, not_false_eq_true, patOpt]
  have h1 : W ≤ 64 := by omega
  by_cases h2n : ¬ pat.length ≤ 64
  · have h2 := h2n
    simp only [rs_assert, usize_le, SIZE_src_eq_model, Mock.SIZE, h1, h2, slice_len, decide_true, decide_false,
      Bool.false_eq_true, ↓reduceIte, bind_ok, bind_panic, toOpt, not_false_eq_true, not_true_eq_false, patOpt]
  have h2 : pat.length ≤ 64 := by omega
  simp only [rs_assert, usize_le, SIZE_src_eq_model, Mock.SIZE, h1, h2, slice_len, decide_true, ↓reduceIte, bind_ok,
    not_true_eq_false]
  -- the rows
  rw [forIn_yield' _ (rowAssertSrc W) (by
    intro x u
    unfold rowAssertSrc
    rw [bind_assoc]; congr 1)]
  have hrows := row_assert_loop W (iter_enumerate (slice_iter pat))
  have hsnd : (iter_enumerate (slice_iter pat)).map Prod.snd = pat := by
    simp only [iter_enumerate, slice_iter]
    exact List.map_snd_zip (by simp)
  rw [hsnd] at hrows
  by_cases h3n : ¬ pat.all (fun r => rowLen r == W) = true
  · have h3 : pat.all (fun r => rowLen r == W) = false := by simpa using h3n
    simp only [h3, Bool.false_eq_true, ↓reduceIte] at hrows
    obtain ⟨m, s, hp⟩ := toOpt_none hrows
    simp only [hp, bind_panic, toOpt, h3, Bool.false_eq_true, not_false_eq_true, ↓reduceIte, patOpt]
  have h3 : pat.all (fun r => rowLen r == W) = true := by
    cases hx : pat.all (fun r => rowLen r == W) with
    | true => rfl
    | false => exact absurd (by rw [hx]; exact Bool.false_ne_true) h3n
  simp only [h3, ↓reduceIte] at hrows
  obtain ⟨_, hok⟩ := toOpt_eq_some hrows
  simp only [hok, bind_ok, h3, not_true_eq_false, ↓reduceIte]
  -- the conversion
  rw [flat_map_rw C fuel pat _ (by intro row; rfl)]
  have hconv := mapP_rows C fuel (by omega) pat
  cases hm : mapP (rowSrc C fuel) pat with
  | panic m s =>
    rw [hm] at hconv
    cases hc : convRows C pat with
    | none => simp only [bind_panic, toOpt, patOpt]
    | some rows => rw [hc] at hconv; cases hconv
  | ok ls =>
    rw [hm] at hconv
    cases hc : convRows C pat with
    | none => rw [hc] at hconv; cases hconv
    | some rows =>
      rw [hc] at hconv
      simp only [toOpt, Option.map_some, Option.some.injEq] at hconv
      subst hconv
      have hmul : usize_mul 64 64 = .ok 4096 := by simp [usize_mul, U64]
      simp only [bind_ok, iter_take, iter_chain, iter_repeat, patOpt, hmul]
      have hL : List.take 4096 ((rows.map padRow).flatten ++ List.replicate fuel none) = patternColors rows := by
        unfold patternColors
        rw [take_pad_fuel 4096 fuel hf, List.flatMap_def]
      rw [hL]
      rw [forIn_yield' _ storeSrc (by
        intro x s
        unfold storeSrc
        rw [bind_assoc]; congr 1)]
      have hlen := patternColors_length rows
      obtain ⟨d', hd1, hd2, hd3, hd4⟩ := store_loop (patternColors rows) 0 MD.new (by rw [hlen])
      have henum : iter_enumerate (patternColors rows)
          = (List.range' 0 (patternColors rows).length).zip (patternColors rows) := by
        simp only [iter_enumerate, List.range_eq_range']
      rw [henum, hd1, bind_ok]
      simp only [toOpt, Option.some.injEq]
      obtain ⟨px, o, b⟩ := d'
      simp only [List.take_zero, List.nil_append] at hd2
      have hp : px = cellsOfPattern rows := by
        apply Vector.toList_inj.mp
        rw [hd2]
        simp [cellsOfPattern]
      simp only at hd3 hd4
      rw [hp, hd3, hd4]
      rfl


example : (4096 : Nat) ≤ 4096 := Nat.le_refl _

/-- which assertion fires first, with its message: the width (in BYTES of the first row), then the height. -/
theorem from_pattern_width_msg (C : CT) (fuel : Nat) (r : List Char) (rest : List (List Char)) (h : ¬ rowLen r ≤ 64) :
    MockDisplay_from_pattern C fuel (r :: rest) = .panic "Test pattern must not be wider than {} columns" () := by
  unfold MockDisplay_from_pattern
  simp only [bind_def, pure_def, MockDisplay_new_src_eq_model, bind_ok]
  have hw : option_map_or (slice_first (r :: rest)) 0 (fun row => str_len row) = rowLen r := rfl
  simp only [hw, rs_assert, usize_le, SIZE_src_eq_model, Mock.SIZE, h, decide_false, Bool.false_eq_true, ↓reduceIte, bind_panic]

example : ¬ rowLen (List.replicate 65 'a') ≤ 64 := by decide

theorem from_pattern_height_msg (C : CT) (fuel : Nat) (r : List Char) (rest : List (List Char)) (h : rowLen r ≤ 64)
    (hh : ¬ (r :: rest).length ≤ 64) :
    MockDisplay_from_pattern C fuel (r :: rest) = .panic "Test pattern must not be taller than {} rows" () := by
  unfold MockDisplay_from_pattern
  simp only [bind_def, pure_def, MockDisplay_new_src_eq_model, bind_ok]
  have hw : option_map_or (slice_first (r :: rest)) 0 (fun row => str_len row) = rowLen r := rfl
  simp only [hw, rs_assert, usize_le, SIZE_src_eq_model, Mock.SIZE, h, hh, slice_len, decide_true, decide_false,
    Bool.false_eq_true, ↓reduceIte, bind_ok, bind_panic]

example : rowLen [] ≤ 64 ∧ ¬ (([] : List Char) :: List.replicate 64 []).length ≤ 64 := by decide

end EG.C20.GeneratedPattern
