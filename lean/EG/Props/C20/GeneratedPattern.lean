/-
  C20 — the `Debug` impl and `from_pattern` REGENERATED FROM THE RUST TEXT against the hand model.

  `Debug::fmt` is proved to write, for EVERY display whose cells hold valid colour values of the type: the header line, then
  exactly the model's `MD.debugRows` (one line per row, `chunks(64).take(64 - empty_rows)`, a space for `None`, the type's
  character otherwise), then the "(n empty rows skipped)" line exactly when the model's `MD.emptyRows` (`rchunks(64)
  .take_while(all None).count()`) is positive, with that number, then "]" (`renderDebug`, which only sequences the
  prelude's two write primitives). That the concatenation of these writes is the `String` `MD.debugText` is string algebra
  outside the translation and is not proved here.
-/
import EG.Props.C20.GeneratedColors
set_option linter.unusedSimpArgs false
set_option linter.unusedVariables false
namespace EG.C20.GeneratedPattern
open EG EG.Mock EG.RectSrcPrelude EG.MockSrcPrelude EG.MockSrcLemmas EG.Generated EG.Generated.MockSrc EG.C20.Generated
open EG.C20.GeneratedColors

-- [V] the text written by `Debug::fmt` (`renderDebug` below) equals the model's `MD.debugText` as a `String`: carried by correspondence (stream mock.debug) + oracle only

/-! ### `Debug` -/

/-- the writes of `Debug::fmt`, in order, given the character rows and the number of skipped rows. -/
def renderDebug (f : Formatter) (rows : List (List Char)) (e : Nat) : Formatter :=
  let f1 := fmt_writeln f "MockDisplay[" []
  let f2 := rows.foldl (fun s row => fmt_writeln (row.foldl fmt_write_char s) "" []) f1
  let f3 := if e > 0 then fmt_writeln f2 "({} empty rows skipped)" [usize_display e] else f2
  fmt_writeln f3 "]" []

/-- every cell of the display holds a valid colour value of the type (`Nat` lacks the type bound). -/
def CellsValid (C : CT) (d : MD) : Prop := ∀ c ∈ d.pixels.toList, ∀ col, c = some col → ValidColor C col

example : CellsValid .rgb565 MD.new := by
  intro c hc col h
  have : c = none := by
    simp only [MD.new, Vector.toList_replicate, List.mem_replicate] at hc
    exact hc.2
  rw [this] at h; cases h

theorem pixels_length (d : MD) : d.pixels.toList.length = 64 * 64 := by simp

theorem array_chunks_src (d : MD) : array_chunks (MockDisplay_pixels d) MockSrc.SIZE = d.rows := by
  show chunksFuel 64 d.pixels.toList.length d.pixels.toList = chunks64 d.pixels.toList 64
  exact chunksFuel_eq_chunks64 64 _ _ (pixels_length d) (by rw [pixels_length]; omega)

theorem array_rchunks_src (d : MD) : array_rchunks (MockDisplay_pixels d) MockSrc.SIZE = d.rows.reverse := by
  show rchunksFuel 64 d.pixels.toList.length d.pixels.toList = (chunks64 d.pixels.toList 64).reverse
  exact rchunksFuel_eq_chunks64 64 _ _ (pixels_length d) (by rw [pixels_length]; omega)

/-- `empty_rows` of the source is the model's. -/
theorem empty_rows_src (d : MD) :
    iter_count (iter_take_while (array_rchunks (MockDisplay_pixels d) MockSrc.SIZE)
      (fun row => iter_all (slice_iter row) (fun x => option_is_none x))) = d.emptyRows := by
  rw [array_rchunks_src]; rfl

theorem length_takeWhile_le' {α : Type} (p : α → Bool) : ∀ l : List α, (l.takeWhile p).length ≤ l.length
  | [] => Nat.le_refl _
  | a :: as => by
    simp only [List.takeWhile_cons]
    split
    · simp only [List.length_cons]; have := length_takeWhile_le' p as; omega
    · simp

theorem emptyRows_le (d : MD) : d.emptyRows ≤ 64 := by
  unfold MD.emptyRows
  have h1 := length_takeWhile_le' (fun row : List (Option Color) => row.all Option.isNone) d.rows.reverse
  have h2 : d.rows.reverse.length = 64 := by rw [List.length_reverse]; exact chunks64_length 64 _
  omega

theorem mem_chunks64 : ∀ (n : Nat) (l row : List (Option Color)) (c : Option Color),
    row ∈ chunks64 l n → c ∈ row → c ∈ l
  | 0, l, row, c, h, _ => by cases h
  | n + 1, l, row, c, h, hc => by
    simp only [chunks64, List.mem_cons] at h
    rcases h with h | h
    · subst h; exact List.mem_of_mem_take hc
    · exact List.mem_of_mem_drop (mem_chunks64 n _ row c h hc)

/-- the character of a cell, as the model's `debugRows` writes it. -/
def cellChar (C : CT) : Option Color → Char
  | none => ' '
  | some col => colorToChar C col

theorem debugRows_eq (C : CT) (d : MD) :
    d.debugRows C = (d.rows.take (64 - d.emptyRows)).map (fun row => row.map (cellChar C)) := by
  unfold MD.debugRows
  first
    | rfl
    | (congr 1; funext row; congr 1; funext c; cases c <;> rfl)

/-- the inner loop: one row. -/
theorem row_loop_src (C : CT) : ∀ (row : List (Option Color)) (s : Formatter),
    (∀ c ∈ row, ∀ col, c = some col → ValidColor C col) →
    toOpt (loopM (fun (color : Option Color) (s : Formatter) =>
        (option_map_or_p color ' ' (fun x => ColorMapping_color_to_char C x)).bind
          (fun ch => (MutRes.ok (fmt_write_char s ch) : Panics Formatter))) row s)
      = some ((row.map (cellChar C)).foldl fmt_write_char s)
  | [], s, _ => rfl
  | c :: rest, s, hv => by
    have hrest : ∀ c' ∈ rest, ∀ col, c' = some col → ValidColor C col :=
      fun c' hc' => hv c' (List.mem_cons_of_mem _ hc')
    simp only [loopM, List.map_cons, List.foldl_cons]
    cases c with
    | none =>
      simp only [option_map_or_p, bind_ok, cellChar]
      exact row_loop_src C rest _ hrest
    | some col =>
      have hc := ColorMapping_color_to_char_src_eq_model C col (hv (some col) (List.mem_cons_self) col rfl)
      obtain ⟨_, hok⟩ := toOpt_eq_some hc
      simp only [option_map_or_p, hok, bind_ok, cellChar]
      exact row_loop_src C rest _ hrest

/-- the outer loop: the rows. -/
theorem rows_loop_src (C : CT) : ∀ (rows : List (List (Option Color))) (s : Formatter),
    (∀ row ∈ rows, ∀ c ∈ row, ∀ col, c = some col → ValidColor C col) →
    toOpt (loopM (fun (row : List (Option Color)) (s : Formatter) =>
        (loopM (fun (color : Option Color) (s : Formatter) =>
          (option_map_or_p color ' ' (fun x => ColorMapping_color_to_char C x)).bind
            (fun ch => (MutRes.ok (fmt_write_char s ch) : Panics Formatter))) row s).bind
          (fun s' => (MutRes.ok (fmt_writeln s' "" []) : Panics Formatter))) rows s)
      = some ((rows.map (fun row => row.map (cellChar C))).foldl
          (fun s row => fmt_writeln (row.foldl fmt_write_char s) "" []) s)
  | [], s, _ => rfl
  | row :: rest, s, hv => by
    have hr := row_loop_src C row s (hv row List.mem_cons_self)
    obtain ⟨_, hok⟩ := toOpt_eq_some hr
    simp only [loopM, List.map_cons, List.foldl_cons, hok, bind_ok]
    exact rows_loop_src C rest _ (fun r hr' => hv r (List.mem_cons_of_mem _ hr'))

/-- `Debug::fmt`: never panics on valid cells, and writes exactly the model's rows and skipped-rows line. -/
theorem Debug_fmt_src_eq_model (C : CT) (d : MD) (f : Formatter) (hv : CellsValid C d) :
    toOpt (Debug_fmt C d f) = some (renderDebug f (d.debugRows C) d.emptyRows) := by
  unfold Debug_fmt
  simp only [bind_def, pure_def, empty_rows_src, array_chunks_src]
  have hsub : usize_sub MockSrc.SIZE d.emptyRows = .ok (64 - d.emptyRows) := by
    have := emptyRows_le d
    simp only [usize_sub, SIZE_src_eq_model, Mock.SIZE, this, ↓reduceIte]
  rw [hsub, bind_ok]
  have hvalid : ∀ row ∈ List.take (64 - d.emptyRows) d.rows, ∀ c ∈ row, ∀ col, c = some col → ValidColor C col := by
    intro row hrow c hc col hcol
    exact hv c (mem_chunks64 64 _ row c (List.mem_of_mem_take hrow) hc) col hcol
  have hloop := rows_loop_src C (List.take (64 - d.emptyRows) d.rows) (fmt_writeln f "MockDisplay[" []) hvalid
  obtain ⟨_, hok⟩ := toOpt_eq_some hloop
  rw [forIn_yield' _ (fun (row : List (Option Color)) (s : Formatter) =>
        (loopM (fun (color : Option Color) (s : Formatter) =>
          (option_map_or_p color ' ' (fun x => ColorMapping_color_to_char C x)).bind
            (fun ch => (MutRes.ok (fmt_write_char s ch) : Panics Formatter))) row s).bind
          (fun s' => (MutRes.ok (fmt_writeln s' "" []) : Panics Formatter)))
      (by
        intro row s
        rw [forIn_yield' _ (fun (color : Option Color) (s : Formatter) =>
          (option_map_or_p color ' ' (fun x => ColorMapping_color_to_char C x)).bind
            (fun ch => (MutRes.ok (fmt_write_char s ch) : Panics Formatter))) (by intro c s'; rw [bind_assoc]; rfl)]
        rw [bind_assoc]
        congr 1
        try (funext x; rw [bind_ok]))]
  simp only [iter_take, hok, bind_ok, bind_ok_right, renderDebug, debugRows_eq, usize_gt]
  by_cases he : d.emptyRows > 0
  · simp only [he, decide_true, ↓reduceIte, toOpt]
  · simp only [he, decide_false, Bool.false_eq_true, ↓reduceIte, toOpt]

end EG.C20.GeneratedPattern
