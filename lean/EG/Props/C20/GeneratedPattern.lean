/-
  C20 — the `Debug` impl and `from_pattern` REGENERATED FROM THE RUST TEXT against the hand model.

  `Debug::fmt` is proved to write, for EVERY display whose cells hold valid colour values of the type: the header line, then
  exactly the model's `MD.debugRows` (one line per row, `chunks(64).take(64 - empty_rows)`, a space for `None`, the type's
  character otherwise), then the "(n empty rows skipped)" line exactly when the model's `MD.emptyRows` (`rchunks(64)
  .take_while(all None).count()`) is positive, with that number, then "]" (`renderDebug`, which only sequences the
  prelude's two write primitives), and that these writes concatenate to the `String` `MD.debugText`
  (`Debug_fmt_text_src_eq_model`). `from_pattern`: for every pattern, a panic exactly where the model's `fromPattern`
  rejects, the model's display otherwise.
-/
import EG.Props.C20.GeneratedColors
set_option linter.unusedSimpArgs false
set_option linter.unusedVariables false
namespace EG.C20.GeneratedPattern
open EG EG.Mock EG.RectSrcPrelude EG.MockSrcPrelude EG.MockSrcLemmas EG.Generated EG.Generated.MockSrc EG.C20.Generated
open EG.C20.GeneratedColors

/-! ### `Debug` -/

/-- the writes of `Debug::fmt`, in order, given the character rows and the number of skipped rows. -/
def renderDebug (f : Formatter) (rows : List (List Char)) (e : Nat) : Formatter :=
  let f1 := fmt_writeln f "MockDisplay[" []
  let f2 := rows.foldl (fun s row => fmt_writeln (row.foldl fmt_write_char s) "" []) f1
  let f3 := if e > 0 then fmt_writeln f2 "({} empty rows skipped)" [usize_display e] else f2
  fmt_writeln f3 "]" []

/-- every cell of the display holds a valid colour value of the type (`Nat` lacks the type bound). -/
def CellsValid (C : CT) (d : MD) : Prop := ∀ c ∈ d.pixels.toList, ∀ col, c = some col → ValidColor C col

example : CellsValid .rgb565 MD.new := by
  intro c hc col h
  have : c = none := by
    simp only [MD.new, Vector.toList_replicate, List.mem_replicate] at hc
    exact hc.2
  rw [this] at h; cases h

theorem pixels_length (d : MD) : d.pixels.toList.length = 64 * 64 := by simp

theorem array_chunks_src (d : MD) : array_chunks (MockDisplay_pixels d) MockSrc.SIZE = d.rows := by
  show chunksFuel 64 d.pixels.toList.length d.pixels.toList = chunks64 d.pixels.toList 64
  exact chunksFuel_eq_chunks64 64 _ _ (pixels_length d) (by rw [pixels_length]; omega)

theorem array_rchunks_src (d : MD) : array_rchunks (MockDisplay_pixels d) MockSrc.SIZE = d.rows.reverse := by
  show rchunksFuel 64 d.pixels.toList.length d.pixels.toList = (chunks64 d.pixels.toList 64).reverse
  exact rchunksFuel_eq_chunks64 64 _ _ (pixels_length d) (by rw [pixels_length]; omega)

/-- `empty_rows` of the source is the model's. -/
theorem empty_rows_src (d : MD) :
    iter_count (iter_take_while (array_rchunks (MockDisplay_pixels d) MockSrc.SIZE)
      (fun row => iter_all (slice_iter row) (fun x => option_is_none x))) = d.emptyRows := by
  rw [array_rchunks_src]; rfl

theorem takeWhile_length_le_src {α : Type} (p : α → Bool) : ∀ l : List α, (l.takeWhile p).length ≤ l.length
  | [] => Nat.le_refl _
  | a :: as => by
    simp only [List.takeWhile_cons]
    split
    · simp only [List.length_cons]; have := takeWhile_length_le_src p as; omega
    · simp

theorem src_emptyRows_le (d : MD) : d.emptyRows ≤ 64 := by
  unfold MD.emptyRows
  have h1 := takeWhile_length_le_src (fun row : List (Option Color) => row.all Option.isNone) d.rows.reverse
  have h2 : d.rows.reverse.length = 64 := by rw [List.length_reverse]; exact chunks64_length 64 _
  omega

theorem mem_chunks64 : ∀ (n : Nat) (l row : List (Option Color)) (c : Option Color),
    row ∈ chunks64 l n → c ∈ row → c ∈ l
  | 0, l, row, c, h, _ => by cases h
  | n + 1, l, row, c, h, hc => by
    simp only [chunks64, List.mem_cons] at h
    rcases h with h | h
    · subst h; exact List.mem_of_mem_take hc
    · exact List.mem_of_mem_drop (mem_chunks64 n _ row c h hc)

/-- the character of a cell, as the model's `debugRows` writes it. -/
def cellChar (C : CT) : Option Color → Char
  | none => ' '
  | some col => colorToChar C col

theorem src_debugRows_eq (C : CT) (d : MD) :
    d.debugRows C = (d.rows.take (64 - d.emptyRows)).map (fun row => row.map (cellChar C)) := by
  unfold MD.debugRows
  first
    | rfl
    | (congr 1; funext row; congr 1; funext c; cases c <;> rfl)

/-- the inner loop: one row. -/
theorem row_loop_src (C : CT) : ∀ (row : List (Option Color)) (s : Formatter),
    (∀ c ∈ row, ∀ col, c = some col → ValidColor C col) →
    toOpt (loopM (fun (color : Option Color) (s : Formatter) =>
        (option_map_or_p color ' ' (fun x => ColorMapping_color_to_char C x)).bind
          (fun ch => (MutRes.ok (fmt_write_char s ch) : Panics Formatter))) row s)
      = some ((row.map (cellChar C)).foldl fmt_write_char s)
  | [], s, _ => rfl
  | c :: rest, s, hv => by
    have hrest : ∀ c' ∈ rest, ∀ col, c' = some col → ValidColor C col :=
      fun c' hc' => hv c' (List.mem_cons_of_mem _ hc')
    simp only [loopM, List.map_cons, List.foldl_cons]
    cases c with
    | none =>
      simp only [option_map_or_p, bind_ok, cellChar]
      exact row_loop_src C rest _ hrest
    | some col =>
      have hc := ColorMapping_color_to_char_src_eq_model C col (hv (some col) (List.mem_cons_self) col rfl)
      obtain ⟨_, hok⟩ := toOpt_eq_some hc
      simp only [option_map_or_p, hok, bind_ok, cellChar]
      exact row_loop_src C rest _ hrest

/-- the outer loop: the rows. -/
theorem rows_loop_src (C : CT) : ∀ (rows : List (List (Option Color))) (s : Formatter),
    (∀ row ∈ rows, ∀ c ∈ row, ∀ col, c = some col → ValidColor C col) →
    toOpt (loopM (fun (row : List (Option Color)) (s : Formatter) =>
        (loopM (fun (color : Option Color) (s : Formatter) =>
          (option_map_or_p color ' ' (fun x => ColorMapping_color_to_char C x)).bind
            (fun ch => (MutRes.ok (fmt_write_char s ch) : Panics Formatter))) row s).bind
          (fun s' => (MutRes.ok (fmt_writeln s' "" []) : Panics Formatter))) rows s)
      = some ((rows.map (fun row => row.map (cellChar C))).foldl
          (fun s row => fmt_writeln (row.foldl fmt_write_char s) "" []) s)
  | [], s, _ => rfl
  | row :: rest, s, hv => by
    have hr := row_loop_src C row s (hv row List.mem_cons_self)
    obtain ⟨_, hok⟩ := toOpt_eq_some hr
    simp only [loopM, List.map_cons, List.foldl_cons, hok, bind_ok]
    exact rows_loop_src C rest _ (fun r hr' => hv r (List.mem_cons_of_mem _ hr'))

/-- `Debug::fmt`: never panics on valid cells, and writes exactly the model's rows and skipped-rows line. -/
theorem Debug_fmt_src_eq_model (C : CT) (d : MD) (f : Formatter) (hv : CellsValid C d) :
    toOpt (Debug_fmt C d f) = some (renderDebug f (d.debugRows C) d.emptyRows) := by
  unfold Debug_fmt
  simp only [bind_def, pure_def, empty_rows_src, array_chunks_src]
  have hsub : usize_sub MockSrc.SIZE d.emptyRows = .ok (64 - d.emptyRows) := by
    have := src_emptyRows_le d
    simp only [usize_sub, SIZE_src_eq_model, Mock.SIZE, this, ↓reduceIte]
  rw [hsub, bind_ok]
  have hvalid : ∀ row ∈ List.take (64 - d.emptyRows) d.rows, ∀ c ∈ row, ∀ col, c = some col → ValidColor C col := by
    intro row hrow c hc col hcol
    exact hv c (mem_chunks64 64 _ row c (List.mem_of_mem_take hrow) hc) col hcol
  have hloop := rows_loop_src C (List.take (64 - d.emptyRows) d.rows) (fmt_writeln f "MockDisplay[" []) hvalid
  obtain ⟨_, hok⟩ := toOpt_eq_some hloop
  rw [forIn_yield' _ (fun (row : List (Option Color)) (s : Formatter) =>
        (loopM (fun (color : Option Color) (s : Formatter) =>
          (option_map_or_p color ' ' (fun x => ColorMapping_color_to_char C x)).bind
            (fun ch => (MutRes.ok (fmt_write_char s ch) : Panics Formatter))) row s).bind
          (fun s' => (MutRes.ok (fmt_writeln s' "" []) : Panics Formatter)))
      (by
        intro row s
        rw [forIn_yield' _ (fun (color : Option Color) (s : Formatter) =>
          (option_map_or_p color ' ' (fun x => ColorMapping_color_to_char C x)).bind
            (fun ch => (MutRes.ok (fmt_write_char s ch) : Panics Formatter))) (by intro c s'; rw [bind_assoc]; rfl)]
        rw [bind_assoc]
        congr 1
        try (funext x; rw [bind_ok]))]
  simp only [iter_take, hok, bind_ok, bind_ok_right, renderDebug, src_debugRows_eq, usize_gt]
  by_cases he : d.emptyRows > 0
  · simp only [he, decide_true, ↓reduceIte, toOpt]
  · simp only [he, decide_false, Bool.false_eq_true, ↓reduceIte, toOpt]

theorem push_fold_toList : ∀ (row : List Char) (s : String), (row.foldl fmt_write_char s).toList = s.toList ++ row
  | [], s => by simp
  | c :: rest, s => by
    rw [List.foldl_cons, push_fold_toList rest]
    simp only [fmt_write_char, String.toList_push, List.append_assoc, List.singleton_append]

theorem fmtSubst_empty : fmtSubst "".toList [] = [] := by decide
theorem fmtSubst_header : fmtSubst "MockDisplay[".toList [] = "MockDisplay[".toList := by decide
theorem fmtSubst_close : fmtSubst "]".toList [] = "]".toList := by decide
theorem fmtSubst_skipped (a : String) :
    fmtSubst "({} empty rows skipped)".toList [a] = "(".toList ++ a.toList ++ " empty rows skipped)".toList := by
  rfl

theorem rows_fold_toList : ∀ (rows : List (List Char)) (s : String),
    (rows.foldl (fun s row => fmt_writeln (row.foldl fmt_write_char s) "" []) s).toList
      = s.toList ++ rows.flatMap (fun r => r ++ ['\n'])
  | [], s => by simp
  | r :: rest, s => by
    rw [List.foldl_cons, rows_fold_toList rest]
    simp only [fmt_writeln, String.toList_append, push_fold_toList, fmtSubst_empty, String.toList_ofList,
      List.flatMap_cons, List.append_assoc, List.append_nil]
    rfl

/-- the writes of `Debug::fmt` concatenate to the model's complete `{:?}` text. -/
theorem renderDebug_eq_debugText (C : CT) (d : MD) (f : String) :
    renderDebug f (d.debugRows C) d.emptyRows = f ++ d.debugText C := by
  apply String.ext
  unfold renderDebug MD.debugText
  have l1 : "MockDisplay[\n".toList = "MockDisplay[".toList ++ ['\n'] := by decide
  have l2 : " empty rows skipped)\n".toList = " empty rows skipped)".toList ++ ['\n'] := by decide
  have l3 : "]\n".toList = "]".toList ++ ['\n'] := by decide
  have l4 : "\n".toList = ['\n'] := by decide
  have l5 : "".toList = [] := by decide
  by_cases he : d.emptyRows > 0
  · simp only [he, ↓reduceIte, fmt_writeln, String.toList_append, rows_fold_toList, String.toList_ofList,
      fmtSubst_header, fmtSubst_close, fmtSubst_skipped, usize_display, String.toList_join, List.flatMap_map,
      l1, l2, l3, l4, List.append_assoc, List.append_nil]
  · simp only [he, ↓reduceIte, fmt_writeln, String.toList_append, rows_fold_toList, String.toList_ofList,
      fmtSubst_header, fmtSubst_close, fmtSubst_skipped, usize_display, String.toList_join, List.flatMap_map,
      l1, l2, l3, l4, List.append_assoc, List.append_nil]
    simp only [l5, List.nil_append, List.append_nil]

/-- `Debug::fmt` appends exactly the model's complete `{:?}` text to the formatter (valid cells). -/
theorem Debug_fmt_text_src_eq_model (C : CT) (d : MD) (f : Formatter) (hv : CellsValid C d) :
    toOpt (Debug_fmt C d f) = some (f ++ d.debugText C) := by
  rw [Debug_fmt_src_eq_model C d f hv, renderDebug_eq_debugText]

/-! ### `from_pattern`

`pattern_colors` is a LAZY iterator (`List (Panics (Option Color))`: the `map` closure calls `C::char_to_color`, which can
panic); the final `for` loop pulls its 4096 elements one by one and stores them. `seqO` (EG/Lemmas/MockSrc.lean) is "pull
everything, `none` at the first panic". The width / height / row assertions come first, so when the loop runs every row has
at most 64 chars (`length_le_rowLen`: chars ≤ UTF-8 bytes) and there are at most 64 rows: no `take` cuts a converted char. -/

/-- the conversion closure of `from_pattern`. -/
def convSrc (C : CT) (c : Char) : Panics (Option Color) :=
  match c with
  | ' ' => MutRes.ok none
  | _ => MutRes.bind (ColorMapping_char_to_color C c) fun v => MutRes.ok (some v)

theorem convSrc_eq (C : CT) (c : Char) : toOpt (convSrc C c) = convChar C c := by
  unfold convSrc convChar
  split
  · rfl
  · rename_i h
    have hne : ¬ c = ' ' := fun e => h e
    simp only [hne, ↓reduceIte]
    rw [← ColorMapping_char_to_color_src_eq_model]
    cases ColorMapping_char_to_color C c <;> rfl

theorem seqO_convRow (C : CT) : ∀ row : List Char, seqO (row.map (convChar C)) = convRow C row
  | [] => rfl
  | c :: rest => by
    have ih := seqO_convRow C rest
    simp only [List.map_cons, seqO, convRow, ih]
    cases convChar C c <;> cases convRow C rest <;> rfl

theorem convRow_length (C : CT) (row : List Char) (cs : List (Option Color)) (h : convRow C row = some cs) :
    cs.length = row.length := by
  rw [← seqO_convRow] at h
  have := seqO_length _ _ h
  simpa using this

theorem padRow_eq (cs : List (Option Color)) (h : cs.length ≤ 64) :
    padRow cs = cs ++ List.replicate (64 - cs.length) none := by
  unfold padRow
  rw [List.take_append, List.take_of_length_le h, List.take_replicate]
  congr 2
  omega

/-- the row closure of `from_pattern`: a lazy iterator of 64 cells. -/
def rowLZ (C : CT) (fuel : Nat) (row : List Char) : List (Panics (Option Color)) :=
  iter_take (iter_chain (iter_map_lazy (str_chars row) (convSrc C)) (iter_lift (iter_repeat fuel none))) 64

theorem rowLZ_opt (C : CT) (fuel : Nat) (hf : 64 ≤ fuel) (row : List Char) (hr : row.length ≤ 64) :
    seqO ((rowLZ C fuel row).map toOpt) = (convRow C row).map padRow := by
  have hmap : (rowLZ C fuel row).map toOpt
      = row.map (convChar C) ++ (List.replicate (64 - row.length) (none : Option Color)).map some := by
    simp only [rowLZ, iter_take, iter_chain, iter_map_lazy, iter_lift, iter_repeat, str_chars]
    rw [List.take_append, List.take_of_length_le (by simp; exact hr), List.map_append, List.map_map]
    congr 1
    · apply List.map_congr_left
      intro c _
      exact convSrc_eq C c
    · simp only [List.length_map, List.map_take, List.map_map, List.map_replicate, List.take_replicate]
      congr 1
      omega
  rw [hmap, seqO_append, seqO_some, seqO_convRow]
  cases hc : convRow C row with
  | none => rfl
  | some cs =>
    have hl := convRow_length C row cs hc
    simp only [Option.bind_some, Option.map_some, Option.some.injEq]
    rw [padRow_eq cs (by omega), hl]

theorem rowLZ_length (C : CT) (fuel : Nat) (hf : 64 ≤ fuel) (row : List Char) : (rowLZ C fuel row).length = 64 := by
  simp only [rowLZ, iter_take, iter_chain, iter_map_lazy, iter_lift, iter_repeat, str_chars, List.length_take,
    List.length_append, List.length_map, List.length_replicate]
  omega

theorem flatLZ_opt (C : CT) (fuel : Nat) (hf : 64 ≤ fuel) : ∀ (pat : List (List Char)), (∀ row ∈ pat, row.length ≤ 64) →
    seqO ((pat.flatMap (rowLZ C fuel)).map toOpt) = (convRows C pat).map (fun rows => rows.flatMap padRow)
  | [], _ => rfl
  | r :: rest, h => by
    have ih := flatLZ_opt C fuel hf rest (fun row hr => h row (List.mem_cons_of_mem _ hr))
    rw [List.flatMap_cons, List.map_append, seqO_append, rowLZ_opt C fuel hf r (h r List.mem_cons_self), ih]
    simp only [convRows]
    cases convRow C r <;> cases convRows C rest <;> simp

theorem flatLZ_length (C : CT) (fuel : Nat) (hf : 64 ≤ fuel) : ∀ (pat : List (List Char)),
    (pat.flatMap (rowLZ C fuel)).length = 64 * pat.length
  | [] => rfl
  | r :: rest => by
    rw [List.flatMap_cons, List.length_append, rowLZ_length C fuel hf, flatLZ_length C fuel hf rest, List.length_cons]
    omega

theorem length_le_rowLen : ∀ row : List Char, row.length ≤ rowLen row
  | [] => Nat.le_refl _
  | c :: rest => by
    have := length_le_rowLen rest
    have hc := Char.utf8Size_pos c
    simp only [rowLen, List.map_cons, List.sum_cons, List.length_cons] at this ⊢
    omega

/-- the whole lazy iterator `pattern_colors`. -/
def allLZ (C : CT) (fuel : Nat) (pat : List (List Char)) : List (Panics (Option Color)) :=
  iter_take (iter_chain (iter_flat_map (slice_iter pat) (rowLZ C fuel)) (iter_lift (iter_repeat fuel none))) 4096

theorem allLZ_length (C : CT) (fuel : Nat) (hf : 4096 ≤ fuel) (pat : List (List Char)) : (allLZ C fuel pat).length = 4096 := by
  simp only [allLZ, iter_take, iter_chain, iter_flat_map, iter_lift, iter_repeat, slice_iter, List.length_take,
    List.length_append, List.length_map, List.length_replicate]
  omega

theorem allLZ_opt (C : CT) (fuel : Nat) (hf : 4096 ≤ fuel) (pat : List (List Char)) (hp : pat.length ≤ 64)
    (hr : ∀ row ∈ pat, row.length ≤ 64) :
    seqO ((allLZ C fuel pat).map toOpt) = (convRows C pat).map patternColors := by
  have hlen := flatLZ_length C fuel (by omega) pat
  have hmap : (allLZ C fuel pat).map toOpt
      = (pat.flatMap (rowLZ C fuel)).map toOpt ++ (List.replicate (4096 - 64 * pat.length) (none : Option Color)).map some := by
    simp only [allLZ, iter_take, iter_chain, iter_flat_map, iter_lift, iter_repeat, slice_iter]
    rw [List.take_append, List.take_of_length_le (by rw [hlen]; omega), List.map_append]
    congr 1
    simp only [hlen, List.map_take, List.map_map, List.map_replicate, List.take_replicate]
    congr 1
    omega
  rw [hmap, seqO_append, seqO_some, flatLZ_opt C fuel (by omega) pat hr]
  cases hc : convRows C pat with
  | none => rfl
  | some rows =>
    have hl := convRows_length C pat rows hc
    have hfl := flatMap_padRow_length rows
    simp only [Option.map_some, Option.bind_some, Option.some.injEq]
    unfold patternColors
    rw [List.take_append, List.take_of_length_le (by rw [hfl]; omega), List.take_replicate, hfl, hl]
    congr 2
    omega

/-- the body of the copy loop of `from_pattern`: pull the element (run its computation), store it. -/
def storeLZ (x : Nat × Panics (Option Color)) (s : MD) : Panics MD :=
  x.2.bind fun c => (array_set (MockDisplay_pixels s) x.1 c).bind fun v => MutRes.ok (MockDisplay_with_pixels s v)

/-- the copy loop: if every pulled computation yields a value the display ends up holding exactly those values
(`cells`), and the loop panics exactly when one of them panics. -/
theorem storeLZ_loop : ∀ (LZ : List (Panics (Option Color))) (k : Nat) (d : MD), k + LZ.length = 4096 →
    ∀ pre : List (Option Color), d.pixels.toList.take k = pre → d.allowOverdraw = false → d.allowOob = false →
    toOpt (loopM storeLZ ((List.range' k LZ.length).zip LZ) d)
      = (seqO (LZ.map toOpt)).bind (fun L => if h : (pre ++ L).length = 4096
          then some ⟨⟨(pre ++ L).toArray, by simpa using h⟩, false, false⟩ else none)
  | [], k, d, h, pre, hpre, ho, hb => by
    have hk : k = 4096 := by simpa using h
    have hl : pre = d.pixels.toList := by rw [← hpre, List.take_of_length_le (by simp; omega)]
    simp only [List.length_nil, List.range'_zero, List.zip_nil_left, loopM, toOpt, List.map_nil, seqO, Option.bind_some,
      List.append_nil]
    have hlen : pre.length = 4096 := by rw [hl]; simp
    simp only [hlen, ↓reduceDIte, Option.some.injEq]
    obtain ⟨px, o, b⟩ := d
    simp only at ho hb hl
    subst ho hb
    congr 1
    apply Vector.toList_inj.mp
    simp [hl]
  | a :: rest, k, d, h, pre, hpre, ho, hb => by
    have hk : k < 4096 := by simp at h; omega
    rw [List.length_cons, List.range'_succ, List.zip_cons_cons]
    cases a with
    | panic m s => simp only [loopM, storeLZ, bind_panic, toOpt, List.map_cons, seqO, Option.bind_none]
    | ok v =>
      have ih := storeLZ_loop rest (k + 1) { d with pixels := d.pixels.set k v hk } (by simp at h ⊢; omega) (pre ++ [v])
        (by
          simp only [Vector.toList_set]
          rw [List.take_succ_eq_append_getElem (by simp; omega), List.take_set_of_le (Nat.le_refl k), List.getElem_set_self,
            hpre]) ho hb
      simp only [loopM, storeLZ, bind_ok, array_set, MockDisplay_pixels, hk, ↓reduceDIte, MockDisplay_with_pixels]
      rw [ih]
      simp only [List.map_cons, toOpt, seqO, Option.bind_some]
      cases seqO (rest.map toOpt) with
      | none => rfl
      | some L => simp only [Option.bind_some, List.append_assoc, List.singleton_append]

/-- the result of `from_pattern` with the kind of panic forgotten. -/
def patOpt : PatRes → Option MD
  | .ok d => some d
  | _ => none

/-- the loop over the rows with the `assert_eq!` of the row width. -/
def rowAssertSrc (W : Nat) (x : Nat × List Char) (u : PUnit) : Panics PUnit :=
  (rs_assert (rs_eq (str_len x.snd) W)
    "Row #{} is {} characters wide (must be {} characters to match previous rows)").bind fun _ => MutRes.ok PUnit.unit

theorem row_assert_loop (W : Nat) : ∀ (l : List (Nat × List Char)),
    toOpt (loopM (rowAssertSrc W) l PUnit.unit) = if (l.map Prod.snd).all (fun r => rowLen r == W) then some PUnit.unit else none
  | [] => rfl
  | x :: rest => by
    have ih := row_assert_loop W rest
    simp only [loopM, rowAssertSrc, List.map_cons, List.all_cons, rs_assert, rs_eq, str_len, rowLen] at ih ⊢
    by_cases h : ((List.map Char.utf8Size x.snd).sum == W) = true
    · simp only [h, ↓reduceIte, bind_ok, Bool.true_and]
      exact ih
    · simp only [h, Bool.false_eq_true, ↓reduceIte, bind_panic, toOpt, Bool.false_and]

/-- the hand model's `fromPattern` with the width of the first row given. -/
def fromPatternW (C : CT) (pat : List (List Char)) (W : Nat) : PatRes :=
  if ¬ W ≤ 64 then .panicWidth
  else if ¬ pat.length ≤ 64 then .panicHeight
  else if ¬ pat.all (fun r => rowLen r == W) then .panicRow
  else match convRows C pat with
    | none => .panicChar
    | some rows => .ok ⟨cellsOfPattern rows, false, false⟩

theorem width_src (C : CT) (pat : List (List Char)) :
    ∃ W, option_map_or (slice_first pat) 0 (fun row => str_len row) = W ∧ fromPattern C pat = fromPatternW C pat W := by
  cases pat with
  | nil => exact ⟨0, rfl, rfl⟩
  | cons r rest => exact ⟨rowLen r, rfl, rfl⟩

theorem toOpt_none {σ α : Type} {r : MutRes σ α} (h : toOpt r = none) : ∃ m s, r = .panic m s := by
  cases r with
  | ok v => cases h
  | panic m s => exact ⟨m, s, rfl⟩


theorem allLZ_rw (C : CT) (fuel : Nat) (pat : List (List Char)) (g : List Char → List (Panics (Option Color)))
    (h : ∀ row, g row = rowLZ C fuel row) :
    iter_take (iter_chain (iter_flat_map (slice_iter pat) g) (iter_lift (iter_repeat fuel none))) 4096 = allLZ C fuel pat := by
  have : g = rowLZ C fuel := funext h
  subst this; rfl

/-- `from_pattern`: panics on exactly the patterns the model rejects (width in bytes of the first row, height, ragged
rows, a character the type does not accept), and otherwise builds the model's display (`fuel` is what `iter::repeat` runs
on: any value from 4096 on). -/
theorem MockDisplay_from_pattern_src_eq_model (C : CT) (fuel : Nat) (pat : List (List Char)) (hf : 4096 ≤ fuel) :
    toOpt (MockDisplay_from_pattern C fuel pat) = patOpt (fromPattern C pat) := by
  unfold MockDisplay_from_pattern
  simp only [bind_def, pure_def, MockDisplay_new_src_eq_model, bind_ok]
  obtain ⟨W, hW1, hW2⟩ := width_src C pat
  rw [hW1, hW2]
  unfold fromPatternW
  by_cases h1n : ¬ W ≤ 64
  · have h1 := h1n
    simp only [rs_assert, usize_le, SIZE_src_eq_model, Mock.SIZE, h1, decide_false, Bool.false_eq_true, ↓reduceIte, bind_panic,
      toOpt, not_false_eq_true, patOpt]
  have h1 : W ≤ 64 := by omega
  by_cases h2n : ¬ pat.length ≤ 64
  · have h2 := h2n
    simp only [rs_assert, usize_le, SIZE_src_eq_model, Mock.SIZE, h1, h2, slice_len, decide_true, decide_false,
      Bool.false_eq_true, ↓reduceIte, bind_ok, bind_panic, toOpt, not_false_eq_true, not_true_eq_false, patOpt]
  have h2 : pat.length ≤ 64 := by omega
  simp only [rs_assert, usize_le, SIZE_src_eq_model, Mock.SIZE, h1, h2, slice_len, decide_true, ↓reduceIte, bind_ok,
    not_true_eq_false]
  -- the rows
  rw [forIn_yield' _ (rowAssertSrc W) (by
    intro x u
    unfold rowAssertSrc
    rw [bind_assoc]; congr 1)]
  have hrows := row_assert_loop W (iter_enumerate (slice_iter pat))
  have hsnd : (iter_enumerate (slice_iter pat)).map Prod.snd = pat := by
    simp only [iter_enumerate, slice_iter]
    exact List.map_snd_zip (by simp)
  rw [hsnd] at hrows
  by_cases h3n : ¬ pat.all (fun r => rowLen r == W) = true
  · have h3 : pat.all (fun r => rowLen r == W) = false := by simpa using h3n
    simp only [h3, Bool.false_eq_true, ↓reduceIte] at hrows
    obtain ⟨m, s, hp⟩ := toOpt_none hrows
    simp only [hp, bind_panic, toOpt, h3, Bool.false_eq_true, not_false_eq_true, ↓reduceIte, patOpt]
  have h3 : pat.all (fun r => rowLen r == W) = true := by
    cases hx : pat.all (fun r => rowLen r == W) with
    | true => rfl
    | false => exact absurd (by rw [hx]; exact Bool.false_ne_true) h3n
  simp only [h3, ↓reduceIte] at hrows
  obtain ⟨_, hok⟩ := toOpt_eq_some hrows
  simp only [hok, bind_ok, h3, not_true_eq_false, ↓reduceIte]
  -- the lazy iterator and the copy loop that pulls it
  have hmul : usize_mul 64 64 = .ok 4096 := by simp [usize_mul, U64]
  simp only [hmul, bind_ok]
  rw [allLZ_rw C fuel pat _ (by intro row; rfl)]
  rw [forIn_yield' _ storeLZ (by
    intro x s
    unfold storeLZ
    rw [bind_assoc]; congr 1; funext c
    rw [bind_assoc]; congr 1
    try (funext v; rw [bind_ok]))]
  have hrl : ∀ row ∈ pat, row.length ≤ 64 := by
    intro row hrow
    have := (List.all_eq_true.mp h3) row hrow
    have hw : rowLen row = W := by simpa using this
    have := length_le_rowLen row
    omega
  have henum : iter_enumerate (allLZ C fuel pat)
      = (List.range' 0 (allLZ C fuel pat).length).zip (allLZ C fuel pat) := by
    simp only [iter_enumerate, List.range_eq_range']
  rw [henum, bind_ok_right,
    storeLZ_loop (allLZ C fuel pat) 0 MD.new (by rw [allLZ_length C fuel hf]) [] (by simp) rfl rfl,
    allLZ_opt C fuel hf pat h2 hrl]
  cases hc : convRows C pat with
  | none => rfl
  | some rows =>
    have hlen := patternColors_length rows
    simp only [Option.map_some, Option.bind_some, List.nil_append, hlen, ↓reduceDIte, patOpt]
    rfl


example : (4096 : Nat) ≤ 4096 := Nat.le_refl _

/-- which assertion fires first, with its message: the width (in BYTES of the first row), then the height. -/
theorem from_pattern_width_msg (C : CT) (fuel : Nat) (r : List Char) (rest : List (List Char)) (h : ¬ rowLen r ≤ 64) :
    MockDisplay_from_pattern C fuel (r :: rest) = .panic "Test pattern must not be wider than {} columns" () := by
  unfold MockDisplay_from_pattern
  simp only [bind_def, pure_def, MockDisplay_new_src_eq_model, bind_ok]
  have hw : option_map_or (slice_first (r :: rest)) 0 (fun row => str_len row) = rowLen r := rfl
  simp only [hw, rs_assert, usize_le, SIZE_src_eq_model, Mock.SIZE, h, decide_false, Bool.false_eq_true, ↓reduceIte, bind_panic]

example : ¬ rowLen (List.replicate 65 'a') ≤ 64 := by decide

theorem from_pattern_height_msg (C : CT) (fuel : Nat) (r : List Char) (rest : List (List Char)) (h : rowLen r ≤ 64)
    (hh : ¬ (r :: rest).length ≤ 64) :
    MockDisplay_from_pattern C fuel (r :: rest) = .panic "Test pattern must not be taller than {} rows" () := by
  unfold MockDisplay_from_pattern
  simp only [bind_def, pure_def, MockDisplay_new_src_eq_model, bind_ok]
  have hw : option_map_or (slice_first (r :: rest)) 0 (fun row => str_len row) = rowLen r := rfl
  simp only [hw, rs_assert, usize_le, SIZE_src_eq_model, Mock.SIZE, h, hh, slice_len, decide_true, decide_false,
    Bool.false_eq_true, ↓reduceIte, bind_ok, bind_panic]

example : rowLen [] ≤ 64 ∧ ¬ (([] : List Char) :: List.replicate 64 []).length ≤ 64 := by decide

end EG.C20.GeneratedPattern
