/-
  C20 / colour types — the model's list of `ColorMapping` types is the source's list.

  `EG.Model.MockDisplay` (`CT`, `charToColor`, `colorToChar`), `allCT` (the finite table the [F] theorems
  `char_color_roundtrip` / `color_char_roundtrip` / `pattern_debug_roundtrip` range over) and the harness
  (`TYPES` of m_mock.rs) name the colour types by hand. tools/tr_mock.py reads every
  `impl ColorMapping for` of /repo (written out or produced by `impl_gray_color_mapping!` /
  `impl_rgb_color_mapping!`) into `EG.Generated.MockTypes` on every run; the theorems below fail to build when
  a type is added or removed, a gray radix changes, or a pattern character of the RGB / binary tables is
  renamed — changes the correspondence streams could not notice, because they only run the types listed
  by hand.
-/
import EG.Generated.MockTypes
import EG.Model.MockTypes
import EG.Lemmas.MockPattern
namespace EG.C20.Types
open EG EG.Mock EG.Generated.MockTypes

/-- Every implementing type of the source is a colour type of the model, in the same order, and the
model has no other: "all twelve `ColorMapping` types" of the [F] theorems is the source's count. -/
theorem color_mapping_types_complete :
    mappingTypes.map (fun e => ctOfRustName e.1) = allCT.map some ∧
    mappingTypes.length = implsSeen ∧ allCT.length = implsSeen := by decide

/-- The radices handed to `impl_gray_color_mapping!` are the ones the model's digit readers implement
(`Gray2`: `to_digit(4)`, `Gray4`: `to_digit(16)`); every other type is written out or uses the RGB macro. -/
theorem gray_radices :
    (mappingTypes.filter (fun e => e.2.1 == "impl_gray_color_mapping")).map
        (fun e => ((ctOfRustName e.1).bind grayRadix, e.2.2)) = [(some 4, 4), (some 16, 16)] ∧
    (mappingTypes.filter (fun e => e.2.1 == "impl")).map (fun e => e.1) = ["BinaryColor", "Gray8"] ∧
    (mappingTypes.filter (fun e => e.2.1 == "impl_rgb_color_mapping")).map (fun e => ctOfRustName e.1) =
      [some .rgb332, some .rgb444, some .rgb555, some .bgr555, some .rgb565, some .bgr565, some .rgb888,
       some .bgr888] := by decide

/-- The pattern characters of the source's tables are the model's: `K R G B Y M C W` in the order of
`RgbLayout.named` (black, the primaries, the mixtures, white), `.` / `#` for `BinaryColor`. -/
theorem pattern_characters :
    rgbChars = [('K', "BLACK"), ('R', "RED"), ('G', "GREEN"), ('B', "BLUE"), ('Y', "YELLOW"),
                ('M', "MAGENTA"), ('C', "CYAN"), ('W', "WHITE")] ∧
    rgbChars.map (·.1) = charset .rgb565 ∧
    rgbChars.map (·.1) = ((⟨5, 6, 5, false⟩ : RgbLayout).named).map (·.1) ∧
    binaryChars = [('.', "Off"), ('#', "On")] ∧ binaryChars.map (·.1) = charset .binary := by decide

end EG.C20.Types
