/-
  C20 — the code of `MockDisplay` REGENERATED FROM THE RUST TEXT equals the hand-written model.

  `EG.Generated.MockSrc` (written by tools/tr_mocksrc.py from src/mock_display/mod.rs and color_mapping.rs on every
  check) is proved equal to `EG.Model.MockDisplay`, function by function, for all inputs. A generated function returns
  `MutRes σ α` (a value, or a panic message with the receiver's state at the panic); the hand model returns `Option`
  (`none` = panic) or `Res` (`Res.panic d` = panicked leaving the display `d`). `toOpt` / `toRes` forget the message;
  the messages are stated separately (`*_panic_msg`).
-/
import EG.Generated.MockSrc
import EG.Lemmas.MockSrc
import EG.Props.C16.Generated
import EG.Props.C20
set_option linter.unusedSimpArgs false
set_option linter.unusedVariables false
namespace EG.C20.Generated
open EG EG.Mock EG.RectSrcPrelude EG.MockSrcPrelude EG.MockSrcLemmas EG.Generated EG.Generated.MockSrc

/-- forget the panic message: the hand model's `Res`. -/
def toRes : MutRes MD MD → Res
  | .ok d => .ok d
  | .panic _ d => .panic d

/-- a store of the hand model (`none` = panic) as a `Res`: a panicking store leaves the display `d`. -/
def optRes (d : MD) : Option MD → Res
  | some d' => .ok d'
  | none => .panic d

/-- the panic message, if any. -/
def panicMsg {σ α : Type} : MutRes σ α → Option String
  | .ok _ => none
  | .panic m _ => some m

/-- `simp only` with every name of the prelude (and the monad). -/
macro "mock_simp" "[" ts:Lean.Parser.Tactic.simpLemma,* "]" : tactic =>
  `(tactic| simp only [bind, pure, MutRes.bind, at_state, rs_panic, rs_assert, bool_and_lazy, bool_or_lazy, rs_eq, rs_ne,
    usize_lt, usize_gt, usize_le, usize_ge, usize_add, usize_mul, usize_sub, u8_mul, u8_and, u8_shr, const_mul,
    usize_as_u32, u32_as_u8, u8_as_u32, option_is_some, option_is_none, option_map,
    option_map_p, option_or, option_map_or, option_map_or_p, option_unwrap, option_unwrap_or, Rectangle_default,
    array_repeat, array_index, array_set, array_iter, slice_iter, slice_first, slice_len, iter_into_iter, iter_zip,
    iter_enumerate, iter_filter_map, iter_map, iter_flat_map, iter_take_while, iter_all, iter_fold, iter_chain,
    iter_take, iter_count, iter_repeat, iter_eq, MockDisplay_mk, MockDisplay_pixels, MockDisplay_allow_overdraw,
    MockDisplay_allow_out_of_bounds_drawing, MockDisplay_with_pixels, MockDisplay_with_allow_overdraw,
    MockDisplay_with_allow_out_of_bounds_drawing, OriginDimensions_bounding_box, Rectangle_points,
    Point_x, Point_y, Rectangle_size, i32_add, i32_mul, i32_ge, i32_lt, bool_and, bool_not, bool_or, $ts,*])

/-! ### constants, constructors, flags -/

theorem i32_as_usize_eq (a : Int) : i32_as_usize a = asUsize a := rfl
theorem SIZE_as_i32 : usize_as_i32 MockSrc.SIZE = 64 := by decide

theorem SIZE_src_eq_model : MockSrc.SIZE = Mock.SIZE := rfl

theorem DISPLAY_AREA_src_eq_model : DISPLAY_AREA = displayArea := by decide

theorem Default_default_src_eq_model : Default_default = .ok MD.new := rfl

theorem MockDisplay_new_src_eq_model : MockDisplay_new = .ok MD.new := rfl

theorem OriginDimensions_size_src_eq_model (d : MD) : OriginDimensions_size d = .ok displayArea.size := by
  unfold OriginDimensions_size; rw [DISPLAY_AREA_src_eq_model]; rfl

/-- `self.bounding_box()` of the display is the display area. -/
theorem bounding_box_src (d : MD) :
    (OriginDimensions_size d).bind (fun s => (MutRes.ok (OriginDimensions_bounding_box s) : Panics Rectangle)) = .ok displayArea := by
  rw [OriginDimensions_size_src_eq_model]; rfl

theorem MockDisplay_set_allow_overdraw_src_eq_model (d : MD) (v : Bool) :
    MockDisplay_set_allow_overdraw d v = .ok (d.setAllowOverdraw v) := rfl

theorem MockDisplay_set_allow_out_of_bounds_drawing_src_eq_model (d : MD) (v : Bool) :
    MockDisplay_set_allow_out_of_bounds_drawing d v = .ok (d.setAllowOob v) := rfl

/-! ### cell access -/

/-- `get_pixel`: same value, panics on the same points (overflow of the `usize` index arithmetic, index outside the array). -/
theorem MockDisplay_get_pixel_src_eq_model (d : MD) (p : Pt) : toOpt (MockDisplay_get_pixel d p) = d.getPixel p := by
  unfold MockDisplay_get_pixel MD.getPixel
  mock_simp [ckMul, ckAdd, i32_as_usize_eq, SIZE_src_eq_model]
  by_cases h1 : asUsize p.y * Mock.SIZE < U64 <;> simp only [h1, ↓reduceIte, toOpt]
  by_cases h2 : asUsize p.x + asUsize p.y * Mock.SIZE < U64 <;> simp only [h2, ↓reduceIte, toOpt]
  by_cases h3 : asUsize p.x + asUsize p.y * Mock.SIZE < 4096 <;> simp only [h3, ↓reduceDIte, toOpt]

/-- `set_pixel_unchecked`: the store, or the index panic leaving the display as it was. -/
theorem MockDisplay_set_pixel_unchecked_src_eq_model (d : MD) (p : Pt) (c : Option Color) :
    MockDisplay_set_pixel_unchecked d p c =
      match d.setPixelUnchecked p c with
      | some d' => .ok d'
      | none => .panic "index out of bounds" d := by
  unfold MockDisplay_set_pixel_unchecked MD.setPixelUnchecked
  mock_simp [i32_as_usize_eq, SIZE_as_i32]
  by_cases h : asUsize (p.x + p.y * 64) < 4096 <;> simp only [h, ↓reduceDIte]

theorem MockDisplay_set_pixel_unchecked_toRes (d : MD) (p : Pt) (c : Option Color) :
    toRes (MockDisplay_set_pixel_unchecked d p c) = optRes d (d.setPixelUnchecked p c) := by
  rw [MockDisplay_set_pixel_unchecked_src_eq_model]; cases d.setPixelUnchecked p c <;> rfl

theorem displayArea_fits : EG.C16.Src.FitsI32 displayArea.size := by decide

theorem contains_display_src (p : Pt) : RectSrc.contains displayArea p = displayArea.contains p :=
  EG.C16.Src.contains_src_eq_model _ _ displayArea_fits

/-- `set_pixel`: the `assert!`, then the store. -/
theorem MockDisplay_set_pixel_src_eq_model (d : MD) (p : Pt) (c : Option Color) :
    toRes (MockDisplay_set_pixel d p c) = optRes d (d.setPixel p c) := by
  rw [show d.setPixel p c = if p.x ≥ 0 ∧ p.y ≥ 0 ∧ p.x < 64 ∧ p.y < 64 then d.setPixelUnchecked p c else none from rfl]
  by_cases h : p.x ≥ 0 ∧ p.y ≥ 0 ∧ p.x < 64 ∧ p.y < 64
  · have hb : (decide (p.x ≥ 0) && decide (p.y ≥ 0) && decide (p.x < 64) && decide (p.y < 64)) = true := by
      simp only [Bool.and_eq_true, decide_eq_true_eq]; omega
    rw [if_pos h, ← MockDisplay_set_pixel_unchecked_toRes]
    unfold MockDisplay_set_pixel MockDisplay_set_pixel_unchecked
    mock_simp [SIZE_as_i32, hb, ↓reduceIte]
  · have hb : (decide (p.x ≥ 0) && decide (p.y ≥ 0) && decide (p.x < 64) && decide (p.y < 64)) = false := by
      rw [Bool.eq_false_iff]; simp only [ne_eq, Bool.and_eq_true, decide_eq_true_eq]; omega
    rw [if_neg h]
    unfold MockDisplay_set_pixel
    mock_simp [SIZE_as_i32, hb, ↓reduceIte]
    rfl

/-- the message of a panicking `set_pixel` outside the display is the `assert!`'s. -/
theorem MockDisplay_set_pixel_panic_msg (d : MD) (p : Pt) (c : Option Color) (h : ¬ Inside p) :
    MockDisplay_set_pixel d p c = .panic "point must be inside display bounding box: {:?}" d := by
  have hb : (decide (p.x ≥ 0) && decide (p.y ≥ 0) && decide (p.x < 64) && decide (p.y < 64)) = false := by
    rw [Bool.eq_false_iff]; simp only [ne_eq, Bool.and_eq_true, decide_eq_true_eq]; unfold Inside at h; omega
  unfold MockDisplay_set_pixel
  mock_simp [SIZE_as_i32, hb, ↓reduceIte, Bool.false_eq_true]

/-- `draw_pixel`: bounds test, overdraw test, store, in the order of the source; a panic leaves the display as it was. -/
theorem MockDisplay_draw_pixel_src_eq_model (d : MD) (p : Pt) (c : Color) :
    toRes (MockDisplay_draw_pixel d p c) = d.drawPixel p c := by
  unfold MockDisplay_draw_pixel MD.drawPixel
  mock_simp [DISPLAY_AREA_src_eq_model, contains_display_src]
  rw [← MockDisplay_get_pixel_src_eq_model]
  by_cases h1 : (!displayArea.contains p) = true <;> simp only [h1, ↓reduceIte, Bool.false_eq_true]
  · by_cases h2 : (!d.allowOob) = true <;> simp only [h2, ↓reduceIte, toRes, Bool.false_eq_true]
  · by_cases h3 : (!d.allowOverdraw) = true <;> simp only [h3, ↓reduceIte, toRes, Bool.false_eq_true]
    · cases MockDisplay_get_pixel d p with
      | panic m s => simp only [toOpt, toRes]
      | ok v =>
        simp only [toOpt]
        cases hv : v.isSome <;> simp only [toRes, ↓reduceIte, Bool.false_eq_true]
        rw [MockDisplay_set_pixel_unchecked_src_eq_model]; cases d.setPixelUnchecked p (some c) <;> rfl
    · rw [MockDisplay_set_pixel_unchecked_src_eq_model]; cases d.setPixelUnchecked p (some c) <;> rfl

/-! ### loops -/

/-- `DrawTarget::draw_iter`: pixel after pixel; a panic leaves exactly the earlier pixels drawn. -/
theorem DrawTarget_draw_iter_src_eq_model (ws : Writes) (d : MD) : toRes (DrawTarget_draw_iter d ws) = d.drawIter ws := by
  unfold DrawTarget_draw_iter
  simp only [bind_def, pure_def, iter_into_iter]
  rw [forIn_yield (fun (pixel : Pt × Color) (s : MD) => MockDisplay_draw_pixel s pixel.1 pixel.2), bind_ok_right]
  induction ws generalizing d with
  | nil => rfl
  | cons w rest ih =>
    have hd := MockDisplay_draw_pixel_src_eq_model d w.1 w.2
    simp only [loopM, MD.drawIter]
    rw [← hd]
    cases MockDisplay_draw_pixel d w.1 w.2 with
    | ok v => simp only [toRes, bind_ok]; exact ih v
    | panic m s => rfl

/-- `set_pixels`. -/
theorem MockDisplay_set_pixels_src_eq_model (pts : List Pt) (c : Option Color) (d : MD) :
    toRes (MockDisplay_set_pixels d pts c) = d.setPixels c pts := by
  unfold MockDisplay_set_pixels
  simp only [bind_def, pure_def]
  rw [forIn_yield (fun (point : Pt) (s : MD) => MockDisplay_set_pixel s point c), bind_ok_right]
  induction pts generalizing d with
  | nil => rfl
  | cons p rest ih =>
    have hd := MockDisplay_set_pixel_src_eq_model d p c
    simp only [loopM, MD.setPixels]
    cases hs : MockDisplay_set_pixel d p c with
    | ok v =>
      rw [hs] at hd
      cases hm : d.setPixel p c with
      | none => rw [hm] at hd; cases hd
      | some d' =>
        rw [hm] at hd
        simp only [toRes, optRes, Res.ok.injEq] at hd
        subst hd
        simp only [bind_ok]; exact ih v
    | panic m s =>
      rw [hs] at hd
      cases hm : d.setPixel p c with
      | none => rw [hm] at hd; simp only [toRes, optRes, Res.panic.injEq] at hd; subst hd; rfl
      | some d' => rw [hm] at hd; cases hd

theorem display_points : Rectangle_points (OriginDimensions_bounding_box displayArea.size) = displayArea.points := by
  simp only [Rectangle_points, OriginDimensions_bounding_box]; rfl

theorem toOpt_set_pixel_unchecked (m : MD) (p : Pt) (c : Option Color) :
    toOpt (MockDisplay_set_pixel_unchecked m p c) = m.setPixelUnchecked p c := by
  rw [MockDisplay_set_pixel_unchecked_src_eq_model]; cases m.setPixelUnchecked p c <;> rfl

/-- `swap_xy` (the unchecked accesses can panic in the model too; `toOpt` keeps that). -/
theorem MockDisplay_swap_xy_src_eq_model (a : MD) : toOpt (MockDisplay_swap_xy a) = a.swapXy := by
  unfold MockDisplay_swap_xy MD.swapXy
  simp only [bind_def, pure_def, MockDisplay_new_src_eq_model, OriginDimensions_size_src_eq_model, bind_ok, display_points]
  generalize displayArea.points = l
  rw [forIn_yield' _ (fun (point : Pt) (s : MD) => (MockDisplay_get_pixel a (RectSrc.Point_new (Point_y point) (Point_x point))).bind
      (fun c => at_state () (MockDisplay_set_pixel_unchecked s point c))) (by intro p s; rw [bind_assoc]), bind_ok_right]
  refine loopM_foldl _ _ (fun _ => rfl) ?_ l MD.new
  intro p m
  simp only [EG.C16.Src.Point_new_src_eq_model, Point_x, Point_y]
  rw [← MockDisplay_get_pixel_src_eq_model]
  cases MockDisplay_get_pixel a ⟨p.y, p.x⟩ with
  | ok v => simp only [bind_ok, toOpt_at_state, toOpt_set_pixel_unchecked, toOpt_ok]
  | panic ms s => simp only [bind_panic, toOpt_panic]

/-- `map`. -/
theorem MockDisplay_map_src_eq_model (a : MD) (f : Color → Color) : toOpt (MockDisplay_map a f) = a.map f := by
  unfold MockDisplay_map MD.map
  simp only [bind_def, pure_def, MockDisplay_new_src_eq_model, OriginDimensions_size_src_eq_model, bind_ok, display_points]
  generalize displayArea.points = l
  rw [forIn_yield' _ (fun (point : Pt) (s : MD) => (MockDisplay_get_pixel a point).bind
      (fun c => at_state () (MockDisplay_set_pixel_unchecked s point (option_map c f)))) (by intro p s; rw [bind_assoc]), bind_ok_right]
  refine loopM_foldl _ _ (fun _ => rfl) ?_ l MD.new
  intro p m
  rw [← MockDisplay_get_pixel_src_eq_model]
  cases MockDisplay_get_pixel a p with
  | ok v => simp only [bind_ok, toOpt_at_state, toOpt_set_pixel_unchecked, toOpt_ok, option_map]
  | panic ms s => simp only [bind_panic, toOpt_panic]

/-- the three `Rgb888` constants of `diff`, regenerated (ColorSrc) = the hand model's. -/
theorem diff_colours_src :
    ColorSrc.impl_rgb_color_GREEN (ColorSrcPrelude.type_named "Rgb888") = GREEN ∧
    ColorSrc.impl_rgb_color_RED (ColorSrcPrelude.type_named "Rgb888") = RED ∧
    ColorSrc.impl_rgb_color_BLUE (ColorSrcPrelude.type_named "Rgb888") = BLUE := by decide +kernel

/-- `diff`. -/
theorem MockDisplay_diff_src_eq_model (a b : MD) : toOpt (MockDisplay_diff a b) = a.diff b := by
  unfold MockDisplay_diff MD.diff
  simp only [bind_def, pure_def, MockDisplay_new_src_eq_model, OriginDimensions_size_src_eq_model, bind_ok, display_points]
  generalize displayArea.points = l
  rw [forIn_yield' _ (fun (point : Pt) (s : MD) => (MockDisplay_get_pixel a point).bind (fun sc =>
      (MockDisplay_get_pixel b point).bind (fun oc => at_state () (MockDisplay_set_pixel_unchecked s point (diffColor sc oc)))))
      (by
        intro p s
        rw [bind_assoc]; congr 1; funext sc
        rw [bind_assoc]; congr 1; funext oc
        congr 2
        cases sc <;> cases oc <;> simp only [diffColor, rs_ne, diff_colours_src.1, diff_colours_src.2.1, diff_colours_src.2.2]),
    bind_ok_right]
  refine loopM_foldl _ _ (fun _ => rfl) ?_ l MD.new
  intro p m
  unfold diffStep
  simp only []
  rw [← MockDisplay_get_pixel_src_eq_model, ← MockDisplay_get_pixel_src_eq_model]
  cases MockDisplay_get_pixel a p with
  | panic ms s => simp only [bind_panic, toOpt_panic]
  | ok v =>
    cases MockDisplay_get_pixel b p with
    | panic ms s => simp only [bind_ok, bind_panic, toOpt_panic, toOpt_ok]
    | ok w => simp only [bind_ok, toOpt_at_state, toOpt_set_pixel_unchecked, toOpt_ok]

/-- `PartialEq::eq`. -/
theorem PartialEq_eq_src_eq_model (a b : MD) : PartialEq_eq a b = .ok (a.eq b) := rfl

/-! ### `affected_area` -/

theorem aaStep_src : (fun (x : Option Pt × Option Pt) (point : Pt) =>
      (option_or (option_map x.fst (fun tl => Pt.componentMin tl point)) (some point),
       option_or (option_map x.snd (fun br => Pt.componentMax br point)) (some point))) = aaStep := by
  funext x point
  obtain ⟨a, b⟩ := x
  cases a <;> cases b <;> rfl

/-- `affected_area`: the same zip / filter_map / fold, then `with_corners` or `zero`. -/
theorem MockDisplay_affected_area_src_eq_model (d : MD) : MockDisplay_affected_area d = .ok d.affectedArea := by
  unfold MockDisplay_affected_area MD.affectedArea MD.touched
  simp only [bind_def, pure_def, OriginDimensions_size_src_eq_model, bind_ok, display_points]
  mock_simp [EG.C16.Src.Point_component_min_src_eq_model, EG.C16.Src.Point_component_max_src_eq_model, EG.C16.Src.with_corners_src_eq_model, EG.C16.Src.zero_src_eq_model]
  have h := aaStep_src
  simp only [option_map, option_or] at h
  rw [h]
  generalize List.foldl aaStep (none, none) _ = r
  obtain ⟨a, b⟩ := r
  cases a <;> cases b <;> rfl

theorem affectedArea_fits (d : MD) : EG.C16.Src.FitsI32 d.affectedArea.size := by
  rcases affectedArea_spec d with ⟨_, h⟩ | ⟨tl, br, h, ht⟩
  · rw [h]; decide
  · rw [h]
    obtain ⟨_, ⟨l, hl, hl'⟩, ⟨t, ht1, ht'⟩, ⟨r, hr, hr'⟩, ⟨b, hb, hb'⟩⟩ := ht
    have h1 := ((mem_touched d l).mp hl).1
    have h2 := ((mem_touched d t).mp ht1).1
    have h3 := ((mem_touched d r).mp hr).1
    have h4 := ((mem_touched d b).mp hb).1
    unfold Inside at h1 h2 h3 h4
    simp only [Rect.withCorners, EG.C16.Src.FitsI32]
    omega

/-- `affected_area_origin` (private; used by the fancy panic only). -/
theorem MockDisplay_affected_area_origin_src_eq_model (d : MD) : MockDisplay_affected_area_origin d = .ok d.affectedAreaOrigin := by
  unfold MockDisplay_affected_area_origin MD.affectedAreaOrigin
  simp only [bind_def, pure_def, MockDisplay_affected_area_src_eq_model, bind_ok, EG.C16.Src.bottom_right_src_eq_model _ (affectedArea_fits d),
    EG.C16.Src.with_corners_src_eq_model, EG.C16.Src.Point_zero_src_eq_model]
  cases d.affectedArea.bottomRight <;> rfl

/-- `from_points`: `new`, then `set_pixels(points, Some(color))`. -/
theorem MockDisplay_from_points_src_eq_model (pts : List Pt) (c : Color) :
    toOpt (MockDisplay_from_points pts c) =
      match MD.new.setPixels (some c) pts with
      | .ok d => some d
      | .panic _ => none := by
  unfold MockDisplay_from_points
  simp only [bind_def, pure_def, MockDisplay_new_src_eq_model, bind_ok, bind_ok_right, toOpt_at_state]
  rw [← MockDisplay_set_pixels_src_eq_model]
  cases MockDisplay_set_pixels MD.new pts (some c) <;> rfl

end EG.C20.Generated
