/-
  C20 / swap_xy, map — the two whole-display transformations of `MockDisplay`.

  `EG/Props/C20.lean` lists `swap_xy` and `map` as compared on every accepted `mock.pattern` op
  (`sw=`, `mp=`) but without theorems. Both are in the model (`MD.swapXy`, `MD.map`,
  EG/Model/MockDisplay.lean: folds over the 64 x 64 points with the unchecked `get_pixel` /
  `set_pixel_unchecked`, a panic being `none`). Proved here for every display content: neither can
  panic; cell `(x, y)` of `swap_xy` is cell `(y, x)`; every cell of `map(f)` is the source cell with
  `f` applied (empty cells stay empty); the results carry the default flags; `swap_xy` twice and
  `map(id)` give displays that compare equal (`PartialEq`) to the original; `map` composes.
  Helper lemmas: EG/Lemmas/GlueMockSwapMap.lean.
-/
import EG.Lemmas.GlueMockSwapMap
import EG.Props.C20
namespace EG.C20.SwapMap
open EG EG.Mock EG.Glue

/-- `swap_xy` never panics (all 4096 unchecked accesses are inside the array). -/
theorem swap_xy_total (a : MD) : ∃ D, a.swapXy = some D := by
  obtain ⟨D, h, _⟩ := swapXy_spec a; exact ⟨D, h⟩

/-- **`swap_xy` cells**: the cell at `(x, y)` of the result is the cell at `(y, x)` of the source —
colour or empty — for all 64 x 64 cells. -/
theorem swap_xy_cells (a D : MD) (h : a.swapXy = some D) (p : Pt) (hp : Inside p) :
    D.getPixel p = a.getPixel ⟨p.y, p.x⟩ := by
  obtain ⟨D', h', _, _, hc⟩ := swapXy_spec a
  rw [h] at h'; cases h'
  rw [getPixel_inside D hp, getPixel_inside a (inside_swap hp), hc p hp]
example : Inside ⟨5, 9⟩ := by decide

/-- The result is a fresh display: overdraw and out-of-bounds drawing are NOT allowed on it,
whatever the source's flags were. -/
theorem swap_xy_flags (a D : MD) (h : a.swapXy = some D) :
    D.allowOverdraw = false ∧ D.allowOob = false := by
  obtain ⟨D', h', ho, hb, _⟩ := swapXy_spec a
  rw [h] at h'; cases h'; exact ⟨ho, hb⟩

/-- **`swap_xy` is an involution** up to `PartialEq` (which ignores the flags): swapping twice
gives a display equal to the original. -/
theorem swap_xy_involutive (a D1 D2 : MD) (h1 : a.swapXy = some D1) (h2 : D1.swapXy = some D2) :
    D2.eq a = true := by
  rw [EG.C20.eq_iff_cells]
  intro p hp
  rw [swap_xy_cells D1 D2 h2 p hp, swap_xy_cells a D1 h1 ⟨p.y, p.x⟩ (inside_swap hp)]
example : ∃ D1 D2, (MD.new.upd 5 (some 1)).swapXy = some D1 ∧ D1.swapXy = some D2 := by
  obtain ⟨D1, h1⟩ := swap_xy_total (MD.new.upd 5 (some 1))
  obtain ⟨D2, h2⟩ := swap_xy_total D1
  exact ⟨D1, D2, h1, h2⟩

/-- `map` never panics. -/
theorem map_total (a : MD) (f : Color → Color) : ∃ D, a.map f = some D := by
  obtain ⟨D, h, _⟩ := map_spec a f; exact ⟨D, h⟩

/-- **`map` cells**: every cell of `map(f)` is the source cell with `f` applied to its colour; an
empty cell stays empty — for all 64 x 64 cells. -/
theorem map_cells (a D : MD) (f : Color → Color) (h : a.map f = some D) (p : Pt) (hp : Inside p) :
    D.getPixel p = (a.getPixel p).map (Option.map f) := by
  obtain ⟨D', h', _, _, hc⟩ := map_spec a f
  rw [h] at h'; cases h'
  rw [getPixel_inside D hp, getPixel_inside a hp, hc p hp]; rfl

/-- The result of `map` is a fresh display (default flags). -/
theorem map_flags (a D : MD) (f : Color → Color) (h : a.map f = some D) :
    D.allowOverdraw = false ∧ D.allowOob = false := by
  obtain ⟨D', h', ho, hb, _⟩ := map_spec a f
  rw [h] at h'; cases h'; exact ⟨ho, hb⟩

/-- `map(identity)` equals the original (`PartialEq`). -/
theorem map_id (a D : MD) (h : a.map (fun c => c) = some D) : D.eq a = true := by
  rw [EG.C20.eq_iff_cells]
  intro p hp
  rw [map_cells a D _ h p hp, getPixel_inside a hp]
  cases a.cell p <;> rfl

/-- `map` composes: `map(g)` after `map(f)` equals `map(g . f)`. -/
theorem map_comp (a D1 D2 D3 : MD) (f g : Color → Color) (h1 : a.map f = some D1)
    (h2 : D1.map g = some D2) (h3 : a.map (fun c => g (f c)) = some D3) : D2.eq D3 = true := by
  rw [EG.C20.eq_iff_cells]
  intro p hp
  rw [map_cells D1 D2 g h2 p hp, map_cells a D1 f h1 p hp, map_cells a D3 _ h3 p hp,
    getPixel_inside a hp]
  cases a.cell p <;> rfl

/-- `map` commutes with `swap_xy`. -/
theorem map_swap_comm (a S M SM MS : MD) (f : Color → Color) (hs : a.swapXy = some S)
    (hm : a.map f = some M) (hsm : S.map f = some SM) (hms : M.swapXy = some MS) :
    SM.eq MS = true := by
  rw [EG.C20.eq_iff_cells]
  intro p hp
  rw [map_cells S SM f hsm p hp, swap_xy_cells a S hs p hp, swap_xy_cells M MS hms p hp,
    map_cells a M f hm ⟨p.y, p.x⟩ (inside_swap hp)]

/-- Concrete run: a display with one pixel at (5, 0). -/
example : ∃ D, (MD.new.upd 5 (some 1)).swapXy = some D ∧ D.getPixel ⟨0, 5⟩ = some (some 1) ∧
    D.getPixel ⟨5, 0⟩ = some none := by
  obtain ⟨D, h⟩ := swap_xy_total (MD.new.upd 5 (some 1))
  refine ⟨D, h, ?_, ?_⟩
  · rw [swap_xy_cells _ D h ⟨0, 5⟩ (by decide)]; rfl
  · rw [swap_xy_cells _ D h ⟨5, 0⟩ (by decide)]; rfl

end EG.C20.SwapMap
