/-
  C11 — property theorems (placeholder: no theorem yet, the property is not claimed).
-/
import EG.Basic.Core
namespace EG.C11
end EG.C11
