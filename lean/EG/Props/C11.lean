/-
  C11 — Raw pixel load/store and iteration round-trip in both data orders.

  Property theorems only (helper lemmas live in EG/Lemmas/Raw*.lean). All statements are about the
  model `EG.Model.Raw` (a literal transcription of core/src/pixelcolor/raw/{load_store,mod,to_bytes}.rs
  and src/iterator/raw.rs, tied to the code by the `raw.*` correspondence streams).

  Second tie: EG/Props/C11/Generated.lean proves that the model's `bitPosition`, `load`, `store`, `rawNew`, `mask`,
  `Iter.new/next/nth/sizeHint` EQUAL the definitions regenerated from the Rust text on every check
  (EG/Generated/RawSrc.lean, tools/tr_rawsrc.py); GeneratedLaws.lean restates the headline below over those.

  Quantifiers: `bits` ranges over the seven raw types (`validBits bits`), `o` over both data orders,
  `buf` over byte buffers of ANY length (`BytesOk buf`: every element is a `u8`), `i`, `j`, `k` over
  ALL natural numbers, `v` over all values of the raw type (`v < 2^bits`, what `RawUx::new` produces).
  Strength: everything below is proved for all inputs; the only kernel-evaluated ingredient is the
  byte-level law of the sub-byte depths (`subbyte_byte_law`: six tables over the whole domain
  old byte x slot x value x other slot / bit position), which is then lifted by proof.

  Index arithmetic: the multi-byte `load`/`store` compute the byte offset with `index.checked_mul(n)`
  (since /repo commit e95846b; before, `index * 2/3/4` overflowed `usize` for indices above
  `usize::MAX / 4`), so an index whose offset does not fit `usize` is rejected like every other index
  beyond the buffer. The model's `Nat` product followed by the slice test gives the same answer
  (a real buffer is shorter than `usize::MAX`), and the generator emits such indices
  (`usize::MAX / 4 + 1`, `usize::MAX / 2 + 1`, `usize::MAX`, ...) for model and oracle alike; nothing
  is left outside the model here. The saturating operations of `nth` / `size_hint` are modelled
  (`satAddUsize`, `satMulUsize`); `iter_nth` holds for every `k`, including those that saturate
  the index, and the correspondence runs scripts whose running position passes `usize::MAX`.
  `size_hint` is exact under `Iter.Fits` (slice shorter than 2^61 bytes).

  Three theorems are definitional (`rfl` restatements of model definitions, kept so that the
  formula is visible here; they carry no proof content): `pixel_count_spec`, `layout_u8`,
  `to_le_bytes_spec`. `size_hint_saturates_beyond_fits` is an observation about the model's boundary.
-/
import EG.Lemmas.RawIter
import EG.Lemmas.RawLayout
namespace EG.C11
open EG EG.Raw

/-! ### Byte level (sub-byte depths): kernel evaluation over the whole domain -/

/-- For 1, 2 and 4 bits per pixel, both orders, EVERY old byte, slot and value, with the field of
slot `s` written out literally (`sh s`: `LittleEndianMsb0` fills a byte from the most significant
bits downwards, slot `s` starts at bit `8 - bits*(s+1)`; `BigEndianLsb0` from the least significant
bits upwards, slot `s` starts at bit `bits*s`): storing with the shift of slot `k` gives a byte;
loading slot `k` gives the value; every other slot loads what it did; bit `sh k + j` of the new
byte is bit `j` of the value and every bit outside `[sh k, sh k + bits)` is the old bit.
(`store_uses_literal_field` below says that `store`/`load` of pixel `i` use exactly this shift.) -/
theorem subbyte_byte_law {bits : Nat} {o : Order} (h : subByte bits) {b k v : Nat}
    (hb : b < 256) (hk : k < 8 / bits) (hv : v < 2 ^ bits) :
    let sh : Nat → Nat := fun s => match o with
      | .le => 8 - bits * (s + 1)
      | .be => bits * s
    storeByte bits (sh k) v b < 256 ∧
    loadByte bits (sh k) (storeByte bits (sh k) v b) = v ∧
    (∀ k', k' < 8 / bits → k' ≠ k →
      loadByte bits (sh k') (storeByte bits (sh k) v b) = loadByte bits (sh k') b) ∧
    (∀ p, p < 8 →
      (storeByte bits (sh k) v b).testBit p =
        if sh k ≤ p ∧ p < sh k + bits then v.testBit (p - sh k) else b.testBit p) := by
  intro sh
  have key : ∀ s, s < 8 / bits → slotShift bits o s = sh s := by
    intro s hs
    cases o with
    | le => exact slotShift_le h hs
    | be => exact slotShift_be _ _
  have law := byteLaw_spec (o := o) h hb hk hv
  rw [key k hk] at law
  refine ⟨law.1, law.2.1, fun k' hk' hne => ?_, law.2.2.2⟩
  have t := law.2.2.1 k' hk' hne
  rw [key k' hk'] at t
  exact t

/-- The shift `store` / `load` use for pixel `i` (`bit_position(index).1` of the real code) IS the
literal field start of slot `i % pixels_per_byte` in byte `i / pixels_per_byte`. -/
theorem store_uses_literal_field {bits : Nat} (h : subByte bits) (o : Order) (i : Nat) :
    bitPosition bits o i =
      (i / (8 / bits),
        match o with
        | .le => 8 - bits * (i % (8 / bits) + 1)
        | .be => bits * (i % (8 / bits))) := by
  rw [bitPosition_eq]
  cases o with
  | le => rw [slotShift_le h (Nat.mod_lt _ (ppb_pos h))]
  | be => rw [slotShift_be]

/-! ### `store` then `load` -/

/-- `store(v, buf, i)` followed by `load(buf, i)` returns `v`. -/
theorem load_store_same {bits : Nat} (hb : validBits bits = true) (o : Order) {v : Nat}
    {buf : List Nat} {i : Nat} (hw : BytesOk buf) (hv : v < 2 ^ bits)
    (hin : i < pixelCount bits buf.length) :
    (store bits o v buf i).1 = true ∧ load bits o (store bits o v buf i).2 i = some v :=
  ⟨store_inside hb o v buf i hin, Raw.load_store_same hb o hw hv hin⟩

/-- ... and every other index (in another byte or in the same byte) loads what it loaded before. -/
theorem load_store_other {bits : Nat} (hb : validBits bits = true) (o : Order) {v : Nat}
    {buf : List Nat} {i j : Nat} (hw : BytesOk buf) (hv : v < 2 ^ bits) (hne : j ≠ i) :
    load bits o (store bits o v buf i).2 j = load bits o buf j :=
  Raw.load_store_other hb o hw hv hne

/-- `store` changes only pixel `i`'s byte(s): the length is kept and every byte position that
does not belong to pixel `i` (`ownByte`: byte `i / pixels_per_byte`, resp. the `bits/8` bytes from
`i * bits/8`) keeps its content. -/
theorem store_touches_only {bits : Nat} (hb : validBits bits = true) (o : Order) (v : Nat)
    (buf : List Nat) (i : Nat) :
    (store bits o v buf i).2.length = buf.length ∧
    ∀ k, ¬ ownByte bits i k → (store bits o v buf i).2[k]? = buf[k]? :=
  ⟨store_length hb o v buf i, fun k hk => store_other_bytes hb o v buf i k hk⟩

/-- Sub-byte depths, inside pixel `i`'s byte (byte `i / pixels_per_byte`), with the bit positions
written out: let `s = i % pixels_per_byte` and `sh = 8 - bits*(s+1)` for `LittleEndianMsb0`
(most significant bits first), `sh = bits*s` for `BigEndianLsb0` (least significant bits first).
Exactly the `bits` bits `[sh, sh + bits)` of that byte are replaced (bit `sh + j` becomes bit `j` of
`v`), every other bit of the byte is the old one. -/
theorem store_touches_only_bits {bits : Nat} {o : Order} {v : Nat} {buf : List Nat} {i : Nat}
    (h : subByte bits) (hw : BytesOk buf) (hv : v < 2 ^ bits) (hlt : i / (8 / bits) < buf.length) :
    let sh := match o with
      | .le => 8 - bits * (i % (8 / bits) + 1)
      | .be => bits * (i % (8 / bits))
    ∃ nb, (store bits o v buf i).2[i / (8 / bits)]? = some nb ∧ nb < 256 ∧
      ∀ p, p < 8 → nb.testBit p =
        if sh ≤ p ∧ p < sh + bits then v.testBit (p - sh) else buf[i / (8 / bits)].testBit p := by
  have key := storeBits_own_byte (o := o) h hw hv hlt
  rw [← store_sub h] at key
  cases o with
  | le => rw [slotShift_le h (Nat.mod_lt _ (ppb_pos h))] at key; exact key
  | be => rw [slotShift_be] at key; exact key

/-- The buffer stays a byte buffer. -/
theorem store_preserves_bytes {bits : Nat} (hb : validBits bits = true) (o : Order) {v : Nat}
    {buf : List Nat} (i : Nat) (hw : BytesOk buf) (hv : v < 2 ^ bits) :
    BytesOk (store bits o v buf i).2 :=
  store_bytesOk hb o i hw hv

/-! ### Index beyond the buffer -/

/-- `store` with an index beyond the buffer returns the error and leaves the buffer unchanged;
it succeeds for every index inside. -/
theorem store_oob {bits : Nat} (hb : validBits bits = true) (o : Order) (v : Nat) (buf : List Nat)
    (i : Nat) :
    (pixelCount bits buf.length ≤ i → store bits o v buf i = (false, buf)) ∧
    (i < pixelCount bits buf.length → (store bits o v buf i).1 = true) :=
  ⟨store_outside hb o v buf i, store_inside hb o v buf i⟩

/-- `load` returns `None` exactly for the indices beyond the buffer. -/
theorem load_oob {bits : Nat} (hb : validBits bits = true) (o : Order) (buf : List Nat) (i : Nat) :
    load bits o buf i = none ↔ pixelCount bits buf.length ≤ i :=
  load_eq_none_iff hb o buf i

/-- What `load` returns is a value of the raw type. -/
theorem load_in_range {bits : Nat} (hb : validBits bits = true) (o : Order) {buf : List Nat}
    {i v : Nat} (hw : BytesOk buf) (hl : load bits o buf i = some v) : v < 2 ^ bits :=
  load_lt hb o hw hl

/-- The number of pixels of a buffer: `len * (8 / bits)` below 8 bits, `len / (bits / 8)` above
(excess bytes are ignored). Definitional (`rfl`): this is the definition of `pixelCount`, shown
here because `store_oob`, `load_oob` and `iter_toList` are stated with it. -/
theorem pixel_count_spec (bits len : Nat) :
    pixelCount bits len = if bits < 8 then len * (8 / bits) else len / (bits / 8) := rfl

/-! ### The documented layout -/

/-- Sub-byte depths: pixel `i` lives in byte `i / pixels_per_byte`, slot `s = i % pixels_per_byte`;
bit `k` of its value is bit `8 - bits*(s+1) + k` of that byte for `LittleEndianMsb0` (slots are
filled from the most significant bits downwards) and bit `bits*s + k` for `BigEndianLsb0` (from
the least significant bits upwards). -/
theorem layout_subbyte {bits : Nat} (h : subByte bits) (o : Order) {buf : List Nat} {i v : Nat}
    (hl : load bits o buf i = some v) {k : Nat} (hk : k < bits) :
    ∃ b, buf[i / (8 / bits)]? = some b ∧
      v.testBit k = b.testBit
        ((match o with
          | .le => 8 - bits * (i % (8 / bits) + 1)
          | .be => bits * (i % (8 / bits))) + k) := by
  rw [load_sub h] at hl
  obtain ⟨b, hb, ht⟩ := loadBits_testBit hl hk
  refine ⟨b, hb, ?_⟩
  rw [ht]
  cases o with
  | le => rw [slotShift_le h (Nat.mod_lt _ (ppb_pos h))]
  | be => rw [slotShift_be]

/-- 8 bits: pixel `i` is byte `i`, in either order. Definitional (`rfl`): the model's `load 8` is
`buf[i]?`, as `RawU8::load` is `buffer.get(index)`; tied to the code by the `raw.load 8 ..` ops. -/
theorem layout_u8 (o : Order) (buf : List Nat) (i : Nat) : load 8 o buf i = buf[i]? := rfl

/-- 16/24/32 bits, `n = bits/8`: byte `j` (base-256 digit `j`, `j = 0` least significant) of
pixel `i` is stored at `i*n + j` for `LittleEndianMsb0` and at `i*n + (n-1-j)` for `BigEndianLsb0`. -/
theorem layout_multibyte {bits : Nat} (h : multiByte bits) (o : Order) {buf : List Nat} {i v : Nat}
    (hw : BytesOk buf) (hl : load bits o buf i = some v) {j : Nat} (hj : j < bits / 8) :
    buf[i * (bits / 8) + (match o with | .le => j | .be => bits / 8 - 1 - j)]?
      = some (v / 256 ^ j % 256) := by
  rw [load_multi h] at hl
  have := loadBytes_digit hw hl hj
  cases o <;> simpa [Order.alt] using this

/-- The same down to the bit: bit `k` of pixel `i` is bit `k % 8` of the byte at
`i*n + k/8` (`LittleEndianMsb0`) resp. `i*n + (n-1-k/8)` (`BigEndianLsb0`). -/
theorem layout_multibyte_bit {bits : Nat} (h : multiByte bits) (o : Order) {buf : List Nat}
    {i v : Nat} (hw : BytesOk buf) (hl : load bits o buf i = some v) {k : Nat} (hk : k < bits) :
    ∃ b, buf[i * (bits / 8) + (match o with | .le => k / 8 | .be => bits / 8 - 1 - k / 8)]? = some b ∧
      v.testBit k = b.testBit (k % 8) := by
  rw [load_multi h] at hl
  have hk' : k < 8 * (bits / 8) := by rcases h with rfl | rfl | rfl <;> omega
  obtain ⟨b, hb, ht⟩ := loadBytes_testBit hw hl hk'
  refine ⟨b, ?_, ht⟩
  cases o <;> simpa [Order.alt] using hb

/-- The bytes written by a multi-byte `store` are the base-256 digits of the value:
`v % 256, v / 256 % 256, ...` (little endian; reversed for big endian). Definitional (`rfl`
unfolding of `toLe` / `toBe` for 2, 3, 4 bytes, one big-endian instance shown); the content is in
`layout_multibyte` / `layout_multibyte_bit`, which say where each digit / bit is found again. -/
theorem to_le_bytes_spec (v : Nat) :
    toLe 2 v = [v % 256, v / 256 % 256] ∧
    toLe 3 v = [v % 256, v / 256 % 256, v / 256 / 256 % 256] ∧
    toLe 4 v = [v % 256, v / 256 % 256, v / 256 / 256 % 256, v / 256 / 256 / 256 % 256] ∧
    toBe 2 v = [v / 256 % 256, v % 256] :=
  ⟨rfl, rfl, rfl, rfl⟩

/-! ### `RawDataIterator` -/

/-- Iterating a `RawDataSlice` yields exactly `load(0), load(1), ...`, as many as fit
(`pixelCount`; excess bytes are ignored). -/
theorem iter_toList {bits : Nat} (hb : validBits bits = true) (o : Order) (data : List Nat) :
    (Iter.new bits o data).toList.map some
      = (List.range (pixelCount bits data.length)).map (load bits o data) := by
  have := Iter.toList_eq_rest (Iter.new bits o data) hb
  rw [this]
  simp only [Iter.rest, Iter.new, Iter.count, Nat.sub_zero, List.range_eq_range']

/-- From any position: the iterator still yields `load(index), load(index+1), ...`. -/
theorem iter_toList_from (it : Iter) (hb : validBits it.bits = true) :
    it.toList.length = pixelCount it.bits it.data.length - it.index ∧
    ∀ k, it.toList[k]? = load it.bits it.order it.data (it.index + k) :=
  ⟨Iter.toList_length it hb, Iter.toList_getElem? it hb⟩

/-- `next` returns the head of what is still to come and leaves the tail. -/
theorem iter_next (it : Iter) (hb : validBits it.bits = true) :
    it.next.1 = it.toList[0]? ∧ it.next.2.toList = it.toList.drop 1 := by
  refine ⟨?_, ?_⟩
  · rw [Iter.next_fst, Iter.toList_getElem? it hb]; rfl
  · apply List.ext_getElem?
    intro m
    rw [Iter.next_snd_getElem? it hb, List.getElem?_drop, Iter.toList_getElem? it hb]
    congr 1; omega

/-- `nth(k)` = skip `k` items, then `next`: it returns item `k` of what was still to come
(`None` if there are not that many) and leaves everything after it. -/
theorem iter_nth (it : Iter) (hb : validBits it.bits = true) (hf : it.Fits) (k : Nat) :
    (it.nth k).1 = it.toList[k]? ∧ (it.nth k).2.toList = it.toList.drop (k + 1) := by
  refine ⟨?_, Iter.nth_snd_toList it hb hf k⟩
  rw [Iter.nth_fst it hb hf, Iter.toList_getElem? it hb]

/-- In particular `nth(k)` on a fresh iterator is `load(k)` (what `ImageRaw::pixel` relies on). -/
theorem iter_nth_fresh {bits : Nat} (hb : validBits bits = true) (o : Order) (data : List Nat)
    (hf : data.length * 8 ≤ usizeMax) (k : Nat) :
    ((Iter.new bits o data).nth k).1 = load bits o data k := by
  have := Iter.nth_fst (Iter.new bits o data) hb hf k
  simpa [Iter.new] using this

/-- `size_hint` is exact at every position: lower = upper = number of remaining items. (The property
text asks only that it BRACKETS the remaining count — `size_hint_brackets` below, oracle class
`size-hint-bracket`; exactness is what the code does today, so the model states it and the
correspondence compares the exact pair. A change to a looser but still bracketing hint would show
as a model disagreement, not as an oracle failure.) -/
theorem size_hint_exact (it : Iter) (hb : validBits it.bits = true) (hf : it.Fits) :
    it.sizeHint = (it.toList.length, some it.toList.length) := by
  rw [Iter.sizeHint_eq it hf, Iter.toList_length it hb]

/-- ... hence it brackets the number of remaining items. -/
theorem size_hint_brackets (it : Iter) (hb : validBits it.bits = true) (hf : it.Fits) :
    it.sizeHint.1 ≤ it.toList.length ∧ ∀ u, it.sizeHint.2 = some u → it.toList.length ≤ u := by
  rw [size_hint_exact it hb hf]
  exact ⟨Nat.le_refl _, fun u hu => by cases hu; exact Nat.le_refl _⟩

/-- The guard `Iter.Fits` is needed only in the model's saturating arithmetic: the unguarded claim ... -/
def size_hint_exact_unguarded : Prop :=
  ∀ it : Iter, validBits it.bits = true → it.sizeHint = (it.toList.length, some it.toList.length)

/-- ... fails exactly where `len.saturating_mul(8 / bits)` saturates: a 2^61-byte slice of 1-bit
pixels holds 2^64 pixels, `size_hint` answers `(usize::MAX, Some(usize::MAX))`. Such a slice
cannot be allocated, so this is an observation about the model's boundary, not a replayable
defect (the upper bound would have to be `None` there). -/
theorem size_hint_saturates_beyond_fits : ¬ size_hint_exact_unguarded := by
  intro h
  obtain ⟨data, hd⟩ : ∃ data : List Nat, data.length = 2305843009213693952 :=
    ⟨List.replicate 2305843009213693952 0, List.length_replicate⟩
  have h1 := h ⟨1, .le, data, 0⟩ rfl
  have h2 := Iter.toList_length ⟨1, .le, data, 0⟩ rfl
  rw [h2] at h1
  simp only [Iter.sizeHint, Iter.count, pixelCount, satMulUsize, usizeMax, hd,
    Nat.reduceLT, ↓reduceIte, Nat.reduceDiv, Nat.reduceMul, Nat.reduceLeDiff,
    Nat.sub_zero, Prod.mk.injEq] at h1
  omega

/-! ### Non-vacuity: concrete instances of the hypotheses used above -/

example : validBits 2 = true ∧ subByte 2 ∧ multiByte 24 := by decide
example : (0x2D : Nat) < 256 ∧ 3 < 8 / 2 ∧ 2 < 2 ^ 2 := by decide
example : BytesOk [0x12, 0xA5, 0xFF] := by intro b hb; simp at hb; omega
example : 5 < pixelCount 2 [0x12, 0xA5, 0xFF].length := by decide
-- pixel 5 at 2 bpp: byte 1, slot 1; LittleEndianMsb0 field = bits [8-2*2, 8-2*2+2) = [4,6): 0xA5 -> 0x95;
-- BigEndianLsb0 field = bits [2*1, 2*1+2) = [2,4): 0xA5 -> 0xA5 (value 1 was there), 0xAD for value 3
example : store 2 .le 1 [0x12, 0xA5, 0xFF] 5 = (true, [0x12, 0x95, 0xFF]) := by decide
example : bitPosition 2 .le 5 = (1, 4) ∧ bitPosition 2 .be 5 = (1, 2) := by decide
example : store 2 .be 1 [0x12, 0xA5, 0xFF] 5 = (true, [0x12, 0xA5, 0xFF]) := by decide
example : store 2 .be 3 [0x12, 0xA5, 0xFF] 5 = (true, [0x12, 0xAD, 0xFF]) := by decide
example : store 24 .be 0x123456 [1, 2, 3, 4, 5, 6, 7] 1 = (true, [1, 2, 3, 0x12, 0x34, 0x56, 7]) := by decide
example : store 16 .le 0x1234 [1, 2, 3] 1 = (false, [1, 2, 3]) := by decide
example : load 4 .le [0x12, 0xA5] 2 = some 0xA ∧ load 4 .be [0x12, 0xA5] 2 = some 5 := by decide
example : ¬ ownByte 16 1 1 ∧ ownByte 16 1 2 ∧ ownByte 16 1 3 ∧ ¬ ownByte 16 1 4 := by decide
example : (Iter.new 16 .be [0xAA, 0xBB, 0x12, 0x34, 0x99]).toList = [0xAABB, 0x1234] := by decide
example : (Iter.new 16 .be [0xAA, 0xBB, 0x12, 0x34, 0x99]).Fits := by decide
example : ((Iter.new 4 .le [0x12, 0xA5, 0x77]).nth 3).1 = some 5 := by decide

end EG.C11
