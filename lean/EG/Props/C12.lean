/-
  C12 — property theorems (placeholder: no theorem yet, the property is not claimed).
-/
import EG.Basic.Core
namespace EG.C12
end EG.C12
