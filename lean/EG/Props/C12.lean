/-
  C12 — Colours survive the trip through their raw representation.

  Property theorems only (helper lemmas: EG/Lemmas/Color.lean). All statements are about the model
  `EG.Model.Color` (the bodies of `impl_raw_data!`, `impl_rgb_color!`, `gray_color!`, `BinaryColor`,
  `IntoStorage`, `ToBytes`, written once over a `ColorSpec`) and quantify over the table
  `EG.Generated.colorTable` that tools/tr_color.py regenerates from the Rust sources on every run,
  and over ALL values (colour values `c`, channel arguments, raw values): the proofs are arithmetic
  (`omega` per generated record after turning masks and shifts into `%`, `*`, `/`; the `|||` of the
  three channel fields is turned into `+` by a generic lemma for any well-formed layout). Nothing is
  enumerated except the table itself.

  A colour value is the number its Rust value holds (`ColorSpec.Valid`): the storage integer of an
  RGB struct, the inner raw value of a gray struct, `0`/`1` for `BinaryColor::Off`/`On`.
  Raw values are inner values of the raw newtypes, which are always `< 2^BITS_PER_PIXEL`
  (`raw_from_u32_fits`, `raw_from_u32_exact`: every public constructor masks, and does nothing else).

  The bodies this model transcribes are also REGENERATED from the Rust text (tools/tr_colorsrc.py ->
  EG/Generated/ColorSrc.lean) and proved equal to the model, record by record and for all arguments, in
  EG/Props/C12/Generated.lean (`*_src_eq_model`; headline theorems restated there as `src_*`).
-/
import EG.Lemmas.Color
namespace EG.C12
open EG EG.Generated EG.ColorSpec

/-! ### the generated table is what the translator saw in the source, and every record is a sound layout -/

/-- The table built by the translator's table parser (`rgb_color!` / `gray_color!` invocations of
rgb_color.rs / gray_color.rs, `BinaryColor` by name, `impl_raw_data!` invocations) has as many entries
of each kind as the translator's INDEPENDENT census found types of that kind (`seen*`: a second scan of
every file under core/src/pixelcolor that follows `impl PixelColor for` / `impl RawData for` through
producer and wrapper macros and counts their literal invocations plus hand-written impls; see
tools/tr_color.py `census_types`). The two numbers come from different code over different text, so a
colour type that enters through a path the table parser does not read (a direct `impl_rgb_color!(..)`
call, a new wrapper macro, a hand-written impl, another file) makes this false; the translator also
raises `TieError` itself in that case, naming the type. -/
theorem table_counts :
    (colorTable.filter (·.isRgb)).length = seenRgbTypes
    ∧ (colorTable.filter (·.kind == .gray)).length = seenGrayTypes
    ∧ (colorTable.filter (·.kind == .binary)).length = seenBinaryTypes
    ∧ colorTable.length = seenRgbTypes + seenGrayTypes + seenBinaryTypes
    ∧ rawTable.length = seenRawTypes := by decide

/-- `BinaryColor`'s raw values as the source writes them (`RawU1::new(color.map_color(binOffRaw,
binOnRaw))`, literals regenerated from binary_color.rs) are what the model's `toRaw` produces, and
`fromRaw` maps them back (`Off = 0`, `On = 1`): ties the model's hard-coded `0`/`1` to the source. -/
theorem binary_raw_values : ∀ s ∈ colorTable, s.kind = .binary →
    s.toRaw 0 = binOffRaw ∧ s.toRaw 1 = binOnRaw ∧ s.fromRaw binOffRaw = 0 ∧ s.fromRaw binOnRaw = 1 := by decide

/-- Every record: supported raw shape, channels at most 8 bits, the three fields adjacent and disjoint
from bit 0, inside `BITS_PER_PIXEL` and inside the struct's storage integer, byte views of the
declared length covering `BITS_PER_PIXEL`; RGB types carry red in the most significant field, BGR
types blue (`layout_documented` spells this last part out). -/
theorem table_wellFormed : ∀ s ∈ colorTable, s.WellFormed = true := Color.table_wellFormed

/-- The documented storage layout: RGB types have blue at bit 0, green above it and red on top
(most significant); BGR types have red at bit 0 and blue on top. -/
theorem layout_documented : ∀ s ∈ colorTable,
    (s.kind = .rgb → s.bpos = 0 ∧ s.gpos = s.bbits ∧ s.rpos = s.bbits + s.gbits)
    ∧ (s.kind = .bgr → s.rpos = 0 ∧ s.gpos = s.rbits ∧ s.bpos = s.rbits + s.gbits) := by decide

/-! ### `new(r, g, b)` keeps each channel modulo its width; `r()/g()/b()/luma()` return it -/

theorem new_channels : ∀ s ∈ colorTable, s.isRgb = true → ∀ r g b, r < 256 → g < 256 → b < 256 →
    s.chanR (s.rgbNew r g b) = r % 2 ^ s.rbits ∧ s.chanG (s.rgbNew r g b) = g % 2 ^ s.gbits
      ∧ s.chanB (s.rgbNew r g b) = b % 2 ^ s.bbits := Color.new_channels

theorem gray_new_luma : ∀ s ∈ colorTable, s.kind = .gray → ∀ l, l < 256 →
    s.luma (s.grayNew l) = l % 2 ^ s.rawBpp := Color.gray_new_luma

/-- The value built by `new` — and the raw value it converts to — is the reduced channels at their
bit positions (with `layout_documented`: red-high for RGB, blue-high for BGR). -/
theorem new_layout : ∀ s ∈ colorTable, s.isRgb = true → ∀ r g b,
    s.rgbNew r g b = r % 2 ^ s.rbits * 2 ^ s.rpos + g % 2 ^ s.gbits * 2 ^ s.gpos + b % 2 ^ s.bbits * 2 ^ s.bpos
    ∧ s.toRaw (s.rgbNew r g b) = s.rgbNew r g b := Color.new_layout

/-! ### which numbers are colour values: everything the constructors return, and nothing else matters -/

theorem new_valid : ∀ s ∈ colorTable, s.isRgb = true → ∀ r g b, s.Valid (s.rgbNew r g b) := Color.new_valid
theorem gray_new_valid : ∀ s ∈ colorTable, s.kind = .gray → ∀ l, s.Valid (s.grayNew l) := Color.grayNew_valid
theorem from_raw_valid : ∀ s ∈ colorTable, ∀ raw, raw < 2 ^ s.rawBpp → s.Valid (s.fromRaw raw) := Color.fromRaw_valid
/-- `RawData::from_u32` (hence `Raw::new`, `Raw::from`) returns a value below `2^BITS_PER_PIXEL`
for every `u32` argument, including arguments with bits set beyond the storage type. -/
theorem raw_from_u32_fits : ∀ s ∈ colorTable, ∀ v, s.rawFromU32 v < 2 ^ s.rawBpp := Color.rawFromU32_lt

/-- Exactly: `from_u32(v)` is `v` with every bit from `BITS_PER_PIXEL` upwards cleared and nothing
else changed, for EVERY `u32` (every value of the storage type and beyond). -/
theorem raw_from_u32_exact : ∀ s ∈ colorTable, ∀ v, s.rawFromU32 v = v % 2 ^ s.rawBpp := Color.rawFromU32_eq

/-- Every value of an RGB type is `new` of its own channels (so the channels determine the colour). -/
theorem valid_eq_new : ∀ s ∈ colorTable, s.isRgb = true → ∀ c, s.Valid c →
    c = s.rgbNew (s.chanR c) (s.chanG c) (s.chanB c)
    ∧ s.chanR c < 2 ^ s.rbits ∧ s.chanG c < 2 ^ s.gbits ∧ s.chanB c < 2 ^ s.bbits := Color.valid_eq_new

/-! ### colour -> raw -> colour is the identity; the raw value fits; raw -> colour -> raw is idempotent -/

theorem raw_roundtrip : ∀ s ∈ colorTable, ∀ c, s.Valid c → s.fromRaw (s.toRaw c) = c := Color.raw_roundtrip

theorem into_fits : ∀ s ∈ colorTable, ∀ c, s.Valid c → s.toRaw c < 2 ^ s.rawBpp := Color.into_fits

/-- raw -> colour -> raw keeps the low `usedBits` bits (the channel fields: `rbits+gbits+bbits` for
RGB/BGR types, all of `BITS_PER_PIXEL` otherwise) and clears exactly the bits above them. -/
theorem raw_clears_unused_only : ∀ s ∈ colorTable, ∀ raw, raw < 2 ^ s.rawBpp →
    s.toRaw (s.fromRaw raw) = raw % 2 ^ s.usedBits := Color.raw_clears_unused_only

/-- The same from an arbitrary storage value (bits above `BITS_PER_PIXEL` and unused bits set):
`u32 -> raw -> colour -> raw` keeps the low `usedBits` bits and clears exactly the rest. -/
theorem u32_raw_color_raw : ∀ s ∈ colorTable, ∀ v,
    s.toRaw (s.fromRaw (s.rawFromU32 v)) = v % 2 ^ s.usedBits := Color.u32_raw_color_raw

theorem raw_idempotent : ∀ s ∈ colorTable, ∀ raw, raw < 2 ^ s.rawBpp →
    s.toRaw (s.fromRaw (s.toRaw (s.fromRaw raw))) = s.toRaw (s.fromRaw raw) := Color.raw_idempotent

/-! ### `into_storage`, `to_be_bytes`, `to_le_bytes` describe the same value -/

/-- `into_storage` is the raw value; the big-endian reading of `to_be_bytes` and the little-endian
reading of `to_le_bytes` both give it back (for `RawU24`: the 3 of the 4 `u32` bytes that are kept
lose nothing); both have `size_of::<Bytes>()` entries, each a byte, one the reverse of the other. -/
theorem storage_bytes_agree : ∀ s ∈ colorTable, ∀ c, s.Valid c →
    s.intoStorage c = s.toRaw c
    ∧ ofBe (s.toBeBytes c) = s.intoStorage c ∧ ofLe (s.toLeBytes c) = s.intoStorage c
    ∧ (s.toBeBytes c).length = s.nbytes ∧ (s.toLeBytes c).length = s.nbytes
    ∧ s.toBeBytes c = (s.toLeBytes c).reverse
    ∧ (∀ x ∈ s.toBeBytes c, x < 256) := Color.storage_bytes_agree

/-! ### non-vacuity: concrete instances of the hypotheses -/

/-- `Bgr565` is in the table, is an RGB-kind type, `0xF81F` is one of its values, and `0xFFFF` is a
raw value whose round trip is observable. -/
example : ∃ s ∈ colorTable, s.name = "Bgr565" ∧ s.isRgb = true ∧ s.Valid 0xF81F
    ∧ s.rgbNew 255 0 33 = 0x081F ∧ s.chanB 0x081F = 1 ∧ (0xFFFF : Nat) < 2 ^ s.rawBpp :=
  ⟨_, List.mem_of_elem_eq_true (by decide : colorTable.elem
      { name := "Bgr565", kind := .bgr, rawName := "RawU16", rawBpp := 16, rawStorageBits := 16, nbytes := 2,
        beLo := 0, beHi := 2, leLo := 0, leHi := 2, storageBits := 16, rbits := 5, gbits := 6, bbits := 5,
        rpos := 0, gpos := 5, bpos := 11 } = true), by decide⟩

/-- a type with unused bits: `Rgb555` clears bit 15 of a raw value; `Gray4` is a gray type -/
example : ∃ s ∈ colorTable, s.name = "Rgb555" ∧ s.toRaw (s.fromRaw 0xFFFF) = 0x7FFF ∧ s.usedBits = 15 :=
  ⟨_, List.mem_of_elem_eq_true (by decide : colorTable.elem
      { name := "Rgb555", kind := .rgb, rawName := "RawU16", rawBpp := 16, rawStorageBits := 16, nbytes := 2,
        beLo := 0, beHi := 2, leLo := 0, leHi := 2, storageBits := 16, rbits := 5, gbits := 5, bbits := 5,
        rpos := 10, gpos := 5, bpos := 0 } = true), by decide⟩

example : ∃ s ∈ colorTable, s.kind = .gray ∧ s.Valid 9 ∧ s.grayNew 0xF9 = 9 := by
  refine ⟨_, List.mem_of_elem_eq_true (by decide : colorTable.elem
      { name := "Gray4", kind := .gray, rawName := "RawU4", rawBpp := 4, rawStorageBits := 8, nbytes := 1,
        beLo := 0, beHi := 1, leLo := 0, leHi := 1, storageBits := 8, rbits := 0, gbits := 0, bbits := 0,
        rpos := 0, gpos := 0, bpos := 0 } = true), by decide⟩

-- Not part of the property text and not modelled: `to_ne_bytes` (host byte order; the harness oracle
-- checks it equals `to_le_bytes` on the little-endian host it runs on).

end EG.C12
