/-
  C07 — property theorems (placeholder: no theorem yet, the property is not claimed).
-/
import EG.Basic.Core
namespace EG.C07
end EG.C07
