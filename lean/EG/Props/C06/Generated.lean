/-
  C06 — the REGENERATED `PrimitiveStyle` and styled rectangle equal the hand-written models.

  `EG/Generated/StyledSrc.lean` is written by `tools/tr_styled.py` from /repo's Rust text
  (src/primitives/primitive_style.rs, src/primitives/rectangle/styled.rs) on every run of a check: one Lean `def` per
  Rust function, arm for arm; every Rust primitive is a function of the trusted preludes
  `EG/Model/RectSrcPrelude.lean` / `EG/Model/StyledSrcPrelude.lean`, a call of a `Rectangle` function is the regenerated
  definition of `EG/Generated/RectSrc.lean`. This file proves `<name>_src_eq_model` for every translated function of
  `PrimitiveStyle`, `PrimitiveStyleBuilder`, and for `draw_styled` / `styled_bounding_box` of the rectangle, and restates the
  C06 rectangle headline over the generated functions (`src_*`). The iterator is in `Props/C01/Generated.lean`.

  Where the two differ (stated exactly):
  * The Rust `PrimitiveStyle` has a fifth field `stroke_style` (`Solid` / `Dotted`); the hand model `EG.Style` is the
    `Solid` instance. `toStyle` forgets the field, `ofStyle` sets it to `Solid`. The theorems about functions that never
    read the field hold for EVERY Rust style; `fill_area` and `draw_styled` are for `stroke_style = Solid`
    (`fill_area_dotted_src` says what the other arm is; the `Dotted` block of `draw_styled` is not translated: it is the
    parameter `dotted` of the generated function, which the `Solid` instance does not use: `draw_styled_src_ignores_dotted`).
  * `Rectangle::offset` needs `IsU32` on the size (the `u32` type bound that `Nat` lacks; from C16's tie).
  * In `draw_styled` the two `Point + Size` (`bottom_border`, `left_border`) cast with `as i32` behind a `debug_assert!`, and
    `right_border` casts `width - left.width` with `as i32`; the hand model adds mathematically. They agree when the
    stroke area's size fits `i32` (`FitsI32 (strokeArea ..).size`), which `BordersFit` states. It follows from the guard of the
    C06 pixel theorems (`Guard`: the stroke area lies in the `i32` coordinate range): `bordersFit_of_guard`.
  * `StrokeAlignment` has capitalised constructors in the generated enum (`alignOf`).
-/
import EG.Generated.StyledSrc
import EG.Props.C16.Generated
import EG.Props.C06.Rectangle
import EG.Model.PrimStyle
namespace EG.C06.Src
open EG EG.Rect EG.StyledRect EG.RectSrcPrelude EG.StyledSrcPrelude EG.Generated EG.C16.Src

/-! ### vocabulary -/

def alignOf : StyledSrc.StrokeAlignment → EG.StrokeAlignment
  | .Inside => .inside | .Center => .center | .Outside => .outside
def alignTo : EG.StrokeAlignment → StyledSrc.StrokeAlignment
  | .inside => .Inside | .center => .Center | .outside => .Outside

/-- The Rust style as the hand model's (the `stroke_style` field is forgotten). -/
def toStyle (p : StyledSrc.PrimitiveStyle) : Style := ⟨p.fill_color, p.stroke_color, p.stroke_width, alignOf p.stroke_alignment⟩
/-- The hand model's style as the Rust style with `stroke_style = Solid`. -/
def ofStyle (s : Style) : StyledSrc.PrimitiveStyle := ⟨s.fill, s.stroke, s.width, alignTo s.align, .Solid⟩

theorem toStyle_ofStyle (s : Style) : toStyle (ofStyle s) = s := by
  obtain ⟨f, st, w, a⟩ := s; cases a <;> rfl
theorem ofStyle_toStyle (p : StyledSrc.PrimitiveStyle) (h : p.stroke_style = .Solid) : ofStyle (toStyle p) = p := by
  obtain ⟨f, st, w, a, ss⟩ := p; cases a <;> simp_all [ofStyle, toStyle, alignOf, alignTo]
theorem ofStyle_solid (s : Style) : (ofStyle s).stroke_style = .Solid := rfl

/-- unfold the prelude primitives of StyledSrcPrelude and the generated accessors -/
macro "styled_simp" "[" ls:Lean.Parser.Tactic.simpLemma,* "]" loc:(Lean.Parser.Tactic.location)? : tactic =>
  `(tactic| simp only [option_is_none, option_filter, enum_eq, enum_ne, target_fill_solid, Pixel_mk,
      StyledSrc.PrimitiveStyle_mk, StyledSrc.PrimitiveStyle_fill_color, StyledSrc.PrimitiveStyle_stroke_color,
      StyledSrc.PrimitiveStyle_stroke_width, StyledSrc.PrimitiveStyle_stroke_alignment, StyledSrc.PrimitiveStyle_stroke_style,
      StyledSrc.PrimitiveStyle_set_fill_color, StyledSrc.PrimitiveStyle_set_stroke_color, StyledSrc.PrimitiveStyle_set_stroke_width,
      StyledSrc.PrimitiveStyle_set_stroke_alignment, StyledSrc.PrimitiveStyle_set_stroke_style,
      StyledSrc.PrimitiveStyleBuilder_mk, StyledSrc.PrimitiveStyleBuilder_style, StyledSrc.PrimitiveStyleBuilder_set_style,
      u32_div, u32_saturating_add, u32_saturating_as_i32, u32_eq, u32_gt, u32_min, u32_sub, u32_add, u32_mul, u32_as_i32,
      u32_saturating_sub, i32_neg, bool_and, bool_or, bool_not, Size_width, Size_height, Rectangle_size, Rectangle_top_left,
      $ls,*] $[$loc]?)

/-! ### `PrimitiveStyle`: constructors -/

theorem const_default_src_eq_model :
    StyledSrc.PrimitiveStyle_const_default = ⟨none, none, 0, .Center, .Solid⟩ := rfl
theorem StrokeStyle_const_default_src_eq_model : StyledSrc.StrokeStyle_const_default = .Solid := rfl
theorem StrokeAlignment_default_src_eq_model : alignOf StyledSrc.StrokeAlignment_Default_default = .center := rfl
theorem PrimitiveStyle_new_src_eq_model : StyledSrc.PrimitiveStyle_new = ofStyle ⟨none, none, 0, .center⟩ := rfl
theorem PrimitiveStyle_default_src_eq_model : StyledSrc.PrimitiveStyle_Default_default = StyledSrc.PrimitiveStyle_new := rfl
theorem with_stroke_src_eq_model (c : Color) (w : Nat) :
    StyledSrc.PrimitiveStyle_with_stroke c w = ofStyle ⟨none, some c, w, .center⟩ := rfl
theorem with_fill_src_eq_model (c : Color) :
    StyledSrc.PrimitiveStyle_with_fill c = ofStyle ⟨some c, none, 0, .center⟩ := rfl

/-! ### `PrimitiveStyle`: the split of the width, transparency, effective stroke colour (every Rust style) -/

theorem outside_stroke_width_src_eq_model (p : StyledSrc.PrimitiveStyle) :
    StyledSrc.PrimitiveStyle_outside_stroke_width p = (toStyle p).outsideStrokeWidth := by
  obtain ⟨f, st, w, a, ss⟩ := p
  cases a <;> rfl

theorem inside_stroke_width_src_eq_model (p : StyledSrc.PrimitiveStyle) :
    StyledSrc.PrimitiveStyle_inside_stroke_width p = (toStyle p).insideStrokeWidth := by
  obtain ⟨f, st, w, a, ss⟩ := p
  cases a <;> rfl

theorem is_transparent_src_eq_model (p : StyledSrc.PrimitiveStyle) :
    StyledSrc.PrimitiveStyle_is_transparent p = (toStyle p).isTransparent := by
  obtain ⟨f, st, w, a, ss⟩ := p
  cases f <;> cases st <;> simp [StyledSrc.PrimitiveStyle_is_transparent, Style.isTransparent, toStyle, option_is_none, bool_and, bool_or, u32_eq,
    StyledSrc.PrimitiveStyle_stroke_width, StyledSrc.PrimitiveStyle_stroke_color, StyledSrc.PrimitiveStyle_fill_color] <;>
    (by_cases hw : w = 0 <;> simp [hw])

theorem effective_stroke_color_src_eq_model (p : StyledSrc.PrimitiveStyle) :
    StyledSrc.PrimitiveStyle_effective_stroke_color p = (toStyle p).effectiveStrokeColor := by
  obtain ⟨f, st, w, a, ss⟩ := p
  cases st <;> simp [StyledSrc.PrimitiveStyle_effective_stroke_color, Style.effectiveStrokeColor, toStyle, Option.filter, option_filter, u32_gt,
    StyledSrc.PrimitiveStyle_stroke_width, StyledSrc.PrimitiveStyle_stroke_color]

/-! ### `stroke_area`, `fill_area` (instantiated with `P := Rectangle`), `styled_bounding_box` -/

theorem strokeOffset_src (p : StyledSrc.PrimitiveStyle) :
    u32_saturating_as_i32 (StyledSrc.PrimitiveStyle_outside_stroke_width p) = (toStyle p).strokeOffset := by
  rw [outside_stroke_width_src_eq_model]; rfl

theorem stroke_area_src_eq_model (p : StyledSrc.PrimitiveStyle) (r : Rect) (h : IsU32 r.size) :
    StyledSrc.PrimitiveStyle_stroke_area p r = strokeArea (toStyle p) r := by
  unfold StyledSrc.PrimitiveStyle_stroke_area strokeArea
  rw [strokeOffset_src, OffsetOutline_offset_src_eq_model r _ h]

/-- `fill_area` with a solid stroke: the shape shrunk by the inside part of the width. -/
theorem fill_area_src_eq_model (p : StyledSrc.PrimitiveStyle) (r : Rect) (hs : p.stroke_style = .Solid) (h : IsU32 r.size) :
    StyledSrc.PrimitiveStyle_fill_area p r = fillArea (toStyle p) r := by
  unfold StyledSrc.PrimitiveStyle_fill_area fillArea
  styled_simp []
  simp only [hs, decide_true, ↓reduceIte]
  rw [inside_stroke_width_src_eq_model, OffsetOutline_offset_src_eq_model r _ h]
  rfl

/-- The other arm of `fill_area` (not in the hand model): with a dotted stroke the fill area is the shape itself. -/
theorem fill_area_dotted_src (p : StyledSrc.PrimitiveStyle) (r : Rect) (hs : p.stroke_style = .Dotted) (h : IsU32 r.size) :
    StyledSrc.PrimitiveStyle_fill_area p r = r.offset 0 := by
  unfold StyledSrc.PrimitiveStyle_fill_area
  styled_simp []
  have hd : decide (StyledSrc.StrokeStyle.Dotted = StyledSrc.StrokeStyle.Solid) = false := by decide
  simp only [hs, hd, Bool.false_eq_true, ↓reduceIte]
  rw [OffsetOutline_offset_src_eq_model r _ h]

theorem styled_bounding_box_src_eq_model (p : StyledSrc.PrimitiveStyle) (r : Rect) (h : IsU32 r.size) :
    StyledSrc.Rectangle_StyledDimensions_styled_bounding_box r p = styledBoundingBox (toStyle p) r := by
  unfold StyledSrc.Rectangle_StyledDimensions_styled_bounding_box styledBoundingBox
  rw [strokeOffset_src, Dimensions_bounding_box_src_eq_model, offset_src_eq_model r _ h]

/-! ### `PrimitiveStyleBuilder` -/

theorem builder_new_src_eq_model : StyledSrc.PrimitiveStyleBuilder_build StyledSrc.PrimitiveStyleBuilder_new = StyledSrc.PrimitiveStyle_new := rfl
theorem builder_fill_color_src_eq_model (b : StyledSrc.PrimitiveStyleBuilder) (c : Color) :
    StyledSrc.PrimitiveStyleBuilder_fill_color b c = ⟨{ b.style with fill_color := some c }⟩ := rfl
theorem builder_reset_fill_color_src_eq_model (b : StyledSrc.PrimitiveStyleBuilder) :
    StyledSrc.PrimitiveStyleBuilder_reset_fill_color b = ⟨{ b.style with fill_color := none }⟩ := rfl
theorem builder_stroke_color_src_eq_model (b : StyledSrc.PrimitiveStyleBuilder) (c : Color) :
    StyledSrc.PrimitiveStyleBuilder_stroke_color b c = ⟨{ b.style with stroke_color := some c }⟩ := rfl
theorem builder_reset_stroke_color_src_eq_model (b : StyledSrc.PrimitiveStyleBuilder) :
    StyledSrc.PrimitiveStyleBuilder_reset_stroke_color b = ⟨{ b.style with stroke_color := none }⟩ := rfl
theorem builder_stroke_width_src_eq_model (b : StyledSrc.PrimitiveStyleBuilder) (w : Nat) :
    StyledSrc.PrimitiveStyleBuilder_stroke_width b w = ⟨{ b.style with stroke_width := w }⟩ := rfl
theorem builder_stroke_alignment_src_eq_model (b : StyledSrc.PrimitiveStyleBuilder) (a : StyledSrc.StrokeAlignment) :
    StyledSrc.PrimitiveStyleBuilder_stroke_alignment b a = ⟨{ b.style with stroke_alignment := a }⟩ := rfl
theorem builder_stroke_style_src_eq_model (b : StyledSrc.PrimitiveStyleBuilder) (ss : StyledSrc.StrokeStyle) :
    StyledSrc.PrimitiveStyleBuilder_stroke_style b ss = ⟨{ b.style with stroke_style := ss }⟩ := rfl
theorem builder_build_src_eq_model (b : StyledSrc.PrimitiveStyleBuilder) : StyledSrc.PrimitiveStyleBuilder_build b = b.style := rfl
theorem builder_from_src_eq_model (p : StyledSrc.PrimitiveStyle) :
    StyledSrc.PrimitiveStyleBuilder_build (StyledSrc.PrimitiveStyleBuilder_From_from p) = p := rfl

/-- A style built by the builder from the defaults with all four setters is the model style (what the harness's
builder-built styles are). -/
theorem builder_chain_src_eq_model (fc sc : Color) (w : Nat) (a : EG.StrokeAlignment) :
    StyledSrc.PrimitiveStyleBuilder_build
      (StyledSrc.PrimitiveStyleBuilder_stroke_alignment
        (StyledSrc.PrimitiveStyleBuilder_stroke_width
          (StyledSrc.PrimitiveStyleBuilder_stroke_color
            (StyledSrc.PrimitiveStyleBuilder_fill_color StyledSrc.PrimitiveStyleBuilder_new fc) sc) w) (alignTo a))
      = ofStyle ⟨some fc, some sc, w, a⟩ := rfl

/-! ### `draw_styled` (solid stroke) -/

/-- The `as i32` casts of the border computations do not wrap: the stroke area's size fits `i32`. -/
def BordersFit (s : Style) (r : Rect) : Prop := IsU32 r.size ∧ FitsI32 (strokeArea s r).size
instance (s : Style) (r : Rect) : Decidable (BordersFit s r) := by unfold BordersFit; exact inferInstance
example : BordersFit ⟨some 7, some 9, 3, .center⟩ ⟨⟨-2, -1⟩, ⟨4, 5⟩⟩ := by decide

theorem draw_styled_src_eq_model (s : Style) (r : Rect) (h : BordersFit s r) (dotted : List Call) :
    StyledSrc.Rectangle_StyledDrawable_draw_styled r (ofStyle s) dotted = drawCalls s r := by
  obtain ⟨hu, hw, hh⟩ := h
  have hfa := fill_area_src_eq_model (ofStyle s) r rfl hu
  have hsa := stroke_area_src_eq_model (ofStyle s) r hu
  have hec := effective_stroke_color_src_eq_model (ofStyle s)
  rw [toStyle_ofStyle] at hfa hsa hec
  have e1 : (ofStyle s).fill_color = s.fill := rfl
  have e2 : (ofStyle s).stroke_style = .Solid := rfl
  have e3 : (ofStyle s).stroke_width = s.width := rfl
  have hdot : (decide (StyledSrc.StrokeStyle.Solid = StyledSrc.StrokeStyle.Dotted)) = false := by decide
  unfold StyledSrc.Rectangle_StyledDrawable_draw_styled drawCalls fillCalls
  styled_simp [hfa, hec, hsa, e1, e2, e3, hdot, Bool.false_eq_true, ↓reduceIte]
  cases s.fill <;> cases s.effectiveStrokeColor <;> simp only [List.nil_append, List.append_nil, List.cons_append]
  all_goals (try rfl)
  all_goals
    unfold strokeCalls rightBorder leftBorder bottomBorder bottomStrokeWidth topBorder
    generalize strokeArea s r = sa at hw hh ⊢
    generalize fillArea s r = fa
    obtain ⟨⟨sx, sy⟩, ⟨sw, sh⟩⟩ := sa
    dsimp only at hw hh
    prelude_simp [RectSrc.new, RectSrc.Size_new, RectSrc.Point_op_add_Size, RectSrc.Point_new, RectSrc.Size_y_axis,
      RectSrc.Transform_translate, RectSrc.Point_op_add_Point, Rect.translate]
    have h1 : sh - min s.width (sh - min s.width (sh / 2)) ≤ 2147483647 := by omega
    have h2 : min s.width (sh / 2) ≤ 2147483647 := by omega
    have h3 : sw - min (s.width * 2) (sw + 1) / 2 ≤ 2147483647 := by omega
    have h4 : (0 : Nat) ≤ 2147483647 := by omega
    simp only [h1, h2, h3, h4, ↓reduceIte]
    have pt_add : ∀ a b c d : Int, (⟨a, b⟩ : Pt) + ⟨c, d⟩ = ⟨a + c, b + d⟩ := fun _ _ _ _ => rfl
    by_cases hf : fa.size.h > 0 <;> simp [hf, pt_add]

/-- The `Solid` instance of `draw_styled` does not use the untranslated `Dotted` block. -/
theorem draw_styled_src_ignores_dotted (s : Style) (r : Rect) (h : BordersFit s r) (d1 d2 : List Call) :
    StyledSrc.Rectangle_StyledDrawable_draw_styled r (ofStyle s) d1 =
      StyledSrc.Rectangle_StyledDrawable_draw_styled r (ofStyle s) d2 := by
  rw [draw_styled_src_eq_model s r h, draw_styled_src_eq_model s r h]

/-- The guard of C06's pixel theorems gives the no-wrap condition of the border computations. -/
theorem bordersFit_of_guard {s : Style} {r : Rect} (h : Guard s r) (hu : IsU32 r.size) : BordersFit s r :=
  ⟨hu, h.2.2.2.1, h.2.2.2.2.1⟩

/-! ### what is not translated, and the shape of the target calls -/

/-- Every function of the two files is translated except the four free functions of the dotted border, and the one
block of `draw_styled` that calls them. An added function (an override of `Iterator::fold` for `StyledPixelsIterator`, a
second `impl` block) changes this list. -/
theorem styled_untranslated_pinned : StyledSrc.untranslated =
    [("free functions of src/primitives/rectangle/styled.rs",
        ["dot_positions_with_dotted_corners", "draw_dotted_rectangle_border_with_dotted_corners",
         "dot_positions_in_clockwise_order", "draw_dotted_rectangle_border_in_clockwise_order"]),
     ("blocks replaced by the parameter `dotted`", ["draw_styled: if style.stroke_style == StrokeStyle::Dotted"])] := by
  decide

/-- `draw_styled` contains five target calls in its text (fill, top, bottom, left, right), each a statement
`target.fill_solid(..)?;` (the translator refuses any other use of `target`): an error of the target ends the function at
that call and is returned unchanged. -/
theorem draw_styled_target_calls_pinned :
    StyledSrc.targetCallShapes = [("Rectangle_StyledDrawable_draw_styled", 5)] := by decide

/-! ### C06 (rectangle) restated over the generated functions -/

/-- The split of the stroke width, of the Rust style (every `stroke_style`). -/
theorem src_stroke_width_split (p : StyledSrc.PrimitiveStyle) (h : p.stroke_width < 4294967295) :
    StyledSrc.PrimitiveStyle_inside_stroke_width p + StyledSrc.PrimitiveStyle_outside_stroke_width p = p.stroke_width ∧
    (p.stroke_alignment = .Inside → StyledSrc.PrimitiveStyle_inside_stroke_width p = p.stroke_width ∧
      StyledSrc.PrimitiveStyle_outside_stroke_width p = 0) ∧
    (p.stroke_alignment = .Outside → StyledSrc.PrimitiveStyle_inside_stroke_width p = 0 ∧
      StyledSrc.PrimitiveStyle_outside_stroke_width p = p.stroke_width) ∧
    (p.stroke_alignment = .Center → StyledSrc.PrimitiveStyle_outside_stroke_width p = p.stroke_width / 2 ∧
      StyledSrc.PrimitiveStyle_inside_stroke_width p = (p.stroke_width + 1) / 2) := by
  rw [inside_stroke_width_src_eq_model, outside_stroke_width_src_eq_model]
  have := C06.Rectangle.stroke_width_split (toStyle p) h
  obtain ⟨h0, h1, h2, h3⟩ := this
  refine ⟨h0, ?_, ?_, ?_⟩
  · intro ha; exact h1 (by simp [toStyle, alignOf, ha])
  · intro ha; exact h2 (by simp [toStyle, alignOf, ha])
  · intro ha; have := h3 (by simp [toStyle, alignOf, ha]); exact ⟨this.1, this.2.1⟩

example : (⟨some 7, some 9, 5, .Center, .Dotted⟩ : StyledSrc.PrimitiveStyle).stroke_width < 4294967295 := by decide

/-- The generated `stroke_area` grows a non-degenerate shape by the outside part of the width on every side. -/
theorem src_stroke_area_grows (s : Style) (r : Rect) (h : NoSat s r) (hu : IsU32 r.size) (hr : 0 < r.size.w ∧ 0 < r.size.h) :
    (StyledSrc.PrimitiveStyle_stroke_area (ofStyle s) r).tl.x = r.tl.x - s.outsideStrokeWidth ∧
    (StyledSrc.PrimitiveStyle_stroke_area (ofStyle s) r).tl.y = r.tl.y - s.outsideStrokeWidth ∧
    (StyledSrc.PrimitiveStyle_stroke_area (ofStyle s) r).size.w = r.size.w + 2 * s.outsideStrokeWidth ∧
    (StyledSrc.PrimitiveStyle_stroke_area (ofStyle s) r).size.h = r.size.h + 2 * s.outsideStrokeWidth := by
  rw [stroke_area_src_eq_model _ r hu, toStyle_ofStyle]
  exact C06.Rectangle.stroke_area_grows s r h hr

/-- The generated `fill_area` lies inside the generated `stroke_area`. -/
theorem src_fill_area_subset_stroke_area (s : Style) (r : Rect) (h : NoSat s r) (hu : IsU32 r.size) (p : Pt)
    (hp : (StyledSrc.PrimitiveStyle_fill_area (ofStyle s) r).contains p = true) :
    (StyledSrc.PrimitiveStyle_stroke_area (ofStyle s) r).contains p = true := by
  rw [stroke_area_src_eq_model _ r hu, toStyle_ofStyle]
  rw [fill_area_src_eq_model _ r rfl hu, toStyle_ofStyle] at hp
  exact C06.Rectangle.fill_area_subset_stroke_area s r h p hp

/-- **C06 for rectangles, over the regenerated code.** The calls that the generated `draw_styled` makes, run on a target with
box `B`, paint `p` with the fill colour iff the generated `fill_area` contains it, with the stroke colour iff the generated
`stroke_area` contains it and `fill_area` does not (non-zero width), and leave every other point untouched. -/
theorem src_styled_rect_exact (s : Style) (r : Rect) (h : Guard s r) (hu : IsU32 r.size) (dotted : List Call) (B : Rect) (p : Pt) :
    runNative B (StyledSrc.Rectangle_StyledDrawable_draw_styled r (ofStyle s) dotted) p =
      if B.contains p = true then
        (if (StyledSrc.PrimitiveStyle_fill_area (ofStyle s) r).contains p = true then s.fill
         else if (StyledSrc.PrimitiveStyle_stroke_area (ofStyle s) r).contains p = true ∧ s.width > 0 then s.stroke
         else none)
      else none := by
  rw [draw_styled_src_eq_model s r (bordersFit_of_guard h hu), stroke_area_src_eq_model _ r hu,
    fill_area_src_eq_model _ r rfl hu, toStyle_ofStyle]
  exact C06.Rectangle.styled_rect_exact s r h B p

example : Guard ⟨some 7, some 9, 3, .center⟩ ⟨⟨-2, -1⟩, ⟨4, 5⟩⟩ ∧ IsU32 (⟨⟨-2, -1⟩, ⟨4, 5⟩⟩ : Rect).size := by decide
example : StyledSrc.Rectangle_StyledDrawable_draw_styled ⟨⟨0, 0⟩, ⟨3, 4⟩⟩ (ofStyle ⟨some 7, some 9, 1, .inside⟩) [] =
    drawCalls ⟨some 7, some 9, 1, .inside⟩ ⟨⟨0, 0⟩, ⟨3, 4⟩⟩ := by decide

/-! ### the second hand model of the style, `EG.PrimStyle` (circle, ellipse, rounded rectangle, sector) -/

/-- The Rust style as `EG.PrimStyle` (the `stroke_style` field is forgotten). -/
def toPrimStyle (p : StyledSrc.PrimitiveStyle) : PrimStyle :=
  ⟨p.fill_color, p.stroke_color, p.stroke_width, alignOf p.stroke_alignment⟩

theorem prim_outside_stroke_width_src_eq_model (p : StyledSrc.PrimitiveStyle) :
    StyledSrc.PrimitiveStyle_outside_stroke_width p = (toPrimStyle p).outsideStrokeWidth := by
  obtain ⟨f, st, w, a, ss⟩ := p
  cases a <;> rfl

theorem prim_inside_stroke_width_src_eq_model (p : StyledSrc.PrimitiveStyle) :
    StyledSrc.PrimitiveStyle_inside_stroke_width p = (toPrimStyle p).insideStrokeWidth := by
  obtain ⟨f, st, w, a, ss⟩ := p
  cases a <;> rfl

theorem prim_is_transparent_src_eq_model (p : StyledSrc.PrimitiveStyle) :
    StyledSrc.PrimitiveStyle_is_transparent p = (toPrimStyle p).isTransparent := by
  rw [is_transparent_src_eq_model]; rfl

theorem prim_effective_stroke_color_src_eq_model (p : StyledSrc.PrimitiveStyle) :
    StyledSrc.PrimitiveStyle_effective_stroke_color p = (toPrimStyle p).effectiveStrokeColor := by
  obtain ⟨f, st, w, a, ss⟩ := p
  cases st <;> simp [StyledSrc.PrimitiveStyle_effective_stroke_color, PrimStyle.effectiveStrokeColor, toPrimStyle, option_filter,
    u32_gt, StyledSrc.PrimitiveStyle_stroke_width, StyledSrc.PrimitiveStyle_stroke_color]

/-- The offsets every other styled closed shape hands to its own `OffsetOutline::offset` (the generated `stroke_area` / `fill_area`
bodies with `P` left open): `outside_stroke_width().saturating_as()` and, for a solid stroke,
`-inside_stroke_width().saturating_as::<i32>()`. -/
theorem prim_offsets_src_eq_model (p : StyledSrc.PrimitiveStyle) :
    u32_saturating_as_i32 (StyledSrc.PrimitiveStyle_outside_stroke_width p) = (toPrimStyle p).strokeOffset ∧
    i32_neg (u32_saturating_as_i32 (StyledSrc.PrimitiveStyle_inside_stroke_width p)) = (toPrimStyle p).fillOffset := by
  rw [prim_outside_stroke_width_src_eq_model, prim_inside_stroke_width_src_eq_model]
  exact ⟨rfl, rfl⟩

end EG.C06.Src
