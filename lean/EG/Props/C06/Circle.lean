/-
  C06 (circle part) — a styled circle with a solid stroke paints a point with the fill colour iff
  `fill_area()` contains it, with the stroke colour iff `stroke_area()` contains it and `fill_area()`
  does not (and the stroke width is non-zero), and leaves all other points untouched; the stroke
  area is the circle grown on every side by the outside part of the stroke width, the fill area
  the circle shrunk by the inside part; an inside stroke never paints outside the shape and an
  outside stroke never paints inside it.

  Model: `EG.Model.Circle` + `PrimStyle` + `Scanline` / `StyledScanline`; pixel maps are those of
  the recording targets (`runNative` = R2, `runDefault` = R1) with an arbitrary bounding box `B`.
  Range guards (decidable): the bounding boxes of the two areas do not saturate / overflow `i32`.
-/
import EG.Lemmas.CircleStyled
import EG.Props.C01.Scanline
namespace EG.C06
open EG EG.Circle

/-! ### split of the stroke width -/

/-- `inside + outside = width` (saturation of `width + 1` at `u32::MAX` aside). -/
theorem stroke_width_split (st : PrimStyle) (h : st.strokeWidth < 4294967295) :
    st.insideStrokeWidth + st.outsideStrokeWidth = st.strokeWidth := st.width_split h
example : (⟨none, some 1, 5, .center⟩ : PrimStyle).strokeWidth < 4294967295 := by decide

/-- `Inside`: all inside. -/
theorem stroke_split_inside (st : PrimStyle) (h : st.strokeAlignment = .inside) :
    st.insideStrokeWidth = st.strokeWidth ∧ st.outsideStrokeWidth = 0 := by
  unfold PrimStyle.insideStrokeWidth PrimStyle.outsideStrokeWidth; rw [h]; exact ⟨rfl, rfl⟩
example : (⟨none, some 1, 5, .inside⟩ : PrimStyle).strokeAlignment = .inside := rfl

/-- `Outside`: all outside. -/
theorem stroke_split_outside (st : PrimStyle) (h : st.strokeAlignment = .outside) :
    st.insideStrokeWidth = 0 ∧ st.outsideStrokeWidth = st.strokeWidth := by
  unfold PrimStyle.insideStrokeWidth PrimStyle.outsideStrokeWidth; rw [h]; exact ⟨rfl, rfl⟩
example : (⟨none, some 1, 5, .outside⟩ : PrimStyle).strokeAlignment = .outside := rfl

/-- `Center`: the larger half inside. -/
theorem stroke_split_center (st : PrimStyle) (h : st.strokeAlignment = .center)
    (hw : st.strokeWidth < 4294967295) :
    st.insideStrokeWidth = (st.strokeWidth + 1) / 2 ∧ st.outsideStrokeWidth = st.strokeWidth / 2 ∧
      st.outsideStrokeWidth ≤ st.insideStrokeWidth ∧ st.insideStrokeWidth ≤ st.outsideStrokeWidth + 1 := by
  unfold PrimStyle.insideStrokeWidth PrimStyle.outsideStrokeWidth satAddU32
  rw [h]
  simp only
  rw [if_pos (by omega)]
  refine ⟨?_, ?_, ?_, ?_⟩ <;> first | trivial | omega
example : (⟨none, some 1, 5, .center⟩ : PrimStyle).strokeAlignment = .center ∧
    (⟨none, some 1, 5, .center⟩ : PrimStyle).strokeWidth < 4294967295 := by decide

/-! ### `Circle::offset`, `stroke_area`, `fill_area` -/

/-- `offset(k)`, `k ≥ 0`: grown by `k` on every side (diameter `+ 2k`, top-left `- (k, k)`). -/
theorem circle_offset_grow (c : Circle) (k : Nat) (hd : 1 ≤ c.d) (hs : c.d + 2 * k ≤ 4294967295) :
    c.offset (k : Int) = ⟨⟨c.tl.x - k, c.tl.y - k⟩, c.d + 2 * k⟩ := offset_grow c k hd hs
example : 1 ≤ (⟨⟨-3, 2⟩, 7⟩ : Circle).d ∧ (⟨⟨-3, 2⟩, 7⟩ : Circle).d + 2 * 3 ≤ 4294967295 := by decide

/-- `offset(-k)`: shrunk by `k` on every side while something is left ... -/
theorem circle_offset_shrink (c : Circle) (k : Nat) (hk : 1 ≤ k) (hd : 2 * k < c.d) :
    c.offset (-(k : Int)) = ⟨⟨c.tl.x + k, c.tl.y + k⟩, c.d - 2 * k⟩ := offset_shrink c k hk hd
example : 2 * 3 < (⟨⟨-3, 2⟩, 7⟩ : Circle).d := by decide

/-- ... and the diameter saturates at 0 otherwise (then the circle is empty). -/
theorem circle_offset_collapse (c : Circle) (k : Nat) (hk : 1 ≤ k) (hd : c.d ≤ 2 * k) (p : Pt) :
    (c.offset (-(k : Int))).d = 0 ∧ (c.offset (-(k : Int))).contains p = false :=
  ⟨offset_shrink_collapse c k hk hd, contains_false_of_zero (offset_shrink_collapse c k hk hd) p⟩
example : (⟨⟨-3, 2⟩, 6⟩ : Circle).d ≤ 2 * 3 := by decide

/-- `offset` keeps `center_2x` (the centre in doubled coordinates) whenever both circles are
non-empty: re-centring with a diameter of the same parity. -/
theorem circle_offset_keeps_center (c : Circle) (d' : Nat) (h1 : 1 ≤ c.d) (h2 : 1 ≤ d')
    (hp : d' % 2 = c.d % 2) : (Circle.withCenter c.center d').center2x = c.center2x :=
  withCenter_center2x c d' h1 h2 hp
example : 1 ≤ (⟨⟨-3, 2⟩, 7⟩ : Circle).d ∧ 1 ≤ 13 ∧ 13 % 2 = (⟨⟨-3, 2⟩, 7⟩ : Circle).d % 2 := by decide

/-- **The stroke area is the circle grown on every side by the outside part of the width.** -/
theorem circle_stroke_area_grown (st : PrimStyle) (c : Circle) (hd : 1 ≤ c.d)
    (hw : st.outsideStrokeWidth ≤ 2147483647) (hs : c.d + 2 * st.outsideStrokeWidth ≤ 4294967295) :
    c.strokeArea st = ⟨⟨c.tl.x - st.outsideStrokeWidth, c.tl.y - st.outsideStrokeWidth⟩,
      c.d + 2 * st.outsideStrokeWidth⟩ := by
  unfold strokeArea PrimStyle.strokeOffset
  rw [Rect.satAsI32_of_le hw]
  exact offset_grow c _ hd hs
example : (⟨none, some 1, 5, .center⟩ : PrimStyle).outsideStrokeWidth ≤ 2147483647 := by decide

/-- **The fill area is the circle shrunk on every side by the inside part of the width** (while
something is left; otherwise it is empty). -/
theorem circle_fill_area_shrunk (st : PrimStyle) (c : Circle) (hk : 1 ≤ st.insideStrokeWidth)
    (hw : st.insideStrokeWidth ≤ 2147483647) (hd : 2 * st.insideStrokeWidth < c.d) :
    c.fillArea st = ⟨⟨c.tl.x + st.insideStrokeWidth, c.tl.y + st.insideStrokeWidth⟩,
      c.d - 2 * st.insideStrokeWidth⟩ := by
  unfold fillArea PrimStyle.fillOffset
  rw [Rect.satAsI32_of_le hw]
  exact offset_shrink c _ hk hd
example : 1 ≤ (⟨none, some 1, 5, .center⟩ : PrimStyle).insideStrokeWidth ∧
    2 * (⟨none, some 1, 5, .center⟩ : PrimStyle).insideStrokeWidth < 7 := by decide

theorem circle_fill_area_collapsed (st : PrimStyle) (c : Circle) (hk : 1 ≤ st.insideStrokeWidth)
    (hw : st.insideStrokeWidth ≤ 2147483647) (hd : c.d ≤ 2 * st.insideStrokeWidth) (p : Pt) :
    (c.fillArea st).contains p = false := by
  unfold fillArea PrimStyle.fillOffset
  rw [Rect.satAsI32_of_le hw]
  exact (circle_offset_collapse c _ hk hd p).2
example : (6 : Nat) ≤ 2 * (⟨none, some 1, 5, .center⟩ : PrimStyle).insideStrokeWidth := by decide

/-- Zero inside (outside) part: the fill (stroke) area is the circle itself. -/
theorem circle_stroke_area_inside (st : PrimStyle) (c : Circle) (h : st.strokeAlignment = .inside)
    (hd : c.d ≤ 4294967295) : c.strokeArea st = c := strokeArea_inside c h hd
theorem circle_fill_area_outside (st : PrimStyle) (c : Circle) (h : st.strokeAlignment = .outside)
    (hd : c.d ≤ 4294967295) : c.fillArea st = c := fillArea_outside c h hd
example : (⟨⟨-3, 2⟩, 7⟩ : Circle).d ≤ 4294967295 := by decide

/-- The fill area lies within the stroke area. -/
theorem circle_fill_area_subset_stroke_area (st : PrimStyle) (c : Circle)
    (hS : (c.strokeArea st).InRange) (hF : (c.fillArea st).InRange) (p : Pt)
    (h : (c.fillArea st).contains p = true) : (c.strokeArea st).contains p = true :=
  fill_subset_stroke hS hF h

/-! ### the pixel map of `draw()` -/

/-- **`styled_circle_exact`.** On a target with bounding box `B`, natively (R2) and through the
trait defaults (R1), `draw()` leaves at `p`: nothing outside `B`; the fill colour (if one is set)
iff `fill_area` contains `p`; the stroke colour (if one is set) iff `stroke_area` contains `p`,
`fill_area` does not and the width is non-zero; nothing otherwise — for all diameters, widths
(including wider than the shape), alignments and colour options. -/
theorem styled_circle_exact (st : PrimStyle) (c : Circle) (B : Rect)
    (hS : (c.strokeArea st).InRange) (hF : (c.fillArea st).InRange) (p : Pt) :
    runNative B (c.drawStyled st) p =
      (if B.contains p = true then
        if (c.fillArea st).contains p = true then st.fillColor
        else if (c.strokeArea st).contains p = true ∧ st.strokeWidth > 0 then st.strokeColor
        else none
      else none) ∧
    runDefault B (c.drawStyled st) p = runNative B (c.drawStyled st) p := by
  rw [C01.circle_draw_default_eq_native, C01.styled_circle_draw_map st c B hS hF]
  exact ⟨rfl, rfl⟩
example : (Circle.strokeArea ⟨some 1, some 2, 9, .center⟩ ⟨⟨-3, 2⟩, 7⟩).InRange ∧
    (Circle.fillArea ⟨some 1, some 2, 9, .center⟩ ⟨⟨-3, 2⟩, 7⟩).InRange := by decide

/-- The same for `draw_iter(pixels())`. -/
theorem styled_circle_pixels_exact (st : PrimStyle) (c : Circle) (B : Rect)
    (hS : (c.strokeArea st).InRange) (hF : (c.fillArea st).InRange) (p : Pt) :
    PMap.empty.apply (clipWrites B (c.styledPixels st)) p =
      if B.contains p = true then styledExpected st c p else none := by
  rw [← (C01.styled_circle_pixels_eq_draw st c B hS hF).1, C01.styled_circle_draw_map st c B hS hF]

/-- **An inside stroke never paints outside the shape.** -/
theorem circle_inside_stroke_inside (st : PrimStyle) (c : Circle) (B : Rect)
    (h : st.strokeAlignment = .inside) (hc : c.InRange)
    (hF : (c.fillArea st).InRange) (p : Pt) (col : Color)
    (hp : runNative B (c.drawStyled st) p = some col) : c.contains p = true := by
  have hd : c.d ≤ 4294967295 := by
    have := Rect.InRange.w_le hc; simp only [boundingBox] at this; omega
  have hSe := strokeArea_inside (st := st) c h hd
  have hS : (c.strokeArea st).InRange := by rw [hSe]; exact hc
  rw [(styled_circle_exact st c B hS hF p).1] at hp
  split at hp
  · split at hp
    · rename_i hf
      have := fill_subset_stroke hS hF hf
      rwa [hSe] at this
    · split at hp
      · rename_i hs; rw [hSe] at hs; exact hs.1
      · cases hp
  · cases hp
example : (⟨⟨-3, 2⟩, 7⟩ : Circle).InRange ∧
    (Circle.fillArea ⟨some 1, some 2, 2, .inside⟩ ⟨⟨-3, 2⟩, 7⟩).InRange := by decide

/-- **An outside stroke never paints inside the shape**: inside the circle only the fill colour
(or nothing) appears. -/
theorem circle_outside_stroke_outside (st : PrimStyle) (c : Circle) (B : Rect)
    (h : st.strokeAlignment = .outside) (hc : c.InRange)
    (hS : (c.strokeArea st).InRange) (p : Pt) (hp : c.contains p = true) :
    runNative B (c.drawStyled st) p = if B.contains p = true then st.fillColor else none := by
  have hd : c.d ≤ 4294967295 := by
    have := Rect.InRange.w_le hc; simp only [boundingBox] at this; omega
  have hFe := fillArea_outside (st := st) c h hd
  have hF : (c.fillArea st).InRange := by rw [hFe]; exact hc
  rw [(styled_circle_exact st c B hS hF p).1, hFe, hp]
  simp
example : (⟨⟨-3, 2⟩, 7⟩ : Circle).InRange ∧
    (Circle.strokeArea ⟨some 1, some 2, 2, .outside⟩ ⟨⟨-3, 2⟩, 7⟩).InRange := by decide

-- [V] styles whose stroke / fill area bounding boxes leave the i32 range or whose width saturates u32 (guards `InRange`, `strokeWidth < u32::MAX` false; C08's topic): carried by correspondence + oracle only
-- [V] `StrokeStyle::Dotted` is outside the property (solid strokes only) and outside the model
end EG.C06
