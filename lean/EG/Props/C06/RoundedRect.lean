/-
  C06 (rounded rectangle part) — a styled rounded rectangle with a solid stroke paints a point with
  the fill colour iff `fill_area()` contains it, with the stroke colour iff `stroke_area()` contains
  it and `fill_area()` does not (and the stroke width is non-zero), and leaves all other points
  untouched — all sizes incl. strokes wider than the shape, widths, alignments, colour options.

  Model: `EG.Model.RoundedRect` + `Style` + `Scanline` / `StyledScanline` (styled.rs as repaired:
  the fill range of a styled scanline is an `Option`, rows without a fill point have no fill part);
  pixel maps are those of the recording targets (`runNative` = R2) with an arbitrary box `B`.
  Range guards (decidable): the bounding boxes of the two areas do not saturate / overflow `i32`.

  What is proved for ALL inputs: the styled scanlines paint the fill colour exactly on the points of
  the stroke area that the fill area contains and the stroke colour on the other points of the
  stroke area (`styled_rrect_lines_exact`); the fill-only path paints exactly the fill area. The
  property text follows under `FillInStroke` (every point of the fill area lies in the stroke
  area), which is proved for stroke width 0 and carried by C + O otherwise.
-/
import EG.Lemmas.RoundedRectStyled
namespace EG.C06
open EG EG.RoundedRect

/-! ### `offset`, `stroke_area`, `fill_area` -/

/-- `stroke_area()` / `fill_area()` are `offset(+outside)` / `offset(-inside)`: the rectangle is
offset (C16), every corner radius grows by the offset (saturating) or shrinks by it (saturating). -/
theorem rrect_offset_geometry (r : RoundedRect) (k : Nat) :
    (r.offset (k : Int)).rect = r.rect.offset k ∧
    (r.offset (k : Int)).corners = ⟨r.corners.tl.satAdd (Sz.newEqual k), r.corners.tr.satAdd (Sz.newEqual k),
      r.corners.br.satAdd (Sz.newEqual k), r.corners.bl.satAdd (Sz.newEqual k)⟩ ∧
    (1 ≤ k → (r.offset (-(k : Int))).rect = r.rect.offset (-(k : Int)) ∧
      (r.offset (-(k : Int))).corners = ⟨r.corners.tl.satSub (Sz.newEqual k), r.corners.tr.satSub (Sz.newEqual k),
        r.corners.br.satSub (Sz.newEqual k), r.corners.bl.satSub (Sz.newEqual k)⟩) := by
  refine ⟨rfl, ?_, ?_⟩
  · unfold offset
    have h : (k : Int) ≥ 0 := by omega
    simp only [h, ↓reduceIte, Int.toNat_natCast]
  · intro hk
    refine ⟨rfl, ?_⟩
    unfold offset
    have h : ¬ (-(k : Int) ≥ 0) := by omega
    simp only [h, ↓reduceIte, Int.neg_neg, Int.toNat_natCast]

/-- The styled bounding box is the bounding box of the stroke area. -/
theorem rrect_styled_bbox_eq_stroke_area_bbox (st : Style) (r : RoundedRect) :
    r.styledBoundingBox st = (r.strokeArea st).boundingBox := rfl

/-- Stroke width 0: `stroke_area() = fill_area()` (= `offset(0)`). -/
theorem rrect_areas_eq_of_zero_width (st : Style) (r : RoundedRect) (h : st.width = 0) :
    r.strokeArea st = r.fillArea st := areas_eq_of_zero_width st r h
example : (⟨some 1, some 2, 0, .center⟩ : Style).width = 0 := rfl

/-! ### the styled scanlines, for all inputs -/

/-- **Every styled scanline list of a rounded rectangle is exact w.r.t. the two areas**: the
coloured points are the fill colour on `stroke_area ∩ fill_area` and the stroke colour on
`stroke_area \ fill_area` — for any two rounded rectangles `S`, `F` in range (all radii, also
overlapping corner boxes, empty rows, `F` not inside `S`). -/
theorem styled_rrect_lines_exact (S F : RoundedRect) (hS : S.InRange) (hF : F.InRange)
    (scol fcol : Option Color) (p : Pt) (col : Color) :
    (p, col) ∈ pixelsSpec scol fcol (styledScanlines S F).toList ↔
      (S.contains p = true ∧ F.contains p = true ∧ fcol = some col) ∨
      (S.contains p = true ∧ F.contains p = false ∧ scol = some col) :=
  mem_lines_iff hS hF scol fcol p col
example : (⟨⟨⟨-3, 2⟩, ⟨9, 7⟩⟩, CornerRadii.new ⟨3, 2⟩⟩ : RoundedRect).InRange ∧
    (⟨⟨⟨-1, 4⟩, ⟨5, 3⟩⟩, CornerRadii.new ⟨1, 0⟩⟩ : RoundedRect).InRange := by decide

/-- Every styled scanline splits its row of the stroke area into stroke-left / fill / stroke-right
(`ss ≤ fs ≤ fe ≤ se`), the fill part being exactly the points of the row inside the fill area; rows
without such a point have an empty fill part at the right end. -/
theorem styled_rrect_scanline_split (S F : RoundedRect) (hS : S.InRange) (hF : F.InRange) :
    ∀ l ∈ (styledScanlines S F).toList, ∃ y, RowOK S F y l := by
  intro l hl
  obtain ⟨y, _, h⟩ := lines_ok hS hF l hl
  exact ⟨y, h⟩

/-- The fill-only path (`Scanlines::new(&fill_area)`) paints exactly the fill area. -/
theorem styled_rrect_fill_only_exact (F : RoundedRect) (hF : F.InRange) (fc : Color) (B : Rect)
    (p : Pt) (col : Color) :
    (p, col) ∈ (drawFillLines fc F.scanlines.toList).flatMap (Call.lowerNative B) ↔
      F.contains p = true ∧ fc = col := by
  rw [drawFillLines_lowerNative fc _ (scanline_wf hF), mem_fill_lines_iff hF]

/-! ### the property text -/

/-- The full claim: for every style, shape and target box the map of `draw()` is the one the
property text prescribes (`styledExpected`: fill colour on `fill_area`, else stroke colour on
`stroke_area` if the width is non-zero, else untouched). -/
def StyledRRectExact : Prop :=
  ∀ (st : Style) (r : RoundedRect) (B : Rect), (r.strokeArea st).InRange → (r.fillArea st).InRange →
    ∀ p, runNative B (r.drawStyled st) p = if B.contains p = true then styledExpected st r p else none

/-- **`styled_rrect_exact` under `FillInStroke`**: the pixel map of `draw()` on `R2` at every point
is the colour the property text prescribes, clipped to the target. -/
theorem styled_rrect_exact_partial (st : Style) (r : RoundedRect) (B : Rect)
    (hS : (r.strokeArea st).InRange) (hF : (r.fillArea st).InRange) (hI : FillInStroke st r) (p : Pt) :
    runNative B (r.drawStyled st) p = if B.contains p = true then styledExpected st r p else none := by
  unfold runNative
  rw [flatMap_writesNative]
  apply Scan.apply_eq_of_mem_iff
  intro q col
  rw [Scan.mem_clipWrites, mem_draw_iff hS hF hI]
  by_cases hb : B.contains q = true <;> simp [hb]
example : let st : Style := ⟨some 1, some 2, 0, .center⟩
    let r : RoundedRect := ⟨⟨⟨-3, 2⟩, ⟨9, 7⟩⟩, CornerRadii.new ⟨3, 2⟩⟩
    (r.strokeArea st).InRange ∧ (r.fillArea st).InRange ∧ FillInStroke st r :=
  ⟨by decide, by decide, fillInStroke_of_zero_width _ _ rfl⟩

/-- The three cases of the property text, under the same hypothesis: fill colour iff `fill_area()`
contains the point, stroke colour iff `stroke_area()` contains it and `fill_area()` does not and the
width is non-zero, untouched otherwise. -/
theorem styled_rrect_three_cases_partial (st : Style) (r : RoundedRect) (B : Rect)
    (hS : (r.strokeArea st).InRange) (hF : (r.fillArea st).InRange) (hI : FillInStroke st r) (p : Pt)
    (hB : B.contains p = true) (col : Color) :
    runNative B (r.drawStyled st) p = some col ↔
      ((r.fillArea st).contains p = true ∧ st.fill = some col) ∨
      ((r.strokeArea st).contains p = true ∧ (r.fillArea st).contains p = false ∧
        st.width > 0 ∧ st.stroke = some col) := by
  rw [styled_rrect_exact_partial st r B hS hF hI p, if_pos hB, styledExpected_eq_some]

/-- Stroke width 0 (any alignment, any colours): the property text holds outright. -/
theorem styled_rrect_exact_zero_width (st : Style) (r : RoundedRect) (B : Rect) (h0 : st.width = 0)
    (hF : (r.fillArea st).InRange) (p : Pt) :
    runNative B (r.drawStyled st) p = if B.contains p = true then styledExpected st r p else none :=
  styled_rrect_exact_partial st r B (by rw [areas_eq_of_zero_width st r h0]; exact hF) hF
    (fillInStroke_of_zero_width st r h0) p
example : (⟨some 1, none, 0, .inside⟩ : Style).width = 0 ∧
    (RoundedRect.fillArea ⟨some 1, none, 0, .inside⟩ ⟨⟨⟨-3, 2⟩, ⟨9, 7⟩⟩, CornerRadii.new ⟨3, 2⟩⟩).InRange := by
  decide

/-- Strokes so wide that the fill area collapses (zero width or height, e.g. an inside stroke of at
least half the shape): the property text holds outright — everything painted is stroke. -/
theorem styled_rrect_exact_collapsed_fill (st : Style) (r : RoundedRect) (B : Rect)
    (hS : (r.strokeArea st).InRange) (hF : (r.fillArea st).InRange)
    (hz : (r.fillArea st).rect.size.w = 0 ∨ (r.fillArea st).rect.size.h = 0) (p : Pt) :
    runNative B (r.drawStyled st) p = if B.contains p = true then styledExpected st r p else none :=
  styled_rrect_exact_partial st r B hS hF (fillInStroke_of_collapsed st r hF hz) p
example : let st : Style := ⟨some 1, some 2, 4, .inside⟩
    let r : RoundedRect := ⟨⟨⟨-3, 2⟩, ⟨9, 7⟩⟩, CornerRadii.new ⟨3, 2⟩⟩
    (r.strokeArea st).InRange ∧ (r.fillArea st).InRange ∧
      ((r.fillArea st).rect.size.w = 0 ∨ (r.fillArea st).rect.size.h = 0) := by decide

-- [N] FillInStroke for ALL rounded rectangles is false (known finding, see Props/C06/RoundedRectFillInStroke.lean: `not_fill_in_stroke_all`, kernel-decided, replayed on the real code); proved whenever `confine` changes neither area's radii (`fill_in_stroke_partial_fitting` and corollaries)
-- [V] styled rounded rectangles whose stroke/fill area boxes leave the i32 range (guards false): carried by correspondence + oracle only
end EG.C06
