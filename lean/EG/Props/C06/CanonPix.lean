/-
  C06 / C01 / C03 (tie) — the canonical pixel-map text of the correspondence is a PROVED function of
  the pixel map. The model driver prints a picture as `fmtPix (canonPix writes)` (EG/Driver/Util.lean:
  a stable merge sort of the write list by (y, x), then the last entry of every run of equal points);
  the harness prints the `BTreeMap<(y, x), colour>` of its recording target. Here: for EVERY write
  list, `canonPix` is strictly sorted by (y, x) (so no point occurs twice), its entries are exactly
  the pairs (point, colour last written to it) - i.e. the graph of `PMap.empty.apply writes`, the
  pixel map all picture theorems (C01, C03, C06, ..) speak about - and two write lists get the same
  canonical list iff they leave the same pixel map. What the driver compares is therefore the map
  the theorems are about, not merely something the streams happen to agree on.
  Helper lemmas: EG/Lemmas/Glue3CanonPix.lean.
-/
import EG.Lemmas.Glue3CanonPix
import EG.Lemmas.PMap
namespace EG.C06.CanonPix
open EG EG.Tgt EG.Driver

/-- **`canonPix` is strictly sorted row-major** (y first, then x) - for every write list. -/
theorem canon_pix_sorted (ws : Writes) :
    (canonPix ws).Pairwise (fun a b => Pt.rowMajorLt a.1 b.1) := Glue3.canonPix_strict ws

/-- **`canonPix` lists no point twice.** -/
theorem canon_pix_no_duplicate_point (ws : Writes) : ((canonPix ws).map (·.1)).Nodup := by
  rw [List.Nodup, List.pairwise_map]
  exact (Glue3.canonPix_strict ws).imp (fun h => Glue3.rowMajorLt_ne h)

/-- **`canonPix` prints the pixel map**: `(p, c)` is an entry iff the map left by the writes on an
empty target (`PMap.empty.apply`, last write wins) has colour `c` at `p`; equivalently iff the
last write to `p` in the list has colour `c`. -/
theorem canon_pix_is_pixel_map (ws : Writes) (p : Pt) (c : Color) :
    ((p, c) ∈ canonPix ws ↔ PMap.empty.apply ws p = some c) ∧
    ((p, c) ∈ canonPix ws ↔ lastWrite ws p = some c) := by
  have h := Glue3.mem_canonPix ws p c
  refine ⟨?_, h⟩
  rw [h, PMap.apply_eq_lastWrite]
  cases lastWrite ws p <;> simp [PMap.empty]

/-- **Equal canonical lists iff equal pixel maps**: the text the correspondence compares decides
equality of the maps, in both directions. -/
theorem canon_pix_eq_iff_same_map (ws ws' : Writes) :
    canonPix ws = canonPix ws' ↔ ∀ p, PMap.empty.apply ws p = PMap.empty.apply ws' p := by
  rw [Glue3.canonPix_eq_iff]
  constructor
  · intro h p
    rw [PMap.apply_eq_lastWrite, PMap.apply_eq_lastWrite, h p]
  · intro h p
    have := h p
    rw [PMap.apply_eq_lastWrite, PMap.apply_eq_lastWrite] at this
    cases h1 : lastWrite ws p <;> cases h2 : lastWrite ws' p <;> simp_all [PMap.empty]

-- a picture with an overwritten point and unsorted writes: the later colour is printed, the earlier is not
example : (⟨3, 1⟩, 9) ∈ canonPix [(⟨3, 1⟩, 7), (⟨0, 0⟩, 1), (⟨3, 1⟩, 9), (⟨2, 0⟩, 4)] ∧
    (⟨3, 1⟩, 7) ∉ canonPix [(⟨3, 1⟩, 7), (⟨0, 0⟩, 1), (⟨3, 1⟩, 9), (⟨2, 0⟩, 4)] :=
  ⟨(canon_pix_is_pixel_map _ _ _).2.mpr (by decide),
   fun h => absurd ((canon_pix_is_pixel_map _ _ _).2.mp h) (by decide)⟩

end EG.C06.CanonPix
