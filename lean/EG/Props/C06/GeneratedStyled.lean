/-
  C06 — the REGENERATED stroke / fill split of circles and ellipses equals the hand-written one.

  `tools/tr_curve.py` also translates src/primitives/common/styled_scanline.rs (`StyledScanline::{new, stroke_left,
  stroke_right, fill}`) and the private `StyledScanlines::{new, next}` of src/primitives/circle/styled.rs and
  src/primitives/ellipse/styled.rs (the iterator that `draw_styled` loops over and `StyledPixelsIterator` polls: for
  every row of the stroke area the stroke scanline and, searched WITHIN it with the stroke area's `center_2x`, the
  fill range) into `EG/Generated/CurveSrc.lean`. This file proves each equal to the hand model
  (`EG/Model/StyledScanline.lean`, `Circle.StyledScanlinesIt`, `Ellipse.StyledScanlinesIt`) for all inputs, that the
  list of styled scanlines a `for` loop collects from the regenerated iterator is the hand model's `toList` (the list
  `Circle.drawStyled` / `Ellipse.drawStyled` paint), and restates C06's offset laws (`stroke_area` / `fill_area` are
  `offset`s) over the regenerated `OffsetOutline::offset`.

  The functions that DRAW (`draw_styled`, `Scanline::draw`, `draw_stroke(_and_fill)`) and `PrimitiveStyle` are in
  `GeneratedDraw.lean`. NOT regenerated: the pixel path `StyledPixelsIterator<C>` (pinned in `CurveSrc.untranslated`).
  Guards as in `Props/C05/GeneratedCircle.lean` / `GeneratedEllipse.lean` (`DiamFitsI32` / `AxesFitI32` of the stroke
  area for `StyledScanlines::new`; `next` is unconditional).
-/
import EG.Props.C05.GeneratedEllipse
import EG.Props.C06.Circle
import EG.Props.C06.Ellipse
namespace EG.C06.CurveSrc
open EG EG.RectSrcPrelude EG.CurveSrcPrelude EG.Generated EG.C16.Src EG.C05.Src

/-! ### `StyledScanline` -/

/-- The regenerated `struct StyledScanline { y, stroke_range, fill_range }` as the hand model's flat record. -/
def styledScanlineOf (s : CurveSrc.StyledScanline) : EG.StyledScanline :=
  ⟨s.y, s.stroke_range.start, s.stroke_range.end_, s.fill_range.start, s.fill_range.end_⟩

def rangePair (r : RangeI32) : Int × Int := (r.start, r.end_)

theorem StyledScanline_new_src_eq_model (y : Int) (sr : RangeI32) (fr : Option RangeI32) :
    styledScanlineOf (CurveSrc.StyledScanline_new y sr fr) = StyledScanline.new y sr.start sr.end_ (fr.map rangePair) := by
  cases fr <;> rfl

theorem StyledScanline_stroke_left_src_eq_model (s : CurveSrc.StyledScanline) :
    scanlineOf (CurveSrc.StyledScanline_stroke_left s) = (styledScanlineOf s).strokeLeft := rfl
theorem StyledScanline_stroke_right_src_eq_model (s : CurveSrc.StyledScanline) :
    scanlineOf (CurveSrc.StyledScanline_stroke_right s) = (styledScanlineOf s).strokeRight := rfl
theorem StyledScanline_fill_src_eq_model (s : CurveSrc.StyledScanline) :
    scanlineOf (CurveSrc.StyledScanline_fill s) = (styledScanlineOf s).fill := rfl

/-! ### `circle::styled::StyledScanlines` -/

def circleStyledItOf (s : CurveSrc.CircleStyledScanlines) : Circle.StyledScanlinesIt :=
  ⟨scanlinesItOf s.scanlines, s.fill_threshold⟩

theorem CircleStyledScanlines_new_src_eq_model (sa fa : CurveSrc.Circle) (h : DiamFitsI32 sa.diameter) :
    circleStyledItOf (CurveSrc.CircleStyledScanlines_new sa fa) = Circle.styledScanlines (circleOf sa) (circleOf fa) := by
  unfold CurveSrc.CircleStyledScanlines_new Circle.styledScanlines circleStyledItOf
  simp only [CircleScanlines_new_src_eq_model sa h, Circle_threshold_src_eq_model]

/-- `Scanlines::next` does not touch `center_2x`. -/
theorem CircleScanlines_next_center_2x (s : CurveSrc.CircleScanlines) :
    (CurveSrc.CircleScanlines_Iterator_next s).2.center_2x = s.center_2x := by
  obtain ⟨⟨ys, ye⟩, ⟨xs, xe⟩, c2x, thr⟩ := s
  unfold CurveSrc.CircleScanlines_Iterator_next
  by_cases h : ys < ye
  · simp only [range_i32_next, CurveSrc.CircleScanlines_set_rows, h, ↓reduceIte]
  · simp only [range_i32_next, CurveSrc.CircleScanlines_set_rows, h, ↓reduceIte]

/-- **One regenerated `StyledScanlines::next` = one `StyledScanlinesIt.next` of the hand model.** -/
theorem CircleStyledScanlines_Iterator_next_src_eq_model (s : CurveSrc.CircleStyledScanlines) :
    ((CurveSrc.CircleStyledScanlines_Iterator_next s).1.map styledScanlineOf,
      circleStyledItOf (CurveSrc.CircleStyledScanlines_Iterator_next s).2) = (circleStyledItOf s).next := by
  obtain ⟨sl, thr⟩ := s
  have h2 := CircleScanlines_Iterator_next_src_eq_model sl
  have hc := CircleScanlines_next_center_2x sl
  unfold CurveSrc.CircleStyledScanlines_Iterator_next Circle.StyledScanlinesIt.next
  simp only [CurveSrc.CircleStyledScanlines_scanlines,
    CurveSrc.CircleStyledScanlines_fill_threshold, CurveSrc.CircleScanlines_center_2x, circleStyledItOf, hc,
    circle_find_closure_src_eq_model]
  rw [← h2]
  cases hs : (CurveSrc.CircleScanlines_Iterator_next sl).1 with
  | none => simp only [option_map, Option.map_none]
  | some sc =>
    simp only [option_map, Option.map_some, StyledScanline_new_src_eq_model, Circle.StyledScanlinesIt.style,
      mirroredRange, rangeFind, range_i32_find, range_i32_clone, Option.map_map]
    rfl

/-- What a `for` loop collects from the regenerated styled-scanline iterator (`steps` calls of `next` at most). -/
def srcCircleStyledCollect : Nat → CurveSrc.CircleStyledScanlines → List EG.StyledScanline
  | 0, _ => []
  | steps + 1, s =>
    match CurveSrc.CircleStyledScanlines_Iterator_next s with
    | (some l, s') => styledScanlineOf l :: srcCircleStyledCollect steps s'
    | (none, _) => []

theorem srcCircleStyledCollect_src_eq_model : ∀ (steps : Nat) (s : CurveSrc.CircleStyledScanlines),
    srcCircleStyledCollect steps s = (circleStyledItOf s).toListFuel steps := by
  intro steps
  induction steps with
  | zero => intro s; rfl
  | succ n ih =>
    intro s
    have h := CircleStyledScanlines_Iterator_next_src_eq_model s
    unfold srcCircleStyledCollect Circle.StyledScanlinesIt.toListFuel
    rw [← h]
    cases hs : CurveSrc.CircleStyledScanlines_Iterator_next s with
    | mk v s' =>
      cases v with
      | none => simp only [Option.map_none]
      | some l => simp only [Option.map_some, ih s']

/-- **The styled scanlines `draw_styled` loops over**, collected from the regenerated `StyledScanlines::new` + `next`,
are the list the hand model's `Circle.drawStyled` paints. -/
theorem circle_styled_scanlines_src_eq_model (sa fa : CurveSrc.Circle) (h : DiamFitsI32 sa.diameter) :
    (let it := CurveSrc.CircleStyledScanlines_new sa fa
     srcCircleStyledCollect ((it.scanlines.rows.end_ - it.scanlines.rows.start).toNat + 1) it)
      = (Circle.styledScanlines (circleOf sa) (circleOf fa)).toList := by
  have hn := CircleStyledScanlines_new_src_eq_model sa fa h
  simp only [srcCircleStyledCollect_src_eq_model, Circle.StyledScanlinesIt.toList, ← hn]
  rfl
example : DiamFitsI32 (⟨⟨0, 0⟩, 5⟩ : CurveSrc.Circle).diameter := by decide
/-- stroke area of diameter 5, fill area of diameter 3 around the same centre: rows 0 and 4 have no fill range -/
example : (let it := CurveSrc.CircleStyledScanlines_new ⟨⟨0, 0⟩, 5⟩ ⟨⟨1, 1⟩, 3⟩
    srcCircleStyledCollect 6 it) = [⟨0, 1, 4, 4, 4⟩, ⟨1, 0, 5, 2, 3⟩, ⟨2, 0, 5, 1, 4⟩, ⟨3, 0, 5, 2, 3⟩, ⟨4, 1, 4, 4, 4⟩] := by
  decide

/-! ### `ellipse::styled::StyledScanlines` -/

def ellipseStyledItOf (s : CurveSrc.EllipseStyledScanlines) : Ellipse.StyledScanlinesIt :=
  ⟨ellipseScanlinesItOf s.scanlines, ecOf s.fill_area⟩

theorem EllipseStyledScanlines_new_src_eq_model (sa fa : CurveSrc.Ellipse) (h : AxesFitI32 sa.size) :
    ellipseStyledItOf (CurveSrc.EllipseStyledScanlines_new sa fa)
      = Ellipse.styledScanlines (ellipseOf sa) (ellipseOf fa) := by
  unfold CurveSrc.EllipseStyledScanlines_new Ellipse.styledScanlines ellipseStyledItOf
  simp only [EllipseScanlines_new_src_eq_model sa h]
  have := EllipseContains_new_src_eq_model fa.size
  simp only [CurveSrc.Ellipse_size] at this ⊢
  rw [this]
  rfl

/-- **One regenerated `StyledScanlines::next` = one `StyledScanlinesIt.next` of the hand model.** -/
theorem EllipseStyledScanlines_Iterator_next_src_eq_model (s : CurveSrc.EllipseStyledScanlines) :
    ((CurveSrc.EllipseStyledScanlines_Iterator_next s).1.map styledScanlineOf,
      ellipseStyledItOf (CurveSrc.EllipseStyledScanlines_Iterator_next s).2) = (ellipseStyledItOf s).next := by
  obtain ⟨sl, fa⟩ := s
  have h2 := EllipseScanlines_Iterator_next_src_eq_model sl
  have hc : (CurveSrc.EllipseScanlines_Iterator_next sl).2.center_2x = sl.center_2x := rfl
  unfold CurveSrc.EllipseStyledScanlines_Iterator_next Ellipse.StyledScanlinesIt.next
  simp only [CurveSrc.EllipseStyledScanlines_scanlines,
    CurveSrc.EllipseStyledScanlines_fill_area, CurveSrc.EllipseScanlines_center_2x, ellipseStyledItOf, hc,
    EllipseContains_contains_src_eq_model]
  rw [← h2]
  cases hs : (CurveSrc.EllipseScanlines_Iterator_next sl).1 with
  | none => simp only [option_map, Option.map_none]
  | some sc =>
    simp only [option_map, Option.map_some, StyledScanline_new_src_eq_model, Ellipse.StyledScanlinesIt.style,
      mirroredRange, rangeFind, range_i32_find, range_i32_clone, Option.map_map]
    rfl

def srcEllipseStyledCollect : Nat → CurveSrc.EllipseStyledScanlines → List EG.StyledScanline
  | 0, _ => []
  | steps + 1, s =>
    match CurveSrc.EllipseStyledScanlines_Iterator_next s with
    | (some l, s') => styledScanlineOf l :: srcEllipseStyledCollect steps s'
    | (none, _) => []

theorem srcEllipseStyledCollect_src_eq_model : ∀ (steps : Nat) (s : CurveSrc.EllipseStyledScanlines),
    srcEllipseStyledCollect steps s = (ellipseStyledItOf s).toListFuel steps := by
  intro steps
  induction steps with
  | zero => intro s; rfl
  | succ n ih =>
    intro s
    have h := EllipseStyledScanlines_Iterator_next_src_eq_model s
    unfold srcEllipseStyledCollect Ellipse.StyledScanlinesIt.toListFuel
    rw [← h]
    cases hs : CurveSrc.EllipseStyledScanlines_Iterator_next s with
    | mk v s' =>
      cases v with
      | none => simp only [Option.map_none]
      | some l => simp only [Option.map_some, ih s']

theorem ellipse_styled_scanlines_src_eq_model (sa fa : CurveSrc.Ellipse) (h : AxesFitI32 sa.size) :
    (let it := CurveSrc.EllipseStyledScanlines_new sa fa
     srcEllipseStyledCollect ((it.scanlines.rows.end_ - it.scanlines.rows.start).toNat + 1) it)
      = (Ellipse.styledScanlines (ellipseOf sa) (ellipseOf fa)).toList := by
  have hn := EllipseStyledScanlines_new_src_eq_model sa fa h
  simp only [srcEllipseStyledCollect_src_eq_model, Ellipse.StyledScanlinesIt.toList, ← hn]
  rfl
example : AxesFitI32 (⟨⟨0, 0⟩, ⟨7, 4⟩⟩ : CurveSrc.Ellipse).size := by decide

/-! ### C06's offset laws over the regenerated `OffsetOutline::offset` -/

/-- `offset(k)`, `k ≥ 0` (regenerated): grown by `k` on every side. -/
theorem src_circle_offset_grow (c : CurveSrc.Circle) (k : Nat) (hd : 1 ≤ c.diameter)
    (hs : c.diameter + 2 * k ≤ 4294967295) :
    circleOf (CurveSrc.Circle_OffsetOutline_offset c (k : Int))
      = ⟨⟨c.top_left.x - k, c.top_left.y - k⟩, c.diameter + 2 * k⟩ := by
  rw [Circle_offset_src_eq_model c _ (by unfold DiamIsU32; omega)]
  exact circle_offset_grow (circleOf c) k hd hs
example : 1 ≤ (⟨⟨-3, 2⟩, 7⟩ : CurveSrc.Circle).diameter ∧ (⟨⟨-3, 2⟩, 7⟩ : CurveSrc.Circle).diameter + 2 * 3 ≤ 4294967295 := by
  decide

/-- `offset(-k)` (regenerated): shrunk by `k` on every side while something is left. -/
theorem src_circle_offset_shrink (c : CurveSrc.Circle) (k : Nat) (hk : 1 ≤ k) (hd : 2 * k < c.diameter)
    (hu : DiamIsU32 c.diameter) :
    circleOf (CurveSrc.Circle_OffsetOutline_offset c (-(k : Int)))
      = ⟨⟨c.top_left.x + k, c.top_left.y + k⟩, c.diameter - 2 * k⟩ := by
  rw [Circle_offset_src_eq_model c _ hu]
  exact circle_offset_shrink (circleOf c) k hk hd
example : 2 * 3 < (⟨⟨-3, 2⟩, 7⟩ : CurveSrc.Circle).diameter ∧ DiamIsU32 (⟨⟨-3, 2⟩, 7⟩ : CurveSrc.Circle).diameter := by decide

/-- `offset(k)`, `k ≥ 0` (regenerated `Ellipse`): grown by `k` on every side. -/
theorem src_ellipse_offset_grow (e : CurveSrc.Ellipse) (k : Nat) (hw : 1 ≤ e.size.w) (hh : 1 ≤ e.size.h)
    (sw : e.size.w + 2 * k ≤ 4294967295) (sh : e.size.h + 2 * k ≤ 4294967295) :
    ellipseOf (CurveSrc.Ellipse_OffsetOutline_offset e (k : Int))
      = ⟨⟨e.top_left.x - k, e.top_left.y - k⟩, ⟨e.size.w + 2 * k, e.size.h + 2 * k⟩⟩ := by
  rw [Ellipse_offset_src_eq_model e _ (by unfold IsU32; omega)]
  exact ellipse_offset_grow (ellipseOf e) k hw hh sw sh
example : 1 ≤ (⟨⟨-3, 2⟩, ⟨7, 4⟩⟩ : CurveSrc.Ellipse).size.w ∧ 1 ≤ (⟨⟨-3, 2⟩, ⟨7, 4⟩⟩ : CurveSrc.Ellipse).size.h := by decide

/-- `offset(-k)` (regenerated `Ellipse`): shrunk by `k` on every side while something is left. -/
theorem src_ellipse_offset_shrink (e : CurveSrc.Ellipse) (k : Nat) (hk : 1 ≤ k) (hw : 2 * k < e.size.w)
    (hh : 2 * k < e.size.h) (hu : IsU32 e.size) :
    ellipseOf (CurveSrc.Ellipse_OffsetOutline_offset e (-(k : Int)))
      = ⟨⟨e.top_left.x + k, e.top_left.y + k⟩, ⟨e.size.w - 2 * k, e.size.h - 2 * k⟩⟩ := by
  rw [Ellipse_offset_src_eq_model e _ hu]
  exact ellipse_offset_shrink (ellipseOf e) k hk hw hh
example : 2 * 1 < (⟨⟨-3, 2⟩, ⟨7, 4⟩⟩ : CurveSrc.Ellipse).size.w ∧ 2 * 1 < (⟨⟨-3, 2⟩, ⟨7, 4⟩⟩ : CurveSrc.Ellipse).size.h ∧
    IsU32 (⟨⟨-3, 2⟩, ⟨7, 4⟩⟩ : CurveSrc.Ellipse).size := by decide

end EG.C06.CurveSrc
