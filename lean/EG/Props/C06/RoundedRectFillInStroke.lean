/-
  C06 / C01 (rounded rectangle) — `FillInStroke`: every point of `fill_area()` lies in
  `stroke_area()`.

  `EG/Props/C06/RoundedRect.lean` proves the property text for rounded rectangles under the
  hypothesis `FillInStroke` and establishes it only for stroke width 0 and for collapsed fill areas.
  Here it is proved for every stroke width and alignment whenever `CornerRadii::confine` leaves the
  radii of the two areas unchanged — i.e. the radii of `stroke_area()` fit its rectangle and the radii
  of `fill_area()` fit its rectangle (decidable, `CornerRadii.Fits`; unequal corners included). This
  covers every shape none of whose radii exceeds half the side it lies along (`HalfFits`: in
  particular equal radii that fit, and zero radii), and every shape with fitting radii when the
  inside width is 0 (`Outside` alignment). Helper lemmas: EG/Lemmas/GlueRRectNested.lean (the fill
  area is the stroke area shrunk by `inside + outside` with every radius reduced by the same amount;
  corresponding corner ellipses are then concentric and the corner test is monotone in the semi-axes,
  `Ellipse.hit_nested`).

  [N] The full statement `FillInStrokeAll` (no hypothesis on the radii) is FALSE of the model and of
  the unchanged code: when `confine` SCALES the radii of the fill area (or of the stroke area) the two
  areas are scaled by different factors and corresponding corner ellipses are no longer concentric.
  Witness (`not_fill_in_stroke_all`, kernel-decided): the 3 x 20 rounded rectangle at the origin with
  top-left radius (3, 20) and no other rounded corner (the radii FIT the shape), stroke width 1,
  `Inside`: `fill_area()` = offset(-1) has rectangle 1 x 18 and radius (2, 19), which `confine` scales to
  (1, 9); the point (1, 2) is in that fill area but not in the stroke area (= the shape). Replayed on
  the real code: `rrect.areas 0 0 3 20 3 20 0 0 0 0 0 0 1 0` -> oracle class
  `C06:rrect-fill-area-not-inside-stroke-area`, and `rrect.styled 0 0 3 20 3 20 0 0 0 0 0 0 7 9 1 0 -8 -8 64 64`
  -> `C06:rrect-styled-map-ne-areas` at (1, 2) (corpus/C06.ops; recorded as a known finding under the
  class suffix `:confined-radii`, which the oracle uses exactly when `confine` changes the radii of one of the
  two areas, i.e. outside the guard of `fill_in_stroke_partial_fitting`). The `_partial` theorems state the
  exact guard (`Fits` of both areas) under which the claim does hold. A grid / random search of the
  model (88 200 equal-radius, 540 225 unequal-radius, 400 000 random instances with sizes <= 16 and
  radii <= 30) found no violation; the witness family needs a tall thin shape with an elongated corner.

  -- [V] [N] FillInStroke without the `Fits` guard is FALSE (KNOWN FINDING, classes `C06:rrect-fill-area-not-inside-stroke-area:confined-radii` and `C06:rrect-styled-map-ne-areas:confined-radii`; kernel-decided witness `not_fill_in_stroke_all`, replayed on the real code, corpus/C06.ops): when `confine` rescales the radii of `stroke_area()` or of a non-collapsed `fill_area()` the fill area may bulge out of the stroke area and such points are left unpainted; for those shapes the property text is not claimed, every occurrence is reported by the oracle under the known-finding classes, and a failure where `confine` changes neither area keeps the unsuffixed class (it would contradict `fill_in_stroke_partial_fitting`)
-/
import EG.Lemmas.GlueRRectNested
import EG.Props.C06.RoundedRect
namespace EG.C06.RoundedRectFillInStroke
open EG EG.RoundedRect EG.Glue

/-- The full claim (no hypothesis on the radii). -/
def FillInStrokeAll : Prop :=
  ∀ (st : Style) (r : RoundedRect), (r.strokeArea st).InRange → (r.fillArea st).InRange → FillInStroke st r

/-- **[N] The full claim is false**: the 3 x 20 rounded rectangle with the single corner radius (3, 20),
stroke width 1, `Inside` alignment — both areas are in range, the shape's radii fit, the fill area's
radii (2, 19) do not fit its 1 x 18 rectangle and are scaled to (1, 9) by `confine`; the point
(1, 2) lies in `fill_area()` but not in `stroke_area()`. -/
theorem not_fill_in_stroke_all : ¬ FillInStrokeAll := by
  intro h
  have h1 := h ⟨some 7, some 9, 1, .inside⟩ ⟨⟨⟨0, 0⟩, ⟨3, 20⟩⟩, ⟨⟨3, 20⟩, ⟨0, 0⟩, ⟨0, 0⟩, ⟨0, 0⟩⟩⟩
    (by decide) (by decide) ⟨1, 2⟩ (by decide +kernel)
  revert h1
  decide +kernel

/-- The witness in numbers: the shape's radii fit, the stroke area is the shape, the fill area's
radii do not fit and are scaled by `confine`. -/
theorem not_fill_in_stroke_witness :
    let st : Style := ⟨some 7, some 9, 1, .inside⟩
    let r : RoundedRect := ⟨⟨⟨0, 0⟩, ⟨3, 20⟩⟩, ⟨⟨3, 20⟩, ⟨0, 0⟩, ⟨0, 0⟩, ⟨0, 0⟩⟩⟩
    r.corners.Fits r.rect.size ∧ r.strokeArea st = r ∧
    r.fillArea st = ⟨⟨⟨1, 1⟩, ⟨1, 18⟩⟩, ⟨⟨2, 19⟩, ⟨0, 0⟩, ⟨0, 0⟩, ⟨0, 0⟩⟩⟩ ∧
    ¬ (r.fillArea st).corners.Fits (r.fillArea st).rect.size ∧
    (r.fillArea st).corners.confine (r.fillArea st).rect.size = ⟨⟨1, 9⟩, ⟨0, 0⟩, ⟨0, 0⟩, ⟨0, 0⟩⟩ ∧
    (r.fillArea st).contains ⟨1, 2⟩ = true ∧ (r.strokeArea st).contains ⟨1, 2⟩ = false ∧
    r.contains ⟨1, 2⟩ = false := by decide +kernel

/-- With fitting radii `contains` is: inside the rectangle and, in each of the four corner boxes,
inside that corner's ellipse — the radii enter directly (no `confine`, no left/right corner choice). -/
theorem rrect_contains_iff_of_fits (r : RoundedRect) (h : r.InRange) (hf : r.corners.Fits r.rect.size)
    (p : Pt) : r.contains p = true ↔ r.rect.contains p = true ∧ CornerConds r p :=
  contains_iff_of_fits r h hf p
example : (⟨⟨⟨0, 0⟩, ⟨8, 6⟩⟩, ⟨⟨3, 2⟩, ⟨1, 1⟩, ⟨0, 0⟩, ⟨5, 4⟩⟩⟩ : RoundedRect).InRange ∧
    (⟨⟨3, 2⟩, ⟨1, 1⟩, ⟨0, 0⟩, ⟨5, 4⟩⟩ : CornerRadii).Fits ⟨8, 6⟩ := by decide

/-- Concentric corner quadrants: smaller semi-axes, same centre => inside (a circular outer corner
needs a circular inner one). -/
theorem corner_quadrant_nested {tlF tlS : Pt} {rF rS : Sz} {k : Quadrant}
    (hc : (EllipseQuadrant.new tlF rF k).center2x = (EllipseQuadrant.new tlS rS k).center2x)
    (hw : rF.w ≤ rS.w) (hh : rF.h ≤ rS.h) (hcls : rS.w = rS.h → rF.w = rF.h) {p : Pt}
    (h : (EllipseQuadrant.new tlF rF k).contains p = true) :
    (EllipseQuadrant.new tlS rS k).contains p = true :=
  quadrant_nested hc hw hh hcls h
example : (EllipseQuadrant.new ⟨2, 2⟩ ⟨1, 3⟩ .topLeft).center2x =
    (EllipseQuadrant.new ⟨0, 0⟩ ⟨3, 5⟩ .topLeft).center2x := by decide

/-- A rounded rectangle shrunk by `k` on every side with every radius reduced by `k` lies inside
the original, when the radii of both fit. -/
theorem rrect_shrunk_inside {S F : RoundedRect} {k : Nat} (hk : ShrunkBy S F k) (hS : S.InRange)
    (hF : F.InRange) (hSf : S.corners.Fits S.rect.size) (hFf : F.corners.Fits F.rect.size) (p : Pt)
    (h : F.contains p = true) : S.contains p = true :=
  nested_contains hk hS hF hSf hFf h
example : ShrunkBy ⟨⟨⟨0, 0⟩, ⟨10, 8⟩⟩, ⟨⟨4, 3⟩, ⟨1, 1⟩, ⟨0, 0⟩, ⟨5, 4⟩⟩⟩
    ⟨⟨⟨2, 2⟩, ⟨6, 4⟩⟩, ⟨⟨2, 1⟩, ⟨0, 0⟩, ⟨0, 0⟩, ⟨3, 2⟩⟩⟩ 2 := by
  constructor <;> decide

/-- **`FillInStroke` for fitting radii**: if `confine` changes neither the stroke area's nor the
fill area's radii, the fill area lies inside the stroke area — all widths, all three alignments,
unequal corner radii. -/
theorem fill_in_stroke_partial_fitting (st : Style) (r : RoundedRect) (hS : (r.strokeArea st).InRange)
    (hF : (r.fillArea st).InRange)
    (hSf : (r.strokeArea st).corners.Fits (r.strokeArea st).rect.size)
    (hFf : (r.fillArea st).corners.Fits (r.fillArea st).rect.size) : FillInStroke st r :=
  fillInStroke_of_fits st r hS hF hSf hFf
example : let st : Style := ⟨some 1, some 2, 3, .center⟩
    let r : RoundedRect := ⟨⟨⟨-3, 2⟩, ⟨12, 9⟩⟩, ⟨⟨5, 4⟩, ⟨2, 2⟩, ⟨0, 3⟩, ⟨6, 3⟩⟩⟩
    (r.strokeArea st).InRange ∧ (r.fillArea st).InRange ∧
      (r.strokeArea st).corners.Fits (r.strokeArea st).rect.size ∧
      (r.fillArea st).corners.Fits (r.fillArea st).rect.size := by decide

/-- Radii that fit the shape fit its stroke area. -/
theorem stroke_area_radii_fit (st : Style) (r : RoundedRect) (hS : (r.strokeArea st).InRange)
    (hf : r.corners.Fits r.rect.size) :
    (r.strokeArea st).corners.Fits (r.strokeArea st).rect.size :=
  strokeArea_fits st r hS hf

/-- **No radius above half its side** (in particular equal radii `(a, b)` with `2a <= w`,
`2b <= h`): `FillInStroke` holds for every width and alignment. -/
theorem fill_in_stroke_partial_half_radii (st : Style) (r : RoundedRect) (hS : (r.strokeArea st).InRange)
    (hF : (r.fillArea st).InRange) (hc : HalfFits r.corners r.rect.size) : FillInStroke st r := by
  obtain ⟨hw, hh⟩ := size_le_of_strokeArea st r hS
  exact fillInStroke_of_fits st r hS hF (strokeArea_fits st r hS hc.fits)
    (fillArea_fits_of_half st r hw hh hc)
example : HalfFits (⟨⟨5, 4⟩, ⟨2, 2⟩, ⟨0, 3⟩, ⟨6, 3⟩⟩ : CornerRadii) ⟨12, 9⟩ := by decide

/-- Equal radii that fit (`with_equal_corners`, `2a <= w`, `2b <= h`). -/
theorem fill_in_stroke_partial_equal_radii (st : Style) (rect : Rect) (a b : Nat)
    (hS : ((withEqualCorners rect ⟨a, b⟩).strokeArea st).InRange)
    (hF : ((withEqualCorners rect ⟨a, b⟩).fillArea st).InRange)
    (ha : 2 * a ≤ rect.size.w) (hb : 2 * b ≤ rect.size.h) :
    FillInStroke st (withEqualCorners rect ⟨a, b⟩) :=
  fill_in_stroke_partial_half_radii st _ hS hF ⟨ha, hb, ha, hb, ha, hb, ha, hb⟩
example : let st : Style := ⟨some 1, some 2, 4, .center⟩
    ((withEqualCorners ⟨⟨-3, 2⟩, ⟨12, 9⟩⟩ ⟨6, 4⟩).strokeArea st).InRange ∧
    ((withEqualCorners ⟨⟨-3, 2⟩, ⟨12, 9⟩⟩ ⟨6, 4⟩).fillArea st).InRange := by decide

/-- Zero radii (the shape is a rectangle). -/
theorem fill_in_stroke_partial_zero_radii (st : Style) (rect : Rect)
    (hS : ((⟨rect, CornerRadii.zero⟩ : RoundedRect).strokeArea st).InRange)
    (hF : ((⟨rect, CornerRadii.zero⟩ : RoundedRect).fillArea st).InRange) :
    FillInStroke st ⟨rect, CornerRadii.zero⟩ :=
  fill_in_stroke_partial_half_radii st _ hS hF
    ⟨Nat.zero_le _, Nat.zero_le _, Nat.zero_le _, Nat.zero_le _, Nat.zero_le _, Nat.zero_le _,
      Nat.zero_le _, Nat.zero_le _⟩

/-- **Inside width 0** (`Outside` alignment; any fitting radii, unequal ones included): the fill
area is the shape itself and lies in the stroke area. -/
theorem fill_in_stroke_partial_inside_zero (st : Style) (r : RoundedRect) (h0 : st.insideStrokeWidth = 0)
    (hS : (r.strokeArea st).InRange) (hF : (r.fillArea st).InRange) (hf : r.corners.Fits r.rect.size) :
    FillInStroke st r := by
  obtain ⟨hw, hh⟩ := size_le_of_strokeArea st r hS
  exact fillInStroke_of_fits st r hS hF (strokeArea_fits st r hS hf)
    (fillArea_fits_of_inside_zero st r h0 hw hh hf)
example : (⟨some 1, some 2, 3, .outside⟩ : Style).insideStrokeWidth = 0 ∧
    (⟨⟨9, 4⟩, ⟨3, 2⟩, ⟨0, 3⟩, ⟨6, 5⟩⟩ : CornerRadii).Fits ⟨12, 9⟩ := by decide

/-- **The property text for rounded rectangles with fitting radii**: the pixel map of `draw()` is
the fill colour on `fill_area()`, the stroke colour on `stroke_area() \ fill_area()` (width > 0),
nothing elsewhere — clipped to the target. -/
theorem styled_rrect_exact_fitting (st : Style) (r : RoundedRect) (B : Rect)
    (hS : (r.strokeArea st).InRange) (hF : (r.fillArea st).InRange)
    (hSf : (r.strokeArea st).corners.Fits (r.strokeArea st).rect.size)
    (hFf : (r.fillArea st).corners.Fits (r.fillArea st).rect.size) (p : Pt) :
    runNative B (r.drawStyled st) p = if B.contains p = true then styledExpected st r p else none :=
  styled_rrect_exact_partial st r B hS hF (fillInStroke_of_fits st r hS hF hSf hFf) p

/-- ... and for shapes none of whose radii exceeds half its side, with no further hypothesis. -/
theorem styled_rrect_exact_half_radii (st : Style) (r : RoundedRect) (B : Rect)
    (hS : (r.strokeArea st).InRange) (hF : (r.fillArea st).InRange)
    (hc : HalfFits r.corners r.rect.size) (p : Pt) :
    runNative B (r.drawStyled st) p = if B.contains p = true then styledExpected st r p else none :=
  styled_rrect_exact_partial st r B hS hF (fill_in_stroke_partial_half_radii st r hS hF hc) p

end EG.C06.RoundedRectFillInStroke
