/-
  C06 (ellipse part) — a styled ellipse with a solid stroke paints a point with the fill colour iff
  `fill_area()` contains it, with the stroke colour iff `stroke_area()` contains it and `fill_area()`
  does not (and the stroke width is non-zero), and leaves all other points untouched; the stroke
  area is the ellipse grown on every side by the outside part of the stroke width, the fill area
  the ellipse shrunk by the inside part; an inside stroke never paints outside the shape and an
  outside stroke never paints inside it. For ALL sizes (also thin ellipses and strokes wider than
  the shape). The split of the stroke width is `C06.stroke_width_split` etc. (Props/C06/Circle.lean).

  Range guards (decidable): the bounding boxes of the two areas do not saturate / overflow `i32`;
  the model's `EllipseContains` uses unbounded naturals (C08 covers the `u32` range).
-/
import EG.Lemmas.EllipseStyled
import EG.Props.C01.Ellipse
namespace EG.C06
open EG EG.Ellipse

/-- `offset(k)`, `k ≥ 0`: grown by `k` on every side. -/
theorem ellipse_offset_grow (e : Ellipse) (k : Nat) (hw : 1 ≤ e.size.w) (hh : 1 ≤ e.size.h)
    (sw : e.size.w + 2 * k ≤ 4294967295) (sh : e.size.h + 2 * k ≤ 4294967295) :
    e.offset (k : Int) = ⟨⟨e.tl.x - k, e.tl.y - k⟩, ⟨e.size.w + 2 * k, e.size.h + 2 * k⟩⟩ :=
  offset_grow e k hw hh sw sh
example : 1 ≤ (⟨⟨-3, 2⟩, ⟨7, 4⟩⟩ : Ellipse).size.w ∧ 1 ≤ (⟨⟨-3, 2⟩, ⟨7, 4⟩⟩ : Ellipse).size.h := by decide

/-- `offset(-k)`: shrunk by `k` on every side while something is left ... -/
theorem ellipse_offset_shrink (e : Ellipse) (k : Nat) (hk : 1 ≤ k) (hw : 2 * k < e.size.w)
    (hh : 2 * k < e.size.h) :
    e.offset (-(k : Int)) = ⟨⟨e.tl.x + k, e.tl.y + k⟩, ⟨e.size.w - 2 * k, e.size.h - 2 * k⟩⟩ :=
  offset_shrink e k hk hw hh
example : 2 * 1 < (⟨⟨-3, 2⟩, ⟨7, 4⟩⟩ : Ellipse).size.w ∧ 2 * 1 < (⟨⟨-3, 2⟩, ⟨7, 4⟩⟩ : Ellipse).size.h := by decide

/-- ... and each side saturates at 0 otherwise; an ellipse with a zero side is empty. -/
theorem ellipse_offset_collapse (e : Ellipse) (k : Nat) (hk : 1 ≤ k)
    (hd : e.size.w ≤ 2 * k ∨ e.size.h ≤ 2 * k) (p : Pt) :
    (e.offset (-(k : Int))).size = ⟨e.size.w - 2 * k, e.size.h - 2 * k⟩ ∧
    (e.offset (-(k : Int))).contains p = false := by
  have hs := offset_shrink_size e k hk
  refine ⟨hs, contains_false_of_zero ?_ p⟩
  rw [hs]; simp only; omega
example : (⟨⟨-3, 2⟩, ⟨7, 4⟩⟩ : Ellipse).size.w ≤ 2 * 2 ∨ (⟨⟨-3, 2⟩, ⟨7, 4⟩⟩ : Ellipse).size.h ≤ 2 * 2 := by
  decide

/-- `offset` keeps `center_2x` whenever both ellipses are non-empty (same parity per axis). -/
theorem ellipse_offset_keeps_center (e : Ellipse) (s' : Sz) (hw : 1 ≤ e.size.w) (hh : 1 ≤ e.size.h)
    (hw' : 1 ≤ s'.w) (hh' : 1 ≤ s'.h) (pw : s'.w % 2 = e.size.w % 2) (ph : s'.h % 2 = e.size.h % 2) :
    (Ellipse.withCenter e.center s').center2x = e.center2x :=
  withCenter_center2x e s' hw hh hw' hh' pw ph

/-- **The stroke area is the ellipse grown on every side by the outside part of the width.** -/
theorem ellipse_stroke_area_grown (st : PrimStyle) (e : Ellipse) (hw : 1 ≤ e.size.w) (hh : 1 ≤ e.size.h)
    (ho : st.outsideStrokeWidth ≤ 2147483647)
    (sw : e.size.w + 2 * st.outsideStrokeWidth ≤ 4294967295)
    (sh : e.size.h + 2 * st.outsideStrokeWidth ≤ 4294967295) :
    e.strokeArea st = ⟨⟨e.tl.x - st.outsideStrokeWidth, e.tl.y - st.outsideStrokeWidth⟩,
      ⟨e.size.w + 2 * st.outsideStrokeWidth, e.size.h + 2 * st.outsideStrokeWidth⟩⟩ := by
  unfold strokeArea PrimStyle.strokeOffset
  rw [Rect.satAsI32_of_le ho]
  exact offset_grow e _ hw hh sw sh
example : (⟨none, some 1, 5, .center⟩ : PrimStyle).outsideStrokeWidth ≤ 2147483647 := by decide

/-- **The fill area is the ellipse shrunk on every side by the inside part of the width** (while
something is left; otherwise it is empty). -/
theorem ellipse_fill_area_shrunk (st : PrimStyle) (e : Ellipse) (hk : 1 ≤ st.insideStrokeWidth)
    (hi : st.insideStrokeWidth ≤ 2147483647) (hw : 2 * st.insideStrokeWidth < e.size.w)
    (hh : 2 * st.insideStrokeWidth < e.size.h) :
    e.fillArea st = ⟨⟨e.tl.x + st.insideStrokeWidth, e.tl.y + st.insideStrokeWidth⟩,
      ⟨e.size.w - 2 * st.insideStrokeWidth, e.size.h - 2 * st.insideStrokeWidth⟩⟩ := by
  unfold fillArea PrimStyle.fillOffset
  rw [Rect.satAsI32_of_le hi]
  exact offset_shrink e _ hk hw hh
example : 1 ≤ (⟨none, some 1, 3, .center⟩ : PrimStyle).insideStrokeWidth ∧
    2 * (⟨none, some 1, 3, .center⟩ : PrimStyle).insideStrokeWidth < 7 := by decide

theorem ellipse_fill_area_collapsed (st : PrimStyle) (e : Ellipse) (hk : 1 ≤ st.insideStrokeWidth)
    (hi : st.insideStrokeWidth ≤ 2147483647)
    (hd : e.size.w ≤ 2 * st.insideStrokeWidth ∨ e.size.h ≤ 2 * st.insideStrokeWidth) (p : Pt) :
    (e.fillArea st).contains p = false := by
  unfold fillArea PrimStyle.fillOffset
  rw [Rect.satAsI32_of_le hi]
  exact (ellipse_offset_collapse e _ hk hd p).2
example : (4 : Nat) ≤ 2 * (⟨none, some 1, 3, .center⟩ : PrimStyle).insideStrokeWidth := by decide

theorem ellipse_stroke_area_inside (st : PrimStyle) (e : Ellipse) (h : st.strokeAlignment = .inside)
    (hw : e.size.w ≤ 4294967295) (hh : e.size.h ≤ 4294967295) : e.strokeArea st = e :=
  strokeArea_inside e h hw hh
theorem ellipse_fill_area_outside (st : PrimStyle) (e : Ellipse) (h : st.strokeAlignment = .outside)
    (hw : e.size.w ≤ 4294967295) (hh : e.size.h ≤ 4294967295) : e.fillArea st = e :=
  fillArea_outside e h hw hh

/-- The fill area lies within the stroke area. -/
theorem ellipse_fill_area_subset_stroke_area (st : PrimStyle) (e : Ellipse)
    (hS : (e.strokeArea st).InRange) (hF : (e.fillArea st).InRange) (p : Pt)
    (h : (e.fillArea st).contains p = true) : (e.strokeArea st).contains p = true :=
  fill_subset_stroke hS hF h

/-- **`styled_ellipse_exact`.** On a target with bounding box `B`, natively (R2) and through the
trait defaults (R1), `draw()` leaves at `p`: nothing outside `B`; the fill colour (if one is set)
iff `fill_area` contains `p`; the stroke colour (if one is set) iff `stroke_area` contains `p`,
`fill_area` does not and the width is non-zero; nothing otherwise. -/
theorem styled_ellipse_exact (st : PrimStyle) (e : Ellipse) (B : Rect)
    (hS : (e.strokeArea st).InRange) (hF : (e.fillArea st).InRange) (p : Pt) :
    runNative B (e.drawStyled st) p =
      (if B.contains p = true then
        if (e.fillArea st).contains p = true then st.fillColor
        else if (e.strokeArea st).contains p = true ∧ st.strokeWidth > 0 then st.strokeColor
        else none
      else none) ∧
    runDefault B (e.drawStyled st) p = runNative B (e.drawStyled st) p := by
  rw [C01.ellipse_draw_default_eq_native, C01.styled_ellipse_draw_map st e B hS hF]
  exact ⟨rfl, rfl⟩
example : (Ellipse.strokeArea ⟨some 1, some 2, 9, .center⟩ ⟨⟨-3, 2⟩, ⟨7, 3⟩⟩).InRange ∧
    (Ellipse.fillArea ⟨some 1, some 2, 9, .center⟩ ⟨⟨-3, 2⟩, ⟨7, 3⟩⟩).InRange := by decide

/-- The same for `draw_iter(pixels())`. -/
theorem styled_ellipse_pixels_exact (st : PrimStyle) (e : Ellipse) (B : Rect)
    (hS : (e.strokeArea st).InRange) (hF : (e.fillArea st).InRange) (p : Pt) :
    PMap.empty.apply (clipWrites B (e.styledPixels st)) p =
      if B.contains p = true then styledExpected st e p else none := by
  rw [← (C01.styled_ellipse_pixels_eq_draw st e B hS hF).1, C01.styled_ellipse_draw_map st e B hS hF]

/-- **An inside stroke never paints outside the shape.** -/
theorem ellipse_inside_stroke_inside (st : PrimStyle) (e : Ellipse) (B : Rect)
    (h : st.strokeAlignment = .inside) (he : e.InRange)
    (hF : (e.fillArea st).InRange) (p : Pt) (col : Color)
    (hp : runNative B (e.drawStyled st) p = some col) : e.contains p = true := by
  have hw : e.size.w ≤ 4294967295 := by
    have := Rect.InRange.w_le he; simp only [boundingBox] at this; omega
  have hh : e.size.h ≤ 4294967295 := by
    have := Rect.InRange.h_le he; simp only [boundingBox] at this; omega
  have hSe := strokeArea_inside (st := st) e h hw hh
  have hS : (e.strokeArea st).InRange := by rw [hSe]; exact he
  rw [(styled_ellipse_exact st e B hS hF p).1] at hp
  split at hp
  · split at hp
    · rename_i hf
      have := fill_subset_stroke hS hF hf
      rwa [hSe] at this
    · split at hp
      · rename_i hs; rw [hSe] at hs; exact hs.1
      · cases hp
  · cases hp
example : (⟨⟨-3, 2⟩, ⟨7, 3⟩⟩ : Ellipse).InRange ∧
    (Ellipse.fillArea ⟨some 1, some 2, 2, .inside⟩ ⟨⟨-3, 2⟩, ⟨7, 3⟩⟩).InRange := by decide

/-- **An outside stroke never paints inside the shape.** -/
theorem ellipse_outside_stroke_outside (st : PrimStyle) (e : Ellipse) (B : Rect)
    (h : st.strokeAlignment = .outside) (he : e.InRange)
    (hS : (e.strokeArea st).InRange) (p : Pt) (hp : e.contains p = true) :
    runNative B (e.drawStyled st) p = if B.contains p = true then st.fillColor else none := by
  have hw : e.size.w ≤ 4294967295 := by
    have := Rect.InRange.w_le he; simp only [boundingBox] at this; omega
  have hh : e.size.h ≤ 4294967295 := by
    have := Rect.InRange.h_le he; simp only [boundingBox] at this; omega
  have hFe := fillArea_outside (st := st) e h hw hh
  have hF : (e.fillArea st).InRange := by rw [hFe]; exact he
  rw [(styled_ellipse_exact st e B hS hF p).1, hFe, hp]
  simp
example : (⟨⟨-3, 2⟩, ⟨7, 3⟩⟩ : Ellipse).InRange ∧
    (Ellipse.strokeArea ⟨some 1, some 2, 2, .outside⟩ ⟨⟨-3, 2⟩, ⟨7, 3⟩⟩).InRange := by decide

-- [V] ellipse styles whose area bounding boxes leave the i32 range or whose `EllipseContains` products leave the u32 range (C08's topic; unbounded naturals in the model): carried by correspondence + oracle only
end EG.C06
