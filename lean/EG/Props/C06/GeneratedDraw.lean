/-
  C06 — the REGENERATED `draw_styled` of circles and ellipses equals the hand-written `drawStyled`.

  `tools/tr_curve.py` translates the functions that draw on a generic target (`target: &mut D`, `Result<(), D::Error>`)
  into THE LIST OF TARGET CALLS THEY MAKE on a target that never fails, the vocabulary of the hand models
  (`List EG.Call`; what a failing target does to that list is C04's topic): `Scanline::draw`,
  `StyledScanline::draw_stroke / draw_stroke_and_fill`, `StyledDrawable::draw_styled` for `Circle` and `Ellipse`, together
  with `PrimitiveStyle::{outside_stroke_width, inside_stroke_width, effective_stroke_color}`, `stroke_area` / `fill_area`
  instantiated at `Circle` and `Ellipse`, and `StyledDimensions::styled_bounding_box`. This file proves each equal to the
  hand model (`EG/Model/{PrimStyle,Scanline,StyledScanline,Circle,Ellipse}.lean`) for all inputs.

  Where the two differ (stated exactly):
  * `PrimitiveStyle` has a `stroke_style` field; the hand model `PrimStyle` is the solid-stroke style (`primStyleOf` drops
    the field). `fill_area` and `draw_styled` are equal under `stroke_style = Solid` (hypothesis `hs`); for `Dotted` the
    real `fill_area` does not shrink (`fill_area_dotted_src`: outside every property).
  * the `for` loops collect their iterator on explicit `fuel`: equal to the hand model's `toList` whenever `fuel` exceeds
    the number of rows of the area the loop runs over (`StrokeRowsBelow` / `FillRowsBelow`).
  * guards of the callees: `DiamIsU32` / `IsU32` for `offset`, `DiamFitsI32` / `AxesFitI32` of the stroke and fill AREA for
    `Scanlines::new` (see `Props/C05/GeneratedCircle.lean`).
-/
import EG.Props.C06.GeneratedStyled
namespace EG.C06.CurveSrc
open EG EG.RectSrcPrelude EG.CurveSrcPrelude EG.Generated EG.C16.Src EG.C05.Src EG.C06

/-! ### `PrimitiveStyle` -/

def alignOf : CurveSrc.StrokeAlignment → EG.StrokeAlignment
  | .Inside => .inside | .Center => .center | .Outside => .outside
/-- The regenerated `PrimitiveStyle` (colour type := `EG.Color`) as the hand model's solid-stroke style. -/
def primStyleOf (s : CurveSrc.PrimitiveStyle) : PrimStyle :=
  ⟨s.fill_color, s.stroke_color, s.stroke_width, alignOf s.stroke_alignment⟩

theorem outside_stroke_width_src_eq_model (s : CurveSrc.PrimitiveStyle) :
    CurveSrc.PrimitiveStyle_outside_stroke_width s = (primStyleOf s).outsideStrokeWidth := by
  obtain ⟨fc, sc, w, a, ss⟩ := s
  cases a <;> rfl

theorem inside_stroke_width_src_eq_model (s : CurveSrc.PrimitiveStyle) :
    CurveSrc.PrimitiveStyle_inside_stroke_width s = (primStyleOf s).insideStrokeWidth := by
  obtain ⟨fc, sc, w, a, ss⟩ := s
  cases a <;> rfl

theorem effective_stroke_color_src_eq_model (s : CurveSrc.PrimitiveStyle) :
    CurveSrc.PrimitiveStyle_effective_stroke_color s = (primStyleOf s).effectiveStrokeColor := by
  obtain ⟨fc, sc, w, a, ss⟩ := s
  cases sc with
  | none => rfl
  | some c =>
    by_cases hw : w > 0
    · simp [CurveSrc.PrimitiveStyle_effective_stroke_color, PrimStyle.effectiveStrokeColor, primStyleOf, option_filter, hw]
    · simp [CurveSrc.PrimitiveStyle_effective_stroke_color, PrimStyle.effectiveStrokeColor, primStyleOf, option_filter, hw]

theorem stroke_area_Circle_src_eq_model (s : CurveSrc.PrimitiveStyle) (c : CurveSrc.Circle) (h : DiamIsU32 c.diameter) :
    circleOf (CurveSrc.PrimitiveStyle_stroke_area_Circle s c) = (circleOf c).strokeArea (primStyleOf s) := by
  unfold CurveSrc.PrimitiveStyle_stroke_area_Circle Circle.strokeArea
  simp only [Circle_offset_src_eq_model c _ h, outside_stroke_width_src_eq_model]
  rfl

theorem fill_area_Circle_src_eq_model (s : CurveSrc.PrimitiveStyle) (c : CurveSrc.Circle) (h : DiamIsU32 c.diameter)
    (hs : s.stroke_style = .Solid) :
    circleOf (CurveSrc.PrimitiveStyle_fill_area_Circle s c) = (circleOf c).fillArea (primStyleOf s) := by
  unfold CurveSrc.PrimitiveStyle_fill_area_Circle Circle.fillArea
  simp only [Circle_offset_src_eq_model c _ h, inside_stroke_width_src_eq_model, CurveSrc.PrimitiveStyle_stroke_style, hs,
    enum_eq, decide_true, ↓reduceIte]
  rfl

/-- For a dotted stroke the real `fill_area` is the shape itself (offset 0): outside the hand model and every property. -/
theorem fill_area_dotted_src (s : CurveSrc.PrimitiveStyle) (c : CurveSrc.Circle) (hs : s.stroke_style = .Dotted) :
    CurveSrc.PrimitiveStyle_fill_area_Circle s c = CurveSrc.Circle_OffsetOutline_offset c 0 := by
  unfold CurveSrc.PrimitiveStyle_fill_area_Circle
  simp only [CurveSrc.PrimitiveStyle_stroke_style, hs, enum_eq]
  rfl

theorem stroke_area_Ellipse_src_eq_model (s : CurveSrc.PrimitiveStyle) (e : CurveSrc.Ellipse) (h : IsU32 e.size) :
    ellipseOf (CurveSrc.PrimitiveStyle_stroke_area_Ellipse s e) = (ellipseOf e).strokeArea (primStyleOf s) := by
  unfold CurveSrc.PrimitiveStyle_stroke_area_Ellipse Ellipse.strokeArea
  simp only [Ellipse_offset_src_eq_model e _ h, outside_stroke_width_src_eq_model]
  rfl

theorem fill_area_Ellipse_src_eq_model (s : CurveSrc.PrimitiveStyle) (e : CurveSrc.Ellipse) (h : IsU32 e.size)
    (hs : s.stroke_style = .Solid) :
    ellipseOf (CurveSrc.PrimitiveStyle_fill_area_Ellipse s e) = (ellipseOf e).fillArea (primStyleOf s) := by
  unfold CurveSrc.PrimitiveStyle_fill_area_Ellipse Ellipse.fillArea
  simp only [Ellipse_offset_src_eq_model e _ h, inside_stroke_width_src_eq_model, CurveSrc.PrimitiveStyle_stroke_style, hs,
    enum_eq, decide_true, ↓reduceIte]
  rfl

theorem Circle_styled_bounding_box_src_eq_model (c : CurveSrc.Circle) (s : CurveSrc.PrimitiveStyle)
    (h : DiamIsU32 c.diameter) :
    CurveSrc.Circle_StyledDimensions_styled_bounding_box c s = (circleOf c).styledBoundingBox (primStyleOf s) := by
  unfold CurveSrc.Circle_StyledDimensions_styled_bounding_box Circle.styledBoundingBox
  have hb : IsU32 (circleOf c).boundingBox.size := ⟨h, h⟩
  simp only [Circle_bounding_box_src_eq_model, offset_src_eq_model _ _ hb, outside_stroke_width_src_eq_model]
  rfl

theorem Ellipse_styled_bounding_box_src_eq_model (e : CurveSrc.Ellipse) (s : CurveSrc.PrimitiveStyle) (h : IsU32 e.size) :
    CurveSrc.Ellipse_StyledDimensions_styled_bounding_box e s = (ellipseOf e).styledBoundingBox (primStyleOf s) := by
  unfold CurveSrc.Ellipse_StyledDimensions_styled_bounding_box Ellipse.styledBoundingBox
  have hb : IsU32 (ellipseOf e).boundingBox.size := h
  simp only [Ellipse_bounding_box_src_eq_model, offset_src_eq_model _ _ hb, outside_stroke_width_src_eq_model]
  rfl

/-! ### `Scanline::draw`, `StyledScanline::draw_stroke(_and_fill)` -/

theorem Scanline_draw_src_eq_model (s : CurveSrc.Scanline) (c : Color) :
    CurveSrc.Scanline_draw s c = (scanlineOf s).draw c := by
  obtain ⟨y, ⟨a, b⟩⟩ := s
  unfold CurveSrc.Scanline_draw Scanline.draw
  rw [Scanline_is_empty_src_eq_model]
  by_cases h : a < b
  · have e1 : (scanlineOf ⟨y, ⟨a, b⟩⟩).isEmpty = false := by simp [Scanline.isEmpty, scanlineOf, h]
    have e2 : i32_as_u32 (b - a) = (b - a).toNat := by simp only [i32_as_u32]; rw [if_pos (by omega)]
    simp only [e1, Bool.false_eq_true, ↓reduceIte]
    curve_simp [RectSrc.new, RectSrc.Point_new, RectSrc.Size_new, Target_fill_solid, scanlineOf]
    rw [if_pos (by omega)]
  · have e1 : (scanlineOf ⟨y, ⟨a, b⟩⟩).isEmpty = true := by simp [Scanline.isEmpty, scanlineOf, h]
    simp only [e1, ↓reduceIte]

theorem StyledScanline_draw_stroke_src_eq_model (l : CurveSrc.StyledScanline) (sc : Color) :
    CurveSrc.StyledScanline_draw_stroke l sc = (styledScanlineOf l).drawStroke sc := by
  unfold CurveSrc.StyledScanline_draw_stroke StyledScanline.drawStroke
  simp only [Scanline_draw_src_eq_model, StyledScanline_stroke_left_src_eq_model, StyledScanline_stroke_right_src_eq_model]

theorem StyledScanline_draw_stroke_and_fill_src_eq_model (l : CurveSrc.StyledScanline) (sc fc : Color) :
    CurveSrc.StyledScanline_draw_stroke_and_fill l sc fc = (styledScanlineOf l).drawStrokeAndFill sc fc := by
  unfold CurveSrc.StyledScanline_draw_stroke_and_fill StyledScanline.drawStrokeAndFill
  simp only [Scanline_draw_src_eq_model, StyledScanline_stroke_left_src_eq_model, StyledScanline_stroke_right_src_eq_model,
    StyledScanline_fill_src_eq_model, List.append_assoc]

/-! ### the `for` loops of `draw_styled` -/

/-- More fuel than the area has rows. -/
def CircleRowsBelow (fuel : Nat) (a : EG.Circle) : Prop := (a.scanlines.yEnd - a.scanlines.y).toNat < fuel
def EllipseRowsBelow (fuel : Nat) (a : EG.Ellipse) : Prop := (a.scanlines.yEnd - a.scanlines.y).toNat < fuel
instance (fuel : Nat) (a : EG.Circle) : Decidable (CircleRowsBelow fuel a) := by unfold CircleRowsBelow; exact inferInstance
instance (fuel : Nat) (a : EG.Ellipse) : Decidable (EllipseRowsBelow fuel a) := by unfold EllipseRowsBelow; exact inferInstance
example : CircleRowsBelow 8 ⟨⟨-3, 2⟩, 7⟩ := by decide

theorem iter_collect_circle_styled : ∀ (fuel : Nat) (s : CurveSrc.CircleStyledScanlines),
    (iter_collect CurveSrc.CircleStyledScanlines_Iterator_next fuel s).map styledScanlineOf
      = srcCircleStyledCollect fuel s := by
  intro fuel
  induction fuel with
  | zero => intro s; rfl
  | succ n ih =>
    intro s
    unfold iter_collect srcCircleStyledCollect
    cases hs : CurveSrc.CircleStyledScanlines_Iterator_next s with
    | mk v s' =>
      cases v with
      | none => rfl
      | some l => simp only [List.map_cons, ih s']

theorem iter_collect_circle_scanlines : ∀ (fuel : Nat) (s : CurveSrc.CircleScanlines),
    (iter_collect CurveSrc.CircleScanlines_Iterator_next fuel s).map scanlineOf = (scanlinesItOf s).toListFuel fuel := by
  intro fuel
  induction fuel with
  | zero => intro s; rfl
  | succ n ih =>
    intro s
    have h := CircleScanlines_Iterator_next_src_eq_model s
    unfold iter_collect Circle.ScanlinesIt.toListFuel
    rw [← h]
    cases hs : CurveSrc.CircleScanlines_Iterator_next s with
    | mk v s' =>
      cases v with
      | none => simp only [Option.map_none, List.map_nil]
      | some l => simp only [Option.map_some, List.map_cons, ih s']

theorem iter_collect_ellipse_styled : ∀ (fuel : Nat) (s : CurveSrc.EllipseStyledScanlines),
    (iter_collect CurveSrc.EllipseStyledScanlines_Iterator_next fuel s).map styledScanlineOf
      = srcEllipseStyledCollect fuel s := by
  intro fuel
  induction fuel with
  | zero => intro s; rfl
  | succ n ih =>
    intro s
    unfold iter_collect srcEllipseStyledCollect
    cases hs : CurveSrc.EllipseStyledScanlines_Iterator_next s with
    | mk v s' =>
      cases v with
      | none => rfl
      | some l => simp only [List.map_cons, ih s']

theorem iter_collect_ellipse_scanlines : ∀ (fuel : Nat) (s : CurveSrc.EllipseScanlines),
    (iter_collect CurveSrc.EllipseScanlines_Iterator_next fuel s).map scanlineOf
      = (ellipseScanlinesItOf s).toListFuel fuel := by
  intro fuel
  induction fuel with
  | zero => intro s; rfl
  | succ n ih =>
    intro s
    have h := EllipseScanlines_Iterator_next_src_eq_model s
    unfold iter_collect Ellipse.ScanlinesIt.toListFuel
    rw [← h]
    cases hs : CurveSrc.EllipseScanlines_Iterator_next s with
    | mk v s' =>
      cases v with
      | none => simp only [Option.map_none, List.map_nil]
      | some l => simp only [Option.map_some, List.map_cons, ih s']

/-- the loop over `StyledScanlines::new(stroke_area, fill_area)` -/
theorem circle_styled_loop_src_eq_model (SA FA : CurveSrc.Circle) (fuel : Nat) (hd : DiamFitsI32 SA.diameter)
    (hf : CircleRowsBelow fuel (circleOf SA)) (body : CurveSrc.StyledScanline → List Call)
    (body' : StyledScanline → List Call) (hb : ∀ l, body l = body' (styledScanlineOf l)) :
    for_calls CurveSrc.CircleStyledScanlines_Iterator_next body fuel (CurveSrc.CircleStyledScanlines_new SA FA)
      = (Circle.styledScanlines (circleOf SA) (circleOf FA)).toList.flatMap body' := by
  have hb' : body = fun l => body' (styledScanlineOf l) := funext hb
  simp only [for_calls]
  rw [hb', ← List.flatMap_map, iter_collect_circle_styled, srcCircleStyledCollect_src_eq_model,
    CircleStyledScanlines_new_src_eq_model SA FA hd, Circle.StyledScanlinesIt.toListFuel_eq,
    Circle.StyledScanlinesIt.toList_eq,
    Circle.ScanlinesIt.toListFuel_eq fuel ((circleOf SA).styledScanlines (circleOf FA)).scanlines hf,
    Circle.ScanlinesIt.toList_eq]

/-- the loop over `Scanlines::new(fill_area)` -/
theorem circle_fill_loop_src_eq_model (FA : CurveSrc.Circle) (fuel : Nat) (hd : DiamFitsI32 FA.diameter)
    (hf : CircleRowsBelow fuel (circleOf FA)) (fc : Color) :
    for_calls CurveSrc.CircleScanlines_Iterator_next (fun l => CurveSrc.Scanline_draw l fc) fuel
        (CurveSrc.CircleScanlines_new FA) = drawFillLines fc (circleOf FA).scanlines.toList := by
  simp only [for_calls, Scanline_draw_src_eq_model, drawFillLines]
  rw [← List.flatMap_map scanlineOf (fun l => l.draw fc), iter_collect_circle_scanlines,
    CircleScanlines_new_src_eq_model FA hd, Circle.ScanlinesIt.toListFuel_eq _ _ hf, Circle.ScanlinesIt.toList_eq]

theorem ellipse_styled_loop_src_eq_model (SA FA : CurveSrc.Ellipse) (fuel : Nat) (hd : AxesFitI32 SA.size)
    (hf : EllipseRowsBelow fuel (ellipseOf SA)) (body : CurveSrc.StyledScanline → List Call)
    (body' : StyledScanline → List Call) (hb : ∀ l, body l = body' (styledScanlineOf l)) :
    for_calls CurveSrc.EllipseStyledScanlines_Iterator_next body fuel (CurveSrc.EllipseStyledScanlines_new SA FA)
      = (Ellipse.styledScanlines (ellipseOf SA) (ellipseOf FA)).toList.flatMap body' := by
  have hb' : body = fun l => body' (styledScanlineOf l) := funext hb
  have hl := Ellipse.ScanlinesIt.rest_length_le (ellipseOf SA).scanlines
  simp only [for_calls]
  rw [hb', ← List.flatMap_map, iter_collect_ellipse_styled, srcEllipseStyledCollect_src_eq_model,
    EllipseStyledScanlines_new_src_eq_model SA FA hd, Ellipse.StyledScanlinesIt.toListFuel_eq,
    Ellipse.StyledScanlinesIt.toList_eq,
    Ellipse.ScanlinesIt.toListFuel_eq fuel ((ellipseOf SA).styledScanlines (ellipseOf FA)).scanlines
      (by unfold EllipseRowsBelow at hf; exact Nat.lt_of_le_of_lt hl hf),
    Ellipse.ScanlinesIt.toList_eq]

theorem ellipse_fill_loop_src_eq_model (FA : CurveSrc.Ellipse) (fuel : Nat) (hd : AxesFitI32 FA.size)
    (hf : EllipseRowsBelow fuel (ellipseOf FA)) (fc : Color) :
    for_calls CurveSrc.EllipseScanlines_Iterator_next (fun l => CurveSrc.Scanline_draw l fc) fuel
        (CurveSrc.EllipseScanlines_new FA) = drawFillLines fc (ellipseOf FA).scanlines.toList := by
  have hl := Ellipse.ScanlinesIt.rest_length_le (ellipseOf FA).scanlines
  simp only [for_calls, Scanline_draw_src_eq_model, drawFillLines]
  rw [← List.flatMap_map scanlineOf (fun l => l.draw fc), iter_collect_ellipse_scanlines,
    EllipseScanlines_new_src_eq_model FA hd,
    Ellipse.ScanlinesIt.toListFuel_eq _ _ (by unfold EllipseRowsBelow at hf; exact Nat.lt_of_le_of_lt hl hf),
    Ellipse.ScanlinesIt.toList_eq]

/-! ### `StyledDrawable::draw_styled` -/

/-- **The regenerated `draw_styled` of `Circle` makes exactly the target calls of the hand model's `Circle.drawStyled`**
(solid stroke; more fuel than the stroke area and the fill area have rows). -/
theorem Circle_draw_styled_src_eq_model (c : CurveSrc.Circle) (s : CurveSrc.PrimitiveStyle) (fuel : Nat)
    (hs : s.stroke_style = .Solid) (hu : DiamIsU32 c.diameter)
    (h1 : DiamFitsI32 ((circleOf c).strokeArea (primStyleOf s)).d)
    (h2 : DiamFitsI32 ((circleOf c).fillArea (primStyleOf s)).d)
    (f1 : CircleRowsBelow fuel ((circleOf c).strokeArea (primStyleOf s)))
    (f2 : CircleRowsBelow fuel ((circleOf c).fillArea (primStyleOf s))) :
    CurveSrc.Circle_StyledDrawable_draw_styled fuel c s = Circle.drawStyled (primStyleOf s) (circleOf c) := by
  have hSA := stroke_area_Circle_src_eq_model s c hu
  have hFA := fill_area_Circle_src_eq_model s c hu hs
  have d1 : DiamFitsI32 (CurveSrc.PrimitiveStyle_stroke_area_Circle s c).diameter := by
    show DiamFitsI32 (circleOf (CurveSrc.PrimitiveStyle_stroke_area_Circle s c)).d
    rw [hSA]; exact h1
  have d2 : DiamFitsI32 (CurveSrc.PrimitiveStyle_fill_area_Circle s c).diameter := by
    show DiamFitsI32 (circleOf (CurveSrc.PrimitiveStyle_fill_area_Circle s c)).d
    rw [hFA]; exact h2
  unfold CurveSrc.Circle_StyledDrawable_draw_styled Circle.drawStyled
  rw [effective_stroke_color_src_eq_model]
  have hfc : CurveSrc.PrimitiveStyle_fill_color s = (primStyleOf s).fillColor := rfl
  rw [hfc]
  cases (primStyleOf s).effectiveStrokeColor with
  | none =>
    cases (primStyleOf s).fillColor with
    | none => rfl
    | some fc =>
      simp only [List.append_nil]
      rw [circle_fill_loop_src_eq_model _ fuel d2 (by rw [hFA]; exact f2), hFA]
  | some sc =>
    cases (primStyleOf s).fillColor with
    | none =>
      simp only [List.append_nil]
      rw [circle_styled_loop_src_eq_model _ _ fuel d1 (by rw [hSA]; exact f1) _ (fun l => l.drawStroke sc)
        (fun l => StyledScanline_draw_stroke_src_eq_model l sc), hSA, hFA]
      rfl
    | some fc =>
      simp only [List.append_nil]
      rw [circle_styled_loop_src_eq_model _ _ fuel d1 (by rw [hSA]; exact f1) _ (fun l => l.drawStrokeAndFill sc fc)
        (fun l => StyledScanline_draw_stroke_and_fill_src_eq_model l sc fc), hSA, hFA]
      rfl
example : (⟨none, some 1, 2, .Center, .Solid⟩ : CurveSrc.PrimitiveStyle).stroke_style = .Solid := rfl
/-- a 3x3 circle with a 1 px inside stroke and a fill, through the regenerated `draw_styled` -/
example : CurveSrc.Circle_StyledDrawable_draw_styled 4 ⟨⟨0, 0⟩, 3⟩ ⟨some 7, some 1, 1, .Inside, .Solid⟩ =
    [.fillSolid ⟨⟨1, 0⟩, ⟨1, 1⟩⟩ 1, .fillSolid ⟨⟨0, 1⟩, ⟨1, 1⟩⟩ 1, .fillSolid ⟨⟨1, 1⟩, ⟨1, 1⟩⟩ 7,
     .fillSolid ⟨⟨2, 1⟩, ⟨1, 1⟩⟩ 1, .fillSolid ⟨⟨1, 2⟩, ⟨1, 1⟩⟩ 1] := by decide

/-- **The regenerated `draw_styled` of `Ellipse` makes exactly the target calls of `Ellipse.drawStyled`.** -/
theorem Ellipse_draw_styled_src_eq_model (e : CurveSrc.Ellipse) (s : CurveSrc.PrimitiveStyle) (fuel : Nat)
    (hs : s.stroke_style = .Solid) (hu : IsU32 e.size)
    (h1 : AxesFitI32 ((ellipseOf e).strokeArea (primStyleOf s)).size)
    (h2 : AxesFitI32 ((ellipseOf e).fillArea (primStyleOf s)).size)
    (f1 : EllipseRowsBelow fuel ((ellipseOf e).strokeArea (primStyleOf s)))
    (f2 : EllipseRowsBelow fuel ((ellipseOf e).fillArea (primStyleOf s))) :
    CurveSrc.Ellipse_StyledDrawable_draw_styled fuel e s = Ellipse.drawStyled (primStyleOf s) (ellipseOf e) := by
  have hSA := stroke_area_Ellipse_src_eq_model s e hu
  have hFA := fill_area_Ellipse_src_eq_model s e hu hs
  have d1 : AxesFitI32 (CurveSrc.PrimitiveStyle_stroke_area_Ellipse s e).size := by
    show AxesFitI32 (ellipseOf (CurveSrc.PrimitiveStyle_stroke_area_Ellipse s e)).size
    rw [hSA]; exact h1
  have d2 : AxesFitI32 (CurveSrc.PrimitiveStyle_fill_area_Ellipse s e).size := by
    show AxesFitI32 (ellipseOf (CurveSrc.PrimitiveStyle_fill_area_Ellipse s e)).size
    rw [hFA]; exact h2
  unfold CurveSrc.Ellipse_StyledDrawable_draw_styled Ellipse.drawStyled
  rw [effective_stroke_color_src_eq_model]
  have hfc : CurveSrc.PrimitiveStyle_fill_color s = (primStyleOf s).fillColor := rfl
  rw [hfc]
  cases (primStyleOf s).effectiveStrokeColor with
  | none =>
    cases (primStyleOf s).fillColor with
    | none => rfl
    | some fc =>
      simp only [List.append_nil]
      rw [ellipse_fill_loop_src_eq_model _ fuel d2 (by rw [hFA]; exact f2), hFA]
  | some sc =>
    cases (primStyleOf s).fillColor with
    | none =>
      simp only [List.append_nil]
      rw [ellipse_styled_loop_src_eq_model _ _ fuel d1 (by rw [hSA]; exact f1) _ (fun l => l.drawStroke sc)
        (fun l => StyledScanline_draw_stroke_src_eq_model l sc), hSA, hFA]
      rfl
    | some fc =>
      simp only [List.append_nil]
      rw [ellipse_styled_loop_src_eq_model _ _ fuel d1 (by rw [hSA]; exact f1) _ (fun l => l.drawStrokeAndFill sc fc)
        (fun l => StyledScanline_draw_stroke_and_fill_src_eq_model l sc fc), hSA, hFA]
      rfl
example : IsU32 (⟨⟨0, 0⟩, ⟨7, 4⟩⟩ : CurveSrc.Ellipse).size ∧
    EllipseRowsBelow 9 ((ellipseOf ⟨⟨0, 0⟩, ⟨7, 4⟩⟩).strokeArea (primStyleOf ⟨none, some 1, 2, .Center, .Solid⟩)) := by decide

/-! ### C06's headline for circles and ellipses, over the regenerated functions only -/

theorem diamFits_of_model_inRange (a : EG.Circle) (h : a.InRange) : DiamFitsI32 a.d := by
  unfold Circle.InRange Rect.InRange at h
  unfold DiamFitsI32
  have := h.2.2.1
  simp only [Circle.boundingBox] at this
  omega

theorem axesFit_of_model_inRange (a : EG.Ellipse) (h : a.InRange) : AxesFitI32 a.size := by
  unfold Ellipse.InRange Rect.InRange at h
  unfold AxesFitI32
  have h1 := h.2.2.1
  have h2 := h.2.2.2.1
  simp only [Ellipse.boundingBox] at h1 h2
  omega

/-- **`styled_circle_exact`, both sides regenerated**: on a target with bounding box `B` the calls of the regenerated
`draw_styled` leave at `p` the fill colour iff the regenerated `contains` of the regenerated `fill_area` accepts `p`, the
stroke colour iff that of the regenerated `stroke_area` does, the fill area does not and the width is non-zero, and nothing
otherwise. -/
theorem src_styled_circle_exact (c : CurveSrc.Circle) (s : CurveSrc.PrimitiveStyle) (B : Rect) (fuel : Nat)
    (hs : s.stroke_style = .Solid) (hu : DiamIsU32 c.diameter)
    (hS : ((circleOf c).strokeArea (primStyleOf s)).InRange) (hF : ((circleOf c).fillArea (primStyleOf s)).InRange)
    (f1 : CircleRowsBelow fuel ((circleOf c).strokeArea (primStyleOf s)))
    (f2 : CircleRowsBelow fuel ((circleOf c).fillArea (primStyleOf s))) (p : Pt) :
    runNative B (CurveSrc.Circle_StyledDrawable_draw_styled fuel c s) p =
      (if B.contains p = true then
        if CurveSrc.Circle_ContainsPoint_contains (CurveSrc.PrimitiveStyle_fill_area_Circle s c) p = true then s.fill_color
        else if CurveSrc.Circle_ContainsPoint_contains (CurveSrc.PrimitiveStyle_stroke_area_Circle s c) p = true
            ∧ s.stroke_width > 0 then s.stroke_color
        else none
      else none) := by
  have h1 := diamFits_of_model_inRange _ hS
  have h2 := diamFits_of_model_inRange _ hF
  have hSA := stroke_area_Circle_src_eq_model s c hu
  have hFA := fill_area_Circle_src_eq_model s c hu hs
  have d1 : DiamFitsI32 (CurveSrc.PrimitiveStyle_stroke_area_Circle s c).diameter := by
    show DiamFitsI32 (circleOf (CurveSrc.PrimitiveStyle_stroke_area_Circle s c)).d
    rw [hSA]; exact h1
  have d2 : DiamFitsI32 (CurveSrc.PrimitiveStyle_fill_area_Circle s c).diameter := by
    show DiamFitsI32 (circleOf (CurveSrc.PrimitiveStyle_fill_area_Circle s c)).d
    rw [hFA]; exact h2
  rw [Circle_draw_styled_src_eq_model c s fuel hs hu h1 h2 f1 f2, Circle_contains_src_eq_model _ p d1,
    Circle_contains_src_eq_model _ p d2, hSA, hFA]
  exact (styled_circle_exact (primStyleOf s) (circleOf c) B hS hF p).1
example : (⟨some 1, some 2, 9, .Center, .Solid⟩ : CurveSrc.PrimitiveStyle).stroke_style = .Solid ∧
    DiamIsU32 (⟨⟨-3, 2⟩, 7⟩ : CurveSrc.Circle).diameter ∧
    ((circleOf ⟨⟨-3, 2⟩, 7⟩).strokeArea (primStyleOf ⟨some 1, some 2, 9, .Center, .Solid⟩)).InRange ∧
    ((circleOf ⟨⟨-3, 2⟩, 7⟩).fillArea (primStyleOf ⟨some 1, some 2, 9, .Center, .Solid⟩)).InRange ∧
    CircleRowsBelow 20 ((circleOf ⟨⟨-3, 2⟩, 7⟩).strokeArea (primStyleOf ⟨some 1, some 2, 9, .Center, .Solid⟩)) ∧
    CircleRowsBelow 20 ((circleOf ⟨⟨-3, 2⟩, 7⟩).fillArea (primStyleOf ⟨some 1, some 2, 9, .Center, .Solid⟩)) := by decide

/-- **`styled_ellipse_exact`, both sides regenerated.** -/
theorem src_styled_ellipse_exact (e : CurveSrc.Ellipse) (s : CurveSrc.PrimitiveStyle) (B : Rect) (fuel : Nat)
    (hs : s.stroke_style = .Solid) (hu : IsU32 e.size)
    (hS : ((ellipseOf e).strokeArea (primStyleOf s)).InRange) (hF : ((ellipseOf e).fillArea (primStyleOf s)).InRange)
    (f1 : EllipseRowsBelow fuel ((ellipseOf e).strokeArea (primStyleOf s)))
    (f2 : EllipseRowsBelow fuel ((ellipseOf e).fillArea (primStyleOf s))) (p : Pt) :
    runNative B (CurveSrc.Ellipse_StyledDrawable_draw_styled fuel e s) p =
      (if B.contains p = true then
        if CurveSrc.Ellipse_ContainsPoint_contains (CurveSrc.PrimitiveStyle_fill_area_Ellipse s e) p = true then s.fill_color
        else if CurveSrc.Ellipse_ContainsPoint_contains (CurveSrc.PrimitiveStyle_stroke_area_Ellipse s e) p = true
            ∧ s.stroke_width > 0 then s.stroke_color
        else none
      else none) := by
  have h1 := axesFit_of_model_inRange _ hS
  have h2 := axesFit_of_model_inRange _ hF
  have hSA := stroke_area_Ellipse_src_eq_model s e hu
  have hFA := fill_area_Ellipse_src_eq_model s e hu hs
  have d1 : AxesFitI32 (CurveSrc.PrimitiveStyle_stroke_area_Ellipse s e).size := by
    show AxesFitI32 (ellipseOf (CurveSrc.PrimitiveStyle_stroke_area_Ellipse s e)).size
    rw [hSA]; exact h1
  have d2 : AxesFitI32 (CurveSrc.PrimitiveStyle_fill_area_Ellipse s e).size := by
    show AxesFitI32 (ellipseOf (CurveSrc.PrimitiveStyle_fill_area_Ellipse s e)).size
    rw [hFA]; exact h2
  rw [Ellipse_draw_styled_src_eq_model e s fuel hs hu h1 h2 f1 f2, Ellipse_contains_src_eq_model _ p d1,
    Ellipse_contains_src_eq_model _ p d2, hSA, hFA]
  exact (styled_ellipse_exact (primStyleOf s) (ellipseOf e) B hS hF p).1
example : IsU32 (⟨⟨-3, 2⟩, ⟨7, 3⟩⟩ : CurveSrc.Ellipse).size ∧
    ((ellipseOf ⟨⟨-3, 2⟩, ⟨7, 3⟩⟩).strokeArea (primStyleOf ⟨some 1, some 2, 9, .Center, .Solid⟩)).InRange ∧
    EllipseRowsBelow 20 ((ellipseOf ⟨⟨-3, 2⟩, ⟨7, 3⟩⟩).strokeArea (primStyleOf ⟨some 1, some 2, 9, .Center, .Solid⟩)) := by decide

end EG.C06.CurveSrc
