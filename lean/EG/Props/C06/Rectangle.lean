/-
  C06 (Rectangle) — stroke and fill of a styled rectangle follow `fill_area()` / `stroke_area()`.

  Property theorems only (helper lemmas: EG/Lemmas/Style.lean, StyledRect.lean, StyledRectDraw.lean,
  PMap.lean). All statements are about the models EG.Model.Style / EG.Model.StyledRect (literal
  transcriptions of src/primitives/primitive_style.rs and src/primitives/rectangle/styled.rs, solid
  stroke) and hold for every rectangle (also zero-sized ones), every stroke width and alignment,
  every colour option and every target box. Guards, explicit and decidable:
    `NoSat s r`  — the stroke width fits `i32` and the grown size fits `u32` (no `saturating_*`);
    `Guard s r`  — stroke width fits `i32` and the stroke area lies in the `i32` coordinate range
                   (what `points()` needs not to saturate; the real code panics beyond it in a
                   checked build).
-/
import EG.Lemmas.StyledRectDraw
import EG.Props.C16
namespace EG.C06.Rectangle
open EG.Tgt
open EG EG.Rect EG.StyledRect

/-! ### The split of the stroke width -/

/-- `inside + outside = width` (below the `u32` saturation point of `saturating_add(1)`), and the
three alignments as documented: Inside all inside, Outside all outside, Center the larger half
inside. -/
theorem stroke_width_split (s : Style) (h : s.width < 4294967295) :
    s.insideStrokeWidth + s.outsideStrokeWidth = s.width ∧
    (s.align = .inside → s.insideStrokeWidth = s.width ∧ s.outsideStrokeWidth = 0) ∧
    (s.align = .outside → s.insideStrokeWidth = 0 ∧ s.outsideStrokeWidth = s.width) ∧
    (s.align = .center → s.outsideStrokeWidth = s.width / 2 ∧ s.insideStrokeWidth = (s.width + 1) / 2 ∧
      s.outsideStrokeWidth ≤ s.insideStrokeWidth ∧ s.insideStrokeWidth ≤ s.outsideStrokeWidth + 1) := by
  refine ⟨s.inside_add_outside h, ?_, ?_, ?_⟩
  · intro ha; simp [Style.insideStrokeWidth, Style.outsideStrokeWidth, ha]
  · intro ha; simp [Style.insideStrokeWidth, Style.outsideStrokeWidth, ha]
  · intro ha
    obtain ⟨h1, h2⟩ := s.center_split h ha
    refine ⟨h1, h2, ?_, ?_⟩ <;> omega

example : (⟨some 7, some 9, 5, .center⟩ : Style).insideStrokeWidth = 3 ∧
    (⟨some 7, some 9, 5, .center⟩ : Style).outsideStrokeWidth = 2 := by decide

/-- The guard of `stroke_width_split` is sharp: at `u32::MAX` a centred stroke loses one pixel. -/
theorem stroke_width_split_saturated :
    (⟨none, none, 4294967295, .center⟩ : Style).insideStrokeWidth +
      (⟨none, none, 4294967295, .center⟩ : Style).outsideStrokeWidth = 4294967294 :=
  Style.center_split_saturated

/-! ### `stroke_area` grows, `fill_area` shrinks -/

/-- For a non-degenerate shape the stroke area is the shape grown on every side by the outside
part of the stroke width (from `C16.offset_moves_sides`). -/
theorem stroke_area_grows (s : Style) (r : Rect) (h : NoSat s r) (hr : 0 < r.size.w ∧ 0 < r.size.h) :
    (strokeArea s r).tl.x = r.tl.x - s.outsideStrokeWidth ∧
    (strokeArea s r).tl.y = r.tl.y - s.outsideStrokeWidth ∧
    (strokeArea s r).size.w = r.size.w + 2 * s.outsideStrokeWidth ∧
    (strokeArea s r).size.h = r.size.h + 2 * s.outsideStrokeWidth := by
  unfold strokeArea
  rw [s.strokeOffset_eq h.1]
  have := C16.offset_moves_sides r (s.outsideStrokeWidth : Int) (Or.inr hr) (by omega)
    (by have := h.2.1; have := h.2.2; omega)
  omega

/-- For a shape larger than twice the inside part, the fill area is the shape shrunk on every
side by the inside part of the stroke width (from `C16.offset_moves_sides`). -/
theorem fill_area_shrinks (s : Style) (r : Rect) (h : NoSat s r)
    (hr : 2 * s.insideStrokeWidth < r.size.w ∧ 2 * s.insideStrokeWidth < r.size.h) :
    (fillArea s r).tl.x = r.tl.x + s.insideStrokeWidth ∧
    (fillArea s r).tl.y = r.tl.y + s.insideStrokeWidth ∧
    ((fillArea s r).size.w : Int) = r.size.w - 2 * s.insideStrokeWidth ∧
    ((fillArea s r).size.h : Int) = r.size.h - 2 * s.insideStrokeWidth := by
  unfold fillArea
  rw [s.fillOffset_eq h.1]
  have := C16.offset_moves_sides r (-(s.insideStrokeWidth : Int)) (by omega) (by omega)
    (by have := h.2.1; have := h.2.2; omega)
  omega

/-- A stroke wider than the shape collapses the fill area to zero width and/or height
(saturating, never wrapping), in every case. -/
theorem fill_area_collapse (s : Style) (r : Rect) (h : NoSat s r) :
    (fillArea s r).size.w = r.size.w - 2 * s.insideStrokeWidth ∧
    (fillArea s r).size.h = r.size.h - 2 * s.insideStrokeWidth := by
  rw [fillArea_eq s r h]
  exact ⟨rfl, rfl⟩

/-- The same from `C16.offset_collapse` (inside part non-zero). -/
theorem fill_area_collapse_of_offset (s : Style) (r : Rect) (h : s.width ≤ 2147483647)
    (hi : 0 < s.insideStrokeWidth) :
    (fillArea s r).size.w = r.size.w - s.insideStrokeWidth * 2 ∧
    (fillArea s r).size.h = r.size.h - s.insideStrokeWidth * 2 := by
  unfold fillArea
  rw [s.fillOffset_eq h]
  have := C16.offset_collapse r (-(s.insideStrokeWidth : Int)) (by omega)
  simpa using this

/-- The fill area lies within the stroke area, also when collapsed. -/
theorem fill_area_subset_stroke_area (s : Style) (r : Rect) (h : NoSat s r) (p : Pt)
    (hp : (fillArea s r).contains p = true) : (strokeArea s r).contains p = true :=
  (fillArea_within s r h).contains hp

example : NoSat ⟨some 7, some 9, 3, .center⟩ ⟨⟨-2, -1⟩, ⟨4, 5⟩⟩ := by decide
example : strokeArea ⟨some 7, some 9, 3, .center⟩ ⟨⟨-2, -1⟩, ⟨4, 5⟩⟩ = ⟨⟨-3, -2⟩, ⟨6, 7⟩⟩ := by decide
example : fillArea ⟨some 7, some 9, 3, .center⟩ ⟨⟨-2, -1⟩, ⟨4, 5⟩⟩ = ⟨⟨-1, 1⟩, ⟨0, 1⟩⟩ := by decide

/-! ### The border rectangles of `draw_styled` -/

/-- **Key lemma.** A point lies in the top, bottom, left or right border rectangle that
`draw_styled` fills with the stroke colour (the side borders exist only if the fill height is
positive) iff `stroke_area` contains it and `fill_area` does not — for every size, width and
alignment, including strokes wider than the shape. -/
theorem borders_eq_stroke_minus_fill (s : Style) (r : Rect) (h : NoSat s r) (p : Pt) :
    ((topBorder s r).contains p = true ∨ (bottomBorder s r).contains p = true ∨
      ((fillArea s r).size.h > 0 ∧
        ((leftBorder s r).contains p = true ∨ (rightBorder s r).contains p = true))) ↔
    ((strokeArea s r).contains p = true ∧ ¬ (fillArea s r).contains p = true) := by
  rw [← exists_mem_strokeRects]
  exact mem_strokeRects_iff s r h p

/-- The stroke part of `draw_styled` is exactly these rectangles, each filled with the stroke
colour. -/
theorem stroke_calls_are_borders (s : Style) (r : Rect) (sc : Color) :
    strokeCalls s r sc =
      ([topBorder s r, bottomBorder s r] ++
        (if (fillArea s r).size.h > 0 then [leftBorder s r, rightBorder s r] else [])).map
        (fun a => Call.fillSolid a sc) :=
  strokeCalls_eq s r sc

/-! ### The exact picture -/

/-- **C06 for rectangles.** On a target with box `B`, `draw()` paints `p` (inside `B`) with the
fill colour if `fill_area()` contains it, with the stroke colour if `stroke_area()` contains it,
`fill_area()` does not and the stroke width is non-zero (`none` = leaves it untouched when the
respective colour is not set), and leaves every other point untouched. -/
theorem styled_rect_exact (s : Style) (r : Rect) (h : Guard s r) (B : Rect) (p : Pt) :
    runNative B (drawCalls s r) p =
      if B.contains p = true then
        (if (fillArea s r).contains p = true then s.fill
         else if (strokeArea s r).contains p = true ∧ s.width > 0 then s.stroke
         else none)
      else none :=
  runNative_drawCalls s r h B p

/-- The same on a draw_iter-only target. -/
theorem styled_rect_exact_default (s : Style) (r : Rect) (h : Guard s r) (B : Rect) (p : Pt) :
    runDefault B (drawCalls s r) p =
      if B.contains p = true then
        (if (fillArea s r).contains p = true then s.fill
         else if (strokeArea s r).contains p = true ∧ s.width > 0 then s.stroke
         else none)
      else none := by
  rw [runDefault_eq_runNative]; exact runNative_drawCalls s r h B p

/-- The "iff" reading of the property text, for a style with two different colours and a
non-zero stroke width. -/
theorem styled_rect_iff (s : Style) (r : Rect) (h : Guard s r) (B : Rect) (p : Pt) (fc sc : Color)
    (hf : s.fill = some fc) (hs : s.stroke = some sc) (hne : fc ≠ sc) (hw : s.width > 0)
    (hB : B.contains p = true) :
    (runNative B (drawCalls s r) p = some fc ↔ (fillArea s r).contains p = true) ∧
    (runNative B (drawCalls s r) p = some sc ↔
      ((strokeArea s r).contains p = true ∧ ¬ (fillArea s r).contains p = true)) ∧
    (runNative B (drawCalls s r) p = none ↔ ¬ (strokeArea s r).contains p = true) := by
  have hsub := fill_area_subset_stroke_area s r h.noSat p
  rw [styled_rect_exact s r h B p, if_pos hB, hf, hs]
  by_cases hfa : (fillArea s r).contains p = true
  · have := hsub hfa
    simp [hfa, this, hne]
  · by_cases hsa : (strokeArea s r).contains p = true
    · simp [hfa, hsa, hw, Ne.symm hne]
    · simp [hfa, hsa]

/-- An inside stroke never paints outside the shape. -/
theorem inside_stroke_never_outside (s : Style) (r : Rect) (h : Guard s r) (ha : s.align = .inside)
    (B : Rect) (p : Pt) (hp : runNative B (drawCalls s r) p ≠ none) : r.contains p = true := by
  have hn := h.noSat
  rw [runNative_drawCalls s r h B p] at hp
  by_cases hB : B.contains p = true
  · rw [if_pos hB] at hp
    have hsa := expectedColor_ne_none hn hp
    have ho : s.outsideStrokeWidth = 0 := by simp [Style.outsideStrokeWidth, ha]
    unfold strokeArea at hsa
    rw [s.strokeOffset_eq hn.1, ho, Int.natCast_zero,
      offset_zero r (by have := hn.2.1; omega) (by have := hn.2.2; omega)] at hsa
    exact hsa
  · rw [if_neg hB] at hp; exact absurd rfl hp

/-- An outside stroke never paints inside the shape: inside the shape only the fill colour (if
any) is painted. -/
theorem outside_stroke_never_inside (s : Style) (r : Rect) (h : Guard s r) (ha : s.align = .outside)
    (B : Rect) (p : Pt) (hp : r.contains p = true) :
    runNative B (drawCalls s r) p = if B.contains p = true then s.fill else none := by
  have hn := h.noSat
  rw [runNative_drawCalls s r h B p]
  have hi : s.insideStrokeWidth = 0 := by simp [Style.insideStrokeWidth, ha]
  have hfa : (fillArea s r).contains p = true := by
    unfold fillArea
    rw [s.fillOffset_eq hn.1, hi, Int.natCast_zero, Int.neg_zero,
      offset_zero r (by have := hn.2.1; omega) (by have := hn.2.2; omega)]
    exact hp
  unfold expectedColor
  rw [if_pos hfa]

/-! ### Non-vacuity: concrete instances of the guards, including a collapsed fill area -/

example : Guard ⟨some 7, some 9, 3, .center⟩ ⟨⟨-2, -1⟩, ⟨4, 5⟩⟩ := by decide
example : Guard ⟨some 7, some 9, 9, .inside⟩ ⟨⟨-2, -1⟩, ⟨4, 5⟩⟩ := by decide
example : Guard ⟨none, some 9, 2, .outside⟩ ⟨⟨100, 50⟩, ⟨0, 3⟩⟩ := by decide
example : drawCalls ⟨some 7, some 9, 1, .inside⟩ ⟨⟨0, 0⟩, ⟨3, 4⟩⟩ =
    [.fillSolid ⟨⟨1, 1⟩, ⟨1, 2⟩⟩ 7, .fillSolid ⟨⟨0, 0⟩, ⟨3, 1⟩⟩ 9, .fillSolid ⟨⟨0, 3⟩, ⟨3, 1⟩⟩ 9,
     .fillSolid ⟨⟨0, 1⟩, ⟨1, 2⟩⟩ 9, .fillSolid ⟨⟨2, 1⟩, ⟨1, 2⟩⟩ 9] := by decide

-- [V] Rust-level parametricity: that `draw_styled` issues this call list to every `DrawTarget` (the list does not depend on the target type): carried by correspondence + oracle only
-- [V] `StrokeStyle::Dotted` is outside the property (solid strokes only); not modelled
-- [V] that the HARNESS's recording target keeps the same map (Rust `BTreeMap<(y, x), colour>`, insert = last write wins) and that `fmt_map` / `fmtPix` print equal lists as equal texts: Rust-side / string formatting, carried by correspondence only (proved on the Lean side, Props/C06/CanonPix.lean: the driver's `canonPix` - sort + last of runs - is strictly sorted by (y, x) and lists exactly the graph of `PMap.empty.apply writes`; equal lists iff equal maps)

end EG.C06.Rectangle
