/-
  C18 (rounded rectangle part, the band of half a pixel) — "corners include a point iff its centre is
  inside the ideal curve, up to a band of half a pixel", in exact integer form, derived from the exact
  ideal-ellipse theorems of Props/C18/RoundedRect.lean.

  Doubled coordinates as there: pixel `p` has centre `p + (1/2, 1/2)`; the ideal corner ellipse is
  centred at the inner corner of the corner box with semi-axes `rw`, `rh` (doubled: `2 rw`, `2 rh`);
  `dx2` / `dy2` are the squared doubled offsets between the two centres. The ellipse grown / shrunk
  by half a pixel has doubled semi-axes `2 rw ± 1`, `2 rh ± 1`; "centre strictly inside the ellipse
  with doubled semi-axes a, b" is `b² dx2 + a² dy2 < b² a²`. This is the band metric the oracle
  (`m_rrect::ideal_band`, class `C18:rrect-corner-outside-half-pixel-band`) evaluates on the real code.

  For every corner (all radii >= 1, elliptic, circular, and the small circular corners of radius 1
  and 2 with their special thresholds):
    centre inside or on the shrunk ellipse  ⟹  included  ⟹  centre strictly inside the IDEAL
    ellipse  ⟹  centre strictly inside the grown ellipse,
  i.e. a pixel whose centre is not strictly inside the grown ellipse is excluded. And for the whole
  shape (any radii, `confine` applied): membership = inside the rectangle and accepted by each corner
  whose box contains the point; hence the same band, corner by corner.
-/
import EG.Lemmas.Glue2RRectBand
namespace EG.C18.RRectBand
open EG EG.RoundedRect EG.EllipseQuadrant

/-! ### one corner -/

/-- An included pixel's centre is strictly inside the ideal quarter ellipse (all radii >= 1; for
elliptic corners and circular corners of radius > 2 this is an equivalence:
`C18.corner_contains_iff_ideal_ellipse`, `C18.corner_contains_iff_ideal_circle`). -/
theorem corner_contains_imp_ideal (tl : Pt) (r : Sz) (k : Quadrant) (hw : 1 ≤ r.w) (hh : 1 ≤ r.h)
    (p : Pt) (h : (EllipseQuadrant.new tl r k).contains p = true) :
    (r.h * 2) ^ 2 * dx2 tl r k p + (r.w * 2) ^ 2 * dy2 tl r k p < (r.h * 2) ^ 2 * (r.w * 2) ^ 2 :=
  Glue2.quadrant_contains_imp_ideal tl r k hw hh p h
example : (1 : Nat) ≤ (⟨2, 2⟩ : Sz).w ∧ (1 : Nat) ≤ (⟨2, 2⟩ : Sz).h ∧
    (EllipseQuadrant.new ⟨0, 0⟩ ⟨2, 2⟩ .topLeft).contains ⟨1, 0⟩ = true := by decide

/-- **Outer edge of the band**: an included pixel's centre is strictly inside the quarter ellipse
grown by half a pixel. -/
theorem corner_band_outer (tl : Pt) (r : Sz) (k : Quadrant) (hw : 1 ≤ r.w) (hh : 1 ≤ r.h)
    (p : Pt) (h : (EllipseQuadrant.new tl r k).contains p = true) :
    (r.h * 2 + 1) ^ 2 * dx2 tl r k p + (r.w * 2 + 1) ^ 2 * dy2 tl r k p <
      (r.h * 2 + 1) ^ 2 * (r.w * 2 + 1) ^ 2 :=
  Glue2.quadrant_band_outer tl r k hw hh p h
example : (1 : Nat) ≤ (⟨3, 5⟩ : Sz).w ∧ (1 : Nat) ≤ (⟨3, 5⟩ : Sz).h ∧
    (EllipseQuadrant.new ⟨0, 0⟩ ⟨3, 5⟩ .topLeft).contains ⟨1, 2⟩ = true := by decide

/-- The same, contrapositive: **a pixel whose centre is not strictly inside the grown ellipse is
excluded.** -/
theorem corner_excluded_outside_grown (tl : Pt) (r : Sz) (k : Quadrant) (hw : 1 ≤ r.w) (hh : 1 ≤ r.h)
    (p : Pt)
    (h : (r.h * 2 + 1) ^ 2 * (r.w * 2 + 1) ^ 2 ≤
      (r.h * 2 + 1) ^ 2 * dx2 tl r k p + (r.w * 2 + 1) ^ 2 * dy2 tl r k p) :
    (EllipseQuadrant.new tl r k).contains p = false := by
  cases hc : (EllipseQuadrant.new tl r k).contains p with
  | false => rfl
  | true => have := corner_band_outer tl r k hw hh p hc; omega
example : (7 * 2 + 1) ^ 2 * (7 * 2 + 1) ^ 2 ≤
    (7 * 2 + 1) ^ 2 * dx2 ⟨0, 0⟩ ⟨7, 7⟩ .topLeft ⟨0, 0⟩ + (7 * 2 + 1) ^ 2 * dy2 ⟨0, 0⟩ ⟨7, 7⟩ .topLeft ⟨0, 0⟩ := by
  decide

/-- **Inner edge of the band**: a pixel whose centre is inside or on the quarter ellipse shrunk by
half a pixel is included. -/
theorem corner_band_inner (tl : Pt) (r : Sz) (k : Quadrant) (hw : 1 ≤ r.w) (hh : 1 ≤ r.h)
    (p : Pt)
    (h : (r.h * 2 - 1) ^ 2 * dx2 tl r k p + (r.w * 2 - 1) ^ 2 * dy2 tl r k p ≤
      (r.h * 2 - 1) ^ 2 * (r.w * 2 - 1) ^ 2) :
    (EllipseQuadrant.new tl r k).contains p = true :=
  Glue2.quadrant_band_inner tl r k hw hh p h
example : (5 * 2 - 1) ^ 2 * dx2 ⟨0, 0⟩ ⟨3, 5⟩ .topLeft ⟨1, 2⟩ + (3 * 2 - 1) ^ 2 * dy2 ⟨0, 0⟩ ⟨3, 5⟩ .topLeft ⟨1, 2⟩ ≤
    (5 * 2 - 1) ^ 2 * (3 * 2 - 1) ^ 2 := by decide

/-- The offsets between the centres are odd in doubled coordinates, so both squares are >= 1 (no
pixel centre lies on an axis of a corner ellipse). -/
theorem corner_offsets_pos (tl : Pt) (r : Sz) (k : Quadrant) (p : Pt) :
    1 ≤ dx2 tl r k p ∧ 1 ≤ dy2 tl r k p := ⟨Glue2.dx2_pos tl r k p, Glue2.dy2_pos tl r k p⟩

/-! ### the whole shape -/

/-- The corner test of a quadrant, as a predicate. -/
def CornerTest (tl : Pt) (rad : Sz) (k : Quadrant) (p : Pt) : Prop :=
  (EllipseQuadrant.new tl rad k).contains p = true

/-- Centre strictly inside the corner ellipse grown by half a pixel. -/
def InGrown (tl : Pt) (rad : Sz) (k : Quadrant) (p : Pt) : Prop :=
  (rad.h * 2 + 1) ^ 2 * dx2 tl rad k p + (rad.w * 2 + 1) ^ 2 * dy2 tl rad k p <
    (rad.h * 2 + 1) ^ 2 * (rad.w * 2 + 1) ^ 2

/-- Centre inside or on the corner ellipse shrunk by half a pixel. -/
def InShrunk (tl : Pt) (rad : Sz) (k : Quadrant) (p : Pt) : Prop :=
  (rad.h * 2 - 1) ^ 2 * dx2 tl rad k p + (rad.w * 2 - 1) ^ 2 * dy2 tl rad k p ≤
    (rad.h * 2 - 1) ^ 2 * (rad.w * 2 - 1) ^ 2

/-- **Membership of any rounded rectangle, corner by corner** (all radii: `confine_radii()` is
applied first; `Glue2.CornerWise T r p` = `T` holds at each of the four corners whose radius-sized
box contains `p`): inside the rectangle and accepted by the quarter ellipse of every such corner. -/
theorem rrect_contains_iff_corner_wise (r : RoundedRect) (h : r.InRange) (p : Pt) :
    r.contains p = true ↔ r.rect.contains p = true ∧ Glue2.CornerWise CornerTest r.confineRadii p :=
  Glue2.contains_iff_cornerWise r h p
example : (⟨⟨⟨-3, 2⟩, ⟨7, 5⟩⟩, ⟨⟨2, 3⟩, ⟨9, 1⟩, ⟨0, 0⟩, ⟨4, 4⟩⟩⟩ : RoundedRect).InRange := by decide

/-- **Outer edge, whole shape**: an included point is, in every corner box that contains it,
strictly inside that corner's ellipse grown by half a pixel. -/
theorem rrect_band_outer (r : RoundedRect) (h : r.InRange) (p : Pt) (hc : r.contains p = true) :
    Glue2.CornerWise InGrown r.confineRadii p := by
  obtain ⟨hb, hw⟩ := (rrect_contains_iff_corner_wise r h p).mp hc
  exact Glue2.CornerWise.imp (r := r.confineRadii) hb
    (fun tl rad k h1 h2 ht => corner_band_outer tl rad k h1 h2 p ht) hw
example : (⟨⟨⟨0, 0⟩, ⟨8, 6⟩⟩, CornerRadii.new ⟨2, 2⟩⟩ : RoundedRect).InRange ∧
    (⟨⟨⟨0, 0⟩, ⟨8, 6⟩⟩, CornerRadii.new ⟨2, 2⟩⟩ : RoundedRect).contains ⟨1, 0⟩ = true := by decide

/-- **Inner edge, whole shape**: a point of the rectangle that is, in every corner box that contains
it, inside or on that corner's ellipse shrunk by half a pixel, is included (a point in no corner box
satisfies this vacuously: the straight part is full). -/
theorem rrect_band_inner (r : RoundedRect) (h : r.InRange) (p : Pt)
    (hb : r.rect.contains p = true) (hs : Glue2.CornerWise InShrunk r.confineRadii p) :
    r.contains p = true :=
  (rrect_contains_iff_corner_wise r h p).mpr ⟨hb,
    Glue2.CornerWise.imp (r := r.confineRadii) hb
      (fun tl rad k h1 h2 ht => corner_band_inner tl rad k h1 h2 p ht) hs⟩
example : let r : RoundedRect := ⟨⟨⟨0, 0⟩, ⟨16, 12⟩⟩, CornerRadii.new ⟨5, 4⟩⟩
    r.InRange ∧ r.rect.contains ⟨2, 2⟩ = true ∧ Glue2.CornerWise InShrunk r.confineRadii ⟨2, 2⟩ := by
  refine ⟨by decide, by decide, ?_⟩
  have e : (⟨⟨⟨0, 0⟩, ⟨16, 12⟩⟩, CornerRadii.new ⟨5, 4⟩⟩ : RoundedRect).confineRadii =
      ⟨⟨⟨0, 0⟩, ⟨16, 12⟩⟩, CornerRadii.new ⟨5, 4⟩⟩ := by decide
  rw [e]
  unfold Glue2.CornerWise InShrunk
  decide

/-- Contrapositive of the outer edge, whole shape: a point of some corner box whose centre is not
strictly inside that corner's grown ellipse is excluded. -/
theorem rrect_excluded_outside_grown (r : RoundedRect) (h : r.InRange) (p : Pt)
    (hn : ¬ Glue2.CornerWise InGrown r.confineRadii p) : r.contains p = false := by
  cases hc : r.contains p with
  | false => rfl
  | true => exact absurd (rrect_band_outer r h p hc) hn
example : let r : RoundedRect := ⟨⟨⟨0, 0⟩, ⟨16, 12⟩⟩, CornerRadii.new ⟨5, 4⟩⟩
    r.InRange ∧ ¬ Glue2.CornerWise InGrown r.confineRadii ⟨0, 0⟩ := by
  refine ⟨by decide, ?_⟩
  have e : (⟨⟨⟨0, 0⟩, ⟨16, 12⟩⟩, CornerRadii.new ⟨5, 4⟩⟩ : RoundedRect).confineRadii =
      ⟨⟨⟨0, 0⟩, ⟨16, 12⟩⟩, CornerRadii.new ⟨5, 4⟩⟩ := by decide
  rw [e]
  unfold Glue2.CornerWise InGrown
  decide

end EG.C18.RRectBand
