/-
  C18 (sector / arc part) — "a sector sweeping 360 degrees or more equals the circle and such an
  arc equals the circle's one-pixel inside ring. Arc and sector points lie in the circle and inside
  the swept angle up to 1.5 pixels at its radial boundaries, and every circle point further than
  that inside the sweep is included (diameters up to 128), in both the floating-point and the
  `fixed_point` build."

  Model: `EG.Model.Sector`. The plane sector (`PlaneSector::new(angle_start, angle_sweep)`: an
  operation tag and two integer normal vectors) is a parameter; `|sweep| >= 360 degrees` is the
  `EntirePlane` tag. For the default (f32, micromath) build trigonometry is not modelled: what the
  angular claim needs from it is the explicit hypothesis `NormalWithin n N eps` (the integer normal is
  within `eps` of the exact scaled normal, componentwise). For the `fixed_point` build
  `PlaneSector::new` IS modelled (`EG.Model.PlaneSectorNew`) and that hypothesis is discharged for every
  raw angle: EG/Props/C18/FixedTrig.lean (`fixed_operation_tag`, `fixed_normal_near_table`,
  `fixed_sector_angular`: table lines) and EG/Props/C18/SineTable.lean (`fixed_normal_exact` =
  `NormalWithin .. 10.32` against `Real.sin` / `Real.cos`, `fixed_sector_angular_exact`: exact lines).

  -- [V] default (f32) build: |sweep| >= 360 degrees makes `PlaneSector::new` return the `EntirePlane` tag (f32 comparison `angle_sweep.abs() >= ANGLE_360DEG`; proved for the fixed_point build at the raw level: `fixed_operation_tag`): carried by correspondence + oracle only
  -- [V] default (f32) build: SectorAngle.AngularClaim (points within 1.5 px of the radial boundaries or inside the sweep; circle points further inside are included; diameters up to 128) for the normals micromath's f32 trigonometry produces: carried by correspondence + oracle only (proved here: the error-propagation lemma, exactness of the half-plane tests beyond the error margin, the bisector test is implied for non-parallel normals, degenerate sweeps give the forward ray; for the fixed_point build the accuracy hypothesis is discharged: `fixed_normal_exact`, `fixed_sector_angular_exact`)
-/
import EG.Lemmas.SectorAngular
namespace EG.C18
open EG

/-! ### full sweeps -/

/-- With the `EntirePlane` tag `Sector::contains` is `Circle::contains`. -/
theorem sector_full_contains_eq_circle (s : Sector) (h : s.ps.op = .entirePlane) (p : Pt) :
    s.contains p = s.toCircle.contains p :=
  Sector.contains_entire h p
example : PlaneSector.entire.op = .entirePlane := rfl

/-- **A sector sweeping 360 degrees or more equals the circle**: same `points()` list. -/
theorem sector_full_eq_circle (s : Sector) (h : s.ps.op = .entirePlane) (hr : s.toCircle.InRange) :
    s.points = s.toCircle.points := by
  rw [Sector.points_eq_filter, Circle.points_eq_filter hr, Sector.boundingBox_eq]
  apply List.filter_congr
  intro p _
  exact Sector.contains_entire h p
example : (⟨⟨-3, 2⟩, 7, PlaneSector.entire⟩ : Sector).ps.op = .entirePlane ∧
    (⟨⟨-3, 2⟩, 7, PlaneSector.entire⟩ : Sector).toCircle.InRange := by decide

/-- **Such an arc equals the circle's one-pixel inside ring**: `Arc::points()` is the list of the
circle's points that are not in `circle.offset(-1)`. -/
theorem arc_full_eq_ring (a : Arc) (h : a.ps.op = .entirePlane) (hr : a.toCircle.InRange) :
    a.points = a.toCircle.points.filter (fun p => !(a.toCircle.offset (-1)).contains p) := by
  rw [Arc.points_eq_filter, Circle.points_eq_filter hr, List.filter_filter, Arc.boundingBox_eq]
  apply List.filter_congr
  intro p _
  rw [Arc.accepts_entire h, Bool.and_comm]
example : (⟨⟨-3, 2⟩, 7, PlaneSector.entire⟩ : Arc).ps.op = .entirePlane ∧
    (⟨⟨-3, 2⟩, 7, PlaneSector.entire⟩ : Arc).toCircle.InRange := by decide

/-- The arc's inner threshold is the membership test of `circle.offset(-1)` (same `center_2x`,
diameter `d - 2`, empty for `d <= 2`). -/
theorem arc_inner_threshold (c : Circle) (p : Pt) :
    (c.offset (-1)).contains p = true ↔ dist2 c.center2x p < ((c.offset (-1)).threshold : Int) :=
  Arc.inner_contains_iff c p

/-! ### every sector / arc point is a circle point (any plane sector) -/

/-- **Sector points lie in the circle.** -/
theorem sector_subset_circle (s : Sector) (p : Pt) (hp : p ∈ s.points) :
    s.toCircle.contains p = true := by
  rw [Sector.points_eq_filter, List.mem_filter] at hp
  exact Sector.contains_imp_circle hp.2
example : (⟨2, 7⟩ : Pt) ∈ (⟨⟨-3, 2⟩, 7, ⟨.intersection, ⟨-1024, 0⟩, ⟨0, 1024⟩⟩⟩ : Sector).points := by decide

theorem sector_points_sublist_circle (s : Sector) (hr : s.toCircle.InRange) :
    s.points.Sublist s.toCircle.points := by
  have e : s.points = s.toCircle.points.filter s.contains := by
    rw [Sector.points_eq_filter, Circle.points_eq_filter hr, List.filter_filter, Sector.boundingBox_eq]
    apply List.filter_congr
    intro p _
    cases h : s.contains p
    · simp
    · simp [Sector.contains_imp_circle h]
  rw [e]
  exact List.filter_sublist

/-- `Arc::points()` is the bounding box filtered by "in the circle, not in `circle.offset(-1)`, in
the plane sector": each point once, row-major. -/
theorem arc_points_eq_filter (a : Arc) : a.points = a.boundingBox.points.filter a.accepts :=
  Arc.points_eq_filter a

theorem arc_points_nodup (a : Arc) : a.points.Nodup := by
  rw [arc_points_eq_filter]; exact (Rect.points_nodup _).filter _

theorem arc_points_row_major (a : Arc) : a.points.Pairwise Pt.rowMajorLt := by
  rw [arc_points_eq_filter]; exact (Rect.points_rowMajor _).filter _

/-- **Arc points lie in the circle**, on its one-pixel inside ring. -/
theorem arc_subset_circle (a : Arc) (p : Pt) (hp : p ∈ a.points) :
    a.toCircle.contains p = true ∧ (a.toCircle.offset (-1)).contains p = false := by
  rw [Arc.points_eq_filter, List.mem_filter] at hp
  have h := hp.2
  unfold Arc.accepts at h
  simp only [Bool.and_eq_true, Bool.not_eq_true'] at h
  exact ⟨h.1.1, h.1.2⟩
example : (⟨3, 5⟩ : Pt) ∈ (⟨⟨-3, 2⟩, 7, ⟨.intersection, ⟨-1024, 0⟩, ⟨0, 1024⟩⟩⟩ : Arc).points := by decide

/-- An arc's points are among the sector's points (same circle, same plane sector). -/
theorem arc_subset_sector (a : Arc) (p : Pt) (hp : p ∈ a.points) :
    (⟨a.tl, a.d, a.ps⟩ : Sector).contains p = true := by
  rw [Arc.points_eq_filter, List.mem_filter] at hp
  have h := hp.2
  unfold Arc.accepts at h
  simp only [Bool.and_eq_true, Bool.not_eq_true'] at h
  rw [Sector.contains_iff]
  exact ⟨h.1.1, h.2⟩

/-! ### the angular claim: what is proved, and the full statement -/

section Angular
variable {K : Type} [CommRing K] [LinearOrder K] [IsStrictOrderedRing K]

/-- **Error propagation**: if the integer normal vector `n` is within `eps` (componentwise) of the
exact scaled normal `N`, the signed distance the code computes differs from the exact one by at most
`eps (|dx| + |dy|)`. (`K` any ordered commutative ring — e.g. the reals with
`N = 1024 (-sin t, cos t)`.) -/
theorem sector_distance_error (n : Pt) (N : K × K) (eps : K) (h : NormalWithin n N eps) (delta : Pt) :
    |((PlaneSector.distance n delta : Int) : K) - exactDist N delta| ≤ eps * norm1 delta :=
  distance_error n N eps h delta
example : NormalWithin (K := Int) ⟨-511, 887⟩ (-512, 886) 1 := by
  unfold NormalWithin; decide

/-- Beyond the error margin the code's half-plane tests are the exact ones. -/
theorem sector_halfplane_exact_beyond_margin (n : Pt) (N : K × K) (eps : K) (h : NormalWithin n N eps)
    (delta : Pt) :
    (eps * norm1 delta ≤ exactDist N delta → PlaneSector.checkRight n delta = true) ∧
    (exactDist N delta < -(eps * norm1 delta) → PlaneSector.checkRight n delta = false) ∧
    (exactDist N delta ≤ -(eps * norm1 delta) → PlaneSector.checkLeft n delta = true) ∧
    (eps * norm1 delta < exactDist N delta → PlaneSector.checkLeft n delta = false) :=
  ⟨checkRight_of_margin n N eps h delta, checkRight_false_of_margin n N eps h delta,
   checkLeft_of_margin n N eps h delta, checkLeft_false_of_margin n N eps h delta⟩

/-- **The angular claim, proved part.** If both integer normals are within `eps ≤ 16` (of 1024) of
the exact scaled normals and the pixel belongs to a circle of diameter up to 128, then a pixel at
least 1.5 px (`3 * 1024` in the scale of the normals, doubled coordinates) inside the sweep —
measured from the two boundary LINES — is accepted and a pixel more than 1.5 px outside is rejected,
for `Intersection` (sweep below 180 degrees) and `Union` (from 180 degrees) alike. `hplain` excludes
only the unresolved sweeps (parallel or wrongly ordered, equally directed normals), which
`plane_sector_degenerate_is_ray` covers. What remains [V] is the accuracy `NormalWithin` of the real
trigonometry and the difference between boundary lines and boundary rays near the centre. -/
theorem sector_angular_partial (ps : PlaneSector)
    (hplain : 0 < ps.cross ∨ ps.op ≠ .intersection ∨ dotProduct ps.left ps.right ≤ 0)
    (Nl Nr : K × K) (eps : K) (hl : NormalWithin ps.left Nl eps) (hr : NormalWithin ps.right Nr eps)
    (he : eps ≤ 16) (delta : Pt) (hd : delta.x * delta.x + delta.y * delta.y < 128 * 128) :
    (ps.op = .intersection →
      (exactDist Nl delta ≤ -3072 ∧ 3072 ≤ exactDist Nr delta → ps.contains delta = true) ∧
      (3072 < exactDist Nl delta ∨ exactDist Nr delta < -3072 → ps.contains delta = false)) ∧
    (ps.op = .union →
      (exactDist Nl delta ≤ -3072 ∨ 3072 ≤ exactDist Nr delta → ps.contains delta = true) ∧
      (3072 < exactDist Nl delta ∧ exactDist Nr delta < -3072 → ps.contains delta = false)) := by
  have e : ps.contains delta = ps.containsPlain delta := by
    rcases hplain with h | h
    · exact PlaneSector.contains_eq_plain_of_cross_pos ps h delta
    · exact PlaneSector.contains_eq_plain_of_dot_nonpos ps h delta
  rw [e]
  exact containsPlain_of_margin ps Nl Nr eps 3072 hl hr delta (margin_le_3072 ps.left Nl eps hl he delta hd)
example : 0 < (⟨.intersection, ⟨-989, 264⟩, ⟨-511, 887⟩⟩ : PlaneSector).cross ∧
    NormalWithin (K := Int) ⟨-989, 264⟩ (-989, 265) 1 ∧ NormalWithin (K := Int) ⟨-511, 887⟩ (-512, 886) 1 ∧
    (1 : Int) ≤ 16 ∧ ((40 : Int) * 40 + 37 * 37 < 128 * 128) := by
  unfold NormalWithin; decide

end Angular

/-- The bisector test of the (repaired) `PlaneSector::contains` is implied by the two half-plane
tests whenever the normals are not parallel and correctly oriented: `contains` is then exactly the
intersection / union of the two half planes. -/
theorem plane_sector_bisector_implied (ps : PlaneSector) (hc : 0 < ps.cross) (p : Pt) :
    ps.contains p = ps.op.execute (PlaneSector.checkLeft ps.left p) (PlaneSector.checkRight ps.right p) :=
  PlaneSector.contains_eq_plain_of_cross_pos ps hc p
example : 0 < (⟨.intersection, ⟨-989, 264⟩, ⟨-511, 887⟩⟩ : PlaneSector).cross := by decide

/-- A degenerate sweep (0, or too small to be resolved: equal normals) is the forward RAY: on the
common boundary line and not behind the centre. (Before the repair in `PlaneSector::contains` it
was the whole line: witness `sector.points 0 0 5 0 0 ..` in corpus/C18.ops.) -/
theorem plane_sector_degenerate_is_ray (ps : PlaneSector) (hop : ps.op = .intersection)
    (hpar : ps.left = ps.right) (hnz : ps.left ≠ ⟨0, 0⟩) (p : Pt) :
    ps.contains p = true ↔ dotProduct p ps.left = 0 ∧ 0 ≤ dotProduct p ⟨ps.left.y, -ps.left.x⟩ :=
  PlaneSector.contains_parallel_iff ps hop hpar hnz p
example : (⟨.intersection, ⟨0, 1024⟩, ⟨0, 1024⟩⟩ : PlaneSector).contains ⟨4, 0⟩ = true ∧
    (⟨.intersection, ⟨0, 1024⟩, ⟨0, 1024⟩⟩ : PlaneSector).contains ⟨-4, 0⟩ = false := by decide

namespace SectorAngle   -- (sub-namespace: keeps the short geometric names out of `EG.C18`)
section Claim
variable (K : Type) [CommRing K] [LinearOrder K] [IsStrictOrderedRing K]

/-- Exact geometry of a sweep of less than a full turn, in screen coordinates (x right, y down):
the operation `PlaneSector::new` chooses (`Intersection` below 180 degrees, `Union` from 180) and the
unit direction vectors of the two boundary rays — `ur` the ray whose RIGHT side is swept (the start
ray of a positive sweep), `ul` the ray whose LEFT side is swept. -/
structure ExactSweep where
  op : PlaneOp
  ur : K × K
  ul : K × K

variable {K}

def crossK (a b : K × K) : K := a.1 * b.2 - a.2 * b.1
def dotK (delta : Pt) (u : K × K) : K := (delta.x : K) * u.1 + (delta.y : K) * u.2
/-- `rotate_90` -/
def rot90 (u : K × K) : K × K := (-u.2, u.1)

/-- Unit vectors; `cross(ur, ul) = sin(sweep)` has the sign the operation implies, and vanishes only
for sweep 0 (`ul = ur`) resp. 180 degrees (`ul = -ur`). -/
def ExactSweep.Valid (E : ExactSweep K) : Prop :=
  E.ur.1 * E.ur.1 + E.ur.2 * E.ur.2 = 1 ∧ E.ul.1 * E.ul.1 + E.ul.2 * E.ul.2 = 1 ∧
  (E.op = .intersection ∧ 0 ≤ crossK E.ur E.ul ∧ (crossK E.ur E.ul = 0 → E.ul = E.ur) ∨
   E.op = .union ∧ crossK E.ur E.ul ≤ 0 ∧ (crossK E.ur E.ul = 0 → E.ul = (-E.ur.1, -E.ur.2)))

/-- The pixel centre `delta` (doubled coordinates relative to the centre) is inside the sweep. -/
def ExactSweep.inside (E : ExactSweep K) (delta : Pt) : Prop :=
  match E.op with
  | .intersection =>
    dotK delta (rot90 E.ul) ≤ 0 ∧ 0 ≤ dotK delta (rot90 E.ur) ∧ 0 ≤ dotK delta (E.ul.1 + E.ur.1, E.ul.2 + E.ur.2)
  | .union => dotK delta (rot90 E.ul) ≤ 0 ∨ 0 ≤ dotK delta (rot90 E.ur)
  | .entirePlane => True

/-- `delta` is within `tol` (half-pixel units) of the boundary RAY with unit direction `u`. -/
def nearRay (u : K × K) (tol : K) (delta : Pt) : Prop :=
  (0 ≤ dotK delta u ∧ |dotK delta (rot90 u)| ≤ tol) ∨
    (delta.x : K) * (delta.x : K) + (delta.y : K) * (delta.y : K) ≤ tol * tol

/-- **The angular claim of C18**, with the accuracy of the trigonometry as the explicit hypothesis
`NormalWithin`: for normals within `eps` of the exact scaled normals `1024 * rotate_90(u)` and every
pixel of a circle of diameter up to 128 (`|delta|^2 < 128^2`), a pixel the plane sector accepts is
inside the sweep or within `tol` of a boundary ray, and a pixel inside the sweep and further than
`tol` from both boundary rays is accepted. `tol = 3` is the property's 1.5 px. Not proved: [V]. -/
def AngularClaim (eps tol : K) : Prop :=
  ∀ (E : ExactSweep K), E.Valid → ∀ (ps : PlaneSector), ps.op = E.op →
    NormalWithin ps.left (1024 * (rot90 E.ul).1, 1024 * (rot90 E.ul).2) eps →
    NormalWithin ps.right (1024 * (rot90 E.ur).1, 1024 * (rot90 E.ur).2) eps →
    ∀ (delta : Pt), delta.x * delta.x + delta.y * delta.y < 128 * 128 →
      (ps.contains delta = true → E.inside delta ∨ nearRay E.ul tol delta ∨ nearRay E.ur tol delta) ∧
      (E.inside delta → ¬ nearRay E.ul tol delta → ¬ nearRay E.ur tol delta → ps.contains delta = true)

end Claim
end SectorAngle

end EG.C18
