/-
  C18 (sector / arc part, `fixed_point` build) — "Arc and sector points lie in the circle and inside
  the swept angle up to 1.5 pixels at its radial boundaries, and every circle point further than that
  inside the sweep is included (diameters up to 128), in both the floating-point and the `fixed_point`
  build."

  For the `fixed_point` build the trigonometry is integer arithmetic and is INSIDE the model:
  `EG.Model.FixedReal` (I16F16 as bits, the checked build's panics as `none`), `EG.Model.FixedTrig`
  (`Angle`, the 91-entry sine table regenerated from the source by tools/tr_trig.py, `sin`, `cos`,
  `OriginLinearEquation::with_angle`), `EG.Model.PlaneSectorNew` (`PlaneSector::new`, the bevel
  selection of the styled sector), tied to the real code by the streams `sector.consts`,
  `sector.trig`, `sector.fxpoints` (fixed_point harness build). The theorems below quantify over ALL
  raw angles (I16F16 bits, `Angle::verif_raw`); none has a hypothesis about trigonometry.

  "Ideal ray" here: the ray from the centre in the TABLE direction `(cosT k, sinT k)` of the whole
  degree `k` the code rounds the boundary angle to (`sinT`, `cosT`: the table values, I16F16 bits,
  exact rationals `/ 65536`). Distances `Fx.tableDist k delta` are in units of 1/65536 half pixel:
  1.5 px = 196608. Tolerances proved, relative to these rays, for every pixel of a circle of diameter
  up to 128: 1.23 px (161290) for every raw angle, 0.087 px (11403) unless the cosine's degree is off
  by one (`Fx.deg_shift`: `cos` adds the I16F16 constant for 90 degrees before rounding to whole
  degrees, which rounds roughly one raw angle in a few thousand — those within 0.0002 degrees below `k + 1/2` —
  to `k + 91`; the normal is then built from `sin k` and `cos (k + 1)`).
  Relative to the EXACT boundary lines of the raw angles one must add the rounding to whole degrees
  — up to half a degree (`fixed_degree_nearest`), i.e. 64 px * sin 0.5 degrees = 0.56 px at the rim of a
  diameter-128 circle — and the accuracy of the table: that is done, with `Real.sin` / `Real.cos`, in
  EG/Props/C18/SineTable.lean (`fixed_normal_exact`: every computed normal within 10.32 of 1024 of the
  exact one; `fixed_sector_angular_exact`: the claim with 1.5 px against the exact lines, every raw
  angle pair). The oracle measures 0.55 px on half-degree angles at d = 127 / 128.

  -- [V] `Angle::from_degrees` / `from_radians` (f32 multiply / divide and `I16F16::from_num`: the relation between a user's degrees and the raw bits) is outside the model: carried by correspondence + oracle only
  -- [V] difference between the boundary LINES (proved, table lines here and exact lines in SineTable.lean) and the boundary RAYS of `SectorAngle.AngularClaim`: the two differ within 1.5/sin(phi/2) px of the centre (phi = the angle between the rays), i.e. for sweeps below ~2 degrees or above ~358 degrees along the whole opposite ray (the region of /repo fix caef12f); fixed_point build: carried by correspondence + oracle only
-/
import EG.Lemmas.FixedTrigSector
import EG.Props.C18.Sector
namespace EG.C18
open EG EG.Generated

/-! ### (a) what the pipeline computes, for every raw angle -/

/-- **Whole-degree rounding.** The degree `k` the code computes for the raw angle `a` (before
`rem_euclid(360)`) is the nearest whole degree of `a * 180 / 205887` (205887 = the code's `PI` in
I16F16 bits), ties away from zero, up to the 1/65536 degree the truncating division loses:
`|180 * 65536 * a - 205887 * 65536 * k| <= 205887 * 32768 + 205886`. -/
theorem fixed_degree_nearest (a k : Int) (h : Fx.degreeOf a = some k) :
    11796480 * a - 13493010432 * k ≤ 6746505216 + 205886 ∧
    -(6746505216 + 205886) ≤ 11796480 * a - 13493010432 * k := by
  by_cases hf : Fx.DegFits a
  · rw [Fx.degreeOf_eq a hf] at h
    rw [← Option.some.inj h]
    exact Fx.deg_nearest a
  · rw [Fx.degreeOf_none a hf] at h; cases h
example : Fx.degreeOf 34315 = some 30 ∧ Fx.degreeOf (-571) = some 0 ∧ Fx.degreeOf (-572) = some (-1) := by decide

/-- The degree is computed unless `Real::from(180) * angle` overflows (`|a| > 11930464` bits, about
182 radians): then the checked build panics. -/
theorem fixed_degree_defined (a : Int) :
    (Fx.degreeOf a).isSome = true ↔ -2147483648 ≤ 180 * a ∧ 180 * a ≤ 2147483647 := by
  by_cases hf : Fx.DegFits a
  · rw [Fx.degreeOf_eq a hf]; simp only [Option.isSome_some, true_iff]; exact hf
  · rw [Fx.degreeOf_none a hf]; simp only [Option.isSome_none, Bool.false_eq_true, false_iff]; exact hf

/-- `sin` and `cos` are table values of whole degrees: `sin a = sinT k`, `cos a = sinT c` with `k` the
degree of `a` and `c` the degree of `a + FRAC_PI_2`, which is `k + 90` or `k + 91`. -/
theorem fixed_sin_cos_table (a s c : Int) (hs : Fx.sin a = some s) (hc : Fx.cos a = some c) :
    ∃ k kc, Fx.degreeOf a = some k ∧ (kc = k + 90 ∨ kc = k + 91) ∧ s = Fx.sinT k ∧ c = Fx.sinT kc := by
  by_cases hf : Fx.DegFits a
  · by_cases hcf : Fx.CosFits a
    · rw [Fx.sin_eq a hf] at hs
      rw [Fx.cos_eq a hcf] at hc
      exact ⟨Fx.deg a, Fx.deg (a + 102944), Fx.degreeOf_eq a hf, Fx.deg_shift a,
        (Option.some.inj hs).symm, (Option.some.inj hc).symm⟩
    · rw [Fx.cos_none a hcf] at hc; cases hc
  · rw [Fx.sin_none a hf] at hs; cases hs
example : Fx.sin 34315 = some 32768 ∧ Fx.cos 34315 = some 56756 := by decide

/-- The first quadrant of `sinT` is the source's table, the rest its mirror images; all values are
within `[-65536, 65536]` (I16F16 one). -/
theorem fixed_table_values :
    (∀ k : Nat, k ≤ 90 → sinTable[k]? = some (Fx.sinT k)) ∧
    (∀ k : Int, Fx.sinT (180 - k) = Fx.sinT k ∧ Fx.sinT (k + 180) = -Fx.sinT k ∧ Fx.sinT (k + 360) = Fx.sinT k ∧
      -65536 ≤ Fx.sinT k ∧ Fx.sinT k ≤ 65536) := by
  exact ⟨by decide +kernel, fun k => ⟨Fx.sinT_reflect k, Fx.sinT_half_turn k, Fx.sinT_congr (by omega), Fx.sinT_bound k⟩⟩

/-- **(a) The normal vector `with_angle` computes**, for every raw angle `a` it does not panic on: with
`k` the whole degree of `a`, the normal is within 63/64 (of 1024) of `1024 * (-sinT k, cosT k)` in its
first component and within 1207/64 = 18.9 in its second — within 63/64 there too when the cosine's
degree is exact. (Scaled by 64 = 65536 / 1024 to stay in integers.) -/
theorem fixed_normal_near_table (a : Int) (n : Pt) (h : Fx.withAngle a = some n) :
    ∃ k, Fx.degreeOf a = some k ∧
      |64 * n.x - -(Fx.sinT k)| ≤ 63 ∧ |64 * n.y - Fx.cosT k| ≤ 1207 ∧
      (Fx.degreeOf (a + 102944) = some (k + 90) → |64 * n.y - Fx.cosT k| ≤ 63) := by
  by_cases hf : Fx.AngleFits a
  · rw [Fx.withAngle_eq a hf] at h
    have hn := (Option.some.inj h).symm
    refine ⟨Fx.deg a, Fx.degreeOf_eq a hf.1, ?_, ?_, ?_⟩
    · rw [hn]; unfold Fx.tableNormal; simp only
      have := Fx.t64_err (Fx.sinT (Fx.deg a))
      rw [abs_le] at this ⊢; constructor <;> omega
    · rw [hn]; unfold Fx.tableNormal Fx.cosT; simp only
      have h1 := Fx.t64_err (Fx.sinT (Fx.deg (a + 102944)))
      rcases Fx.deg_shift a with e | e
      · rw [e] at h1 ⊢; rw [abs_le] at h1 ⊢; constructor <;> omega
      · have h2 := Fx.sinT_step' (Fx.deg a + 90)
        have e' : Fx.deg a + 90 + 1 = Fx.deg (a + 102944) := by omega
        rw [e'] at h2
        rw [abs_le] at h1 h2 ⊢; constructor <;> omega
    · intro hc
      rw [Fx.degreeOf_eq (a + 102944) hf.2] at hc
      have e := Option.some.inj hc
      rw [hn]; unfold Fx.tableNormal Fx.cosT; simp only
      have h1 := Fx.t64_err (Fx.sinT (Fx.deg (a + 102944)))
      rw [e] at h1 ⊢
      exact h1
  · rw [Fx.withAngle_none a hf] at h; cases h
example : Fx.withAngle 34315 = some ⟨-512, 886⟩ ∧ Fx.withAngle 205887 = some ⟨0, -1024⟩ ∧
    Fx.withAngle 11930465 = none := by decide

/-- The cosine's degree really is off by one for some raw angles: 103515 bits (90.49985 degrees)
rounds to 90, its cosine is taken at 90.49985 + 90.00022 -> 181 = 90 + 91: the normal is `(-1024, -17)`
(the exact normal of 90.49985 degrees is `(-1023.96, -8.93)`, the table normal of 90 degrees `(-1024, 0)`). -/
theorem fixed_cos_degree_off_by_one_witness :
    Fx.degreeOf 103515 = some 90 ∧ Fx.degreeOf (103515 + 102944) = some 181 ∧
    Fx.withAngle 103515 = some ⟨-1024, -17⟩ := by decide

/-! ### (c) the operation tag -/

/-- `|sweep|` as the code computes it. -/
def rawAbs (sweep : Int) : Int := Fx.sweepAbs sweep

/-- **Sweeps of 360 degrees or more give the `EntirePlane` tag** (and the two horizontal half planes),
`Union` from 180 degrees, `Intersection` below — at the raw level: 360 degrees = `TAU` = 411775 bits,
180 degrees = `PI` = 205887 bits. -/
theorem fixed_operation_tag (start sweep : Int) (ps : PlaneSector)
    (h : Fx.planeSectorNew start sweep = some ps) :
    (ps.op = .entirePlane ↔ 411775 ≤ rawAbs sweep) ∧
    (411775 ≤ rawAbs sweep → ps = PlaneSector.entire) ∧
    (ps.op = .union ↔ 205887 ≤ rawAbs sweep ∧ rawAbs sweep < 411775) ∧
    (ps.op = .intersection ↔ rawAbs sweep < 205887) := by
  unfold rawAbs
  obtain ⟨h1, h2, _⟩ := Fx.planeSectorNew_some_fits start sweep ps h
  by_cases hw : 411775 ≤ Fx.sweepAbs sweep
  · have := Fx.planeSectorNew_entire start sweep h1 h2 hw
    rw [h] at this
    have e := Option.some.inj this
    rw [e]
    refine ⟨⟨fun _ => hw, fun _ => rfl⟩, fun _ => rfl, ⟨fun hc => (by cases hc), fun hc => (by omega)⟩,
      ⟨fun hc => (by cases hc), fun hc => (by omega)⟩⟩
  · by_cases hne : ps.op = .entirePlane
    · exfalso
      obtain ⟨_, _, h3⟩ := Fx.planeSectorNew_some_fits start sweep ps h
      obtain ⟨hsum, hr, hl⟩ := h3 (by omega)
      have := Fx.planeSectorNew_eq start sweep h1 h2 (by omega) hsum hr hl
      rw [h] at this
      rw [Option.some.inj this] at hne
      simp only at hne
      split at hne <;> cases hne
    · obtain ⟨_, hps⟩ := Fx.planeSectorNew_cases start sweep ps h hne
      have hop : ps.op = if 205887 ≤ Fx.sweepAbs sweep then .union else .intersection := by rw [hps]
      refine ⟨⟨fun hc => absurd hc hne, fun hc => absurd hc hw⟩, fun hc => absurd hc hw, ?_, ?_⟩
      · rw [hop]; constructor
        · intro hc; split at hc
          · omega
          · cases hc
        · intro hc; rw [if_pos hc.1]
      · rw [hop]; constructor
        · intro hc; split at hc
          · cases hc
          · omega
        · intro hc; rw [if_neg (by omega)]
example : Fx.planeSectorNew 0 411775 = some PlaneSector.entire ∧
    Fx.planeSectorNew 34315 (-205887) = some ⟨.union, ⟨-512, 886⟩, ⟨512, -886⟩⟩ ∧
    Fx.planeSectorNew 34315 (-205886) = some ⟨.intersection, ⟨-512, 886⟩, ⟨512, -886⟩⟩ := by decide

/-- A user's `360.0.deg()` (`Angle::from_degrees(360.0)`, evaluated by the translator the way the
fixed_point build does and compared with the real build by `sector.consts`) is 411775 bits = `TAU`:
it reaches the `EntirePlane` arm; so does `(2.0 * PI).into()`, the modulus of `normalize`. -/
theorem fixed_360_degrees_is_tau :
    bevelInteriorHiBits = tauBits ∧ normalizeModBits = tauBits ∧ withAngleSpecialBits = piBits := by decide

/-- **`PlaneSector::new` returns (no panic)** for every start angle up to 11000000 bits (about 26
turns either way) and every sweep up to 800000 bits (almost two turns): the theorems of this file are
about a non-empty set of inputs. Beyond `|angle| = 11930464` bits the checked build panics
(`Real::from(180) * angle` overflows I16F16; `fixed_degree_defined`). -/
theorem fixed_plane_sector_defined (start sweep : Int)
    (hs : -11000000 ≤ start ∧ start ≤ 11000000) (hw : -800000 ≤ sweep ∧ sweep ≤ 800000) :
    (Fx.planeSectorNew start sweep).isSome = true := by
  by_cases hfull : 411775 ≤ Fx.sweepAbs sweep
  · rw [Fx.planeSectorNew_entire start sweep (by omega) (by omega) hfull]; rfl
  · have hb : ∀ a : Int, -11800000 ≤ a → a ≤ 11800000 → Fx.AngleFits a := by
      intro a h1 h2; rw [Fx.angleFits_iff]; omega
    have hr : Fx.AngleFits (Fx.boundaryAngles start sweep).1 := by
      unfold Fx.boundaryAngles; split <;> exact hb _ (by simp only; omega) (by simp only; omega)
    have hl : Fx.AngleFits (Fx.boundaryAngles start sweep).2 := by
      unfold Fx.boundaryAngles; split <;> exact hb _ (by simp only; omega) (by simp only; omega)
    rw [Fx.planeSectorNew_eq start sweep (by omega) (by omega) (by omega) (by omega) hr hl]; rfl

/-- A sector whose plane sector the fixed_point code computed from a sweep of 360 degrees or more
(raw: `|sweep| >= 411775` bits) has exactly the circle's points. -/
theorem fixed_sector_full_eq_circle (tl : Pt) (d : Nat) (start sweep : Int) (ps : PlaneSector)
    (h : Fx.planeSectorNew start sweep = some ps) (hw : 411775 ≤ rawAbs sweep)
    (hr : (⟨tl, d⟩ : Circle).InRange) :
    (⟨tl, d, ps⟩ : Sector).points = (⟨tl, d⟩ : Circle).points :=
  sector_full_eq_circle ⟨tl, d, ps⟩ ((fixed_operation_tag start sweep ps h).1.mpr hw) hr
example : Fx.planeSectorNew 12345 (-500000) = some PlaneSector.entire ∧ 411775 ≤ rawAbs (-500000) ∧
    (⟨⟨-3, 2⟩, 7⟩ : Circle).InRange := by decide

/-! ### (b) the angular claim, no trigonometric hypothesis -/

/-- **The angular claim for the fixed_point build.** `PlaneSector::new(start, sweep)` for ANY raw
angles on which it does not panic, sweep below a full turn; `kr`, `kl` the whole degrees the code
rounds the lower (right) and the upper (left) boundary angle to; `delta` a pixel of a circle of
diameter up to 128 (doubled coordinates from the centre). A pixel at least 1.5 px (196608) inside both
boundary lines of the table directions `kr`, `kl` is accepted, one more than 1.5 px outside is
rejected; `Union` (sweep from 180 degrees) alike. No hypothesis on the normals: their accuracy
(`fixed_normal_near_table`), their orientation (EG.Lemmas.FixedTrigNormals: the bisector test of the
repaired `contains` never interferes) and the unresolved sweeps (boundaries less than two table
degrees apart, where no pixel of such a circle is 1.5 px inside both lines) are all proved. -/
theorem fixed_sector_angular (start sweep : Int) (ps : PlaneSector)
    (h : Fx.planeSectorNew start sweep = some ps) (hne : ps.op ≠ .entirePlane)
    (delta : Pt) (hd : delta.x * delta.x + delta.y * delta.y < 128 * 128) :
    ∃ kr kl, Fx.degreeOf (Fx.boundaryAngles start sweep).1 = some kr ∧
      Fx.degreeOf (Fx.boundaryAngles start sweep).2 = some kl ∧
      (ps.op = .intersection →
        (Fx.tableDist kl delta ≤ -196608 ∧ 196608 ≤ Fx.tableDist kr delta → ps.contains delta = true) ∧
        (196608 < Fx.tableDist kl delta ∨ Fx.tableDist kr delta < -196608 → ps.contains delta = false)) ∧
      (ps.op = .union →
        (Fx.tableDist kl delta ≤ -196608 ∨ 196608 ≤ Fx.tableDist kr delta → ps.contains delta = true) ∧
        (196608 < Fx.tableDist kl delta ∧ Fx.tableDist kr delta < -196608 → ps.contains delta = false)) := by
  obtain ⟨hw, _⟩ := Fx.planeSectorNew_cases start sweep ps h hne
  obtain ⟨_, _, h3⟩ := Fx.planeSectorNew_some_fits start sweep ps h
  obtain ⟨_, hr, hl⟩ := h3 hw
  exact ⟨_, _, Fx.degreeOf_eq _ hr.1, Fx.degreeOf_eq _ hl.1, Fx.fixed_contains_margin start sweep ps h hne delta hd⟩
example : Fx.planeSectorNew 17158 51472 = some ⟨.intersection, ⟨-886, 512⟩, ⟨-265, 989⟩⟩ ∧
    Fx.boundaryAngles 17158 51472 = (17158, 68630) ∧
    Fx.degreeOf 17158 = some 15 ∧ Fx.degreeOf 68630 = some 60 ∧
    Fx.tableDist 60 ⟨40, 37⟩ ≤ -196608 ∧ 196608 ≤ Fx.tableDist 15 ⟨40, 37⟩ ∧
    ((40 : Int) * 40 + 37 * 37 < 128 * 128) := by decide

/-- **The same with tolerance 0.087 px (11403)** when the cosine degrees of both boundary angles are
exact — the truncation of the normal's components to integers is then the only error. -/
theorem fixed_sector_angular_exact_cos (start sweep : Int) (ps : PlaneSector)
    (h : Fx.planeSectorNew start sweep = some ps) (hne : ps.op ≠ .entirePlane)
    (kr kl : Int)
    (hkr : Fx.degreeOf (Fx.boundaryAngles start sweep).1 = some kr)
    (hkl : Fx.degreeOf (Fx.boundaryAngles start sweep).2 = some kl)
    (hcr : Fx.degreeOf ((Fx.boundaryAngles start sweep).1 + 102944) = some (kr + 90))
    (hcl : Fx.degreeOf ((Fx.boundaryAngles start sweep).2 + 102944) = some (kl + 90))
    (delta : Pt) (hd : delta.x * delta.x + delta.y * delta.y < 128 * 128) :
    (ps.op = .intersection →
      (Fx.tableDist kl delta ≤ -11403 ∧ 11403 ≤ Fx.tableDist kr delta → ps.contains delta = true) ∧
      (11403 < Fx.tableDist kl delta ∨ Fx.tableDist kr delta < -11403 → ps.contains delta = false)) ∧
    (ps.op = .union →
      (Fx.tableDist kl delta ≤ -11403 ∨ 11403 ≤ Fx.tableDist kr delta → ps.contains delta = true) ∧
      (11403 < Fx.tableDist kl delta ∧ Fx.tableDist kr delta < -11403 → ps.contains delta = false)) := by
  obtain ⟨hw, _⟩ := Fx.planeSectorNew_cases start sweep ps h hne
  obtain ⟨_, _, h3⟩ := Fx.planeSectorNew_some_fits start sweep ps h
  obtain ⟨_, hr, hl⟩ := h3 hw
  rw [Fx.degreeOf_eq _ hr.1] at hkr
  rw [Fx.degreeOf_eq _ hl.1] at hkl
  rw [Fx.degreeOf_eq _ hr.2] at hcr
  rw [Fx.degreeOf_eq _ hl.2] at hcl
  have e1 := Option.some.inj hkr
  have e2 := Option.some.inj hkl
  have e3 := Option.some.inj hcr
  have e4 := Option.some.inj hcl
  rw [← e1, ← e2]
  exact Fx.fixed_contains_margin_exact_cos start sweep ps h hne (by rw [e3, e1]) (by rw [e4, e2]) delta hd
example : Fx.planeSectorNew 17158 51472 = some ⟨.intersection, ⟨-886, 512⟩, ⟨-265, 989⟩⟩ ∧
    Fx.degreeOf 17158 = some 15 ∧ Fx.degreeOf 68630 = some 60 ∧
    Fx.degreeOf (17158 + 102944) = some (15 + 90) ∧ Fx.degreeOf (68630 + 102944) = some (60 + 90) := by decide

/-- Every pixel of a circle of diameter up to 128 has `|delta|^2 < 128^2`. -/
theorem circle_delta_small (c : Circle) (hd : c.d ≤ 128) (p : Pt) (hc : c.contains p = true) :
    ((⟨p.x * 2, p.y * 2⟩ : Pt) - c.center2x).x * ((⟨p.x * 2, p.y * 2⟩ : Pt) - c.center2x).x +
    ((⟨p.x * 2, p.y * 2⟩ : Pt) - c.center2x).y * ((⟨p.x * 2, p.y * 2⟩ : Pt) - c.center2x).y < 128 * 128 := by
  unfold Circle.contains lengthSquared at hc
  simp only [Pt.sub_x, Pt.sub_y] at hc ⊢
  have hc := of_decide_eq_true hc
  have ht : c.threshold ≤ 128 * 128 := by
    unfold Circle.threshold diameterToThreshold
    have : c.d * c.d ≤ 128 * 128 := Nat.mul_le_mul hd hd
    split <;> omega
  have e : (p.x * 2 - c.center2x.x) * (p.x * 2 - c.center2x.x) + (p.y * 2 - c.center2x.y) * (p.y * 2 - c.center2x.y) =
      (c.center2x.x - p.x * 2) * (c.center2x.x - p.x * 2) + (c.center2x.y - p.y * 2) * (c.center2x.y - p.y * 2) := by ring
  rw [e]
  omega
example : (⟨⟨0, 0⟩, 100⟩ : Circle).d ≤ 128 ∧ (⟨⟨0, 0⟩, 100⟩ : Circle).contains ⟨70, 68⟩ = true := by decide

/-- **Sector level**: for a `Sector` of diameter up to 128 whose plane sector the fixed_point code
computed, a circle point at least 1.5 px inside both table boundary lines is contained (and so is a
point of `points()`), one more than 1.5 px outside is not. -/
theorem fixed_sector_contains_angular (tl : Pt) (d : Nat) (start sweep : Int) (ps : PlaneSector)
    (h : Fx.planeSectorNew start sweep = some ps) (hne : ps.op ≠ .entirePlane) (hd : d ≤ 128)
    (p : Pt) (hc : (⟨tl, d⟩ : Circle).contains p = true) :
    ∃ kr kl, Fx.degreeOf (Fx.boundaryAngles start sweep).1 = some kr ∧
      Fx.degreeOf (Fx.boundaryAngles start sweep).2 = some kl ∧
      (ps.op = .intersection →
        (Fx.tableDist kl ((⟨p.x * 2, p.y * 2⟩ : Pt) - (⟨tl, d⟩ : Circle).center2x) ≤ -196608 ∧
          196608 ≤ Fx.tableDist kr ((⟨p.x * 2, p.y * 2⟩ : Pt) - (⟨tl, d⟩ : Circle).center2x) →
            (⟨tl, d, ps⟩ : Sector).contains p = true) ∧
        (196608 < Fx.tableDist kl ((⟨p.x * 2, p.y * 2⟩ : Pt) - (⟨tl, d⟩ : Circle).center2x) ∨
          Fx.tableDist kr ((⟨p.x * 2, p.y * 2⟩ : Pt) - (⟨tl, d⟩ : Circle).center2x) < -196608 →
            (⟨tl, d, ps⟩ : Sector).contains p = false)) ∧
      (ps.op = .union →
        (Fx.tableDist kl ((⟨p.x * 2, p.y * 2⟩ : Pt) - (⟨tl, d⟩ : Circle).center2x) ≤ -196608 ∨
          196608 ≤ Fx.tableDist kr ((⟨p.x * 2, p.y * 2⟩ : Pt) - (⟨tl, d⟩ : Circle).center2x) →
            (⟨tl, d, ps⟩ : Sector).contains p = true) ∧
        (196608 < Fx.tableDist kl ((⟨p.x * 2, p.y * 2⟩ : Pt) - (⟨tl, d⟩ : Circle).center2x) ∧
          Fx.tableDist kr ((⟨p.x * 2, p.y * 2⟩ : Pt) - (⟨tl, d⟩ : Circle).center2x) < -196608 →
            (⟨tl, d, ps⟩ : Sector).contains p = false)) := by
  have hsmall := circle_delta_small ⟨tl, d⟩ hd p hc
  obtain ⟨kr, kl, h1, h2, hi, hu⟩ := fixed_sector_angular start sweep ps h hne _ hsmall
  have key : ∀ b : Bool, ps.contains ((⟨p.x * 2, p.y * 2⟩ : Pt) - (⟨tl, d⟩ : Circle).center2x) = b →
      (⟨tl, d, ps⟩ : Sector).contains p = b := by
    intro b hb
    have e := Sector.contains_eq (⟨tl, d, ps⟩ : Sector) p
    have hc' : Circle.hit (⟨tl, d⟩ : Circle).center2x (⟨tl, d⟩ : Circle).threshold p.y p.x = true := by
      rw [← Circle.contains_eq_hit]; exact hc
    change (⟨tl, d, ps⟩ : Sector).contains p =
      (Circle.hit (⟨tl, d⟩ : Circle).center2x (⟨tl, d⟩ : Circle).threshold p.y p.x &&
        ps.contains ((⟨p.x * 2, p.y * 2⟩ : Pt) - (⟨tl, d⟩ : Circle).center2x)) at e
    rw [e, hc', hb, Bool.true_and]
  refine ⟨kr, kl, h1, h2, fun ho => ⟨fun hh => key _ ((hi ho).1 hh), fun hh => key _ ((hi ho).2 hh)⟩,
    fun ho => ⟨fun hh => key _ ((hu ho).1 hh), fun hh => key _ ((hu ho).2 hh)⟩⟩
example : Fx.planeSectorNew 17158 51472 = some ⟨.intersection, ⟨-886, 512⟩, ⟨-265, 989⟩⟩ ∧
    (⟨⟨0, 0⟩, 100⟩ : Circle).contains ⟨70, 68⟩ = true ∧
    (⟨70 * 2, 68 * 2⟩ : Pt) - (⟨⟨0, 0⟩, 100⟩ : Circle).center2x = ⟨41, 37⟩ := by decide

end EG.C18
