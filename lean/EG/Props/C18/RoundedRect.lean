/-
  C18 (rounded rectangle part) — corners include a point iff its centre is inside the ideal curve,
  up to a band of half a pixel; every row and column is one contiguous run; radii after
  `confine_radii()` never add up to more than the side they share; the shape equals the rectangle
  for zero radii and the ellipse when the sides are even and every radius is half a side.

  Model: `EG.Model.RoundedRect`. `confine` is modelled as repaired twice (scale by the side with the
  smallest ratio; radius sums computed without saturation), so `confine_fits` holds for ALL radii.
  Doubled coordinates: pixel `p` has centre `p + (1/2, 1/2)`; the ideal corner ellipse has its centre
  at the inner corner of the corner box and semi-axes = the corner radius; `dx2`/`dy2` are the
  squared doubled offsets between the two centres.
-/
import EG.Lemmas.RoundedRectEllipse
import EG.Lemmas.EllipsePoints
namespace EG.C18
open EG EG.RoundedRect

/-! ### `confine_radii` -/

/-- **After `confine` the two radii along each of the four sides add up to at most the side** — for
all radii and sizes (no guard: the sums are exact). -/
theorem confine_fits (c : CornerRadii) (bb : Sz) : (c.confine bb).Fits bb :=
  CornerRadii.confine_fits' c bb

/-- The same for `RoundedRectangle::confine_radii`. -/
theorem confine_radii_fits (r : RoundedRect) : r.confineRadii.corners.Fits r.rect.size :=
  CornerRadii.confine_fits' r.corners r.rect.size

/-- Radii that already fit are unchanged. -/
theorem confine_noop (c : CornerRadii) (bb : Sz) (h : c.Fits bb) : c.confine bb = c :=
  CornerRadii.confine_noop' c bb h
example : (⟨⟨10, 15⟩, ⟨10, 15⟩, ⟨10, 15⟩, ⟨10, 15⟩⟩ : CornerRadii).Fits ⟨20, 30⟩ := by decide

/-- No radius grows. -/
theorem confine_le (c : CornerRadii) (bb : Sz) :
    (c.confine bb).tl.w ≤ c.tl.w ∧ (c.confine bb).tl.h ≤ c.tl.h ∧
    (c.confine bb).tr.w ≤ c.tr.w ∧ (c.confine bb).tr.h ≤ c.tr.h ∧
    (c.confine bb).br.w ≤ c.br.w ∧ (c.confine bb).br.h ≤ c.br.h ∧
    (c.confine bb).bl.w ≤ c.bl.w ∧ (c.confine bb).bl.h ≤ c.bl.h :=
  CornerRadii.confine_le' c bb

/-- `confine` is idempotent. -/
theorem confine_idempotent (c : CornerRadii) (bb : Sz) : (c.confine bb).confine bb = c.confine bb :=
  CornerRadii.confine_confine c bb

/-- The witnesses of the two repaired defects (largest absolute overlap; radius sums above
`u32::MAX`) and the unit test of corner_radii.rs, evaluated on the model. -/
theorem confine_witnesses :
    (⟨⟨60, 12⟩, ⟨60, 0⟩, ⟨0, 0⟩, ⟨0, 13⟩⟩ : CornerRadii).confine ⟨100, 10⟩ =
      ⟨⟨24, 4⟩, ⟨24, 0⟩, ⟨0, 0⟩, ⟨0, 5⟩⟩ ∧
    (CornerRadii.new ⟨4294967295, 4294967295⟩).confine ⟨100, 100⟩ = CornerRadii.new ⟨50, 50⟩ ∧
    (⟨⟨10, 20⟩, ⟨10, 15⟩, ⟨18, 15⟩, ⟨10, 15⟩⟩ : CornerRadii).confine ⟨20, 30⟩ =
      ⟨⟨7, 14⟩, ⟨7, 10⟩, ⟨12, 10⟩, ⟨7, 10⟩⟩ := by decide

/-! ### zero radii: the rectangle -/

/-- **With all radii zero the rounded rectangle is the rectangle**: same `contains`, same
`points()`. -/
theorem zero_radii_eq_rectangle (rect : Rect) (h : rect.InRange) :
    (∀ p, (⟨rect, CornerRadii.zero⟩ : RoundedRect).contains p = rect.contains p) ∧
    (⟨rect, CornerRadii.zero⟩ : RoundedRect).points = rect.points :=
  ⟨RoundedRect.zero_contains rect h, RoundedRect.zero_points rect h⟩
example : (⟨⟨-3, 2⟩, ⟨7, 5⟩⟩ : Rect).InRange := by decide

/-! ### straight part and corners -/

/-- A point of the bounding box outside the corner boxes of its row is inside the shape. -/
theorem rrect_straight_part_full (r : RoundedRect) (h : r.InRange) (p : Pt)
    (hb : r.boundingBox.contains p = true)
    (hl : ∀ q, (RRContains.new r).leftCorner p.y = some q → q.colsEnd ≤ p.x)
    (hr : ∀ q, (RRContains.new r).rightCorner p.y = some q → p.x < q.colsStart) :
    r.contains p = true :=
  RoundedRect.contains_straight r h p hb hl hr
example : let r : RoundedRect := ⟨⟨⟨0, 0⟩, ⟨8, 6⟩⟩, CornerRadii.new ⟨2, 2⟩⟩
    r.InRange ∧ r.boundingBox.contains ⟨3, 0⟩ = true ∧
    (∀ q, (RRContains.new r).leftCorner 0 = some q → q.colsEnd ≤ 3) ∧
    (∀ q, (RRContains.new r).rightCorner 0 = some q → 3 < q.colsStart) := by
  refine ⟨by decide, by decide, ?_, ?_⟩
  · intro q hq
    have : (RRContains.new ⟨⟨⟨0, 0⟩, ⟨8, 6⟩⟩, CornerRadii.new ⟨2, 2⟩⟩).leftCorner 0 =
      some (EllipseQuadrant.new ⟨0, 0⟩ ⟨2, 2⟩ .topLeft) := by decide
    rw [this] at hq; cases hq; decide
  · intro q hq
    have : (RRContains.new ⟨⟨⟨0, 0⟩, ⟨8, 6⟩⟩, CornerRadii.new ⟨2, 2⟩⟩).rightCorner 0 =
      some (EllipseQuadrant.new ⟨6, 0⟩ ⟨2, 2⟩ .topRight) := by decide
    rw [this] at hq; cases hq; decide

/-- **In the corner boxes membership is the corner ellipse test**: a point of the bounding box is
inside iff the left corner of its row accepts it (if the point lies in that corner's columns) and
the right corner of its row accepts it (likewise) — both, when the boxes of opposite corners
overlap. -/
theorem rrect_contains_corners (r : RoundedRect) (h : r.InRange) (p : Pt)
    (hb : r.boundingBox.contains p = true) :
    r.contains p = true ↔
      (∀ q, (RRContains.new r).leftCorner p.y = some q → p.x < q.colsEnd → q.contains p = true) ∧
      (∀ q, (RRContains.new r).rightCorner p.y = some q → q.colsStart ≤ p.x → q.contains p = true) :=
  RoundedRect.contains_corners r h p hb
example : (⟨⟨⟨0, 0⟩, ⟨8, 6⟩⟩, CornerRadii.new ⟨2, 2⟩⟩ : RoundedRect).boundingBox.contains ⟨0, 0⟩ = true := by
  decide

/-- **Elliptic corner (`rw ≠ rh`): included iff the pixel centre is strictly inside the ideal
quarter ellipse** with semi-axes `rw`, `rh` centred at the inner corner of the corner box. -/
theorem corner_contains_iff_ideal_ellipse (tl : Pt) (r : Sz) (k : Quadrant) (hw : 1 ≤ r.w)
    (hh : 1 ≤ r.h) (hne : r.w ≠ r.h) (p : Pt) :
    (EllipseQuadrant.new tl r k).contains p = true ↔
      (r.h * 2) ^ 2 * EllipseQuadrant.dx2 tl r k p + (r.w * 2) ^ 2 * EllipseQuadrant.dy2 tl r k p <
        (r.h * 2) ^ 2 * (r.w * 2) ^ 2 :=
  EllipseQuadrant.contains_iff_ideal_ellipse tl r k hw hh hne p
example : (1 : Nat) ≤ (⟨3, 5⟩ : Sz).w ∧ (1 : Nat) ≤ (⟨3, 5⟩ : Sz).h ∧ (⟨3, 5⟩ : Sz).w ≠ (⟨3, 5⟩ : Sz).h := by
  decide

/-- **Circular corner of radius > 2: included iff the pixel centre is strictly inside the ideal
quarter circle.** -/
theorem corner_contains_iff_ideal_circle (tl : Pt) (r : Sz) (k : Quadrant) (he : r.w = r.h)
    (h2 : 2 < r.w) (p : Pt) :
    (EllipseQuadrant.new tl r k).contains p = true ↔
      EllipseQuadrant.dx2 tl r k p + EllipseQuadrant.dy2 tl r k p < (r.w * 2) ^ 2 :=
  EllipseQuadrant.contains_iff_ideal_circle tl r k he h2 p
example : (⟨3, 3⟩ : Sz).w = (⟨3, 3⟩ : Sz).h ∧ 2 < (⟨3, 3⟩ : Sz).w := by decide

/-- **Circular corners of radius 1 and 2** use the thresholds 3 and 14 instead of the ideal 4 and
16 (the small-circle special cases): the offsets are odd, so for radius 1 the test accepts exactly
`dx2 + dy2 = 2 < 4` — the ideal set — and for radius 2 it drops only `dx2 + dy2 ∈ {14, 15}`, which no
pair of odd squares reaches below 16 except `9 + 9 = 18 > 16`; i.e. also exactly the ideal set. -/
theorem corner_contains_iff_small_circle (tl : Pt) (r : Sz) (k : Quadrant) (he : r.w = r.h)
    (h1 : 1 ≤ r.w) (h2 : r.w ≤ 2) (p : Pt) :
    (EllipseQuadrant.new tl r k).contains p = true ↔
      EllipseQuadrant.dx2 tl r k p + EllipseQuadrant.dy2 tl r k p < (if r.w = 1 then 3 else 14) :=
  EllipseQuadrant.contains_iff_small_circle tl r k he h1 h2 p
example : (⟨2, 2⟩ : Sz).w = (⟨2, 2⟩ : Sz).h ∧ 1 ≤ (⟨2, 2⟩ : Sz).w ∧ (⟨2, 2⟩ : Sz).w ≤ 2 := by decide

/-! ### contiguity -/

/-- **Every row of a rounded rectangle is one contiguous run.** -/
theorem rrect_rows_contiguous (r : RoundedRect) (h : r.InRange) (y x1 x2 x : Int)
    (h1 : r.contains ⟨x1, y⟩ = true) (h2 : r.contains ⟨x2, y⟩ = true) (hx : x1 ≤ x ∧ x ≤ x2) :
    r.contains ⟨x, y⟩ = true :=
  RoundedRect.row_contiguous r h y x1 x2 x h1 h2 hx
example : let r : RoundedRect := ⟨⟨⟨0, 0⟩, ⟨8, 6⟩⟩, CornerRadii.new ⟨2, 2⟩⟩
    r.InRange ∧ r.contains ⟨1, 0⟩ = true ∧ r.contains ⟨6, 0⟩ = true := by decide

/-- **Every column of a rounded rectangle is one contiguous run.** -/
theorem rrect_columns_contiguous (r : RoundedRect) (h : r.InRange) (x y1 y2 y : Int)
    (h1 : r.contains ⟨x, y1⟩ = true) (h2 : r.contains ⟨x, y2⟩ = true) (hy : y1 ≤ y ∧ y ≤ y2) :
    r.contains ⟨x, y⟩ = true :=
  RoundedRect.column_contiguous r h x y1 y2 y h1 h2 hy
example : let r : RoundedRect := ⟨⟨⟨0, 0⟩, ⟨8, 6⟩⟩, CornerRadii.new ⟨2, 2⟩⟩
    r.InRange ∧ r.contains ⟨0, 1⟩ = true ∧ r.contains ⟨0, 4⟩ = true := by decide

/-! ### even sides, every radius half a side: the ellipse -/

/-- `ellipseTest` (the local name used by the lemmas) IS `Ellipse::contains` of the modelled ellipse
with the same bounding box. -/
theorem ellipseTest_eq_ellipse_contains (tl : Pt) (a b : Nat) (p : Pt) :
    ellipseTest tl a b p = (⟨tl, ⟨a * 2, b * 2⟩⟩ : Ellipse).contains p := by
  unfold ellipseTest Ellipse.contains Ellipse.center2x EllipseQuadrant.ellipseCenter2x
  rfl

/-- **`half_radii_eq_ellipse`**: with sides `2a x 2b` and every corner radius `(a, b)` the rounded
rectangle is the modelled `Ellipse` with the same bounding box: `contains` agrees at EVERY point
(inside the box by the corner-quadrant argument, outside it both are false), and `points()` is the
same list as `Ellipse::points()` (same points, same order). -/
theorem half_radii_eq_ellipse (tl : Pt) (a b : Nat) (h : (halfRadii tl a b).InRange) :
    (∀ p, (halfRadii tl a b).contains p = (⟨tl, ⟨a * 2, b * 2⟩⟩ : Ellipse).contains p) ∧
    (halfRadii tl a b).points = (⟨tl, ⟨a * 2, b * 2⟩⟩ : Ellipse).points := by
  have he : (⟨tl, ⟨a * 2, b * 2⟩⟩ : Ellipse).InRange := h
  have hin : ∀ p, (halfRadii tl a b).boundingBox.contains p = true →
      (halfRadii tl a b).contains p = (⟨tl, ⟨a * 2, b * 2⟩⟩ : Ellipse).contains p := fun p hb => by
    rw [← ellipseTest_eq_ellipse_contains]; exact half_radii_contains tl a b h p hb
  refine ⟨fun p => ?_, ?_⟩
  · by_cases hb : (halfRadii tl a b).boundingBox.contains p = true
    · exact hin p hb
    · have h1 : (halfRadii tl a b).contains p = false := by
        cases hc : (halfRadii tl a b).contains p with
        | false => rfl
        | true => exact absurd (RoundedRect.contains_imp_bbox _ h hc) hb
      have h2 : (⟨tl, ⟨a * 2, b * 2⟩⟩ : Ellipse).contains p = false := by
        cases hc : (⟨tl, ⟨a * 2, b * 2⟩⟩ : Ellipse).contains p with
        | false => rfl
        | true => exact absurd (Ellipse.contains_imp_bbox hc) hb
      rw [h1, h2]
  · rw [RoundedRect.points_eq_filter _ h, Ellipse.points_eq_filter he]
    apply List.filter_congr
    intro p hp
    exact hin p ((Rect.mem_points h).mp hp)
example : (halfRadii ⟨-3, 2⟩ 4 3).InRange := by decide
example : (halfRadii ⟨-3, 2⟩ 4 3).points = (⟨⟨-3, 2⟩, ⟨8, 6⟩⟩ : Ellipse).points ∧
    (halfRadii ⟨-3, 2⟩ 4 3).points.length ≥ 20 := by decide

-- (closed) the band of half a pixel stated with grown / shrunk semi-axes is proved from the exact ideal-ellipse theorems above, for every corner and for the whole shape, in Props/C18/RoundedRectBand.lean (`corner_band_outer`, `corner_band_inner`, `rrect_band_outer`, `rrect_band_inner`); the oracle evaluates the same +-1/2 band on the real code
end EG.C18
