/-
  C18 (circle part) — a circle includes a point iff the pixel's centre is inside the ideal curve,
  up to a band of half a pixel; it is mirror-symmetric about its centre lines; every row and column
  is one contiguous run; it touches all four sides of its bounding box.

  Doubled coordinates: pixel `p` has centre `p + (1/2, 1/2)`, the ideal circle has centre
  `top_left + (d/2, d/2)` and radius `d/2`; `idealDist2 c p` is 4 x the squared distance between the
  two centres, so "strictly inside the ideal circle" is `idealDist2 c p < d * d`.
-/
import EG.Lemmas.CirclePoints
namespace EG.C18
open EG EG.Circle

/-- 4 x squared distance between the centre of pixel `p` and the centre of the ideal circle. -/
def idealDist2 (c : Circle) (p : Pt) : Int :=
  (p.x * 2 + 1 - (c.tl.x * 2 + c.d)) * (p.x * 2 + 1 - (c.tl.x * 2 + c.d)) +
  (p.y * 2 + 1 - (c.tl.y * 2 + c.d)) * (p.y * 2 + 1 - (c.tl.y * 2 + c.d))

theorem idealDist2_eq (c : Circle) (hd : 1 ≤ c.d) (p : Pt) : idealDist2 c p = dist2 c.center2x p := by
  unfold idealDist2 dist2
  rw [center2x_x, center2x_y]
  have e1 : p.x * 2 + 1 - (c.tl.x * 2 + (c.d : Int)) = p.x * 2 - (c.tl.x * 2 + ((c.d - 1 : Nat) : Int)) := by omega
  have e2 : p.y * 2 + 1 - (c.tl.y * 2 + (c.d : Int)) = p.y * 2 - (c.tl.y * 2 + ((c.d - 1 : Nat) : Int)) := by omega
  rw [e1, e2]
example : 1 ≤ (⟨⟨-3, 2⟩, 7⟩ : Circle).d := by decide

/-- Membership is the threshold test on the ideal distance (every diameter >= 1). -/
theorem circle_contains_iff_threshold (c : Circle) (hd : 1 ≤ c.d) (p : Pt) :
    c.contains p = true ↔ idealDist2 c p < (diameterToThreshold c.d : Int) := by
  rw [idealDist2_eq c hd, contains_iff]; rfl

/-- **For `d > 4` membership is exactly "pixel centre strictly inside the ideal circle".** -/
theorem circle_contains_iff_ideal (c : Circle) (hd : 4 < c.d) (p : Pt) :
    c.contains p = true ↔ idealDist2 c p < (c.d : Int) * (c.d : Int) := by
  rw [circle_contains_iff_threshold c (by omega), threshold_of_gt4 hd]
  push_cast; rfl
example : 4 < (⟨⟨-3, 2⟩, 7⟩ : Circle).d := by decide

/-- The special thresholds of the four small diameters (`d*d - d/2`). -/
theorem circle_small_thresholds :
    diameterToThreshold 0 = 0 ∧ diameterToThreshold 1 = 1 ∧ diameterToThreshold 2 = 3 ∧
    diameterToThreshold 3 = 8 ∧ diameterToThreshold 4 = 14 := by decide

/-- **Band of half a pixel, all diameters** (outer edge): an included pixel's centre is strictly
inside the ideal circle. -/
theorem circle_band_outer (c : Circle) (p : Pt) (h : c.contains p = true) :
    idealDist2 c p < (c.d : Int) * (c.d : Int) := by
  have hb := contains_imp_box h
  have hd : 1 ≤ c.d := by omega
  rw [circle_contains_iff_threshold c hd] at h
  have := threshold_le_sq c.d
  have : ((diameterToThreshold c.d : Nat) : Int) ≤ (c.d : Int) * (c.d : Int) := by exact_mod_cast this
  omega
example : (⟨⟨-3, 2⟩, 3⟩ : Circle).contains ⟨-2, 3⟩ = true := by decide

/-- **Band of half a pixel, all diameters** (inner edge): every pixel whose centre is within
`radius - 1/2` of the centre (`idealDist2 <= (d-1)^2`) is included. -/
theorem circle_band_inner (c : Circle) (hd : 1 ≤ c.d) (p : Pt)
    (h : idealDist2 c p ≤ ((c.d : Int) - 1) * ((c.d : Int) - 1)) : c.contains p = true := by
  rw [circle_contains_iff_threshold c hd]
  have := inner_lt_threshold hd
  have e : (((c.d - 1) * (c.d - 1) : Nat) : Int) = ((c.d : Int) - 1) * ((c.d : Int) - 1) := by
    push_cast [Nat.cast_sub hd]; rfl
  omega
example : idealDist2 ⟨⟨-3, 2⟩, 3⟩ ⟨-2, 3⟩ ≤ ((3 : Int) - 1) * ((3 : Int) - 1) := by decide

/-- A circle of diameter 0 has no points. -/
theorem circle_zero_empty (c : Circle) (h : c.d = 0) (p : Pt) : c.contains p = false :=
  contains_false_of_zero h p
example : (⟨⟨-3, 2⟩, 0⟩ : Circle).d = 0 := rfl

/-- Mirror symmetry about the vertical centre line: `x ↦ left + right - x`. -/
theorem circle_mirror_x (c : Circle) (x y : Int) :
    c.contains ⟨c.tl.x + (c.tl.x + c.d - 1) - x, y⟩ = c.contains ⟨x, y⟩ := by
  by_cases hd : c.d = 0
  · rw [contains_false_of_zero hd, contains_false_of_zero hd]
  · rw [← contains_mirror_x c x y]
    congr 2
    rw [center2x_x]; omega

/-- Mirror symmetry about the horizontal centre line: `y ↦ top + bottom - y`. -/
theorem circle_mirror_y (c : Circle) (x y : Int) :
    c.contains ⟨x, c.tl.y + (c.tl.y + c.d - 1) - y⟩ = c.contains ⟨x, y⟩ := by
  by_cases hd : c.d = 0
  · rw [contains_false_of_zero hd, contains_false_of_zero hd]
  · rw [← contains_mirror_y c x y]
    congr 2
    rw [center2x_y]; omega

/-- Every row is one contiguous run. -/
theorem circle_rows_contiguous (c : Circle) (y x1 x x2 : Int) (h1 : c.contains ⟨x1, y⟩ = true)
    (h2 : c.contains ⟨x2, y⟩ = true) (hx1 : x1 ≤ x) (hx2 : x ≤ x2) : c.contains ⟨x, y⟩ = true :=
  contains_convex_row h1 h2 hx1 hx2
example : (⟨⟨0, 0⟩, 5⟩ : Circle).contains ⟨0, 1⟩ = true ∧ (⟨⟨0, 0⟩, 5⟩ : Circle).contains ⟨4, 1⟩ = true := by
  decide

/-- Every column is one contiguous run. -/
theorem circle_columns_contiguous (c : Circle) (x y1 y y2 : Int) (h1 : c.contains ⟨x, y1⟩ = true)
    (h2 : c.contains ⟨x, y2⟩ = true) (hy1 : y1 ≤ y) (hy2 : y ≤ y2) : c.contains ⟨x, y⟩ = true :=
  contains_convex_col h1 h2 hy1 hy2
example : (⟨⟨0, 0⟩, 5⟩ : Circle).contains ⟨1, 0⟩ = true ∧ (⟨⟨0, 0⟩, 5⟩ : Circle).contains ⟨1, 4⟩ = true := by
  decide

/-- Every row of the bounding box is a non-empty centred run `l..u` (and every other row is
empty, by `C05.circle_contains_inside_bbox`). -/
theorem circle_row_is_centred_run (c : Circle) (y : Int) (h1 : c.tl.y ≤ y) (h2 : y < c.tl.y + c.d) :
    ∃ l u, c.tl.x ≤ l ∧ l < u ∧ u ≤ c.tl.x + c.d ∧ l + u = c.tl.x + (c.tl.x + c.d) ∧
      (∀ x, c.contains ⟨x, y⟩ = true ↔ l ≤ x ∧ x < u) := by
  obtain ⟨l, u, _, h⟩ := Circle.row_hits_interval h1 h2
  exact ⟨l, u, h⟩
example : (⟨⟨0, 0⟩, 5⟩ : Circle).tl.y ≤ 2 ∧ (2 : Int) < (⟨⟨0, 0⟩, 5⟩ : Circle).tl.y + 5 := by decide

/-- Every column of the bounding box is a non-empty centred run. -/
theorem circle_column_is_centred_run (c : Circle) (x : Int) (h1 : c.tl.x ≤ x) (h2 : x < c.tl.x + c.d) :
    ∃ l u, c.tl.y ≤ l ∧ l < u ∧ u ≤ c.tl.y + c.d ∧ l + u = c.tl.y + (c.tl.y + c.d) ∧
      (∀ y, c.contains ⟨x, y⟩ = true ↔ l ≤ y ∧ y < u) :=
  Circle.column_hits_interval h1 h2
example : (⟨⟨0, 0⟩, 5⟩ : Circle).tl.x ≤ 2 ∧ (2 : Int) < (⟨⟨0, 0⟩, 5⟩ : Circle).tl.x + 5 := by decide

/-- **A circle (d >= 1) touches all four sides of its bounding box**: the top and bottom rows
and the left and right columns of the box each contain an accepted point (and no accepted point
lies outside the box, `C05.circle_contains_inside_bbox`). -/
theorem circle_touches_sides (c : Circle) (hd : 1 ≤ c.d) :
    c.contains ⟨c.tl.x + ((c.d - 1) / 2 : Nat), c.tl.y⟩ = true ∧
    c.contains ⟨c.tl.x + ((c.d - 1) / 2 : Nat), c.tl.y + c.d - 1⟩ = true ∧
    c.contains ⟨c.tl.x, c.tl.y + ((c.d - 1) / 2 : Nat)⟩ = true ∧
    c.contains ⟨c.tl.x + c.d - 1, c.tl.y + ((c.d - 1) / 2 : Nat)⟩ = true :=
  ⟨center_col_hit (by omega) (by omega), center_col_hit (by omega) (by omega),
   center_row_hit (by omega) (by omega), center_row_hit (by omega) (by omega)⟩
example : 1 ≤ (⟨⟨-3, 2⟩, 1⟩ : Circle).d := by decide

end EG.C18
