/-
  C18 (ellipse part) — an ellipse includes a point iff the pixel's centre is inside the ideal
  curve; it is mirror-symmetric about its centre lines; every row and column is one contiguous
  run; an ellipse with equal axes is the circle of that diameter.

  Doubled coordinates: pixel `p` has centre `p + (1/2, 1/2)`, the ideal ellipse has centre
  `top_left + (w/2, h/2)` and half-axes `w/2`, `h/2`; with `dx = 2 p.x + 1 - (2 left + w)`,
  `dy = 2 p.y + 1 - (2 top + h)` "strictly inside the ideal ellipse" `(dx/w)^2 + (dy/h)^2 < 1` is
  `h^2 dx^2 + w^2 dy^2 < w^2 h^2`.
-/
import EG.Lemmas.EllipsePoints
namespace EG.C18
open EG EG.Ellipse

def ellipseDx (e : Ellipse) (p : Pt) : Int := p.x * 2 + 1 - (e.tl.x * 2 + e.size.w)
def ellipseDy (e : Ellipse) (p : Pt) : Int := p.y * 2 + 1 - (e.tl.y * 2 + e.size.h)

/-- **For unequal axes membership is exactly "pixel centre strictly inside the ideal ellipse".** -/
theorem ellipse_contains_iff_ideal (e : Ellipse) (hne : e.size.w ≠ e.size.h)
    (hw : 1 ≤ e.size.w) (hh : 1 ≤ e.size.h) (p : Pt) :
    e.contains p = true ↔
      ((e.size.h * e.size.h : Nat) : Int) * (ellipseDx e p * ellipseDx e p) +
      ((e.size.w * e.size.w : Nat) : Int) * (ellipseDy e p * ellipseDy e p) <
        ((e.size.h * e.size.h * (e.size.w * e.size.w) : Nat) : Int) := by
  rw [Ellipse.contains_iff]
  obtain ⟨h1, h2, h3⟩ := EllipseContains.new_ellipse hne
  unfold EllipseContains.wdist ellipseDx ellipseDy
  rw [h1, h2, h3, center2x_x, center2x_y]
  have e1 : p.x * 2 + 1 - (e.tl.x * 2 + (e.size.w : Int)) = p.x * 2 - (e.tl.x * 2 + ((e.size.w - 1 : Nat) : Int)) := by omega
  have e2 : p.y * 2 + 1 - (e.tl.y * 2 + (e.size.h : Int)) = p.y * 2 - (e.tl.y * 2 + ((e.size.h - 1 : Nat) : Int)) := by omega
  rw [e1, e2]
example : (⟨⟨-3, 2⟩, ⟨7, 4⟩⟩ : Ellipse).size.w ≠ (⟨⟨-3, 2⟩, ⟨7, 4⟩⟩ : Ellipse).size.h := by decide

/-- In every case (also equal axes with the circle's special small thresholds) an included pixel's
centre is strictly inside the ideal ellipse. -/
theorem ellipse_contains_imp_ideal (e : Ellipse) (p : Pt) (h : e.contains p = true) :
    ((e.size.h * e.size.h : Nat) : Int) * (ellipseDx e p * ellipseDx e p) +
      ((e.size.w * e.size.w : Nat) : Int) * (ellipseDy e p * ellipseDy e p) <
        ((e.size.h * e.size.h * (e.size.w * e.size.w) : Nat) : Int) := by
  have hb := contains_imp_box h
  have hi := EllipseContains.ideal_of_contains (s := e.size)
    (p := ⟨p.x * 2 - e.center2x.x, p.y * 2 - e.center2x.y⟩) h
  simp only at hi
  rw [center2x_x, center2x_y] at hi
  unfold ellipseDx ellipseDy
  have e1 : p.x * 2 + 1 - (e.tl.x * 2 + (e.size.w : Int)) = p.x * 2 - (e.tl.x * 2 + ((e.size.w - 1 : Nat) : Int)) := by omega
  have e2 : p.y * 2 + 1 - (e.tl.y * 2 + (e.size.h : Int)) = p.y * 2 - (e.tl.y * 2 + ((e.size.h - 1 : Nat) : Int)) := by omega
  rw [e1, e2]; exact hi
example : (⟨⟨-3, 2⟩, ⟨3, 3⟩⟩ : Ellipse).contains ⟨-2, 3⟩ = true := by decide

/-- **`circle_eq_ellipse_equal_axes`**: an ellipse with equal axes accepts exactly the points of the
circle with that diameter (including the special thresholds of diameters <= 4) ... -/
theorem circle_eq_ellipse_equal_axes (tl : Pt) (d : Nat) (p : Pt) :
    (⟨tl, ⟨d, d⟩⟩ : Ellipse).contains p = (⟨tl, d⟩ : Circle).contains p := by
  rw [Bool.eq_iff_iff, Ellipse.contains_iff, Circle.contains_iff]
  obtain ⟨h1, h2, h3⟩ := EllipseContains.new_circle (s := ⟨d, d⟩) rfl
  unfold EllipseContains.wdist dist2 Circle.threshold
  rw [h1, h2, h3]
  simp only [Nat.cast_one, Int.one_mul]
  rfl

/-- ... and `points()` yields the same list. -/
theorem circle_points_eq_ellipse_equal_axes (tl : Pt) (d : Nat) (h : (⟨tl, d⟩ : Circle).InRange) :
    (⟨tl, ⟨d, d⟩⟩ : Ellipse).points = (⟨tl, d⟩ : Circle).points := by
  rw [Ellipse.points_eq_filter (e := ⟨tl, ⟨d, d⟩⟩) h, Circle.points_eq_filter h]
  have : (⟨tl, ⟨d, d⟩⟩ : Ellipse).contains = (⟨tl, d⟩ : Circle).contains := by
    funext p; exact circle_eq_ellipse_equal_axes tl d p
  rw [this]; rfl
example : (⟨⟨-3, 2⟩, 7⟩ : Circle).InRange := by decide

/-- An ellipse with a zero side has no points. -/
theorem ellipse_zero_empty (e : Ellipse) (h : e.size.w = 0 ∨ e.size.h = 0) (p : Pt) :
    e.contains p = false := contains_false_of_zero h p
example : (⟨⟨-3, 2⟩, ⟨0, 5⟩⟩ : Ellipse).size.w = 0 ∨ (⟨⟨-3, 2⟩, ⟨0, 5⟩⟩ : Ellipse).size.h = 0 := by decide

/-- Mirror symmetry about the vertical centre line: `x ↦ left + right - x`. -/
theorem ellipse_mirror_x (e : Ellipse) (x y : Int) :
    e.contains ⟨e.tl.x + (e.tl.x + e.size.w - 1) - x, y⟩ = e.contains ⟨x, y⟩ := by
  by_cases hd : e.size.w = 0
  · rw [contains_false_of_zero (Or.inl hd), contains_false_of_zero (Or.inl hd)]
  · rw [← contains_mirror_x e x y]
    congr 2
    rw [center2x_x]; omega

/-- Mirror symmetry about the horizontal centre line: `y ↦ top + bottom - y`. -/
theorem ellipse_mirror_y (e : Ellipse) (x y : Int) :
    e.contains ⟨x, e.tl.y + (e.tl.y + e.size.h - 1) - y⟩ = e.contains ⟨x, y⟩ := by
  by_cases hd : e.size.h = 0
  · rw [contains_false_of_zero (Or.inr hd), contains_false_of_zero (Or.inr hd)]
  · rw [← contains_mirror_y e x y]
    congr 2
    rw [center2x_y]; omega

/-- Every row is one contiguous run. -/
theorem ellipse_rows_contiguous (e : Ellipse) (y x1 x x2 : Int) (h1 : e.contains ⟨x1, y⟩ = true)
    (h2 : e.contains ⟨x2, y⟩ = true) (hx1 : x1 ≤ x) (hx2 : x ≤ x2) : e.contains ⟨x, y⟩ = true :=
  contains_convex_row h1 h2 hx1 hx2
example : (⟨⟨0, 0⟩, ⟨5, 3⟩⟩ : Ellipse).contains ⟨0, 1⟩ = true ∧
    (⟨⟨0, 0⟩, ⟨5, 3⟩⟩ : Ellipse).contains ⟨4, 1⟩ = true := by decide

/-- Every column is one contiguous run. -/
theorem ellipse_columns_contiguous (e : Ellipse) (x y1 y y2 : Int) (h1 : e.contains ⟨x, y1⟩ = true)
    (h2 : e.contains ⟨x, y2⟩ = true) (hy1 : y1 ≤ y) (hy2 : y ≤ y2) : e.contains ⟨x, y⟩ = true :=
  contains_convex_col h1 h2 hy1 hy2
example : (⟨⟨0, 0⟩, ⟨3, 5⟩⟩ : Ellipse).contains ⟨1, 0⟩ = true ∧
    (⟨⟨0, 0⟩, ⟨3, 5⟩⟩ : Ellipse).contains ⟨1, 4⟩ = true := by decide

end EG.C18
