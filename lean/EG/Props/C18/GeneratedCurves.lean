/-
  C18 — "a circle is an ellipse with equal axes", over the functions REGENERATED from the Rust text.

  `EG/Generated/CurveSrc.lean` (tools/tr_curve.py) is tied to the hand models in `Props/C05/GeneratedCircle.lean` and
  `Props/C05/GeneratedEllipse.lean`. Here C18's statements about circles and ellipses are restated about the
  regenerated `contains` / `points` themselves: the special small-diameter thresholds of `diameter_to_threshold`
  (used by both `Circle::threshold` and `EllipseContains::new`'s equal-axes arm) make the two agree on every point.
-/
import EG.Props.C05.GeneratedEllipse
import EG.Props.C18.Ellipse
import EG.Props.C18.Circle
namespace EG.C18.Src
open EG EG.Generated EG.C05.Src

/-- **An ellipse with equal axes accepts exactly the points of the circle of that diameter** (regenerated `contains` of
both; includes the special thresholds of diameters <= 4). -/
theorem src_circle_eq_ellipse_equal_axes (tl : Pt) (d : Nat) (h : DiamFitsI32 d) (p : Pt) :
    CurveSrc.Ellipse_ContainsPoint_contains ⟨tl, ⟨d, d⟩⟩ p = CurveSrc.Circle_ContainsPoint_contains ⟨tl, d⟩ p := by
  have he : AxesFitI32 (⟨tl, ⟨d, d⟩⟩ : CurveSrc.Ellipse).size := ⟨h, h⟩
  rw [Ellipse_contains_src_eq_model _ p he, Circle_contains_src_eq_model _ p h]
  exact circle_eq_ellipse_equal_axes tl d p
example : DiamFitsI32 3 := by decide
example : CurveSrc.Ellipse_ContainsPoint_contains ⟨⟨0, 0⟩, ⟨3, 3⟩⟩ ⟨0, 0⟩ = false := by decide

/-- ... and its regenerated `points()` iterator yields the same list as the circle's. -/
theorem src_circle_points_eq_ellipse_equal_axes (tl : Pt) (d : Nat) (h : (⟨tl, d⟩ : Circle).InRange) :
    srcEllipsePoints ⟨tl, ⟨d, d⟩⟩ = srcCirclePoints ⟨tl, d⟩ := by
  have hc : (circleOf ⟨tl, d⟩).InRange := h
  have hd : DiamFitsI32 d := diamFits_of_inRange hc
  have he : AxesFitI32 (⟨tl, ⟨d, d⟩⟩ : CurveSrc.Ellipse).size := ⟨hd, hd⟩
  rw [ellipse_points_src_eq_model _ he, circle_points_src_eq_model _ hd]
  exact circle_points_eq_ellipse_equal_axes tl d h
example : (⟨⟨-3, 2⟩, 7⟩ : Circle).InRange := by decide

/-- The regenerated `diameter_to_threshold`: the four special small values, `d * d` above. -/
theorem src_circle_small_thresholds :
    CurveSrc.diameter_to_threshold 0 = 0 ∧ CurveSrc.diameter_to_threshold 1 = 1 ∧ CurveSrc.diameter_to_threshold 2 = 3 ∧
    CurveSrc.diameter_to_threshold 3 = 8 ∧ CurveSrc.diameter_to_threshold 4 = 14 := by decide

/-- Membership (regenerated `contains`) is the threshold test on the ideal distance, every diameter >= 1. -/
theorem src_circle_contains_iff_threshold (c : CurveSrc.Circle) (hd : 1 ≤ c.diameter) (hf : DiamFitsI32 c.diameter)
    (p : Pt) :
    CurveSrc.Circle_ContainsPoint_contains c p = true ↔
      idealDist2 (circleOf c) p < (CurveSrc.diameter_to_threshold c.diameter : Int) := by
  rw [Circle_contains_src_eq_model c p hf, diameter_to_threshold_src_eq_model]
  exact circle_contains_iff_threshold (circleOf c) hd p
example : 1 ≤ (⟨⟨-3, 2⟩, 7⟩ : CurveSrc.Circle).diameter ∧ DiamFitsI32 (⟨⟨-3, 2⟩, 7⟩ : CurveSrc.Circle).diameter := by decide

/-- A regenerated circle of diameter 0 has no points. -/
theorem src_circle_zero_empty (c : CurveSrc.Circle) (h : c.diameter = 0) (p : Pt) :
    CurveSrc.Circle_ContainsPoint_contains c p = false := by
  rw [Circle_contains_src_eq_model c p (by unfold DiamFitsI32; omega)]
  exact circle_zero_empty (circleOf c) h p
example : (⟨⟨-3, 2⟩, 0⟩ : CurveSrc.Circle).diameter = 0 := rfl

end EG.C18.Src
