/-
  C18 (`fixed_point` build against the EXACT geometry) — "Arc and sector points lie in the circle and
  inside the swept angle up to 1.5 pixels at its radial boundaries, and every circle point further
  than that inside the sweep is included (diameters up to 128), in both the floating-point and the
  `fixed_point` build."

  EG/Props/C18/FixedTrig.lean proves the angular claim relative to the TABLE rays. This file closes the
  gap to the real sine and cosine (`Real.sin`, `Real.cos`, π of Mathlib; the only Props file that
  imports Mathlib's analysis library, through EG.Lemmas.SineTable and EG.Lemmas.FixedTrigExact):

  * every one of the 91 table entries is the correctly rounded value of `65536 sin (k degrees)`
    (`fixed_sine_table_accurate`, deviation at most 1/2 unit of 2^-16, by certified interval
    arithmetic), and so is the table sine / cosine of EVERY integer degree after the quadrant folding
    (`fixed_sinT_accurate`, `fixed_cosT_accurate`);
  * the whole degree `k` the code rounds a raw angle `a` to is within 0.0091 rad (0.5214 degrees) of
    the exact angle `a / 65536` rad (`fixed_angle_error`);
  * hence, for EVERY raw angle on which `with_angle` does not panic, the integer normal is within
    10.32 (of 1024) of the exact `1024 (-sin, cos)` (`fixed_normal_exact`) — the hypothesis
    `NormalWithin .. eps`, `eps <= 16`, of `sector_angular_partial`;
  * hence the angular claim relative to the EXACT boundary lines of the two raw angles, tolerance
    1.5 px, every raw angle pair, no hypothesis left (`fixed_sector_angular_exact`,
    `fixed_sector_contains_exact`): a pixel of a circle of diameter up to 128 at least 1.5 px inside
    both exact boundary lines is accepted, one more than 1.5 px outside is rejected. (The error bound
    itself is `10.32 * (|dx| + |dy|) / 2048 <= 0.92 px`; the oracle measures 0.55 px.)

  What remains outside: `Angle::from_degrees` (f32 -> raw bits) and the difference between boundary
  LINES and boundary RAYS near the centre (the [V] lines of FixedTrig.lean); the default f32 build.
-/
import EG.Lemmas.FixedTrigExact
import EG.Props.C18.FixedTrig
namespace EG.C18
open EG EG.Generated Real

/-- **Each `SIN[k]`, `k = 0..90`, is `65536 * sin (k π / 180)` rounded to the nearest integer.** -/
theorem fixed_sine_table_accurate (k : Nat) (hk : k ≤ 90) :
    ∃ v : Int, sinTable[k]? = some v ∧ |(v : ℝ) - 65536 * Real.sin ((k : ℝ) * π / 180)| ≤ 1 / 2 := by
  refine ⟨sinTable.getD k 0, ?_, SineTable.sine_table_accurate k hk⟩
  have hlen : k < sinTable.length := by
    have : sinTable.length = 91 := by decide
    omega
  rw [List.getD_eq_getElem?_getD, List.getElem?_eq_getElem hlen]
  rfl
example : sinTable[30]? = some 32768 ∧ sinTable[90]? = some 65536 ∧ sinTable[83]? = some 65048 := by decide

/-- **The table sine of every integer degree** (what `sin` returns for any angle that rounds to `k`
degrees, after `rem_euclid(360)` and the quadrant folding) **is the correctly rounded real sine.** -/
theorem fixed_sinT_accurate (k : Int) :
    |(Fx.sinT k : ℝ) - 65536 * Real.sin ((k : ℝ) * π / 180)| ≤ 1 / 2 :=
  Fx.sinT_accurate k

/-- The table cosine likewise (`cosT k = sinT (k + 90)`, `cos x = sin (x + π/2)`). -/
theorem fixed_cosT_accurate (k : Int) :
    |(Fx.cosT k : ℝ) - 65536 * Real.cos ((k : ℝ) * π / 180)| ≤ 1 / 2 := by
  have h := Fx.sinT_accurate (k + 90)
  have e : Real.sin (((k + 90 : Int) : ℝ) * π / 180) = Real.cos ((k : ℝ) * π / 180) := by
    have : ((k + 90 : Int) : ℝ) * π / 180 = (k : ℝ) * π / 180 + π / 2 := by push_cast; ring
    rw [this, Real.sin_add_pi_div_two]
  rw [e] at h
  exact h

/-- **Whole-degree rounding against the exact angle.** The raw angle `a` is `a / 65536` radians; the
degree `k` the code computes differs from it by at most 0.0091 rad = 0.5214 degrees (half a degree,
the 2^-16 degree of the truncating division, and the code's `PI` = 205887 bits against π over the up
to 29 turns for which `180 * a` does not overflow). -/
theorem fixed_angle_error (a k : Int) (h : Fx.degreeOf a = some k) :
    |(a : ℝ) / 65536 - (k : ℝ) * π / 180| ≤ 0.0091 := by
  by_cases hf : Fx.DegFits a
  · rw [Fx.degreeOf_eq a hf] at h
    rw [← Option.some.inj h]
    exact Fx.angle_error a hf
  · rw [Fx.degreeOf_none a hf] at h; cases h
example : Fx.degreeOf 34315 = some 30 := by decide

/-- **The normal vector against the exact normal, every raw angle**: within 10.32 of 1024,
componentwise, of `1024 (-sin t, cos t)`, `t = a / 65536` rad. -/
theorem fixed_normal_exact (a : Int) (n : Pt) (h : Fx.withAngle a = some n) :
    NormalWithin (K := ℝ) n (1024 * -Real.sin ((a : ℝ) / 65536), 1024 * Real.cos ((a : ℝ) / 65536)) 10.32 :=
  Fx.withAngle_exact a n h
example : Fx.withAngle 34315 = some ⟨-512, 886⟩ := by decide

/-- **The angular claim of C18 for the fixed_point build, against the exact boundary lines.**
`PlaneSector::new(start, sweep)` for ANY raw angles on which it does not panic, sweep below a full
turn; `Fx.exactLineDist t delta` = the exact signed distance (scale 1024, half pixels: 1.5 px = 3072)
of the pixel centre `delta` from the line through the centre at the exact angle `t` rad; the two
boundary angles are the raw angles `/ 65536`. A pixel of a circle of diameter up to 128 at least
1.5 px inside both exact boundary lines is accepted, one more than 1.5 px outside is rejected. -/
theorem fixed_sector_angular_exact (start sweep : Int) (ps : PlaneSector)
    (h : Fx.planeSectorNew start sweep = some ps) (hne : ps.op ≠ .entirePlane)
    (delta : Pt) (hd : delta.x * delta.x + delta.y * delta.y < 128 * 128) :
    (ps.op = .intersection →
      (Fx.exactLineDist (((Fx.boundaryAngles start sweep).2 : ℝ) / 65536) delta ≤ -3072 ∧
        3072 ≤ Fx.exactLineDist (((Fx.boundaryAngles start sweep).1 : ℝ) / 65536) delta →
          ps.contains delta = true) ∧
      (3072 < Fx.exactLineDist (((Fx.boundaryAngles start sweep).2 : ℝ) / 65536) delta ∨
        Fx.exactLineDist (((Fx.boundaryAngles start sweep).1 : ℝ) / 65536) delta < -3072 →
          ps.contains delta = false)) ∧
    (ps.op = .union →
      (Fx.exactLineDist (((Fx.boundaryAngles start sweep).2 : ℝ) / 65536) delta ≤ -3072 ∨
        3072 ≤ Fx.exactLineDist (((Fx.boundaryAngles start sweep).1 : ℝ) / 65536) delta →
          ps.contains delta = true) ∧
      (3072 < Fx.exactLineDist (((Fx.boundaryAngles start sweep).2 : ℝ) / 65536) delta ∧
        Fx.exactLineDist (((Fx.boundaryAngles start sweep).1 : ℝ) / 65536) delta < -3072 →
          ps.contains delta = false)) :=
  Fx.fixed_contains_exact start sweep ps h hne delta hd
example : Fx.planeSectorNew 17158 51472 = some ⟨.intersection, ⟨-886, 512⟩, ⟨-265, 989⟩⟩ ∧
    Fx.boundaryAngles 17158 51472 = (17158, 68630) ∧ ((40 : Int) * 40 + 37 * 37 < 128 * 128) := by decide

/-- **Sector level**: `Sector::contains` of a sector of diameter up to 128 whose plane sector the
fixed_point code computed, on a circle point `p`, against the exact boundary lines. -/
theorem fixed_sector_contains_exact (tl : Pt) (d : Nat) (start sweep : Int) (ps : PlaneSector)
    (h : Fx.planeSectorNew start sweep = some ps) (hne : ps.op ≠ .entirePlane) (hd : d ≤ 128)
    (p : Pt) (hc : (⟨tl, d⟩ : Circle).contains p = true) :
    (ps.op = .intersection →
      (Fx.exactLineDist (((Fx.boundaryAngles start sweep).2 : ℝ) / 65536)
          ((⟨p.x * 2, p.y * 2⟩ : Pt) - (⟨tl, d⟩ : Circle).center2x) ≤ -3072 ∧
        3072 ≤ Fx.exactLineDist (((Fx.boundaryAngles start sweep).1 : ℝ) / 65536)
          ((⟨p.x * 2, p.y * 2⟩ : Pt) - (⟨tl, d⟩ : Circle).center2x) →
          (⟨tl, d, ps⟩ : Sector).contains p = true) ∧
      (3072 < Fx.exactLineDist (((Fx.boundaryAngles start sweep).2 : ℝ) / 65536)
          ((⟨p.x * 2, p.y * 2⟩ : Pt) - (⟨tl, d⟩ : Circle).center2x) ∨
        Fx.exactLineDist (((Fx.boundaryAngles start sweep).1 : ℝ) / 65536)
          ((⟨p.x * 2, p.y * 2⟩ : Pt) - (⟨tl, d⟩ : Circle).center2x) < -3072 →
          (⟨tl, d, ps⟩ : Sector).contains p = false)) ∧
    (ps.op = .union →
      (Fx.exactLineDist (((Fx.boundaryAngles start sweep).2 : ℝ) / 65536)
          ((⟨p.x * 2, p.y * 2⟩ : Pt) - (⟨tl, d⟩ : Circle).center2x) ≤ -3072 ∨
        3072 ≤ Fx.exactLineDist (((Fx.boundaryAngles start sweep).1 : ℝ) / 65536)
          ((⟨p.x * 2, p.y * 2⟩ : Pt) - (⟨tl, d⟩ : Circle).center2x) →
          (⟨tl, d, ps⟩ : Sector).contains p = true) ∧
      (3072 < Fx.exactLineDist (((Fx.boundaryAngles start sweep).2 : ℝ) / 65536)
          ((⟨p.x * 2, p.y * 2⟩ : Pt) - (⟨tl, d⟩ : Circle).center2x) ∧
        Fx.exactLineDist (((Fx.boundaryAngles start sweep).1 : ℝ) / 65536)
          ((⟨p.x * 2, p.y * 2⟩ : Pt) - (⟨tl, d⟩ : Circle).center2x) < -3072 →
          (⟨tl, d, ps⟩ : Sector).contains p = false)) := by
  have hsmall := circle_delta_small ⟨tl, d⟩ hd p hc
  obtain ⟨hi, hu⟩ := fixed_sector_angular_exact start sweep ps h hne _ hsmall
  have key : ∀ b : Bool, ps.contains ((⟨p.x * 2, p.y * 2⟩ : Pt) - (⟨tl, d⟩ : Circle).center2x) = b →
      (⟨tl, d, ps⟩ : Sector).contains p = b := by
    intro b hb
    have e := Sector.contains_eq (⟨tl, d, ps⟩ : Sector) p
    have hc' : Circle.hit (⟨tl, d⟩ : Circle).center2x (⟨tl, d⟩ : Circle).threshold p.y p.x = true := by
      rw [← Circle.contains_eq_hit]; exact hc
    change (⟨tl, d, ps⟩ : Sector).contains p =
      (Circle.hit (⟨tl, d⟩ : Circle).center2x (⟨tl, d⟩ : Circle).threshold p.y p.x &&
        ps.contains ((⟨p.x * 2, p.y * 2⟩ : Pt) - (⟨tl, d⟩ : Circle).center2x)) at e
    rw [e, hc', hb, Bool.true_and]
  exact ⟨fun ho => ⟨fun hh => key _ ((hi ho).1 hh), fun hh => key _ ((hi ho).2 hh)⟩,
    fun ho => ⟨fun hh => key _ ((hu ho).1 hh), fun hh => key _ ((hu ho).2 hh)⟩⟩
example : Fx.planeSectorNew 17158 51472 = some ⟨.intersection, ⟨-886, 512⟩, ⟨-265, 989⟩⟩ ∧
    (⟨⟨0, 0⟩, 100⟩ : Circle).contains ⟨70, 68⟩ = true := by decide

end EG.C18
