/-
  C18 (`fixed_point` build, table accuracy) — the sine table the fixed-point trigonometry uses, against
  the real sine. EG/Props/C18/FixedTrig.lean proves the angular claim relative to the TABLE rays
  `(cosT k, sinT k)`; this file says how far those are from the true directions of whole degrees:
  every one of the 91 entries is the correctly rounded value of `65536 * sin (k degrees)`
  (`fixed_sine_table_accurate`: deviation at most 1/2 unit of 2^-16, proved with `Real.sin` and π of
  Mathlib by certified interval arithmetic, EG.Lemmas.SineTable), and so is the table sine `sinT k` of
  EVERY integer degree `k` after the quadrant folding of `sin` (`fixed_sinT_accurate`). In pixels: a
  table direction is within `0.5 / 65536` per component of the exact unit vector, i.e. `1e-3` px at
  radius 64 — negligible against the whole-degree rounding (0.56 px) recorded in FixedTrig.lean.
-/
import EG.Lemmas.SineTable
import EG.Props.C18.FixedTrig
namespace EG.C18
open EG EG.Generated Real

/-- **Each `SIN[k]`, `k = 0..90`, is `65536 * sin (k π / 180)` rounded to the nearest integer.** -/
theorem fixed_sine_table_accurate (k : Nat) (hk : k ≤ 90) :
    ∃ v : Int, sinTable[k]? = some v ∧ |(v : ℝ) - 65536 * Real.sin ((k : ℝ) * π / 180)| ≤ 1 / 2 := by
  refine ⟨sinTable.getD k 0, ?_, SineTable.sine_table_accurate k hk⟩
  have hlen : k < sinTable.length := by
    have : sinTable.length = 91 := by decide
    omega
  rw [List.getD_eq_getElem?_getD, List.getElem?_eq_getElem hlen]
  rfl
example : sinTable[30]? = some 32768 ∧ sinTable[90]? = some 65536 ∧ sinTable[83]? = some 65048 := by decide

theorem sinT_eq_table : ∀ k : Nat, k ≤ 90 → Fx.sinT (k : Int) = sinTable.getD k 0 := by decide +kernel

/-- first quadrant -/
theorem sinT_accurate_q1 (m : Int) (h0 : 0 ≤ m) (h1 : m ≤ 90) :
    |(Fx.sinT m : ℝ) - 65536 * Real.sin ((m : ℝ) * π / 180)| ≤ 1 / 2 := by
  have e : m = ((m.toNat : Nat) : Int) := (Int.toNat_of_nonneg h0).symm
  have h := SineTable.sine_table_accurate m.toNat (by omega)
  rw [← sinT_eq_table m.toNat (by omega), ← e] at h
  have e2 : ((m.toNat : Nat) : ℝ) = (m : ℝ) := by
    have : ((m.toNat : Nat) : Int) = m := Int.toNat_of_nonneg h0
    exact_mod_cast this
  rw [e2] at h
  exact h

/-- first and second quadrant: `sin (180° - x) = sin x` on both sides -/
theorem sinT_accurate_half (m : Int) (h0 : 0 ≤ m) (h1 : m ≤ 180) :
    |(Fx.sinT m : ℝ) - 65536 * Real.sin ((m : ℝ) * π / 180)| ≤ 1 / 2 := by
  by_cases h : m ≤ 90
  · exact sinT_accurate_q1 m h0 h
  · have hq := sinT_accurate_q1 (180 - m) (by omega) (by omega)
    have e1 : Fx.sinT (180 - m) = Fx.sinT m := (fixed_table_values.2 m).1
    have e2 : Real.sin (((180 - m : Int) : ℝ) * π / 180) = Real.sin ((m : ℝ) * π / 180) := by
      have : ((180 - m : Int) : ℝ) * π / 180 = π - (m : ℝ) * π / 180 := by push_cast; ring
      rw [this, Real.sin_pi_sub]
    rw [e1, e2] at hq
    exact hq

/-- one full turn: `sin (x + 180°) = -sin x` on both sides -/
theorem sinT_accurate_turn (m : Int) (h0 : 0 ≤ m) (h1 : m < 360) :
    |(Fx.sinT m : ℝ) - 65536 * Real.sin ((m : ℝ) * π / 180)| ≤ 1 / 2 := by
  by_cases h : m ≤ 180
  · exact sinT_accurate_half m h0 h
  · have hq := sinT_accurate_half (m - 180) (by omega) (by omega)
    have e1 : Fx.sinT m = -Fx.sinT (m - 180) := by
      have := (fixed_table_values.2 (m - 180)).2.1
      have e : m - 180 + 180 = m := by omega
      rw [e] at this
      exact this
    have e2 : Real.sin ((m : ℝ) * π / 180) = -Real.sin (((m - 180 : Int) : ℝ) * π / 180) := by
      have : (m : ℝ) * π / 180 = ((m - 180 : Int) : ℝ) * π / 180 + π := by push_cast; ring
      rw [this, Real.sin_add_pi]
    rw [e1, e2]
    have : ((-Fx.sinT (m - 180) : Int) : ℝ) - 65536 * -Real.sin (((m - 180 : Int) : ℝ) * π / 180) =
        -(((Fx.sinT (m - 180) : Int) : ℝ) - 65536 * Real.sin (((m - 180 : Int) : ℝ) * π / 180)) := by
      push_cast; ring
    rw [this, abs_neg]
    exact hq

/-- **The table sine of every integer degree** (what `sin` returns for any angle that rounds to `k`
degrees, after `rem_euclid(360)` and the quadrant folding) **is the correctly rounded real sine.** -/
theorem fixed_sinT_accurate (k : Int) :
    |(Fx.sinT k : ℝ) - 65536 * Real.sin ((k : ℝ) * π / 180)| ≤ 1 / 2 := by
  have h := sinT_accurate_turn (k % 360) (by omega) (by omega)
  have e1 : Fx.sinT (k % 360) = Fx.sinT k := Fx.sinT_congr (by omega)
  have e2 : Real.sin (((k % 360 : Int) : ℝ) * π / 180) = Real.sin ((k : ℝ) * π / 180) := by
    have hk : k = k % 360 + 360 * (k / 360) := by omega
    have : (k : ℝ) * π / 180 = ((k % 360 : Int) : ℝ) * π / 180 + ((k / 360 : Int) : ℝ) * (2 * π) := by
      have hk' : (k : ℝ) = ((k % 360 : Int) : ℝ) + 360 * ((k / 360 : Int) : ℝ) := by exact_mod_cast hk
      rw [hk']
      ring
    rw [this, Real.sin_add_int_mul_two_pi]
  rw [e1, e2] at h
  exact h

/-- The table cosine likewise (`cosT k = sinT (k + 90)`, `cos x = sin (x + π/2)`). -/
theorem fixed_cosT_accurate (k : Int) :
    |(Fx.cosT k : ℝ) - 65536 * Real.cos ((k : ℝ) * π / 180)| ≤ 1 / 2 := by
  have h := fixed_sinT_accurate (k + 90)
  have e : Real.sin (((k + 90 : Int) : ℝ) * π / 180) = Real.cos ((k : ℝ) * π / 180) := by
    have : ((k + 90 : Int) : ℝ) * π / 180 = (k : ℝ) * π / 180 + π / 2 := by push_cast; ring
    rw [this, Real.sin_add_pi_div_two]
  rw [e] at h
  exact h

end EG.C18
