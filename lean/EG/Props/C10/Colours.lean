/-
  C10 / colours — identifying a colour with its raw value (what the C10 model does: `set_pixel` takes
  and `pixel` returns raw values `< 2^bits`) loses nothing.

  Glue between the C10 model (`EG.Model.Framebuffer`) and the C12 colour model (`EG.Model.Color` over
  the generated table `EG.Generated.colorTable` of EVERY built-in colour type). The real
  `Framebuffer<C, ..>::set_pixel(p, c)` stores `c.into()` (`toRaw c`), `pixel(p)` returns
  `C::from(raw)` (`fromRaw raw`) of the stored raw value. With C12's `into_fits` (the raw value fits the
  depth, so the C10 theorems apply to it) and `raw_roundtrip` (`fromRaw (toRaw c) = c` for every colour
  value `c`, also of the types with unused raw bits):

    * get / set in COLOURS: after `set_pixel(p, c)`, `pixel(q)` is the colour `c` at `q = p` inside and
      the old colour elsewhere;
    * histories in COLOURS: after any sequence of colour writes on a fresh framebuffer `pixel(q)` is the
      colour most recently written to `q`, the colour of raw value 0 if `q` was never written.

  Raw values that do not fit a type's used bits can reach a framebuffer only through `data_mut` (a
  colour's own raw value always fits); reading them gives the colour of the masked value
  (`C09.Colours.colour_of_masked`, `same_colour_iff`).
-/
import EG.Props.C10
import EG.Props.C12
import EG.Lemmas.Target
import EG.Lemmas.Glue2Colours
namespace EG.C10.Colours
open EG EG.Raw EG.Fb EG.Generated EG.ColorSpec

/-- `c.into()` is a raw value the C10 theorems accept (`c < 2^bits`, `ColorsOk`). -/
theorem into_is_model_colour : ∀ s ∈ colorTable, ∀ (fb : Fb), fb.bits = s.rawBpp →
    ∀ c, s.Valid c → s.toRaw c < 2 ^ fb.bits := by
  intro s hs fb hb c hc
  rw [hb]; exact C12.into_fits s hs c hc

/-- **get / set in colours**, every built-in colour type: after `set_pixel(p, c)` the colour read at
`q` is `c` if `q = p` is inside, and the colour that was there before otherwise. -/
theorem colour_get_set : ∀ s ∈ colorTable, ∀ (fb : Fb), fb.Wf → fb.bits = s.rawBpp →
    ∀ c, s.Valid c → ∀ p q,
      ((fb.setPixel p (s.toRaw c)).pixel q).map s.fromRaw =
        if q = p ∧ fb.inside p then some c else (fb.pixel q).map s.fromRaw := by
  intro s hs fb hw hb c hc p q
  rw [get_set fb hw p (into_is_model_colour s hs fb hb c hc) q]
  split
  · rw [Option.map_some, C12.raw_roundtrip s hs c hc]
  · rfl
example : ∃ s ∈ colorTable, s.name = "Rgb555" ∧ (Fb.new 16 .be 5 3 33).Wf ∧
    (Fb.new 16 .be 5 3 33).bits = s.rawBpp ∧ s.Valid 0x7C1F :=
  ⟨_, List.mem_of_elem_eq_true (by decide : colorTable.elem
      { name := "Rgb555", kind := .rgb, rawName := "RawU16", rawBpp := 16, rawStorageBits := 16, nbytes := 2,
        beLo := 0, beHi := 2, leLo := 0, leHi := 2, storageBits := 16, rbits := 5, gbits := 5, bbits := 5,
        rpos := 10, gpos := 5, bpos := 0 } = true), rfl,
    new_wf (bits := 16) (by decide) .be 5 3 33 (by decide) (by unfold usizeMax; omega), rfl, by decide⟩

/-- **Histories in colours**, every built-in colour type: after ANY sequence of colour writes on a fresh
framebuffer (each stored as `c.into()`), the colour read at `q` is the colour most recently written to
`q`, the colour with raw value 0 if `q` was never written, and `None` outside WIDTH x HEIGHT. -/
theorem colour_history : ∀ s ∈ colorTable, ∀ (o : Order) (w h n : Nat),
    validBits s.rawBpp = true → bufferSize w h s.rawBpp ≤ n → n * 8 ≤ usizeMax →
    ∀ (cw : Writes), (∀ x ∈ cw, s.Valid x.2) → ∀ q,
      (((Fb.new s.rawBpp o w h n).drawIter (cw.map (fun x => (x.1, s.toRaw x.2)))).pixel q).map s.fromRaw =
        if (Fb.new s.rawBpp o w h n).inside q then some (((PMap.empty.apply cw) q).getD (s.fromRaw 0))
        else none := by
  intro s hs o w h n hb hn hf cw hv q
  have hc : ColorsOk s.rawBpp (cw.map (fun x => (x.1, s.toRaw x.2))) := by
    intro x hx
    rw [List.mem_map] at hx
    obtain ⟨y, hy, rfl⟩ := hx
    exact C12.into_fits s hs y.2 (hv y hy)
  rw [history_refines_map hb o w h n hn hf _ hc q]
  split
  · rw [Option.map_some, Tgt.PMap.empty_apply, Tgt.PMap.empty_apply, Tgt.lastWrite_map_color]
    cases hl : lastWrite cw q with
    | none => rfl
    | some c =>
      simp only [Option.map_some, Option.getD_some]
      rw [C12.raw_roundtrip s hs c (hv _ (Glue2.lastWrite_mem cw q c hl))]
  · rfl
example : ∃ s ∈ colorTable, s.name = "Gray4" ∧ validBits s.rawBpp = true ∧
    bufferSize 5 3 s.rawBpp ≤ 9 ∧ ∀ x ∈ ([(⟨4, 1⟩, 3), (⟨7, 7⟩, 1), (⟨4, 1⟩, 15)] : Writes), s.Valid x.2 := by
  refine ⟨_, List.mem_of_elem_eq_true (by decide : colorTable.elem
      { name := "Gray4", kind := .gray, rawName := "RawU4", rawBpp := 4, rawStorageBits := 8, nbytes := 1,
        beLo := 0, beHi := 1, leLo := 0, leHi := 1, storageBits := 8, rbits := 0, gbits := 0, bbits := 0,
        rpos := 0, gpos := 0, bpos := 0 } = true), rfl, by decide, by decide, by decide⟩

/-- The raw types of all built-in colour types are among the seven depths the framebuffer model
covers. -/
theorem colour_depths_valid : ∀ s ∈ colorTable, validBits s.rawBpp = true := by decide

-- [V] that the real `Framebuffer::set_pixel` / `pixel` apply exactly `c.into()` / `C::from(raw)` around the raw store / load (Rust-level, one call each) and that these impls are the bodies C12 models (C12's tie): carried by correspondence + oracle only
end EG.C10.Colours
