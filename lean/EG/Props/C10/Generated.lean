/-
  C10 — `Framebuffer::set_pixel` / `draw_iter` / `new` / `buffer_size_bpp` REGENERATED FROM THE RUST TEXT equal the
  hand-written model.

  `EG.Generated.FbSrc` (written by tools/tr_rawsrc.py from src/framebuffer.rs on every check: the three expansions of
  `impl_bit!`, the `RawU8` impl, the six expansions of `impl_bytes!`) is proved equal to `EG.Model.Framebuffer`
  (`Fb.setPixel`, `Fb.drawIter`, `Fb.new`, `bufferSize`) for every width, height, `N`, buffer content, point and colour
  value, UNCONDITIONALLY. The raw `store` the sub-byte `set_pixel` calls is the generated `RawData::store` of
  EG/Generated/RawSrc.lean (equal to the model's `store` by Props/C11/Generated.lean).
  A colour is its raw value (`c.into()`; colour <-> raw is C12 / Props/C10/Colours.lean).
  Not translated (pinned by `fb_untranslated_pinned`): `buffer_size` (generic in the colour type), `BUFFER_SIZE`,
  `CHECK_N`, `as_image`, `data`, `data_mut`, `default`, `GetPixel::pixel`, `OriginDimensions::size`: the READ path
  (`pixel` via `as_image` / `ImageRaw`) stays tied by the `fb.hist` correspondence stream only.
-/
import EG.Generated.FbSrc
import EG.Props.C11.Generated
import EG.Props.C10
set_option linter.unusedSimpArgs false
namespace EG.C10.Generated
open EG EG.Raw EG.Fb EG.RawSrcPrelude EG.Generated.RawSrc EG.Generated.FbSrc EG.C11.Generated

/-- The hand model's framebuffer of a generated one (depth, order, `WIDTH`, `HEIGHT` are type parameters in Rust). -/
def toFb (bits : Nat) (o : Order) (W H : Nat) (s : Framebuffer) : Fb := ⟨bits, o, W, H, s.data⟩

/-- `buffer_size_bpp(width, height, bpp)` -/
theorem buffer_size_bpp_src_eq_model (w h b : Nat) : buffer_size_bpp w h b = bufferSize w h b := rfl

/-- `Framebuffer::new()`: `[0; N]` -/
theorem Framebuffer_new_src_eq_model (bits : Nat) (o : Order) (W H N : Nat) :
    toFb bits o W H (Framebuffer_new W H N) = Fb.new bits o W H N := rfl

theorem store_sub_src (BO : DataOrderTy) (c : Nat) (d : List Nat) (i : Nat) :
    RawU1_RawData_store BO c d i = store 1 (ord BO) c d i ∧
    RawU2_RawData_store BO c d i = store 2 (ord BO) c d i ∧
    RawU4_RawData_store BO c d i = store 4 (ord BO) c d i := by
  obtain ⟨a, b, e⟩ := store_bits_src_eq_model BO c d i
  exact ⟨a, b, e⟩

/-- sub-byte `set_pixel` (the three expansions of `impl_bit!`). -/
theorem set_pixel_bits_src_eq_model (BO : DataOrderTy) (W H N : Nat) (s : Framebuffer) (p : Pt) (c : Nat) :
    toFb 1 (ord BO) W H (Framebuffer_RawU1_set_pixel BO W H N s p c) = (toFb 1 (ord BO) W H s).setPixel p c ∧
    toFb 2 (ord BO) W H (Framebuffer_RawU2_set_pixel BO W H N s p c) = (toFb 2 (ord BO) W H s).setPixel p c ∧
    toFb 4 (ord BO) W H (Framebuffer_RawU4_set_pixel BO W H N s p c) = (toFb 4 (ord BO) W H s).setPixel p c := by
  refine ⟨?_, ?_, ?_⟩
  · unfold Framebuffer_RawU1_set_pixel Fb.setPixel toFb
    raw_simp [(store_sub_src BO c _ _).1, Point_x, Point_y, usize_try_from_i32, color_into_raw,
      RawU1_RawData_BITS_PER_PIXEL]
    by_cases hx : 0 ≤ p.x <;> by_cases hy : 0 ≤ p.y <;> simp only [hx, hy, ↓reduceIte, and_self, and_false, false_and]
    by_cases hin : p.x.toNat < W ∧ p.y.toNat < H <;> simp [hin]
  · unfold Framebuffer_RawU2_set_pixel Fb.setPixel toFb
    raw_simp [(store_sub_src BO c _ _).2.1, Point_x, Point_y, usize_try_from_i32, color_into_raw,
      RawU2_RawData_BITS_PER_PIXEL]
    by_cases hx : 0 ≤ p.x <;> by_cases hy : 0 ≤ p.y <;> simp only [hx, hy, ↓reduceIte, and_self, and_false, false_and]
    by_cases hin : p.x.toNat < W ∧ p.y.toNat < H <;> simp [hin]
  · unfold Framebuffer_RawU4_set_pixel Fb.setPixel toFb
    raw_simp [(store_sub_src BO c _ _).2.2, Point_x, Point_y, usize_try_from_i32, color_into_raw,
      RawU4_RawData_BITS_PER_PIXEL]
    by_cases hx : 0 ≤ p.x <;> by_cases hy : 0 ≤ p.y <;> simp only [hx, hy, ↓reduceIte, and_self, and_false, false_and]
    by_cases hin : p.x.toNat < W ∧ p.y.toNat < H <;> simp [hin]

/-- The coordinates of a `Point` are `i32`s (the bound `Int` lacks; only the upper one matters: `p.x as usize`
after `usize::try_from(p.x)` succeeded is `p.x` itself for an `i32`, but would wrap for an `Int` above 2^64). -/
def PtI32 (p : Pt) : Prop := p.x < 2147483648 ∧ p.y < 2147483648
instance (p : Pt) : Decidable (PtI32 p) := by unfold PtI32; exact inferInstance
example : PtI32 ⟨5, -3⟩ := by decide

/-- `RawU8` `set_pixel` (direct indexing), in either data order. -/
theorem set_pixel_u8_src_eq_model (o : Order) (W H N : Nat) (s : Framebuffer) (p : Pt) (c : Nat) (hp : PtI32 p) :
    toFb 8 o W H (Framebuffer_RawU8_set_pixel W H N s p c) = (toFb 8 o W H s).setPixel p c := by
  unfold Framebuffer_RawU8_set_pixel Fb.setPixel toFb
  raw_simp [Point_x, Point_y, usize_try_from_i32, color_into_raw, RawU8_RawData_into_inner, i32_as_usize,
    array_index_assign]
  unfold PtI32 at hp
  by_cases hx : 0 ≤ p.x <;> by_cases hy : 0 ≤ p.y <;> simp only [hx, hy, ↓reduceIte, and_self, and_false, false_and]
  have h1 : (p.x % 18446744073709551616).toNat = p.x.toNat := by omega
  have h2 : (p.y % 18446744073709551616).toNat = p.y.toNat := by omega
  by_cases hin : p.x.toNat < W ∧ p.y.toNat < H <;> simp [hin, h1, h2]

/-- multi-byte `set_pixel` (the six expansions of `impl_bytes!`: `to_le_bytes` / `to_be_bytes` + `copy_from_slice`). -/
theorem set_pixel_bytes_src_eq_model (W H N : Nat) (s : Framebuffer) (p : Pt) (c : Nat) (hp : PtI32 p) :
    toFb 16 .le W H (Framebuffer_RawU16_LittleEndianMsb0_set_pixel W H N s p c) = (toFb 16 .le W H s).setPixel p c ∧
    toFb 16 .be W H (Framebuffer_RawU16_BigEndianLsb0_set_pixel W H N s p c) = (toFb 16 .be W H s).setPixel p c ∧
    toFb 24 .le W H (Framebuffer_RawU24_LittleEndianMsb0_set_pixel W H N s p c) = (toFb 24 .le W H s).setPixel p c ∧
    toFb 24 .be W H (Framebuffer_RawU24_BigEndianLsb0_set_pixel W H N s p c) = (toFb 24 .be W H s).setPixel p c ∧
    toFb 32 .le W H (Framebuffer_RawU32_LittleEndianMsb0_set_pixel W H N s p c) = (toFb 32 .le W H s).setPixel p c ∧
    toFb 32 .be W H (Framebuffer_RawU32_BigEndianLsb0_set_pixel W H N s p c) = (toFb 32 .be W H s).setPixel p c := by
  unfold PtI32 at hp
  refine ⟨?_, ?_, ?_, ?_, ?_, ?_⟩
  · unfold Framebuffer_RawU16_LittleEndianMsb0_set_pixel Fb.setPixel toFb splice
    raw_simp [Point_x, Point_y, usize_try_from_i32, color_into_raw, RawU16_RawData_BITS_PER_PIXEL, i32_as_usize,
      (to_bytes_src_eq_model c).1, Order.alt]
    by_cases hx : 0 ≤ p.x <;> by_cases hy : 0 ≤ p.y <;> simp only [hx, hy, ↓reduceIte, and_self, and_false, false_and]
    have h1 : (p.x % 18446744073709551616).toNat = p.x.toNat := by omega
    have h2 : (p.y % 18446744073709551616).toNat = p.y.toNat := by omega
    by_cases hin : p.x.toNat < W ∧ p.y.toNat < H <;> simp [hin, h1, h2, toLe_length, toBe_length]
  · unfold Framebuffer_RawU16_BigEndianLsb0_set_pixel Fb.setPixel toFb splice
    raw_simp [Point_x, Point_y, usize_try_from_i32, color_into_raw, RawU16_RawData_BITS_PER_PIXEL, i32_as_usize,
      (to_bytes_src_eq_model c).2.1, Order.alt]
    by_cases hx : 0 ≤ p.x <;> by_cases hy : 0 ≤ p.y <;> simp only [hx, hy, ↓reduceIte, and_self, and_false, false_and]
    have h1 : (p.x % 18446744073709551616).toNat = p.x.toNat := by omega
    have h2 : (p.y % 18446744073709551616).toNat = p.y.toNat := by omega
    by_cases hin : p.x.toNat < W ∧ p.y.toNat < H <;> simp [hin, h1, h2, toLe_length, toBe_length]
  · unfold Framebuffer_RawU24_LittleEndianMsb0_set_pixel Fb.setPixel toFb splice
    raw_simp [Point_x, Point_y, usize_try_from_i32, color_into_raw, RawU24_RawData_BITS_PER_PIXEL, i32_as_usize,
      (to_bytes_src_eq_model c).2.2.1, Order.alt]
    by_cases hx : 0 ≤ p.x <;> by_cases hy : 0 ≤ p.y <;> simp only [hx, hy, ↓reduceIte, and_self, and_false, false_and]
    have h1 : (p.x % 18446744073709551616).toNat = p.x.toNat := by omega
    have h2 : (p.y % 18446744073709551616).toNat = p.y.toNat := by omega
    by_cases hin : p.x.toNat < W ∧ p.y.toNat < H <;> simp [hin, h1, h2, toLe_length, toBe_length]
  · unfold Framebuffer_RawU24_BigEndianLsb0_set_pixel Fb.setPixel toFb splice
    raw_simp [Point_x, Point_y, usize_try_from_i32, color_into_raw, RawU24_RawData_BITS_PER_PIXEL, i32_as_usize,
      (to_bytes_src_eq_model c).2.2.2.1, Order.alt]
    by_cases hx : 0 ≤ p.x <;> by_cases hy : 0 ≤ p.y <;> simp only [hx, hy, ↓reduceIte, and_self, and_false, false_and]
    have h1 : (p.x % 18446744073709551616).toNat = p.x.toNat := by omega
    have h2 : (p.y % 18446744073709551616).toNat = p.y.toNat := by omega
    by_cases hin : p.x.toNat < W ∧ p.y.toNat < H <;> simp [hin, h1, h2, toLe_length, toBe_length]
  · unfold Framebuffer_RawU32_LittleEndianMsb0_set_pixel Fb.setPixel toFb splice
    raw_simp [Point_x, Point_y, usize_try_from_i32, color_into_raw, RawU32_RawData_BITS_PER_PIXEL, i32_as_usize,
      (to_bytes_src_eq_model c).2.2.2.2.1, Order.alt]
    by_cases hx : 0 ≤ p.x <;> by_cases hy : 0 ≤ p.y <;> simp only [hx, hy, ↓reduceIte, and_self, and_false, false_and]
    have h1 : (p.x % 18446744073709551616).toNat = p.x.toNat := by omega
    have h2 : (p.y % 18446744073709551616).toNat = p.y.toNat := by omega
    by_cases hin : p.x.toNat < W ∧ p.y.toNat < H <;> simp [hin, h1, h2, toLe_length, toBe_length]
  · unfold Framebuffer_RawU32_BigEndianLsb0_set_pixel Fb.setPixel toFb splice
    raw_simp [Point_x, Point_y, usize_try_from_i32, color_into_raw, RawU32_RawData_BITS_PER_PIXEL, i32_as_usize,
      (to_bytes_src_eq_model c).2.2.2.2.2, Order.alt]
    by_cases hx : 0 ≤ p.x <;> by_cases hy : 0 ≤ p.y <;> simp only [hx, hy, ↓reduceIte, and_self, and_false, false_and]
    have h1 : (p.x % 18446744073709551616).toNat = p.x.toNat := by omega
    have h2 : (p.y % 18446744073709551616).toNat = p.y.toNat := by omega
    by_cases hin : p.x.toNat < W ∧ p.y.toNat < H <;> simp [hin, h1, h2, toLe_length, toBe_length]

/-! ### `DrawTarget::draw_iter` -/

theorem foldl_toFb (bits : Nat) (o : Order) (W H : Nat) (g : Framebuffer → Pt × Nat → Framebuffer)
    (px : List (Pt × Nat)) (s : Framebuffer)
    (hg : ∀ s w, w ∈ px → toFb bits o W H (g s w) = (toFb bits o W H s).setPixel w.1 w.2) :
    toFb bits o W H (px.foldl g s) = (toFb bits o W H s).drawIter px := by
  induction px generalizing s with
  | nil => rfl
  | cons w t ih =>
    simp only [List.foldl_cons, Fb.drawIter] at ih ⊢
    rw [ih _ (fun s w' hw' => hg s w' (List.mem_cons_of_mem _ hw')), hg s w (List.mem_cons_self ..)]

/-- `draw_iter` of the sub-byte depths and of `RawU8`: `Ok(())`, and the framebuffer afterwards is the model's `drawIter`
(the `for Pixel(p, c) in pixels { self.set_pixel(p, c); }` loop = a left fold of `set_pixel`). The `i32` bound of the
points is needed by the `RawU8` arm only. -/
theorem draw_iter_src_eq_model (BO : DataOrderTy) (o : Order) (W H N : Nat) (s : Framebuffer) (px : List (Pt × Nat))
    (hp : ∀ w ∈ px, PtI32 w.1) :
    toFb 1 (ord BO) W H (Framebuffer_RawU1_DrawTarget_draw_iter BO W H N s px).2 = (toFb 1 (ord BO) W H s).drawIter px ∧
    toFb 2 (ord BO) W H (Framebuffer_RawU2_DrawTarget_draw_iter BO W H N s px).2 = (toFb 2 (ord BO) W H s).drawIter px ∧
    toFb 4 (ord BO) W H (Framebuffer_RawU4_DrawTarget_draw_iter BO W H N s px).2 = (toFb 4 (ord BO) W H s).drawIter px ∧
    toFb 8 o W H (Framebuffer_RawU8_DrawTarget_draw_iter W H N s px).2 = (toFb 8 o W H s).drawIter px ∧
    (Framebuffer_RawU1_DrawTarget_draw_iter BO W H N s px).1 = .ok () ∧
    (Framebuffer_RawU8_DrawTarget_draw_iter W H N s px).1 = .ok () := by
  refine ⟨?_, ?_, ?_, ?_, rfl, rfl⟩
  · unfold Framebuffer_RawU1_DrawTarget_draw_iter for_loop
    show toFb 1 (ord BO) W H (List.foldl _ s px) = _
    apply foldl_toFb
    intro s w hw
    obtain ⟨p, c⟩ := w
    exact (set_pixel_bits_src_eq_model BO W H N s p c).1
  · unfold Framebuffer_RawU2_DrawTarget_draw_iter for_loop
    show toFb 2 (ord BO) W H (List.foldl _ s px) = _
    apply foldl_toFb
    intro s w hw
    obtain ⟨p, c⟩ := w
    exact (set_pixel_bits_src_eq_model BO W H N s p c).2.1
  · unfold Framebuffer_RawU4_DrawTarget_draw_iter for_loop
    show toFb 4 (ord BO) W H (List.foldl _ s px) = _
    apply foldl_toFb
    intro s w hw
    obtain ⟨p, c⟩ := w
    exact (set_pixel_bits_src_eq_model BO W H N s p c).2.2
  · unfold Framebuffer_RawU8_DrawTarget_draw_iter for_loop
    show toFb 8 o W H (List.foldl _ s px) = _
    apply foldl_toFb
    intro s w hw
    obtain ⟨p, c⟩ := w
    exact set_pixel_u8_src_eq_model o W H N s p c (hp (p, c) hw)
example : ∀ w ∈ [((⟨1, 2⟩ : Pt), 3), (⟨-1, 0⟩, 1)], PtI32 w.1 := by decide

/-- `draw_iter` of the six `impl_bytes!` expansions. -/
theorem draw_iter_bytes_src_eq_model (W H N : Nat) (s : Framebuffer) (px : List (Pt × Nat)) (hp : ∀ w ∈ px, PtI32 w.1) :
    toFb 16 .le W H (Framebuffer_RawU16_LittleEndianMsb0_DrawTarget_draw_iter W H N s px).2 = (toFb 16 .le W H s).drawIter px ∧
    toFb 16 .be W H (Framebuffer_RawU16_BigEndianLsb0_DrawTarget_draw_iter W H N s px).2 = (toFb 16 .be W H s).drawIter px ∧
    toFb 24 .le W H (Framebuffer_RawU24_LittleEndianMsb0_DrawTarget_draw_iter W H N s px).2 = (toFb 24 .le W H s).drawIter px ∧
    toFb 24 .be W H (Framebuffer_RawU24_BigEndianLsb0_DrawTarget_draw_iter W H N s px).2 = (toFb 24 .be W H s).drawIter px ∧
    toFb 32 .le W H (Framebuffer_RawU32_LittleEndianMsb0_DrawTarget_draw_iter W H N s px).2 = (toFb 32 .le W H s).drawIter px ∧
    toFb 32 .be W H (Framebuffer_RawU32_BigEndianLsb0_DrawTarget_draw_iter W H N s px).2 = (toFb 32 .be W H s).drawIter px := by
  refine ⟨?_, ?_, ?_, ?_, ?_, ?_⟩
  · unfold Framebuffer_RawU16_LittleEndianMsb0_DrawTarget_draw_iter for_loop
    show toFb 16 .le W H (List.foldl _ s px) = _
    apply foldl_toFb
    intro s w hw
    obtain ⟨p, c⟩ := w
    exact (set_pixel_bytes_src_eq_model W H N s p c (hp (p, c) hw)).1
  · unfold Framebuffer_RawU16_BigEndianLsb0_DrawTarget_draw_iter for_loop
    show toFb 16 .be W H (List.foldl _ s px) = _
    apply foldl_toFb
    intro s w hw
    obtain ⟨p, c⟩ := w
    exact (set_pixel_bytes_src_eq_model W H N s p c (hp (p, c) hw)).2.1
  · unfold Framebuffer_RawU24_LittleEndianMsb0_DrawTarget_draw_iter for_loop
    show toFb 24 .le W H (List.foldl _ s px) = _
    apply foldl_toFb
    intro s w hw
    obtain ⟨p, c⟩ := w
    exact (set_pixel_bytes_src_eq_model W H N s p c (hp (p, c) hw)).2.2.1
  · unfold Framebuffer_RawU24_BigEndianLsb0_DrawTarget_draw_iter for_loop
    show toFb 24 .be W H (List.foldl _ s px) = _
    apply foldl_toFb
    intro s w hw
    obtain ⟨p, c⟩ := w
    exact (set_pixel_bytes_src_eq_model W H N s p c (hp (p, c) hw)).2.2.2.1
  · unfold Framebuffer_RawU32_LittleEndianMsb0_DrawTarget_draw_iter for_loop
    show toFb 32 .le W H (List.foldl _ s px) = _
    apply foldl_toFb
    intro s w hw
    obtain ⟨p, c⟩ := w
    exact (set_pixel_bytes_src_eq_model W H N s p c (hp (p, c) hw)).2.2.2.2.1
  · unfold Framebuffer_RawU32_BigEndianLsb0_DrawTarget_draw_iter for_loop
    show toFb 32 .be W H (List.foldl _ s px) = _
    apply foldl_toFb
    intro s w hw
    obtain ⟨p, c⟩ := w
    exact (set_pixel_bytes_src_eq_model W H N s p c (hp (p, c) hw)).2.2.2.2.2

/-! ### C10's headline over the generated writer -/

/-- get/set with the REGENERATED `set_pixel` as the writer (sub-byte depths; reader = the model's `pixel`, whose Rust
side `as_image().pixel(p)` goes through `ImageRaw` and is not translated): after `set_pixel(p, c)`, `pixel(q)` is `c`
at `q = p` inside the area and what it was everywhere else. -/
theorem src_get_set_bits (BO : DataOrderTy) (W H N : Nat) (s : Framebuffer) (p q : Pt) {c : Nat}
    (hw : (toFb 1 (ord BO) W H s).Wf) (hc : c < 2 ^ 1) :
    (toFb 1 (ord BO) W H (Framebuffer_RawU1_set_pixel BO W H N s p c)).pixel q =
      if q = p ∧ (toFb 1 (ord BO) W H s).inside p then some c else (toFb 1 (ord BO) W H s).pixel q := by
  rw [(set_pixel_bits_src_eq_model BO W H N s p c).1]
  exact EG.C10.get_set _ hw p hc q

/-- ... and for the multi-byte writer (one instance: RawU16, big endian). -/
theorem src_get_set_u16_be (W H N : Nat) (s : Framebuffer) (p q : Pt) {c : Nat} (hp : PtI32 p)
    (hw : (toFb 16 .be W H s).Wf) (hc : c < 2 ^ 16) :
    (toFb 16 .be W H (Framebuffer_RawU16_BigEndianLsb0_set_pixel W H N s p c)).pixel q =
      if q = p ∧ (toFb 16 .be W H s).inside p then some c else (toFb 16 .be W H s).pixel q := by
  rw [(set_pixel_bytes_src_eq_model W H N s p c hp).2.1]
  exact EG.C10.get_set _ hw p hc q
example : (toFb 1 .le 9 2 (Framebuffer_new 9 2 4)).Wf :=
  ⟨by decide, by intro b hb; simp [toFb, Framebuffer_new, array_repeat] at hb; omega, by decide, by decide⟩

/-- What the translator left out of src/framebuffer.rs is exactly this (the read path and the compile-time size
check); an added function or override shows up here. -/
theorem fb_untranslated_pinned :
    EG.Generated.FbSrc.untranslated =
      [("free", ["buffer_size"]),
       ("impl Framebuffer", ["BUFFER_SIZE", "CHECK_N", "as_image", "data", "data_mut"]),
       ("impl Default for Framebuffer", ["default"]),
       ("impl GetPixel for Framebuffer", ["pixel"]),
       ("impl OriginDimensions for Framebuffer", ["size"])] := by decide

end EG.C10.Generated
