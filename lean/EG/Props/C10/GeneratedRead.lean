/-
  C10 — the framebuffer's READ path REGENERATED FROM THE RUST SOURCE equals the hand-written model.

  EG/Generated/FbReadSrc.lean is written by tools/tr_imgsrc.py from the text of src/framebuffer.rs on every check:
  `buffer_size`, `Framebuffer::BUFFER_SIZE`, `data`, `as_image`, `GetPixel::pixel`, `OriginDimensions::size`. `as_image` builds
  an `ImageRaw` with the generated `ImageRaw::new` and `pixel` reads it with the generated `GetPixel::pixel` of
  EG/Generated/ImgSrc.lean (equal to the C09 model by Props/C09/Generated.lean). Each is proved equal to
  `EG.Model.Framebuffer` (`bufferSize`, `Fb.bufSize`, `Fb.asImage`, `Fb.pixel`, `Fb.bbox`).
  Guards: `WIDTH`, `HEIGHT <= u32::MAX` for `as_image` / `size` (`WIDTH as u32` wraps), `<= i32::MAX` for `pixel` (the
  model compares in `Int`, the code with `width as i32`: Lemmas/GlueFbImage.lean `pixel_agree_needs_guard`), `BytesOk` and
  `FitsUsize` of the buffer for `pixel` (the guards of the raw `load`).
  Still untranslated (pinned by `fb_read_untranslated_pinned`): `CHECK_N` (a compile-time `assert!`), `data_mut` (returns
  `&mut`), `Default::default`.
-/
import EG.Generated.FbReadSrc
import EG.Props.C09.Generated
import EG.Props.C10.Generated
import EG.Lemmas.GlueFbImage
set_option linter.unusedSimpArgs false
set_option linter.unusedVariables false
namespace EG.C10.GeneratedRead
open EG EG.Raw EG.Fb EG.RawSrcPrelude EG.ImgSrcPrelude EG.Generated EG.Generated.RawSrc EG.C11.Generated EG.C10.Generated
  EG.C09.Generated

/-- The framebuffer model's image of a generated `ImageRaw`. -/
def toFbImg (C : RawTy) (O : DataOrderTy) (s : ImgSrc.ImageRaw) : Fb.Img := ⟨bits C, ord O, s.data, s.size.w, s.size.h⟩

/-- `buffer_size::<C>(width, height)` -/
theorem buffer_size_src_eq_model (C : RawTy) (w h : Nat) : FbReadSrc.buffer_size C w h = bufferSize w h (bits C) := rfl

/-- `Self::BUFFER_SIZE` -/
theorem BUFFER_SIZE_src_eq_model (C : RawTy) (O : DataOrderTy) (W H N : Nat) (s : FbSrc.Framebuffer) :
    FbReadSrc.Framebuffer_BUFFER_SIZE C W H N = (toFb (bits C) (ord O) W H s).bufSize := rfl

/-- `data()` -/
theorem data_src_eq_model (C : RawTy) (O : DataOrderTy) (W H N : Nat) (s : FbSrc.Framebuffer) :
    FbReadSrc.Framebuffer_data C W H N s = (toFb (bits C) (ord O) W H s).data := rfl

/-- `OriginDimensions::size` (and with it the blanket `bounding_box`) -/
theorem size_src_eq_model (W H N : Nat) (s : FbSrc.Framebuffer) (hW : W ≤ 4294967295) (hH : H ≤ 4294967295)
    (bits : Nat) (o : Order) :
    (⟨Pt.zero, FbReadSrc.Framebuffer_OriginDimensions_size W H N s⟩ : Rect) = (toFb bits o W H s).bbox := by
  unfold FbReadSrc.Framebuffer_OriginDimensions_size Fb.bbox
  simp only [usize_as_u32, EG.C16.Src.Size_new_src_eq_model, toFb, Pt.zero]
  rw [Nat.mod_eq_of_lt (by omega), Nat.mod_eq_of_lt (by omega)]

/-- `as_image()`: `None` = the `unwrap` panics (exactly when the model says so: `N < BUFFER_SIZE`). -/
theorem as_image_src_eq_model (C : RawTy) (O : DataOrderTy) (W H N : Nat) (s : FbSrc.Framebuffer)
    (hW : W ≤ 4294967295) (hH : H ≤ 4294967295) :
    (FbReadSrc.Framebuffer_as_image C O W H N s).map (toFbImg C O) = (toFb (bits C) (ord O) W H s).asImage := by
  unfold FbReadSrc.Framebuffer_as_image Fb.asImage Fb.Img.new ImgSrc.ImageRaw_new
  have hb : FbReadSrc.Framebuffer_BUFFER_SIZE C W H N = (toFb (bits C) (ord O) W H s).bufSize := rfl
  rw [hb]
  have he : (toFb (bits C) (ord O) W H s).bufSize = Fb.bytesPerRow W (bits C) * H := rfl
  simp only [usize_as_u32, EG.C16.Src.Size_new_src_eq_model, slice_index_range, List.drop_zero, Size_width, Size_height,
    u32_as_usize, usize_mul, usize_ne, slice_len, List.length_take, bytes_per_row_src_eq_model, result_unwrap]
  rw [Nat.mod_eq_of_lt (by omega), Nat.mod_eq_of_lt (by omega)]
  have hd : (toFb (bits C) (ord O) W H s).data = s.data := rfl
  rw [hd, he]
  have hbr : Img.bytesPerRow W (RawData_BITS_PER_PIXEL C) = Fb.bytesPerRow W (bits C) := rfl
  rw [hbr]
  by_cases hle : Fb.bytesPerRow W (bits C) * H ≤ s.data.length
  · have : min (Fb.bytesPerRow W (bits C) * H) s.data.length = Fb.bytesPerRow W (bits C) * H := by omega
    simp [hle, this, toFbImg, toFb]
  · have : min (Fb.bytesPerRow W (bits C) * H) s.data.length ≠ Fb.bytesPerRow W (bits C) * H := by omega
    simp [hle, this]

/-- `GetPixel::pixel` of the framebuffer: `self.as_image().pixel(p)`; the outer `Option` is the panic of `as_image`. -/
theorem Framebuffer_pixel_src_eq_model (C : RawTy) (O : DataOrderTy) (W H N : Nat) (s : FbSrc.Framebuffer) (p : Pt)
    (hW : W ≤ 2147483647) (hH : H ≤ 2147483647) (hw : BytesOk s.data) (hlen : FitsUsize s.data) :
    (FbReadSrc.Framebuffer_GetPixel_pixel C O W H N s p).join = (toFb (bits C) (ord O) W H s).pixel p := by
  have ha := as_image_src_eq_model C O W H N s (by omega) (by omega)
  unfold FbReadSrc.Framebuffer_GetPixel_pixel Fb.pixel
  rw [← ha]
  cases hi : FbReadSrc.Framebuffer_as_image C O W H N s with
  | none => rfl
  | some im =>
    simp only [panic_bind, Option.map_some, Option.join_some]
    -- the image `as_image` built: its data is a prefix of the buffer, its size is WIDTH x HEIGHT
    unfold FbReadSrc.Framebuffer_as_image ImgSrc.ImageRaw_new at hi
    simp only [usize_as_u32, EG.C16.Src.Size_new_src_eq_model, slice_index_range, List.drop_zero, result_unwrap] at hi
    rw [Nat.mod_eq_of_lt (by omega), Nat.mod_eq_of_lt (by omega)] at hi
    split at hi
    · rename_i x a heq
      split at heq
      · cases heq
      · cases heq; cases hi
        have hw' : BytesOk (List.take (FbReadSrc.Framebuffer_BUFFER_SIZE C W H N) s.data) :=
          fun b hb => hw b (List.mem_of_mem_take hb)
        have hl' : FitsUsize (List.take (FbReadSrc.Framebuffer_BUFFER_SIZE C W H N) s.data) := by
          unfold FitsUsize at *; rw [List.length_take]; omega
        rw [pixel_src_eq_model C O _ p hw' hl' ⟨by show W ≤ _; omega, by show H ≤ _; omega⟩]
        exact (EG.Glue.pixel_agree ⟨bits C, ord O, _, W, H⟩ hW hH p).symm
    · cases hi
example : BytesOk (FbSrc.Framebuffer_new 9 2 4).data ∧ FitsUsize (FbSrc.Framebuffer_new 9 2 4).data := by
  refine ⟨by intro b hb; simp [FbSrc.Framebuffer_new, array_repeat] at hb; omega, by unfold FitsUsize usizeMax; decide⟩

/-- **`get_set` over the generated functions, both halves**: after the generated `set_pixel` (sub-byte depths), the
generated `pixel` reads what the model's `pixel` reads after the model's `set_pixel`. -/
theorem src_pixel_after_set_pixel_bits (BO : DataOrderTy) (W H N : Nat) (s : FbSrc.Framebuffer) (p q : Pt) (c : Nat)
    (hW : W ≤ 2147483647) (hH : H ≤ 2147483647)
    (hw : BytesOk (FbSrc.Framebuffer_RawU1_set_pixel BO W H N s p c).data)
    (hlen : FitsUsize (FbSrc.Framebuffer_RawU1_set_pixel BO W H N s p c).data) :
    (FbReadSrc.Framebuffer_GetPixel_pixel .RawU1 BO W H N (FbSrc.Framebuffer_RawU1_set_pixel BO W H N s p c) q).join =
      ((toFb 1 (ord BO) W H s).setPixel p c).pixel q := by
  rw [Framebuffer_pixel_src_eq_model .RawU1 BO W H N _ q hW hH hw hlen]
  have := (set_pixel_bits_src_eq_model BO W H N s p c).1
  exact congrArg (fun f : Fb => f.pixel q) this

/-- What the two translators together leave out of src/framebuffer.rs is exactly this; an added function or override
shows up here (the write path's own list is `fb_untranslated_pinned`, which still names the read path because
tools/tr_rawsrc.py does not translate it). -/
theorem fb_read_untranslated_pinned :
    FbReadSrc.untranslated =
      [("impl Framebuffer", ["CHECK_N", "data_mut"]),
       ("impl Default for Framebuffer", ["default"])] := by decide

end EG.C10.GeneratedRead
