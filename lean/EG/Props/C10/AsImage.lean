/-
  C10 / as_image — drawing `fb.as_image()` reproduces the framebuffer's content.

  Closes the sub-claim that `EG/Props/C10.lean` lists as carried by correspondence only, by
  COMBINING the two separately built models:
    * C10 (`EG.Model.Framebuffer`): `as_image()` is the image over the first BUFFER_SIZE bytes,
      `Framebuffer::pixel` after any write history is the last colour written (`history_refines_map`);
    * C09 (`EG.Model.ImageRaw`): `Image::new(&raw, o).draw(target)` sets `o + p` to `raw.pixel(p)`
      and touches nothing else (`EG.C09.draw_exact`, through `ContiguousPixels` / `fill_contiguous`).
  The glue (`EG/Lemmas/GlueFbImage.lean`) shows that the minimal image `EG.Fb.Img` of the framebuffer
  model and the C09 `ImageRaw` over the same depth / order / bytes / size are the same image: same
  length check, same `data_width`, same `pixel` function (`pixel_agree`), and that it is well formed
  (`ImageRaw.WF`).

  Quantifiers: every well-formed framebuffer (`Fb.Wf`: 7 depths, both orders, any WIDTH / HEIGHT,
  any N >= BUFFER_SIZE, any byte content), every offset `o` and every target box `B`, on the
  native-fill target and on the draw_iter-only target. The hypothesis `Rect.InRange ⟨o, W x H⟩` is
  C09's guard (the placed image box fits into `i32`; it also gives `W, H <= i32::MAX`, below which the
  `as i32` casts of `ImageRaw::pixel` do not wrap, see `EG.Glue.pixel_agree_needs_guard`).

  -- (closed) the colour <-> raw conversions `C::into()` / `C::from(raw)` on the way into the framebuffer and out of the image lose nothing: Props/C10/Colours.lean (into the framebuffer) and Props/C09/Colours.lean (out of the image), both from C12's round-trip theorems
  -- [V] that the real `Framebuffer::as_image()` hands the real `ImageRaw::draw` code the same bytes the two models share (Rust-level: `&self.data[0..BUFFER_SIZE]`): carried by correspondence (`img=` field of fb.hist) + oracle only
-/
import EG.Lemmas.GlueFbImage
import EG.Props.C09
import EG.Props.C10
namespace EG.C10.AsImage
open EG EG.Raw EG.Fb EG.Img EG.Glue

/-- The model's `as_image()` is the C09 raw image `asRaw fb` (same depth, order, first BUFFER_SIZE
bytes, WIDTH x HEIGHT), accepted by C09's `ImageRaw::new`, well formed, and with the same `pixel`
function as `Framebuffer::pixel` at EVERY point. -/
theorem as_image_is_image_raw (fb : Fb) (hw : fb.Wf) (hW : fb.width ≤ 2147483647)
    (hH : fb.height ≤ 2147483647) :
    fb.asImage.map toRaw = some (asRaw fb) ∧
      ImageRaw.new fb.bits fb.order (fb.data.take fb.bufSize) ⟨fb.width, fb.height⟩ = .ok (asRaw fb) ∧
      (asRaw fb).WF ∧ ∀ p, fb.pixel p = (asRaw fb).pixel p :=
  ⟨asImage_toRaw fb hw, asRaw_eq_new fb hw, asRaw_wf fb hw hW hH, fb_pixel_eq_raw_pixel fb hw hW hH⟩

/-- The two image transcriptions have the same `pixel` function. -/
theorem pixel_agree (im : Fb.Img) (hw : im.w ≤ 2147483647) (hh : im.h ≤ 2147483647) (p : Pt) :
    im.pixel p = (toRaw im).pixel p := Glue.pixel_agree im hw hh p
example : (⟨1, .le, [0xAA, 0x80], 9, 1⟩ : Fb.Img).w ≤ 2147483647 := by decide

/-- The image `Image::new(&fb.as_image(), o)` of the model. -/
def asImageAt (fb : Fb) (o : Pt) : Image := Image.new (.raw (asRaw fb)) o

/-- **`as_image_draw_reproduces`** (native-fill target): drawing `Image::new(&fb.as_image(), o)`
on a target with box `B` leaves, at EVERY target point `q`, the framebuffer's `pixel(q - o)` if `q`
is in `B` and nothing otherwise. Since `pixel` is `None` exactly outside WIDTH x HEIGHT
(`EG.C10.pixel_none_iff_outside`), this says: `o + p` is set to `fb.pixel(p)` for every `p` of
`0..W x 0..H` (inside `B`) and nothing else is touched. -/
theorem as_image_draw_reproduces (fb : Fb) (hw : fb.Wf) (o : Pt)
    (hr : (⟨o, ⟨fb.width, fb.height⟩⟩ : Rect).InRange) (B : Rect) (q : Pt) :
    runNative B (asImageAt fb o).draw q = if B.contains q = true then fb.pixel (q - o) else none := by
  have hW := hr.w_le
  have hH := hr.h_le
  have hwf := asRaw_wf fb hw hW hH
  have hr' : (Image.new (.raw (asRaw fb)) o).boundingBox.InRange := by
    rw [Image.boundingBox_new]; exact hr
  have h := EG.C09.draw_exact_raw (asRaw fb) hwf o hr' B (q - o)
  rw [pt_sub_add_cancel] at h
  unfold asImageAt
  rw [h, fb_pixel_eq_raw_pixel fb hw hW hH]
example : (⟨⟨-3, 4⟩, ⟨5, 3⟩⟩ : Rect).InRange := by decide

/-- The same on a target that implements `draw_iter` only (trait defaults). -/
theorem as_image_draw_reproduces_default (fb : Fb) (hw : fb.Wf) (o : Pt)
    (hr : (⟨o, ⟨fb.width, fb.height⟩⟩ : Rect).InRange) (B : Rect) (q : Pt) :
    runDefault B (asImageAt fb o).draw q = if B.contains q = true then fb.pixel (q - o) else none := by
  have hwf := asRaw_wf fb hw hr.w_le hr.h_le
  unfold asImageAt
  rw [Image.runDefault_eq_runNative _ (show (Image.new (.raw (asRaw fb)) o).drawable.Good from hwf)]
  exact as_image_draw_reproduces fb hw o hr B q

/-- Point form: target point `p + o` gets exactly the value `fb.pixel(p)` for every `p` inside
WIDTH x HEIGHT whose image `p + o` lies in `B` — a `Some`: the point IS written — ... -/
theorem as_image_draw_sets (fb : Fb) (hw : fb.Wf) (o : Pt)
    (hr : (⟨o, ⟨fb.width, fb.height⟩⟩ : Rect).InRange) (B : Rect) (p : Pt) (hp : fb.inside p)
    (hb : B.contains (p + o) = true) :
    ∃ v, fb.pixel p = some v ∧ runNative B (asImageAt fb o).draw (p + o) = some v ∧
      runDefault B (asImageAt fb o).draw (p + o) = some v := by
  have h1 := as_image_draw_reproduces fb hw o hr B (p + o)
  have h2 := as_image_draw_reproduces_default fb hw o hr B (p + o)
  rw [pt_add_sub_cancel] at h1 h2
  simp only [hb, ↓reduceIte] at h1 h2
  cases hv : fb.pixel p with
  | none => exact absurd ((EG.C10.pixel_none_iff_outside fb hw p).mp hv) (not_not_intro hp)
  | some v => exact ⟨v, rfl, by rw [h1, hv], by rw [h2, hv]⟩
example : (Fb.new 2 .be 5 3 9).inside ⟨4, 2⟩ ∧
    (⟨⟨0, 0⟩, ⟨64, 64⟩⟩ : Rect).contains ((⟨4, 2⟩ : Pt) + ⟨7, 1⟩) = true := by decide

/-- ... and every target point that is not `p + o` for a `p` inside WIDTH x HEIGHT stays untouched. -/
theorem as_image_draw_touches_nothing_else (fb : Fb) (hw : fb.Wf) (o : Pt)
    (hr : (⟨o, ⟨fb.width, fb.height⟩⟩ : Rect).InRange) (B : Rect) (q : Pt)
    (hq : ¬ fb.inside (q - o)) :
    runNative B (asImageAt fb o).draw q = none ∧ runDefault B (asImageAt fb o).draw q = none := by
  have hn := (EG.C10.pixel_none_iff_outside fb hw (q - o)).mpr hq
  rw [as_image_draw_reproduces fb hw o hr B q, as_image_draw_reproduces_default fb hw o hr B q, hn]
  simp only [ite_self, and_self]
example : ¬ (Fb.new 2 .be 5 3 9).inside ((⟨7, 1⟩ : Pt) - ⟨7, 2⟩) := by decide

/-- **After any write history**: a fresh framebuffer (any depth / order / size / N) receives ANY
list of pixel writes `ws`; drawing its `as_image()` at `o` on an empty target with box `B` then
shows, at every target point `q` of `B` with `q - o` inside WIDTH x HEIGHT, the colour last written
to `q - o` (the zero colour if it was never written), and nothing anywhere else: the drawn picture
is the write history's last-write map, shifted by `o` and clipped to `B`. -/
theorem as_image_draw_history {bits : Nat} (hb : validBits bits = true) (od : Order) (w h n : Nat)
    (hn : bufferSize w h bits ≤ n) (hf : n * 8 ≤ usizeMax) (ws : Writes) (hc : ColorsOk bits ws)
    (o : Pt) (hr : (⟨o, ⟨w, h⟩⟩ : Rect).InRange) (B : Rect) (q : Pt) :
    runNative B (asImageAt ((Fb.new bits od w h n).drawIter ws) o).draw q =
      (if B.contains q = true ∧ (Fb.new bits od w h n).inside (q - o) then
        some (((PMap.empty.apply ws) (q - o)).getD 0) else none) ∧
    runDefault B (asImageAt ((Fb.new bits od w h n).drawIter ws) o).draw q =
      (if B.contains q = true ∧ (Fb.new bits od w h n).inside (q - o) then
        some (((PMap.empty.apply ws) (q - o)).getD 0) else none) := by
  have hw0 := new_wf hb od w h n hn hf
  have hwf : ((Fb.new bits od w h n).drawIter ws).Wf :=
    (refines_drawIter _ hw0 _ (new_refines hb od w h n hn hf) ws hc).1
  have hr' : (⟨o, ⟨((Fb.new bits od w h n).drawIter ws).width,
      ((Fb.new bits od w h n).drawIter ws).height⟩⟩ : Rect).InRange := by
    rw [drawIter_width, drawIter_height]; exact hr
  rw [as_image_draw_reproduces _ hwf o hr' B q, as_image_draw_reproduces_default _ hwf o hr' B q,
    EG.C10.history_refines_map hb od w h n hn hf ws hc (q - o)]
  by_cases hB : B.contains q = true <;> by_cases hi : (Fb.new bits od w h n).inside (q - o) <;>
    simp only [hB, hi, and_self, and_true, and_false, ↓reduceIte, Bool.false_eq_true]
example : ColorsOk 2 [(⟨4, 1⟩, 3), (⟨7, 7⟩, 1), (⟨4, 1⟩, 2)] ∧ bufferSize 5 3 2 ≤ 9 ∧
    (⟨⟨10, -2⟩, ⟨5, 3⟩⟩ : Rect).InRange := by
  refine ⟨?_, by decide, by decide⟩
  intro w hw; simp at hw; rcases hw with rfl | rfl | rfl <;> decide

/-- The same after any sequence of `DrawTarget` calls on the framebuffer (they are `set_pixel`
histories, `EG.C10.drawing_ops_are_set_pixel_histories`). -/
theorem as_image_draw_call_history {bits : Nat} (hb : validBits bits = true) (od : Order) (w h n : Nat)
    (hn : bufferSize w h bits ≤ n) (hf : n * 8 ≤ usizeMax) (calls : List Call)
    (hc : ColorsOk bits (calls.flatMap (Call.lowerDefault (Fb.new bits od w h n).bbox)))
    (o : Pt) (hr : (⟨o, ⟨w, h⟩⟩ : Rect).InRange) (B : Rect) (q : Pt) :
    runNative B (asImageAt ((Fb.new bits od w h n).run calls) o).draw q =
      (if B.contains q = true ∧ (Fb.new bits od w h n).inside (q - o) then
        some (((PMap.empty.apply
          (calls.flatMap (Call.lowerDefault (Fb.new bits od w h n).bbox))) (q - o)).getD 0)
       else none) := by
  rw [run_eq_drawIter]
  exact (as_image_draw_history hb od w h n hn hf _ hc o hr B q).1

/-- A concrete run through both models: write two pixels into a 5x3 two-bit framebuffer, draw its
image at (7,1): the written colours appear at the shifted points, zero elsewhere in the image. -/
example :
    let fb := (Fb.new 2 .be 5 3 9).drawIter [(⟨4, 1⟩, 3), (⟨0, 2⟩, 1), (⟨4, 1⟩, 2)]
    runNative ⟨⟨0, 0⟩, ⟨64, 64⟩⟩ (asImageAt fb ⟨7, 1⟩).draw ⟨11, 2⟩ = some 2 ∧
    runNative ⟨⟨0, 0⟩, ⟨64, 64⟩⟩ (asImageAt fb ⟨7, 1⟩).draw ⟨7, 3⟩ = some 1 ∧
    runNative ⟨⟨0, 0⟩, ⟨64, 64⟩⟩ (asImageAt fb ⟨7, 1⟩).draw ⟨8, 1⟩ = some 0 ∧
    runNative ⟨⟨0, 0⟩, ⟨64, 64⟩⟩ (asImageAt fb ⟨7, 1⟩).draw ⟨12, 1⟩ = none := by decide +kernel

end EG.C10.AsImage
