/-
  C11 — the headline theorems of EG/Props/C11.lean restated over the functions REGENERATED FROM THE RUST TEXT
  (`EG.Generated.RawSrc`, tools/tr_rawsrc.py), as corollaries of the equivalence theorems of Generated.lean.

  Quantifiers: `R` over the seven implementors of `RawData` (= the seven valid depths, `rawTy_covers_validBits`),
  `O` over both implementors of `DataOrder`, `buf` over byte buffers (`BytesOk`) of any length that is a `usize`
  (`FitsUsize`), `i`, `j`, `k` over ALL natural numbers, `v` over the values of the raw type (`v < 2^bits`).
-/
import EG.Props.C11.Generated
import EG.Props.C11
namespace EG.C11.Generated
open EG EG.Raw EG.RawSrcPrelude EG.Generated.RawSrc

theorem FitsUsize.of_length_eq {a b : List Nat} (h : a.length = b.length) (hb : FitsUsize b) : FitsUsize a := by
  unfold FitsUsize at *; omega

/-- `store(v, buf, i)` then `load(buf, i)` returns `v` — over the generated `RawData::store` / `RawData::load`. -/
theorem src_load_store_same (R : RawTy) (O : DataOrderTy) {v : Nat} {buf : List Nat} {i : Nat}
    (hw : BytesOk buf) (hlen : FitsUsize buf) (hv : v < 2 ^ bits R) (hin : i < pixelCount (bits R) buf.length) :
    (RawData_store R O v buf i).1 = true ∧
      RawData_load R O (RawData_store R O v buf i).2 i = some v := by
  rw [store_src_eq_model R O v buf i hlen]
  have hb := bits_valid R
  rw [load_src_eq_model R O _ i (store_bytesOk hb (ord O) i hw hv)
    (FitsUsize.of_length_eq (store_length hb (ord O) v buf i) hlen)]
  exact ⟨store_inside hb (ord O) v buf i hin, Raw.load_store_same hb (ord O) hw hv hin⟩

/-- ... and every other index loads what it loaded before. -/
theorem src_load_store_other (R : RawTy) (O : DataOrderTy) {v : Nat} {buf : List Nat} {i j : Nat}
    (hw : BytesOk buf) (hlen : FitsUsize buf) (hv : v < 2 ^ bits R) (hne : j ≠ i) :
    RawData_load R O (RawData_store R O v buf i).2 j = RawData_load R O buf j := by
  rw [store_src_eq_model R O v buf i hlen]
  have hb := bits_valid R
  rw [load_src_eq_model R O _ j (store_bytesOk hb (ord O) i hw hv)
    (FitsUsize.of_length_eq (store_length hb (ord O) v buf i) hlen), load_src_eq_model R O buf j hw hlen]
  exact Raw.load_store_other hb (ord O) hw hv hne

/-- `store` beyond the buffer: `Err(OutOfBoundsError)` and the buffer is unchanged; inside it succeeds. -/
theorem src_store_oob (R : RawTy) (O : DataOrderTy) (v : Nat) (buf : List Nat) (i : Nat) (hlen : FitsUsize buf) :
    (pixelCount (bits R) buf.length ≤ i → RawData_store R O v buf i = (false, buf)) ∧
    (i < pixelCount (bits R) buf.length → (RawData_store R O v buf i).1 = true) := by
  rw [store_src_eq_model R O v buf i hlen]
  exact ⟨store_outside (bits_valid R) (ord O) v buf i, store_inside (bits_valid R) (ord O) v buf i⟩

/-- `load` returns `None` exactly for the indices beyond the buffer. -/
theorem src_load_oob (R : RawTy) (O : DataOrderTy) (buf : List Nat) (i : Nat) (hw : BytesOk buf)
    (hlen : FitsUsize buf) :
    RawData_load R O buf i = none ↔ pixelCount (bits R) buf.length ≤ i := by
  rw [load_src_eq_model R O buf i hw hlen]
  exact load_eq_none_iff (bits_valid R) (ord O) buf i

/-- `store` keeps the length and every byte that does not belong to pixel `i`. -/
theorem src_store_touches_only (R : RawTy) (O : DataOrderTy) (v : Nat) (buf : List Nat) (i : Nat)
    (hlen : FitsUsize buf) :
    (RawData_store R O v buf i).2.length = buf.length ∧
    ∀ k, ¬ ownByte (bits R) i k → (RawData_store R O v buf i).2[k]? = buf[k]? := by
  rw [store_src_eq_model R O v buf i hlen]
  exact ⟨store_length (bits_valid R) (ord O) v buf i, fun k hk => store_other_bytes (bits_valid R) (ord O) v buf i k hk⟩

/-- What a `for` loop over the generated iterator sees (explicit fuel, as `Iter.toListFuel`). -/
def srcToListFuel (R : RawTy) (O : DataOrderTy) : Nat → RawDataIterator → List Nat
  | 0, _ => []
  | fuel + 1, s =>
    match RawDataIterator_Iterator_next R O s with
    | (none, _) => []
    | (some v, s') => v :: srcToListFuel R O fuel s'

theorem next_keeps_data (R : RawTy) (O : DataOrderTy) (s : RawDataIterator) :
    (RawDataIterator_Iterator_next R O s).2.data = s.data := by
  unfold RawDataIterator_Iterator_next option_inspect_self
  cases RawData_load R O s.data s.index <;> rfl

theorem srcToListFuel_eq_model (R : RawTy) (O : DataOrderTy) (fuel : Nat) (s : RawDataIterator)
    (hw : BytesOk s.data) (hlen : FitsUsize s.data) :
    srcToListFuel R O fuel s = Iter.toListFuel fuel (toModel R O s) := by
  induction fuel generalizing s with
  | zero => rfl
  | succ f ih =>
    obtain ⟨h1, h2⟩ := Iterator_next_src_eq_model R O s hw hlen
    have hd := next_keeps_data R O s
    unfold srcToListFuel Iter.toListFuel
    rcases hn : RawDataIterator_Iterator_next R O s with ⟨x, s'⟩
    rcases hm : Iter.next (toModel R O s) with ⟨y, m'⟩
    rw [hn] at h1 h2 hd
    rw [hm] at h1 h2
    dsimp only at h1 h2 hd
    subst h1
    subst h2
    cases x with
    | none => rfl
    | some v =>
      dsimp only
      rw [ih s' (hd ▸ hw) (hd ▸ hlen)]

/-- Iterating a `RawDataSlice` yields exactly `load(0), load(1), ...`, as many as fit — over the generated
`RawDataIterator::new`, `Iterator::next` and `RawData::load`. -/
theorem src_iter_toList (R : RawTy) (O : DataOrderTy) (data : List Nat) (hw : BytesOk data) (hlen : FitsUsize data) :
    (srcToListFuel R O (8 * data.length + 1) (RawDataIterator_new data)).map some
      = (List.range (pixelCount (bits R) data.length)).map (RawData_load R O data) := by
  rw [srcToListFuel_eq_model R O _ _ hw hlen]
  have := EG.C11.iter_toList (bits_valid R) (ord O) data
  unfold Iter.toList Iter.new at this
  have hfun : RawData_load R O data = load (bits R) (ord O) data := by
    funext k; exact load_src_eq_model R O data k hw hlen
  rw [hfun]
  exact this

/-- `nth(k)` on a fresh iterator is `load(k)` (what `ImageRaw::pixel` relies on). -/
theorem src_iter_nth_fresh (R : RawTy) (O : DataOrderTy) (data : List Nat) (hw : BytesOk data)
    (hf : data.length * 8 ≤ usizeMax) (k : Nat) :
    (RawDataIterator_Iterator_nth R O (RawDataIterator_new data) k).1 = RawData_load R O data k := by
  have hlen : FitsUsize data := by unfold FitsUsize; omega
  rw [(Iterator_nth_src_eq_model R O _ k hw hlen).1, load_src_eq_model R O data k hw hlen]
  exact EG.C11.iter_nth_fresh (bits_valid R) (ord O) data hf k

/-- `size_hint` of the generated iterator is exact (lower = upper = number of items still to come). -/
theorem src_size_hint_exact (R : RawTy) (O : DataOrderTy) (s : RawDataIterator)
    (hf : s.data.length * 8 ≤ usizeMax) :
    RawDataIterator_Iterator_size_hint R O s
      = ((toModel R O s).toList.length, some (toModel R O s).toList.length) := by
  rw [Iterator_size_hint_src_eq_model]
  exact EG.C11.size_hint_exact (toModel R O s) (bits_valid R) hf

/-! ### Non-vacuity -/
example : BytesOk [0x12, 0xA5, 0xFF] ∧ FitsUsize [0x12, 0xA5, 0xFF] ∧ (1 : Nat) < 2 ^ bits .RawU2 ∧
    5 < pixelCount (bits .RawU2) [0x12, 0xA5, 0xFF].length ∧ [0x12, 0xA5, 0xFF].length * 8 ≤ usizeMax :=
  ⟨by intro b hb; simp at hb; omega, by decide, by decide, by decide, by decide⟩
example : RawData_store .RawU2 .LittleEndianMsb0 1 [0x12, 0xA5, 0xFF] 5 = (true, [0x12, 0x95, 0xFF]) := by decide
example : RawData_store .RawU24 .BigEndianLsb0 0x123456 [1, 2, 3, 4, 5, 6, 7] 1 = (true, [1, 2, 3, 0x12, 0x34, 0x56, 7]) := by
  decide
example : RawData_store .RawU16 .LittleEndianMsb0 0x1234 [1, 2, 3] 1 = (false, [1, 2, 3]) := by decide
example : RawData_load .RawU4 .LittleEndianMsb0 [0x12, 0xA5] 2 = some 0xA ∧
    RawData_load .RawU4 .BigEndianLsb0 [0x12, 0xA5] 2 = some 5 := by decide
example : srcToListFuel .RawU16 .BigEndianLsb0 41 (RawDataIterator_new [0xAA, 0xBB, 0x12, 0x34, 0x99]) = [0xAABB, 0x1234] := by
  decide

end EG.C11.Generated
