/-
  C11 — the raw data layer REGENERATED FROM THE RUST TEXT equals the hand-written model.

  `EG.Generated.RawSrc` (written by tools/tr_rawsrc.py from core/src/pixelcolor/raw/{mod,load_store,to_bytes}.rs and
  src/iterator/raw.rs on every check; macros expanded per invocation) is proved equal to the hand model
  `EG.Model.Raw`, for every raw type `R` (the seven implementors of `RawData` = the seven valid depths,
  `rawTy_covers_validBits`), both data orders, ALL buffers, indices and values. `bits R` IS the generated
  `RawData_BITS_PER_PIXEL R`, `ord O` reads the generated `DataOrder_IS_ALTERNATE_ORDER O`; no hand-written table.

  Guards, exactly (type bounds that `Nat` / `List Nat` lack; each with an `example`):
    * `BytesOk buf` (every buffer element is a `u8`) for `load` of 8 / 16 / 32 bits: `Self::new` masks with
      `Storage::MAX`, which is the identity on bytes (`load_differs_without_bytesok`);
    * `FitsUsize buf` (`buf.length <= usize::MAX`) for the multi-byte `load` / `store`: the source rejects an index
      whose byte offset overflows `usize` by `checked_mul`, the hand model by the slice test that follows;
  `bit_position`, the sub-byte `load` / `store`, `RawU8::store`, `size_hint`, `new` are unconditional.
  Then C11's headline (`load_store_same/other`, out of range = `None` / error with unchanged buffer, iteration =
  `load(0), load(1), ..`) is restated over the generated functions.
-/
import EG.Generated.RawSrc
import EG.Lemmas.RawIter
import EG.Lemmas.RawLoadStore
namespace EG.C11.Generated
open EG EG.Raw EG.RawSrcPrelude EG.Generated.RawSrc

/-- `R::BITS_PER_PIXEL`, from the generated constants. -/
abbrev bits (R : RawTy) : Nat := RawData_BITS_PER_PIXEL R
/-- the hand model's `Order` of a `DataOrder` implementor, from the generated `IS_ALTERNATE_ORDER`. -/
abbrev ord (O : DataOrderTy) : Order := if DataOrder_IS_ALTERNATE_ORDER O then .be else .le

/-- `buffer.len()` is a `usize`. -/
def FitsUsize (buf : List Nat) : Prop := buf.length ≤ usizeMax
instance (buf : List Nat) : Decidable (FitsUsize buf) := by unfold FitsUsize; exact inferInstance
example : FitsUsize [0x12, 0xA5, 0xFF] := by decide

macro "raw_simp" "[" ls:Lean.Parser.Tactic.simpLemma,* "]" loc:(Lean.Parser.Tactic.location)? : tactic =>
  `(tactic| simp only [usize_add, usize_sub, usize_mul, usize_div, usize_rem, usize_lt, usize_le, usize_gt, usize_ge, usize_eq, usize_ne, usize_checked_mul,
      usize_saturating_add, usize_saturating_mul, usize_saturating_sub, u32_sub, u8_MAX, u16_MAX, u32_MAX, u8_BITS,
      u16_BITS, u32_BITS, u8_and, u8_or, u8_not, u8_shl, u8_shr, u16_and, u16_shr, u32_and, u32_shr, bool_and, bool_or,
      bool_not, u32_as_u8, u32_as_u16, u32_as_u32, u8_to_le_bytes, u8_to_be_bytes, u16_to_le_bytes, u16_to_be_bytes,
      u32_to_le_bytes, u32_to_be_bytes, u16_from_le_bytes, u16_from_be_bytes, u32_from_le_bytes, u32_from_be_bytes,
      slice_len, slice_get, slice_get_from, slice_get_range, slice_index_range, slice_try_into_array, tryinto_unwrap,
      array_repeat, array_copy_from_slice, array_range_copy_from_slice, mutslice_root, mutslice_content,
      mutslice_get_mut, mutslice_get_mut_from, mutslice_get_mut_range, mutslice_copy_from_slice, mutu8_read,
      mutu8_write, option_map, option_and_then, option_copied, option_ok_or, result_map, option_inspect_self,
      store_result, OutOfBoundsError, $ls,*] $[$loc]?)

/-! ### the enumerations and constants -/

/-- The implementors of `RawData` are exactly the seven valid depths. -/
theorem rawTy_covers_validBits (b : Nat) : validBits b = true ↔ ∃ R : RawTy, bits R = b := by
  constructor
  · intro h
    simp only [validBits, Bool.or_eq_true, beq_iff_eq] at h
    rcases h with (((((rfl | rfl) | rfl) | rfl) | rfl) | rfl) | rfl
    · exact ⟨.RawU1, rfl⟩
    · exact ⟨.RawU2, rfl⟩
    · exact ⟨.RawU4, rfl⟩
    · exact ⟨.RawU8, rfl⟩
    · exact ⟨.RawU16, rfl⟩
    · exact ⟨.RawU24, rfl⟩
    · exact ⟨.RawU32, rfl⟩
  · intro ⟨R, hR⟩
    subst hR
    cases R <;> rfl

theorem bits_valid (R : RawTy) : validBits (bits R) = true := by cases R <;> rfl

/-- Both data orders are implementors of `DataOrder`, with the flag the hand model gives them. -/
theorem ord_covers : ord .LittleEndianMsb0 = .le ∧ ord .BigEndianLsb0 = .be ∧
    ∀ O, (ord O).alt = DataOrder_IS_ALTERNATE_ORDER O := by
  refine ⟨rfl, rfl, fun O => ?_⟩
  cases O <;> rfl

/-- `R::MASK = Storage::MAX >> (Storage::BITS - bpp)` is the hand model's `mask`. -/
theorem MASK_src_eq_model (R : RawTy) : RawData_MASK R = mask (bits R) := by
  cases R <;> decide

/-- The shift in `MASK` stays below the storage width (a shift by the full width would panic). -/
theorem mask_shift_in_range :
    u8_BITS - 1 < 8 ∧ u8_BITS - 2 < 8 ∧ u8_BITS - 4 < 8 ∧ u8_BITS - 8 < 8 ∧ u16_BITS - 16 < 16 ∧
      u32_BITS - 24 < 32 ∧ u32_BITS - 32 < 32 := by decide

/-- `RawUx::new(value) = value & MASK` is the hand model's `rawNew`; `From<Storage>` is `new`. -/
theorem new_src_eq_model (v : Nat) :
    RawU1_new v = rawNew 1 v ∧ RawU2_new v = rawNew 2 v ∧ RawU4_new v = rawNew 4 v ∧ RawU8_new v = rawNew 8 v ∧
    RawU16_new v = rawNew 16 v ∧ RawU24_new v = rawNew 24 v ∧ RawU32_new v = rawNew 32 v ∧
    RawU1_From_from v = rawNew 1 v ∧ RawU2_From_from v = rawNew 2 v ∧ RawU4_From_from v = rawNew 4 v ∧
    RawU8_From_from v = rawNew 8 v ∧ RawU16_From_from v = rawNew 16 v ∧ RawU24_From_from v = rawNew 24 v ∧
    RawU32_From_from v = rawNew 32 v := by
  refine ⟨?_, ?_, ?_, ?_, ?_, ?_, ?_, ?_, ?_, ?_, ?_, ?_, ?_, ?_⟩ <;> rfl

/-- `into_inner` / `new_unmasked` are the identity on the stored number. -/
theorem into_inner_src_eq_model (R : RawTy) (v : Nat) : RawData_into_inner R v = v := by cases R <;> rfl

/-- `from_u32(value) = new(value as Storage)`: truncate to the storage type, then mask. -/
theorem from_u32_src_eq_model (R : RawTy) (v : Nat) :
    RawData_from_u32 R v = rawNew (bits R) v := by
  cases R
  all_goals
    simp only [RawData_from_u32, RawU1_RawData_from_u32, RawU2_RawData_from_u32, RawU4_RawData_from_u32,
      RawU8_RawData_from_u32, RawU16_RawData_from_u32, RawU24_RawData_from_u32, RawU32_RawData_from_u32,
      (new_src_eq_model _).1, (new_src_eq_model _).2.1, (new_src_eq_model _).2.2.1, (new_src_eq_model _).2.2.2.1,
      (new_src_eq_model _).2.2.2.2.1, (new_src_eq_model _).2.2.2.2.2.1, (new_src_eq_model _).2.2.2.2.2.2.1,
      u32_as_u8, u32_as_u16, u32_as_u32, rawNew, mask, bits, RawData_BITS_PER_PIXEL, RawU1_RawData_BITS_PER_PIXEL,
      RawU2_RawData_BITS_PER_PIXEL, RawU4_RawData_BITS_PER_PIXEL, RawU8_RawData_BITS_PER_PIXEL,
      RawU16_RawData_BITS_PER_PIXEL, RawU24_RawData_BITS_PER_PIXEL, RawU32_RawData_BITS_PER_PIXEL,
      Nat.and_two_pow_sub_one_eq_mod]
  all_goals omega

/-! ### `bit_position` -/

/-- `bit_position::<R, O>(index)` = the hand model's `bitPosition`, for every raw type, order and index. -/
theorem bit_position_src_eq_model (R : RawTy) (O : DataOrderTy) (i : Nat) :
    bit_position R O i = bitPosition (bits R) (ord O) i := by
  cases O <;>
    simp only [bit_position, bitPosition, ord, DataOrder_IS_ALTERNATE_ORDER,
      LittleEndianMsb0_DataOrder_IS_ALTERNATE_ORDER, BigEndianLsb0_DataOrder_IS_ALTERNATE_ORDER, Order.alt,
      usize_div, usize_mul, usize_rem, usize_sub, ↓reduceIte, Bool.false_eq_true]

/-- The bit index a sub-byte `load` / `store` shifts by is below 8 (a `u8` shift by 8 or more would panic). -/
theorem bit_index_lt_8 (R : RawTy) (O : DataOrderTy) (i : Nat) (h : bits R < 8) : (bit_position R O i).2 < 8 := by
  rw [bit_position_src_eq_model]
  have hm : ∀ p, 0 < p → i % p ≤ p - 1 := fun p hp => by have := Nat.mod_lt i hp; omega
  cases R <;> cases O <;>
    simp only [bits, RawData_BITS_PER_PIXEL, RawU1_RawData_BITS_PER_PIXEL, RawU2_RawData_BITS_PER_PIXEL,
      RawU4_RawData_BITS_PER_PIXEL, RawU8_RawData_BITS_PER_PIXEL, RawU16_RawData_BITS_PER_PIXEL,
      RawU24_RawData_BITS_PER_PIXEL, RawU32_RawData_BITS_PER_PIXEL, bitPosition, ord, DataOrder_IS_ALTERNATE_ORDER,
      LittleEndianMsb0_DataOrder_IS_ALTERNATE_ORDER, BigEndianLsb0_DataOrder_IS_ALTERNATE_ORDER, Order.alt,
      ↓reduceIte, Bool.false_eq_true, Nat.reduceDiv] at h ⊢ <;> omega
example : bits .RawU2 < 8 := by decide

/-! ### `load` -/

theorem fromLe_append_zero (l : List Nat) : fromLe (l ++ [0]) = fromLe l := by
  induction l with
  | nil => rfl
  | cons a t ih => simp only [List.cons_append, fromLe, ih]

/-- sub-byte `load` (the three expansions of `impl_load_store_bits!`): unconditional. -/
theorem load_bits_src_eq_model (O : DataOrderTy) (buf : List Nat) (i : Nat) :
    RawU1_LoadStore_load O buf i = loadBits 1 (ord O) buf i ∧
    RawU2_LoadStore_load O buf i = loadBits 2 (ord O) buf i ∧
    RawU4_LoadStore_load O buf i = loadBits 4 (ord O) buf i := by
  refine ⟨?_, ?_, ?_⟩
  · have hp := bit_position_src_eq_model .RawU1 O i
    simp only [bits, RawData_BITS_PER_PIXEL, RawU1_RawData_BITS_PER_PIXEL] at hp
    raw_simp [RawU1_LoadStore_load, loadBits, hp, RawU1_From_from, RawU1_new, loadByte, rawNew]
    cases buf[(bitPosition 1 (ord O) i).1]? <;> rfl
  · have hp := bit_position_src_eq_model .RawU2 O i
    simp only [bits, RawData_BITS_PER_PIXEL, RawU2_RawData_BITS_PER_PIXEL] at hp
    raw_simp [RawU2_LoadStore_load, loadBits, hp, RawU2_From_from, RawU2_new, loadByte, rawNew]
    cases buf[(bitPosition 2 (ord O) i).1]? <;> rfl
  · have hp := bit_position_src_eq_model .RawU4 O i
    simp only [bits, RawData_BITS_PER_PIXEL, RawU4_RawData_BITS_PER_PIXEL] at hp
    raw_simp [RawU4_LoadStore_load, loadBits, hp, RawU4_From_from, RawU4_new, loadByte, rawNew]
    cases buf[(bitPosition 4 (ord O) i).1]? <;> rfl

/-- `RawU8::load`: `buffer.get(index).copied().map(Self::new)`; `new` masks with `u8::MAX`. -/
theorem load_u8_src_eq_model (O : DataOrderTy) (buf : List Nat) (i : Nat) (hw : BytesOk buf) :
    RawU8_LoadStore_load O buf i = loadU8 buf i := by
  raw_simp [RawU8_LoadStore_load, loadU8, RawU8_new, RawU8_RawData_MASK]
  cases h : buf[i]? with
  | none => rfl
  | some b =>
    have hb : b < 256 := hw.of_getElem? h
    show some (b &&& (255 >>> (8 - 8))) = some b
    have : (255 >>> (8 - 8) : Nat) = 2 ^ 8 - 1 := by decide
    rw [this, Nat.and_two_pow_sub_one_eq_mod]
    congr 1; omega
example : BytesOk [0x12, 0xA5, 0xFF] := by intro b hb; simp at hb; omega

/-- The window of `n` bytes at offset `i * n`, as the hand model slices it. -/
def srcWindow (buf : List Nat) (i n : Nat) : Option (List Nat) :=
  match sliceFrom buf (i * n) with
  | none => none
  | some tail => slicePrefix tail n

/-- `index.checked_mul(n).and_then(|start| buffer.get(start..)).and_then(|buffer| buffer.get(0..n))` is that window
(for a buffer whose length is a `usize`: an offset that overflows is beyond the buffer anyway). -/
theorem window_src_eq_model (buf : List Nat) (i n : Nat) (hlen : FitsUsize buf) :
    option_and_then (option_and_then (usize_checked_mul i n) (fun start => slice_get_from buf start))
      (fun b => slice_get_range b 0 n) = srcWindow buf i n := by
  unfold FitsUsize at hlen
  raw_simp [srcWindow, sliceFrom, slicePrefix]
  by_cases h1 : i * n ≤ buf.length
  · have h0 : i * n ≤ usizeMax := by omega
    simp only [h0, h1, ↓reduceIte, Nat.zero_le, true_and, List.drop_zero]
  · simp only [h1, ↓reduceIte]
    by_cases h0 : i * n ≤ usizeMax <;> simp only [h0, h1, ↓reduceIte]

theorem srcWindow_spec {buf : List Nat} {i n : Nat} {s : List Nat} (h : srcWindow buf i n = some s) :
    s.length = n ∧ (BytesOk buf → BytesOk s) := by
  unfold srcWindow sliceFrom slicePrefix at h
  by_cases h1 : i * n ≤ buf.length
  · simp only [h1, ↓reduceIte] at h
    by_cases h2 : n ≤ (List.drop (i * n) buf).length
    · simp only [h2, ↓reduceIte, Option.some.injEq] at h
      subst h
      exact ⟨by rw [List.length_take]; omega, fun hw => (hw.drop _).take _⟩
    · simp only [h2, ↓reduceIte] at h; cases h
  · simp only [h1, ↓reduceIte] at h; cases h

theorem loadBytes_eq_window (n : Nat) (o : Order) (buf : List Nat) (i : Nat) :
    loadBytes n o buf i = option_map (srcWindow buf i n) (fun s => if o.alt then fromBe s else fromLe s) := by
  unfold loadBytes srcWindow option_map
  cases sliceFrom buf (i * n) with
  | none => rfl
  | some tail =>
    dsimp only
    cases slicePrefix tail n <;> rfl

theorem option_map_congr_on {α β : Type} (o : Option α) (f g : α → β) (h : ∀ a, o = some a → f a = g a) :
    option_map o f = option_map o g := by
  cases o with
  | none => rfl
  | some a => simp only [option_map, h a rfl]

/-- multi-byte `load` (RawU16, RawU24, RawU32). -/
theorem load_bytes_src_eq_model (O : DataOrderTy) (buf : List Nat) (i : Nat) (hw : BytesOk buf)
    (hlen : FitsUsize buf) :
    RawU16_LoadStore_load O buf i = loadBytes 2 (ord O) buf i ∧
    RawU24_LoadStore_load O buf i = loadBytes 3 (ord O) buf i ∧
    RawU32_LoadStore_load O buf i = loadBytes 4 (ord O) buf i := by
  refine ⟨?_, ?_, ?_⟩
  · unfold RawU16_LoadStore_load
    rw [window_src_eq_model buf i 2 hlen, loadBytes_eq_window]
    apply option_map_congr_on
    intro s hs
    obtain ⟨hl, hb⟩ := srcWindow_spec hs
    have h1 := fromLe_lt s (hb hw)
    have h2 := fromLe_lt s.reverse (by intro b hb'; exact hb hw b (List.mem_reverse.mp hb'))
    rw [List.length_reverse] at h2
    rw [hl] at h1 h2
    have hm : RawU16_RawData_MASK = 2 ^ 16 - 1 := by decide
    cases O <;>
      raw_simp [ord, DataOrder_IS_ALTERNATE_ORDER, LittleEndianMsb0_DataOrder_IS_ALTERNATE_ORDER,
        BigEndianLsb0_DataOrder_IS_ALTERNATE_ORDER, Order.alt, RawU16_new, hm, Nat.and_two_pow_sub_one_eq_mod,
        ↓reduceIte, Bool.false_eq_true, fromBe] <;> (unfold fromBe at *; omega)
  · unfold RawU24_LoadStore_load
    rw [window_src_eq_model buf i 3 hlen, loadBytes_eq_window]
    apply option_map_congr_on
    intro s hs
    obtain ⟨hl, _⟩ := srcWindow_spec hs
    cases O <;>
      raw_simp [ord, DataOrder_IS_ALTERNATE_ORDER, LittleEndianMsb0_DataOrder_IS_ALTERNATE_ORDER,
        BigEndianLsb0_DataOrder_IS_ALTERNATE_ORDER, Order.alt, RawU24_new_unmasked,
        ↓reduceIte, Bool.false_eq_true, fromBe]
    · show fromLe (List.take 0 (List.replicate 4 0) ++ s ++ List.drop 3 (List.replicate 4 0)) = fromLe s
      exact fromLe_append_zero s
    · show fromLe (List.take 1 (List.replicate 4 0) ++ s ++ List.drop 4 (List.replicate 4 0)).reverse = fromLe s.reverse
      have : (List.take 1 (List.replicate 4 0) ++ s ++ List.drop 4 (List.replicate 4 0)).reverse = s.reverse ++ [0] := by
        simp [List.replicate]
      rw [this, fromLe_append_zero]
  · unfold RawU32_LoadStore_load
    rw [window_src_eq_model buf i 4 hlen, loadBytes_eq_window]
    apply option_map_congr_on
    intro s hs
    obtain ⟨hl, hb⟩ := srcWindow_spec hs
    have h1 := fromLe_lt s (hb hw)
    have h2 := fromLe_lt s.reverse (by intro b hb'; exact hb hw b (List.mem_reverse.mp hb'))
    rw [List.length_reverse] at h2
    rw [hl] at h1 h2
    have hm : RawU32_RawData_MASK = 2 ^ 32 - 1 := by decide
    cases O <;>
      raw_simp [ord, DataOrder_IS_ALTERNATE_ORDER, LittleEndianMsb0_DataOrder_IS_ALTERNATE_ORDER,
        BigEndianLsb0_DataOrder_IS_ALTERNATE_ORDER, Order.alt, RawU32_new, hm, Nat.and_two_pow_sub_one_eq_mod,
        ↓reduceIte, Bool.false_eq_true, fromBe] <;> (unfold fromBe at *; omega)

/-! ### `store` -/

/-- sub-byte `store` (the three expansions of `impl_load_store_bits!`): the read-modify-write
`(*byte & !(MASK << bit_index)) | (value << bit_index)` in `u8` arithmetic is the hand model's `storeByte`;
`get_mut(..).ok_or(OutOfBoundsError)` its bounds check. Unconditional. -/
theorem store_bits_src_eq_model (O : DataOrderTy) (v : Nat) (buf : List Nat) (i : Nat) :
    RawU1_LoadStore_store O v buf i = storeBits 1 (ord O) v buf i ∧
    RawU2_LoadStore_store O v buf i = storeBits 2 (ord O) v buf i ∧
    RawU4_LoadStore_store O v buf i = storeBits 4 (ord O) v buf i := by
  refine ⟨?_, ?_, ?_⟩
  · have hp := bit_position_src_eq_model .RawU1 O i
    simp only [bits, RawData_BITS_PER_PIXEL, RawU1_RawData_BITS_PER_PIXEL] at hp
    have hm : RawU1_RawData_MASK = mask 1 := by decide
    raw_simp [RawU1_LoadStore_store, storeBits, hp, RawU1_RawData_into_inner, storeByte, hm]
    cases buf[(bitPosition 1 (ord O) i).1]? <;> rfl
  · have hp := bit_position_src_eq_model .RawU2 O i
    simp only [bits, RawData_BITS_PER_PIXEL, RawU2_RawData_BITS_PER_PIXEL] at hp
    have hm : RawU2_RawData_MASK = mask 2 := by decide
    raw_simp [RawU2_LoadStore_store, storeBits, hp, RawU2_RawData_into_inner, storeByte, hm]
    cases buf[(bitPosition 2 (ord O) i).1]? <;> rfl
  · have hp := bit_position_src_eq_model .RawU4 O i
    simp only [bits, RawData_BITS_PER_PIXEL, RawU4_RawData_BITS_PER_PIXEL] at hp
    have hm : RawU4_RawData_MASK = mask 4 := by decide
    raw_simp [RawU4_LoadStore_store, storeBits, hp, RawU4_RawData_into_inner, storeByte, hm]
    cases buf[(bitPosition 4 (ord O) i).1]? <;> rfl

/-- `RawU8::store`. Unconditional. -/
theorem store_u8_src_eq_model (O : DataOrderTy) (v : Nat) (buf : List Nat) (i : Nat) :
    RawU8_LoadStore_store O v buf i = storeU8 v buf i := by
  raw_simp [RawU8_LoadStore_store, storeU8]
  cases buf[i]? <;> rfl

/-- `to_le_bytes` / `to_be_bytes` of the multi-byte raw types are the hand model's digits (RawU24: three of the four
bytes of the `u32`), and have the length `copy_from_slice` needs. -/
theorem to_bytes_src_eq_model (v : Nat) :
    RawU16_ToBytes_to_le_bytes v = toLe 2 v ∧ RawU16_ToBytes_to_be_bytes v = toBe 2 v ∧
    RawU24_ToBytes_to_le_bytes v = toLe 3 v ∧ RawU24_ToBytes_to_be_bytes v = toBe 3 v ∧
    RawU32_ToBytes_to_le_bytes v = toLe 4 v ∧ RawU32_ToBytes_to_be_bytes v = toBe 4 v := by
  refine ⟨rfl, rfl, ?_, ?_, rfl, rfl⟩
  · raw_simp [RawU24_ToBytes_to_le_bytes, toLe]
    rfl
  · raw_simp [RawU24_ToBytes_to_be_bytes, toBe, toLe]
    rfl

theorem to_bytes_length (v : Nat) :
    (RawU16_ToBytes_to_le_bytes v).length = 2 ∧ (RawU16_ToBytes_to_be_bytes v).length = 2 ∧
    (RawU24_ToBytes_to_le_bytes v).length = 3 ∧ (RawU24_ToBytes_to_be_bytes v).length = 3 ∧
    (RawU32_ToBytes_to_le_bytes v).length = 4 ∧ (RawU32_ToBytes_to_be_bytes v).length = 4 := by
  obtain ⟨a, b, c, d, e, f⟩ := to_bytes_src_eq_model v
  rw [a, b, c, d, e, f]
  exact ⟨toLe_length _ _, toBe_length _ _, toLe_length _ _, toBe_length _ _, toLe_length _ _, toBe_length _ _⟩

/-- The write through `get_mut(start..)` / `get_mut(0..n)` / `copy_from_slice` is the hand model's `splice`. -/
theorem store_chain_src_eq_model (buf : List Nat) (i n : Nat) (bytes : List Nat) (hb : bytes.length = n)
    (hlen : FitsUsize buf) :
    store_result (mutslice_root buf)
      (result_map (option_ok_or (option_and_then (option_and_then (usize_checked_mul i n)
        (fun start => mutslice_get_mut_from (mutslice_root buf) start))
        (fun b => mutslice_get_mut_range b 0 n)) OutOfBoundsError)
        (fun b => mutslice_copy_from_slice b bytes))
    = match sliceFrom buf (i * n) with
      | none => (false, buf)
      | some tail =>
        match slicePrefix tail n with
        | none => (false, buf)
        | some _ => (true, splice buf (i * n) bytes) := by
  unfold FitsUsize at hlen
  raw_simp [sliceFrom, slicePrefix, splice]
  by_cases h1 : i * n ≤ buf.length
  · have h0 : i * n ≤ usizeMax := by omega
    simp only [h0, h1, ↓reduceIte, Nat.zero_le, true_and, List.drop_zero]
    by_cases h2 : n ≤ (List.drop (i * n) buf).length
    · simp only [h2, ↓reduceIte, List.take_zero, List.nil_append, List.drop_drop, hb, List.append_assoc]
    · simp only [h2, ↓reduceIte]
  · simp only [h1, ↓reduceIte]
    by_cases h0 : i * n ≤ usizeMax <;> simp only [h0, h1, ↓reduceIte]

/-- multi-byte `store` (RawU16, RawU24, RawU32). -/
theorem store_bytes_src_eq_model (O : DataOrderTy) (v : Nat) (buf : List Nat) (i : Nat) (hlen : FitsUsize buf) :
    RawU16_LoadStore_store O v buf i = storeBytes 2 (ord O) v buf i ∧
    RawU24_LoadStore_store O v buf i = storeBytes 3 (ord O) v buf i ∧
    RawU32_LoadStore_store O v buf i = storeBytes 4 (ord O) v buf i := by
  obtain ⟨a, b, c, d, e, f⟩ := to_bytes_src_eq_model v
  refine ⟨?_, ?_, ?_⟩
  · unfold RawU16_LoadStore_store storeBytes
    rw [a, b]
    cases O
    · exact store_chain_src_eq_model buf i 2 _ (toLe_length _ _) hlen
    · exact store_chain_src_eq_model buf i 2 _ (toBe_length _ _) hlen
  · unfold RawU24_LoadStore_store storeBytes
    rw [c, d]
    cases O
    · exact store_chain_src_eq_model buf i 3 _ (toLe_length _ _) hlen
    · exact store_chain_src_eq_model buf i 3 _ (toBe_length _ _) hlen
  · unfold RawU32_LoadStore_store storeBytes
    rw [e, f]
    cases O
    · exact store_chain_src_eq_model buf i 4 _ (toLe_length _ _) hlen
    · exact store_chain_src_eq_model buf i 4 _ (toBe_length _ _) hlen

/-! ### `RawData::load` / `RawData::store` (the trait functions every caller uses) -/

/-- `R::load::<O>(buffer, index)` = the hand model's `load`, for every raw type, both data orders, all byte buffers
whose length is a `usize`, and ALL indices. -/
theorem load_src_eq_model (R : RawTy) (O : DataOrderTy) (buf : List Nat) (i : Nat) (hw : BytesOk buf)
    (hlen : FitsUsize buf) :
    RawData_load R O buf i = load (bits R) (ord O) buf i := by
  obtain ⟨b1, b2, b4⟩ := load_bits_src_eq_model O buf i
  obtain ⟨m2, m3, m4⟩ := load_bytes_src_eq_model O buf i hw hlen
  cases R
  · exact b1
  · exact b2
  · exact b4
  · exact load_u8_src_eq_model O buf i hw
  · exact m2
  · exact m3
  · exact m4

/-- `value.store::<O>(buffer, index)` = the hand model's `store` (result AND buffer afterwards), for every raw type,
both data orders, all buffers whose length is a `usize`, ALL indices and ALL values. -/
theorem store_src_eq_model (R : RawTy) (O : DataOrderTy) (v : Nat) (buf : List Nat) (i : Nat)
    (hlen : FitsUsize buf) :
    RawData_store R O v buf i = store (bits R) (ord O) v buf i := by
  obtain ⟨b1, b2, b4⟩ := store_bits_src_eq_model O v buf i
  obtain ⟨m2, m3, m4⟩ := store_bytes_src_eq_model O v buf i hlen
  cases R
  · exact b1
  · exact b2
  · exact b4
  · exact store_u8_src_eq_model O v buf i
  · exact m2
  · exact m3
  · exact m4

/-- Without `BytesOk` the two differ: the source masks a loaded `u8`, the hand model hands the list element on
(the guard is the `u8` bound that `List Nat` lacks, not a restriction on the code). -/
theorem load_differs_without_bytesok :
    RawData_load .RawU8 .LittleEndianMsb0 [300] 0 ≠ load 8 .le [300] 0 := by decide

/-! ### `RawDataIterator` -/

/-- The hand model's iterator state of a generated one (`R`, `O` are type parameters in Rust). -/
def toModel (R : RawTy) (O : DataOrderTy) (s : RawDataIterator) : Iter := ⟨bits R, ord O, s.data, s.index⟩

/-- `RawDataIterator::new(data)` / `RawDataSlice::new(data).into_iter()` = `Iter.new`. -/
theorem RawDataIterator_new_src_eq_model (R : RawTy) (O : DataOrderTy) (data : List Nat) :
    toModel R O (RawDataIterator_new data) = Iter.new (bits R) (ord O) data ∧
    toModel R O (RawDataSlice_IntoIterator_into_iter R O (RawDataSlice_new data)) = Iter.new (bits R) (ord O) data :=
  ⟨rfl, rfl⟩

/-- `Iterator::next`: the item AND the state afterwards. -/
theorem Iterator_next_src_eq_model (R : RawTy) (O : DataOrderTy) (s : RawDataIterator) (hw : BytesOk s.data)
    (hlen : FitsUsize s.data) :
    (RawDataIterator_Iterator_next R O s).1 = (Iter.next (toModel R O s)).1 ∧
    toModel R O (RawDataIterator_Iterator_next R O s).2 = (Iter.next (toModel R O s)).2 := by
  unfold RawDataIterator_Iterator_next Iter.next toModel
  rw [load_src_eq_model R O s.data s.index hw hlen]
  dsimp only
  cases load (bits R) (ord O) s.data s.index <;> exact ⟨rfl, rfl⟩

/-- `Iterator::nth` (`saturating_add`, then `next`). -/
theorem Iterator_nth_src_eq_model (R : RawTy) (O : DataOrderTy) (s : RawDataIterator) (n : Nat)
    (hw : BytesOk s.data) (hlen : FitsUsize s.data) :
    (RawDataIterator_Iterator_nth R O s n).1 = (Iter.nth (toModel R O s) n).1 ∧
    toModel R O (RawDataIterator_Iterator_nth R O s n).2 = (Iter.nth (toModel R O s) n).2 := by
  unfold RawDataIterator_Iterator_nth Iter.nth
  exact Iterator_next_src_eq_model R O { s with index := usize_saturating_add s.index n } hw hlen

/-- `Iterator::size_hint`. Unconditional. -/
theorem Iterator_size_hint_src_eq_model (R : RawTy) (O : DataOrderTy) (s : RawDataIterator) :
    RawDataIterator_Iterator_size_hint R O s = Iter.sizeHint (toModel R O s) := by
  raw_simp [RawDataIterator_Iterator_size_hint, Iter.sizeHint, toModel, satMulUsize, decide_eq_true_eq]
  rfl

/-- What the translator left out is exactly this (an added override, e.g. of `Iterator::fold` / `count` for
`RawDataIterator`, shows up here). `to_ne_bytes` is not used by the raw data layer. -/
theorem untranslated_pinned :
    untranslated =
      [("impl ToBytes for RawU1", ["to_ne_bytes"]), ("impl ToBytes for RawU16", ["to_ne_bytes"]),
       ("impl ToBytes for RawU2", ["to_ne_bytes"]), ("impl ToBytes for RawU32", ["to_ne_bytes"]),
       ("impl ToBytes for RawU4", ["to_ne_bytes"]), ("impl ToBytes for RawU8", ["to_ne_bytes"])] := by decide

end EG.C11.Generated
