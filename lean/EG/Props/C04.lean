/-
  C04 — property theorems (placeholder: no theorem yet, the property is not claimed).
-/
import EG.Basic.Core
namespace EG.C04
end EG.C04
