/-
  C04 through the target adapters — the MODEL level between the static half (call-site table,
  EG/Props/C04.lean) and the dynamic half (fault enumeration on the real code, harness module `faults`).

  Model: EG/Model/FaultTarget.lean. A target is the record of its four methods, each a function of the
  root's record to a `Result` and the record afterwards; the recording roots `R1` / `R2` of the harness
  with `fail_at` (transcribed from harness/src/common.rs: a failing call logs nothing and sets
  `errored`, a later call is counted in `calls_after_error` and logged); the four adapters built FROM
  THEIR PARENT TARGET the way clipped.rs / cropped.rs / translated.rs / color_converted.rs build them
  (every parent call is the tail expression of the method; `Clipped` and `Cropped` inherit the
  trait's `clear -> self.fill_solid(&self.bounding_box(), ..)`, `Cropped` forwards through the
  `Translated` it holds); a drawable = the call list of its model issued with `?` after each call.

  Proved here, for EVERY adapter stack (any depth, any mix of the four adapters, any boxes /
  offsets / colour maps), every root box, both roots, every call list and every fault position:
    * `adapter_call_is_one_parent_call`, `stack_call_is_one_root_call` — a method of an adapter
      (of a stack) IS the parent's (root's) method applied to `Adapter.lower` (`lowerStack`) of the
      call, as functions of the record: same `Result`, same record afterwards, whatever the parent
      does. This is the C03 claim "error propagation through the adapters" at model level, and it
      ties the error-aware model to the call-to-call model C03's theorems are about.
    * `fault_through_adapters` — the run in which root call `k` fails returns exactly `Err(k)`;
      the root counted `k + 1` calls, none after the error; its log is the first `k` entries of
      the lowered call list.
    * `fault_free_through_adapters` — no fault position inside the run: `Ok(())`, every call
      reached the root once, the log is the whole lowered call list.
    * `fault_log_is_prefix_of_fault_free` — the property's text: result, no further call, and the
      log of the faulty run = the log of the fault-free run truncated after `k` calls.
    * corollaries for the modelled drawables (styled rectangle, circle, ellipse, rounded
      rectangle, sector, arc, image incl. sub-images, mono-font text, `draw_whitespace`).
  The `faults.prefix` correspondence stream compares `faultRun` with the real code on sampled fault
  positions (result, number of root calls, length and digest of the root's log), through the
  adapter stacks of the `faults.*` ops, on both recording roots.
-/
import EG.Lemmas.FaultTarget
import EG.Model.StyledRect
import EG.Model.Circle
import EG.Model.Ellipse
import EG.Model.RoundedRect
import EG.Model.StyledSector
import EG.Model.ImageRaw
import EG.Model.TextLayout
namespace EG.C04
open EG

/-- What the root logs in the fault-free run of the call list `cs` issued on top of stack `s`:
each call lowered through the stack (`lowerStack`, the map C03's theorems are about), as the root
records it (`R2`: the call; `R1`: the `draw_iter` the trait defaults make of it). -/
def rootLog (native : Bool) (B : Rect) (s : Stack) (cs : List Call) : List Call :=
  (cs.map (lowerStack B s)).map (rootLogged native B)

/-- **One adapter call is exactly one parent call, and its `Result` is the parent's.** For every
parent target `P` (of any behaviour: failing, logging, itself an adapter), each of the four
adapters and each call: the adapter's method is the function `P`'s method is on the lowered call —
equal as functions from the root's record to (`Result`, record afterwards). Proved from the
transcription of the four Rust files (one `match` arm per method, two for
`Clipped::fill_contiguous`), not assumed. The reported box is `Adapter.bbox` of the parent's. -/
theorem adapter_call_is_one_parent_call (P : FTarget) (a : Adapter) (c : Call) :
    (P.wrap a).call c = P.call (a.lower P.bbox c) ∧ (P.wrap a).bbox = a.bbox P.bbox :=
  ⟨FTarget.wrap_call P a c, FTarget.wrap_bbox P a⟩

/-- ... hence a call on top of a stack of any depth is one call on the bottom target. -/
theorem stack_call_is_one_root_call (P : FTarget) (s : Stack) (c : Call) :
    (P.stack s).call c = P.call (lowerStack P.bbox s c) ∧ (P.stack s).bbox = stackBox P.bbox s :=
  ⟨FTarget.stack_call P s c, FTarget.stack_bbox P s⟩

/-- The recording roots: each of the four methods (on `R1` three of them are trait defaults
chained by tail calls) is one `enter()?` and one log entry. -/
theorem recording_root_call (native : Bool) (B : Rect) (c : Call) :
    (FTarget.root native B).call c = RootState.record (rootLogged native B c) :=
  FTarget.root_call native B c

/-- **Target error through any adapter stack.** Call list `cs` issued (with `?`) on top of stack
`s` over a recording root whose call number `k` fails, `k` below the length of `cs`: `draw`
returns exactly `Err(TErr(k))`; the root's record afterwards has counted `k + 1` calls (the
failing one is the last), `calls_after_error = 0`, and its log is the first `k` entries of the
fault-free root log. The conclusion is an equation for the whole outcome. -/
theorem fault_through_adapters (native : Bool) (B : Rect) (s : Stack) (cs : List Call) (k : Nat)
    (hk : k < cs.length) :
    faultRun native B s (some k) cs =
      (.error k, { failAt := some k, calls := k + 1, callsAfterError := 0, errored := true,
                   log := (rootLog native B s cs).take k }) := by
  have h := FTarget.runCalls_record_fail ((FTarget.root native B).stack s) _
    (FTarget.root_stack_call native B s) k cs (RootState.init (some k)) rfl rfl (Nat.zero_le _)
    (by simpa [RootState.init] using hk)
  simpa [faultRun, rootLog, RootState.init, List.map_map] using h

/-- **The fault-free run** (no fault position, or one the run never reaches): `Ok(())`, the root
counted one call per call of the drawable, none failed, and the log is the lowering of all of them. -/
theorem fault_free_through_adapters (native : Bool) (B : Rect) (s : Stack) (cs : List Call)
    (failAt : Option Nat) (hno : ∀ k, failAt = some k → cs.length ≤ k) :
    faultRun native B s failAt cs =
      (.ok (), { failAt := failAt, calls := cs.length, callsAfterError := 0, errored := false,
                 log := rootLog native B s cs }) := by
  have h := FTarget.runCalls_record_ok ((FTarget.root native B).stack s) _
    (FTarget.root_stack_call native B s) cs (RootState.init failAt) rfl
    (by intro k hk; right; simpa [RootState.init] using hno k hk)
  simpa [faultRun, rootLog, RootState.init, List.map_map] using h

/-- **C04 through the adapters, in the property's words.** If root call `k` of the run fails,
then `draw` returns exactly that error, no call reaches the root afterwards (`k + 1` calls counted,
none after the error), and the calls made before the failure are those of the fault-free run:
the faulty log is the fault-free log truncated after `k` successful calls. -/
theorem fault_log_is_prefix_of_fault_free (native : Bool) (B : Rect) (s : Stack) (cs : List Call)
    (k : Nat) (hk : k < cs.length) :
    (faultRun native B s (some k) cs).1 = .error k ∧
    (faultRun native B s (some k) cs).2.calls = k + 1 ∧
    (faultRun native B s (some k) cs).2.callsAfterError = 0 ∧
    (faultRun native B s (some k) cs).2.log = (faultRun native B s none cs).2.log.take k ∧
    (faultRun native B s none cs).1 = .ok () ∧
    (faultRun native B s none cs).2.calls = cs.length := by
  rw [fault_through_adapters native B s cs k hk,
    fault_free_through_adapters native B s cs none (by intro k h; cases h)]
  exact ⟨rfl, rfl, rfl, rfl, rfl, rfl⟩

/-- The number of calls the root sees does not depend on the stack or on the kind of root (the
`n` of the `faults.*` streams). -/
theorem root_calls_independent_of_stack (native : Bool) (B : Rect) (s : Stack) (cs : List Call) :
    (faultRun native B s none cs).2.calls = cs.length ∧ (rootLog native B s cs).length = cs.length := by
  rw [fault_free_through_adapters native B s cs none (by intro k h; cases h)]
  exact ⟨rfl, by simp [rootLog]⟩

/-! ### Examples (stack 5 of the `faults.*` streams: `translated(cropped(clipped(root)))`) -/

private def exB : Rect := ⟨⟨-40, -40⟩, ⟨120, 120⟩⟩
private def exStack : Stack :=
  [.clipped ⟨⟨-3, -2⟩, ⟨30, 25⟩⟩, .cropped ⟨⟨1, 1⟩, ⟨20, 20⟩⟩, .translated ⟨-2, 5⟩]
private def exRect : List Call := StyledRect.drawCalls ⟨some 7, some 9, 1, .inside⟩ ⟨⟨-5, -4⟩, ⟨10, 8⟩⟩

-- the hypothesis of `fault_through_adapters` on a filled and stroked rectangle (5 calls), k = 2
example : 2 < exRect.length := by decide

-- ... and what the theorem then says, computed: the two calls the native root logged are the
-- fill and the top edge, cut by the clip box and shifted by the crop and the translation
example : (faultRun true exB exStack (some 2) exRect).2.log =
    [.fillSolid ⟨⟨-3, 3⟩, ⟨6, 6⟩⟩ 7, .fillSolid ⟨⟨-3, 2⟩, ⟨7, 1⟩⟩ 9] ∧
    (faultRun true exB exStack (some 2) exRect).2.calls = 3 := by decide

-- on the draw_iter-only root the same calls arrive as `draw_iter`s of the areas' points
example : (faultRun false exB exStack (some 1)
      (StyledRect.drawCalls ⟨some 7, some 9, 1, .inside⟩ ⟨⟨3, 4⟩, ⟨3, 3⟩⟩)).2.log =
    [.drawIter [(⟨3, 11⟩, 7)]] := by decide

-- the fault-free run: five root calls; the left edge lies outside the clip box and arrives as an
-- empty fill (`intersection` of disjoint rectangles), still one call
example : (faultRun true exB exStack none exRect).2.log =
    [.fillSolid ⟨⟨-3, 3⟩, ⟨6, 6⟩⟩ 7, .fillSolid ⟨⟨-3, 2⟩, ⟨7, 1⟩⟩ 9, .fillSolid ⟨⟨-3, 9⟩, ⟨7, 1⟩⟩ 9,
     .fillSolid ⟨⟨0, 0⟩, ⟨0, 0⟩⟩ 9, .fillSolid ⟨⟨3, 3⟩, ⟨1, 6⟩⟩ 9] := by decide

-- a fault position the run never reaches satisfies the hypothesis of `fault_free_through_adapters`
example : ∀ k, (some 5 : Option Nat) = some k → exRect.length ≤ k := by
  intro k h; cases h; decide

-- the root model is not blind: a caller that DROPPED the error (`let _ = ..`) would leave
-- `calls_after_error = 2` and the later calls in the log — the record the harness inspects
example : (((FTarget.root true exB).stack exStack).runCallsIgnoring exRect (RootState.init (some 2))).2.callsAfterError = 2 ∧
    (((FTarget.root true exB).stack exStack).runCallsIgnoring exRect (RootState.init (some 2))).2.log.length = 4 := by
  decide

/-! ### The modelled drawables

Each `draw` below is the call list the project's model of the drawable produces (the lists the
`faults.*` and the drawable's own correspondence streams compare with the real code). -/

/-- `Styled<Rectangle, PrimitiveStyle>::draw` through any adapter stack. -/
theorem rectangle_fault_through_adapters (native : Bool) (B : Rect) (s : Stack) (st : Style) (r : Rect)
    (k : Nat) (hk : k < (StyledRect.drawCalls st r).length) :
    faultRun native B s (some k) (StyledRect.drawCalls st r) =
      (.error k, ⟨some k, k + 1, 0, true, (rootLog native B s (StyledRect.drawCalls st r)).take k⟩) :=
  fault_through_adapters native B s _ k hk

example : 4 < (StyledRect.drawCalls ⟨some 7, some 9, 1, .inside⟩ ⟨⟨-5, -4⟩, ⟨10, 8⟩⟩).length := by decide

/-- `Styled<Circle, _>::draw`. -/
theorem circle_fault_through_adapters (native : Bool) (B : Rect) (s : Stack) (st : PrimStyle) (c : Circle)
    (k : Nat) (hk : k < (c.drawStyled st).length) :
    faultRun native B s (some k) (c.drawStyled st) =
      (.error k, ⟨some k, k + 1, 0, true, (rootLog native B s (c.drawStyled st)).take k⟩) :=
  fault_through_adapters native B s _ k hk

example : 3 < ((⟨⟨1, 2⟩, 7⟩ : Circle).drawStyled ⟨some 3, some 5, 2, .center⟩).length := by decide

/-- `Styled<Ellipse, _>::draw`. -/
theorem ellipse_fault_through_adapters (native : Bool) (B : Rect) (s : Stack) (st : PrimStyle) (e : Ellipse)
    (k : Nat) (hk : k < (e.drawStyled st).length) :
    faultRun native B s (some k) (e.drawStyled st) =
      (.error k, ⟨some k, k + 1, 0, true, (rootLog native B s (e.drawStyled st)).take k⟩) :=
  fault_through_adapters native B s _ k hk

example : 3 < ((⟨⟨1, 2⟩, ⟨9, 6⟩⟩ : Ellipse).drawStyled ⟨some 3, some 5, 1, .inside⟩).length := by decide

/-- `Styled<RoundedRectangle, _>::draw`. -/
theorem rounded_rectangle_fault_through_adapters (native : Bool) (B : Rect) (s : Stack) (st : Style)
    (r : RoundedRect) (k : Nat) (hk : k < (r.drawStyled st).length) :
    faultRun native B s (some k) (r.drawStyled st) =
      (.error k, ⟨some k, k + 1, 0, true, (rootLog native B s (r.drawStyled st)).take k⟩) :=
  fault_through_adapters native B s _ k hk

example : 3 < ((⟨⟨⟨0, 0⟩, ⟨9, 7⟩⟩, ⟨⟨2, 2⟩, ⟨3, 1⟩, ⟨0, 0⟩, ⟨4, 4⟩⟩⟩ : RoundedRect).drawStyled
    ⟨some 3, some 5, 1, .inside⟩).length := by decide

/-- `Image<T>::draw` for raw images and (nested) sub-images. -/
theorem image_fault_through_adapters (native : Bool) (B : Rect) (s : Stack) (i : Img.Image)
    (k : Nat) (hk : k < i.draw.length) :
    faultRun native B s (some k) i.draw =
      (.error k, ⟨some k, k + 1, 0, true, (rootLog native B s i.draw).take k⟩) :=
  fault_through_adapters native B s _ k hk

/-- `Text<MonoTextStyle>::draw` (font `f`, glyph atlas `atlas`). -/
theorem text_fault_through_adapters (native : Bool) (B : Rect) (s : Stack) (f : Font.MonoFont)
    (atlas : Pt → Bool) (t : TextLayout.Text) (k : Nat) (hk : k < (TextLayout.draw f atlas t).1.length) :
    faultRun native B s (some k) (TextLayout.draw f atlas t).1 =
      (.error k, ⟨some k, k + 1, 0, true, (rootLog native B s (TextLayout.draw f atlas t).1).take k⟩) :=
  fault_through_adapters native B s _ k hk

/-- `MonoTextStyle::draw_whitespace`. -/
theorem whitespace_fault_through_adapters (native : Bool) (B : Rect) (s : Stack) (f : Font.MonoFont)
    (st : Font.Style) (width : Nat) (pos : Pt) (bl : Font.Baseline) (k : Nat)
    (hk : k < (f.drawWhitespace st width pos bl).1.length) :
    faultRun native B s (some k) (f.drawWhitespace st width pos bl).1 =
      (.error k, ⟨some k, k + 1, 0, true, (rootLog native B s (f.drawWhitespace st width pos bl).1).take k⟩) :=
  fault_through_adapters native B s _ k hk

/-- `Styled<Sector, _>::draw` and `Styled<Arc, _>::draw`. -/
theorem sector_arc_fault_through_adapters (native : Bool) (B : Rect) (s : Stack) (st : Style)
    (sec : Sector) (bevel : SectorBevel) (a : Arc) :
    (∀ k, k < (sec.drawStyled st bevel).length →
      faultRun native B s (some k) (sec.drawStyled st bevel) =
        (.error k, ⟨some k, k + 1, 0, true, (rootLog native B s (sec.drawStyled st bevel)).take k⟩)) ∧
    (∀ k, k < (a.drawStyled st).length →
      faultRun native B s (some k) (a.drawStyled st) =
        (.error k, ⟨some k, k + 1, 0, true, (rootLog native B s (a.drawStyled st)).take k⟩)) :=
  ⟨fun k hk => fault_through_adapters native B s _ k hk,
   fun k hk => fault_through_adapters native B s _ k hk⟩

-- (closed) that the real adapters ARE these four records of functions (`Clipped` / `Cropped` not overriding `clear`; every method one parent call in tail position, `Result` untouched; no `Drop` impl): EG/Props/C04/GeneratedAdapters.lean (`src_adapter_methods_return_parent_result`, `src_adapter_call_is_one_parent_call`) over the bodies tools/tr_adapt.py regenerates from the Rust text; the remaining trust (Rust's tail-expression semantics, the translator's parser, iterator side effects) is the [V] line there; the `faults.prefix` stream and the fault enumeration still compare the transcription with the running code
-- [V] that a drawable's `draw` issues exactly the calls of its model's call list and puts `?` after each (the premise of `runCalls`): the call lists are compared with the real code by each drawable's own correspondence streams and, on faulty runs, by `faults.prefix` for the kinds it models (styled rectangle / circle / ellipse / rounded rectangle, `draw_whitespace`, 1/8/16-bpp images and nested sub-images [the only drawables that reach `Clipped::fill_contiguous` and its cropping iterator], `Pixel::draw`, `PixelIteratorExt::draw`, `clear`); text, sector, arc and the remaining primitives are covered on faulty runs by the fault enumeration only
-- [V] how many colours / pixels a failing parent pulled from a lazy iterator before the error (the model's streams are finite lists, a failing root call records nothing): outside the model

end EG.C04
