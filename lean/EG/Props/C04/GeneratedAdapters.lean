/-
  C04 through the target adapters, over the REGENERATED adapter methods.

  EG/Props/C04/Adapters.lean proves the prefix law through every adapter stack from the error-aware transcription
  EG/Model/FaultTarget.lean, whose premise is that each adapter method is exactly one parent call in tail
  position, the parent's `Result` returned unchanged. This file ties that premise to the Rust text:
    * `tools/tr_adapt.py` checks, on the syntax tree of every `Result`-returning method of the four adapters and of
      the three default methods of `DrawTarget`, that on every control-flow path there is exactly one parent call,
      that it is the TAIL expression of the function and that nothing is applied to its `Result` (no `?`, `.ok()`,
      `.unwrap..()`, `.map_err(..)`, `Ok(..?)`, no `let` binding), and writes the findings into the generated table
      `adapterMethodShapes`; `src_adapter_methods_return_parent_result` decides it (a restatement of
      `EG.C03.GenAdapters.all_adapter_methods_are_tail_calls` in C04's terms, with who-overrides-what and the
      absence of untranslated functions such as a `Drop` impl).
    * WHICH parent call is made is the generated function (`EG.C03.GenAdapters.srcLower`), proved equal to
      `Adapter.lower` for all inputs; so `src_adapter_call_is_one_parent_call`: a method of the error-aware adapter is
      the parent's method on the call THE GENERATED CODE computes — same `Result`, same record afterwards — and
      `src_stack_call_is_one_root_call`, `src_fault_through_adapters`, `src_fault_log_is_prefix_of_fault_free`: the
      prefix law with the root's log expressed through the generated functions.
    * the trait defaults of the error-aware model (`FTarget.defaultFillContiguous / defaultFillSolid / defaultClear`)
      are the target's own method on the call the generated default computes (`src_default_*`).
-/
import EG.Props.C03.GeneratedAdapters
import EG.Props.C04.Adapters
namespace EG.C04.GenAdapters
open EG EG.Generated EG.C03.GenAdapters

/-- **Shape of the real methods** (decided on the table the translator derives from the Rust syntax trees): all 16
adapter methods and the 3 trait defaults make one parent call per path, as the tail expression, and return its
`Result` untouched; `Clipped` and `Cropped` do not override `clear`; no function of any `impl` of the adapter types
(a `Drop` impl would be one) is outside the translation. -/
theorem src_adapter_methods_return_parent_result :
    (∀ s ∈ AdaptSrc.adapterMethodShapes, s.tail = true ∧ s.bare = true ∧ s.paths ≥ 1) ∧
    AdaptSrc.adapterMethodShapes.length = 19 ∧
    (AdaptSrc.adapterMethodShapes.filter (fun s => !s.overridden)).map (fun s => (s.owner, s.method)) =
      [("DrawTarget", "fill_contiguous"), ("DrawTarget", "fill_solid"), ("DrawTarget", "clear"),
       ("Clipped", "clear"), ("Cropped", "clear")] ∧
    AdaptSrc.untranslated = [] := by
  decide

/-- **One adapter call is exactly one parent call — the one the generated code computes.** -/
theorem src_adapter_call_is_one_parent_call (P : FTarget) (a : Adapter) (c : Call) :
    (P.wrap a).call c = P.call (srcLower a P.bbox c) ∧ (P.wrap a).bbox = srcBbox a P.bbox := by
  rw [src_lower_eq_model, src_bbox_eq_model]; exact EG.C04.adapter_call_is_one_parent_call P a c

/-- ... through a stack of any depth. -/
theorem src_stack_call_is_one_root_call (P : FTarget) (s : Stack) (c : Call) :
    (P.stack s).call c = P.call (srcLowerStack P.bbox s c) := by
  rw [src_lower_stack_eq_model]; exact (EG.C04.stack_call_is_one_root_call P s c).1

/-- What the root logs, through the generated functions. -/
def srcRootLog (native : Bool) (B : Rect) (s : Stack) (cs : List Call) : List Call :=
  (cs.map (srcLowerStack B s)).map (rootLogged native B)

theorem src_root_log_eq (native : Bool) (B : Rect) (s : Stack) (cs : List Call) :
    srcRootLog native B s cs = rootLog native B s cs := by
  simp only [srcRootLog, rootLog, List.map_map]
  exact List.map_congr_left (fun c _ => by simp only [Function.comp, src_lower_stack_eq_model])

/-- **Target error through any adapter stack, over the generated lowering**: the run in which root call `k` fails
returns `Err(k)`, the root counted `k + 1` calls, none after the error, and logged the first `k` calls the GENERATED
adapter code computes. -/
theorem src_fault_through_adapters (native : Bool) (B : Rect) (s : Stack) (cs : List Call) (k : Nat)
    (hk : k < cs.length) :
    faultRun native B s (some k) cs =
      (.error k, { failAt := some k, calls := k + 1, callsAfterError := 0, errored := true,
                   log := (srcRootLog native B s cs).take k }) := by
  rw [src_root_log_eq]; exact EG.C04.fault_through_adapters native B s cs k hk

example : (1 : Nat) < [Call.clear 3, Call.fillSolid ⟨⟨0, 0⟩, ⟨2, 2⟩⟩ 1].length := by decide

/-- The fault-free run logs exactly the calls the generated adapter code computes. -/
theorem src_fault_free_through_adapters (native : Bool) (B : Rect) (s : Stack) (cs : List Call) :
    faultRun native B s none cs =
      (.ok (), { failAt := none, calls := cs.length, callsAfterError := 0, errored := false,
                 log := srcRootLog native B s cs }) := by
  rw [src_root_log_eq]; exact EG.C04.fault_free_through_adapters native B s cs none (by intro k h; cases h)

/-- The trait defaults of the error-aware model are the target's own methods applied to the call the GENERATED
default body computes (for `fill_solid`: fuel = the number of points of the area, the model's convention). -/
theorem src_default_fill_contiguous (t : FTarget) (area : Rect) (cs : List Color) :
    FTarget.defaultFillContiguous t.drawIter area cs = t.call (AdaptSrc.DrawTarget_fill_contiguous t.bbox area cs) := by
  rw [fill_contiguous_default_src_eq_model]; rfl

theorem src_default_fill_solid (t : FTarget) (area : Rect) (c : Color) :
    FTarget.defaultFillSolid t.fillContiguous area c
      = t.call (AdaptSrc.DrawTarget_fill_solid area.points.length t.bbox area c) := rfl

theorem src_default_clear (t : FTarget) (c : Color) :
    FTarget.defaultClear t.bbox t.fillSolid c = t.call (AdaptSrc.DrawTarget_clear t.bbox c) := rfl

-- [V] what `src_adapter_methods_return_parent_result` rests on outside Lean: the shape check is made by tools/tr_adapt.py on its own parse of the Rust text (tail position = last expression of the function body / of both arms of a tail `if`; wrappers looked for: `?`, `.ok()`, `.err()`, `.unwrap*()`, `.expect()`, `.map_err()`, `.map()`, `.or*()`, `.and*()`, `.is_ok()`, `.is_err()`, `Ok(..)` / `Err(..)` / `Some(..)` around the call, `let` bindings, a call in statement position; a parent call used as an argument / receiver / operand, two calls on one path or a path without a call make the translation FAIL) and on Rust's semantics of a tail expression (its value is the function's value; destructors of the locals - iterator adapters and rectangles, none with a `Drop` impl in these files: `adapt_untranslated_pinned` - make no target call); side effects of a caller-supplied iterator are outside the model

end EG.C04.GenAdapters
