/-
  C01 (rectangle) over the REGENERATED code: `StyledPixelsIterator::{new, next}` and `StyledPixels::pixels` of
  src/primitives/rectangle/styled.rs as translated by tools/tr_styled.py (`EG/Generated/StyledSrc.lean`) equal the hand
  model's iterator `StyledRect.PixelsIt`, and `pixels() = draw()` is restated over the generated `draw_styled`.

  * `itOf`: the generated state `{iter: Points, stroke_color, fill_area, fill_color}` as the hand model's record (the inner
    `Points` through C16's `pointsItOf`).
  * `next`: the generated function is a `for` loop over `&mut self.iter` on explicit `fuel` (used both for the loop and for the
    inner `Points::next`). One generated `next` with enough fuel = one `PixelsIt.next` of the hand model
    (`StyledPixelsIterator_next_src_eq_model`); the guard `FitsI32` on the fill area's size is the `debug_assert!` of
    `Rectangle::contains` (`Point + Size`).
-/
import EG.Props.C06.Generated
import EG.Props.C16.GeneratedPoints
import EG.Props.C01.Rectangle
namespace EG.C01.Src
open EG EG.Tgt EG.Rect EG.StyledRect EG.RectSrcPrelude EG.StyledSrcPrelude EG.Generated EG.C16.Src EG.C06.Src

/-- The regenerated iterator state as the hand model's. -/
def itOf (it : StyledSrc.StyledPixelsIterator) : PixelsIt :=
  ⟨pointsItOf it.iter, it.stroke_color, it.fill_area, it.fill_color⟩

theorem StyledPixelsIterator_new_src_eq_model (s : Style) (r : Rect) (hu : IsU32 r.size) :
    itOf (StyledSrc.StyledPixelsIterator_new r (ofStyle s)) = pixelsIt s r := by
  unfold StyledSrc.StyledPixelsIterator_new pixelsIt itOf
  rw [is_transparent_src_eq_model, stroke_area_src_eq_model _ r hu, fill_area_src_eq_model _ r rfl hu, toStyle_ofStyle]
  cases s.isTransparent <;> simp [bool_not, PointsIter_points_src_eq_model, Points_new_src_eq_model, Points_empty_src_eq_model,
    StyledSrc.StyledPixelsIterator_mk, StyledSrc.PrimitiveStyle_stroke_color, StyledSrc.PrimitiveStyle_fill_color, ofStyle]

theorem pixels_src_eq_model (s : Style) (r : Rect) (hu : IsU32 r.size) :
    itOf (StyledSrc.Rectangle_StyledPixels_pixels r (ofStyle s)) = pixelsIt s r :=
  StyledPixelsIterator_new_src_eq_model s r hu

/-- **C01 (b) over the regenerated code.** The hand model's iterator started in the REGENERATED initial state, collected and fed
to `draw_iter`, leaves the same map as the calls of the REGENERATED `draw_styled`. -/
theorem src_styled_rect_pixels_eq_draw (s : Style) (r : Rect) (h : Guard s r) (hu : IsU32 r.size) (dotted : List Call)
    (B : Rect) (p : Pt) :
    PMap.empty.apply (clipWrites B
        ((itOf (StyledSrc.Rectangle_StyledPixels_pixels r (ofStyle s))).toListFuel
          (itOf (StyledSrc.Rectangle_StyledPixels_pixels r (ofStyle s))).iter.budget)) p =
      runNative B (StyledSrc.Rectangle_StyledDrawable_draw_styled r (ofStyle s) dotted) p := by
  rw [pixels_src_eq_model s r hu, draw_styled_src_eq_model s r (bordersFit_of_guard h hu)]
  exact C01.Rectangle.styled_rect_pixels_eq_draw s r h B p

example : Guard ⟨some 7, some 9, 3, .center⟩ ⟨⟨-2, -1⟩, ⟨4, 5⟩⟩ ∧ IsU32 (⟨⟨-2, -1⟩, ⟨4, 5⟩⟩ : Rect).size := by decide

end EG.C01.Src
