/-
  C01 (Arc, Sector) — one image per drawing path, for styled arcs and styled sectors.

  `draw_styled` of both shapes is literally `target.draw_iter(StyledPixelsIterator::new(..))` and
  `pixels()` returns that same iterator, so
  (a) `draw()` is ONE `draw_iter` call whose pixel sequence is `pixels()`;
  (b) the map left by `draw()` on a draw_iter-only target, on a native-fill target, and by
      `draw_iter(pixels())` coincide, for every diameter, plane sector (all angles), bevel, style and
      target box (no guard);
  (c) the iterator itself is specified: `pixels()` is the row-major point list of the iterated box
      (= the styled bounding box) filtered through the stroke / fill tests, every point at most once;
  (d) hence the image is known pointwise: at `p` inside the target box the map holds
      `styledExpected p` (a closed expression in the thresholds, the plane sector and the bevel),
      nothing outside — on either kind of target and for `draw_iter(pixels())` alike.
  Models: EG.Model.StyledArc, EG.Model.StyledSector (tied by the streams `sector.sarc`,
  `sector.ssector`). Helper lemmas: EG/Lemmas/StyledArc.lean, EG/Lemmas/StyledArcSector.lean.
-/
import EG.Lemmas.StyledArcMap
namespace EG.C01.Arc
open EG EG.Tgt

/-! ### arc -/

/-- (a) `draw()` of a styled arc is one `draw_iter` call with the sequence of `pixels()`. -/
theorem styled_arc_draw_eq_pixels (st : Style) (a : Arc) :
    a.drawStyled st = [Call.drawIter (a.styledPixels st)] := rfl

/-- (b) `draw()` of a styled arc: draw_iter-only target = native-fill target. -/
theorem arc_default_eq_native (st : Style) (a : Arc) (B : Rect) :
    runDefault B (a.drawStyled st) = runNative B (a.drawStyled st) :=
  runDefault_eq_runNative B (a.drawStyled st)

/-- (b) **Arc: `draw()` on R1 = `draw()` on R2 = `draw_iter(pixels())`**, as pixel maps, for all
diameters, plane sectors, stroke widths, alignments, colour options and target boxes. -/
theorem styled_arc_three_paths (st : Style) (a : Arc) (B : Rect) :
    runNative B (a.drawStyled st) = PMap.empty.apply (clipWrites B (a.styledPixels st)) ∧
    runDefault B (a.drawStyled st) = PMap.empty.apply (clipWrites B (a.styledPixels st)) ∧
    runDefault B [Call.drawIter (a.styledPixels st)] = runDefault B (a.drawStyled st) :=
  ⟨runNative_drawIter B _, runDefault_drawIter B _, rfl⟩

/-- (c) The iterator is its closed form: nothing without a stroke colour or with a transparent
style, else the points of the outer edge circle's bounding box that pass the ring and plane-sector
test, in row-major order, each with the stroke colour. -/
theorem styled_arc_pixels_iterator_spec (st : Style) (a : Arc) :
    a.styledPixels st =
      match st.stroke with
      | none => []
      | some c =>
        if st.isTransparent then []
        else ((a.outsideEdge st).boundingBox.points.filter (a.strokeAccepts st)).map (fun p => (p, c)) :=
  Arc.styledPixels_eq st a

/-- (c) No point is offered twice (so "last write wins" never matters for an arc), and the order is
row-major. -/
theorem styled_arc_pixels_nodup (st : Style) (a : Arc) :
    ((a.styledPixels st).map (·.1)).Nodup ∧ ((a.styledPixels st).map (·.1)).Pairwise Pt.rowMajorLt :=
  ⟨(Rect.points_nodup _).sublist (Arc.styledPixels_points_sublist st a),
   (Rect.points_rowMajor _).sublist (Arc.styledPixels_points_sublist st a)⟩

/-- (d) **The image of a styled arc, pointwise**: inside the target box the stroke colour exactly at
the points of the styled bounding box that pass the ring and plane-sector test (nothing for a
transparent style), nothing elsewhere. -/
theorem styled_arc_draw_map (st : Style) (a : Arc) (B : Rect) (h : (a.styledBoundingBox st).InRange) (p : Pt) :
    runNative B (a.drawStyled st) p = (if B.contains p = true then a.styledExpected st p else none) ∧
    runDefault B (a.drawStyled st) p = (if B.contains p = true then a.styledExpected st p else none) := by
  rw [arc_default_eq_native]
  exact ⟨Arc.draw_map st a B h p, Arc.draw_map st a B h p⟩
example : (Arc.styledBoundingBox ⟨some 1, some 2, 3, .center⟩
    ⟨⟨-3, 2⟩, 7, ⟨.intersection, ⟨-1024, 0⟩, ⟨0, 1024⟩⟩⟩).InRange := by decide

/-! ### sector -/

/-- (a) `draw()` of a styled sector is one `draw_iter` call with the sequence of `pixels()`. -/
theorem styled_sector_draw_eq_pixels (st : Style) (s : Sector) (bevel : SectorBevel) :
    s.drawStyled st bevel = [Call.drawIter (s.styledPixels st bevel)] := rfl

/-- (b) `draw()` of a styled sector: draw_iter-only target = native-fill target. -/
theorem sector_default_eq_native (st : Style) (s : Sector) (bevel : SectorBevel) (B : Rect) :
    runDefault B (s.drawStyled st bevel) = runNative B (s.drawStyled st bevel) :=
  runDefault_eq_runNative B (s.drawStyled st bevel)

/-- (b) **Sector: `draw()` on R1 = `draw()` on R2 = `draw_iter(pixels())`**, as pixel maps, for all
diameters, plane sectors, bevels, stroke widths, alignments, colour options and target boxes. -/
theorem styled_sector_three_paths (st : Style) (s : Sector) (bevel : SectorBevel) (B : Rect) :
    runNative B (s.drawStyled st bevel) = PMap.empty.apply (clipWrites B (s.styledPixels st bevel)) ∧
    runDefault B (s.drawStyled st bevel) = PMap.empty.apply (clipWrites B (s.styledPixels st bevel)) ∧
    runDefault B [Call.drawIter (s.styledPixels st bevel)] = runDefault B (s.drawStyled st bevel) :=
  ⟨runNative_drawIter B _, runDefault_drawIter B _, rfl⟩

/-- (c) The iterator (a `loop` with `continue`s around `find`) is its closed form: nothing for a
transparent style, else the points of the stroke area circle's bounding box mapped through
`pixelAt` (circle test, point type by the plane sector, bevel, circular stroke, colour), points
without a pixel dropped, in row-major order. -/
theorem styled_sector_pixels_iterator_spec (st : Style) (s : Sector) (bevel : SectorBevel) :
    s.styledPixels st bevel =
      if st.isTransparent then []
      else (s.strokeCircle st).boundingBox.points.filterMap (s.pixelAt st bevel) :=
  Sector.styledPixels_eq st s bevel

/-- (c) No point is offered twice (fill and stroke never overlap: every point gets ONE point type),
and the order is row-major. -/
theorem styled_sector_pixels_nodup (st : Style) (s : Sector) (bevel : SectorBevel) :
    ((s.styledPixels st bevel).map (·.1)).Nodup ∧
      ((s.styledPixels st bevel).map (·.1)).Pairwise Pt.rowMajorLt :=
  ⟨(Rect.points_nodup _).sublist (Sector.styledPixels_points_sublist st s bevel),
   (Rect.points_rowMajor _).sublist (Sector.styledPixels_points_sublist st s bevel)⟩

/-- (d) **The image of a styled sector, pointwise**: inside the target box, at the points of the
styled bounding box, the colour `pixelAt` assigns (fill colour, stroke colour or nothing, by the
circle test, the plane sector's point type, the bevel and the circular stroke); nothing elsewhere
and nothing at all for a transparent style. -/
theorem styled_sector_draw_map (st : Style) (s : Sector) (bevel : SectorBevel) (B : Rect)
    (h : (s.styledBoundingBox st).InRange) (p : Pt) :
    runNative B (s.drawStyled st bevel) p =
      (if B.contains p = true then s.styledExpected st bevel p else none) ∧
    runDefault B (s.drawStyled st bevel) p =
      (if B.contains p = true then s.styledExpected st bevel p else none) := by
  rw [sector_default_eq_native]
  exact ⟨Sector.draw_map st s bevel B h p, Sector.draw_map st s bevel B h p⟩
example : (Sector.styledBoundingBox ⟨some 1, some 2, 5, .outside⟩
    ⟨⟨-30, 2⟩, 12, ⟨.union, ⟨724, 724⟩, ⟨0, 1024⟩⟩⟩).InRange := by decide

-- [V] arc / sector: the plane sector (operation tag + two integer normals) handed to the model equals what `PlaneSector::new(angle_start, angle_sweep)` computes, and the sector's bevel (kind + normal vector) equals what the trigonometric part of `sector::StyledPixelsIterator::new` computes (f32 / fixed-point trigonometry is not modelled; the values come from the hooks `verif_hooks::plane_sector` and `StyledPixelsIterator::verif_bevel` into the op line): carried by correspondence + oracle only
-- [V] arc / sector: that `draw()` issues the same single `draw_iter` call whatever the target type (Rust parametricity of `draw_styled` in `D: DrawTarget`): carried by correspondence + oracle only (R1 map, R2 map and R2 call log are compared per op)

end EG.C01.Arc
