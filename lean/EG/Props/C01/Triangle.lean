/-
  C01 (styled Triangle, every style) — one image per drawing path.

  triangle/styled.rs (model EG/Model/ThickTriangle.lean, `Joins.triDraw` / `Joins.triPixels`, every
  stroke width — 0 and 1 included —, three alignments, fill and/or stroke colour, collapsed inside
  strokes, zero-area triangles; tied by the stream `thick.triangle`):
  * `draw_styled` runs a `for` loop over `ScanlineIterator::new(..)`, whose items are
    (scanline, kind); a scanline whose kind has a colour (`Stroke` -> `effective_stroke_color()`,
    `Fill` -> `fill_color`) becomes ONE `fill_solid` of its 1-px-high rectangle, the others are
    skipped; nothing at all for a transparent style;
  * `StyledPixelsIterator` (`pixels()`) holds the same `ScanlineIterator`, walks every coloured
    scanline point by point and skips the scanlines without a colour (/repo 7cb80e4).
  Scanlines of one row can OVERLAP WITH DIFFERENT COLOURS (the iterator yields the fill line of a row
  before the two stroke lines; a wide stroke covers part of the fill), so the order of the calls
  decides the picture. Here: both paths visit the same typed scanlines IN THE SAME ORDER
  (`styled_triangle_same_scanlines`), every rectangle is written left to right like its scanline,
  so the WRITE SEQUENCE of `draw()` on a native-fill target — and, by the trait defaults, on a
  draw_iter-only target — is exactly the pixel sequence of `pixels()` clipped to the target box:
  same points, same colours, same order. Hence the three paths leave the same pixel map, and "last
  write wins" picks the same colour on each.
  Helper lemmas: EG/Lemmas/C01ThickStream.lean, EG/Lemmas/C01ThickTri.lean.

  Guards (both decidable, both `True` on every op of the `thick.triangle` stream):
  * `TriRectsInRange t style` — no `fill_solid` rectangle saturates `i32` (`Rect.InRange`);
  * `TriPixelBudgetOK t style` — a MODEL artefact, not a condition on the code: the model drains
    `pixels()` with fuel `3 (bb.w + 2 width + 4) (bb.h + 1) + 2` and returns the prefix seen when the
    fuel is used up; the guard says the list is shorter than the fuel, i.e. complete. (The fuels of the
    scanline `for` loop of `draw_styled` and of the `loop` inside `StyledPixelsIterator::next` are
    PROVED never to be used up: at most three scanlines per row.) It is DISCHARGED — only `i32`-range
    guards remain — for stroke width 0, stroke width 1 and collapsed inside strokes, and replaced by
    C02's `TriStrokeGuard` for Center / Outside strokes of width > 1 (EG/Lemmas/C01ThickBudget.lean:
    the budget suffices whenever everything drawn lies inside the bounding box, which is C02's claim).
-/
import EG.Lemmas.C01ThickBudget
import EG.Props.C02.JoinsBBox
namespace EG.C01.Triangle
open EG EG.Tgt EG.Joins EG.C01Thick EG.C02.JoinsBBox

/-- The full claim for one styled triangle: the three paths leave the same pixel map on every
target box. -/
def StyledTrianglePathsAgree (t : Tri) (style : TriStyle) : Prop :=
  ∀ calls px, triDraw t style = some calls → triPixels t style = some px →
    ∀ (B : Rect) (p : Pt),
      runNative B (solidCalls calls) p = runDefault B [Call.drawIter px] p ∧
      runDefault B (solidCalls calls) p = runDefault B [Call.drawIter px] p

/-- The model of a styled triangle is total: `draw()` and `pixels()` always return. -/
theorem styled_triangle_total (t : Tri) (style : TriStyle) :
    (∃ calls, triDraw t style = some calls) ∧ (∃ px, triPixels t style = some px) :=
  ⟨triDraw_total t style, triPixels_total t style⟩

/-- **Same scanlines, same order.** One list `L` of typed, non-empty scanlines — the run of the
`ScanlineIterator` up to its first `None` — gives both the `fill_solid` calls of `draw()` (the
coloured scanlines as rectangles, in the order of `L`) and the pixels of `pixels()` (the coloured
scanlines point by point, in the order of `L`). -/
theorem styled_triangle_same_scanlines (t : Tri) (style : TriStyle) (hb : TriPixelBudgetOK t style)
    (calls : List (Rect × Nat)) (px : Writes)
    (hd : triDraw t style = some calls) (hpx : triPixels t style = some px) :
    ∃ L : List (Scanline × PointType), (∀ x ∈ L, x.1.isEmpty = false) ∧
      calls = (if style.isTransparent then [] else L.filterMap (triCall style)) ∧
      px = L.flatMap (typedPixels style.fillColor style.effectiveStrokeColor) :=
  tri_same_scanlines t style hb calls px hd hpx
example : TriPixelBudgetOK ⟨⟨-3, 1⟩, ⟨6, -2⟩, ⟨2, 7⟩⟩ ⟨some 9, some 5, 3, .center⟩ := by decide +kernel

/-- Whatever the model's pixel budget: `pixels()` of the model is the first `budget` pixels of the
coloured scanlines `draw()` turns into rectangles, walked in the same order — the only way
`TriPixelBudgetOK` can fail is truncation of the model's list (no guard). -/
theorem styled_triangle_pixels_prefix (t : Tri) (style : TriStyle) (bb : Rect)
    (hbb : triStyledBoundingBox t style = some bb) :
    ∃ L : List (Scanline × PointType),
      triDraw t style = some (if style.isTransparent then [] else L.filterMap (triCall style)) ∧
      triPixels t style = some ((L.flatMap (typedPixels style.fillColor style.effectiveStrokeColor)).take
        (3 * (bb.size.w + 2 * style.strokeWidth + 4) * (bb.size.h + 1) + 2)) := by
  obtain ⟨L, hL, hpx⟩ := triPixels_prefix_run t style bb hbb
  refine ⟨L, ?_, hpx⟩
  rw [triDraw_eq]
  unfold triScanlineRun at hL
  by_cases htr : style.isTransparent = true
  · simp only [htr, ↓reduceIte]
  · simp only [htr, Bool.false_eq_true, ↓reduceIte, hL, Option.map_some]
example : ∃ bb, triStyledBoundingBox ⟨⟨-3, 1⟩, ⟨6, -2⟩, ⟨2, 7⟩⟩ ⟨some 9, some 5, 3, .center⟩ = some bb :=
  triStyledBoundingBox_total _ _

/-- **Write sequences.** For every triangle, style and target box: the writes of `draw()` — natively
(R2) and through the trait defaults (R1) — are exactly the pixels of `pixels()` clipped to the box:
same points, same colours, same order (so a stroke pixel written over a fill pixel is written over
it on every path). -/
theorem styled_triangle_writes_agree (t : Tri) (style : TriStyle)
    (hr : TriRectsInRange t style) (hb : TriPixelBudgetOK t style) (calls : List (Rect × Nat))
    (px : Writes) (hd : triDraw t style = some calls) (hpx : triPixels t style = some px) (B : Rect) :
    (solidCalls calls).flatMap (Call.writesNative B) = clipWrites B px ∧
    (solidCalls calls).flatMap (Call.writesDefault B) = clipWrites B px := by
  have h := triStyled_writes t style B hr hb calls px hd hpx
  have hn : (solidCalls calls).flatMap (Call.writesNative B) = clipWrites B px := by
    rw [← h]
    unfold Call.writesNative clipWrites
    rw [List.filter_flatMap]
  refine ⟨hn, ?_⟩
  rw [← hn]
  exact flatMap_congr_left _ _ _ (fun c _ => Call.writesDefault_eq_writesNative B c)
example : TriRectsInRange ⟨⟨-3, 1⟩, ⟨6, -2⟩, ⟨2, 7⟩⟩ ⟨some 9, some 5, 3, .center⟩ ∧
    TriPixelBudgetOK ⟨⟨-3, 1⟩, ⟨6, -2⟩, ⟨2, 7⟩⟩ ⟨some 9, some 5, 3, .center⟩ := by decide +kernel

/-- **Styled triangle: `draw()` on R1 = `draw()` on R2 = `draw_iter(pixels())`**, as pixel maps, for
every triangle (also zero-area), stroke width (0, 1 and wider), alignment, fill / stroke colour option
(also none: nothing is drawn on any path) and target box. -/
theorem styled_triangle_paths_agree_partial (t : Tri) (style : TriStyle)
    (hr : TriRectsInRange t style) (hb : TriPixelBudgetOK t style) : StyledTrianglePathsAgree t style := by
  intro calls px hd hpx B p
  obtain ⟨h1, h2⟩ := styled_triangle_writes_agree t style hr hb calls px hd hpx B
  rw [runDefault_drawIter]
  unfold runNative runDefault
  rw [h1, h2]
  exact ⟨rfl, rfl⟩
-- a stroke that covers part of the fill (inside alignment), a fill-only style, a collapsed inside stroke
example : TriRectsInRange ⟨⟨-3, 1⟩, ⟨6, -2⟩, ⟨2, 7⟩⟩ ⟨some 9, some 5, 2, .inside⟩ ∧
    TriPixelBudgetOK ⟨⟨-3, 1⟩, ⟨6, -2⟩, ⟨2, 7⟩⟩ ⟨some 9, some 5, 2, .inside⟩ := by decide +kernel
example : TriRectsInRange ⟨⟨-3, 1⟩, ⟨6, -2⟩, ⟨2, 7⟩⟩ ⟨some 9, none, 4, .outside⟩ ∧
    TriPixelBudgetOK ⟨⟨-3, 1⟩, ⟨6, -2⟩, ⟨2, 7⟩⟩ ⟨some 9, none, 4, .outside⟩ := by decide +kernel
example : TriRectsInRange ⟨⟨0, 0⟩, ⟨8, 1⟩, ⟨3, 4⟩⟩ ⟨some 9, some 5, 6, .inside⟩ ∧
    TriPixelBudgetOK ⟨⟨0, 0⟩, ⟨8, 1⟩, ⟨3, 4⟩⟩ ⟨some 9, some 5, 6, .inside⟩ := by decide +kernel

/-! ### where the budget guard is discharged: only `i32`-range guards (or C02's guard) remain -/

/-- The model's pixel budget suffices whenever everything `draw()` fills lies inside the bounding box
(C02's claim) and the top row of the box is an `i32`: the budget guard is not an independent
assumption. -/
theorem triangle_pixel_budget_ok_of_draw_in_box (t : Tri) (style : TriStyle)
    (h : ∀ calls bb, triDraw t style = some calls → triStyledBoundingBox t style = some bb →
      -2147483648 ≤ bb.tl.y ∧ ∀ rc ∈ calls, ∀ p, rc.1.contains p = true → bb.contains p = true) :
    TriPixelBudgetOK t style :=
  triPixelBudgetOK_of_draw_in_box t style h

/-- **Fill only (stroke width 0, any alignment, any colour option): the three paths agree** — guards:
`i32` ranges only (top row of the vertex box, no rectangle saturates). -/
theorem styled_triangle_paths_agree_width0 (t : Tri) (style : TriStyle) (hw : style.strokeWidth = 0)
    (hg : TriTopGuard t) (hr : TriRectsInRange t style) : StyledTrianglePathsAgree t style := by
  apply styled_triangle_paths_agree_partial t style hr
  apply triPixelBudgetOK_of_draw_in_box
  intro calls bb hd hbb
  refine ⟨?_, (triangle_fill_in_bounding_box t style hw hg bb hbb).1 calls hd⟩
  rw [vertex_box_of_thin_or_inside t style (Or.inl (by omega)) bb hbb]
  exact hg
example : TriTopGuard ⟨⟨-3, 1⟩, ⟨6, -2⟩, ⟨2, 7⟩⟩ ∧
    TriRectsInRange ⟨⟨-3, 1⟩, ⟨6, -2⟩, ⟨2, 7⟩⟩ ⟨some 9, some 5, 0, .center⟩ := by decide +kernel

/-- **Stroke width 1 (any alignment, with or without fill / stroke colour): the three paths agree** —
guards: `i32` ranges only (vertices, top row of the vertex box, no rectangle saturates). -/
theorem styled_triangle_paths_agree_width1 (t : Tri) (style : TriStyle) (hw : style.strokeWidth = 1)
    (hi : TriI32 t) (hg : TriTopGuard t) (hr : TriRectsInRange t style) :
    StyledTrianglePathsAgree t style := by
  apply styled_triangle_paths_agree_partial t style hr
  apply triPixelBudgetOK_of_draw_in_box
  intro calls bb hd hbb
  refine ⟨?_, (triangle_width1_in_bounding_box t style hw hi hg bb hbb).1 calls hd⟩
  rw [vertex_box_of_thin_or_inside t style (Or.inl (by omega)) bb hbb]
  exact hg
example : TriI32 ⟨⟨-3, 1⟩, ⟨6, -2⟩, ⟨2, 7⟩⟩ ∧ TriTopGuard ⟨⟨-3, 1⟩, ⟨6, -2⟩, ⟨2, 7⟩⟩ ∧
    TriRectsInRange ⟨⟨-3, 1⟩, ⟨6, -2⟩, ⟨2, 7⟩⟩ ⟨some 9, some 5, 1, .outside⟩ := by decide +kernel

/-- **Collapsed inside stroke (any width; the whole triangle is painted in the stroke colour): the three
paths agree** — guards: `i32` ranges only. -/
theorem styled_triangle_paths_agree_collapsed_inside (t : Tri) (style : TriStyle)
    (hal : style.strokeAlignment = .inside)
    (hc : t.sortedClockwise.isCollapsed style.strokeWidth .right = some true)
    (hg : TriTopGuard t) (hr : TriRectsInRange t style) : StyledTrianglePathsAgree t style := by
  apply styled_triangle_paths_agree_partial t style hr
  apply triPixelBudgetOK_of_draw_in_box
  intro calls bb hd hbb
  refine ⟨?_, (triangle_collapsed_inside_in_bounding_box t style hal hc hg bb hbb).1 calls hd⟩
  rw [vertex_box_of_thin_or_inside t style (Or.inr hal) bb hbb]
  exact hg
example : (⟨⟨0, 0⟩, ⟨9, 1⟩, ⟨2, 7⟩⟩ : Tri).sortedClockwise.isCollapsed 4 .right = some true ∧
    TriTopGuard ⟨⟨0, 0⟩, ⟨9, 1⟩, ⟨2, 7⟩⟩ ∧
    TriRectsInRange ⟨⟨0, 0⟩, ⟨9, 1⟩, ⟨2, 7⟩⟩ ⟨some 9, some 5, 4, .inside⟩ := by decide +kernel

/-- **Center / Outside stroke of width > 1 (with or without fill): the three paths agree** under the
guard of C02's bounding-box theorem (`TriStrokeGuard`) instead of the budget guard. -/
theorem styled_triangle_paths_agree_stroke (t : Tri) (style : TriStyle) (hw : 2 ≤ style.strokeWidth)
    (hal : style.strokeAlignment ≠ .inside) (hg : TriStrokeGuard t style)
    (hr : TriRectsInRange t style) : StyledTrianglePathsAgree t style := by
  apply styled_triangle_paths_agree_partial t style hr
  apply triPixelBudgetOK_of_draw_in_box
  intro calls bb hd hbb
  exact ⟨(triCtx_stroke t style hw hal hg bb hbb).1,
    triangle_stroke_draw_in_bounding_box_partial t style hw hal hg bb hbb calls hd⟩
example : TriStrokeGuard ⟨⟨0, 0⟩, ⟨9, 1⟩, ⟨2, 7⟩⟩ ⟨some 1, some 2, 3, .center⟩ ∧
    TriRectsInRange ⟨⟨0, 0⟩, ⟨9, 1⟩, ⟨2, 7⟩⟩ ⟨some 1, some 2, 3, .center⟩ := by decide +kernel

/-- `draw()` of a styled triangle: draw_iter-only target = native-fill target (no guard). -/
theorem styled_triangle_default_eq_native (t : Tri) (style : TriStyle) (B : Rect)
    (calls : List (Rect × Nat)) (_hd : triDraw t style = some calls) :
    runDefault B (solidCalls calls) = runNative B (solidCalls calls) :=
  runDefault_eq_runNative B (solidCalls calls)
example : ∃ calls, triDraw ⟨⟨-3, 1⟩, ⟨6, -2⟩, ⟨2, 7⟩⟩ ⟨some 9, some 5, 3, .center⟩ = some calls :=
  triDraw_total _ _

/-- **The image of a styled triangle, pointwise**: at a point of the target box the colour of the
LAST `fill_solid` rectangle (in the order of `draw()`, which is the order of `pixels()`) that
contains it — the stroke colour where a stroke line follows the fill line of its row —, nothing at
points no rectangle contains or outside the box; on either kind of target. -/
theorem styled_triangle_draw_map (t : Tri) (style : TriStyle) (hr : TriRectsInRange t style)
    (calls : List (Rect × Nat)) (hd : triDraw t style = some calls) (B : Rect) (p : Pt) :
    runNative B (solidCalls calls) p = (if B.contains p = true then lastSolid calls p else none) ∧
    runDefault B (solidCalls calls) p = (if B.contains p = true then lastSolid calls p else none) := by
  have hin : ∀ rc ∈ calls, rc.1.InRange := by
    unfold TriRectsInRange at hr
    rw [hd] at hr
    exact hr
  rw [runDefault_eq_runNative]
  exact ⟨runNative_solidCalls B calls hin p, runNative_solidCalls B calls hin p⟩
example : TriRectsInRange ⟨⟨-3, 1⟩, ⟨6, -2⟩, ⟨2, 7⟩⟩ ⟨some 9, some 5, 3, .center⟩ := by decide +kernel

/-- A transparent style (no fill colour and no visible stroke) draws nothing on any path (no guard
but the model's pixel budget). -/
theorem styled_triangle_transparent (t : Tri) (style : TriStyle) (h : style.isTransparent = true)
    (hb : TriPixelBudgetOK t style) : triDraw t style = some [] ∧ triPixels t style = some [] := by
  have hd : triDraw t style = some [] := by rw [triDraw_eq]; simp only [h, ↓reduceIte]
  obtain ⟨px, hpx⟩ := triPixels_total t style
  obtain ⟨L, -, -, hL⟩ := tri_same_scanlines t style hb [] px hd hpx
  obtain ⟨h1, h2⟩ := isTransparent_colors h
  rw [h1, h2, flatMap_typedPixels_none] at hL
  rw [hpx, hL]
  exact ⟨hd, rfl⟩
example : (⟨none, some 5, 0, .center⟩ : TriStyle).isTransparent = true ∧
    TriPixelBudgetOK ⟨⟨-3, 1⟩, ⟨6, -2⟩, ⟨2, 7⟩⟩ ⟨none, some 5, 0, .center⟩ := by decide +kernel

-- [V] styled triangle: that `draw()` issues the same `fill_solid` list whatever the target type (Rust parametricity of `draw_styled` in `D: DrawTarget`): carried by correspondence + oracle only (stream `thick.triangle`: R2 call log `draw=`, pixel sequence `px=`, class `C01:pixels-vs-draw:thick-triangle`)
-- [V] styled triangle: that the pixel list of the model is complete (`TriPixelBudgetOK`: fuel of the model's drain of `pixels()`; decidable, true on every op of the stream) for ALL inputs — proved for stroke width 0, width 1, collapsed inside strokes (i32 guards only) and Center / Outside strokes under C02's `TriStrokeGuard`, and whenever everything drawn lies inside the bounding box; open for non-collapsed Inside strokes of width > 1: carried by correspondence + oracle only (a truncated list would disagree with the real `px=`; `styled_triangle_pixels_prefix`: truncation is the only way to fail)
-- [V] styled triangle: `StyledPixelsIterator::new` calls `lines_iter.next()` once and the first `next()` calls it again when that returned `None`; the real `ScanlineIterator` is not fused (a row without an intersection returns `None`, the following call goes on with the next row), the model's `TriScanlines.next` returns no successor state with `None` (a repeated call repeats the `None`). The two differ only if the FIRST row of the styled bounding box has no scanline while a later one has; that this does not happen is carried by correspondence + oracle only (`px=` compared per op; `C01:pixels-vs-draw:thick-triangle`)

end EG.C01.Triangle
