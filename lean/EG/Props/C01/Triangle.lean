/-
  C01 (styled Triangle, every style) — one image per drawing path.

  triangle/styled.rs (model EG/Model/ThickTriangle.lean, `Joins.triDraw` / `Joins.triPixels`, every
  stroke width — 0 and 1 included —, three alignments, fill and/or stroke colour, collapsed inside
  strokes, zero-area triangles; tied by the stream `thick.triangle`):
  * `draw_styled` runs a `for` loop over `ScanlineIterator::new(..)`, whose items are
    (scanline, kind); a scanline whose kind has a colour (`Stroke` -> `effective_stroke_color()`,
    `Fill` -> `fill_color`) becomes ONE `fill_solid` of its 1-px-high rectangle, the others are
    skipped; nothing at all for a transparent style;
  * `StyledPixelsIterator` (`pixels()`) holds the same `ScanlineIterator`, walks every coloured
    scanline point by point and skips the scanlines without a colour (/repo 7cb80e4).
  Scanlines of one row can OVERLAP WITH DIFFERENT COLOURS (the iterator yields the fill line of a row
  before the two stroke lines; a wide stroke covers part of the fill), so the order of the calls
  decides the picture. Here: both paths visit the same typed scanlines IN THE SAME ORDER
  (`styled_triangle_same_scanlines`), every rectangle is written left to right like its scanline,
  so the WRITE SEQUENCE of `draw()` on a native-fill target — and, by the trait defaults, on a
  draw_iter-only target — is exactly the pixel sequence of `pixels()` clipped to the target box:
  same points, same colours, same order. Hence the three paths leave the same pixel map, and "last
  write wins" picks the same colour on each.
  Helper lemmas: EG/Lemmas/C01ThickStream.lean, C01ThickTri.lean, TriScanlinesLoop.lean,
  TriRowScan.lean, TriTopRow.lean.

  THE SCANLINE ITERATOR IS NOT FUSED, and the model keeps that (`TriScanlines.next` returns the
  successor state with `None` too): a row of the styled bounding box without any intersection makes
  `next()` return `None`, the following call goes on with the row after it. `draw_styled`'s `for`
  loop stops at the first `None`; `StyledPixelsIterator::new` calls `next()` once, FORGIVES a `None`
  and keeps the advanced iterator, `StyledPixelsIterator::next` stops at the first `None` it sees
  itself. The two renderers therefore differ exactly if the first call returns `None` and the second
  does not — if the first two rows of the box have no scanline and a later row has a coloured one.
  `styled_triangle_first_none_final`: this never happens, because the TOP ROW of the box always has a
  scanline unless no row has one (the top row is the row of an end point of a drawn edge / of the
  topmost vertex, and a Bresenham line contains its end points). An empty row FURTHER DOWN would stop
  both renderers alike (no such row was ever seen: harness counters `triangle:scanlines:*`).

  Guards (decidable, `True` on every op of the `thick.triangle` stream):
  * `TriRectsInRange t style` — no `fill_solid` rectangle saturates `i32` (`Rect.InRange`);
  * `TriNeedsI32 t style → TriI32 t` — the vertices are `i32`s (true of every real `Triangle`; the
    model's coordinates are integers), asked only for stroke width 1 and for non-collapsed Inside
    strokes of width > 1, where the proof of the top-row fact uses that the join corners at a vertex
    are computed exactly.
  No fuel guard: the model drains `pixels()` with the total length of the scanline run as fuel, which
  is PROVED sufficient (`styled_triangle_pixels_complete`), like the fuels of the scanline `for` loop
  and of the `loop` inside `StyledPixelsIterator::next` (at most three scanlines per row).
-/
import EG.Lemmas.TriTopRow
import EG.Lemmas.JoinsTransparent
import EG.Props.C02.JoinsBBox
namespace EG.C01.Triangle
open EG EG.Tgt EG.Joins EG.C01Thick EG.C02.JoinsBBox

/-- The full claim for one styled triangle: the three paths leave the same pixel map on every
target box. -/
def StyledTrianglePathsAgree (t : Tri) (style : TriStyle) : Prop :=
  ∀ calls px, triDraw t style = some calls → triPixels t style = some px →
    ∀ (B : Rect) (p : Pt),
      runNative B (solidCalls calls) p = runDefault B [Call.drawIter px] p ∧
      runDefault B (solidCalls calls) p = runDefault B [Call.drawIter px] p

/-- The model of a styled triangle is total: `draw()` and `pixels()` always return. -/
theorem styled_triangle_total (t : Tri) (style : TriStyle) :
    (∃ calls, triDraw t style = some calls) ∧ (∃ px, triPixels t style = some px) :=
  ⟨triDraw_total t style, triPixels_total t style⟩

/-- **A first `None` of the (non-fused) scanline iterator is final.** If the first `next()` call on the
`ScanlineIterator` of a styled triangle returns `None`, so does the call after it, made on the iterator
as the first call left it (`li'`): `StyledPixelsIterator::new`, which forgives one `None`, and the `for`
loop of `draw_styled`, which stops at it, see the same scanlines. Every triangle, stroke width,
alignment and fill option; `i32` vertices where `TriNeedsI32` (width 1, non-collapsed Inside strokes
of width > 1). -/
theorem styled_triangle_first_none_final (t : Tri) (style : TriStyle) (hi : TriNeedsI32 t style → TriI32 t) :
    ∀ li li', triScanlines t style = some li → li.next = some (none, li') → li'.nextLoop = some none :=
  triFirstNoneFinal t style hi
example : TriNeedsI32 ⟨⟨-3, 1⟩, ⟨6, -2⟩, ⟨2, 7⟩⟩ ⟨some 9, some 5, 3, .inside⟩ ∧ TriI32 ⟨⟨-3, 1⟩, ⟨6, -2⟩, ⟨2, 7⟩⟩ := by
  decide +kernel
-- the premise `li.next = some (none, li')` is not vacuous, and `li'` is NOT `li` (the iterator is not fused):
-- stroke width 0 without fill — the first call returns `None` and leaves the iterator on the second row
example : (do
    let li ← triScanlines ⟨⟨-3, 1⟩, ⟨6, -2⟩, ⟨2, 7⟩⟩ ⟨none, some 5, 0, .center⟩
    let (r, li') ← li.next
    pure (r.isNone && li'.rowsStart == li.rowsStart + 1 && li'.scanlineY == li.scanlineY + 1)) = some true := by
  decide +kernel

-- WHY the top-row fact is needed (and that the model really is not fused): give the same triangle's
-- `ScanlineIterator` a box that starts TWO rows above the topmost vertex (not the styled bounding box).
-- The first call returns `None` (rows -4 and -3 have no intersection), the second call returns the first
-- scanline of row -2: the `for` loop of `draw_styled` would see no scanline at all, `StyledPixelsIterator`
-- (one forgiven `None`) all of them. With the real box — or a box starting ONE row above — no call before
-- the last row returns `None`.
example : (do
    let li ← TriScanlines.new ⟨⟨-3, 1⟩, ⟨6, -2⟩, ⟨2, 7⟩⟩ 1 .none false ⟨⟨-3, -4⟩, ⟨10, 12⟩⟩
    let l ← li.toList
    let (r1, li1) ← li.next
    let (r2, _) ← li1.next
    pure (l.length, r1.isNone, r2.map (·.1.y))) = some (0, true, some (-2)) := by decide +kernel
example : (do
    let li ← TriScanlines.new ⟨⟨-3, 1⟩, ⟨6, -2⟩, ⟨2, 7⟩⟩ 1 .none false ⟨⟨-3, -3⟩, ⟨10, 11⟩⟩
    let l ← li.toList
    let (r1, _) ← li.next
    pure (l.length, r1.map (·.1.y))) = some (17, some (-2)) := by decide +kernel

/-- **The top row of the styled bounding box has a scanline** (the line configuration
`ScanlineIntersections::new` computes for it yields one), unless the style has stroke width 0 and no
fill colour — then no row has one. -/
theorem styled_triangle_top_row_has_scanline (t : Tri) (style : TriStyle) (bb : Rect)
    (hbb : triStyledBoundingBox t style = some bb) (hlt : bb.tl.y < 2147483647)
    (hi : TriNeedsI32 t style → TriI32 t) (ints0 : TriIntersections)
    (hnew : TriIntersections.new t.sortedClockwise style.strokeWidth style.strokeAlignment.toOffset
      style.fillColor.isSome bb.tl.y = some ints0) :
    ints0.next.isSome = true ∨
      (ints0.strokeWidth = 0 ∧ ints0.hasFill = false ∧ ints0.isCollapsed = false) :=
  triIntersections_new_top t style bb hbb hlt hi ints0 hnew
example : ∃ bb, triStyledBoundingBox ⟨⟨-3, 1⟩, ⟨6, -2⟩, ⟨2, 7⟩⟩ ⟨some 9, some 5, 3, .outside⟩ = some bb ∧
    bb.tl.y < 2147483647 ∧
    (TriIntersections.new (⟨⟨-3, 1⟩, ⟨6, -2⟩, ⟨2, 7⟩⟩ : Tri).sortedClockwise 3 .left true bb.tl.y).isSome = true := by
  decide +kernel

/-- **`pixels()` of the model is complete, and both paths walk the same scanlines in the same order.**
One list `L` of typed, non-empty scanlines — the run of the `ScanlineIterator` up to its first `None`
— gives both the `fill_solid` calls of `draw()` (the coloured scanlines as rectangles, in the order of
`L`) and the pixels of `pixels()` (the coloured scanlines point by point, in the order of `L`; ALL of
them: the fuel of the model's drain is never used up). -/
theorem styled_triangle_same_scanlines (t : Tri) (style : TriStyle) (hi : TriNeedsI32 t style → TriI32 t) :
    ∃ L : List (Scanline × Joins.PointType), (∀ x ∈ L, x.1.isEmpty = false) ∧
      triDraw t style = some (if style.isTransparent then [] else L.filterMap (triCall style)) ∧
      triPixels t style = some (L.flatMap (typedPixels style.fillColor style.effectiveStrokeColor)) :=
  tri_same_scanlines t style (triFirstNoneFinal t style hi)
example : ¬ TriNeedsI32 ⟨⟨-3, 1⟩, ⟨6, -2⟩, ⟨2, 7⟩⟩ ⟨some 9, some 5, 3, .center⟩ := by decide +kernel

/-- The model's `pixels()` is the complete run of the pixel iterator (no fuel guard): with ANY larger
fuel the drain returns the same list. -/
theorem styled_triangle_pixels_complete (t : Tri) (style : TriStyle) (hi : TriNeedsI32 t style → TriI32 t)
    (px : Writes) (hpx : triPixels t style = some px) :
    ∃ it, TriPixels.new t style = some it ∧ ∀ fuel, px.length < fuel → it.toListFuel fuel = some px := by
  obtain ⟨li, hli⟩ := triScanlines_total t style
  obtain ⟨L, -, hrun, -⟩ := triLines li
  obtain ⟨it, hit, hpix⟩ := triPix_new t style (triFirstNoneFinal t style hi) li hli L hrun
  obtain ⟨L', hL', -, hpx'⟩ := triPixels_eq_run t style (triFirstNoneFinal t style hi)
  have hLL : L' = L := by
    obtain ⟨L2, hL2, hrun2, -⟩ := triLines li
    have h1 : triScanlineRun t style = some L2 := by unfold triScanlineRun; rw [hli]; exact hL2
    rw [hL'] at h1
    have h2 : L' = L2 := Option.some.inj h1
    rw [h2]
    exact hrun2.unique hrun
  rw [hpx, hLL] at hpx'
  have hpxe : px = L.flatMap (typedPixels style.fillColor style.effectiveStrokeColor) := Option.some.inj hpx'
  refine ⟨it, hit, fun fuel hf => ?_⟩
  rw [triPixels_toListFuel_eq, hpxe]
  exact hpix.listFuel fuel (by rw [← hpxe]; exact hf)
example : TriI32 ⟨⟨-3, 1⟩, ⟨6, -2⟩, ⟨2, 7⟩⟩ := by decide

/-- **Write sequences.** For every triangle, style and target box: the writes of `draw()` — natively
(R2) and through the trait defaults (R1) — are exactly the pixels of `pixels()` clipped to the box:
same points, same colours, same order (so a stroke pixel written over a fill pixel is written over
it on every path). -/
theorem styled_triangle_writes_agree (t : Tri) (style : TriStyle)
    (hr : TriRectsInRange t style) (hi : TriNeedsI32 t style → TriI32 t) (calls : List (Rect × Nat))
    (px : Writes) (hd : triDraw t style = some calls) (hpx : triPixels t style = some px) (B : Rect) :
    (solidCalls calls).flatMap (Call.writesNative B) = clipWrites B px ∧
    (solidCalls calls).flatMap (Call.writesDefault B) = clipWrites B px := by
  have h := triStyled_writes t style (triFirstNoneFinal t style hi) B hr calls px hd hpx
  have hn : (solidCalls calls).flatMap (Call.writesNative B) = clipWrites B px := by
    rw [← h]
    unfold Call.writesNative clipWrites
    rw [List.filter_flatMap]
  refine ⟨hn, ?_⟩
  rw [← hn]
  exact flatMap_congr_left _ _ _ (fun c _ => Call.writesDefault_eq_writesNative B c)
example : TriRectsInRange ⟨⟨-3, 1⟩, ⟨6, -2⟩, ⟨2, 7⟩⟩ ⟨some 9, some 5, 3, .center⟩ := by decide +kernel

/-- **Styled triangle: `draw()` on R1 = `draw()` on R2 = `draw_iter(pixels())`**, as pixel maps, for
every triangle (also zero-area), stroke width (0, 1 and wider), alignment, fill / stroke colour option
(also none: nothing is drawn on any path) and target box. Guards: `i32` ranges only. -/
theorem styled_triangle_paths_agree (t : Tri) (style : TriStyle)
    (hr : TriRectsInRange t style) (hi : TriNeedsI32 t style → TriI32 t) : StyledTrianglePathsAgree t style := by
  intro calls px hd hpx B p
  obtain ⟨h1, h2⟩ := styled_triangle_writes_agree t style hr hi calls px hd hpx B
  rw [runDefault_drawIter]
  unfold runNative runDefault
  rw [h1, h2]
  exact ⟨rfl, rfl⟩
-- a stroke that covers part of the fill (inside alignment), a fill-only style, a collapsed inside stroke
example : TriRectsInRange ⟨⟨-3, 1⟩, ⟨6, -2⟩, ⟨2, 7⟩⟩ ⟨some 9, some 5, 2, .inside⟩ ∧
    TriI32 ⟨⟨-3, 1⟩, ⟨6, -2⟩, ⟨2, 7⟩⟩ := by decide +kernel
example : TriRectsInRange ⟨⟨-3, 1⟩, ⟨6, -2⟩, ⟨2, 7⟩⟩ ⟨some 9, none, 4, .outside⟩ ∧
    ¬ TriNeedsI32 ⟨⟨-3, 1⟩, ⟨6, -2⟩, ⟨2, 7⟩⟩ ⟨some 9, none, 4, .outside⟩ := by decide +kernel
example : TriRectsInRange ⟨⟨0, 0⟩, ⟨8, 1⟩, ⟨3, 4⟩⟩ ⟨some 9, some 5, 6, .inside⟩ ∧
    ¬ TriNeedsI32 ⟨⟨0, 0⟩, ⟨8, 1⟩, ⟨3, 4⟩⟩ ⟨some 9, some 5, 6, .inside⟩ := by decide +kernel

/-! ### special cases without the vertex guard -/

/-- **Fill only (stroke width 0, any alignment, any colour option): the three paths agree** — guard:
no rectangle saturates. -/
theorem styled_triangle_paths_agree_width0 (t : Tri) (style : TriStyle) (hw : style.strokeWidth = 0)
    (hr : TriRectsInRange t style) : StyledTrianglePathsAgree t style := by
  apply styled_triangle_paths_agree t style hr
  intro h
  unfold TriNeedsI32 at h
  omega
example : TriRectsInRange ⟨⟨-3, 1⟩, ⟨6, -2⟩, ⟨2, 7⟩⟩ ⟨some 9, some 5, 0, .center⟩ := by decide +kernel

/-- **Stroke width 1 (any alignment, with or without fill / stroke colour): the three paths agree** —
guards: `i32` vertices, no rectangle saturates. -/
theorem styled_triangle_paths_agree_width1 (t : Tri) (style : TriStyle) (_hw : style.strokeWidth = 1)
    (hi : TriI32 t) (hr : TriRectsInRange t style) : StyledTrianglePathsAgree t style :=
  styled_triangle_paths_agree t style hr (fun _ => hi)
example : TriI32 ⟨⟨-3, 1⟩, ⟨6, -2⟩, ⟨2, 7⟩⟩ ∧
    TriRectsInRange ⟨⟨-3, 1⟩, ⟨6, -2⟩, ⟨2, 7⟩⟩ ⟨some 9, some 5, 1, .outside⟩ := by decide +kernel

/-- **Collapsed inside stroke of width > 1 (the whole triangle is painted in the stroke colour): the three
paths agree** — guard: no rectangle saturates. -/
theorem styled_triangle_paths_agree_collapsed_inside (t : Tri) (style : TriStyle) (hw : 2 ≤ style.strokeWidth)
    (hc : t.sortedClockwise.isCollapsed style.strokeWidth .right = some true)
    (hr : TriRectsInRange t style) : StyledTrianglePathsAgree t style := by
  apply styled_triangle_paths_agree t style hr
  intro h
  unfold TriNeedsI32 at h
  rcases h with h | ⟨-, -, h⟩
  · omega
  · exact absurd hc h
example : (⟨⟨0, 0⟩, ⟨9, 1⟩, ⟨2, 7⟩⟩ : Tri).sortedClockwise.isCollapsed 4 .right = some true ∧
    TriRectsInRange ⟨⟨0, 0⟩, ⟨9, 1⟩, ⟨2, 7⟩⟩ ⟨some 9, some 5, 4, .inside⟩ := by decide +kernel

/-- **Center / Outside stroke of width > 1 (with or without fill): the three paths agree** — guard: no
rectangle saturates (C02's `TriStrokeGuard` is no longer needed). -/
theorem styled_triangle_paths_agree_stroke (t : Tri) (style : TriStyle) (hw : 2 ≤ style.strokeWidth)
    (hal : style.strokeAlignment ≠ .inside) (hr : TriRectsInRange t style) :
    StyledTrianglePathsAgree t style := by
  apply styled_triangle_paths_agree t style hr
  intro h
  unfold TriNeedsI32 at h
  rcases h with h | ⟨-, h, -⟩
  · omega
  · exact absurd h hal
example : TriRectsInRange ⟨⟨0, 0⟩, ⟨9, 1⟩, ⟨2, 7⟩⟩ ⟨some 1, some 2, 3, .center⟩ := by decide +kernel

/-- `draw()` of a styled triangle: draw_iter-only target = native-fill target (no guard). -/
theorem styled_triangle_default_eq_native (t : Tri) (style : TriStyle) (B : Rect)
    (calls : List (Rect × Nat)) (_hd : triDraw t style = some calls) :
    runDefault B (solidCalls calls) = runNative B (solidCalls calls) :=
  runDefault_eq_runNative B (solidCalls calls)
example : ∃ calls, triDraw ⟨⟨-3, 1⟩, ⟨6, -2⟩, ⟨2, 7⟩⟩ ⟨some 9, some 5, 3, .center⟩ = some calls :=
  triDraw_total _ _

/-- **The image of a styled triangle, pointwise**: at a point of the target box the colour of the
LAST `fill_solid` rectangle (in the order of `draw()`, which is the order of `pixels()`) that
contains it — the stroke colour where a stroke line follows the fill line of its row —, nothing at
points no rectangle contains or outside the box; on either kind of target. -/
theorem styled_triangle_draw_map (t : Tri) (style : TriStyle) (hr : TriRectsInRange t style)
    (calls : List (Rect × Nat)) (hd : triDraw t style = some calls) (B : Rect) (p : Pt) :
    runNative B (solidCalls calls) p = (if B.contains p = true then lastSolid calls p else none) ∧
    runDefault B (solidCalls calls) p = (if B.contains p = true then lastSolid calls p else none) := by
  have hin : ∀ rc ∈ calls, rc.1.InRange := by
    unfold TriRectsInRange at hr
    rw [hd] at hr
    exact hr
  rw [runDefault_eq_runNative]
  exact ⟨runNative_solidCalls B calls hin p, runNative_solidCalls B calls hin p⟩
example : TriRectsInRange ⟨⟨-3, 1⟩, ⟨6, -2⟩, ⟨2, 7⟩⟩ ⟨some 9, some 5, 3, .center⟩ := by decide +kernel

/-- A transparent style (no fill colour and no visible stroke) draws nothing on any path (no guard). -/
theorem styled_triangle_transparent (t : Tri) (style : TriStyle) (h : style.isTransparent = true) :
    triDraw t style = some [] ∧ triPixels t style = some [] := by
  have hd : triDraw t style = some [] := by rw [triDraw_eq]; simp only [h, ↓reduceIte]
  obtain ⟨px, hpx⟩ := triPixels_total t style
  rw [hpx, triPixels_transparent t style h px hpx]
  exact ⟨hd, rfl⟩
example : (⟨none, some 5, 0, .center⟩ : TriStyle).isTransparent = true := by decide

-- [V] styled triangle: that `draw()` issues the same `fill_solid` list whatever the target type (Rust parametricity of `draw_styled` in `D: DrawTarget`): carried by correspondence + oracle only (stream `thick.triangle`: R2 call log `draw=`, pixel sequence `px=`, class `C01:pixels-vs-draw:thick-triangle`)

end EG.C01.Triangle
