/-
  C01 (ellipse part) — `draw()` on a `draw_iter`-only target (R1), `draw()` on a native-fill target
  (R2) and `draw_iter(pixels())` give the same pixel map, for all sizes (also thin ellipses), stroke
  widths, alignments and colour options. The stroke arms are instances of the generic
  `C01.scanline_paths_agree`; the fill-only arms use different scanline sources
  (`Scanlines(fill_area)` vs `StyledScanlines(stroke_area, fill_area).fill()`), and `pixels()` uses
  `stroke_color` where `draw()` uses `effective_stroke_color()`.
-/
import EG.Lemmas.EllipseStyled
namespace EG.C01
open EG

/-- The pixel map of `draw()` on `R2` at every point. -/
theorem styled_ellipse_draw_map (st : PrimStyle) (e : Ellipse) (B : Rect)
    (hS : (e.strokeArea st).InRange) (hF : (e.fillArea st).InRange) (p : Pt) :
    runNative B (e.drawStyled st) p =
      if B.contains p = true then Ellipse.styledExpected st e p else none := by
  unfold runNative
  rw [flatMap_writesNative]
  apply Scan.apply_eq_of_mem_iff
  intro q col
  rw [Scan.mem_clipWrites, Ellipse.mem_draw_iff hS hF]
  by_cases hb : B.contains q = true <;> simp [hb]
example : (Ellipse.strokeArea ⟨some 1, some 2, 3, .center⟩ ⟨⟨-3, 2⟩, ⟨2, 10⟩⟩).InRange ∧
    (Ellipse.fillArea ⟨some 1, some 2, 3, .center⟩ ⟨⟨-3, 2⟩, ⟨2, 10⟩⟩).InRange := by decide

theorem ellipse_draw_default_eq_native (st : PrimStyle) (e : Ellipse) (B : Rect) :
    runDefault B (e.drawStyled st) = runNative B (e.drawStyled st) := by
  unfold runNative runDefault
  rw [flatMap_writesNative, flatMap_writesDefault]
  congr 2
  unfold Ellipse.drawStyled
  split
  · exact drawLines_lowerDefault _ _ _ B
  · exact drawLines_lowerDefault _ _ _ B
  · exact drawFillLines_lowerDefault _ _ B
  · rfl

/-- **Ellipse: `draw()` on R1 = `draw()` on R2 = `draw_iter(pixels())`.** -/
theorem styled_ellipse_pixels_eq_draw (st : PrimStyle) (e : Ellipse) (B : Rect)
    (hS : (e.strokeArea st).InRange) (hF : (e.fillArea st).InRange) :
    runNative B (e.drawStyled st) = PMap.empty.apply (clipWrites B (e.styledPixels st)) ∧
    runDefault B (e.drawStyled st) = PMap.empty.apply (clipWrites B (e.styledPixels st)) := by
  have h1 : runNative B (e.drawStyled st) = PMap.empty.apply (clipWrites B (e.styledPixels st)) := by
    funext p
    rw [styled_ellipse_draw_map st e B hS hF]
    symm
    apply Scan.apply_eq_of_mem_iff
    intro q col
    rw [Scan.mem_clipWrites, Ellipse.mem_pixels_iff hS hF]
    by_cases hb : B.contains q = true <;> simp [hb]
  exact ⟨h1, by rw [ellipse_draw_default_eq_native, h1]⟩
example : (Ellipse.strokeArea ⟨some 1, some 2, 0, .inside⟩ ⟨⟨-3, 2⟩, ⟨4, 7⟩⟩).InRange ∧
    (Ellipse.fillArea ⟨some 1, some 2, 0, .inside⟩ ⟨⟨-3, 2⟩, ⟨4, 7⟩⟩).InRange := by decide

end EG.C01
