/-
  C01 (styled Line, every stroke width) — one image per drawing path.

  line/styled.rs: `draw_styled` is literally `target.draw_iter(StyledPixelsIterator::new(self, style))`
  and `pixels()` returns that same iterator. The model transcribes exactly this
  (`Thick.drawStyled l w sc = (Thick.styledPixels l w sc).map (fun px => [Call.drawIter px])`,
  EG/Lemmas/ThickTranslate.lean; `Thick.styledPixels` = `Thick.thickPoints` paired with
  `effective_stroke_color()`, nothing without a stroke colour or for width 0), so
  (a) "`draw()` = ONE `draw_iter` call of `pixels()`" is DEFINITIONAL at the model level (`rfl`): what
      carries it is the correspondence of the stream `thick.points` (the real `draw` on the recording
      target is compared with the real `pixels()` per op: class `C01:tie-hypothesis:line-draw-is-one-draw_iter`,
      a tie and not a clause of C01, whose oracle `C01:pixels-vs-draw:thick-line` compares pixel MAPS);
  (b) hence `draw()` on a draw_iter-only target, `draw()` on a native-fill target and
      `draw_iter(pixels())` leave the same map, for every line (zero length included), width, colour
      option and target box (no guard);
  (c) the map is known pointwise: the stroke colour exactly at the stroked points inside the box;
  (d) with `thick_no_pixel_twice` (Props/C17/Stroke.lean: no pixel is yielded twice) the map does not
      depend on the ORDER in which the pixels are offered: every permutation of `pixels()` leaves the
      same map on every target box.
  `Thick.drawStyled` / `Thick.styledPixels` never return `none` (`Thick.drawStyled_total`).
-/
import EG.Lemmas.C01ThickStream
import EG.Lemmas.ThickTranslate
import EG.Lemmas.ThickGeoMain
namespace EG.C01.Line
open EG EG.Tgt

/-- (a) `draw()` of a styled line is one `draw_iter` call with the sequence of `pixels()` (definitional:
the model transcribes `target.draw_iter(StyledPixelsIterator::new(self, style))`). -/
theorem styled_line_draw_eq_pixels (l : Line) (w : Nat) (sc : Option Color) :
    Thick.drawStyled l w sc = (Thick.styledPixels l w sc).map (fun px => [Call.drawIter px]) := rfl

/-- (b) `draw()` of a styled line: draw_iter-only target = native-fill target. -/
theorem styled_line_default_eq_native (l : Line) (w : Nat) (sc : Option Color) (B : Rect)
    (calls : List Call) (_h : Thick.drawStyled l w sc = some calls) :
    runDefault B calls = runNative B calls :=
  runDefault_eq_runNative B calls
example : ∃ calls, Thick.drawStyled ⟨⟨2, 2⟩, ⟨6, 4⟩⟩ 3 (some 7) = some calls := Thick.drawStyled_total _ _ _

/-- (b) **Styled line: `draw()` on R1 = `draw()` on R2 = `draw_iter(pixels())`**, as pixel maps, for
every line, stroke width, colour option and target box. -/
theorem styled_line_three_paths (l : Line) (w : Nat) (sc : Option Color) (B : Rect) :
    ∃ calls px, Thick.drawStyled l w sc = some calls ∧ Thick.styledPixels l w sc = some px ∧
      runNative B calls = PMap.empty.apply (clipWrites B px) ∧
      runDefault B calls = PMap.empty.apply (clipWrites B px) ∧
      runDefault B [Call.drawIter px] = runDefault B calls ∧
      runNative B [Call.drawIter px] = runNative B calls := by
  obtain ⟨calls, hc⟩ := Thick.drawStyled_total l w sc
  rw [styled_line_draw_eq_pixels] at hc
  cases hp : Thick.styledPixels l w sc with
  | none => rw [hp] at hc; cases hc
  | some px =>
    rw [hp] at hc
    simp only [Option.map_some, Option.some.injEq] at hc
    subst hc
    exact ⟨_, px, by rw [styled_line_draw_eq_pixels, hp]; rfl, rfl, runNative_drawIter B px,
      runDefault_drawIter B px, rfl, rfl⟩

/-- (c) **The image of a styled line, pointwise**: inside the target box the stroke colour exactly at
the points of the stroke, nothing elsewhere — on either kind of target. -/
theorem styled_line_draw_map (l : Line) (w : Nat) (c : Color) (B : Rect) (ps : List Pt)
    (calls : List Call) (hps : Thick.thickPoints l w = some ps)
    (hc : Thick.drawStyled l w (some c) = some calls) (p : Pt) :
    runNative B calls p = (if B.contains p = true ∧ p ∈ ps then some c else none) ∧
    runDefault B calls p = (if B.contains p = true ∧ p ∈ ps then some c else none) := by
  rw [runDefault_eq_runNative]
  simp only [Thick.drawStyled, Thick.styledPixels, hps, Option.map_some, Option.some.injEq] at hc
  subst hc
  rw [runNative_drawIter, PMap.empty_apply, lastWrite_clipWrites, lastWrite_map_const]
  by_cases hb : B.contains p = true <;> by_cases hm : p ∈ ps <;> simp [hb, hm]
example : ∃ ps, Thick.thickPoints ⟨⟨2, 2⟩, ⟨6, 4⟩⟩ 3 = some ps := Thick.thickPoints_total _ _

/-- (d) **The pixel map of a styled line does not depend on the order of the pixels**: no pixel is
yielded twice (`EG.C17.Stroke.thick_no_pixel_twice` = `Thick.thickPoints_nodup`), so feeding ANY
permutation of `pixels()` to `draw_iter` leaves the map of `draw()`, on every target box. -/
theorem styled_line_order_independent (l : Line) (w : Nat) (sc : Option Color) (B : Rect)
    (px px' : Writes) (hp : Thick.styledPixels l w sc = some px) (hperm : px.Perm px') :
    runDefault B [Call.drawIter px'] = runDefault B [Call.drawIter px] ∧
    runNative B [Call.drawIter px'] = runNative B [Call.drawIter px] := by
  have hn : (px.map Prod.fst).Nodup := by
    unfold Thick.styledPixels at hp
    cases sc with
    | none => simp only [Option.some.injEq] at hp; subst hp; exact List.nodup_nil
    | some c =>
      dsimp only at hp
      cases hps : Thick.thickPoints l w with
      | none => rw [hps] at hp; cases hp
      | some ps =>
        rw [hps] at hp
        simp only [Option.map_some, Option.some.injEq] at hp
        subst hp
        rw [List.map_map]
        have : (Prod.fst ∘ fun p : Pt => (p, c)) = id := rfl
        rw [this, List.map_id]
        exact Thick.thickPoints_nodup l w ps hps
  rw [runDefault_drawIter, runDefault_drawIter, runNative_drawIter, runNative_drawIter]
  exact ⟨(C01Thick.apply_clip_perm B hperm hn).symm, (C01Thick.apply_clip_perm B hperm hn).symm⟩
example : (Thick.styledPixels ⟨⟨2, 2⟩, ⟨6, 4⟩⟩ 3 (some 7)).map (·.length) = some 19 := by decide

-- [V] styled line: that `draw()` issues the same single `draw_iter` call whatever the target type (Rust parametricity of `draw_styled` in `D: DrawTarget`), and that this call carries the sequence of `pixels()` (definitional in the model): carried by correspondence + a validated tie only (stream `thick.points`, class `C01:tie-hypothesis:line-draw-is-one-draw_iter`; the property's own clause, equal pixel maps, is the oracle class `C01:pixels-vs-draw:thick-line`)

end EG.C01.Line
