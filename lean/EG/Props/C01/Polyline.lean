/-
  C01 (styled Polyline, every stroke width) — one image per drawing path.

  polyline/styled.rs (model EG/Model/ThickPolyline.lean, tied by the stream `thick.polyline`):
  * no stroke colour, or width 0: `draw_styled` makes no call and `pixels()` yields nothing;
  * width 1: `draw_styled` is one `draw_iter` call with `points()` and `pixels()` is `points()`;
  * width > 1: `draw_thick` issues one `fill_solid` of a 1-px-high rectangle per scanline of the
    `ScanlineIterator` (on `target.translated(translate)`), `StyledPixelsIterator` walks the same
    scanlines point by point (adding `translate`).
  Here: the WRITE SEQUENCE of `draw()` on a native-fill target (every `fill_solid` rectangle written
  row-major) — and, by the trait defaults, on a draw_iter-only target — is exactly the pixel sequence
  of `pixels()`, clipped to the target box: same points, same order. Hence the three paths leave the
  same pixel map. Scanlines of one row may overlap (segments of a polyline crossing each other);
  since the two paths write the same sequence no argument about the order is needed.
  Helper lemmas: EG/Lemmas/C01ThickStream.lean (fuel-free runs of the model iterators),
  EG/Lemmas/C01ThickPoly.lean.

  Guard (decidable, `True` on every op of the `thick.polyline` stream):
  * `PolyRectsInRange pl w` — no `fill_solid` rectangle saturates `i32` (`Rect.InRange`).
  No fuel guard: the model drains `pixels()` with the total length of the scanline run as fuel, which
  is PROVED sufficient (`styled_polyline_same_scanlines`: the model's pixel list is the complete run),
  like `toList`'s fuel `stepBudget` on the scanline side.
  (The polyline's `ScanlineIterator::next` is a `loop` over the rows: it returns `None` only after
  the last row and keeps returning `None` then, so the `None` that `StyledPixelsIterator::new`
  forgives is final; unlike the triangle's iterator — Props/C01/Triangle.lean — it is fused in effect.)
-/
import EG.Lemmas.C01ThickPoly
import EG.Lemmas.JoinsBBoxPolyMain
namespace EG.C01.Polyline
open EG EG.Tgt EG.Joins EG.C01Thick

/-- The full claim for one styled polyline: the three paths leave the same pixel map on every
target box. -/
def StyledPolylinePathsAgree (pl : Polyline) (w : Nat) (sc : Option Color) : Prop :=
  ∀ calls px, polyStyledCalls pl w sc = some calls → polyStyledPixels pl w sc = some px →
    ∀ (B : Rect) (p : Pt),
      runNative B calls p = runDefault B [Call.drawIter px] p ∧
      runDefault B calls p = runDefault B [Call.drawIter px] p

/-- The model of a styled polyline is total: `draw()` and `pixels()` always return. -/
theorem styled_polyline_total (pl : Polyline) (w : Nat) (sc : Option Color) :
    (∃ calls, polyStyledCalls pl w sc = some calls) ∧ (∃ px, polyStyledPixels pl w sc = some px) := by
  cases sc with
  | none => exact ⟨⟨_, rfl⟩, ⟨_, rfl⟩⟩
  | some c =>
    obtain ⟨d, hd⟩ := drawStyled_total pl w
    obtain ⟨ps, hps⟩ := pixels_total pl w
    exact ⟨⟨polyCalls c d, by simp only [polyStyledCalls, hd, Option.map_some]⟩,
      ⟨ps.map (fun p => (p, c)), by simp only [polyStyledPixels, hps, Option.map_some]⟩⟩

/-- No stroke colour, or stroke width 0: `draw()` makes no call and `pixels()` yields nothing — all
three paths leave the target untouched (no guard). -/
theorem styled_polyline_nothing (pl : Polyline) (w : Nat) (sc : Option Color) (h : sc = none ∨ w = 0) :
    polyStyledCalls pl w sc = some [] ∧ polyStyledPixels pl w sc = some [] := by
  cases sc with
  | none => exact ⟨rfl, rfl⟩
  | some c =>
    rcases h with h | rfl
    · cases h
    · exact ⟨rfl, rfl⟩
example : (some 3 : Option Color) = none ∨ 0 = 0 := Or.inr rfl

/-- Stroke width 1: `draw()` is ONE `draw_iter` call with the pixel sequence of `pixels()`
(= `points()` with the stroke colour), so the three paths agree definitionally (no guard). -/
theorem styled_polyline_width1 (pl : Polyline) (c : Color) :
    polyStyledPixels pl 1 (some c) = some ((Polyline.points pl).map (fun p => (p, c))) ∧
    polyStyledCalls pl 1 (some c) = some [Call.drawIter ((Polyline.points pl).map (fun p => (p, c)))] :=
  ⟨rfl, rfl⟩

/-- Stroke width > 1: `draw()` issues one `fill_solid` per scanline of the scanline run `L` (all
non-empty), `pixels()` yields the points of the same scanlines in the same order — ALL of them: the
model's pixel list is complete (the fuel of its drain is never used up; no guard). -/
theorem styled_polyline_same_scanlines (pl : Polyline) (w : Nat) (hw : 2 ≤ w) :
    ∃ L : List Scanline, (∀ s ∈ L, s.isEmpty = false) ∧
      drawStyled pl w = some (.fillSolids (L.map (fun s => (moveS s pl.translate).toRectangle))) ∧
      pixels pl w = some (L.flatMap (fun s => (moveS s pl.translate).points)) := by
  obtain ⟨L, hL, hne, hd⟩ := drawStyled_eq_run pl w hw
  obtain ⟨L', hL', hps'⟩ := pixels_eq_run pl w hw
  rw [hL] at hL'
  simp only [Option.some.injEq] at hL'
  subst hL'
  exact ⟨L, hne, hd, hps'⟩
example : (pixels ⟨⟨1, -2⟩, [⟨0, 0⟩, ⟨6, 3⟩, ⟨2, 7⟩]⟩ 4).map List.length = some 54 := by decide +kernel

/-- **Write sequences.** For every stroked polyline, width, colour option and target box: the writes
of `draw()` — natively (R2) and through the trait defaults (R1) — are exactly the pixels of
`pixels()` clipped to the box: same points, same colour, same order. -/
theorem styled_polyline_writes_agree (pl : Polyline) (w : Nat) (sc : Option Color)
    (hr : PolyRectsInRange pl w) (calls : List Call) (px : Writes)
    (hc : polyStyledCalls pl w sc = some calls) (hp : polyStyledPixels pl w sc = some px) (B : Rect) :
    calls.flatMap (Call.writesNative B) = clipWrites B px ∧
    calls.flatMap (Call.writesDefault B) = clipWrites B px := by
  have h := polyStyled_writes pl w sc B hr calls px hc hp
  have hn : calls.flatMap (Call.writesNative B) = clipWrites B px := by
    rw [← h]
    unfold Call.writesNative clipWrites
    rw [List.filter_flatMap]
  refine ⟨hn, ?_⟩
  rw [← hn]
  exact flatMap_congr_left _ _ _ (fun c _ => Call.writesDefault_eq_writesNative B c)
example : PolyRectsInRange ⟨⟨1, -2⟩, [⟨0, 0⟩, ⟨6, 3⟩, ⟨2, 7⟩]⟩ 4 := by decide +kernel

/-- **Styled polyline: `draw()` on R1 = `draw()` on R2 = `draw_iter(pixels())`**, as pixel maps, for
every vertex list, `translate`, stroke width, colour option and target box. Guard: no rectangle
saturates `i32`. -/
theorem styled_polyline_paths_agree (pl : Polyline) (w : Nat) (sc : Option Color)
    (hr : PolyRectsInRange pl w) : StyledPolylinePathsAgree pl w sc := by
  intro calls px hc hp B p
  obtain ⟨h1, h2⟩ := styled_polyline_writes_agree pl w sc hr calls px hc hp B
  rw [runDefault_drawIter]
  unfold runNative runDefault
  rw [h1, h2]
  exact ⟨rfl, rfl⟩
-- a closed polyline whose segments cross; a polyline with a repeated vertex and a sharp turn, moved by `translate`
example : PolyRectsInRange ⟨⟨0, 0⟩, [⟨-4, 1⟩, ⟨0, -2⟩, ⟨2, -5⟩, ⟨-4, 1⟩]⟩ 2 := by decide +kernel
example : PolyRectsInRange ⟨⟨-7, -9⟩, [⟨0, 0⟩, ⟨9, 1⟩, ⟨0, 2⟩, ⟨0, 2⟩, ⟨4, -6⟩]⟩ 5 := by decide +kernel

/-- `draw()` of a styled polyline: draw_iter-only target = native-fill target (no guard). -/
theorem styled_polyline_default_eq_native (pl : Polyline) (w : Nat) (sc : Option Color) (B : Rect)
    (calls : List Call) (_hc : polyStyledCalls pl w sc = some calls) :
    runDefault B calls = runNative B calls :=
  runDefault_eq_runNative B calls
example : ∃ calls, polyStyledCalls ⟨⟨1, -2⟩, [⟨0, 0⟩, ⟨6, 3⟩, ⟨2, 7⟩]⟩ 4 (some 1) = some calls :=
  (styled_polyline_total _ _ _).1

/-- **The image of a stroked polyline of width > 1, pointwise**: one colour everywhere, so it is the
stroke colour exactly at the points of the box covered by some scanline rectangle (overlapping
scanlines do not matter). -/
theorem styled_polyline_draw_map (pl : Polyline) (w : Nat) (c : Color) (hr : PolyRectsInRange pl w)
    (rs : List Rect) (hd : drawStyled pl w = some (.fillSolids rs)) (B : Rect) (p : Pt) :
    runNative B (polyCalls c (.fillSolids rs)) p =
      if B.contains p = true ∧ ∃ r ∈ rs, r.contains p = true then some c else none := by
  have hin : ∀ r ∈ rs, r.InRange := by
    unfold PolyRectsInRange at hr
    rw [hd] at hr
    exact hr
  have hcalls : polyCalls c (.fillSolids rs) = solidCalls (rs.map (fun r => (r, c))) := by
    simp only [polyCalls, solidCalls, List.map_map]
    rfl
  rw [hcalls, runNative_solidCalls _ _ (by
    intro ac hac
    rw [List.mem_map] at hac
    obtain ⟨r, hr', rfl⟩ := hac
    exact hin r hr')]
  by_cases hB : B.contains p = true
  · simp only [hB, ↓reduceIte, true_and]
    by_cases hex : ∃ r ∈ rs, r.contains p = true
    · rw [if_pos hex]
      cases hl : lastSolid (rs.map (fun r => (r, c))) p with
      | none =>
        rw [lastSolid_eq_none_iff] at hl
        obtain ⟨r, hr', hc⟩ := hex
        exact absurd hc (hl (r, c) (List.mem_map.mpr ⟨r, hr', rfl⟩))
      | some c' =>
        obtain ⟨ac, hac, -, hcc⟩ := lastSolid_eq_some hl
        rw [List.mem_map] at hac
        obtain ⟨r, -, rfl⟩ := hac
        rw [← hcc]
    · rw [if_neg hex]
      rw [lastSolid_eq_none_iff]
      intro ac hac hc
      rw [List.mem_map] at hac
      obtain ⟨r, hr', rfl⟩ := hac
      exact hex ⟨r, hr', hc⟩
  · simp [hB]
example : (drawStyled ⟨⟨1, -2⟩, [⟨0, 0⟩, ⟨6, 3⟩, ⟨2, 7⟩]⟩ 4).map (fun d => (polyRects d).length) = some 11 ∧
    PolyRectsInRange ⟨⟨1, -2⟩, [⟨0, 0⟩, ⟨6, 3⟩, ⟨2, 7⟩]⟩ 4 := by decide +kernel

-- [V] styled polyline: that `draw()` issues the same call list whatever the target type (Rust parametricity of `draw_styled` in `D: DrawTarget`; `Translated::fill_solid` moving the rectangle by `translate`): carried by correspondence + oracle only (stream `thick.polyline`: R2 call log `draw=`, pixel sequence `px=`, class `C01:pixels-vs-draw:thick-polyline`)

end EG.C01.Polyline
