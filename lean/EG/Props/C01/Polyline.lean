/-
  C01 (styled Polyline, every stroke width) — one image per drawing path.

  polyline/styled.rs (model EG/Model/ThickPolyline.lean, tied by the stream `thick.polyline`):
  * no stroke colour, or width 0: `draw_styled` makes no call and `pixels()` yields nothing;
  * width 1: `draw_styled` is one `draw_iter` call with `points()` and `pixels()` is `points()`;
  * width > 1: `draw_thick` issues one `fill_solid` of a 1-px-high rectangle per scanline of the
    `ScanlineIterator` (on `target.translated(translate)`), `StyledPixelsIterator` walks the same
    scanlines point by point (adding `translate`).
  Here: the WRITE SEQUENCE of `draw()` on a native-fill target (every `fill_solid` rectangle written
  row-major) — and, by the trait defaults, on a draw_iter-only target — is exactly the pixel sequence
  of `pixels()`, clipped to the target box: same points, same order. Hence the three paths leave the
  same pixel map. Scanlines of one row may overlap (segments of a polyline crossing each other);
  since the two paths write the same sequence no argument about the order is needed.
  Helper lemmas: EG/Lemmas/C01ThickStream.lean (fuel-free runs of the model iterators),
  EG/Lemmas/C01ThickPoly.lean.

  Guards (both decidable, both `True` on every op of the `thick.polyline` stream):
  * `PolyRectsInRange pl w` — no `fill_solid` rectangle saturates `i32` (`Rect.InRange`);
  * `PolyPixelBudgetOK pl w` — a MODEL artefact, not a condition on the code: the model drains
    `pixels()` with fuel `polyPixelBudget bb * (n + 1)` and returns the prefix seen when the fuel is
    used up; the guard says the list is shorter than the fuel, i.e. complete. (The scanline side
    needs no such guard: `toList`'s fuel `stepBudget` is proved never to be used up.) It can be
    replaced by C02's `PolyBBoxGuard` (`styled_polyline_paths_agree_of_bbox_guard`): the budget
    suffices whenever everything drawn lies inside the bounding box (EG/Lemmas/C01ThickBudget.lean).
-/
import EG.Lemmas.C01ThickBudget
namespace EG.C01.Polyline
open EG EG.Tgt EG.Joins EG.C01Thick

/-- The full claim for one styled polyline: the three paths leave the same pixel map on every
target box. -/
def StyledPolylinePathsAgree (pl : Polyline) (w : Nat) (sc : Option Color) : Prop :=
  ∀ calls px, polyStyledCalls pl w sc = some calls → polyStyledPixels pl w sc = some px →
    ∀ (B : Rect) (p : Pt),
      runNative B calls p = runDefault B [Call.drawIter px] p ∧
      runDefault B calls p = runDefault B [Call.drawIter px] p

/-- The model of a styled polyline is total: `draw()` and `pixels()` always return. -/
theorem styled_polyline_total (pl : Polyline) (w : Nat) (sc : Option Color) :
    (∃ calls, polyStyledCalls pl w sc = some calls) ∧ (∃ px, polyStyledPixels pl w sc = some px) := by
  cases sc with
  | none => exact ⟨⟨_, rfl⟩, ⟨_, rfl⟩⟩
  | some c =>
    obtain ⟨d, hd⟩ := drawStyled_total pl w
    obtain ⟨ps, hps⟩ := pixels_total pl w
    exact ⟨⟨polyCalls c d, by simp only [polyStyledCalls, hd, Option.map_some]⟩,
      ⟨ps.map (fun p => (p, c)), by simp only [polyStyledPixels, hps, Option.map_some]⟩⟩

/-- No stroke colour, or stroke width 0: `draw()` makes no call and `pixels()` yields nothing — all
three paths leave the target untouched (no guard). -/
theorem styled_polyline_nothing (pl : Polyline) (w : Nat) (sc : Option Color) (h : sc = none ∨ w = 0) :
    polyStyledCalls pl w sc = some [] ∧ polyStyledPixels pl w sc = some [] := by
  cases sc with
  | none => exact ⟨rfl, rfl⟩
  | some c =>
    rcases h with h | rfl
    · cases h
    · exact ⟨rfl, rfl⟩
example : (some 3 : Option Color) = none ∨ 0 = 0 := Or.inr rfl

/-- Stroke width 1: `draw()` is ONE `draw_iter` call with the pixel sequence of `pixels()`
(= `points()` with the stroke colour), so the three paths agree definitionally (no guard). -/
theorem styled_polyline_width1 (pl : Polyline) (c : Color) :
    polyStyledPixels pl 1 (some c) = some ((Polyline.points pl).map (fun p => (p, c))) ∧
    polyStyledCalls pl 1 (some c) = some [Call.drawIter ((Polyline.points pl).map (fun p => (p, c)))] :=
  ⟨rfl, rfl⟩

/-- Stroke width > 1: `draw()` issues one `fill_solid` per scanline of the scanline run `L` (all
non-empty), `pixels()` yields the points of the same scanlines in the same order. -/
theorem styled_polyline_same_scanlines (pl : Polyline) (w : Nat) (hw : 2 ≤ w)
    (hb : PolyPixelBudgetOK pl w) (ps : List Pt) (hps : pixels pl w = some ps) :
    ∃ L : List Scanline, (∀ s ∈ L, s.isEmpty = false) ∧
      drawStyled pl w = some (.fillSolids (L.map (fun s => (moveS s pl.translate).toRectangle))) ∧
      ps = L.flatMap (fun s => (moveS s pl.translate).points) := by
  obtain ⟨bb, hbb⟩ := untranslatedBoundingBox_total pl w
  obtain ⟨L, hL, hne, hd⟩ := drawStyled_eq_run pl w hw
  have hlt : ps.length < polyPixelBudget bb * (pl.vertices.length + 1) := by
    unfold PolyPixelBudgetOK at hb
    rw [hps, hbb] at hb
    rcases hb with hb | hb
    · omega
    · exact hb
  obtain ⟨L', hL', hps'⟩ := pixels_eq_run pl w hw bb hbb ps hps hlt
  rw [hL] at hL'
  simp only [Option.some.injEq] at hL'
  subst hL'
  exact ⟨L, hne, hd, hps'⟩
example : PolyPixelBudgetOK ⟨⟨1, -2⟩, [⟨0, 0⟩, ⟨6, 3⟩, ⟨2, 7⟩]⟩ 4 := by decide +kernel

/-- Whatever the model's pixel budget: `pixels()` of the model is the first `budget` points of the
scanlines `draw()` turns into rectangles, walked in the same order — the only way
`PolyPixelBudgetOK` can fail is truncation of the model's list (no guard). -/
theorem styled_polyline_pixels_prefix (pl : Polyline) (w : Nat) (hw : 2 ≤ w) (bb : Rect)
    (hbb : untranslatedBoundingBox pl w = some bb) :
    ∃ L : List Scanline, (∀ s ∈ L, s.isEmpty = false) ∧
      drawStyled pl w = some (.fillSolids (L.map (fun s => (moveS s pl.translate).toRectangle))) ∧
      pixels pl w = some ((L.flatMap (fun s => (moveS s pl.translate).points)).take
        (polyPixelBudget bb * (pl.vertices.length + 1))) := by
  obtain ⟨L, hL, hne, hd⟩ := drawStyled_eq_run pl w hw
  obtain ⟨L', hL', hps⟩ := pixels_prefix_run pl w hw bb hbb
  rw [hL] at hL'
  simp only [Option.some.injEq] at hL'
  subst hL'
  exact ⟨L, hne, hd, hps⟩
example : ∃ bb, untranslatedBoundingBox ⟨⟨1, -2⟩, [⟨0, 0⟩, ⟨6, 3⟩, ⟨2, 7⟩]⟩ 4 = some bb :=
  untranslatedBoundingBox_total _ _

/-- **Write sequences.** For every stroked polyline, width, colour option and target box: the writes
of `draw()` — natively (R2) and through the trait defaults (R1) — are exactly the pixels of
`pixels()` clipped to the box: same points, same colour, same order. -/
theorem styled_polyline_writes_agree (pl : Polyline) (w : Nat) (sc : Option Color)
    (hr : PolyRectsInRange pl w) (hb : PolyPixelBudgetOK pl w) (calls : List Call) (px : Writes)
    (hc : polyStyledCalls pl w sc = some calls) (hp : polyStyledPixels pl w sc = some px) (B : Rect) :
    calls.flatMap (Call.writesNative B) = clipWrites B px ∧
    calls.flatMap (Call.writesDefault B) = clipWrites B px := by
  have h := polyStyled_writes pl w sc B hr hb calls px hc hp
  have hn : calls.flatMap (Call.writesNative B) = clipWrites B px := by
    rw [← h]
    unfold Call.writesNative clipWrites
    rw [List.filter_flatMap]
  refine ⟨hn, ?_⟩
  rw [← hn]
  exact flatMap_congr_left _ _ _ (fun c _ => Call.writesDefault_eq_writesNative B c)
example : PolyRectsInRange ⟨⟨1, -2⟩, [⟨0, 0⟩, ⟨6, 3⟩, ⟨2, 7⟩]⟩ 4 ∧
    PolyPixelBudgetOK ⟨⟨1, -2⟩, [⟨0, 0⟩, ⟨6, 3⟩, ⟨2, 7⟩]⟩ 4 := by decide +kernel

/-- **Styled polyline: `draw()` on R1 = `draw()` on R2 = `draw_iter(pixels())`**, as pixel maps, for
every vertex list, `translate`, stroke width, colour option and target box. -/
theorem styled_polyline_paths_agree_partial (pl : Polyline) (w : Nat) (sc : Option Color)
    (hr : PolyRectsInRange pl w) (hb : PolyPixelBudgetOK pl w) : StyledPolylinePathsAgree pl w sc := by
  intro calls px hc hp B p
  obtain ⟨h1, h2⟩ := styled_polyline_writes_agree pl w sc hr hb calls px hc hp B
  rw [runDefault_drawIter]
  unfold runNative runDefault
  rw [h1, h2]
  exact ⟨rfl, rfl⟩
example : PolyRectsInRange ⟨⟨0, 0⟩, [⟨-4, 1⟩, ⟨0, -2⟩, ⟨2, -5⟩, ⟨-4, 1⟩]⟩ 2 ∧
    PolyPixelBudgetOK ⟨⟨0, 0⟩, [⟨-4, 1⟩, ⟨0, -2⟩, ⟨2, -5⟩, ⟨-4, 1⟩]⟩ 2 := by decide +kernel

/-- The model's pixel budget suffices whenever no `fill_solid` rectangle of `draw()` is wider than the
bounding box and the top row of the box is an `i32` — a consequence of C02's claim "everything drawn
lies inside `bounding_box()`", so the budget guard is not an independent assumption. -/
theorem polyline_pixel_budget_ok_of_widths (pl : Polyline) (w : Nat)
    (h : ∀ d bb, drawStyled pl w = some d → untranslatedBoundingBox pl w = some bb →
      -2147483648 ≤ bb.tl.y ∧ ∀ r ∈ polyRects d, r.size.w ≤ bb.size.w) : PolyPixelBudgetOK pl w :=
  polyPixelBudgetOK_of_widths pl w h

/-- **Styled polyline, the three paths agree, under the guard of C02's bounding-box theorem**
(`PolyBBoxGuard`, Props/C02/JoinsBBox.lean: the top row of the box is an `i32` and no left-side
filler line escapes the box) instead of the budget guard: there everything drawn lies inside the
bounding box, hence the pixel budget of the model suffices. -/
theorem styled_polyline_paths_agree_of_bbox_guard (pl : Polyline) (w : Nat) (sc : Option Color)
    (hr : PolyRectsInRange pl w) (hg : PolyBBoxGuard pl w) : StyledPolylinePathsAgree pl w sc :=
  styled_polyline_paths_agree_partial pl w sc hr (polyPixelBudgetOK_of_bboxGuard pl w hg)
example : PolyRectsInRange ⟨⟨-7, -9⟩, [⟨0, 0⟩, ⟨9, 1⟩, ⟨0, 2⟩, ⟨0, 2⟩, ⟨4, -6⟩]⟩ 5 ∧
    PolyBBoxGuard ⟨⟨-7, -9⟩, [⟨0, 0⟩, ⟨9, 1⟩, ⟨0, 2⟩, ⟨0, 2⟩, ⟨4, -6⟩]⟩ 5 := by decide +kernel

/-- `draw()` of a styled polyline: draw_iter-only target = native-fill target (no guard). -/
theorem styled_polyline_default_eq_native (pl : Polyline) (w : Nat) (sc : Option Color) (B : Rect)
    (calls : List Call) (_hc : polyStyledCalls pl w sc = some calls) :
    runDefault B calls = runNative B calls :=
  runDefault_eq_runNative B calls
example : ∃ calls, polyStyledCalls ⟨⟨1, -2⟩, [⟨0, 0⟩, ⟨6, 3⟩, ⟨2, 7⟩]⟩ 4 (some 1) = some calls :=
  (styled_polyline_total _ _ _).1

/-- **The image of a stroked polyline of width > 1, pointwise**: one colour everywhere, so it is the
stroke colour exactly at the points of the box covered by some scanline rectangle (overlapping
scanlines do not matter). -/
theorem styled_polyline_draw_map (pl : Polyline) (w : Nat) (c : Color) (hr : PolyRectsInRange pl w)
    (rs : List Rect) (hd : drawStyled pl w = some (.fillSolids rs)) (B : Rect) (p : Pt) :
    runNative B (polyCalls c (.fillSolids rs)) p =
      if B.contains p = true ∧ ∃ r ∈ rs, r.contains p = true then some c else none := by
  have hin : ∀ r ∈ rs, r.InRange := by
    unfold PolyRectsInRange at hr
    rw [hd] at hr
    exact hr
  have hcalls : polyCalls c (.fillSolids rs) = solidCalls (rs.map (fun r => (r, c))) := by
    simp only [polyCalls, solidCalls, List.map_map]
    rfl
  rw [hcalls, runNative_solidCalls _ _ (by
    intro ac hac
    rw [List.mem_map] at hac
    obtain ⟨r, hr', rfl⟩ := hac
    exact hin r hr')]
  by_cases hB : B.contains p = true
  · simp only [hB, ↓reduceIte, true_and]
    by_cases hex : ∃ r ∈ rs, r.contains p = true
    · rw [if_pos hex]
      cases hl : lastSolid (rs.map (fun r => (r, c))) p with
      | none =>
        rw [lastSolid_eq_none_iff] at hl
        obtain ⟨r, hr', hc⟩ := hex
        exact absurd hc (hl (r, c) (List.mem_map.mpr ⟨r, hr', rfl⟩))
      | some c' =>
        obtain ⟨ac, hac, -, hcc⟩ := lastSolid_eq_some hl
        rw [List.mem_map] at hac
        obtain ⟨r, -, rfl⟩ := hac
        rw [← hcc]
    · rw [if_neg hex]
      rw [lastSolid_eq_none_iff]
      intro ac hac hc
      rw [List.mem_map] at hac
      obtain ⟨r, hr', rfl⟩ := hac
      exact hex ⟨r, hr', hc⟩
  · simp [hB]
example : (drawStyled ⟨⟨1, -2⟩, [⟨0, 0⟩, ⟨6, 3⟩, ⟨2, 7⟩]⟩ 4).map (fun d => (polyRects d).length) = some 11 ∧
    PolyRectsInRange ⟨⟨1, -2⟩, [⟨0, 0⟩, ⟨6, 3⟩, ⟨2, 7⟩]⟩ 4 := by decide +kernel

-- [V] styled polyline: that `draw()` issues the same call list whatever the target type (Rust parametricity of `draw_styled` in `D: DrawTarget`; `Translated::fill_solid` moving the rectangle by `translate`): carried by correspondence + oracle only (stream `thick.polyline`: R2 call log `draw=`, pixel sequence `px=`, class `C01:pixels-vs-draw:thick-polyline`)
-- [V] styled polyline of width > 1: that the pixel list of the model is complete (`PolyPixelBudgetOK`: fuel of the model's drain of `pixels()`; decidable, true on every op of the stream) for ALL inputs — proved under C02's `PolyBBoxGuard` (`styled_polyline_paths_agree_of_bbox_guard`) and whenever no rectangle is wider than the bounding box; otherwise: carried by correspondence + oracle only (a truncated list would disagree with the real `px=`; `styled_polyline_pixels_prefix`: truncation is the only way to fail)

end EG.C01.Polyline
