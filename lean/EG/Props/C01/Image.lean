/-
  C01 (image part) — an `Image` of a raw image or of a sub-image of any nesting depth leaves the
  same pixel map on a target that implements `draw_iter` only (trait defaults, R1) and on a target
  with native fill methods (R2). Model: EG.Model.ImageRaw + EG.Model.Target.

  -- [V] image: the call list does not depend on the target type (Rust parametricity of `draw` in `D`): carried by correspondence + oracle only (R1 and R2 logs are compared)
-/
import EG.Lemmas.ImageRawImage
namespace EG.C01
open EG EG.Img

/-- Same map on the default and on the native target, for every target box. -/
theorem image_default_eq_native (i : Image) (hg : i.drawable.Good) (B : Rect) :
    runDefault B i.draw = runNative B i.draw := Image.runDefault_eq_runNative i hg B
example : (Image.new ((Drawable.raw exIm).subImage ⟨⟨6, 1⟩, ⟨9, 9⟩⟩) ⟨5, -1⟩).drawable.Good :=
  Drawable.good_subImage (d := .raw exIm) exIm_wf _

/-- The reason: an image makes at most one call, a `fill_contiguous` of its bounding box with
exactly `width * height` colours, which both targets pair with the same row-major points. -/
theorem image_calls (i : Image) (hg : i.drawable.Good) :
    (∃ cs, i.draw = [Call.fillContiguous i.boundingBox cs] ∧
        cs.length = i.drawable.size.w * i.drawable.size.h) ∨ i.draw = [] :=
  Image.calls_are_bbox_fills i hg

end EG.C01
