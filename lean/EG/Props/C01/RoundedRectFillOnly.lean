/-
  C01 (rounded rectangle, fill colour only) — `draw()` and `pixels()` agree EXACTLY when the fill
  area lies inside the stroke area.

  With a fill colour and no stroke colour `draw_styled` walks `Scanlines(fill_area)` (the whole fill
  area is painted) while `StyledPixelsIterator` walks the FILL PARTS of
  `StyledScanlines(stroke_area, fill_area)` (only the points of the fill area that the stroke area
  contains). Here both pixel maps are computed for every style of that kind, shape and target box
  (`fill_only_draw_map`, `fill_only_pixels_map`), and hence: the two renderers leave the same map
  on every target IFF `FillInStroke` (`fill_only_paths_agree_iff`). `FillInStroke` is proved whenever
  `confine` rescales no radius (Props/C06/RoundedRectFillInStroke.lean) and is FALSE for some
  confined shapes (the C06 known finding, class `rrect-paths-differ:draw-pixels:confined-radii`):
  with this theorem those shapes are exactly where the paths differ, at exactly the points of
  `fill_area \ stroke_area`.
-/
import EG.Lemmas.RoundedRectStyled
namespace EG.C01.RoundedRectFillOnly
open EG EG.RoundedRect

section
variable (st : Style) (r : RoundedRect) (hS : (r.strokeArea st).InRange) (hF : (r.fillArea st).InRange)
  (hst : st.stroke = none) (fc : Color) (hf : st.fill = some fc)
include hF hst hf

/-- `draw()` (fill colour only) paints every point of `fill_area()` on the target, nothing else. -/
theorem fill_only_draw_map (B : Rect) (p : Pt) :
    runNative B (r.drawStyled st) p =
      if B.contains p = true ∧ (r.fillArea st).contains p = true then some fc else none := by
  have hd : r.drawStyled st = drawFillLines fc (r.fillArea st).scanlines.toList := by
    unfold RoundedRect.drawStyled
    rw [Style.effectiveStrokeColor_eq, hst, hf]
    simp
  unfold runNative
  rw [flatMap_writesNative, hd, drawFillLines_lowerNative fc _ (scanline_wf hF)]
  apply Scan.apply_eq_of_mem_iff
  intro q col
  rw [Scan.mem_clipWrites, mem_fill_lines_iff hF]
  by_cases hb : B.contains q = true <;> by_cases hc : (r.fillArea st).contains q = true <;>
    simp [hb, hc]

include hS
/-- `pixels()` (fill colour only) yields the points of `fill_area()` that `stroke_area()` contains. -/
theorem fill_only_pixels_map (B : Rect) (p : Pt) :
    PMap.empty.apply (clipWrites B (r.styledPixels st)) p =
      if B.contains p = true ∧ (r.strokeArea st).contains p = true ∧ (r.fillArea st).contains p = true
      then some fc else none := by
  apply Scan.apply_eq_of_mem_iff
  intro q col
  unfold RoundedRect.styledPixels RoundedRect.styledPixelsIt
  rw [Scan.mem_clipWrites, StyledPixelsIt.toList_new, mem_lines_iff hS hF, hst, hf]
  by_cases hb : B.contains q = true <;> by_cases hs : (r.strokeArea st).contains q = true <;>
    by_cases hc : (r.fillArea st).contains q = true <;> simp [hb, hs, hc]

/-- **Fill colour only: `draw()` and `draw_iter(pixels())` leave the same pixel map on every target
IFF the fill area lies inside the stroke area.** Where it does not, they differ exactly at the
points of `fill_area \ stroke_area` (painted by `draw()`, not by `pixels()`). -/
theorem fill_only_paths_agree_iff :
    (∀ B, runNative B (r.drawStyled st) = PMap.empty.apply (clipWrites B (r.styledPixels st))) ↔
      FillInStroke st r := by
  constructor
  · intro h p hp
    have hB : (⟨p, ⟨1, 1⟩⟩ : Rect).contains p = true := by
      rw [Rect.contains_iff]; simp only; omega
    have := congrFun (h ⟨p, ⟨1, 1⟩⟩) p
    rw [fill_only_draw_map st r hF hst fc hf, fill_only_pixels_map st r hS hF hst fc hf] at this
    simp only [hB, hp, and_self, ↓reduceIte, true_and, and_true] at this
    by_cases hs : (r.strokeArea st).contains p = true
    · exact hs
    · simp [hs] at this
  · intro hI B
    funext p
    rw [fill_only_draw_map st r hF hst fc hf, fill_only_pixels_map st r hS hF hst fc hf]
    by_cases hc : (r.fillArea st).contains p = true
    · simp [hc, hI p hc]
    · simp [hc]

end

-- non-vacuity: the known-finding witness (3x20, top-left radius (3,20), width 1 Inside, fill only)
example : let st : Style := ⟨some 7, none, 1, .inside⟩
    let r : RoundedRect := ⟨⟨⟨0, 0⟩, ⟨3, 20⟩⟩, ⟨⟨3, 20⟩, ⟨0, 0⟩, ⟨0, 0⟩, ⟨0, 0⟩⟩⟩
    (r.strokeArea st).InRange ∧ (r.fillArea st).InRange ∧ st.stroke = none ∧ st.fill = some 7 := by decide

end EG.C01.RoundedRectFillOnly
