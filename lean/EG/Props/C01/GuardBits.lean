/-
  EG.Props.C01.GuardBits — the guard bits the model driver prints for `thick.polyline` / `thick.triangle`
  ops (field ` g=..`, EG/Driver/Thick.lean, computed by the Mathlib-free functions of
  EG/Model/JoinGuards.lean) ARE the decidable guards `PolyRectsInRange` / `TriRectsInRange` of the C01
  theorems on stroked polylines and styled triangles (EG/Props/C01/{Polyline,Triangle}.lean): given the
  `fill_solid` calls the driver has computed anyway, the Bool function is `true` exactly when the guard
  holds. `coverage.guard_bits` of the evidence reports on how many ops of a run they hold.
-/
import EG.Model.JoinGuards
import EG.Lemmas.C01ThickTri
namespace EG.C01.GuardBitsSpec
open EG EG.Joins EG.C01Thick

theorem rectInRange_bit_iff (r : Rect) : GuardBits.rectInRange r = true ↔ r.InRange := by
  unfold GuardBits.rectInRange Rect.InRange inI32
  simp only [Bool.and_eq_true, decide_eq_true_eq, and_assoc]

/-- The driver's bit for `PolyRectsInRange` (from the `PolyDraw` the driver prints as `draw=`). -/
theorem polyRectsInRange_bit_iff (pl : Polyline) (w : Nat) (dr : PolyDraw)
    (h : drawStyled pl w = some dr) :
    GuardBits.polyRectsInRange dr = true ↔ PolyRectsInRange pl w := by
  unfold PolyRectsInRange
  rw [h]
  cases dr with
  | nothing => simp [GuardBits.polyRectsInRange, polyRects]
  | drawIter pts => simp [GuardBits.polyRectsInRange, polyRects]
  | fillSolids rs =>
    simp only [GuardBits.polyRectsInRange, polyRects, List.all_eq_true, rectInRange_bit_iff]

/-- The driver's bit for `TriRectsInRange` (from the `fill_solid` calls the driver prints as `draw=`). -/
theorem triRectsInRange_bit_iff (t : Tri) (style : TriStyle) (calls : List (Rect × Nat))
    (h : triDraw t style = some calls) :
    GuardBits.triRectsInRange calls = true ↔ TriRectsInRange t style := by
  unfold TriRectsInRange
  rw [h]
  simp only [GuardBits.triRectsInRange, List.all_eq_true, rectInRange_bit_iff]

end EG.C01.GuardBitsSpec
