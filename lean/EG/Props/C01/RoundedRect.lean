/-
  C01 (rounded rectangle part) — `draw()` gives the same pixel map on a `draw_iter`-only target (R1,
  trait defaults) and on a native-fill target (R2), and `draw_iter(pixels())` gives that same map.

  Model: `EG.Model.RoundedRect` (`drawStyled` = the `fill_solid` calls of `draw_styled`,
  `styledPixels` = the `StyledPixelsIterator`; `pixels()` uses `stroke_color`, `draw()` uses
  `effective_stroke_color()`; the fill-only arm of `draw()` takes its scanlines from
  `Scanlines(fill_area)`, `pixels()` always from `StyledScanlines(stroke_area, fill_area)`).
-/
import EG.Lemmas.RoundedRectStyled
namespace EG.C01
open EG EG.RoundedRect

/-- `draw()` on R1 = `draw()` on R2, for every style, shape and target box. -/
theorem rrect_draw_default_eq_native (st : Style) (r : RoundedRect) (B : Rect) :
    runDefault B (r.drawStyled st) = runNative B (r.drawStyled st) := by
  unfold runNative runDefault
  rw [flatMap_writesNative, flatMap_writesDefault]
  congr 2
  unfold RoundedRect.drawStyled
  split
  · exact drawLines_lowerDefault _ _ _ B
  · exact drawLines_lowerDefault _ _ _ B
  · exact drawFillLines_lowerDefault _ _ B
  · rfl

/-- **With an effective stroke (colour set, width > 0): `draw()` on R2 and on R1 write exactly the
pixels of `pixels()`** (clipped to the target) — same points, same colours, same order; for all
sizes, radii, widths, alignments, with and without fill colour. -/
theorem styled_rrect_pixels_eq_draw_stroked (st : Style) (r : RoundedRect) (B : Rect)
    (hS : (r.strokeArea st).InRange) (hF : (r.fillArea st).InRange) (sc : Color)
    (hsc : st.effectiveStrokeColor = some sc) :
    (r.drawStyled st).flatMap (Call.writesNative B) = clipWrites B (r.styledPixels st) ∧
    (r.drawStyled st).flatMap (Call.writesDefault B) = clipWrites B (r.styledPixels st) := by
  have hstroke : st.stroke = some sc := by
    rw [Style.effectiveStrokeColor_eq] at hsc
    by_cases hw : st.width > 0
    · simpa [hw] using hsc
    · simp [hw] at hsc
  have hd : r.drawStyled st =
      drawLines sc st.fill (styledScanlines (r.strokeArea st) (r.fillArea st)).toList := by
    unfold RoundedRect.drawStyled
    rw [hsc]
    cases st.fill <;> rfl
  rw [flatMap_writesNative, flatMap_writesDefault, hd, drawLines_lowerDefault,
    drawLines_lowerNative sc st.fill _ (lines_wf hS hF) B]
  unfold RoundedRect.styledPixels RoundedRect.styledPixelsIt
  rw [StyledPixelsIt.toList_new, hstroke]
  exact ⟨rfl, rfl⟩
example : let st : Style := ⟨some 1, some 2, 3, .center⟩
    let r : RoundedRect := ⟨⟨⟨-3, 2⟩, ⟨9, 7⟩⟩, ⟨⟨3, 2⟩, ⟨0, 0⟩, ⟨9, 9⟩, ⟨1, 4⟩⟩⟩
    (r.strokeArea st).InRange ∧ (r.fillArea st).InRange ∧ st.effectiveStrokeColor = some 2 := by decide

/-- The full claim: for every style, shape and target box the three maps are equal. -/
def StyledRRectPixelsEqDraw : Prop :=
  ∀ (st : Style) (r : RoundedRect) (B : Rect), (r.strokeArea st).InRange → (r.fillArea st).InRange →
    runNative B (r.drawStyled st) = PMap.empty.apply (clipWrites B (r.styledPixels st)) ∧
    runDefault B (r.drawStyled st) = PMap.empty.apply (clipWrites B (r.styledPixels st))

/-- **`draw()` on R1 = `draw()` on R2 = `draw_iter(pixels())`** for all four colour options, under
`FillInStroke` (needed only where the two paths use different scanline sources: fill colour only,
`Scanlines(fill_area)` vs the fill parts of `StyledScanlines(stroke_area, fill_area)`). -/
theorem styled_rrect_pixels_eq_draw_partial (st : Style) (r : RoundedRect) (B : Rect)
    (hS : (r.strokeArea st).InRange) (hF : (r.fillArea st).InRange) (hI : FillInStroke st r) :
    runNative B (r.drawStyled st) = PMap.empty.apply (clipWrites B (r.styledPixels st)) ∧
    runDefault B (r.drawStyled st) = PMap.empty.apply (clipWrites B (r.styledPixels st)) := by
  have h1 : runNative B (r.drawStyled st) = PMap.empty.apply (clipWrites B (r.styledPixels st)) := by
    funext p
    have hd : runNative B (r.drawStyled st) p =
        if B.contains p = true then styledExpected st r p else none := by
      unfold runNative
      rw [flatMap_writesNative]
      apply Scan.apply_eq_of_mem_iff
      intro q col
      rw [Scan.mem_clipWrites, mem_draw_iff hS hF hI]
      by_cases hb : B.contains q = true <;> simp [hb]
    rw [hd]
    symm
    apply Scan.apply_eq_of_mem_iff
    intro q col
    rw [Scan.mem_clipWrites, mem_pixels_iff hS hF hI]
    by_cases hb : B.contains q = true <;> simp [hb]
  exact ⟨h1, by rw [rrect_draw_default_eq_native, h1]⟩
example : let st : Style := ⟨some 1, some 2, 0, .inside⟩
    let r : RoundedRect := ⟨⟨⟨-3, 2⟩, ⟨9, 7⟩⟩, CornerRadii.new ⟨3, 2⟩⟩
    (r.strokeArea st).InRange ∧ (r.fillArea st).InRange ∧ FillInStroke st r :=
  ⟨by decide, by decide, fillInStroke_of_zero_width _ _ rfl⟩

/-- Stroke width 0 (the stroke colour is set but not effective, or not set): all three maps are
equal outright. -/
theorem styled_rrect_pixels_eq_draw_zero_width (st : Style) (r : RoundedRect) (B : Rect)
    (h0 : st.width = 0) (hF : (r.fillArea st).InRange) :
    runNative B (r.drawStyled st) = PMap.empty.apply (clipWrites B (r.styledPixels st)) ∧
    runDefault B (r.drawStyled st) = PMap.empty.apply (clipWrites B (r.styledPixels st)) :=
  styled_rrect_pixels_eq_draw_partial st r B
    (by rw [areas_eq_of_zero_width st r h0]; exact hF) hF (fillInStroke_of_zero_width st r h0)
example : (⟨some 1, some 2, 0, .inside⟩ : Style).width = 0 ∧
    (RoundedRect.fillArea ⟨some 1, some 2, 0, .inside⟩ ⟨⟨⟨-3, 2⟩, ⟨9, 7⟩⟩, CornerRadii.new ⟨3, 2⟩⟩).InRange := by
  decide

-- (closed) rounded rectangle, fill colour only with a non-zero stroke width and no stroke colour: `draw()` (scanlines of `fill_area`) vs `pixels()` (fill parts of the stroke area's scanlines) agree iff `fill_area ⊆ stroke_area` (FillInStroke): proved in Props/C01/RoundedRectFillOnly.lean (`fill_only_paths_agree_iff`, with both pixel maps in closed form); where FillInStroke is false (C06 known finding, confined radii) the paths differ exactly on `fill_area \ stroke_area`
end EG.C01
