/-
  C01 (Rectangle) — one image per drawing path, for the styled rectangle.

  (a) `draw()` leaves the same pixel map on a draw_iter-only target (`runDefault`: the three trait
      defaults of `DrawTarget`) and on a native-fill target (`runNative`: documented meaning);
  (b) `pixels()` fed to `draw_iter` gives that same map.
  Models: EG.Model.Target, EG.Model.StyledRect. Helper lemmas: EG/Lemmas/PMap.lean,
  EG/Lemmas/StyledRectDraw.lean. (a) needs no guard; (b) holds under `StyledRect.Guard` (stroke
  width fits `i32`, stroke area within the `i32` coordinate range).
-/
import EG.Lemmas.StyledRectDraw
namespace EG.C01.Rectangle
open EG.Tgt
open EG EG.Rect EG.StyledRect

/-- Each trait default (`fill_contiguous`, `fill_solid`, `clear` lowered to `draw_iter`) offers
exactly the writes of the documented meaning — for every call, area (also zero-sized, outside
the box or saturating) and colour stream of any length. -/
theorem default_lowering_eq_native (B : Rect) (c : Call) : c.lowerDefault B = c.lowerNative B :=
  Call.lowerDefault_eq_lowerNative B c

/-- (a) `draw()` of a styled rectangle: draw_iter-only target = native-fill target, for every
rectangle, style and target box (no guard). -/
theorem styled_rect_default_eq_native (s : Style) (r : Rect) (B : Rect) :
    runDefault B (drawCalls s r) = runNative B (drawCalls s r) :=
  runDefault_eq_runNative B (drawCalls s r)

/-- (b) `pixels()` fed to `draw_iter` leaves the same map as `draw()`, pointwise, for every
rectangle size (also collapsed fill areas), width, alignment, colour option and target box. -/
theorem styled_rect_pixels_eq_draw (s : Style) (r : Rect) (h : Guard s r) (B : Rect) (p : Pt) :
    PMap.empty.apply (clipWrites B (pixelsList s r)) p = runNative B (drawCalls s r) p := by
  rw [apply_pixelsList s r h B p, runNative_drawCalls s r h B p]

/-- (b) stated with the targets: `draw_iter(pixels())` on the draw_iter-only target vs `draw()` on
either target. -/
theorem styled_rect_three_paths (s : Style) (r : Rect) (h : Guard s r) (B : Rect) (p : Pt) :
    runDefault B [Call.drawIter (pixelsList s r)] p = runDefault B (drawCalls s r) p ∧
    runDefault B (drawCalls s r) p = runNative B (drawCalls s r) p := by
  rw [runDefault_drawIter, styled_rect_default_eq_native]
  exact ⟨styled_rect_pixels_eq_draw s r h B p, rfl⟩

/-- The `StyledPixelsIterator` state machine (inner `Points` iterator, colour choice, skipping of
colourless points) yields exactly: the points of the stroke area (none for a transparent style),
each with the fill colour inside the fill area and the stroke colour elsewhere, colourless points
dropped — for every rectangle and style (no guard). -/
theorem styled_rect_pixels_iterator_spec (s : Style) (r : Rect) :
    pixelsList s r =
      (if !s.isTransparent then (strokeArea s r).points else []).filterMap (pixelOf s r) :=
  pixelsList_eq_spec s r

/-- `pixels()` yields no point twice (so "last write wins" plays no role on that path). -/
theorem styled_rect_pixels_nodup (s : Style) (r : Rect) : ((pixelsList s r).map Prod.fst).Nodup :=
  pixelsList_nodup s r

/-! Non-vacuity -/
example : Guard ⟨some 7, some 9, 3, .center⟩ ⟨⟨-2, -1⟩, ⟨4, 5⟩⟩ := by decide
example : Guard ⟨some 7, none, 2, .outside⟩ ⟨⟨-2, -1⟩, ⟨0, 3⟩⟩ := by decide
example : pixelsList ⟨some 7, some 9, 1, .inside⟩ ⟨⟨0, 0⟩, ⟨3, 3⟩⟩ =
    [(⟨0, 0⟩, 9), (⟨1, 0⟩, 9), (⟨2, 0⟩, 9), (⟨0, 1⟩, 9), (⟨1, 1⟩, 7), (⟨2, 1⟩, 9),
     (⟨0, 2⟩, 9), (⟨1, 2⟩, 9), (⟨2, 2⟩, 9)] := by decide

-- [V] Rust-level parametricity (the call list of `draw_styled` does not depend on the target type): carried by correspondence + oracle only

end EG.C01.Rectangle
