/-
  C01 (rectangle): the REGENERATED `Iterator::next` of `StyledPixelsIterator` (src/primitives/rectangle/styled.rs, translated by
  tools/tr_styled.py) is the hand model's `PixelsIt.next`.

  The generated function is `for point in &mut self.iter { .. return Some(Pixel(point, color)) .. } None` on explicit `fuel`
  (the prelude's `for_mut_loop`; the same `fuel` bounds the inner `Points::next`, itself a `while` loop). With more fuel than
  points left in the inner iterator (and than rows left), one generated `next` = one `PixelsIt.next` of the hand model.
  Guard: the fill area's size fits `i32` (the `debug_assert!` of `Point + Size` inside `Rectangle::contains`).
-/
import EG.Props.C01.Generated
namespace EG.C01.Src
open EG EG.Tgt EG.Rect EG.StyledRect EG.RectSrcPrelude EG.StyledSrcPrelude EG.Generated EG.C16.Src EG.C06.Src

/-- What one call of the generated `next` shows to the caller, in the hand model's vocabulary. -/
def pixelsNextView (r : Option Pixel × StyledSrc.StyledPixelsIterator) : Option ((Pt × Color) × PixelsIt) :=
  r.1.map (fun px => (px, itOf r.2))

/-- the `next` closure of the generated loop (inner fuel `F`) -/
def srcNx (F : Nat) (self : StyledSrc.StyledPixelsIterator) : Option (Option Point × StyledSrc.StyledPixelsIterator) :=
  match RectSrc.Iterator_next F (StyledSrc.StyledPixelsIterator_iter self) with
  | Option.none => Option.none
  | Option.some tmp' => Option.some (tmp'.1, StyledSrc.StyledPixelsIterator_set_iter self tmp'.2)

/-- the body of the generated loop -/
def srcBody (point : Point) (self : StyledSrc.StyledPixelsIterator) :
    LoopStep StyledSrc.StyledPixelsIterator (Option Pixel × StyledSrc.StyledPixelsIterator) :=
  let color := (if (RectSrc.contains (StyledSrc.StyledPixelsIterator_fill_area self) point) then
      (StyledSrc.StyledPixelsIterator_fill_color self)
    else
      (StyledSrc.StyledPixelsIterator_stroke_color self));
  (match color with
    | Option.some color => (LoopStep.return_ ((Option.some (Pixel_mk point color)), self))
    | _ => (LoopStep.continue_ self))

/-- how the generated function ends -/
def srcFinish (r : Option (LoopStep StyledSrc.StyledPixelsIterator (Option Pixel × StyledSrc.StyledPixelsIterator))) :
    Option (Option Pixel × StyledSrc.StyledPixelsIterator) :=
  match r with
  | Option.none => Option.none
  | Option.some (LoopStep.return_ r') => Option.some r'
  | Option.some (LoopStep.continue_ self) => (Option.some (Option.none, self))

/-- The generated `next` IS this loop (by unfolding: any change of the Rust body changes one of the three pieces). -/
theorem StyledPixelsIterator_next_src_shape (fuel : Nat) (it : StyledSrc.StyledPixelsIterator) :
    StyledSrc.StyledPixelsIterator_Iterator_next fuel it = srcFinish (for_mut_loop fuel (srcNx fuel) srcBody it) := rfl

/-- The colour choice of the generated loop body is the hand model's `colorAt`. -/
theorem srcBody_src_eq_model (pt : Pt) (it : StyledSrc.StyledPixelsIterator) (h : FitsI32 it.fill_area.size) :
    srcBody pt it = match (itOf it).colorAt pt with
      | some c => LoopStep.return_ (some (pt, c), it)
      | none => LoopStep.continue_ it := by
  unfold srcBody
  simp only [StyledSrc.StyledPixelsIterator_fill_area, StyledSrc.StyledPixelsIterator_fill_color,
    StyledSrc.StyledPixelsIterator_stroke_color, contains_src_eq_model _ _ h, Pixel_mk]
  cases hcn : it.fill_area.contains pt
  · have : (itOf it).colorAt pt = it.stroke_color := by simp [PixelsIt.colorAt, itOf, hcn]
    rw [this]; simp only [Bool.false_eq_true, ↓reduceIte]; cases it.stroke_color <;> rfl
  · have : (itOf it).colorAt pt = it.fill_color := by simp [PixelsIt.colorAt, itOf, hcn]
    rw [this]; simp only [↓reduceIte]; cases it.fill_color <;> rfl

/-- The hand model's `PixelsIt.nextFuel` does not depend on the fuel once it exceeds the number of points left. -/
theorem pixels_nextFuel_stable : ∀ (f1 f2 : Nat) (it : PixelsIt),
    it.iter.rest.length < f1 → it.iter.rest.length < f2 → it.nextFuel f1 = it.nextFuel f2 := by
  intro f1
  induction f1 with
  | zero => intro f2 it h; omega
  | succ n ih =>
    intro f2 it h1 h2
    cases f2 with
    | zero => omega
    | succ m =>
      unfold PixelsIt.nextFuel
      have hn := it.iter.next_spec
      cases hnx : it.iter.next with
      | none => rfl
      | some pi =>
        obtain ⟨p, iter'⟩ := pi
        rw [hnx] at hn
        simp only at hn ⊢
        cases it.colorAt p with
        | some c => rfl
        | none =>
          simp only
          rw [hn] at h1 h2
          simp only [List.length_cons] at h1 h2
          exact ih m _ (by dsimp only; omega) (by dsimp only; omega)

/-- `next` of the hand model's `Points` never moves the row cursor back. -/
theorem nextFuel_rows_le : ∀ (fuel : Nat) (it : Rect.PointsIt) (p : Pt) (it' : Rect.PointsIt),
    it.nextFuel fuel = some (p, it') → (it'.yEnd - it'.y).toNat ≤ (it.yEnd - it.y).toNat := by
  intro fuel
  induction fuel with
  | zero => intro it p it' h; simp [PointsIt.nextFuel] at h
  | succ n ih =>
    intro it p it' h
    unfold PointsIt.nextFuel at h
    by_cases hy : it.y < it.yEnd
    · rw [if_pos hy] at h
      by_cases hx : it.x < it.xEnd
      · rw [if_pos hx] at h
        injection h with h
        injection h with _ h2
        subst h2
        exact Nat.le_refl _
      · rw [if_neg hx] at h
        have := ih _ p it' h
        dsimp only at this
        omega
    · rw [if_neg hy] at h
      exact absurd h (by simp)

/-- The generated loop on `n` iterations (inner fuel `F`) = `n` iterations of the hand model's loop. -/
theorem srcLoop_src_eq_model (F : Nat) : ∀ (n : Nat) (it : StyledSrc.StyledPixelsIterator),
    (itOf it).iter.rest.length < n → (it.iter.y.end_ - it.iter.y.start).toNat < F → FitsI32 it.fill_area.size →
    (srcFinish (for_mut_loop n (srcNx F) srcBody it)).map pixelsNextView = some ((itOf it).nextFuel n) := by
  intro n
  induction n with
  | zero => intro it h; omega
  | succ n ih =>
    intro it hlen hF hfit
    have hI := Iterator_next_src_eq_model it.iter F hF
    have hsp := (pointsItOf it.iter).next_spec
    unfold for_mut_loop PixelsIt.nextFuel
    cases hN : RectSrc.Iterator_next F it.iter with
    | none => rw [hN] at hI; simp at hI
    | some tp =>
      obtain ⟨o, pts'⟩ := tp
      rw [hN] at hI
      simp only [Option.map_some, nextView, Option.some.injEq] at hI
      have hnx : srcNx F it = some (o, { it with iter := pts' }) := by
        unfold srcNx; simp only [StyledSrc.StyledPixelsIterator_iter, hN]
      rw [hnx]
      cases o with
      | none =>
        simp only [Option.map_none] at hI
        have : (itOf it).iter.next = none := hI.symm
        simp only [this, srcFinish, Option.map_some, pixelsNextView, Option.map_none]
      | some pt =>
        simp only [Option.map_some] at hI
        have hnext : (itOf it).iter.next = some (pt, pointsItOf pts') := hI.symm
        simp only [hnext]
        have hrest : (pointsItOf it.iter).rest = pt :: (pointsItOf pts').rest := by
          have := hsp; rw [show (pointsItOf it.iter).next = some (pt, pointsItOf pts') from hnext] at this; exact this
        rw [srcBody_src_eq_model pt { it with iter := pts' } hfit]
        have hcol : (itOf ({ it with iter := pts' } : StyledSrc.StyledPixelsIterator)).colorAt pt = (itOf it).colorAt pt := rfl
        rw [hcol]
        cases hc : (itOf it).colorAt pt with
        | some c => simp only [srcFinish, Option.map_some, pixelsNextView]; rfl
        | none =>
          simp only
          have hrows : (pts'.y.end_ - pts'.y.start).toNat < F := by
            have := nextFuel_rows_le _ _ _ _ (show (pointsItOf it.iter).nextFuel _ = some (pt, pointsItOf pts') from hnext)
            simp only [pointsItOf] at this
            omega
          have hlen' : (itOf ({ it with iter := pts' } : StyledSrc.StyledPixelsIterator)).iter.rest.length < n := by
            have : (itOf it).iter.rest = pt :: (pointsItOf pts').rest := hrest
            rw [this] at hlen
            simpa [itOf] using hlen
          exact ih { it with iter := pts' } hlen' hrows hfit

/-- **One generated `next` = one `PixelsIt.next` of the hand model**, for every fuel above the number of points (and rows) the
inner iterator still has. -/
theorem StyledPixelsIterator_next_src_eq_model (fuel : Nat) (it : StyledSrc.StyledPixelsIterator)
    (hlen : (itOf it).iter.budget ≤ fuel) (hF : (it.iter.y.end_ - it.iter.y.start).toNat < fuel)
    (hfit : FitsI32 it.fill_area.size) :
    (StyledSrc.StyledPixelsIterator_Iterator_next fuel it).map pixelsNextView = some (itOf it).next := by
  rw [StyledPixelsIterator_next_src_shape]
  have h1 : (itOf it).iter.rest.length < fuel := Nat.lt_of_lt_of_le (itOf it).iter.rest_length_lt_budget hlen
  rw [srcLoop_src_eq_model fuel fuel it h1 hF hfit]
  unfold PixelsIt.next
  congr 1
  exact pixels_nextFuel_stable _ _ _ h1 (itOf it).iter.rest_length_lt_budget

/-! Non-vacuity: a started iterator, enough fuel, one generated `next`. -/
example : (StyledSrc.StyledPixelsIterator_Iterator_next 20
      (StyledSrc.StyledPixelsIterator_new ⟨⟨0, 0⟩, ⟨3, 3⟩⟩ (ofStyle ⟨none, some 9, 1, .inside⟩))).map (fun r => r.1) =
    some (some (⟨0, 0⟩, 9)) := by decide
example : (itOf (StyledSrc.StyledPixelsIterator_new ⟨⟨0, 0⟩, ⟨3, 3⟩⟩ (ofStyle ⟨none, some 9, 1, .inside⟩))).iter.budget ≤ 20 := by
  decide

end EG.C01.Src
