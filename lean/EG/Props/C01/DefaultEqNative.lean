/-
  C01 (part a) — the pixel map left on a target is the same whether the target implements only
  `draw_iter` and inherits the three trait defaults, or implements `fill_contiguous`, `fill_solid`
  and `clear` natively with their documented meaning.

  Model: `EG.Model.Target` (`lowerDefault` = core/src/draw_target/mod.rs:388-424 unfolded,
  `lowerNative` = documented meaning = recording target `R2`); tie: streams `adapters.run`
  (both roots are run on every op) and the styled/image/text streams of C01.
-/
import EG.Lemmas.Target
namespace EG.C01
open EG EG.Tgt

/-- Call by call the trait defaults offer the target exactly the writes of the documented meaning —
the same list, in the same order — for every box, every area (zero sized, outside the box,
saturating) and every stream length (short, exact, long). -/
theorem default_writes_eq_native (B : Rect) (c : Call) : c.writesDefault B = c.writesNative B :=
  Call.writesDefault_eq_writesNative B c

/-- **Same pixel map on a `draw_iter`-only target and on a native target**, for every bounding
box and every call list (no hypothesis: no range guard is needed, the two write lists coincide). -/
theorem default_eq_native (B : Rect) (calls : List Call) : runDefault B calls = runNative B calls :=
  runDefault_eq_runNative B calls

/-- Point-wise form. -/
theorem default_eq_native_pointwise (B : Rect) (calls : List Call) (p : Pt) :
    runDefault B calls p = runNative B calls p := by rw [default_eq_native]

-- [V] the call list a drawable issues does not depend on the target type (Rust parametricity of `draw` in `D: DrawTarget`): carried by correspondence + oracle only

end EG.C01
