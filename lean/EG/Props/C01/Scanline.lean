/-
  C01 (scanline-based styled shapes: circle, ellipse, rounded rectangle) — one image whichever
  drawing path: `draw()` (a `fill_solid` rectangle per scanline part), on a `draw_iter`-only target
  (R1, trait defaults) or on a native-fill target (R2), and `draw_iter(pixels())`.

  `scanline_paths_agree` is generic: it holds for EVERY list of styled scanlines (whatever shape
  produced them) and both colour options, not only as pixel maps but as write sequences.
  `Scanline.WF` / `StyledScanline.WF`: the scanline's 1-px-high rectangle does not saturate `i32`.
-/
import EG.Lemmas.CircleStyled
namespace EG.C01
open EG

/-- **`scanline_paths_agree` (write sequences).** For every list of styled scanlines, stroke colour
and optional fill colour, the writes of the draw path — natively (`R2`) and through the trait
defaults (`R1`) — are exactly the pixels the `StyledPixelsIterator` yields, clipped to the target:
same points, same colours, same order. -/
theorem scanline_paths_agree_writes (lines : List StyledScanline) (h : ∀ l ∈ lines, l.WF)
    (sc : Color) (fc : Option Color) (B : Rect) :
    (drawLines sc fc lines).flatMap (Call.writesNative B) =
        clipWrites B (StyledPixelsIt.new lines (some sc) fc).toList ∧
    (drawLines sc fc lines).flatMap (Call.writesDefault B) =
        clipWrites B (StyledPixelsIt.new lines (some sc) fc).toList := by
  rw [flatMap_writesNative, flatMap_writesDefault, drawLines_lowerDefault,
    drawLines_lowerNative sc fc lines h B, StyledPixelsIt.toList_new]
  exact ⟨rfl, rfl⟩
example : ∀ l ∈ [(⟨3, -2, 5, 0, 3⟩ : StyledScanline), ⟨4, -1, 4, 4, 4⟩], l.WF := by decide

/-- **`scanline_paths_agree`.** The `fill_solid` rectangles of the draw path (on R2 and on R1) and
the flattened `pixels()` path give the same pixel map. -/
theorem scanline_paths_agree (lines : List StyledScanline) (h : ∀ l ∈ lines, l.WF)
    (sc : Color) (fc : Option Color) (B : Rect) :
    runNative B (drawLines sc fc lines) =
        PMap.empty.apply (clipWrites B (StyledPixelsIt.new lines (some sc) fc).toList) ∧
    runDefault B (drawLines sc fc lines) =
        PMap.empty.apply (clipWrites B (StyledPixelsIt.new lines (some sc) fc).toList) := by
  unfold runNative runDefault
  rw [(scanline_paths_agree_writes lines h sc fc B).1, (scanline_paths_agree_writes lines h sc fc B).2]
  exact ⟨rfl, rfl⟩

/-- Fill-only arm: drawing the fill parts as plain scanlines writes what `pixels()` yields when
only the fill colour is set. -/
theorem scanline_fill_paths_agree (lines : List StyledScanline) (h : ∀ l ∈ lines, l.fill.WF)
    (fc : Color) (B : Rect) :
    runNative B (drawFillLines fc (lines.map (·.fill))) =
        PMap.empty.apply (clipWrites B (StyledPixelsIt.new lines none (some fc)).toList) ∧
    runDefault B (drawFillLines fc (lines.map (·.fill))) =
        PMap.empty.apply (clipWrites B (StyledPixelsIt.new lines none (some fc)).toList) := by
  unfold runNative runDefault
  rw [flatMap_writesNative, flatMap_writesDefault, drawFillLines_lowerDefault,
    drawFillLines_lowerNative fc _ (by
      intro l hl; rw [List.mem_map] at hl; obtain ⟨l', hl', rfl⟩ := hl; exact h l' hl') B,
    StyledPixelsIt.toList_new, List.flatMap_map]
  exact ⟨rfl, rfl⟩
example : ∀ l ∈ [(⟨3, -2, 5, 0, 3⟩ : StyledScanline), ⟨4, -1, 4, 4, 4⟩], l.fill.WF := by decide

/-- What a `for` loop over a `StyledPixelsIterator` sees, for every list of styled scanlines and
all four colour options (closed form of the state machine). -/
theorem styled_pixels_iterator_spec (lines : List StyledScanline) (scol fcol : Option Color) :
    (StyledPixelsIt.new lines scol fcol).toList = pixelsSpec scol fcol lines :=
  StyledPixelsIt.toList_new lines scol fcol

/-! ### circle -/

/-- The pixel map of `draw()` on `R2` at every point. -/
theorem styled_circle_draw_map (st : PrimStyle) (c : Circle) (B : Rect)
    (hS : (c.strokeArea st).InRange) (hF : (c.fillArea st).InRange) (p : Pt) :
    runNative B (c.drawStyled st) p =
      if B.contains p = true then Circle.styledExpected st c p else none := by
  unfold runNative
  rw [flatMap_writesNative]
  apply Scan.apply_eq_of_mem_iff
  intro q col
  rw [Scan.mem_clipWrites, Circle.mem_draw_iff hS hF]
  by_cases hb : B.contains q = true <;> simp [hb]
example : (Circle.strokeArea ⟨some 1, some 2, 3, .center⟩ ⟨⟨-3, 2⟩, 7⟩).InRange ∧
    (Circle.fillArea ⟨some 1, some 2, 3, .center⟩ ⟨⟨-3, 2⟩, 7⟩).InRange := by decide

theorem circle_draw_default_eq_native (st : PrimStyle) (c : Circle) (B : Rect) :
    runDefault B (c.drawStyled st) = runNative B (c.drawStyled st) := by
  unfold runNative runDefault
  rw [flatMap_writesNative, flatMap_writesDefault]
  congr 2
  unfold Circle.drawStyled
  split
  · exact drawLines_lowerDefault _ _ _ B
  · exact drawLines_lowerDefault _ _ _ B
  · exact drawFillLines_lowerDefault _ _ B
  · rfl

/-- **Circle: `draw()` on R1 = `draw()` on R2 = `draw_iter(pixels())`**, for all diameters,
stroke widths, alignments and colour options (the fill-only arms use different scanline sources —
`Scanlines(fill_area)` vs `StyledScanlines(stroke_area, fill_area).fill()`; `pixels()` uses
`stroke_color`, `draw()` uses `effective_stroke_color()`). -/
theorem styled_circle_pixels_eq_draw (st : PrimStyle) (c : Circle) (B : Rect)
    (hS : (c.strokeArea st).InRange) (hF : (c.fillArea st).InRange) :
    runNative B (c.drawStyled st) = PMap.empty.apply (clipWrites B (c.styledPixels st)) ∧
    runDefault B (c.drawStyled st) = PMap.empty.apply (clipWrites B (c.styledPixels st)) := by
  have h1 : runNative B (c.drawStyled st) = PMap.empty.apply (clipWrites B (c.styledPixels st)) := by
    funext p
    rw [styled_circle_draw_map st c B hS hF]
    symm
    apply Scan.apply_eq_of_mem_iff
    intro q col
    rw [Scan.mem_clipWrites, Circle.mem_pixels_iff hS hF]
    by_cases hb : B.contains q = true <;> simp [hb]
  exact ⟨h1, by rw [circle_draw_default_eq_native, h1]⟩
example : (Circle.strokeArea ⟨some 1, some 2, 0, .inside⟩ ⟨⟨-3, 2⟩, 4⟩).InRange ∧
    (Circle.fillArea ⟨some 1, some 2, 0, .inside⟩ ⟨⟨-3, 2⟩, 4⟩).InRange := by decide

-- [V] that `draw()` issues the same call list whatever the target type (Rust parametricity of `draw_styled` in `D: DrawTarget`): carried by correspondence + oracle only (R1 and R2 logs/maps compared per op)
-- (closed) rounded rectangle: the fill-only scanline sources (`Scanlines(fill_area)` vs `StyledScanlines(..).fill()`) give the same picture iff `FillInStroke`: Props/C01/RoundedRectFillOnly.lean (`fill_only_paths_agree_iff`); `scanline_paths_agree` applies to it as is
end EG.C01
