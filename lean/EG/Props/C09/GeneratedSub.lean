/-
  C09 — the image code REGENERATED FROM THE RUST SOURCE equals the hand-written model (part 2: `SubImage`, `Image`).

  `SubImage<T>` and `Image<T>` are generic over `T: ImageDrawable`; the generated functions take the DICTIONARY of `T`'s
  trait methods (`ImageDrawableT`: `size`, `draw`, `draw_sub_image`). `SrcDrawable.dict` builds, for a raw image or a
  (nested) sub-image, the dictionary the compiler builds: for `ImageRaw` from the generated `size` / `draw` /
  `draw_sub_image` of image_raw.rs, for `SubImage<T>` from the generated `size` / `draw` / `draw_sub_image` of
  sub_image.rs over `T`'s dictionary. The theorems say that every entry of that dictionary is the hand model's
  function (`Drawable.size`, `Drawable.draw`, `Drawable.drawSubImage`), as the calls reach the root display.

  Where source and hand model differ (the repairs 6bd8eba / a083ac5):
  * `SubImage::draw_sub_image` adds the corners with `checked_add` and draws NOTHING when a sum leaves `i32`
    (`SubImage_draw_sub_image_src`: exact, unconditional); the hand model adds in `Int` and lets the parent reject. Equal
    when no sum overflows (`NoOverflow`), and also for a raw parent when one does (`raw_rejects_unrepresentable`).
  * `SubImage::new` crops the area to the parent's size plus one pixel on each side (`crop_area`) before intersecting;
    the hand model intersects directly in `Int`. `crop_range_src`: the closed form of the generated `crop_range`;
    `SubImage_new_src_eq_model`: equal for every area (`IsI32` corner, `u32` size) and every parent of at most
    `i32::MAX - 2` pixels per side.
-/
import EG.Props.C09.Generated
set_option linter.unusedSimpArgs false
set_option linter.unusedVariables false
namespace EG.C09.Generated
open EG EG.Raw EG.Img EG.RawSrcPrelude EG.ImgSrcPrelude EG.Generated EG.Generated.RawSrc EG.C11.Generated

/-- A raw image of the generated type or a (nested) sub-image of one: the generated side's `Drawable`. -/
inductive SrcDrawable where
  | raw (C : RawTy) (O : DataOrderTy) (s : ImgSrc.ImageRaw)
  | sub (parent : SrcDrawable) (area : Rect)

namespace SrcDrawable

/-- the hand model's drawable -/
def model : SrcDrawable → Drawable
  | raw C O s => .raw (toIm C O s)
  | sub p a => .sub p.model a

/-- The trait dictionary of the drawable's type, built from the GENERATED methods (what monomorphisation does). -/
def dict (fuel : Nat) : SrcDrawable → ImageDrawableT
  | raw C O s => ⟨ImgSrc.ImageRaw_OriginDimensions_size C O s, ImgSrc.ImageRaw_ImageDrawable_draw fuel C O s,
      ImgSrc.ImageRaw_ImageDrawable_draw_sub_image fuel C O s⟩
  | sub p a => ⟨ImgSrc.SubImage_OriginDimensions_size ⟨p.dict fuel, a⟩, ImgSrc.SubImage_ImageDrawable_draw ⟨p.dict fuel, a⟩,
      ImgSrc.SubImage_ImageDrawable_draw_sub_image ⟨p.dict fuel, a⟩⟩

/-- every raw image at the bottom is well formed and `fuel` exceeds its pixel count -/
def Ok (fuel : Nat) : SrcDrawable → Prop
  | raw C O s => SrcWF C O s ∧ s.size.w * s.size.h < fuel
  | sub p _ => p.Ok fuel

/-- no corner sum of `draw_sub_image(area)` leaves `i32` on the way down to the raw image -/
def NoOverflow : SrcDrawable → Rect → Prop
  | raw _ _ _, area => IsI32 area.tl
  | sub p a, area => IsI32 (area.tl + a.tl) ∧ p.NoOverflow (area.translate a.tl)

end SrcDrawable

/-- `OriginDimensions::size`, every level -/
theorem dict_size_src_eq_model (fuel : Nat) (d : SrcDrawable) : (d.dict fuel).size = d.model.size := by
  cases d <;> rfl

/-- `SubImage::new_unchecked` / `OriginDimensions::size for SubImage` -/
theorem SubImage_new_unchecked_src_eq_model (t : ImageDrawableT) (a : Rect) :
    ImgSrc.SubImage_new_unchecked t a = ⟨t, a⟩ ∧ ImgSrc.SubImage_OriginDimensions_size ⟨t, a⟩ = a.size := ⟨rfl, rfl⟩

/-- `ImageDrawable::draw for SubImage`: the parent's `draw_sub_image` with the stored area. -/
theorem SubImage_draw_src (self : ImgSrc.SubImage) (tgt : DrawTargetD) :
    ImgSrc.SubImage_ImageDrawable_draw self tgt = self.parent.draw_sub_image tgt self.area := rfl

/-- `ImageDrawable::draw_sub_image for SubImage`, EXACTLY (repair a083ac5): the parent's `draw_sub_image` with the
corner moved by the stored area's corner when both sums are `i32`s, nothing otherwise. -/
theorem SubImage_draw_sub_image_src (self : ImgSrc.SubImage) (tgt : DrawTargetD) (area : Rect) :
    ImgSrc.SubImage_ImageDrawable_draw_sub_image self tgt area =
      if IsI32 (area.tl + self.area.tl) then self.parent.draw_sub_image tgt (area.translate self.area.tl) else [] := by
  by_cases h : IsI32 (area.tl + self.area.tl)
  · rw [if_pos h]
    unfold IsI32 at h
    simp only [Pt.add_x, Pt.add_y] at h
    unfold ImgSrc.SubImage_ImageDrawable_draw_sub_image
    simp only [i32_checked_add, Point_x, Point_y, Rectangle_top_left, Rectangle_size, EG.C16.Src.new_src_eq_model,
      EG.C16.Src.Point_new_src_eq_model, ImageDrawableT_draw_sub_image, DrawTargetD_ok]
    rw [if_pos ⟨h.1, h.2.1⟩, if_pos ⟨h.2.2.1, h.2.2.2⟩]
    rfl
  · rw [if_neg h]
    unfold IsI32 at h
    simp only [Pt.add_x, Pt.add_y] at h
    unfold ImgSrc.SubImage_ImageDrawable_draw_sub_image
    simp only [i32_checked_add, Point_x, Point_y, Rectangle_top_left, Rectangle_size, EG.C16.Src.new_src_eq_model,
      EG.C16.Src.Point_new_src_eq_model, ImageDrawableT_draw_sub_image, DrawTargetD_ok]
    by_cases hx : -2147483648 ≤ area.tl.x + self.area.tl.x ∧ area.tl.x + self.area.tl.x ≤ 2147483647
    · have hy : ¬ (-2147483648 ≤ area.tl.y + self.area.tl.y ∧ area.tl.y + self.area.tl.y ≤ 2147483647) :=
        fun hy => h ⟨hx.1, hx.2, hy.1, hy.2⟩
      rw [if_pos hx, if_neg hy]
    · rw [if_neg hx]

/-- **Nesting composes**: every entry of the generated dictionary is the hand model's function. `draw_sub_image`
for an area whose corner sums stay inside `i32`, `draw` for stored areas with that property. -/
theorem dict_draw_sub_image_src_eq_model (fuel : Nat) (tgt : DrawTargetD) :
    ∀ (d : SrcDrawable) (area : Rect), d.Ok fuel → d.NoOverflow area →
      (d.dict fuel).draw_sub_image tgt area = (d.model.drawSubImage area).map tgt
  | .raw C O s, area, hok, hno =>
    draw_sub_image_src_eq_model fuel C O s tgt area hok.1.bytes hok.1.usz hok.1.isU32 hno hok.1.wf.fits hok.2
  | .sub p a, area, hok, hno => by
    show ImgSrc.SubImage_ImageDrawable_draw_sub_image ⟨p.dict fuel, a⟩ tgt area = _
    rw [SubImage_draw_sub_image_src, if_pos hno.1]
    exact dict_draw_sub_image_src_eq_model fuel tgt p (area.translate a.tl) hok hno.2

theorem dict_draw_src_eq_model (fuel : Nat) (tgt : DrawTargetD) :
    ∀ (d : SrcDrawable), d.Ok fuel → (∀ p a, d = .sub p a → p.NoOverflow a) →
      (d.dict fuel).draw tgt = d.model.draw.map tgt
  | .raw C O s, hok, _ => draw_src_eq_model fuel C O s tgt hok.1.bytes hok.1.usz hok.1.isU32 hok.1.wf.fits hok.2
  | .sub p a, hok, hno => dict_draw_sub_image_src_eq_model fuel tgt p a hok (hno p a rfl)

/-- Rejection of unrepresentable areas: where a corner sum leaves `i32` the generated code draws nothing ... -/
theorem sub_rejects_unrepresentable (self : ImgSrc.SubImage) (tgt : DrawTargetD) (area : Rect)
    (h : ¬ IsI32 (area.tl + self.area.tl)) : ImgSrc.SubImage_ImageDrawable_draw_sub_image self tgt area = [] := by
  rw [SubImage_draw_sub_image_src, if_neg h]

/-- ... and so does the hand model of a raw parent handed the unbounded sum (its image has at most `i32::MAX` pixels per
side): the two agree there as well. -/
theorem raw_rejects_unrepresentable (im : Img.ImageRaw) (hw : im.WF) (area : Rect) (h : ¬ IsI32 area.tl) :
    im.drawSubImage area = [] := by
  apply EG.C09.draw_sub_image_rejects
  intro hacc
  have h1 := hw.wI32; have h2 := hw.hI32
  unfold Img.ImageRaw.Accepts at hacc
  unfold IsI32 at h
  omega

/-! ### `SubImage::new`: the crop before the intersection (repair 6bd8eba) -/

/-- the cropped length of `crop_range`, closed form -/
def cropLen (start : Int) (len pl : Nat) : Nat := (max (min (start + len) ((pl : Int) + 1) - max start (-1)) 0).toNat

theorem inter_some_some (A R : Rect) (hA : A.size.w > 0 ∧ A.size.h > 0) (hR : R.size.w > 0 ∧ R.size.h > 0) :
    A.intersection R =
      if Rect.overlaps A.tl.x (A.tl.x + A.size.w - 1) R.tl.x (R.tl.x + R.size.w - 1) &&
         Rect.overlaps A.tl.y (A.tl.y + A.size.h - 1) R.tl.y (R.tl.y + R.size.h - 1) then
        Rect.withCorners ⟨max A.tl.x R.tl.x, max A.tl.y R.tl.y⟩
          ⟨min (A.tl.x + A.size.w - 1) (R.tl.x + R.size.w - 1), min (A.tl.y + A.size.h - 1) (R.tl.y + R.size.h - 1)⟩
      else Rect.zero := by
  unfold Rect.intersection Rect.bottomRight; rw [if_pos hA, if_pos hR]; rfl

theorem inter_none_some (A R : Rect) (hA : A.size.w > 0 ∧ A.size.h > 0) (hR : ¬ (R.size.w > 0 ∧ R.size.h > 0)) :
    A.intersection R = if A.contains R.tl then R else Rect.zero := by
  unfold Rect.intersection; rw [Rect.bottomRight_none hR, Rect.bottomRight_some hA]

theorem inter_some_none (A R : Rect) (hA : ¬ (A.size.w > 0 ∧ A.size.h > 0)) (hR : R.size.w > 0 ∧ R.size.h > 0) :
    A.intersection R = if R.contains A.tl then A else Rect.zero := by
  unfold Rect.intersection; rw [Rect.bottomRight_none hA, Rect.bottomRight_some hR]

theorem inter_none_none (A R : Rect) (hA : ¬ (A.size.w > 0 ∧ A.size.h > 0)) (hR : ¬ (R.size.w > 0 ∧ R.size.h > 0)) :
    A.intersection R = Rect.zero := by
  unfold Rect.intersection; rw [Rect.bottomRight_none hA, Rect.bottomRight_none hR]

theorem crop1_pos (x : Int) (w n : Nat) (hw : 0 < w) (hn : 0 < n) (hc : 0 < cropLen x w n) :
    Rect.overlaps 0 (0 + (n : Int) - 1) (max x (-1)) (max x (-1) + (cropLen x w n : Int) - 1) =
      Rect.overlaps 0 (0 + (n : Int) - 1) x (x + (w : Int) - 1)
    ∧ max 0 (max x (-1)) = max 0 x
    ∧ min (0 + (n : Int) - 1) (max x (-1) + (cropLen x w n : Int) - 1) = min (0 + (n : Int) - 1) (x + (w : Int) - 1) := by
  have e : (cropLen x w n : Int) = min (x + w) (n + 1) - max x (-1) := by unfold cropLen at hc ⊢; omega
  refine ⟨?_, by omega, by rw [e]; omega⟩
  unfold Rect.overlaps; rw [e, decide_eq_decide]; omega

theorem crop1_zero (x : Int) (w n : Nat) (hw : 0 < w) (hc : ¬ 0 < cropLen x w n) :
    Rect.overlaps 0 (0 + (n : Int) - 1) x (x + (w : Int) - 1) = false ∧ ¬ (0 ≤ max x (-1) ∧ max x (-1) < 0 + (n : Int))
    ∧ ¬ (x ≤ 0 ∧ 0 < x + (w : Int)) := by
  have e : min (x + w) ((n : Int) + 1) ≤ max x (-1) := by unfold cropLen at hc; omega
  refine ⟨?_, by omega, by omega⟩
  unfold Rect.overlaps; rw [decide_eq_false_iff_not]; omega

theorem crop1_contains0 (x : Int) (w n : Nat) (hw : 0 < w) (hc : 0 < cropLen x w n) :
    (max x (-1) ≤ 0 ∧ 0 < max x (-1) + (cropLen x w n : Int)) ↔ (x ≤ 0 ∧ 0 < x + (w : Int)) := by
  have e : (cropLen x w n : Int) = min (x + w) (n + 1) - max x (-1) := by unfold cropLen at hc ⊢; omega
  rw [e]; omega

theorem inter_crop (S : Sz) (x y : Int) (w h : Nat) (hw : 0 < w) (hh : 0 < h) :
    (⟨⟨0, 0⟩, S⟩ : Rect).intersection ⟨⟨max x (-1), max y (-1)⟩, ⟨cropLen x w S.w, cropLen y h S.h⟩⟩ =
      (⟨⟨0, 0⟩, S⟩ : Rect).intersection ⟨⟨x, y⟩, ⟨w, h⟩⟩ := by
  by_cases hS : S.w > 0 ∧ S.h > 0
  · rw [inter_some_some _ ⟨⟨x, y⟩, ⟨w, h⟩⟩ hS ⟨hw, hh⟩]
    by_cases hc : cropLen x w S.w > 0 ∧ cropLen y h S.h > 0
    · rw [inter_some_some _ _ hS hc]
      obtain ⟨a1, a2, a3⟩ := crop1_pos x w S.w hw hS.1 hc.1
      obtain ⟨b1, b2, b3⟩ := crop1_pos y h S.h hh hS.2 hc.2
      simp only []
      rw [a1, a2, a3, b1, b2, b3]
    · rw [inter_none_some _ _ hS hc]
      have hcon : (⟨⟨0, 0⟩, S⟩ : Rect).contains ⟨max x (-1), max y (-1)⟩ = false := by
        cases hcon : (⟨⟨0, 0⟩, S⟩ : Rect).contains ⟨max x (-1), max y (-1)⟩ with
        | false => rfl
        | true =>
          rw [Rect.contains_iff] at hcon
          simp only [] at hcon
          by_cases h1 : 0 < cropLen x w S.w
          · have h2 : ¬ 0 < cropLen y h S.h := fun h2 => hc ⟨h1, h2⟩
            exact absurd ⟨hcon.2.2.1, hcon.2.2.2⟩ (crop1_zero y h S.h hh h2).2.1
          · exact absurd ⟨hcon.1, hcon.2.1⟩ (crop1_zero x w S.w hw h1).2.1
      rw [hcon]
      simp only [Bool.false_eq_true, ↓reduceIte]
      by_cases h1 : 0 < cropLen x w S.w
      · have h2 : ¬ 0 < cropLen y h S.h := fun h2 => hc ⟨h1, h2⟩
        rw [(crop1_zero y h S.h hh h2).1, Bool.and_false]; rfl
      · rw [(crop1_zero x w S.w hw h1).1, Bool.false_and]; rfl
  · rw [inter_some_none _ ⟨⟨x, y⟩, ⟨w, h⟩⟩ hS ⟨hw, hh⟩]
    by_cases hc : cropLen x w S.w > 0 ∧ cropLen y h S.h > 0
    · rw [inter_some_none _ _ hS hc]
      have : (⟨⟨max x (-1), max y (-1)⟩, ⟨cropLen x w S.w, cropLen y h S.h⟩⟩ : Rect).contains ⟨0, 0⟩ =
          (⟨⟨x, y⟩, ⟨w, h⟩⟩ : Rect).contains ⟨0, 0⟩ := by
        rw [Bool.eq_iff_iff, Rect.contains_iff, Rect.contains_iff]
        simp only []
        have a := crop1_contains0 x w S.w hw hc.1
        have b := crop1_contains0 y h S.h hh hc.2
        constructor
        · intro ⟨p1, p2, p3, p4⟩
          exact ⟨(a.mp ⟨p1, p2⟩).1, (a.mp ⟨p1, p2⟩).2, (b.mp ⟨p3, p4⟩).1, (b.mp ⟨p3, p4⟩).2⟩
        · intro ⟨p1, p2, p3, p4⟩
          exact ⟨(a.mpr ⟨p1, p2⟩).1, (a.mpr ⟨p1, p2⟩).2, (b.mpr ⟨p3, p4⟩).1, (b.mpr ⟨p3, p4⟩).2⟩
      simp only [] at this ⊢
      rw [this]
    · rw [inter_none_none _ _ hS hc]
      have hcon : (⟨⟨x, y⟩, ⟨w, h⟩⟩ : Rect).contains ⟨0, 0⟩ = false := by
        cases hcon : (⟨⟨x, y⟩, ⟨w, h⟩⟩ : Rect).contains ⟨0, 0⟩ with
        | false => rfl
        | true =>
          rw [Rect.contains_iff] at hcon
          simp only [] at hcon
          by_cases h1 : 0 < cropLen x w S.w
          · have h2 : ¬ 0 < cropLen y h S.h := fun h2 => hc ⟨h1, h2⟩
            exact absurd ⟨hcon.2.2.1, hcon.2.2.2⟩ (crop1_zero y h S.h hh h2).2.2
          · exact absurd ⟨hcon.1, hcon.2.1⟩ (crop1_zero x w S.w hw h1).2.2
      simp only [] at hcon ⊢
      rw [hcon]
      rfl

/-- `crop_range`, closed form (`length <= u32::MAX`: the `as u32` of a value that is at most `length`) -/
theorem crop_range_src (start : Int) (len pl : Nat) (hl : len ≤ 4294967295) :
    ImgSrc.crop_range start len pl = (max start (-1), cropLen start len pl) := by
  unfold ImgSrc.crop_range cropLen
  simp only [i64_min, i64_add, i64_from_i32, i64_from_u32, i32_max, i32_neg, i64_as_u32, i64_max, i64_sub, Prod.mk.injEq, true_and]
  congr 1
  omega

theorem rectsrc_bottom_right_zero (r : Rect) (hz : ¬ (r.size.w > 0 ∧ r.size.h > 0)) : RectSrc.bottom_right r = none := by
  unfold RectSrc.bottom_right
  rw [if_neg]
  simpa [EG.RectSrcPrelude.bool_and, EG.RectSrcPrelude.u32_gt, EG.RectSrcPrelude.Size_width, EG.RectSrcPrelude.Size_height,
    EG.RectSrcPrelude.Rectangle_size] using hz

/-- `intersection` with a zero sized `other` of ANY size (its `as i32` casts are never evaluated) -/
theorem rectsrc_intersection_zero_other (a b : Rect) (ha : EG.C16.Src.FitsI32 a.size) (hz : ¬ (b.size.w > 0 ∧ b.size.h > 0)) :
    RectSrc.intersection a b = a.intersection b := by
  unfold RectSrc.intersection Rect.intersection
  rw [rectsrc_bottom_right_zero b hz, Rect.bottomRight_none hz, EG.C16.Src.bottom_right_src_eq_model a ha]
  cases a.bottomRight with
  | none => rfl
  | some sbr =>
    simp only [EG.C16.Src.contains_src_eq_model _ _ ha, EG.C16.Src.zero_src_eq_model, EG.RectSrcPrelude.Rectangle_top_left]

theorem cropLen_le (x : Int) (w n : Nat) : cropLen x w n ≤ w ∧ cropLen x w n ≤ n + 2 := by unfold cropLen; omega

/-- `crop_area`, closed form -/
theorem crop_area_src (area : Rect) (S : Sz) (hu : IsU32 area.size) :
    ImgSrc.crop_area area S = if area.isZeroSized = true then area else
      ⟨⟨max area.tl.x (-1), max area.tl.y (-1)⟩, ⟨cropLen area.tl.x area.size.w S.w, cropLen area.tl.y area.size.h S.h⟩⟩ := by
  unfold ImgSrc.crop_area
  rw [EG.C16.Src.is_zero_sized_src_eq_model]
  simp only [Point_x, Point_y, Rectangle_top_left, Rectangle_size, Size_width, Size_height,
    crop_range_src _ _ _ hu.1, crop_range_src _ _ _ hu.2, EG.C16.Src.new_src_eq_model, EG.C16.Src.Point_new_src_eq_model,
    EG.C16.Src.Size_new_src_eq_model]

/-- **`SubImage::new`** (repair 6bd8eba): cropping the area to the parent's size plus one pixel per side before the
`i32` intersection gives the hand model's unbounded intersection, for EVERY area (any `i32` corner, any `u32` size). -/
theorem SubImage_new_src_eq_model (t : ImageDrawableT) (area : Rect) (hu : IsU32 area.size)
    (hS : t.size.w ≤ 2147483645 ∧ t.size.h ≤ 2147483645) :
    ImgSrc.SubImage_new t area = ⟨t, (⟨Pt.zero, t.size⟩ : Rect).intersection area⟩ := by
  unfold ImgSrc.SubImage_new
  simp only [ImageDrawableT_bounding_box, Rectangle_size]
  rw [crop_area_src area t.size hu]
  have hA : EG.C16.Src.FitsI32 (⟨Pt.zero, t.size⟩ : Rect).size := ⟨by show t.size.w ≤ _; omega, by show t.size.h ≤ _; omega⟩
  congr 1
  by_cases hz : area.isZeroSized = true
  · rw [if_pos hz]
    apply rectsrc_intersection_zero_other _ _ hA
    unfold Rect.isZeroSized at hz
    simp only [Bool.or_eq_true, beq_iff_eq] at hz
    omega
  · rw [if_neg hz]
    unfold Rect.isZeroSized at hz
    simp only [Bool.or_eq_true, beq_iff_eq, not_or] at hz
    have h1 := cropLen_le area.tl.x area.size.w t.size.w
    have h2 := cropLen_le area.tl.y area.size.h t.size.h
    rw [EG.C16.Src.intersection_src_eq_model _ _ hA ⟨by show cropLen _ _ _ ≤ _; omega, by show cropLen _ _ _ ≤ _; omega⟩]
    have := inter_crop t.size area.tl.x area.tl.y area.size.w area.size.h (by omega) (by omega)
    exact this

/-! ### `Image` -/

/-- `Image::new` / `Transform::translate` / `Dimensions::bounding_box` -/
theorem Image_new_src_eq_model (t : ImageDrawableT) (o : Pt) : ImgSrc.Image_new t o = ⟨t, o⟩ := rfl
theorem Image_translate_src_eq_model (i : ImgSrc.Image) (by_ : Pt) :
    ImgSrc.Image_Transform_translate i by_ = ⟨i.image_drawable, i.offset + by_⟩ := rfl
/-- `Transform::translate_mut` (`self.offset += by; self`): the returned reference and `*self` afterwards are the hand
model's `translateMut` -/
theorem Image_translate_mut_src_eq_model (fuel : Nat) (d : SrcDrawable) (o by_ : Pt) :
    ImgSrc.Image_Transform_translate_mut ⟨d.dict fuel, o⟩ by_ =
      (⟨d.dict fuel, ((Img.Image.new d.model o).translateMut by_).offset⟩,
       ⟨d.dict fuel, ((Img.Image.new d.model o).translateMut by_).offset⟩) := rfl
theorem Image_bounding_box_src_eq_model (fuel : Nat) (d : SrcDrawable) (o : Pt) :
    ImgSrc.Image_Dimensions_bounding_box ⟨d.dict fuel, o⟩ = (Img.Image.new d.model o).boundingBox := by
  unfold ImgSrc.Image_Dimensions_bounding_box
  simp only [ImageDrawableT_bounding_box, dict_size_src_eq_model, EG.C16.Src.Transform_translate_src_eq_model]
  rfl

/-- `Image::with_center` (`Rectangle::with_center` is RectSrc's; `IsU32`: its guard) -/
theorem Image_with_center_src_eq_model (fuel : Nat) (d : SrcDrawable) (c : Pt) (hu : IsU32 d.model.size) :
    ImgSrc.Image_with_center (d.dict fuel) c = ⟨d.dict fuel, (Img.Image.withCenter d.model c).offset⟩ := by
  unfold ImgSrc.Image_with_center
  simp only [ImageDrawableT_size, dict_size_src_eq_model, Rectangle_top_left,
    EG.C16.Src.with_center_src_eq_model c d.model.size hu]
  rfl

/-- `Drawable::draw for Image`: the drawable's `draw` on `display.translated(offset)`; on the root display (`id`) the
calls of the hand model's `Image::draw`. -/
theorem Image_draw_src_eq_model (fuel : Nat) (d : SrcDrawable) (o : Pt) (hok : d.Ok fuel)
    (hno : ∀ p a, d = .sub p a → p.NoOverflow a) :
    ImgSrc.Image_Drawable_draw ⟨d.dict fuel, o⟩ id = (Img.Image.new d.model o).draw := by
  unfold ImgSrc.Image_Drawable_draw
  simp only [ImageDrawableT_draw, DrawTargetD_translated]
  rw [dict_draw_src_eq_model fuel _ d hok hno]
  rfl

/-- **`draw_exact` over the generated code**: drawing the generated `Image` of a generated (sub-)image on a
native-fill target with box `B` sets `q` to the picture's pixel at `q - o` iff `q` is in the image's box and in `B`. -/
theorem src_draw_exact (fuel : Nat) (d : SrcDrawable) (o : Pt) (hok : d.Ok fuel)
    (hno : ∀ p a, d = .sub p a → p.NoOverflow a) (hg : d.model.Good)
    (hr : (Img.Image.new d.model o).boundingBox.InRange) (B : Rect) (q : Pt) :
    runNative B (ImgSrc.Image_Drawable_draw (ImgSrc.Image_new (d.dict fuel) o) id) q =
      if B.contains q = true ∧ (ImgSrc.Image_Dimensions_bounding_box (ImgSrc.Image_new (d.dict fuel) o)).contains q = true
      then d.model.pixelSpec (q - o) else none := by
  rw [Image_new_src_eq_model, Image_draw_src_eq_model fuel d o hok hno, Image_bounding_box_src_eq_model]
  exact EG.C09.draw_exact d.model hg o hr B q

/-- `sub_image(area)` (`ImageDrawableExt::sub_image` is `SubImage::new(self, area)`) over the generated dictionary of any
(nested) drawable: the `SubImage` whose model is the hand model's `subImage`. -/
theorem src_sub_image_eq_model (fuel : Nat) (d : SrcDrawable) (area : Rect) (hu : IsU32 area.size)
    (hS : d.model.size.w ≤ 2147483645 ∧ d.model.size.h ≤ 2147483645) :
    ImgSrc.SubImage_new (d.dict fuel) area = ⟨d.dict fuel, d.model.boundingBox.intersection area⟩ ∧
      (SrcDrawable.sub d (d.model.boundingBox.intersection area)).model = d.model.subImage area := by
  refine ⟨?_, rfl⟩
  rw [SubImage_new_src_eq_model (d.dict fuel) area hu (by rw [dict_size_src_eq_model]; exact hS), dict_size_src_eq_model]
  rfl

/-! ### instances of the hypotheses -/

/-- the 9 x 3 one bit image of Props/C09.lean, as a generated value -/
def exSrc : SrcDrawable := .raw .RawU1 .LittleEndianMsb0 ⟨[0xAA, 0x00, 0x55, 0xFF, 0xAA, 0x80], ⟨9, 3⟩⟩

example : exSrc.Ok 28 := by
  refine ⟨⟨exIm_wf, ?_, by unfold FitsUsize usizeMax; decide⟩, by decide⟩
  intro b hb
  simp at hb
  omega
example : (SrcDrawable.sub exSrc ⟨⟨1, 1⟩, ⟨3, 2⟩⟩).NoOverflow ⟨⟨0, 0⟩, ⟨2, 2⟩⟩ :=
  ⟨by decide, (by decide : IsI32 ((⟨⟨0, 0⟩, ⟨2, 2⟩⟩ : Rect).translate ⟨1, 1⟩).tl)⟩
example : ¬ IsI32 ((⟨⟨2147483647, 0⟩, ⟨1, 1⟩⟩ : Rect).tl + (⟨⟨1, 1⟩, ⟨3, 2⟩⟩ : Rect).tl) := by decide
example : ∀ p a, SrcDrawable.sub exSrc ⟨⟨1, 1⟩, ⟨3, 2⟩⟩ = .sub p a → p.NoOverflow a := by
  intro p a h; cases h; exact (by decide : IsI32 (⟨⟨1, 1⟩, ⟨3, 2⟩⟩ : Rect).tl)
example : IsU32 (⟨⟨-2147483648, 2147483647⟩, ⟨4294967295, 4294967295⟩⟩ : Rect).size := by decide
example : exSrc.model.size.w ≤ 2147483645 ∧ exSrc.model.size.h ≤ 2147483645 := by decide
/-- an area far outside (its bottom right corner is not a `Point`): cropped, then intersected = nothing -/
example : (ImgSrc.SubImage_new (exSrc.dict 28) ⟨⟨2147483647, 2147483647⟩, ⟨4294967295, 4294967295⟩⟩).area = Rect.zero := by
  rw [(src_sub_image_eq_model 28 exSrc _ (by decide) (by decide)).1]; decide
example : exSrc.model.Good := exIm_wf

end EG.C09.Generated
