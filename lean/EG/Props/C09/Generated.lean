/-
  C09 — the image code REGENERATED FROM THE RUST SOURCE equals the hand-written model (part 1: `ImageRaw`).

  EG/Generated/ImgSrc.lean is written by tools/tr_imgsrc.py from the text of src/image/{image_raw,sub_image,mod}.rs on
  every check. Here every generated function of image_raw.rs is proved equal to `EG.Model.ImageRaw` for ALL inputs
  (`<name>_src_eq_model`), and C09's headline theorems are restated over the generated functions (`src_*`).
  Guards, exactly: `BytesOk data` (every buffer element is a `u8`: the generated `load` masks with `Storage::MAX`) and
  `FitsUsize data` (`checked_mul`) wherever raw pixels are read — the guards of Props/C11/Generated.lean —, and `IsU32`
  of the image size (the type bound of `u32` that `Nat` lacks: `usize as u32` / `u32 as i32` wrap) for `data_width`,
  `pixel`, `draw`, `draw_sub_image`. Sub-images and `Image`: GeneratedSub.lean.
-/
import EG.Generated.ImgSrc
import EG.Props.C11.Generated
import EG.Props.C16.Generated
import EG.Props.C09
set_option linter.unusedSimpArgs false
set_option linter.unusedVariables false
namespace EG.C09.Generated
open EG EG.Raw EG.Img EG.RawSrcPrelude EG.ImgSrcPrelude EG.Generated EG.Generated.RawSrc EG.C11.Generated

/-- `simp only` with every prelude name of the image part. -/
macro "img_simp" "[" ls:Lean.Parser.Tactic.simpLemma,* "]" loc:(Lean.Parser.Tactic.location)? : tactic =>
  `(tactic| simp only [Size_width, Size_height, Rectangle_top_left, Rectangle_size, Point_x, Point_y, u32_mul, u32_div, u32_gt,
    u32_eq, u32_sub, u32_as_usize, usize_as_u32, u32_as_i32, i32_as_u32, i32_as_usize, i32_lt, i32_ge, i32_max, i32_neg,
    i32_checked_add, u64_from_u32, u64_add, u64_gt, i64_from_i32, i64_from_u32, i64_add, i64_sub, i64_min, i64_max,
    i64_as_u32, result_unwrap, panic_bind, raw_into_color, usize_add, usize_sub, usize_mul, usize_div, usize_lt, usize_gt,
    usize_ne, usize_eq, slice_len, bool_or, bool_and, option_map, DrawTargetD_ok, DrawTargetD_fill_contiguous,
    DrawTargetD_translated, ImageDrawableT_size, ImageDrawableT_draw, ImageDrawableT_draw_sub_image,
    ImageDrawableT_bounding_box, OriginDimensions_bounding_box, slice_index_range, $ls,*] $[$loc]?)

/-- The hand model's image of a generated one (`C::Raw`, `O` are type parameters in Rust). -/
def toIm (C : RawTy) (O : DataOrderTy) (s : ImgSrc.ImageRaw) : Img.ImageRaw := ⟨bits C, ord O, s.data, s.size⟩

/-- The hand model's `ContiguousPixels` state of a generated one. -/
def toCP (C : RawTy) (O : DataOrderTy) (s : ImgSrc.ContiguousPixels) : CP :=
  ⟨toModel C O s.iter, s.remaining_x, s.width, s.remaining_y, s.row_skip⟩

/-- `width <= u32::MAX`, `height <= u32::MAX` -/
abbrev IsU32 (s : Sz) : Prop := s.w ≤ 4294967295 ∧ s.h ≤ 4294967295
example : IsU32 ⟨9, 3⟩ := by decide

theorem bits_lt (C : RawTy) : 0 < bits C ∧ bits C ≤ 32 := by cases C <;> decide

/-- `bytes_per_row(width, bits_per_pixel)` -/
theorem bytes_per_row_src_eq_model (w b : Nat) : ImgSrc.bytes_per_row w b = bytesPerRow w b := rfl

/-- `ImageRaw::new`: `Ok(image)` / `Err(InvalidDataSize { expected_data_size })`, unconditionally. -/
theorem ImageRaw_new_src_eq_model (C : RawTy) (O : DataOrderTy) (data : List Nat) (size : Sz) :
    (match ImgSrc.ImageRaw_new C O data size with
      | .ok s => Except.ok (toIm C O s)
      | .error (.InvalidDataSize n) => Except.error n) = Img.ImageRaw.new (bits C) (ord O) data size := by
  unfold ImgSrc.ImageRaw_new Img.ImageRaw.new
  img_simp [bytes_per_row_src_eq_model]
  by_cases h : data.length = bytesPerRow size.w (RawData_BITS_PER_PIXEL C) * size.h
  · simp [h, toIm]
  · simp [h]

/-- `data_width()` (the `usize as u32` casts wrap: `IsU32`) -/
theorem data_width_src_eq_model (C : RawTy) (O : DataOrderTy) (s : ImgSrc.ImageRaw) (hu : s.size.w ≤ 4294967295) :
    ImgSrc.ImageRaw_data_width C O s = (toIm C O s).dataWidth := by
  have hb := bits_lt C
  have hm : (toIm C O s).dataWidth = if bits C < 8 then bytesPerRow s.size.w (bits C) * (8 / bits C) else s.size.w := rfl
  rw [hm]
  unfold ImgSrc.ImageRaw_data_width
  img_simp [bytes_per_row_src_eq_model, decide_eq_true_eq, bits] at hb ⊢
  by_cases h8 : RawData_BITS_PER_PIXEL C < 8
  · have h0 : s.size.w * RawData_BITS_PER_PIXEL C ≤ s.size.w * 7 := Nat.mul_le_mul_left _ (by omega)
    have h1 : bytesPerRow s.size.w (RawData_BITS_PER_PIXEL C) ≤ s.size.w := by unfold bytesPerRow; omega
    rw [if_pos h8, if_pos h8, Nat.mod_eq_of_lt (by omega), Nat.mod_eq_of_lt (by omega)]
  · rw [if_neg h8, if_neg h8]

theorem size_src_eq_model (C : RawTy) (O : DataOrderTy) (s : ImgSrc.ImageRaw) :
    ImgSrc.ImageRaw_OriginDimensions_size C O s = (toIm C O s).size := rfl

theorem asI32_eq (n : Nat) (h : n ≤ 4294967295) : Img.asI32 n = u32_as_i32 n := by
  unfold Img.asI32 u32_as_i32
  rw [Nat.mod_eq_of_lt (by omega)]
  split <;> split <;> omega

/-- `GetPixel::pixel`: `None` outside (with the wrapping `as i32`), raw pixel `x + y * data_width` inside. -/
theorem pixel_src_eq_model (C : RawTy) (O : DataOrderTy) (s : ImgSrc.ImageRaw) (p : Pt) (hw : BytesOk s.data)
    (hlen : FitsUsize s.data) (hu : IsU32 s.size) :
    ImgSrc.ImageRaw_GetPixel_pixel C O s p = (toIm C O s).pixel p := by
  unfold ImgSrc.ImageRaw_GetPixel_pixel Img.ImageRaw.pixel
  rw [data_width_src_eq_model C O s hu.1]
  have e1 : (toIm C O s).size = s.size := rfl
  rw [e1, asI32_eq _ hu.1, asI32_eq _ hu.2]
  by_cases hc : p.x < 0 ∨ p.y < 0 ∨ p.x ≥ u32_as_i32 s.size.w ∨ p.y ≥ u32_as_i32 s.size.h
  · have : (bool_or (bool_or (bool_or (i32_lt (Point_x p) 0) (i32_lt (Point_y p) 0))
        (i32_ge (Point_x p) (u32_as_i32 (Size_width s.size)))) (i32_ge (Point_y p) (u32_as_i32 (Size_height s.size)))) = true := by
      simp only [bool_or, i32_lt, i32_ge, Point_x, Point_y, Size_width, Size_height, Bool.or_eq_true, decide_eq_true_eq]
      omega
    rw [if_pos this, if_pos hc]
  · have : ¬ (bool_or (bool_or (bool_or (i32_lt (Point_x p) 0) (i32_lt (Point_y p) 0))
        (i32_ge (Point_x p) (u32_as_i32 (Size_width s.size)))) (i32_ge (Point_y p) (u32_as_i32 (Size_height s.size)))) = true := by
      simp only [bool_or, i32_lt, i32_ge, Point_x, Point_y, Size_width, Size_height, Bool.or_eq_true, decide_eq_true_eq]
      omega
    rw [if_neg this, if_neg hc]
    have hx : i32_as_usize (Point_x p) = p.x.toNat := by
      unfold u32_as_i32 at hc; simp only [i32_as_usize, Point_x]
      have : p.x < 4294967296 := by split at hc <;> omega
      omega
    have hy : i32_as_usize (Point_y p) = p.y.toNat := by
      unfold u32_as_i32 at hc; simp only [i32_as_usize, Point_y]
      have : p.y < 4294967296 := by split at hc <;> omega
      omega
    rw [hx, hy]
    have hn := (Iterator_nth_src_eq_model C O (RawDataSlice_IntoIterator_into_iter C O (RawDataSlice_new s.data))
      (usize_add p.x.toNat (usize_mul p.y.toNat (u32_as_usize (toIm C O s).dataWidth))) hw hlen).1
    rw [(RawDataIterator_new_src_eq_model C O s.data).2] at hn
    simp only [option_map, raw_into_color]
    rw [hn]
    simp only [usize_add, usize_mul, u32_as_usize, toIm]
    cases (Iter.nth (Iter.new (bits C) (ord O) s.data) (p.x.toNat + p.y.toNat * _)).1 <;> rfl
example : BytesOk [0xAA, 0x00, 0x55] ∧ FitsUsize [0xAA, 0x00, 0x55] := by
  refine ⟨by intro b hb; simp at hb; omega, by unfold FitsUsize usizeMax; decide⟩

/-! ### `ContiguousPixels` -/

theorem iter_next_data (it : Iter) : it.next.2.data = it.data ∧ it.next.2.bits = it.bits ∧ it.next.2.order = it.order := by
  unfold Iter.next; split <;> exact ⟨rfl, rfl, rfl⟩

theorem cp_next_data (m : CP) : m.next.2.iter.data = m.iter.data := by
  unfold CP.next
  split
  · exact (iter_next_data _).1
  · split
    · rfl
    · exact (iter_next_data _).1

/-- `ContiguousPixels::new(image, size, initial_skip, row_skip)` -/
theorem ContiguousPixels_new_src_eq_model (C : RawTy) (O : DataOrderTy) (s : ImgSrc.ImageRaw) (size : Sz) (skip rs : Nat)
    (hw : BytesOk s.data) (hlen : FitsUsize s.data) :
    toCP C O (ImgSrc.ContiguousPixels_new C O s size skip rs) = CP.new (toIm C O s) size skip rs := by
  have h0 := (RawDataIterator_new_src_eq_model C O s.data).2
  have hn := (Iterator_nth_src_eq_model C O (RawDataSlice_IntoIterator_into_iter C O (RawDataSlice_new s.data))
    (skip - 1) hw hlen).2
  rw [h0] at hn
  unfold ImgSrc.ContiguousPixels_new CP.new toCP
  by_cases hs : skip > 0 <;> by_cases hc : size.w > 0 ∧ size.h > 0 <;>
    simp [hs, hc, hn, h0, toIm, usize_gt, usize_sub, u32_gt, u32_sub, bool_and, Size_width, Size_height]

/-- One generated `Iterator::next` = one `CP.next` of the hand model: the item AND the state afterwards. -/
theorem ContiguousPixels_next_src_eq_model (C : RawTy) (O : DataOrderTy) (s : ImgSrc.ContiguousPixels)
    (hw : BytesOk s.iter.data) (hlen : FitsUsize s.iter.data) :
    (ImgSrc.ContiguousPixels_Iterator_next C O s).1 = (CP.next (toCP C O s)).1 ∧
    toCP C O (ImgSrc.ContiguousPixels_Iterator_next C O s).2 = (CP.next (toCP C O s)).2 := by
  obtain ⟨n1, n2⟩ := Iterator_next_src_eq_model C O s.iter hw hlen
  obtain ⟨t1, t2⟩ := Iterator_nth_src_eq_model C O s.iter s.row_skip hw hlen
  have om : ∀ o : Option Nat, option_map o (fun c => raw_into_color c) = o := by intro o; cases o <;> rfl
  unfold ImgSrc.ContiguousPixels_Iterator_next CP.next
  by_cases hx : s.remaining_x > 0
  · have : (toCP C O s).remainingX > 0 := hx
    rw [if_pos this, if_pos (by simpa [u32_gt] using hx)]
    simp only [om]
    exact ⟨n1, by simp only [toCP, u32_sub]; rw [n2]⟩
  · have : ¬ (toCP C O s).remainingX > 0 := hx
    rw [if_neg this, if_neg (by simpa [u32_gt] using hx)]
    by_cases hy : s.remaining_y = 0
    · have : (toCP C O s).remainingY = 0 := hy
      rw [if_pos this, if_pos (by simpa [u32_eq] using hy)]
      exact ⟨rfl, rfl⟩
    · have : ¬ (toCP C O s).remainingY = 0 := hy
      rw [if_neg this, if_neg (by simpa [u32_eq] using hy)]
      simp only [om]
      exact ⟨t1, by simp only [toCP, u32_sub]; rw [t2]⟩

theorem next_keeps_data (C : RawTy) (O : DataOrderTy) (s : ImgSrc.ContiguousPixels)
    (hw : BytesOk s.iter.data) (hlen : FitsUsize s.iter.data) :
    (ImgSrc.ContiguousPixels_Iterator_next C O s).2.iter.data = s.iter.data := by
  have h := congrArg (fun m : CP => m.iter.data) (ContiguousPixels_next_src_eq_model C O s hw hlen).2
  simp only [cp_next_data] at h
  exact h

/-- The collected list of the generated iterator = the hand model's drain, for every fuel. -/
theorem ContiguousPixels_collect_src_eq_model (C : RawTy) (O : DataOrderTy) :
    ∀ (fuel : Nat) (s : ImgSrc.ContiguousPixels), BytesOk s.iter.data → FitsUsize s.iter.data →
      iter_collect_fuel (ImgSrc.ContiguousPixels_Iterator_next C O) fuel s = (toCP C O s).toListFuel fuel
  | 0, _, _, _ => rfl
  | fuel + 1, s, hw, hlen => by
    obtain ⟨h1, h2⟩ := ContiguousPixels_next_src_eq_model C O s hw hlen
    have hd := next_keeps_data C O s hw hlen
    unfold iter_collect_fuel CP.toListFuel
    cases hg : ImgSrc.ContiguousPixels_Iterator_next C O s with
    | mk v s' =>
      rw [hg] at h1 h2 hd
      cases hm : (toCP C O s).next with
      | mk v' m' =>
        rw [hm] at h1 h2
        simp only at h1 h2 hd
        subst h1
        cases v with
        | none => rfl
        | some a =>
          simp only
          rw [ContiguousPixels_collect_src_eq_model C O fuel s' (hd ▸ hw) (hd ▸ hlen), h2]

/-! ### `ImageDrawable for ImageRaw`: which `fill_contiguous` call, with which area and which colours -/

theorem cp_new_data (im : Img.ImageRaw) (size : Sz) (skip rs : Nat) : (CP.new im size skip rs).iter.data = im.data := by
  unfold CP.new
  simp only
  split
  · exact (iter_next_data _).1
  · rfl

theorem new_keeps_data (C : RawTy) (O : DataOrderTy) (s : ImgSrc.ImageRaw) (size : Sz) (skip rs : Nat)
    (hw : BytesOk s.data) (hlen : FitsUsize s.data) :
    (ImgSrc.ContiguousPixels_new C O s size skip rs).iter.data = s.data := by
  have := congrArg (fun m : CP => m.iter.data) (ContiguousPixels_new_src_eq_model C O s size skip rs hw hlen)
  simp only [cp_new_data] at this
  exact this

/-- `draw`, for EVERY fuel: one `fill_contiguous` of the bounding box whose colours are the hand model's
`ContiguousPixels::new(self, self.size, 0, data_width - width)` drained with the same fuel. -/
theorem draw_fuel_src_eq_model (fuel : Nat) (C : RawTy) (O : DataOrderTy) (s : ImgSrc.ImageRaw) (tgt : DrawTargetD)
    (hw : BytesOk s.data) (hlen : FitsUsize s.data) (hu : IsU32 s.size) :
    ImgSrc.ImageRaw_ImageDrawable_draw fuel C O s tgt =
      [tgt (Call.fillContiguous (toIm C O s).boundingBox
        ((CP.new (toIm C O s) s.size 0 ((toIm C O s).dataWidth - s.size.w)).toListFuel fuel))] := by
  unfold ImgSrc.ImageRaw_ImageDrawable_draw
  rw [data_width_src_eq_model C O s hu.1]
  simp only [DrawTargetD_fill_contiguous, OriginDimensions_bounding_box, size_src_eq_model, u32_sub, u32_as_usize, Size_width]
  rw [ContiguousPixels_collect_src_eq_model C O fuel _ ?_ ?_, ContiguousPixels_new_src_eq_model C O s _ _ _ hw hlen]
  · rfl
  · rw [new_keeps_data C O s _ _ _ hw hlen]; exact hw
  · rw [new_keeps_data C O s _ _ _ hw hlen]; exact hlen

/-- `top_left` is a pair of `i32`s (the type bound `Int` lacks; `x as u32` wraps outside) -/
def IsI32 (p : Pt) : Prop := -2147483648 ≤ p.x ∧ p.x ≤ 2147483647 ∧ -2147483648 ≤ p.y ∧ p.y ≤ 2147483647
instance (p : Pt) : Decidable (IsI32 p) := by unfold IsI32; exact inferInstance
example : IsI32 ⟨6, 1⟩ := by decide

/-- `draw_sub_image`, for EVERY fuel: nothing for an area that is empty or not inside the image (the `u64`
comparison of the repair a083ac5 decides the same as the model's unbounded one), else one `fill_contiguous` of
`Rectangle::new(Point::zero(), area.size)` with `ContiguousPixels::new(self, area.size, y * data_width + x,
data_width - area.width)`. -/
theorem draw_sub_image_fuel_src_eq_model (fuel : Nat) (C : RawTy) (O : DataOrderTy) (s : ImgSrc.ImageRaw)
    (tgt : DrawTargetD) (area : Rect) (hw : BytesOk s.data) (hlen : FitsUsize s.data) (hu : IsU32 s.size)
    (ha : IsI32 area.tl) :
    ImgSrc.ImageRaw_ImageDrawable_draw_sub_image fuel C O s tgt area =
      if area.isZeroSized = true ∨ area.tl.x < 0 ∨ area.tl.y < 0 ∨ area.tl.x.toNat + area.size.w > s.size.w
          ∨ area.tl.y.toNat + area.size.h > s.size.h then []
      else [tgt (Call.fillContiguous ⟨Pt.zero, area.size⟩
        ((CP.new (toIm C O s) area.size (area.tl.y.toNat * (toIm C O s).dataWidth + area.tl.x.toNat)
          ((toIm C O s).dataWidth - area.size.w)).toListFuel fuel))] := by
  unfold ImgSrc.ImageRaw_ImageDrawable_draw_sub_image
  rw [data_width_src_eq_model C O s hu.1, EG.C16.Src.is_zero_sized_src_eq_model]
  unfold IsI32 at ha
  by_cases hc : area.isZeroSized = true ∨ area.tl.x < 0 ∨ area.tl.y < 0 ∨ area.tl.x.toNat + area.size.w > s.size.w
      ∨ area.tl.y.toNat + area.size.h > s.size.h
  · rw [if_pos hc, if_pos]
    simp only [bool_or, i32_lt, u64_gt, u64_add, u64_from_u32, i32_as_u32, Point_x, Point_y, Rectangle_top_left,
      Rectangle_size, Size_width, Size_height, Bool.or_eq_true, decide_eq_true_eq]
    rcases hc with h | h | h | h | h
    · exact Or.inl (Or.inl (Or.inl (Or.inl h)))
    · exact Or.inl (Or.inl (Or.inl (Or.inr h)))
    · exact Or.inl (Or.inl (Or.inr h))
    · by_cases hx : area.tl.x < 0
      · exact Or.inl (Or.inl (Or.inl (Or.inr hx)))
      · refine Or.inl (Or.inr ?_); omega
    · by_cases hy : area.tl.y < 0
      · exact Or.inl (Or.inl (Or.inr hy))
      · refine Or.inr ?_; omega
  · rw [if_neg hc, if_neg]
    · simp only [DrawTargetD_fill_contiguous, u32_as_usize, usize_add, usize_mul, usize_sub, Size_width, Rectangle_size,
        Rectangle_top_left, Point_x, Point_y, EG.C16.Src.new_src_eq_model, EG.C16.Src.Point_zero_src_eq_model]
      have hx : i32_as_usize area.tl.x = area.tl.x.toNat := by simp only [i32_as_usize]; omega
      have hy : i32_as_usize area.tl.y = area.tl.y.toNat := by simp only [i32_as_usize]; omega
      rw [hx, hy, ContiguousPixels_collect_src_eq_model C O fuel _ ?_ ?_,
        ContiguousPixels_new_src_eq_model C O s _ _ _ hw hlen]
      · rw [new_keeps_data C O s _ _ _ hw hlen]; exact hw
      · rw [new_keeps_data C O s _ _ _ hw hlen]; exact hlen
    · simp only [bool_or, i32_lt, u64_gt, u64_add, u64_from_u32, i32_as_u32, Point_x, Point_y, Rectangle_top_left,
        Rectangle_size, Size_width, Size_height, Bool.or_eq_true, decide_eq_true_eq, not_or] at hc ⊢
      obtain ⟨h1, h2, h3, h4, h5⟩ := hc
      refine ⟨⟨⟨⟨h1, h2⟩, h3⟩, ?_⟩, ?_⟩ <;> omega

/-! ### enough fuel: the generated `draw` / `draw_sub_image` ARE the hand model's -/

theorem iter_nth_data (it : Iter) (n : Nat) : (it.nth n).2.data = it.data ∧ (it.nth n).2.bits = it.bits := by
  unfold Iter.nth; exact ⟨(iter_next_data _).1, (iter_next_data _).2.1⟩

theorem cp_new_ok (im : Img.ImageRaw) (hb : validBits im.bits = true) (hf : Fits im.bits im.data) (size : Sz)
    (skip rs : Nat) : (CP.new im size skip rs).Ok := by
  have hd := cp_new_data im size skip rs
  have hbits : (CP.new im size skip rs).iter.bits = im.bits := by
    unfold CP.new; simp only; split
    · exact (iter_nth_data _ _).2
    · rfl
  refine ⟨by rw [hbits]; exact hb, by rw [hbits, hd]; exact hf, ?_⟩
  unfold CP.new; simp only
  split <;> simp only <;> omega

theorem cp_new_count (im : Img.ImageRaw) (size : Sz) (skip rs : Nat) :
    (CP.new im size skip rs).remainingX + (CP.new im size skip rs).remainingY * (CP.new im size skip rs).width
      = size.w * size.h := by
  unfold CP.new; simp only
  split
  · rename_i h
    obtain ⟨h', hh⟩ : ∃ h', size.h = h' + 1 := ⟨size.h - 1, by omega⟩
    simp only [hh, Nat.add_sub_cancel, Nat.mul_succ, Nat.mul_comm h' size.w]; omega
  · rename_i h
    have : size.w = 0 ∨ size.h = 0 := by omega
    rcases this with h0 | h0 <;> simp [h0]

/-- Any fuel above `width * height` drains a fresh `ContiguousPixels` completely. -/
theorem toListFuel_enough (im : Img.ImageRaw) (hb : validBits im.bits = true) (hf : Fits im.bits im.data) (size : Sz)
    (skip rs fuel : Nat) (h : size.w * size.h < fuel) :
    (CP.new im size skip rs).toListFuel fuel = (CP.new im size skip rs).toList := by
  have hok := cp_new_ok im hb hf size skip rs
  rw [CP.toList_eq _ hok]
  apply CP.toListFuel_eq _ _ hok
  have h1 := Img.somePrefix_length_le ((CP.new im size skip rs).indices.map
    (load (CP.new im size skip rs).iter.bits (CP.new im size skip rs).iter.order (CP.new im size skip rs).iter.data))
  rw [List.length_map, CP.indices_length, cp_new_count] at h1
  unfold CP.rest
  omega

/-- **`ImageDrawable::draw` for `ImageRaw`** with any fuel above `width * height`: the calls of the hand model's
`draw`, as they reach the root display through `tgt`. -/
theorem draw_src_eq_model (fuel : Nat) (C : RawTy) (O : DataOrderTy) (s : ImgSrc.ImageRaw) (tgt : DrawTargetD)
    (hw : BytesOk s.data) (hlen : FitsUsize s.data) (hu : IsU32 s.size) (hf : Fits (bits C) s.data)
    (hfuel : s.size.w * s.size.h < fuel) :
    ImgSrc.ImageRaw_ImageDrawable_draw fuel C O s tgt = (toIm C O s).draw.map tgt := by
  rw [draw_fuel_src_eq_model fuel C O s tgt hw hlen hu, toListFuel_enough (toIm C O s) (bits_valid C) hf _ _ _ _ hfuel]
  rfl

/-- **`ImageDrawable::draw_sub_image` for `ImageRaw`** with any fuel above the image's `width * height`. -/
theorem draw_sub_image_src_eq_model (fuel : Nat) (C : RawTy) (O : DataOrderTy) (s : ImgSrc.ImageRaw) (tgt : DrawTargetD)
    (area : Rect) (hw : BytesOk s.data) (hlen : FitsUsize s.data) (hu : IsU32 s.size) (ha : IsI32 area.tl)
    (hf : Fits (bits C) s.data) (hfuel : s.size.w * s.size.h < fuel) :
    ImgSrc.ImageRaw_ImageDrawable_draw_sub_image fuel C O s tgt area = ((toIm C O s).drawSubImage area).map tgt := by
  rw [draw_sub_image_fuel_src_eq_model fuel C O s tgt area hw hlen hu ha]
  unfold Img.ImageRaw.drawSubImage
  have e : (toIm C O s).size = s.size := rfl
  rw [e]
  by_cases hc : area.isZeroSized = true ∨ area.tl.x < 0 ∨ area.tl.y < 0 ∨ area.tl.x.toNat + area.size.w > s.size.w
      ∨ area.tl.y.toNat + area.size.h > s.size.h
  · rw [if_pos hc, if_pos hc]; rfl
  · rw [if_neg hc, if_neg hc]
    simp only [not_or] at hc
    have hle : area.size.w * area.size.h ≤ s.size.w * s.size.h := Nat.mul_le_mul (by omega) (by omega)
    rw [toListFuel_enough (toIm C O s) (bits_valid C) hf _ _ _ _ (by omega)]
    rfl
example : Fits 1 [0xAA, 0x00, 0x55] := by unfold Fits; decide

/-! ### C09's headline theorems over the GENERATED functions -/

/-- A generated image that is well formed in the sense of C09 (`WF` of its model image: what `ImageRaw::new` checks
plus the range facts) and whose buffer satisfies the guards of the raw `load`. -/
structure SrcWF (C : RawTy) (O : DataOrderTy) (s : ImgSrc.ImageRaw) : Prop where
  wf : (toIm C O s).WF
  bytes : BytesOk s.data
  usz : FitsUsize s.data

theorem SrcWF.isU32 {C : RawTy} {O : DataOrderTy} {s : ImgSrc.ImageRaw} (h : SrcWF C O s) : IsU32 s.size := by
  have h1 := h.wf.wI32; have h2 := h.wf.hI32
  have e : (toIm C O s).size = s.size := rfl
  rw [e] at h1 h2
  exact ⟨by omega, by omega⟩

/-- What the generated `ImageRaw::new` accepts is `SrcWF` (given the range facts). -/
theorem src_new_wf (C : RawTy) (O : DataOrderTy) (data : List Nat) (size : Sz) (s : ImgSrc.ImageRaw)
    (h : ImgSrc.ImageRaw_new C O data size = .ok s) (hw : size.w ≤ 2147483647) (hh : size.h ≤ 2147483647)
    (hf : Fits (bits C) data) (hb : BytesOk data) (hl : FitsUsize data) : SrcWF C O s := by
  have hm := ImageRaw_new_src_eq_model C O data size
  rw [h] at hm
  have hwf := EG.C09.wf_of_new (bits C) (ord O) data size (toIm C O s) hm.symm (bits_valid C) hw hh hf
  have hd : s.data = data := by
    have := ((EG.C09.new_ok_iff _ _ _ _ _).mp hm.symm).2
    exact congrArg Img.ImageRaw.data this
  exact ⟨hwf, hd ▸ hb, hd ▸ hl⟩
example : ImgSrc.ImageRaw_new .RawU1 .LittleEndianMsb0 [0xAA, 0x00, 0x55, 0xFF, 0xAA, 0x80] ⟨9, 3⟩ =
    .ok ⟨[0xAA, 0x00, 0x55, 0xFF, 0xAA, 0x80], ⟨9, 3⟩⟩ := rfl

/-- **`pixel` is `None` exactly outside the bounding box** (generated `pixel`, generated `size`). -/
theorem src_pixel_none_iff (C : RawTy) (O : DataOrderTy) (s : ImgSrc.ImageRaw) (h : SrcWF C O s) (p : Pt) :
    ImgSrc.ImageRaw_GetPixel_pixel C O s p = none ↔
      (OriginDimensions_bounding_box (ImgSrc.ImageRaw_OriginDimensions_size C O s)).contains p = false := by
  rw [pixel_src_eq_model C O s p h.bytes h.usz h.isU32]
  exact EG.C09.pixel_none_iff (toIm C O s) h.wf p

/-- **Inside, `pixel((x, y))` is the generated raw `load` at the padded index `x + y * data_width`.** -/
theorem src_pixel_eq_load (C : RawTy) (O : DataOrderTy) (s : ImgSrc.ImageRaw) (h : SrcWF C O s) (p : Pt) :
    ImgSrc.ImageRaw_GetPixel_pixel C O s p =
      if (OriginDimensions_bounding_box (ImgSrc.ImageRaw_OriginDimensions_size C O s)).contains p = true then
        RawData_load C O s.data (p.x.toNat + p.y.toNat * ImgSrc.ImageRaw_data_width C O s)
      else none := by
  rw [pixel_src_eq_model C O s p h.bytes h.usz h.isU32, data_width_src_eq_model C O s h.isU32.1,
    load_src_eq_model C O s.data _ h.bytes h.usz]
  exact EG.C09.pixel_eq_load (toIm C O s) h.wf p

/-- **`draw_stream`** over the generated `draw` (any fuel above `width * height`): one `fill_contiguous` of the
bounding box whose colours are the generated `pixel`s row-major, exactly `width * height` of them. -/
theorem src_draw_stream (fuel : Nat) (C : RawTy) (O : DataOrderTy) (s : ImgSrc.ImageRaw) (tgt : DrawTargetD)
    (h : SrcWF C O s) (hfuel : s.size.w * s.size.h < fuel) :
    ∃ cs, ImgSrc.ImageRaw_ImageDrawable_draw fuel C O s tgt =
        [tgt (Call.fillContiguous (OriginDimensions_bounding_box (ImgSrc.ImageRaw_OriginDimensions_size C O s)) cs)] ∧
      cs.map some = (OriginDimensions_bounding_box (ImgSrc.ImageRaw_OriginDimensions_size C O s)).points.map
        (ImgSrc.ImageRaw_GetPixel_pixel C O s) ∧
      cs.length = s.size.w * s.size.h := by
  obtain ⟨cs, h1, h2, h3⟩ := EG.C09.draw_stream (toIm C O s) h.wf
  refine ⟨cs, ?_, ?_, h3⟩
  · rw [draw_src_eq_model fuel C O s tgt h.bytes h.usz h.isU32 h.wf.fits hfuel, h1]; rfl
  · rw [h2]
    apply List.map_congr_left
    intro p _
    exact (pixel_src_eq_model C O s p h.bytes h.usz h.isU32).symm

/-- **`draw_sub_image`** over the generated function: nothing unless the area is non-empty and inside the image ... -/
theorem src_draw_sub_image_rejects (fuel : Nat) (C : RawTy) (O : DataOrderTy) (s : ImgSrc.ImageRaw) (tgt : DrawTargetD)
    (a : Rect) (h : SrcWF C O s) (ha : IsI32 a.tl) (hfuel : s.size.w * s.size.h < fuel) (hr : ¬ (toIm C O s).Accepts a) :
    ImgSrc.ImageRaw_ImageDrawable_draw_sub_image fuel C O s tgt a = [] := by
  rw [draw_sub_image_src_eq_model fuel C O s tgt a h.bytes h.usz h.isU32 ha h.wf.fits hfuel,
    EG.C09.draw_sub_image_rejects _ a hr]
  rfl

/-- ... and otherwise exactly the `width * height` generated `pixel`s of the area, row-major. -/
theorem src_draw_sub_image_stream (fuel : Nat) (C : RawTy) (O : DataOrderTy) (s : ImgSrc.ImageRaw) (tgt : DrawTargetD)
    (a : Rect) (h : SrcWF C O s) (ha : IsI32 a.tl) (hfuel : s.size.w * s.size.h < fuel) (hacc : (toIm C O s).Accepts a) :
    ∃ cs, ImgSrc.ImageRaw_ImageDrawable_draw_sub_image fuel C O s tgt a = [tgt (Call.fillContiguous ⟨Pt.zero, a.size⟩ cs)] ∧
      cs.map some = (Rect.points ⟨Pt.zero, a.size⟩).map (fun p => ImgSrc.ImageRaw_GetPixel_pixel C O s (a.tl + p)) ∧
      cs.length = a.size.w * a.size.h := by
  obtain ⟨cs, h1, h2, h3⟩ := EG.C09.draw_sub_image_stream (toIm C O s) h.wf a hacc
  refine ⟨cs, ?_, ?_, h3⟩
  · rw [draw_sub_image_src_eq_model fuel C O s tgt a h.bytes h.usz h.isU32 ha h.wf.fits hfuel, h1]; rfl
  · rw [h2]
    apply List.map_congr_left
    intro p _
    exact (pixel_src_eq_model C O s _ h.bytes h.usz h.isU32).symm
example : (toIm .RawU1 .LittleEndianMsb0 ⟨[0xAA, 0x00, 0x55, 0xFF, 0xAA, 0x80], ⟨9, 3⟩⟩).Accepts ⟨⟨6, 1⟩, ⟨3, 2⟩⟩ := by decide

/-- What the translator left out of src/image/*.rs is exactly this: `new_const` (a `panic!` arm and a struct pattern;
`Ok` of `new` or a panic). An added function or override in any impl of these files shows up here. -/
theorem img_untranslated_pinned :
    ImgSrc.untranslated = [("impl ImageRaw", ["new_const"])] := by decide

end EG.C09.Generated
