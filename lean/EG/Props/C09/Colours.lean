/-
  C09 / colours — identifying a colour with its raw value (what the C09 model does: `ImageRaw::pixel`
  returns the raw value the real code hands to `C::from(raw)`) loses nothing.

  Glue between the C09 model (`EG.Model.ImageRaw`: pixels are raw values `< 2^bits`) and the C12 colour
  model (`EG.Model.Color` over the generated table `EG.Generated.colorTable` of EVERY built-in colour
  type): the observable colour of a pixel is `C::from(raw)`, and what a reader of that colour can see of
  it is `Raw::from(colour)` = `toRaw (fromRaw raw)`.

    * every built-in colour type, every raw value that fits the type's depth (`raw < 2^usedBits`; for a
      type without unused bits: every raw value of the raw type): `toRaw (fromRaw raw) = raw` — the map
      raw -> colour is injective, the colour IS its raw value;
    * raw values with bits set above the used ones (only possible for the types listed in
      `padded_types`: 12 / 15 / 18 used bits in a 16 / 24 bit raw type): `C::from(raw)` clears exactly
      those bits, `toRaw (fromRaw raw) = raw % 2^usedBits`, and two raw values give the same colour iff
      they agree on the used bits. For those types the image shows the pixel data with the unused bits
      cleared; the model's raw value is exact up to that mask.

  All statements cite C12's theorems (`raw_clears_unused_only`, `raw_roundtrip`, `from_raw_valid`);
  nothing about colours is re-proved here. The harness instantiates `ImageRaw<C>` with
  BinaryColor / Gray2 / Gray4 / Gray8 / Rgb565 / Rgb888 (all in `full_depth_types`) and a local 32-bit
  colour whose `From` impls are the identity by construction.
-/
import EG.Props.C09
import EG.Props.C12
import EG.Lemmas.RawLoadStore
namespace EG.C09.Colours
open EG EG.Raw EG.Img EG.Generated EG.ColorSpec

/-- The used bits never exceed the raw type's depth. -/
theorem used_bits_le_depth : ∀ s ∈ colorTable, s.usedBits ≤ s.rawBpp := by decide

/-- The built-in colour types whose raw type has no unused bit (`usedBits = BITS_PER_PIXEL`). -/
theorem full_depth_types :
    (colorTable.filter (fun s => s.usedBits == s.rawBpp)).map (·.name) =
      ["Rgb332", "Rgb565", "Bgr565", "Rgb888", "Bgr888", "Gray2", "Gray4", "Gray8", "BinaryColor"] := by
  decide

/-- The built-in colour types with unused high bits in their raw type: name, used bits, depth. -/
theorem padded_types :
    (colorTable.filter (fun s => s.usedBits != s.rawBpp)).map (fun s => (s.name, s.usedBits, s.rawBpp)) =
      [("Rgb444", 12, 16), ("Rgb555", 15, 16), ("Bgr555", 15, 16), ("Rgb666", 18, 24), ("Bgr666", 18, 24)] := by
  decide

/-- raw -> colour -> raw for every raw value of the raw type (C12 `raw_clears_unused_only`). -/
theorem raw_colour_raw : ∀ s ∈ colorTable, ∀ raw, raw < 2 ^ s.rawBpp →
    s.toRaw (s.fromRaw raw) = raw % 2 ^ s.usedBits := C12.raw_clears_unused_only
example : ∃ s ∈ colorTable, s.name = "Rgb565" ∧ (0xF81F : Nat) < 2 ^ s.rawBpp :=
  ⟨_, List.mem_of_elem_eq_true (by decide : colorTable.elem
      { name := "Rgb565", kind := .rgb, rawName := "RawU16", rawBpp := 16, rawStorageBits := 16, nbytes := 2,
        beLo := 0, beHi := 2, leLo := 0, leHi := 2, storageBits := 16, rbits := 5, gbits := 6, bbits := 5,
        rpos := 11, gpos := 5, bpos := 0 } = true), by decide⟩

/-- **Every raw value that fits the colour type's depth survives raw -> colour -> raw unchanged.** -/
theorem raw_colour_raw_of_fits : ∀ s ∈ colorTable, ∀ raw, raw < 2 ^ s.usedBits →
    s.toRaw (s.fromRaw raw) = raw := by
  intro s hs raw hr
  have hle := used_bits_le_depth s hs
  have hlt : raw < 2 ^ s.rawBpp := Nat.lt_of_lt_of_le hr (Nat.pow_le_pow_right (by decide) hle)
  rw [raw_colour_raw s hs raw hlt, Nat.mod_eq_of_lt hr]
example : ∃ s ∈ colorTable, s.name = "Rgb555" ∧ (0x7C1F : Nat) < 2 ^ s.usedBits :=
  ⟨_, List.mem_of_elem_eq_true (by decide : colorTable.elem
      { name := "Rgb555", kind := .rgb, rawName := "RawU16", rawBpp := 16, rawStorageBits := 16, nbytes := 2,
        beLo := 0, beHi := 2, leLo := 0, leHi := 2, storageBits := 16, rbits := 5, gbits := 5, bbits := 5,
        rpos := 10, gpos := 5, bpos := 0 } = true), by decide⟩

/-- For a type without unused bits that is every raw value of the raw type. -/
theorem raw_colour_raw_full : ∀ s ∈ colorTable, s.usedBits = s.rawBpp → ∀ raw, raw < 2 ^ s.rawBpp →
    s.toRaw (s.fromRaw raw) = raw := by
  intro s hs hu raw hr
  exact raw_colour_raw_of_fits s hs raw (by rw [hu]; exact hr)
example : ∃ s ∈ colorTable, s.name = "Gray4" ∧ s.usedBits = s.rawBpp ∧ (9 : Nat) < 2 ^ s.rawBpp := by
  refine ⟨_, List.mem_of_elem_eq_true (by decide : colorTable.elem
      { name := "Gray4", kind := .gray, rawName := "RawU4", rawBpp := 4, rawStorageBits := 8, nbytes := 1,
        beLo := 0, beHi := 1, leLo := 0, leHi := 1, storageBits := 8, rbits := 0, gbits := 0, bbits := 0,
        rpos := 0, gpos := 0, bpos := 0 } = true), by decide⟩

/-- The colour made from a raw value depends on its used bits only ... -/
theorem colour_of_masked : ∀ s ∈ colorTable, ∀ raw, raw < 2 ^ s.rawBpp →
    s.fromRaw (raw % 2 ^ s.usedBits) = s.fromRaw raw := by
  intro s hs raw hr
  rw [← raw_colour_raw s hs raw hr]
  exact C12.raw_roundtrip s hs _ (C12.from_raw_valid s hs raw hr)

/-- ... and on nothing less: **two raw values give the same colour iff they agree on the used bits**
(for a type without unused bits: iff they are equal — raw -> colour is injective). -/
theorem same_colour_iff : ∀ s ∈ colorTable, ∀ a b, a < 2 ^ s.rawBpp → b < 2 ^ s.rawBpp →
    (s.fromRaw a = s.fromRaw b ↔ a % 2 ^ s.usedBits = b % 2 ^ s.usedBits) := by
  intro s hs a b ha hb
  constructor
  · intro h
    rw [← raw_colour_raw s hs a ha, ← raw_colour_raw s hs b hb, h]
  · intro h
    rw [← colour_of_masked s hs a ha, ← colour_of_masked s hs b hb, h]

theorem raw_to_colour_injective : ∀ s ∈ colorTable, s.usedBits = s.rawBpp →
    ∀ a b, a < 2 ^ s.rawBpp → b < 2 ^ s.rawBpp → s.fromRaw a = s.fromRaw b → a = b := by
  intro s hs hu a b ha hb h
  have := (same_colour_iff s hs a b ha hb).mp h
  rw [hu, Nat.mod_eq_of_lt ha, Nat.mod_eq_of_lt hb] at this
  exact this

/-- Witness of the masking: `Rgb555::from(RawU16::new(0xFFFF))` and `..(0x7FFF)` are the same colour,
whose raw value is `0x7FFF`. -/
theorem masked_witness : ∃ s ∈ colorTable, s.name = "Rgb555" ∧ s.fromRaw 0xFFFF = s.fromRaw 0x7FFF ∧
    s.toRaw (s.fromRaw 0xFFFF) = 0x7FFF :=
  ⟨_, List.mem_of_elem_eq_true (by decide : colorTable.elem
      { name := "Rgb555", kind := .rgb, rawName := "RawU16", rawBpp := 16, rawStorageBits := 16, nbytes := 2,
        beLo := 0, beHi := 2, leLo := 0, leHi := 2, storageBits := 16, rbits := 5, gbits := 5, bbits := 5,
        rpos := 10, gpos := 5, bpos := 0 } = true), by decide⟩

/-! ### on the image model -/

/-- A pixel of a well-formed raw image over a byte buffer is a raw value of the image's depth. -/
theorem pixel_fits (im : ImageRaw) (hw : im.WF) (hb : BytesOk im.data) (p : Pt) (raw : Nat)
    (h : im.pixel p = some raw) : raw < 2 ^ im.bits := by
  rw [pixel_eq_load im hw] at h
  split at h
  · exact load_lt hw.bits im.order hb h
  · cases h
example : exIm.WF ∧ BytesOk exIm.data ∧ exIm.pixel ⟨8, 1⟩ = some 1 := ⟨exIm_wf, by unfold BytesOk; decide, by decide⟩

/-- **The colour `ImageRaw<C>::pixel` returns**, for every built-in colour type `C` (`s`) whose raw
type has the image's depth: it is a value of the type, its raw value is the model's pixel with the
unused bits cleared, and the model's pixel itself whenever that fits the used bits (always, for a type
without unused bits). -/
theorem image_pixel_colour : ∀ s ∈ colorTable, ∀ (im : ImageRaw), im.WF → BytesOk im.data →
    im.bits = s.rawBpp → ∀ p raw, im.pixel p = some raw →
      s.Valid (s.fromRaw raw) ∧ s.toRaw (s.fromRaw raw) = raw % 2 ^ s.usedBits ∧
      (raw < 2 ^ s.usedBits → s.toRaw (s.fromRaw raw) = raw) ∧
      (s.usedBits = s.rawBpp → s.toRaw (s.fromRaw raw) = raw) := by
  intro s hs im hw hb hbits p raw h
  have hr : raw < 2 ^ s.rawBpp := by rw [← hbits]; exact pixel_fits im hw hb p raw h
  exact ⟨C12.from_raw_valid s hs raw hr, raw_colour_raw s hs raw hr,
    raw_colour_raw_of_fits s hs raw, fun hu => raw_colour_raw_full s hs hu raw hr⟩
example : ∃ s ∈ colorTable, s.name = "BinaryColor" ∧ exIm.bits = s.rawBpp :=
  ⟨_, List.mem_of_elem_eq_true (by decide : colorTable.elem
      { name := "BinaryColor", kind := .binary, rawName := "RawU1", rawBpp := 1, rawStorageBits := 8, nbytes := 1,
        beLo := 0, beHi := 1, leLo := 0, leHi := 1, storageBits := 8, rbits := 0, gbits := 0, bbits := 0,
        rpos := 0, gpos := 0, bpos := 0 } = true), by decide⟩

-- [V] that the real `ImageRaw<C>::pixel` / `ContiguousPixels` apply exactly `C::from(raw)` to the raw value the iterator yields (Rust-level: `.map(|r| r.into())`, one call, no other processing) and that `From<Raw>` / `Into<Raw>` of each type are the bodies C12 models (C12's tie: regenerated table + correspondence stream): carried by correspondence + oracle only
end EG.C09.Colours
