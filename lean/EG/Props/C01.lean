/-
  C01 — property theorems (placeholder: no theorem yet, the property is not claimed).
-/
import EG.Basic.Core
namespace EG.C01
end EG.C01
