/-
  C01 — root file; the property theorems are in lean/EG/Props/C01/*.lean (DefaultEqNative, Scanline, Rectangle,
  Circle/Ellipse via Scanline, RoundedRect, Image, Arc, Line, Polyline, Triangle), each built as its own module by ./check C01.
-/
import EG.Basic.Core
namespace EG.C01
end EG.C01
