/-
  C15 — property theorems (placeholder: no theorem yet, the property is not claimed).
-/
import EG.Basic.Core
namespace EG.C15
end EG.C15
