/-
  C15 — text layout: "draw returns the position that measure_string predicts, so drawing s1 and then s2
  at the returned position equals drawing s1 + s2 for fonts without spacing. Alignment places each line
  so that its box starts at (Left), ends at (Right) or is centred within half a pixel on (Center) the x
  position, the baseline setting shifts the first line by the documented offset, text containing \n equals
  drawing its lines separately line_height apart, and \r\n behaves exactly like \n." (properties.jsonl)

  Property theorems only (helper lemmas: EG/Lemmas/TextLayout*.lean). Statements are about the models
  `EG.Model.TextLayout` (src/text/{text,mod,text_style}.rs, `measure_string` of
  src/mono_font/mono_text_style.rs, as they are after the `fix:` commits for #10 and #13) and
  `EG.Model.Font` (`draw_string`), tied to the real code by the `text.*` streams.

  All theorems are [P]: every font record (any metrics, any spacing unless stated), every string, every
  position, every style. Characters are code points; `\n` = 10, `\r` = 13.

  -- [V] drawn extent of a line when NOT both a text and a background colour are set (glyph bitmaps may leave columns of the line box empty; with a background colour only the 'on' pixels stay untouched): there the alignment theorems are about the line box `measure_string` reports and `draw_string` is given, not about painted columns. With a text and a background colour the painted columns ARE the columns of that box: proved in Props/C15/DrawnExtent.lean (`line_box_fully_painted`, `drawn_columns_eq_measured_box`), the case the oracle checks
  -- [V] `i32` overflow of positions (`y += line_height`, `x + width`) is not modelled (C08): carried by correspondence + oracle only
  -- [V] observation outside the quantifier (custom font with spacing > 0, neither text nor background colour): `draw_string` returns one trailing spacing more than `measure_string` (`draw_next_transparent_with_spacing`, witness in corpus/C15.ops): the model follows the code; the oracle accepts both this value and the one `measure_string` predicts; not a claim of the property
-/
import EG.Lemmas.TextLayoutChain
import EG.Lemmas.TextLayoutCrlf
namespace EG.C15
open EG EG.Font EG.TextLayout

/-! ### 1. `draw` returns the position `measure_string` predicts -/

/-- `draw_string` returns `measure_string(..).next_position`: for ANY character spacing when a text or a
background colour is set (the glyph loop advances cell by cell), and for fonts without spacing — all
built-in fonts — (or an empty text) when neither is set. -/
theorem draw_next_eq_measure (f : MonoFont) (atlas : Pt → Bool) (st : Style) (text : List Nat) (p : Pt)
    (bl : Baseline)
    (h : st.textColor ≠ none ∨ st.bgColor ≠ none ∨ f.spacing = 0 ∨ text = []) :
    (f.drawString atlas st text p bl).2 = (measureString f st text p bl).next := by
  rw [drawString_next, measureString_next,
    drawAdvance_eq_bbWidth f st text.length (by
      rcases h with h | h | h | h
      · exact Or.inl h
      · exact Or.inr (Or.inl h)
      · exact Or.inr (Or.inr (Or.inl h))
      · exact Or.inr (Or.inr (Or.inr (by simp [h]))))]

example : (⟨none, some 3, .none, .none⟩ : Style).textColor ≠ none ∨ (⟨none, some 3, .none, .none⟩ : Style).bgColor ≠ none
    ∨ (2 : Nat) = 0 ∨ [65, 66] = ([] : List Nat) := by decide

/-- The remaining case, exactly: neither text nor background colour, at least one character — the
returned position is `spacing` further right than `measure_string` predicts (the `(None, None)` arm
multiplies `cw + spacing` by the character count without taking the trailing spacing off). For built-in
fonts `spacing = 0`, so this is `draw_next_eq_measure` again; for a custom font with spacing it is the
recorded observation. -/
theorem draw_next_transparent_with_spacing (f : MonoFont) (atlas : Pt → Bool) (st : Style) (text : List Nat)
    (p : Pt) (bl : Baseline) (htc : st.textColor = none) (hbg : st.bgColor = none) (hne : text ≠ []) :
    (f.drawString atlas st text p bl).2 =
      ⟨(measureString f st text p bl).next.x + (f.spacing : Int), (measureString f st text p bl).next.y⟩ := by
  have hn : 0 < text.length := List.length_pos_iff.mpr hne
  rw [drawString_next, measureString_next, drawAdvance_transparent f st text.length htc hbg hn, Pt.ext_iff']
  refine ⟨?_, rfl⟩
  simp only [Int.natCast_add]
  omega

/-- Witness of the observation (font 5x7, spacing 1, "AB", decorations only): returns x = 12, predicted 11. -/
example : ((⟨80, 42, 5, 7, 1, 5, 8, 1, 3, 1, fun _ => 0⟩ : MonoFont).drawString (fun _ => false)
      ⟨none, none, .custom 9, .none⟩ [65, 66] ⟨0, 0⟩ .top).2 = ⟨12, 0⟩ ∧
    (measureString (⟨80, 42, 5, 7, 1, 5, 8, 1, 3, 1, fun _ => 0⟩ : MonoFont)
      ⟨none, none, .custom 9, .none⟩ [65, 66] ⟨0, 0⟩ .top).next = ⟨11, 0⟩ := by decide

/-- `Text::draw` returns what `draw_string` returned for the LAST line (there always is one), hence —
with `draw_next_eq_measure` — `measure_string(last line, its position).next_position`. -/
theorem text_draw_returns_last_line (f : MonoFont) (atlas : Pt → Bool) (t : Text) :
    ∃ lp, (lines f t).getLast? = some lp ∧
      (draw f atlas t).2 = (f.drawString atlas t.style lp.1 lp.2 t.ts.baseline).2 := by
  have hne := lines_ne_nil f t
  cases h : (lines f t).getLast? with
  | none => exact absurd (List.getLast?_eq_none_iff.mp h) hne
  | some lp =>
    refine ⟨lp, rfl, ?_⟩
    unfold draw
    rw [drawLines_next, h]

theorem text_draw_next_eq_measure (f : MonoFont) (atlas : Pt → Bool) (t : Text)
    (h : t.style.textColor ≠ none ∨ t.style.bgColor ≠ none ∨ f.spacing = 0) :
    ∃ lp, (lines f t).getLast? = some lp ∧
      (draw f atlas t).2 = (measureString f t.style lp.1 lp.2 t.ts.baseline).next := by
  obtain ⟨lp, h1, h2⟩ := text_draw_returns_last_line f atlas t
  refine ⟨lp, h1, ?_⟩
  rw [h2]
  exact draw_next_eq_measure f atlas t.style lp.1 lp.2 t.ts.baseline (by
    rcases h with h | h | h
    · exact Or.inl h
    · exact Or.inr (Or.inl h)
    · exact Or.inr (Or.inr (Or.inl h)))

/-! ### 2. Chaining (fonts without spacing)

The property's claim — the PICTURE of `s1` followed by `s2` at the returned position equals the picture of
`s1 ++ s2` — is proved as equality of pixel maps in `EG/Props/C15/ChainPicture.lean`
(`ChainPicture.chaining_picture`, `chaining_picture_default`, `chaining_picture_maps` for `draw_string`;
`chaining_text_picture` for `Text::draw`, one left-aligned line). The theorems of this section are its
ingredients at the level of returned positions and call lists; none of them alone is the picture claim. -/

/-- Returned positions chain: `draw_string(s1 ++ s2, p)` returns what drawing `s2` at the position
returned for `s1` returns. -/
theorem chaining_next (f : MonoFont) (h : f.spacing = 0) (atlas : Pt → Bool) (st : Style) (s1 s2 : List Nat)
    (p : Pt) (bl : Baseline) :
    (f.drawString atlas st (s1 ++ s2) p bl).2 =
      (f.drawString atlas st s2 (f.drawString atlas st s1 p bl).2 bl).2 :=
  drawString_next_append f h atlas st s1 s2 p bl

example : (⟨64, 36, 4, 6, 0, 4, 6, 1, 3, 1, fun _ => 0⟩ : MonoFont).spacing = 0 := rfl

/-- The glyph cells coincide: the calls `draw_string_binary` makes for `s1 ++ s2` (one `fill_contiguous`
per character: which atlas cell, into which target cell) are those for `s1` followed by those for `s2`
started at the position returned for `s1`. -/
theorem chaining_cells (f : MonoFont) (h : f.spacing = 0) (atlas : Pt → Bool) (hasBg : Bool) (s1 s2 : List Nat)
    (p : Pt) :
    (f.drawStringBinary atlas hasBg (s1 ++ s2) p).1 =
      (f.drawStringBinary atlas hasBg s1 p).1 ++
        (f.drawStringBinary atlas hasBg s2 (f.drawStringBinary atlas hasBg s1 p).2).1 := by
  simp only [drawStringBinary_closed, binCalls_append f h]

/-- The decoration rectangle (underline or strikethrough) over the whole width covers exactly the
pixels of the rectangle over `s1` and the rectangle over `s2` started at the returned position.
(A fact about `decoRect` alone; `ChainPicture.chaining_decoration_picture` turns it into pixel maps and
`ChainPicture.chaining_picture` applies it to the decorations `drawString` really draws.) -/
theorem chaining_decorations (off hgt : Nat) (p : Pt) (w1 w2 : Nat) (q : Pt) :
    (decoRect off hgt p (w1 + w2)).contains q = true ↔
      (decoRect off hgt p w1).contains q = true ∨ (decoRect off hgt ⟨p.x + (w1 : Int), p.y⟩ w2).contains q = true :=
  decoRect_split off hgt p w1 w2 q

/-- `Text` level, one line, left aligned: drawing `Text(s1)` and then `Text(s2)` at the returned
position returns what `Text(s1 ++ s2)` returns. (`s1` must not end in `\r`: a trailing `\r` is stripped
only when it is last.) -/
theorem chaining_text (f : MonoFont) (h : f.spacing = 0) (atlas : Pt → Bool) (st : Style) (ts : TextStyle)
    (hal : ts.alignment = .left) (s1 s2 : List Nat) (p : Pt) (h1 : 10 ∉ s1) (h2 : 10 ∉ s2)
    (hcr : s1.getLast? ≠ some 13) :
    (draw f atlas ⟨s1 ++ s2, p, st, ts⟩).2 =
      (draw f atlas ⟨s2, (draw f atlas ⟨s1, p, st, ts⟩).2, st, ts⟩).2 := by
  have h12 : 10 ∉ s1 ++ s2 := by simp [h1, h2]
  rw [draw_single f atlas ⟨s1 ++ s2, p, st, ts⟩ h12, draw_single f atlas ⟨s2, _, st, ts⟩ h2,
    draw_single f atlas ⟨s1, p, st, ts⟩ h1]
  simp only [alignedPos_left f st ts _ _ hal, drawString_next, stripCR_append_length s1 s2 hcr,
    drawAdvance_add f h]
  rw [Pt.ext_iff']
  refine ⟨?_, rfl⟩
  simp only [Int.natCast_add]
  omega

example : (10 : Nat) ∉ [72, 105] ∧ ([72, 105] : List Nat).getLast? ≠ some 13 := by decide

/-- With a `\n` the continuation does NOT start at the returned position: the text after the `\n` starts at
the text's own x, one line height below (see `multiline_eq_lines`); chaining is a statement about one line. -/
theorem chaining_across_newline (f : MonoFont) (atlas : Pt → Bool) (s1 s2 : List Nat) (p : Pt) (st : Style)
    (ts : TextStyle) (h : 10 ∉ s1) :
    (draw f atlas ⟨s1 ++ 10 :: s2, p, st, ts⟩).2 =
      (draw f atlas ⟨s2, ⟨p.x, p.y + lineHeight f ts⟩, st, ts⟩).2 := by
  rw [draw_append_nl f atlas s1 s2 p st ts h]

/-! ### 3. Alignment -/

/-- The box of a line: what `measure_string` reports at the position `lines()` hands to `draw_string`. -/
def lineBox (f : MonoFont) (st : Style) (ts : TextStyle) (line : List Nat) (p : Pt) : Rect :=
  (measureString f st line (alignedPos f st ts line p) ts.baseline).bbox

/-- Left: the line box starts at the x position. -/
theorem align_left (f : MonoFont) (st : Style) (ts : TextStyle) (line : List Nat) (p : Pt)
    (h : ts.alignment = .left) : (lineBox f st ts line p).tl.x = p.x := by
  simp [lineBox, measureString_bbox, alignedPos_left f st ts line p h]

/-- Right: the line box ends at the x position — its last column is `x` (for an empty line the
zero-width box sits at `x + 1`, so the statement "one past the last column is `x + 1`" holds for every
line). -/
theorem align_right (f : MonoFont) (st : Style) (ts : TextStyle) (line : List Nat) (p : Pt)
    (h : ts.alignment = .right) :
    (lineBox f st ts line p).tl.x + ((lineBox f st ts line p).size.w : Int) - 1 = p.x := by
  simp only [lineBox, measureString_bbox, alignedPos_right_x f st ts line p h]
  omega

/-- Center: twice the distance between the centre of the line box (`left + (w - 1) / 2`, in pixel
centres) and the x position is 0 or 1 for a non-empty line (-1 for an empty one): within half a pixel;
an even width puts the centre half a pixel right of `x` (truncating division of `w - 1`). -/
theorem align_center (f : MonoFont) (st : Style) (ts : TextStyle) (line : List Nat) (p : Pt)
    (h : ts.alignment = .center) :
    let b := lineBox f st ts line p
    let twiceOff : Int := 2 * b.tl.x + ((b.size.w : Int) - 1) - 2 * p.x;
    (-1 : Int) ≤ twiceOff ∧ twiceOff ≤ 1 ∧ (0 < b.size.w → 0 ≤ twiceOff) := by
  simp only [lineBox, measureString_bbox, alignedPos_center_x f st ts line p h, tdiv2]
  split <;> omega

/-- Alignment never moves a line vertically, and the width of the line box is `n` cells + `n - 1` gaps. -/
theorem align_keeps_y_and_width (f : MonoFont) (st : Style) (ts : TextStyle) (line : List Nat) (p : Pt) :
    (alignedPos f st ts line p).y = p.y ∧ (lineBox f st ts line p).size.w = bbWidth f line.length :=
  ⟨alignedPos_y f st ts line p, rfl⟩

example : lineBox ⟨64, 36, 4, 6, 0, 4, 6, 1, 3, 1, fun _ => 0⟩ ⟨some 1, none, .none, .none⟩
    ⟨.right, .top, .percent 100⟩ [65, 66, 67] ⟨20, 5⟩ = ⟨⟨9, 5⟩, ⟨12, 6⟩⟩ := by decide
example : lineBox ⟨64, 36, 4, 6, 0, 4, 6, 1, 3, 1, fun _ => 0⟩ ⟨some 1, none, .none, .none⟩
    ⟨.center, .top, .percent 100⟩ [65, 66, 67] ⟨20, 5⟩ = ⟨⟨15, 5⟩, ⟨12, 6⟩⟩ := by decide

/-! ### 4. Baseline -/

/-- The top of every line box is the line's y position minus the baseline offset; `draw_string` draws
the glyph cells from exactly that row (C14's `drawString` model subtracts the same offset). -/
theorem baseline_shift (f : MonoFont) (st : Style) (ts : TextStyle) (line : List Nat) (p : Pt) :
    (lineBox f st ts line p).tl.y = p.y - f.baselineOffset ts.baseline := by
  simp [lineBox, measureString_bbox, alignedPos_y]

/-- The documented offsets: Top 0, Bottom `ch - 1`, Middle `(ch - 1) / 2`, Alphabetic `font.baseline`
(for metrics that fit `i32`, where `saturating_as` is the identity). -/
theorem baseline_offsets (f : MonoFont) (h : MetricsInRange f) :
    f.baselineOffset .top = 0 ∧ f.baselineOffset .bottom = ((f.ch - 1 : Nat) : Int) ∧
    f.baselineOffset .middle = (((f.ch - 1) / 2 : Nat) : Int) ∧ f.baselineOffset .alphabetic = (f.baseline : Int) :=
  ⟨baselineOffset_documented f h .top, baselineOffset_documented f h .bottom,
   baselineOffset_documented f h .middle, baselineOffset_documented f h .alphabetic⟩

example : MetricsInRange ⟨160, 120, 10, 20, 0, 15, 17, 1, 10, 1, fun _ => 0⟩ := by decide

/-- The first line of a text sits at the text's position: its box top is `y - offset`. -/
theorem first_line_baseline (f : MonoFont) (t : Text) :
    ∃ l p rest, lines f t = (l, p) :: rest ∧ p.y = t.position.y ∧
      (measureString f t.style l p t.ts.baseline).bbox.tl.y = t.position.y - f.baselineOffset t.ts.baseline := by
  unfold lines
  cases hs : splitNL t.text with
  | nil => exact absurd hs (splitNL_ne_nil _)
  | cons seg segs =>
    refine ⟨_, _, _, rfl, alignedPos_y _ _ _ _ _, ?_⟩
    simp [measureString_bbox, alignedPos_y]

/-! ### 5. Multi-line text -/

/-- `line_height`: `Pixels(p)` is `p`, `Percent(q)` is `ch * q / 100` (integer division), saturated to `i32`. -/
theorem line_height_value (f : MonoFont) (ts : TextStyle) :
    lineHeight f ts = satAsI32 (match ts.lineHeight with
      | .pixels px => px
      | .percent pc => f.ch * pc / 100) := by
  unfold lineHeight LineHeight.toAbsolute fontLineHeight
  cases ts.lineHeight <;> rfl

/-- The i-th line (segment between `\n`s, one trailing `\r` stripped) is laid out at
`(x, y + i * line_height)`, then aligned. -/
theorem lines_positions (f : MonoFont) (t : Text) :
    lines f t = (splitNL t.text).mapIdx (fun i seg =>
      (stripCR seg, alignedPos f t.style t.ts (stripCR seg)
        ⟨t.position.x, t.position.y + (i : Int) * lineHeight f t.ts⟩)) :=
  linesGo_eq_mapIdx f t.style t.ts _ _

/-- **A text containing `\n` = its lines drawn separately `line_height` apart**: the calls of `draw` are,
in order, the calls of drawing the i-th segment as a text of its own at `(x, y + i * line_height)` ... -/
theorem multiline_eq_lines (f : MonoFont) (atlas : Pt → Bool) (t : Text) :
    (draw f atlas t).1 = ((splitNL t.text).mapIdx (fun i seg =>
      (draw f atlas ⟨seg, ⟨t.position.x, t.position.y + (i : Int) * lineHeight f t.ts⟩, t.style, t.ts⟩).1)).flatten := by
  unfold draw
  rw [drawLines_calls]
  exact linesGo_calls_eq_segments f atlas t.style t.ts _ _ (splitNL_no_nl t.text)

/-- ... in recursive form, with the returned position: `seg ++ "\n" ++ rest` = `seg` at `p`, then `rest` at
`p + (0, line_height)`; the returned position is the one of the last part. -/
theorem multiline_step (f : MonoFont) (atlas : Pt → Bool) (seg rest : List Nat) (p : Pt) (st : Style)
    (ts : TextStyle) (h : 10 ∉ seg) :
    draw f atlas ⟨seg ++ 10 :: rest, p, st, ts⟩ =
      ((draw f atlas ⟨seg, p, st, ts⟩).1 ++ (draw f atlas ⟨rest, ⟨p.x, p.y + lineHeight f ts⟩, st, ts⟩).1,
       (draw f atlas ⟨rest, ⟨p.x, p.y + lineHeight f ts⟩, st, ts⟩).2) :=
  draw_append_nl f atlas seg rest p st ts h

example : (10 : Nat) ∉ [65, 66] := by decide
example : splitNL [65, 10, 10, 66, 67, 10] = [[65], [], [66, 67], []] := by decide

/-! ### 6. CR LF = LF -/

/-- Replacing every `\r\n` by `\n` changes neither the contents nor the positions of the lines — for
Left, Center and Right alignment (the `\r` is stripped before the line is measured) — provided the text
contains no `\r\r\n` (there the replacement would make the preceding `\r` part of a new `\r\n`; the real
code treats `a\r\r\n` as the line `a\r` ended by CR LF, see `crlf_needs_no_crcrlf`). -/
theorem crlf_eq_lf (f : MonoFont) (t : Text) (h : hasCRCRLF t.text = false) :
    lines f { t with text := crlfToLf t.text } = lines f t :=
  lines_crlfToLf f t h

/-- Hence the calls on the target (the picture), the returned position and the bounding box agree. -/
theorem crlf_eq_lf_draw (f : MonoFont) (atlas : Pt → Bool) (t : Text) (h : hasCRCRLF t.text = false) :
    draw f atlas { t with text := crlfToLf t.text } = draw f atlas t ∧
    boundingBox f { t with text := crlfToLf t.text } = boundingBox f t := by
  unfold draw boundingBox
  rw [lines_crlfToLf f t h]
  exact ⟨rfl, rfl⟩

example : hasCRCRLF [65, 66, 13, 10, 67, 13, 10, 13, 10, 68, 13] = false := by decide
example : crlfToLf [65, 66, 13, 10, 67, 13, 10, 13, 10, 68, 13] = [65, 66, 10, 67, 10, 10, 68, 13] := by decide

/-- Terminator form: a text written as line contents, each ended by LF or by CR LF (`true`), then a last
line — whichever terminators are chosen, the lines (contents and positions, every alignment) are those of
the text with LF everywhere. Contents contain no `\n` and do not end in `\r` (so the text reads
unambiguously); nothing else is assumed. -/
theorem crlf_terminator_eq_lf (f : MonoFont) (L : List (List Nat × Bool)) (last : List Nat) (p : Pt)
    (st : Style) (ts : TextStyle) (h : ∀ lc ∈ L, 10 ∉ lc.1 ∧ lc.1.getLast? ≠ some 13) (hl : 10 ∉ last) :
    lines f ⟨joinLines L last, p, st, ts⟩ =
      lines f ⟨joinLines (L.map (fun lc => (lc.1, false))) last, p, st, ts⟩ :=
  lines_joinLines f L last p st ts h hl

example : joinLines [([65, 66], true), ([], true), ([67], false)] [68] = [65, 66, 13, 10, 13, 10, 67, 10, 68] := by
  decide

/-- For every text (no hypothesis): splitting after the replacement = splitting, then stripping one `\r`
from every segment that a `\n` ended. -/
theorem crlf_split (t : List Nat) : splitNL (crlfToLf t) = stripAllButLast (splitNL t) :=
  splitNL_crlfToLf t

/-- The hypothesis of `crlf_eq_lf` is needed: `"A\r\r\n"` has the line `A\r`, `"A\r\n"` the line `A`. -/
theorem crlf_needs_no_crcrlf :
    lines ⟨64, 36, 4, 6, 0, 4, 6, 1, 3, 1, fun _ => 0⟩ ⟨crlfToLf [65, 13, 13, 10], ⟨0, 0⟩, ⟨some 1, none, .none, .none⟩, TextStyle.default⟩ ≠
    lines ⟨64, 36, 4, 6, 0, 4, 6, 1, 3, 1, fun _ => 0⟩ ⟨[65, 13, 13, 10], ⟨0, 0⟩, ⟨some 1, none, .none, .none⟩, TextStyle.default⟩ := by
  decide

end EG.C15
