/-
  C13 — the REGENERATED bodies of the colour conversions equal the hand-written model.

  `EG/Generated/ColorSrc.lean` is written by `tools/tr_colorsrc.py` from the Rust text of
  core/src/pixelcolor/conversion.rs on every run of a check: `convert_channel` (fixed-point reciprocal, `SHIFT`,
  `CONST_0_5`, the `if TO_MAX != FROM_MAX` arm), `luma` (BT.601 weights, the division) and ONE function per
  conversion macro body (`impl_rgb_conversion!`, `impl_gray_conversion!`, both impls of `impl_rgb_to_and_from_gray!`,
  `impl_from_binary!` once per class of target, `impl_gray_to_binary!`, `impl_rgb_to_binary!`, `with_rgb888`),
  symbolic in the macro's type parameters (`ColorSpec` arguments), on top of the regenerated colour types
  (C12 `Generated.lean`). Every Rust primitive is a function of the trusted prelude `EG/Model/ColorSrcPrelude.lean`,
  where `u32` / `u16` arithmetic WRAPS modulo 2^32 / 2^16.

  This file proves each generated definition equal to the hand-written function of `EG/Model/Conv.lean`
  (`*_src_eq_model`), the whole dispatch (`apply_src_eq_model`: all 182 conversions of the generated table), and
  restates C13's headline theorems about the generated functions (`src_*`). Where model and source differ:
  * `convert_channel`: the model multiplies mathematically, the source in wrapping `u32`. They are EQUAL for all
    `u8` arguments and all `u8` maxima (`convert_channel_src_eq_model`; guard `IsU8`, the type bound `Nat` lacks):
    the result only keeps bits 24..31 of the sum, which a wrap modulo 2^32 does not touch. For `value <= FROM_MAX`
    nothing wraps at all (`convert_channel_src_no_wrap`: also a debug build computes the model's value). ABOVE
    `FROM_MAX` the product can exceed `u32` (`convert_channel_src_wraps_above_from_max`: 255 * ((255 << 24) / 3)):
    a debug build panics there, a release build returns the model's (meaningless, out of range) value. No caller
    reaches it: `r() g() b()` are masked with `MAX_*`, `luma()` is below `2^BITS_PER_PIXEL`, and `with_rgb888` has
    `FROM_MAX = 255`. `FROM_MAX = 0` (division by zero: a panic) does not occur: `maxima_pos`.
  * `luma`: `u16` arithmetic never wraps for `u8` channels (`luma_src_no_wrap`); equal for all colours.
  * gray sources: the bodies are equal for `luma() < 256` (`IsU8`; a gray value is below `2^BITS_PER_PIXEL`).
-/
import EG.Props.C12.Generated
import EG.Props.C13
namespace EG.C13.Src
open EG EG.Generated EG.ColorSpec EG.Conv EG.ColorSrcPrelude EG.C12.Src

/-- the `u8` type bound (not carried by `Nat`) -/
def IsU8 (v : Nat) : Prop := v < 256
instance (v : Nat) : Decidable (IsU8 v) := by unfold IsU8; exact inferInstance
example : IsU8 255 ∧ ¬ IsU8 256 := by decide

/-! ### `convert_channel` -/

/-- for ALL `u8` maxima and ALL `u8` values (also above `FROM_MAX`, also `FROM_MAX = 0` where both divide the `Nat` way) -/
theorem convert_channel_src_eq_model (F T v : Nat) (hF : IsU8 F) (hT : IsU8 T) (hv : IsU8 v) :
    ColorSrc.convert_channel F T v = convertChannel F T v := by
  unfold IsU8 at hF hT hv
  unfold ColorSrc.convert_channel convertChannel
  color_simp [ccShift, Nat.shiftLeft_eq, Nat.one_mul, decide_eq_true_eq, Nat.shiftRight_eq_div_pow]
  have h1 : T % 2 ^ 32 = T := Nat.mod_eq_of_lt (by omega)
  have h2 : F % 2 ^ 32 = F := Nat.mod_eq_of_lt (by omega)
  have h3 : v % 2 ^ 32 = v := Nat.mod_eq_of_lt (by omega)
  have h4 : (24 + 2 ^ 64 - 1) % 2 ^ 64 = 23 := by decide
  have h5 : T * 2 ^ 24 % 2 ^ 32 = T * 2 ^ 24 := Nat.mod_eq_of_lt (by omega)
  simp only [h1, h2, h3, h4, h5]
  generalize v * (T * 2 ^ 24 / F) = a
  by_cases h : T = F
  · simp [h]
  · simp only [h, ne_eq, not_false_eq_true, ↓reduceIte]
    omega

example : IsU8 31 ∧ IsU8 255 ∧ IsU8 17 ∧ ColorSrc.convert_channel 31 255 17 = 140 := by decide

/-- `value <= FROM_MAX`: no `u32` operation of the body wraps (a debug build does not panic and computes the same) -/
theorem convert_channel_src_no_wrap (F T v : Nat) (hF0 : 0 < F) (hF : IsU8 F) (hT : IsU8 T) (hv : v ≤ F) :
    int_shl 32 (int_as 32 T) 24 = T <<< 24
    ∧ int_mul 32 (int_as 32 v) (int_div (T <<< 24) (int_as 32 F)) = v * ((T <<< 24) / F)
    ∧ int_add 32 (v * ((T <<< 24) / F)) (int_shl 32 1 23) = v * ((T <<< 24) / F) + 2 ^ 23 := by
  unfold IsU8 at hF hT
  color_simp [Nat.shiftLeft_eq, Nat.one_mul]
  have h1 : T % 2 ^ 32 = T := Nat.mod_eq_of_lt (by omega)
  have h2 : F % 2 ^ 32 = F := Nat.mod_eq_of_lt (by omega)
  have h3 : v % 2 ^ 32 = v := Nat.mod_eq_of_lt (by omega)
  have h5 : T * 2 ^ 24 % 2 ^ 32 = T * 2 ^ 24 := Nat.mod_eq_of_lt (by omega)
  have hq : v * (T * 2 ^ 24 / F) ≤ T * 2 ^ 24 :=
    Nat.le_trans (Nat.mul_le_mul_right _ hv) (Nat.mul_div_le _ _)
  simp only [h1, h2, h3, h5]
  refine ⟨trivial, Nat.mod_eq_of_lt (by omega), ?_⟩
  have h6 : (2 : Nat) ^ 23 % 2 ^ 32 = 2 ^ 23 := by decide
  rw [h6]
  exact Nat.mod_eq_of_lt (by omega)

example : (0 : Nat) < 31 ∧ IsU8 31 ∧ IsU8 255 ∧ (17 : Nat) ≤ 31 := by decide

/-- above `FROM_MAX` the `u32` product of the body can wrap (`FROM_MAX = 3`, `TO_MAX = 255`, `value = 255`) -/
theorem convert_channel_src_wraps_above_from_max :
    int_mul 32 (int_as 32 255) (int_div (int_shl 32 (int_as 32 255) 24) (int_as 32 3)) ≠ 255 * ((255 <<< 24) / 3) := by
  decide

/-- no maximum of the table is zero or exceeds `u8` -/
theorem maxima_pos : ∀ F ∈ chanMaxima, 0 < F ∧ IsU8 F := by decide +kernel

/-! ### the constants and colour constants the bodies use -/

theorem gray_consts_src_eq_model : ∀ s ∈ colorTable, s.kind = .gray →
    ColorSrc.gray_color_MAX_LUMA s = maxLuma s ∧ ColorSrc.gray_color_GRAY_50 s = gray50 s
    ∧ ColorSrc.gray_color_BLACK s = black s ∧ ColorSrc.gray_color_WHITE s = white s := by decide +kernel

theorem rgb_consts_src_eq_model : ∀ s ∈ colorTable, s.isRgb = true →
    ColorSrc.impl_rgb_color_BLACK s = black s ∧ ColorSrc.impl_rgb_color_WHITE s = white s := by decide +kernel

/-- the types the bodies name are the ones the hand model resolves -/
theorem named_types : findSpec lumaVia = some ColorSrc.T_Rgb888 ∧ findSpec grayVia = some ColorSrc.T_Gray8
    ∧ ColorSrc.T_Rgb888 ∈ colorTable ∧ ColorSrc.T_Rgb888.isRgb = true
    ∧ ColorSrc.T_Gray8 ∈ colorTable ∧ ColorSrc.T_Gray8.kind = .gray ∧ ColorSrc.T_Gray8.rawMask = 255
    ∧ ColorSrc.impl_rgb_color_MAX_R ColorSrc.T_Rgb888 = 255 ∧ ColorSrc.impl_rgb_color_MAX_G ColorSrc.T_Rgb888 = 255
    ∧ ColorSrc.impl_rgb_color_MAX_B ColorSrc.T_Rgb888 = 255 := by decide +kernel

theorem chanR_u8 (s : ColorSpec) (c : Nat) : IsU8 (s.chanR c) := by
  unfold IsU8 ColorSpec.chanR
  exact Nat.lt_of_le_of_lt Nat.and_le_left (Nat.mod_lt _ (by decide))
theorem chanG_u8 (s : ColorSpec) (c : Nat) : IsU8 (s.chanG c) := by
  unfold IsU8 ColorSpec.chanG
  exact Nat.lt_of_le_of_lt Nat.and_le_left (Nat.mod_lt _ (by decide))
theorem chanB_u8 (s : ColorSpec) (c : Nat) : IsU8 (s.chanB c) := by
  unfold IsU8 ColorSpec.chanB
  exact Nat.lt_of_le_of_lt Nat.and_le_left (Nat.mod_lt _ (by decide))
theorem maxChan_u8 (b : Nat) : IsU8 (maxChan b) := by
  unfold IsU8 maxChan
  exact Nat.mod_lt _ (by decide)
theorem maxR_u8 (s : ColorSpec) : IsU8 s.maxR := maxChan_u8 _
theorem maxG_u8 (s : ColorSpec) : IsU8 s.maxG := maxChan_u8 _
theorem maxB_u8 (s : ColorSpec) : IsU8 s.maxB := maxChan_u8 _
theorem maxLuma_u8 : ∀ s ∈ colorTable, s.kind = .gray → IsU8 (maxLuma s) := by decide +kernel

/-! ### `luma` -/

/-- the `u16` arithmetic of `luma` never wraps for `u8` channels -/
theorem luma_src_no_wrap (r g b : Nat) (hr : IsU8 r) (hg : IsU8 g) (hb : IsU8 b) :
    int_add 16 (int_add 16 (int_add 16 (int_mul 16 r 77) (int_mul 16 g 150)) (int_mul 16 b 29)) 128
      = r * 77 + g * 150 + b * 29 + 128 := by
  unfold IsU8 at hr hg hb
  color_simp []
  have h1 : r * 77 % 2 ^ 16 = r * 77 := Nat.mod_eq_of_lt (by omega)
  have h2 : g * 150 % 2 ^ 16 = g * 150 := Nat.mod_eq_of_lt (by omega)
  have h3 : b * 29 % 2 ^ 16 = b * 29 := Nat.mod_eq_of_lt (by omega)
  have h4 : (r * 77 + g * 150) % 2 ^ 16 = r * 77 + g * 150 := Nat.mod_eq_of_lt (by omega)
  have h5 : (r * 77 + g * 150 + b * 29) % 2 ^ 16 = r * 77 + g * 150 + b * 29 := Nat.mod_eq_of_lt (by omega)
  rw [h1, h2, h3, h4, h5]
  exact Nat.mod_eq_of_lt (by omega)

theorem luma_src_eq_model (c : Nat) : ColorSrc.luma c = lumaOf ColorSrc.T_Rgb888 c := by
  obtain ⟨_, _, hm, hk, _⟩ := named_types
  unfold ColorSrc.luma lumaOf
  rw [r_src_eq_model _ hm hk, g_src_eq_model _ hm hk, b_src_eq_model _ hm hk]
  have hr := chanR_u8 ColorSrc.T_Rgb888 c
  have hg := chanG_u8 ColorSrc.T_Rgb888 c
  have hb := chanB_u8 ColorSrc.T_Rgb888 c
  simp only [int_from]
  rw [luma_src_no_wrap _ _ _ hr hg hb]
  simp only [int_as, int_div, lumaWR, lumaWG, lumaWB, lumaRound, lumaDiv]

example : IsU8 255 ∧ ColorSrc.luma 0xFFFFFF = 255 ∧ ColorSrc.luma 0x00FF00 = 149 := by decide +kernel

/-! ### one theorem per macro body -/

theorem impl_rgb_conversion_src_eq_model : ∀ a ∈ colorTable, ∀ b ∈ colorTable, a.isRgb = true → b.isRgb = true →
    ∀ c, ColorSrc.impl_rgb_conversion_From_from_type_for_to_type a b c = rgbToRgb a b c := by
  intro a ha b hb ka kb c
  obtain ⟨aR, aG, aB⟩ := max_src_eq_model a ha ka
  obtain ⟨bR, bG, bB⟩ := max_src_eq_model b hb kb
  unfold ColorSrc.impl_rgb_conversion_From_from_type_for_to_type rgbToRgb
  rw [new_src_eq_model b hb kb, aR, aG, aB, bR, bG, bB, r_src_eq_model a ha ka, g_src_eq_model a ha ka,
    b_src_eq_model a ha ka,
    convert_channel_src_eq_model _ _ _ (maxR_u8 _) (maxR_u8 _) (chanR_u8 a c),
    convert_channel_src_eq_model _ _ _ (maxG_u8 _) (maxG_u8 _) (chanG_u8 a c),
    convert_channel_src_eq_model _ _ _ (maxB_u8 _) (maxB_u8 _) (chanB_u8 a c)]

/-- `with_rgb888(r, g, b)`: every channel scaled from 255 -/
theorem with_rgb888_src_eq_model : ∀ s ∈ colorTable, s.isRgb = true → ∀ r g b, IsU8 r → IsU8 g → IsU8 b →
    ColorSrc.impl_rgb_conversion_with_rgb888 s r g b
      = s.rgbNew (convertChannel 255 s.maxR r) (convertChannel 255 s.maxG g) (convertChannel 255 s.maxB b) := by
  intro s hs hk r g b hr hg hb
  obtain ⟨sR, sG, sB⟩ := max_src_eq_model s hs hk
  obtain ⟨_, _, _, _, _, _, _, m1, m2, m3⟩ := named_types
  unfold ColorSrc.impl_rgb_conversion_with_rgb888
  rw [new_src_eq_model s hs hk, sR, sG, sB, m1, m2, m3,
    convert_channel_src_eq_model _ _ _ (by decide) (maxR_u8 _) hr,
    convert_channel_src_eq_model _ _ _ (by decide) (maxG_u8 _) hg,
    convert_channel_src_eq_model _ _ _ (by decide) (maxB_u8 _) hb]

example : IsU8 255 ∧ IsU8 128 ∧ IsU8 0 := by decide

theorem impl_gray_conversion_src_eq_model : ∀ a ∈ colorTable, ∀ b ∈ colorTable, a.kind = .gray → b.kind = .gray →
    ∀ c, IsU8 c → ColorSrc.impl_gray_conversion_From_from_type_for_to_type a b c = grayToGray a b c := by
  intro a ha b hb ka kb c hc
  unfold ColorSrc.impl_gray_conversion_From_from_type_for_to_type grayToGray
  rw [(gray_consts_src_eq_model a ha ka).1, (gray_consts_src_eq_model b hb kb).1, gray_new_src_eq_model,
    gray_luma_src_eq_model]
  simp only [ColorSpec.luma]
  rw [convert_channel_src_eq_model _ _ _ (maxLuma_u8 a ha ka) (maxLuma_u8 b hb kb) hc]

theorem impl_gray_to_rgb_src_eq_model : ∀ a ∈ colorTable, ∀ b ∈ colorTable, a.kind = .gray → b.isRgb = true →
    ∀ c, IsU8 c → ColorSrc.impl_rgb_to_and_from_gray_From_gray_type_for_rgb_type a b c = grayToRgb a b c := by
  intro a ha b hb ka kb c hc
  obtain ⟨bR, bG, bB⟩ := max_src_eq_model b hb kb
  unfold ColorSrc.impl_rgb_to_and_from_gray_From_gray_type_for_rgb_type grayToRgb
  rw [new_src_eq_model b hb kb, (gray_consts_src_eq_model a ha ka).1, bR, bG, bB, gray_luma_src_eq_model]
  simp only [ColorSpec.luma]
  rw [convert_channel_src_eq_model _ _ _ (maxLuma_u8 a ha ka) (maxR_u8 _) hc,
    convert_channel_src_eq_model _ _ _ (maxLuma_u8 a ha ka) (maxG_u8 _) hc,
    convert_channel_src_eq_model _ _ _ (maxLuma_u8 a ha ka) (maxB_u8 _) hc]

/-- `luma(Rgb888::from(color))` -/
theorem rgb_luma_src_eq_model : ∀ a ∈ colorTable, a.isRgb = true → ∀ c,
    ColorSrc.luma (ColorSrc.From_rgb_for_rgb a ColorSrc.T_Rgb888 c) = rgbLuma a ColorSrc.T_Rgb888 c := by
  intro a ha ka c
  obtain ⟨_, _, hm, hk, _⟩ := named_types
  unfold rgbLuma toVia ColorSrc.From_rgb_for_rgb
  rw [luma_src_eq_model, impl_rgb_conversion_src_eq_model a ha _ hm ka hk]

theorem impl_rgb_to_gray_src_eq_model : ∀ a ∈ colorTable, ∀ b ∈ colorTable, a.isRgb = true → b.kind = .gray →
    ∀ c, ColorSrc.impl_rgb_to_and_from_gray_From_rgb_type_for_gray_type b a c
      = rgbToGray a ColorSrc.T_Rgb888 ColorSrc.T_Gray8 b c := by
  intro a ha b hb ka kb c
  obtain ⟨_, _, _, _, hg, hgk, hmask, _⟩ := named_types
  unfold ColorSrc.impl_rgb_to_and_from_gray_From_rgb_type_for_gray_type rgbToGray ColorSrc.From_gray_for_gray
  rw [rgb_luma_src_eq_model a ha ka]
  dsimp only
  rw [gray_new_src_eq_model]
  have hu : IsU8 (ColorSrc.T_Gray8.grayNew (rgbLuma a ColorSrc.T_Rgb888 c)) := by
    unfold IsU8 ColorSpec.grayNew ColorSpec.rawNew
    rw [hmask]
    exact Nat.lt_of_le_of_lt Nat.and_le_right (by decide)
  rw [impl_gray_conversion_src_eq_model _ hg b hb hgk kb _ hu]
  simp only [same_type, BEq.comm (a := ColorSrc.T_Gray8.name)]

theorem impl_from_binary_rgb_src_eq_model : ∀ b ∈ colorTable, b.isRgb = true → ∀ c,
    ColorSrc.impl_from_binary_From_BinaryColor_for_type_rgb b c = fromBinary b c := by
  intro b hb kb c
  unfold ColorSrc.impl_from_binary_From_BinaryColor_for_type_rgb ColorSrc.BinaryColor_map_color fromBinary
  rw [(rgb_consts_src_eq_model b hb kb).1, (rgb_consts_src_eq_model b hb kb).2]
  color_simp [decide_eq_true_eq]

theorem impl_from_binary_gray_src_eq_model : ∀ b ∈ colorTable, b.kind = .gray → ∀ c,
    ColorSrc.impl_from_binary_From_BinaryColor_for_type_gray b c = fromBinary b c := by
  intro b hb kb c
  unfold ColorSrc.impl_from_binary_From_BinaryColor_for_type_gray ColorSrc.BinaryColor_map_color fromBinary
  rw [(gray_consts_src_eq_model b hb kb).2.2.1, (gray_consts_src_eq_model b hb kb).2.2.2]
  color_simp [decide_eq_true_eq]

theorem impl_gray_to_binary_src_eq_model : ∀ a ∈ colorTable, a.kind = .gray → ∀ c,
    ColorSrc.impl_gray_to_binary_From_type_for_BinaryColor a c = grayToBinary a c := by
  intro a ha ka c
  unfold ColorSrc.impl_gray_to_binary_From_type_for_BinaryColor ColorSrc.BinaryColor_From_bool grayToBinary
  rw [(gray_consts_src_eq_model a ha ka).2.1]
  simp only [gray_luma_src_eq_model]
  color_simp [decide_eq_true_eq]

theorem impl_rgb_to_binary_src_eq_model : ∀ a ∈ colorTable, a.isRgb = true → ∀ c,
    ColorSrc.impl_rgb_to_binary_From_type_for_BinaryColor a c = rgbToBinary a ColorSrc.T_Rgb888 c := by
  intro a ha ka c
  unfold ColorSrc.impl_rgb_to_binary_From_type_for_BinaryColor ColorSrc.BinaryColor_From_bool rgbToBinary
  rw [rgb_luma_src_eq_model a ha ka]
  color_simp [decide_eq_true_eq, rgbBinaryThreshold]
  split <;> rename_i h <;> simp [h]

/-! ### every conversion of the generated table: the impl the compiler selects = the hand model's `apply` -/

/-- `B::from(c)` for a resolved conversion of the table, through the REGENERATED macro bodies -/
def applySrc (x : Resolved) (c : Nat) : Nat :=
  match x.kind with
  | .rgbRgb => ColorSrc.impl_rgb_conversion_From_from_type_for_to_type x.a x.b c
  | .grayGray => ColorSrc.impl_gray_conversion_From_from_type_for_to_type x.a x.b c
  | .grayRgb => ColorSrc.impl_rgb_to_and_from_gray_From_gray_type_for_rgb_type x.a x.b c
  | .rgbGray => ColorSrc.impl_rgb_to_and_from_gray_From_rgb_type_for_gray_type x.b x.a c
  | .fromBinary =>
    if x.b.isRgb then ColorSrc.impl_from_binary_From_BinaryColor_for_type_rgb x.b c
    else ColorSrc.impl_from_binary_From_BinaryColor_for_type_gray x.b c
  | .grayBinary => ColorSrc.impl_gray_to_binary_From_type_for_BinaryColor x.a c
  | .rgbBinary => ColorSrc.impl_rgb_to_binary_From_type_for_BinaryColor x.a c

theorem resolved_helpers : ∀ x ∈ resolvedTable, x.via = ColorSrc.T_Rgb888 ∧ x.g8 = ColorSrc.T_Gray8 := by
  decide +kernel

theorem typed_fromBinary : ∀ x ∈ resolvedTable, x.kind = .fromBinary →
    x.b ∈ colorTable ∧ (x.b.isRgb = true ∨ (x.b.isRgb = false ∧ x.b.kind = .gray)) := by decide +kernel

theorem gray_valid_u8 : ∀ s ∈ colorTable, s.kind = .gray → ∀ c, s.Valid c → IsU8 c := by
  intro s hs hk c hc
  have h : s.rawBpp ≤ 8 := by
    have : ∀ s ∈ colorTable, s.kind = .gray → s.rawBpp ≤ 8 := by decide
    exact this s hs hk
  unfold ColorSpec.Valid at hc
  rw [hk] at hc
  have := Nat.pow_le_pow_right (by decide : 0 < 2) h
  unfold IsU8
  omega

/-- all 182 conversions of the generated table, every colour value of the source type -/
theorem apply_src_eq_model : ∀ x ∈ resolvedTable, ∀ c, x.a.Valid c → applySrc x c = x.apply c := by
  intro x hx c hc
  obtain ⟨hv, hg⟩ := resolved_helpers x hx
  unfold applySrc Resolved.apply
  cases hk : x.kind
  · obtain ⟨ha, hb, ka, kb⟩ := typed_rgbRgb x hx hk
    exact impl_rgb_conversion_src_eq_model _ ha _ hb ka kb c
  · obtain ⟨ha, hb, ka, kb⟩ := typed_grayGray x hx hk
    exact impl_gray_conversion_src_eq_model _ ha _ hb ka kb c (gray_valid_u8 _ ha ka c hc)
  · obtain ⟨ha, hb, ka, kb⟩ := typed_grayRgb x hx hk
    exact impl_gray_to_rgb_src_eq_model _ ha _ hb ka kb c (gray_valid_u8 _ ha ka c hc)
  · obtain ⟨ha, hb, ka, kb⟩ := typed_rgbGray x hx hk
    simp only [hv, hg]
    exact impl_rgb_to_gray_src_eq_model _ ha _ hb ka kb c
  · obtain ⟨hb, kb⟩ := typed_fromBinary x hx hk
    rcases kb with kb | ⟨kb, kg⟩
    · simp only [kb, ↓reduceIte]
      exact impl_from_binary_rgb_src_eq_model _ hb kb c
    · simp only [kb, Bool.false_eq_true, ↓reduceIte]
      exact impl_from_binary_gray_src_eq_model _ hb kg c
  · obtain ⟨ha, ka, _⟩ := (typed_toBinary x hx).1 hk
    exact impl_gray_to_binary_src_eq_model _ ha ka c
  · obtain ⟨ha, ka, _⟩ := (typed_toBinary x hx).2 hk
    simp only [hv]
    exact impl_rgb_to_binary_src_eq_model _ ha ka c

example : ∃ x ∈ resolvedTable, x.kind = .rgbRgb ∧ x.a.name = "Rgb565" ∧ x.b.name = "Bgr888" ∧ x.a.Valid 0xF81F
    ∧ applySrc x 0xF81F = 0xFF00FF := by decide +kernel

/-! ### C13's headline theorems, about the regenerated functions -/

/-- the regenerated `convert_channel` preserves the extremes on the table's maxima -/
theorem src_cc_extremes : ∀ F ∈ chanMaxima, ∀ T ∈ chanMaxima,
    ColorSrc.convert_channel F T 0 = 0 ∧ ColorSrc.convert_channel F T F = T := by
  intro F hF T hT
  rw [convert_channel_src_eq_model F T 0 (maxima_pos F hF).2 (maxima_pos T hT).2 (by decide),
    convert_channel_src_eq_model F T F (maxima_pos F hF).2 (maxima_pos T hT).2 (maxima_pos F hF).2]
  exact C13.cc_extremes F hF T hT

/-- the regenerated `convert_channel` returns the representable value nearest to the exactly scaled one -/
theorem src_cc_nearest : ∀ F ∈ chanMaxima, ∀ T ∈ chanMaxima, ∀ v, v ≤ F →
    Nearest F T v (ColorSrc.convert_channel F T v) := by
  intro F hF T hT v hv
  have hF8 := (maxima_pos F hF).2
  rw [convert_channel_src_eq_model F T v hF8 (maxima_pos T hT).2 (by unfold IsU8 at hF8 ⊢; omega)]
  exact C13.cc_nearest F hF T hT v hv

theorem src_cc_monotone : ∀ F ∈ chanMaxima, ∀ T ∈ chanMaxima, ∀ v w, v ≤ w → w ≤ F →
    ColorSrc.convert_channel F T v ≤ ColorSrc.convert_channel F T w := by
  intro F hF T hT v w hvw hw
  have hF8 := (maxima_pos F hF).2
  rw [convert_channel_src_eq_model F T v hF8 (maxima_pos T hT).2 (by unfold IsU8 at hF8 ⊢; omega),
    convert_channel_src_eq_model F T w hF8 (maxima_pos T hT).2 (by unfold IsU8 at hF8 ⊢; omega)]
  exact C13.cc_monotone F hF T hT v w hvw hw

example : (31 : Nat) ∈ chanMaxima ∧ (255 : Nat) ∈ chanMaxima ∧ (17 : Nat) ≤ 31 := by decide

/-- every provided conversion, through the regenerated bodies, maps black to black and white to white -/
theorem src_black_white : ∀ x ∈ resolvedTable,
    applySrc x (black x.a) = black x.b ∧ applySrc x (white x.a) = white x.b := by
  intro x hx
  have hb : x.a.Valid (black x.a) ∧ x.a.Valid (white x.a) := by
    have : ∀ x ∈ resolvedTable, x.a.Valid (black x.a) ∧ x.a.Valid (white x.a) := by decide +kernel
    exact this x hx
  rw [apply_src_eq_model x hx _ hb.1, apply_src_eq_model x hx _ hb.2]
  exact C13.black_white x hx

/-- RGB -> RGB through the regenerated body: every channel is the nearest representable value -/
theorem src_rgb_nearest : ∀ x ∈ resolvedTable, x.kind = .rgbRgb → ∀ c, x.a.Valid c →
    Nearest x.a.maxR x.b.maxR (x.a.chanR c) (x.b.chanR (applySrc x c))
    ∧ Nearest x.a.maxG x.b.maxG (x.a.chanG c) (x.b.chanG (applySrc x c))
    ∧ Nearest x.a.maxB x.b.maxB (x.a.chanB c) (x.b.chanB (applySrc x c)) := by
  intro x hx hk c hc
  rw [apply_src_eq_model x hx c hc]
  exact C13.rgb_nearest x hx hk c hc

/-- widening and narrowing back through the regenerated bodies is the identity -/
theorem src_rgb_widen_roundtrip : ∀ x ∈ resolvedTable, ∀ y ∈ resolvedTable, x.kind = .rgbRgb → y.kind = .rgbRgb →
    y.a = x.b → y.b = x.a → x.a.rbits ≤ x.b.rbits → x.a.gbits ≤ x.b.gbits → x.a.bbits ≤ x.b.bbits →
    ∀ c, x.a.Valid c → applySrc y (x.apply c) = c := by
  intro x hx y hy kx ky hab hba h1 h2 h3 c hc
  have hv : y.a.Valid (x.apply c) := by
    rw [hab]
    obtain ⟨_, hb, _, kb⟩ := typed_rgbRgb x hx kx
    have : x.apply c = rgbToRgb x.a x.b c := by unfold Resolved.apply; rw [kx]
    rw [this]
    exact C12.new_valid _ hb kb _ _ _
  rw [apply_src_eq_model y hy _ hv]
  exact C13.rgb_widen_roundtrip x hx y hy kx ky hab hba h1 h2 h3 c hc

/-- gray -> binary through the regenerated body: the threshold is the type's `GRAY_50` -/
theorem src_gray_binary_threshold : ∀ x ∈ resolvedTable, x.kind = .grayBinary → ∀ c, x.a.Valid c →
    applySrc x c = x.apply c ∧ x.apply c = grayToBinary x.a c := by
  intro x hx hk c hc
  refine ⟨apply_src_eq_model x hx c hc, ?_⟩
  unfold Resolved.apply
  rw [hk]

example : ∃ x ∈ resolvedTable, x.kind = .grayBinary ∧ x.a.name = "Gray4" ∧ x.a.Valid 8 ∧ applySrc x 8 = 1
    ∧ applySrc x 7 = 0 := by decide +kernel

end EG.C13.Src
