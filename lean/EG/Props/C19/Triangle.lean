/-
  C19 (triangle part) — "A filled triangle covers every integer point inside the mathematical
  triangle, every point it covers is inside the triangle or within one pixel of an edge, the result
  does not depend on the order of the vertices, and two triangles sharing an edge leave no gap and
  have the same pixels along that edge. A one-pixel triangle outline consists of its three edge
  lines ..."
  Model: `EG.Triangle` (EG/Model/Triangle.lean = src/primitives/triangle/*.rs as they are now).
  Helper lemmas: EG/Lemmas/Triangle*.lean.

  Proved for ALL vertex triples (unbounded integers, colinear and coincident vertices included;
  `Rect.InRange` of the bounding box = `Rectangle::rows()` does not saturate `i32`, where needed):
  * vertex-order independence: of `sorted_yx`, of `area_doubled` up to sign, of the bounding box, of
    the rasterised edge lines, of every row span and of the whole `points()` list;
  * the closed form of `points()`: rows of the bounding box top to bottom, one non-empty contiguous
    span per row = the hull of the Bresenham edge pixels of that row (the early `None` of the
    non-fused iterators never fires); strictly row-major, no point twice;
  * `closed_triangle_covered` / `interior_covered`: every lattice point of the closed mathematical
    triangle is covered;
  * `covered_within_one_pixel`: every covered point is inside the closed triangle or at Euclidean
    distance <= 1 (in fact <= 1/2) from an edge segment;
  * `shared_edge_same_pixels` / `shared_edge_pixels_in_both`: both triangles rasterise a shared edge
    as the same `Line` between the `(y, x)`-sorted end points, and all its pixels are in both point
    lists - for ALL triples, zero-area triangles included;
    `mesh_gap_free`: no lattice point of the quadrilateral's interior is missed;
  * `degenerate_triangle_is_line`: what the code does for colinear / coincident vertices
    (`area_doubled == 0`): `scanline_intersection` intersects each row with the single line
    `Line(p1, p3)` between the `(y, x)`-extreme vertices of `sorted_yx`; `points()` is, as a set,
    exactly `Line(p1, p3).points()`, and that list is `Line(p1, p2).points()` followed by
    `Line(p2, p3).points()` without its first point (the Bresenham walk of a colinear sub-segment is
    a prefix / suffix of the walk of the whole segment, EG/Lemmas/LineColinear.lean); three
    coincident vertices give the single point;
  * `triangle_translate`, `triangle_contains_translate` (exported for C07).

  * `outline_is_edge_lines`: the pixels of the one-pixel outline are exactly the pixels of the three
    edge lines (as the code orients them: cyclically for a triangle given clockwise, in the reverse
    cycle for a counter-clockwise one; Bresenham ties round differently in the two directions).

  * `outline_all_alignments`: the same for `StrokeAlignment::Inside` and `Outside` (model
    EG/Model/TriangleAligned.lean): the pixel set is the union of the three edge lines, each edge in
    one of its two orientations (the predicate of the oracle). `Outside`, and `Inside` on a triangle
    of non-zero area, run the very iterator of the centre alignment (`outline_alignment_irrelevant`);
    `Inside` on a zero-area triangle takes the collapsed arm of `generate_lines`: `pixels()` is
    `points()` in the stroke colour, the Bresenham line between the `(y, x)`-extreme vertices
    (`outline_inside_degenerate`; the centre alignment additionally paints that line backwards).

  Every sub-claim of the triangle part is a theorem about the model. The modelling steps of the
  outline path are proved on the join model (Props/C19/Joins.lean), for all three alignments:
  for stroke width 1 `LineJoin::from_points` / `ThickSegment::intersection` reduce to the Bresenham
  intersection with the skeleton line `Line(v[i+1], v[i+2])`, the parameter `skeletonSeg` of
  EG/Model/Triangle.lean (`EG.C19.Joins.skeleton_seg_is_join_code`), and
  `is_collapsed(1, offset) && offset == Right` is `area_doubled <= 0 && Inside`, the parameter
  `collapsedFlag1` of EG/Model/TriangleAligned.lean (`EG.C19.Joins.collapsed_flag_is_join_code`).

  Arithmetic: the model computes in unbounded integers, "ALL vertex triples" above means all triples
  of the MODEL. In Rust `Triangle::area_doubled` and the `s`, `t`, `s + t` of `Triangle::contains`
  are plain `i32` expressions (mod.rs): they wrap (release) or panic (overflow checks) once a product
  or partial sum leaves `i32`, e.g. Triangle((0,0),(65536,0),(0,65536)): `p2.x * p3.y = 2^32` wraps to
  0, `scanline_intersection` takes the colinear arm and `points()` is one line
  (`area_doubled_product_exceeds_i32`). The theorems describe the real code where these expressions
  do not overflow: every coordinate within +-8192 suffices (`area_doubled_fits_i32`,
  `contains_products_fit_i32`, Props/C19/Arithmetic.lean: every product and partial sum in
  evaluation order is in `i32`); the display scale of C08 (+-1024) lies inside. C08 itself has no
  checked model of the triangle code (its [V] line "no panic in code that has no checked model");
  its oracle runs display-scale triangles with overflow checks enabled.
-/
import EG.Lemmas.TrianglePoints
import EG.Lemmas.TriangleTranslate
import EG.Lemmas.TriangleSpan
import EG.Lemmas.TriangleCover
import EG.Lemmas.TriangleNear
import EG.Lemmas.TriangleOutlineMain
import EG.Lemmas.TriangleColinear
import EG.Lemmas.TriangleOutlineAligned
namespace EG.C19
open EG EG.Triangle

/-! ## The result does not depend on the order of the vertices -/

/-- `sorted_yx`: all six vertex orders sort to the same triple. -/
theorem sorted_yx_perm (t t' : Triangle) (h : t' ∈ orders t) : t'.sortedYx = t.sortedYx :=
  sortedYx_of_mem_orders h

example : (⟨⟨3, 1⟩, ⟨0, 0⟩, ⟨5, 7⟩⟩ : Triangle) ∈ orders ⟨⟨0, 0⟩, ⟨5, 7⟩, ⟨3, 1⟩⟩ := by decide

/-- `sorted_yx` is a rearrangement of the vertices, in non-decreasing `(y, x)` order. -/
theorem sorted_yx_sorted (t : Triangle) :
    t.sortedYx ∈ orders t ∧ ¬ yxLt t.sortedYx.v2 t.sortedYx.v1 ∧ ¬ yxLt t.sortedYx.v3 t.sortedYx.v2 :=
  ⟨sortedYx_mem_orders t, sortedYx_sorted t⟩

/-- `area_doubled` changes at most its sign under a permutation of the vertices. -/
theorem area_doubled_perm (t t' : Triangle) (h : t' ∈ orders t) :
    t'.areaDoubled = t.areaDoubled ∨ t'.areaDoubled = -t.areaDoubled :=
  areaDoubled_of_mem_orders h
example : (⟨⟨3, 1⟩, ⟨0, 0⟩, ⟨5, 7⟩⟩ : Triangle) ∈ orders ⟨⟨0, 0⟩, ⟨5, 7⟩, ⟨3, 1⟩⟩ := by decide

/-- The bounding box does not depend on the vertex order. -/
theorem bounding_box_perm (t t' : Triangle) (h : t' ∈ orders t) : t'.boundingBox = t.boundingBox :=
  boundingBox_of_mem_orders h
example : (⟨⟨3, 1⟩, ⟨0, 0⟩, ⟨5, 7⟩⟩ : Triangle) ∈ orders ⟨⟨0, 0⟩, ⟨5, 7⟩, ⟨3, 1⟩⟩ := by decide

/-- The span of every row (`sorted_clockwise().scanline_intersection(y)`) is the same for all six
vertex orders: it only uses the sorted triple and whether the area vanishes. (`sorted_clockwise`
itself does use the unsorted vertices; its result is discarded by `scanline_intersection`.) -/
theorem row_span_perm (t t' : Triangle) (h : t' ∈ orders t) (y : Int) : t'.span y = t.span y := by
  rw [span_of_mem_orders h]
example : (⟨⟨3, 1⟩, ⟨0, 0⟩, ⟨5, 7⟩⟩ : Triangle) ∈ orders ⟨⟨0, 0⟩, ⟨5, 7⟩, ⟨3, 1⟩⟩ := by decide

/-- **`points()` is the same list for all six vertex orders.** -/
theorem triangle_points_order_independent (t t' : Triangle) (h : t' ∈ orders t) :
    t'.points = t.points :=
  points_of_mem_orders h
example : (⟨⟨3, 1⟩, ⟨0, 0⟩, ⟨5, 7⟩⟩ : Triangle) ∈ orders ⟨⟨0, 0⟩, ⟨5, 7⟩, ⟨3, 1⟩⟩ := by decide

/-- `points()` only depends on the sorted triple. -/
theorem triangle_points_of_sorted (t : Triangle) : t.sortedYx.points = t.points :=
  points_sortedYx t

/-- Closed form of `points()`: the rows of the bounding box in order; row `y` contributes the
contiguous span `span y`; an empty first row is skipped, after that the first empty span ends the
iteration (the iterators are not fused). `take pointsBudget` is the step budget of the model's
`toList`. -/
theorem triangle_points_closed_form (t : Triangle) :
    t.points = (rowsSpec t.span t.boundingBox.tl.y t.boundingBox.rowsEnd).take t.pointsBudget :=
  points_eq_take t

/-- **`points()` in closed form, for every triangle whose bounding box is within the `i32` range**:
the rows of the bounding box from top to bottom, each contributing its span from left to right. No
row is empty (the line `p1 p3` passes through every row), so the early `None` of the non-fused
iterators never fires, and the step budget of the model's `toList` is never exhausted. -/
theorem triangle_points_rows (t : Triangle) (h : t.boundingBox.InRange) :
    t.points = (rowList t).flatMap (fun y => (t.span y).points) :=
  points_eq_rows t h

example : (⟨⟨0, 0⟩, ⟨5, 1⟩, ⟨4, 6⟩⟩ : Triangle).boundingBox.InRange := by decide

/-- **`points()` is the per-row hull of the Bresenham edge pixels**: `p` is covered iff its row
contains a pixel of one of the edge lines in use (`p1 p2`, `p1 p3`, `p2 p3` of the sorted triangle;
only `p1 p3` when the area is zero) at or left of `p`, and one at or right of `p`. -/
theorem triangle_points_hull (t : Triangle) (h : t.boundingBox.InRange) (p : Pt) :
    p ∈ t.points ↔
      ∃ q1 q2, q1 ∈ rowPix t p.y ∧ q2 ∈ rowPix t p.y ∧ q1.x ≤ p.x ∧ p.x ≤ q2.x :=
  mem_points_iff_between t h p
example : (⟨⟨0, 0⟩, ⟨5, 1⟩, ⟨4, 6⟩⟩ : Triangle).boundingBox.InRange := by decide

/-- No point is yielded twice; the order is row-major. -/
theorem triangle_points_row_major (t : Triangle) (h : t.boundingBox.InRange) :
    t.points.Pairwise Pt.rowMajorLt ∧ t.points.Nodup :=
  ⟨points_rowMajor t h, points_nodup t h⟩
example : (⟨⟨0, 0⟩, ⟨5, 1⟩, ⟨4, 6⟩⟩ : Triangle).boundingBox.InRange := by decide

/-! ## Two triangles sharing an edge -/

/-- **Both triangles rasterise a shared edge as the same `Line`**: whenever `u`, `v` are two
vertices of `t1` and of `t2` (in any position), the line from the `(y, x)`-smaller to the larger of
`u`, `v` is one of the three edge lines of either triangle; for non-degenerate triangles every row
span is the fold of `bresenham_intersection` over those edge lines. So the pixels that the edge
contributes to the row spans are the same `Line::points()` in both triangles. -/
theorem shared_edge_same_pixels (t1 t2 : Triangle) (u v w1 w2 : Pt)
    (h1 : (⟨u, v, w1⟩ : Triangle) ∈ orders t1) (h2 : (⟨u, v, w2⟩ : Triangle) ∈ orders t2) :
    sortedLine u v ∈ t1.edgeLines ∧ sortedLine u v ∈ t2.edgeLines ∧
    (t1.areaDoubled ≠ 0 → ∀ y, t1.scanlineIntersection y =
        t1.edgeLines.foldl Scanline.bint (Scanline.newEmpty y)) ∧
    (t2.areaDoubled ≠ 0 → ∀ y, t2.scanlineIntersection y =
        t2.edgeLines.foldl Scanline.bint (Scanline.newEmpty y)) :=
  ⟨sortedLine_mem_edgeLines h1, sortedLine_mem_edgeLines h2,
   fun h y => scanlineIntersection_eq_foldl t1 y h, fun h y => scanlineIntersection_eq_foldl t2 y h⟩

example : (⟨⟨0, 0⟩, ⟨4, 6⟩, ⟨5, 1⟩⟩ : Triangle) ∈ orders ⟨⟨0, 0⟩, ⟨5, 1⟩, ⟨4, 6⟩⟩ ∧
    (⟨⟨0, 0⟩, ⟨4, 6⟩, ⟨-3, 4⟩⟩ : Triangle) ∈ orders ⟨⟨0, 0⟩, ⟨4, 6⟩, ⟨-3, 4⟩⟩ ∧
    (⟨⟨0, 0⟩, ⟨5, 1⟩, ⟨4, 6⟩⟩ : Triangle).areaDoubled ≠ 0 := by decide

/-- **Two triangles sharing an edge have the same pixels along that edge**: every pixel of the
line between the shared vertices `u`, `v` (rasterised from the `(y, x)`-smaller to the larger end
point, `sortedLine u v`) is a point of both triangles — for ALL vertex triples, zero-area triangles
(colinear or coincident vertices) included; bounding boxes within the `i32` range. -/
theorem shared_edge_pixels_in_both (t1 t2 : Triangle) (u v w1 w2 p : Pt)
    (h1 : (⟨u, v, w1⟩ : Triangle) ∈ orders t1) (h2 : (⟨u, v, w2⟩ : Triangle) ∈ orders t2)
    (r1 : t1.boundingBox.InRange) (r2 : t2.boundingBox.InRange)
    (hp : p ∈ Line.points (sortedLine u v)) : p ∈ t1.points ∧ p ∈ t2.points :=
  ⟨edge_pixel_mem_points_all t1 r1 (sortedLine_mem_edgeLines h1) hp,
   edge_pixel_mem_points_all t2 r2 (sortedLine_mem_edgeLines h2) hp⟩

example : (⟨⟨0, 0⟩, ⟨4, 6⟩, ⟨5, 1⟩⟩ : Triangle) ∈ orders ⟨⟨0, 0⟩, ⟨5, 1⟩, ⟨4, 6⟩⟩ ∧
    (⟨⟨0, 0⟩, ⟨4, 6⟩, ⟨-3, 4⟩⟩ : Triangle) ∈ orders ⟨⟨0, 0⟩, ⟨4, 6⟩, ⟨-3, 4⟩⟩ ∧
    (⟨⟨0, 0⟩, ⟨5, 1⟩, ⟨4, 6⟩⟩ : Triangle).boundingBox.InRange ∧
    (⟨⟨0, 0⟩, ⟨4, 6⟩, ⟨-3, 4⟩⟩ : Triangle).boundingBox.InRange ∧
    (⟨2, 3⟩ : Pt) ∈ Line.points (sortedLine ⟨0, 0⟩ ⟨4, 6⟩) := by decide

-- a zero-area triangle (the shared edge is the colinear sub-segment (0,0) (2,3) of its long line
-- (0,0) (4,6)) next to a proper one
example : (⟨⟨2, 3⟩, ⟨0, 0⟩, ⟨4, 6⟩⟩ : Triangle) ∈ orders ⟨⟨4, 6⟩, ⟨0, 0⟩, ⟨2, 3⟩⟩ ∧
    (⟨⟨2, 3⟩, ⟨0, 0⟩, ⟨5, 1⟩⟩ : Triangle) ∈ orders ⟨⟨0, 0⟩, ⟨2, 3⟩, ⟨5, 1⟩⟩ ∧
    (⟨⟨4, 6⟩, ⟨0, 0⟩, ⟨2, 3⟩⟩ : Triangle).areaDoubled = 0 ∧
    (⟨⟨4, 6⟩, ⟨0, 0⟩, ⟨2, 3⟩⟩ : Triangle).boundingBox.InRange ∧
    (⟨⟨0, 0⟩, ⟨2, 3⟩, ⟨5, 1⟩⟩ : Triangle).boundingBox.InRange ∧
    (⟨1, 1⟩ : Pt) ∈ Line.points (sortedLine ⟨2, 3⟩ ⟨0, 0⟩) := by decide

/-- Every pixel of each of the three edge lines is a point of the filled triangle (all triples). -/
theorem edge_lines_covered (t : Triangle) (h : t.boundingBox.InRange)
    (l : Line) (hl : l ∈ t.edgeLines) (p : Pt) (hp : p ∈ Line.points l) : p ∈ t.points :=
  edge_pixel_mem_points_all t h hl hp

example : (⟨⟨0, 0⟩, ⟨5, 1⟩, ⟨4, 6⟩⟩ : Triangle).boundingBox.InRange ∧
    (⟨⟨0, 0⟩, ⟨5, 1⟩⟩ : Line) ∈ (⟨⟨0, 0⟩, ⟨5, 1⟩, ⟨4, 6⟩⟩ : Triangle).edgeLines ∧
    (⟨3, 1⟩ : Pt) ∈ Line.points ⟨⟨0, 0⟩, ⟨5, 1⟩⟩ := by decide

/-- **Colinear and coincident vertices** (`area_doubled == 0`): every row span is the Bresenham
intersection with the single line `Line(p1, p3)` between the `(y, x)`-extreme vertices of
`sorted_yx`; the point set of `points()` is exactly the pixel set of that line; the middle vertex
`p2` lies on the segment `p1 p3`, and the line is `Line(p1, p2).points()` followed by
`Line(p2, p3).points()` without its first point — so it contains the pixels of all three edge
lines. -/
theorem degenerate_triangle_is_line (t : Triangle) (ha : t.areaDoubled = 0) :
    (∀ y, t.scanlineIntersection y =
      (Scanline.newEmpty y).bint ⟨t.sortedYx.v1, t.sortedYx.v3⟩) ∧
    (t.boundingBox.InRange → ∀ p, p ∈ t.points ↔ p ∈ Line.points ⟨t.sortedYx.v1, t.sortedYx.v3⟩) ∧
    Line.Between t.sortedYx.v1 t.sortedYx.v2 t.sortedYx.v3 ∧
    Line.points ⟨t.sortedYx.v1, t.sortedYx.v3⟩ =
      Line.points ⟨t.sortedYx.v1, t.sortedYx.v2⟩ ++
        (Line.points ⟨t.sortedYx.v2, t.sortedYx.v3⟩).tail := by
  refine ⟨fun y => ?_, fun h p => degenerate_points_iff t h ha p, sorted_between t ha,
    longLine_points t ha⟩
  unfold scanlineIntersection
  simp only [ha, ↓reduceIte]

example : (⟨⟨4, 6⟩, ⟨0, 0⟩, ⟨2, 3⟩⟩ : Triangle).areaDoubled = 0 ∧
    (⟨⟨4, 6⟩, ⟨0, 0⟩, ⟨2, 3⟩⟩ : Triangle).boundingBox.InRange := by decide

/-- Three coincident vertices: the single point. Two coincident vertices: the line between the two
distinct ones, from the `(y, x)`-smaller to the larger. -/
theorem coincident_vertices (a b : Pt) :
    Line.points ⟨(Triangle.mk a a a).sortedYx.v1, (Triangle.mk a a a).sortedYx.v3⟩ = [a] ∧
    (⟨(Triangle.mk a a b).sortedYx.v1, (Triangle.mk a a b).sortedYx.v3⟩ : Line) = sortedLine a b ∧
    (Triangle.mk a a a).areaDoubled = 0 ∧ (Triangle.mk a a b).areaDoubled = 0 := by
  refine ⟨?_, ?_, ?_, ?_⟩
  · have : (Triangle.mk a a a).sortedYx = ⟨a, a, a⟩ := by
      simp only [sortedYx, sortTwoYx]; repeat' split
      all_goals rfl
    rw [this]; exact Line.points_zero_length a
  · simp only [sortedYx, sortTwoYx, sortedLine]
    repeat' split
    all_goals try dsimp only at *
    all_goals
      unfold yxLt at *
      rw [Line.mk.injEq]
      refine ⟨?_, ?_⟩ <;> rw [Pt.ext_iff'] <;> constructor <;> omega
  · unfold areaDoubled; ring
  · unfold areaDoubled; ring

/-- The shared line does not depend on the order in which the two end points are named. -/
theorem shared_edge_line_symmetric (u v : Pt) : sortedLine u v = sortedLine v u :=
  sortedLine_comm u v

/-! ## Position independence (exported for C07) -/

/-- `points()` commutes with translation: `translate(d).points() = points()` shifted by `d`
(both bounding boxes within the `i32` range, so that `Rectangle::rows()` does not saturate). -/
theorem triangle_translate (t : Triangle) (d : Pt) (h1 : t.boundingBox.InRange)
    (h2 : (t.translate d).boundingBox.InRange) :
    (t.translate d).points = t.points.map (· + d) :=
  Triangle.points_translate t d h1 h2

example : (⟨⟨0, 0⟩, ⟨5, 1⟩, ⟨4, 6⟩⟩ : Triangle).boundingBox.InRange ∧
    ((⟨⟨0, 0⟩, ⟨5, 1⟩, ⟨4, 6⟩⟩ : Triangle).translate ⟨-7, 3⟩).boundingBox.InRange := by decide

/-- `contains()` commutes with translation (all vertex triples, all points). -/
theorem triangle_contains_translate (t : Triangle) (d p : Pt) :
    (t.translate d).contains (p + d) = t.contains p :=
  Triangle.contains_translate t d p

/-- Every row span moves with the triangle. -/
theorem triangle_row_span_translate (t : Triangle) (d : Pt) (y : Int) :
    Scanline.Moved d (t.span y) ((t.translate d).span (y + d.y)) :=
  span_translate t d y

/-! ## Exact integer geometry (the predicates of the oracle) -/

/-- `(b - a) × (p - a)` (twice the signed area of `a b p`). -/
def cross (a b p : Pt) : Int := (b.x - a.x) * (p.y - a.y) - (b.y - a.y) * (p.x - a.x)

theorem cross_eq_edgeFn (a b p : Pt) : cross a b p = edgeFn a b p := rfl

/-- `p` is strictly inside the mathematical triangle. -/
def StrictlyInside (t : Triangle) (p : Pt) : Prop :=
  (0 < cross t.v1 t.v2 p ∧ 0 < cross t.v2 t.v3 p ∧ 0 < cross t.v3 t.v1 p) ∨
  (cross t.v1 t.v2 p < 0 ∧ cross t.v2 t.v3 p < 0 ∧ cross t.v3 t.v1 p < 0)

/-- `p` is inside the closed mathematical triangle (non-zero area). -/
def ClosedInside (t : Triangle) (p : Pt) : Prop :=
  cross t.v1 t.v2 t.v3 ≠ 0 ∧
  ((0 ≤ cross t.v1 t.v2 p ∧ 0 ≤ cross t.v2 t.v3 p ∧ 0 ≤ cross t.v3 t.v1 p) ∨
   (cross t.v1 t.v2 p ≤ 0 ∧ cross t.v2 t.v3 p ≤ 0 ∧ cross t.v3 t.v1 p ≤ 0))

/-- `p` lies on the open segment `a b`. -/
def OnOpenSegment (a b p : Pt) : Prop :=
  cross a b p = 0 ∧
  0 < (p.x - a.x) * (b.x - a.x) + (p.y - a.y) * (b.y - a.y) ∧
  (p.x - a.x) * (b.x - a.x) + (p.y - a.y) * (b.y - a.y) <
    (b.x - a.x) * (b.x - a.x) + (b.y - a.y) * (b.y - a.y)

/-! ## A filled triangle covers the mathematical triangle -/

/-- **A filled triangle covers every lattice point of the closed mathematical triangle** —
interior and boundary — for every triangle with non-zero area whose bounding box is within the
`i32` range. (For each row the point lies on or between two Bresenham edge lines; a y-major line has
its pixel of that row within half a pixel of the ideal line, an x-major line has the first / last
pixel of its run in that row on the far side.) -/
theorem closed_triangle_covered (t : Triangle) (h : t.boundingBox.InRange) (p : Pt)
    (hp : ClosedInside t p) : p ∈ t.points := by
  obtain ⟨ha, hs⟩ := hp
  simp only [cross_eq_edgeFn] at ha hs
  rw [edgeFn_area] at ha
  exact Triangle.closed_triangle_covered t h ha p hs

example : (⟨⟨0, 0⟩, ⟨5, 1⟩, ⟨4, 6⟩⟩ : Triangle).boundingBox.InRange ∧
    ClosedInside ⟨⟨0, 0⟩, ⟨5, 1⟩, ⟨4, 6⟩⟩ ⟨3, 3⟩ := by
  refine ⟨by decide, ?_⟩
  unfold ClosedInside cross; decide

/-- **A filled triangle covers every integer point inside the mathematical triangle.** -/
theorem interior_covered (t : Triangle) (h : t.boundingBox.InRange) (p : Pt)
    (hp : StrictlyInside t p) : p ∈ t.points := by
  apply closed_triangle_covered t h p
  have hsum := edgeFn_sum t.v1 t.v2 t.v3 p
  unfold StrictlyInside at hp
  unfold ClosedInside
  simp only [cross_eq_edgeFn] at hp ⊢
  rcases hp with ⟨h1, h2, h3⟩ | ⟨h1, h2, h3⟩
  · exact ⟨by omega, Or.inl ⟨by omega, by omega, by omega⟩⟩
  · exact ⟨by omega, Or.inr ⟨by omega, by omega, by omega⟩⟩

example : StrictlyInside ⟨⟨0, 0⟩, ⟨5, 1⟩, ⟨4, 6⟩⟩ ⟨3, 3⟩ := by
  unfold StrictlyInside cross; decide

/-- **Two triangles `(a,b,c)`, `(a,c,d)` on opposite sides of their shared edge `a c` leave no
gap**: every integer point of the quadrilateral's interior — strictly inside one of the triangles
or on the open shared edge — is in one of the two point lists. -/
theorem mesh_gap_free (a b c d p : Pt)
    (r1 : (Triangle.mk a b c).boundingBox.InRange) (r2 : (Triangle.mk a c d).boundingBox.InRange)
    (hopp : (0 < cross a c b ∧ cross a c d < 0) ∨ (cross a c b < 0 ∧ 0 < cross a c d))
    (hp : StrictlyInside ⟨a, b, c⟩ p ∨ StrictlyInside ⟨a, c, d⟩ p ∨ OnOpenSegment a c p) :
    p ∈ (Triangle.points ⟨a, b, c⟩) ∨ p ∈ (Triangle.points ⟨a, c, d⟩) := by
  rcases hp with hp | hp | hp
  · exact Or.inl (interior_covered _ r1 p hp)
  · exact Or.inr (interior_covered _ r2 p hp)
  · -- on the shared edge: in the closed triangle `(a, c, d)`
    right
    apply closed_triangle_covered _ r2 p
    obtain ⟨h0, h1, h2⟩ := hp
    have hsum := edgeFn_sum a c d p
    unfold ClosedInside
    simp only [cross_eq_edgeFn] at h0 hopp ⊢
    -- with `cross a c p = 0`: `L * cross c d p = (L - s) * cross a c d`
    have e1 : edgeFn c d p * ((c.x - a.x) * (c.x - a.x) + (c.y - a.y) * (c.y - a.y)) =
        edgeFn a c d * ((c.x - a.x) * (c.x - a.x) + (c.y - a.y) * (c.y - a.y)
          - ((p.x - a.x) * (c.x - a.x) + (p.y - a.y) * (c.y - a.y)))
        + edgeFn a c p * ((d.x - c.x) * (c.x - a.x) + (d.y - c.y) * (c.y - a.y)) := by
      unfold edgeFn; ring
    rw [h0] at e1 hsum
    generalize (c.x - a.x) * (c.x - a.x) + (c.y - a.y) * (c.y - a.y) = L at *
    generalize (p.x - a.x) * (c.x - a.x) + (p.y - a.y) * (c.y - a.y) = s at *
    have hL : 0 < L := by omega
    rcases hopp with ⟨_, hd⟩ | ⟨_, hd⟩
    · -- `(a, c, d)` negatively oriented
      refine ⟨by omega, Or.inr ⟨by omega, ?_, ?_⟩⟩
      · by_contra hc
        nlinarith [mul_pos (show 0 < edgeFn c d p by omega) hL,
          mul_pos (show 0 < -edgeFn a c d by omega) (show 0 < L - s by omega)]
      · by_contra hc
        nlinarith [mul_pos (show 0 < edgeFn a c d - edgeFn c d p by omega) hL,
          mul_pos (show 0 < -edgeFn a c d by omega) (show 0 < s by omega)]
    · refine ⟨by omega, Or.inl ⟨by omega, ?_, ?_⟩⟩
      · by_contra hc
        nlinarith [mul_pos (show 0 < -edgeFn c d p by omega) hL,
          mul_pos (show 0 < edgeFn a c d by omega) (show 0 < L - s by omega)]
      · by_contra hc
        nlinarith [mul_pos (show 0 < edgeFn c d p - edgeFn a c d by omega) hL,
          mul_pos (show 0 < edgeFn a c d by omega) (show 0 < s by omega)]

example : (Triangle.mk ⟨0, 0⟩ ⟨-3, 4⟩ ⟨4, 6⟩).boundingBox.InRange ∧
    (Triangle.mk ⟨0, 0⟩ ⟨4, 6⟩ ⟨5, 1⟩).boundingBox.InRange := by decide
example : ((0 : Int) < cross ⟨0, 0⟩ ⟨4, 6⟩ ⟨-3, 4⟩ ∧ cross ⟨0, 0⟩ ⟨4, 6⟩ ⟨5, 1⟩ < 0) ∧
    OnOpenSegment ⟨0, 0⟩ ⟨4, 6⟩ ⟨2, 3⟩ := by
  unfold OnOpenSegment cross; decide

/-! ## Every covered point is inside the triangle or within one pixel of an edge -/

/-- **Every point of `points()` is inside the closed mathematical triangle or within one pixel of an
edge**: its Euclidean distance to one of the three edge segments is at most 1 (`NearSegment`, the
exact integer metric of the oracle: with `s = (p-a)·(b-a)`, `L = |b-a|²`: `s ≤ 0`: `|p-a|² ≤ 1`;
`s ≥ L`: `|p-b|² ≤ 1`; else `((b-a)×(p-a))² ≤ L`). For all triangles, colinear and coincident
vertices included. (A covered point passes `contains()`: closed triangle or a Bresenham edge pixel,
and those are within half a pixel of their segment.) -/
theorem covered_within_one_pixel (t : Triangle) (h : t.boundingBox.InRange) (p : Pt)
    (hp : p ∈ t.points) :
    ClosedInside t p ∨ NearSegment t.v1 t.v2 p ∨ NearSegment t.v2 t.v3 p ∨ NearSegment t.v3 t.v1 p := by
  rcases Triangle.covered_within_one_pixel t h p hp with ⟨ha, hc⟩ | hn
  · left
    unfold ClosedInside
    simp only [cross_eq_edgeFn]
    rw [edgeFn_area]
    exact ⟨ha, hc⟩
  · exact Or.inr hn

example : (⟨⟨0, 0⟩, ⟨9, 2⟩, ⟨4, 6⟩⟩ : Triangle).boundingBox.InRange ∧
    (⟨2, 0⟩ : Pt) ∈ (⟨⟨0, 0⟩, ⟨9, 2⟩, ⟨4, 6⟩⟩ : Triangle).points ∧
    ¬ ClosedInside ⟨⟨0, 0⟩, ⟨9, 2⟩, ⟨4, 6⟩⟩ ⟨2, 0⟩ := by
  refine ⟨by decide, by decide, ?_⟩
  unfold ClosedInside cross; decide

/-! ## A one-pixel outline consists of its three edge lines -/

/-- **The pixels of `into_styled(PrimitiveStyle::with_stroke(c, 1)).pixels()` are exactly the pixels
of the three edge lines** `Line(v2, v3)`, `Line(v3, v1)`, `Line(v1, v2)` of the `sorted_clockwise`
triangle — for every vertex triple (colinear and coincident vertices included) whose bounding box
is within the `i32` range. (Per row the three per-edge scanlines are merged into at most two
pieces; nothing is lost because two of the three edges of a row always share a vertex of that row;
no row of the bounding box is empty, so the non-fused iterators never stop early.) -/
theorem outline_is_edge_lines (t : Triangle) (c : Nat) (h : t.boundingBox.InRange) (p : Pt) :
    p ∈ (t.outlinePixels c).map (·.1) ↔
      (p ∈ Line.points ⟨t.sortedClockwise.v2, t.sortedClockwise.v3⟩ ∨
       p ∈ Line.points ⟨t.sortedClockwise.v3, t.sortedClockwise.v1⟩ ∨
       p ∈ Line.points ⟨t.sortedClockwise.v1, t.sortedClockwise.v2⟩) :=
  mem_outline_iff t c h p

example : (⟨⟨0, 0⟩, ⟨5, 1⟩, ⟨4, 6⟩⟩ : Triangle).boundingBox.InRange := by decide

/-- Which lines these are: a triangle given clockwise (positive `area_doubled`) is traversed as
given, `v2 v3`, `v3 v1`, `v1 v2`; a counter-clockwise one with its first two vertices swapped, i.e.
`v1 v3`, `v3 v2`, `v2 v1` — the same three edges in the opposite direction. -/
theorem outline_lines_orientation (t : Triangle) :
    (0 < t.areaDoubled → t.sortedClockwise = t) ∧
    (t.areaDoubled < 0 → t.sortedClockwise = ⟨t.v2, t.v1, t.v3⟩) ∧
    (t.areaDoubled = 0 → t.sortedClockwise = t.sortedYx) := by
  unfold sortedClockwise
  refine ⟨fun h => ?_, fun h => ?_, fun h => ?_⟩
  · have h' : ¬ t.areaDoubled < 0 := by omega
    simp only [h, h', ↓reduceIte]
  · simp only [h, ↓reduceIte]
  · have h1 : ¬ t.areaDoubled < 0 := by omega
    have h2 : ¬ t.areaDoubled > 0 := by omega
    simp only [h1, h2, ↓reduceIte]

/-- The outline in closed form: rows of the bounding box top to bottom, each contributing its one
or two pieces left to right (the iteration order of `pixels()`), every pixel with the stroke colour. -/
theorem outline_closed_form (t : Triangle) (c : Nat) (h : t.boundingBox.InRange) :
    t.outlinePixels c =
      ((rowList t).flatMap (outlineRow t.sortedClockwise)).map (fun p => (p, c)) :=
  outlinePixels_eq t c h
example : (⟨⟨0, 0⟩, ⟨5, 1⟩, ⟨4, 6⟩⟩ : Triangle).boundingBox.InRange := by decide

/-- The pixel set of the one-pixel outline moves with the triangle (exported for C07). -/
theorem outline_translate (t : Triangle) (c : Nat) (d p : Pt) (h1 : t.boundingBox.InRange)
    (h2 : (t.translate d).boundingBox.InRange) :
    p + d ∈ ((t.translate d).outlinePixels c).map (·.1) ↔ p ∈ (t.outlinePixels c).map (·.1) :=
  mem_outline_translate t c d p h1 h2

example : (⟨⟨0, 0⟩, ⟨5, 1⟩, ⟨4, 6⟩⟩ : Triangle).boundingBox.InRange ∧
    ((⟨⟨0, 0⟩, ⟨5, 1⟩, ⟨4, 6⟩⟩ : Triangle).translate ⟨-7, 3⟩).boundingBox.InRange := by decide

/-! ## The one-pixel outline with `StrokeAlignment::Inside` / `Outside` -/

/-- **The alignment does not matter unless the triangle has zero area and the stroke is `Inside`**:
the `is_collapsed` flag is not set, the stroke offset reaches nothing else (the join code gives the
same skeleton segments), and `pixels()` is the very list of the centre alignment. -/
theorem outline_alignment_irrelevant (t : Triangle) (c : Nat) (a : TriAlign)
    (h : ¬ (t.areaDoubled = 0 ∧ a = .inside)) : t.outlinePixelsAligned c a = t.outlinePixels c :=
  outlinePixelsAligned_of_not_collapsed t c a h

example : ¬ ((⟨⟨0, 0⟩, ⟨5, 1⟩, ⟨4, 6⟩⟩ : Triangle).areaDoubled = 0 ∧ TriAlign.inside = .inside) := by
  decide
example : ¬ ((⟨⟨0, 0⟩, ⟨2, 3⟩, ⟨4, 6⟩⟩ : Triangle).areaDoubled = 0 ∧ TriAlign.outside = .inside) := by
  decide

/-- `Center` is the model of EG/Model/Triangle.lean. -/
theorem outline_center (t : Triangle) (c : Nat) : t.outlinePixelsAligned c .center = t.outlinePixels c :=
  outlinePixelsAligned_of_not_collapsed t c .center (by simp)

/-- **`Inside` on a zero-area triangle** (colinear or coincident vertices): the collapsed arm of
`generate_lines` hands out the whole `scanline_intersection` row as stroke, so `pixels()` is
`points()` in the stroke colour: exactly the pixels of the Bresenham line between the
`(y, x)`-extreme vertices, which contains the other two edge lines. -/
theorem outline_inside_degenerate (t : Triangle) (c : Nat) (h : t.boundingBox.InRange)
    (ha : t.areaDoubled = 0) :
    t.outlinePixelsAligned c .inside = t.points.map (fun p => (p, c)) ∧
    ∀ p, p ∈ (t.outlinePixelsAligned c .inside).map (·.1) ↔
      (p ∈ Line.points ⟨t.sortedYx.v1, t.sortedYx.v2⟩ ∨ p ∈ Line.points ⟨t.sortedYx.v2, t.sortedYx.v3⟩ ∨
       p ∈ Line.points ⟨t.sortedYx.v1, t.sortedYx.v3⟩) := by
  have e := outlinePixelsAligned_collapsed t c h ha
  refine ⟨e, fun p => ?_⟩
  rw [e, List.map_map]
  have : ((fun x : Pt × Nat => x.1) ∘ fun p : Pt => (p, c)) = id := by funext q; rfl
  rw [this, List.map_id, degenerate_points_iff t h ha]
  have hb := sorted_between t ha
  unfold longLine
  constructor
  · intro hp; exact Or.inr (Or.inr hp)
  · rintro (hp | hp | hp)
    · exact hb.mem_left hp
    · exact hb.mem_right hp
    · exact hp

example : (⟨⟨4, 6⟩, ⟨0, 0⟩, ⟨2, 3⟩⟩ : Triangle).boundingBox.InRange ∧
    (⟨⟨4, 6⟩, ⟨0, 0⟩, ⟨2, 3⟩⟩ : Triangle).areaDoubled = 0 := by decide

/-- **A one-pixel triangle outline consists of its three edge lines, for every stroke alignment**
(`Inside`, `Center`, `Outside`): the pixel set of `pixels()` is the union of `Line::points()` of
the three edges `v1 v2`, `v2 v3`, `v3 v1`, each rasterised in one of its two directions — for every
vertex triple (colinear and coincident vertices included) whose bounding box is within the `i32`
range. `IsEdge l a b` (EG/Lemmas/TriangleOutlineAligned.lean) is `l = Line(a, b) ∨ l = Line(b, a)`. -/
theorem outline_all_alignments (t : Triangle) (c : Nat) (a : TriAlign) (h : t.boundingBox.InRange) :
    ∃ e1 e2 e3, IsEdge e1 t.v1 t.v2 ∧ IsEdge e2 t.v2 t.v3 ∧ IsEdge e3 t.v3 t.v1 ∧
      ∀ p, p ∈ (t.outlinePixelsAligned c a).map (·.1) ↔
        (p ∈ Line.points e1 ∨ p ∈ Line.points e2 ∨ p ∈ Line.points e3) := by
  by_cases hc : t.areaDoubled = 0 ∧ a = .inside
  · obtain ⟨ha, rfl⟩ := hc
    obtain ⟨e1, e2, e3, h1, h2, h3, hu⟩ := edges_of_orders (sortedYx_mem_orders t)
      (l12 := ⟨t.sortedYx.v1, t.sortedYx.v2⟩) (l23 := ⟨t.sortedYx.v2, t.sortedYx.v3⟩)
      (l31 := ⟨t.sortedYx.v1, t.sortedYx.v3⟩) (Or.inl rfl) (Or.inl rfl) (Or.inr rfl)
    exact ⟨e1, e2, e3, h1, h2, h3, fun p => by
      rw [(outline_inside_degenerate t c h ha).2 p]; exact hu p⟩
  · obtain ⟨e1, e2, e3, h1, h2, h3, hu⟩ := edges_of_orders (sortedClockwise_mem_orders t)
      (l12 := ⟨t.sortedClockwise.v1, t.sortedClockwise.v2⟩)
      (l23 := ⟨t.sortedClockwise.v2, t.sortedClockwise.v3⟩)
      (l31 := ⟨t.sortedClockwise.v3, t.sortedClockwise.v1⟩) (Or.inl rfl) (Or.inl rfl) (Or.inl rfl)
    refine ⟨e1, e2, e3, h1, h2, h3, fun p => ?_⟩
    rw [outline_alignment_irrelevant t c a hc, outline_is_edge_lines t c h p, ← hu p]
    constructor
    · rintro (h | h | h) <;> simp [h]
    · rintro (h | h | h) <;> simp [h]

example : (⟨⟨0, 0⟩, ⟨5, 1⟩, ⟨4, 6⟩⟩ : Triangle).boundingBox.InRange := by decide

end EG.C19
