/-
  C19 (arithmetic range) — the theorems of Props/C19/Triangle.lean are about the model, which
  computes in unbounded integers. In Rust `Triangle::area_doubled` and the `s`, `t`, `s + t` of
  `Triangle::contains` are plain `i32` expressions (src/primitives/triangle/mod.rs): beyond the
  range below they wrap (release) or panic (overflow checks), e.g. Triangle((0,0),(65536,0),(0,65536)):
  `p2.x * p3.y = 2^32` wraps to 0, `area_doubled() == 0`, `scanline_intersection` takes the colinear
  arm and `points()` is a single line. Here: with every coordinate (vertices and the probed point)
  within +-8192, every product, every partial sum (in the order the Rust expressions are evaluated)
  and the final `s + t` lie in `i32`, so the model's integers ARE the values the code computes. The
  display scale of property C08 (coordinates within +-1024, derived points within -1152..=2176) is
  inside this range. (|coordinates| < 2^14 would still do, by a geometric bound on `s + t`; not
  proved.)
-/
import EG.Lemmas.TriangleI32
namespace EG.C19
open EG EG.Triangle

/-- `area_doubled`: `-p2.y * p3.x + p1.y * (p3.x - p2.x) + p1.x * (p2.y - p3.y) + p2.x * p3.y`,
every operand, product and partial sum, left to right. -/
theorem area_doubled_fits_i32 (t : Triangle) (h1 : SmallPt t.v1) (h2 : SmallPt t.v2)
    (h3 : SmallPt t.v3) :
    inI32 (-t.v2.y * t.v3.x) ∧
    inI32 (t.v3.x - t.v2.x) ∧ inI32 (t.v1.y * (t.v3.x - t.v2.x)) ∧
    inI32 (-t.v2.y * t.v3.x + t.v1.y * (t.v3.x - t.v2.x)) ∧
    inI32 (t.v2.y - t.v3.y) ∧ inI32 (t.v1.x * (t.v2.y - t.v3.y)) ∧
    inI32 (-t.v2.y * t.v3.x + t.v1.y * (t.v3.x - t.v2.x) + t.v1.x * (t.v2.y - t.v3.y)) ∧
    inI32 (t.v2.x * t.v3.y) ∧
    inI32 t.areaDoubled := by
  obtain ⟨⟨a1, a2⟩, ⟨a3, a4⟩⟩ := h1
  obtain ⟨⟨b1, b2⟩, ⟨b3, b4⟩⟩ := h2
  obtain ⟨⟨c1, c2⟩, ⟨c3, c4⟩⟩ := h3
  have p1 := cc (a := -t.v2.y) (b := t.v3.x) (by omega) (by omega)
  have p2 := cd (a := t.v1.y) (b := t.v3.x - t.v2.x) (by omega) (by omega)
  have p3 := cd (a := t.v1.x) (b := t.v2.y - t.v3.y) (by omega) (by omega)
  have p4 := cc (a := t.v2.x) (b := t.v3.y) (by omega) (by omega)
  unfold inI32 areaDoubled
  refine ⟨?_, ?_, ?_, ?_, ?_, ?_, ?_, ?_, ?_⟩ <;> omega

/-- `contains`: `s`, `t` (every product and partial sum, left to right) and `s + t`, for a probed
point within the same range (the code looks only at points of the bounding box). -/
theorem contains_products_fit_i32 (t : Triangle) (p : Pt) (h1 : SmallPt t.v1) (h2 : SmallPt t.v2)
    (h3 : SmallPt t.v3) (hp : SmallPt p) :
    -- s = p1.y * p3.x - p1.x * p3.y + (p3.y - p1.y) * p.x + (p1.x - p3.x) * p.y
    inI32 (t.v1.y * t.v3.x) ∧ inI32 (t.v1.x * t.v3.y) ∧ inI32 (t.v1.y * t.v3.x - t.v1.x * t.v3.y) ∧
    inI32 ((t.v3.y - t.v1.y) * p.x) ∧
    inI32 (t.v1.y * t.v3.x - t.v1.x * t.v3.y + (t.v3.y - t.v1.y) * p.x) ∧
    inI32 ((t.v1.x - t.v3.x) * p.y) ∧ inI32 (t.baryS p) ∧
    -- t = p1.x * p2.y - p1.y * p2.x + (p1.y - p2.y) * p.x + (p2.x - p1.x) * p.y
    inI32 (t.v1.x * t.v2.y) ∧ inI32 (t.v1.y * t.v2.x) ∧ inI32 (t.v1.x * t.v2.y - t.v1.y * t.v2.x) ∧
    inI32 ((t.v1.y - t.v2.y) * p.x) ∧
    inI32 (t.v1.x * t.v2.y - t.v1.y * t.v2.x + (t.v1.y - t.v2.y) * p.x) ∧
    inI32 ((t.v2.x - t.v1.x) * p.y) ∧ inI32 (t.baryT p) ∧
    inI32 (t.baryS p + t.baryT p) := by
  obtain ⟨⟨a1, a2⟩, ⟨a3, a4⟩⟩ := h1
  obtain ⟨⟨b1, b2⟩, ⟨b3, b4⟩⟩ := h2
  obtain ⟨⟨c1, c2⟩, ⟨c3, c4⟩⟩ := h3
  obtain ⟨⟨q1, q2⟩, ⟨q3, q4⟩⟩ := hp
  have s1 := cc (a := t.v1.y) (b := t.v3.x) (by omega) (by omega)
  have s2 := cc (a := t.v1.x) (b := t.v3.y) (by omega) (by omega)
  have s3 := dc (a := t.v3.y - t.v1.y) (b := p.x) (by omega) (by omega)
  have s4 := dc (a := t.v1.x - t.v3.x) (b := p.y) (by omega) (by omega)
  have t1 := cc (a := t.v1.x) (b := t.v2.y) (by omega) (by omega)
  have t2 := cc (a := t.v1.y) (b := t.v2.x) (by omega) (by omega)
  have t3 := dc (a := t.v1.y - t.v2.y) (b := p.x) (by omega) (by omega)
  have t4 := dc (a := t.v2.x - t.v1.x) (b := p.y) (by omega) (by omega)
  unfold inI32 baryS baryT
  refine ⟨?_, ?_, ?_, ?_, ?_, ?_, ?_, ?_, ?_, ?_, ?_, ?_, ?_, ?_, ?_⟩ <;> omega

-- a display-scale triangle (C08: coordinates within +-1024) and a point of its bounding box
example : SmallPt (⟨-1024, -1024⟩ : Pt) ∧ SmallPt (⟨1024, -1024⟩ : Pt) ∧ SmallPt (⟨0, 1024⟩ : Pt) ∧
    SmallPt (⟨17, 1000⟩ : Pt) := by decide

/-- Outside the range the `i32` expression really leaves `i32`: the reviewer's triangle
(0,0), (65536,0), (0,65536) has `p2.x * p3.y = 2^32`. -/
theorem area_doubled_product_exceeds_i32 :
    ¬ inI32 ((⟨⟨0, 0⟩, ⟨65536, 0⟩, ⟨0, 65536⟩⟩ : Triangle).v2.x *
             (⟨⟨0, 0⟩, ⟨65536, 0⟩, ⟨0, 65536⟩⟩ : Triangle).v3.y) := by decide

end EG.C19
