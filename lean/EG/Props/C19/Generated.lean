/-
  C19 — the REGENERATED model of `Triangle` (and of the iterators behind `points()`) equals the hand-written one.

  `EG/Generated/TriSrc.lean` is written by `tools/tr_trisrc.py` from /repo's Rust text on every run of a check
  (src/primitives/triangle/{mod,scanline_intersections,scanline_iterator,points}.rs, src/primitives/polyline/{mod,points}.rs; one Lean `def`
  per Rust function, arm for arm; every Rust primitive is a function of the trusted preludes
  `EG/Model/RectSrcPrelude.lean` / `EG/Model/TriSrcPrelude.lean`). This file proves, for every translated function of
  the triangle part, that the generated definition equals the hand-written model function of `EG/Model/Triangle.lean`
  FOR ALL inputs (`<name>_src_eq_model`) and restates C19's headline theorems about the generated functions (`src_*`).
  `ContainsPoint::contains` is in `EG/Props/C05/GeneratedTriangle.lean`, the polyline in `GeneratedPolyline.lean`.

  Where the two differ (stated exactly):
  * `Triangle { vertices: [Point; 3] }` is the hand model's record of three named vertices (the prelude's
    `Triangle_vertices` / `Triangle_mk`); `sorted_clockwise` matches on `area.cmp(&0)` where the model nests two `if`s.
  * `from_slice` panics unless the slice has three elements; the theorem is about three-element slices.
  * `ScanlineIterator { rows: Range<i32>, .. }` is the hand model's record with the two ends of the range
    (`siOf`); a `&mut self` function returns (value, state after), the hand model's `next` too.
  * `ScanlineIntersections` (`new`, `empty`, `reset_with_new_scanline`, `generate_lines`, `Iterator::next`) is
    regenerated too; the hand model's record has no `stroke_offset` field (`sxOf`). What is NOT regenerated there is
    the thick-stroke machinery: the iterator returned by `edge_intersections` (`LineJoin`, `ThickSegment`; the prelude
    binds it to the hand model's `EdgeIt`, which yields `None` at once for stroke width 0, the case of `points()`)
    and `Triangle::is_collapsed` (an unspecified `opaque` function of the prelude). `new` computes
    `is_collapsed(..) && stroke_offset == Right`; the hand model covers `StrokeOffset::None`, where this is `false`
    whatever `is_collapsed` returns: the theorems about `new` are stated for `.None`, the others for every state.
  * `triangle::Points::next` returns (`Option<Point>`, state after); the hand model's `PointsIt.next` returns
    `Option (point, state after)` (no state after `None`): `nextViewT`.
  Nothing needs a range guard here (`bounding_box().rows()` saturates in both; `contains`, which goes through
  `Rectangle::contains`, does: see the C05 file).
-/
import EG.Generated.TriSrc
import EG.Props.C16.Generated
import EG.Props.C19.Triangle
namespace EG.C19.Src
open EG EG.Triangle EG.RectSrcPrelude EG.TriSrcPrelude EG.Generated EG.C16.Src

/-- unfold every prelude primitive of TriSrcPrelude (and RectSrcPrelude, and the listed definitions) -/
macro "tri_simp" "[" ls:Lean.Parser.Tactic.simpLemma,* "]" loc:(Lean.Parser.Tactic.location)? : tactic =>
  `(tactic| prelude_simp [array3_mk, array3_index, tuple2_0, tuple2_1, slice_empty, slice_first, slice_split_first,
      Triangle_mk, Triangle_vertices, Polyline_mk, Polyline_translate, Polyline_vertices, Polyline_set_translate,
      Polyline_set_vertices, Point_eq, Point_ne, i32_cmp, option_and_then, option_map, option_unwrap_or_else,
      option_or_else, option_or_else_st, iter_chain, iter_any, rust_panic, Scanline_new_empty, Scanline_next,
      Scanline_bresenham_intersection, Line_new, Line_points, LinePoints_empty, LinePoints_next, LinePoints_into_iter,
      option_unwrap_or, Scanline_mk, Scanline_x, Scanline_y, Scanline_set_x, Scanline_set_y, Scanline_try_take,
      ScanlineIntersections_edge_intersections, EdgeIntersections_next, StrokeOffset_eq, StrokeOffset_ne,
      $ls,*] $[$loc]?)

/-! ### `Triangle`: constructors, area, sorting, bounding box -/

theorem sort_two_yx_src_eq_model (p q : Pt) : TriSrc.sort_two_yx p q = sortTwoYx p q := by
  unfold TriSrc.sort_two_yx sortTwoYx yxLt
  tri_simp [Bool.or_eq_true, Bool.and_eq_true, decide_eq_true_eq]

theorem Triangle_new_src_eq_model (a b c : Pt) : TriSrc.Triangle_new a b c = Triangle.new a b c := rfl

/-- `from_slice` of a slice of three points (any other length panics). -/
theorem Triangle_from_slice_src_eq_model (a b c : Pt) : TriSrc.Triangle_from_slice [a, b, c] = Triangle.new a b c := rfl

theorem Triangle_area_doubled_src_eq_model (t : Triangle) : TriSrc.Triangle_area_doubled t = t.areaDoubled := rfl

theorem Triangle_sorted_yx_src_eq_model (t : Triangle) : TriSrc.Triangle_sorted_yx t = t.sortedYx := by
  unfold TriSrc.Triangle_sorted_yx sortedYx
  simp only [sort_two_yx_src_eq_model]
  rfl

theorem Triangle_sorted_clockwise_src_eq_model (t : Triangle) :
    TriSrc.Triangle_sorted_clockwise t = t.sortedClockwise := by
  unfold TriSrc.Triangle_sorted_clockwise sortedClockwise
  rw [Triangle_area_doubled_src_eq_model, Triangle_sorted_yx_src_eq_model]
  simp only [i32_cmp]
  rcases Int.lt_trichotomy t.areaDoubled 0 with h | h | h
  · simp only [h, ↓reduceIte]; rfl
  · simp only [h, Int.lt_irrefl, ↓reduceIte, gt_iff_lt]
  · have h1 : ¬ t.areaDoubled < 0 := by omega
    have h2 : ¬ t.areaDoubled = 0 := by omega
    simp only [h1, h2, h, ↓reduceIte]

theorem Triangle_bounding_box_src_eq_model (t : Triangle) :
    TriSrc.Triangle_Dimensions_bounding_box t = t.boundingBox := by
  unfold TriSrc.Triangle_Dimensions_bounding_box boundingBox
  simp only [with_corners_src_eq_model, Point_new_src_eq_model]

theorem Triangle_scanline_intersection_src_eq_model (t : Triangle) (y : Int) :
    TriSrc.Triangle_scanline_intersection t y = t.scanlineIntersection y := by
  unfold TriSrc.Triangle_scanline_intersection scanlineIntersection
  rw [Triangle_area_doubled_src_eq_model, Triangle_sorted_yx_src_eq_model]
  by_cases h : t.areaDoubled = 0
  · tri_simp [h, decide_true, ↓reduceIte]
  · tri_simp [h, decide_false, Bool.false_eq_true, ↓reduceIte]

/-! ### `ScanlineIntersections` (src/primitives/triangle/scanline_intersections.rs) -/

/-- The regenerated `LineConfig` as the hand model's record. -/
def lcOf (l : TriSrc.LineConfigS) : EG.LineConfig := ⟨l.first, l.second, l.internal, l.internal_type⟩

/-- The regenerated `ScanlineIntersections` as the hand model's record (which has no `stroke_offset` field: it covers
`StrokeOffset::None`). -/
def sxOf (s : TriSrc.ScanlineIntersectionsS) : EG.ScanlineIntersections :=
  ⟨lcOf s.lines, s.triangle, s.stroke_width, s.has_fill, s.is_collapsed⟩

theorem ScanlineIntersections_empty_src_eq_model :
    sxOf TriSrc.ScanlineIntersections_empty = ScanlineIntersections.empty := rfl

/-- `generate_lines` always returns `Some`, of the hand model's `LineConfig` (any stroke offset: the part that depends
on it, `edge_intersections`, is the hand model's). -/
theorem ScanlineIntersections_generate_lines_src_eq_model (s : TriSrc.ScanlineIntersectionsS) (y : Int) :
    (TriSrc.ScanlineIntersections_generate_lines s y).map lcOf = some ((sxOf s).generateLines y) := by
  unfold TriSrc.ScanlineIntersections_generate_lines ScanlineIntersections.generateLines
  simp only [Triangle_scanline_intersection_src_eq_model]
  cases hc : s.is_collapsed with
  | true => tri_simp [sxOf, hc, ↓reduceIte, Option.map_some, lcOf]
  | false =>
    have hseg : ∀ (it : EG.ScanlineIntersections) (y : Int), it.seg y = fun idx => it.triangle.skeletonSeg idx y :=
      fun _ _ => rfl
    tri_simp [sxOf, hc, Bool.false_eq_true, ↓reduceIte, Option.map_some, lcOf, hseg]
    generalize EdgeIt.next s.stroke_width (fun idx => s.triangle.skeletonSeg idx y) y
      ⟨0, Scanline.newEmpty y, Scanline.newEmpty y⟩ = r1
    generalize EdgeIt.next s.stroke_width (fun idx => s.triangle.skeletonSeg idx y) y r1.2 = r2
    obtain ⟨a, r1'⟩ := r1
    obtain ⟨b, r2'⟩ := r2
    cases s.has_fill <;> cases a <;> cases b <;> rfl

/-- `reset_with_new_scanline`. -/
theorem ScanlineIntersections_reset_src_eq_model (s : TriSrc.ScanlineIntersectionsS) (y : Int) :
    sxOf (TriSrc.ScanlineIntersections_reset_with_new_scanline s y).2 = (sxOf s).reset y := by
  have h := ScanlineIntersections_generate_lines_src_eq_model s y
  unfold TriSrc.ScanlineIntersections_reset_with_new_scanline ScanlineIntersections.reset
  cases hg : TriSrc.ScanlineIntersections_generate_lines s y with
  | none => rw [hg] at h; cases h
  | some l =>
    rw [hg] at h
    simp only [Option.map_some, Option.some.injEq] at h
    simp only [sxOf, h]

/-- `ScanlineIntersections::new` for `StrokeOffset::None`: `is_collapsed(..) && stroke_offset == Right` is `false`
whatever `is_collapsed` (not regenerated, unspecified) returns. -/
theorem ScanlineIntersections_new_src_eq_model (t : Triangle) (w : Nat) (fill : Bool) (y : Int) :
    sxOf (TriSrc.ScanlineIntersections_new t w .None fill y) = ScanlineIntersections.new t w fill y := by
  unfold TriSrc.ScanlineIntersections_new ScanlineIntersections.new
  simp only [ScanlineIntersections_reset_src_eq_model]
  congr 1
  tri_simp [sxOf, StrokeOffset_eq, TriSrc.ScanlineIntersections_empty, ScanlineIntersections.empty, lcOf,
    Bool.and_false, reduceCtorEq, decide_false, TriSrc.Triangle_new, Point_zero_src_eq_model]

/-- `try_take` that yields `None` leaves the scanline as it is. -/
theorem tryTake_none_state (l : Scanline) (h : l.tryTake.1 = none) : l.tryTake.2 = l := by
  unfold Scanline.tryTake at h ⊢
  split
  · rename_i hc; rw [if_pos hc] at h; cases h
  · rfl

/-- One call of the regenerated `Iterator::next` of `ScanlineIntersections` is one call of the hand model's. -/
theorem ScanlineIntersections_next_src_eq_model (s : TriSrc.ScanlineIntersectionsS) :
    ((TriSrc.ScanlineIntersections_Iterator_next s).1, sxOf (TriSrc.ScanlineIntersections_Iterator_next s).2) =
      (sxOf s).next := by
  unfold TriSrc.ScanlineIntersections_Iterator_next ScanlineIntersections.next
  tri_simp [sxOf, lcOf]
  cases h1 : s.lines.internal.tryTake.1 with
  | some x => rfl
  | none =>
    simp only [tryTake_none_state _ h1]
    cases h2 : s.lines.first.tryTake.1 with
    | some x => rfl
    | none =>
      simp only [tryTake_none_state _ h2]
      cases h3 : s.lines.second.tryTake.1 with
      | some x => rfl
      | none =>
        simp only [tryTake_none_state _ h3]

/-! ### `ScanlineIterator` -/

/-- The regenerated iterator state (`rows: Range<i32>, scanline_y, intersections`) as the hand model's record. -/
def siOf (s : TriSrc.ScanlineIteratorS) : EG.ScanlineIterator :=
  ⟨s.rows.start, s.rows.end_, s.scanline_y, sxOf s.intersections⟩

theorem ScanlineIterator_empty_src_eq_model : siOf TriSrc.ScanlineIterator_empty = ScanlineIterator.empty := rfl

/-- `ScanlineIterator::new` for `StrokeOffset::None` (what the hand model of `ScanlineIntersections` covers). -/
theorem ScanlineIterator_new_src_eq_model (t : Triangle) (w : Nat) (fill : Bool) (bb : Rect) :
    siOf (TriSrc.ScanlineIterator_new t w .None fill bb) = ScanlineIterator.new t w fill bb := by
  unfold TriSrc.ScanlineIterator_new ScanlineIterator.new
  rw [Triangle_sorted_clockwise_src_eq_model, rows_ends_src_eq_model]
  by_cases h : bb.tl.y < bb.rowsEnd
  · tri_simp [h, ↓reduceIte, siOf, ScanlineIntersections_new_src_eq_model]
  · tri_simp [h, ↓reduceIte, siOf]; rfl

/-- One call of the regenerated `next` is one call of the hand model's: same item, same state after. -/
theorem ScanlineIterator_next_src_eq_model (s : TriSrc.ScanlineIteratorS) :
    ((TriSrc.ScanlineIterator_Iterator_next s).1, siOf (TriSrc.ScanlineIterator_Iterator_next s).2) =
      (siOf s).next := by
  unfold TriSrc.ScanlineIterator_Iterator_next ScanlineIterator.next
  have hn := ScanlineIntersections_next_src_eq_model s.intersections
  tri_simp [siOf]
  rw [← hn]
  cases h : (TriSrc.ScanlineIntersections_Iterator_next s.intersections).1 with
  | some x => rfl
  | none =>
    simp only []
    by_cases hr : s.rows.start < s.rows.end_
    · simp only [hr, ↓reduceIte]
      have h2 := ScanlineIntersections_next_src_eq_model
        (TriSrc.ScanlineIntersections_reset_with_new_scanline
          (TriSrc.ScanlineIntersections_Iterator_next s.intersections).2 s.rows.start).2
      rw [ScanlineIntersections_reset_src_eq_model] at h2
      rw [← h2]
    · simp only [hr, ↓reduceIte]

/-! ### `triangle::Points` -/

/-- The regenerated `Points { scanline_iter, current_line }` as the hand model's record. -/
def tpOf (p : TriSrc.TriPointsS) : Triangle.PointsIt := ⟨siOf p.scanline_iter, p.current_line⟩

/-- What one call of `next` shows to the caller, in the hand model's vocabulary. -/
def nextViewT (r : Option Pt × TriSrc.TriPointsS) : Option (Pt × Triangle.PointsIt) :=
  r.1.map (fun pt => (pt, tpOf r.2))

theorem TriPoints_new_src_eq_model (t : Triangle) : tpOf (TriSrc.TriPoints_new t) = Triangle.pointsIt t := by
  unfold TriSrc.TriPoints_new Triangle.pointsIt tpOf
  simp only [ScanlineIterator_new_src_eq_model, Triangle_bounding_box_src_eq_model]

theorem Triangle_points_src_eq_model (t : Triangle) :
    tpOf (TriSrc.Triangle_PointsIter_points t) = Triangle.pointsIt t := TriPoints_new_src_eq_model t

/-- One call of the regenerated `next` is one call of the hand model's `PointsIt.next`. -/
theorem TriPoints_next_src_eq_model (p : TriSrc.TriPointsS) :
    nextViewT (TriSrc.TriPoints_Iterator_next p) = (tpOf p).next := by
  unfold TriSrc.TriPoints_Iterator_next PointsIt.next nextViewT
  have hs := ScanlineIterator_next_src_eq_model p.scanline_iter
  tri_simp [tpOf]
  cases h : p.current_line.next with
  | some x => rfl
  | none =>
    simp only []
    rw [← hs]
    cases h2 : (TriSrc.ScanlineIterator_Iterator_next p.scanline_iter).1 with
    | none => rfl
    | some l =>
      simp only []
      cases h3 : l.1.next with
      | some y => rfl
      | none => rfl

/-- What a `for` loop collects from an iterator given by its `next`, in at most `fuel` steps. -/
def collectFuel {σ α : Type} (next : σ → Option α × σ) : Nat → σ → List α
  | 0, _ => []
  | fuel + 1, s =>
    match next s with
    | (some a, s') => a :: collectFuel next fuel s'
    | (none, _) => []

/-- The list collected from the regenerated iterator is the list collected from the hand model. -/
theorem TriPoints_collect_src_eq_model : ∀ (fuel : Nat) (p : TriSrc.TriPointsS),
    collectFuel TriSrc.TriPoints_Iterator_next fuel p = (tpOf p).toListFuel fuel := by
  intro fuel
  induction fuel with
  | zero => intro p; rfl
  | succ n ih =>
    intro p
    have h := TriPoints_next_src_eq_model p
    unfold collectFuel PointsIt.toListFuel
    rw [← h]
    unfold nextViewT
    cases h2 : TriSrc.TriPoints_Iterator_next p with
    | mk v s' =>
      cases v with
      | none => rfl
      | some a => simp only [Option.map_some]; rw [ih]

/-- `triangle.points()` collected from the regenerated code (budget of the hand model). -/
def srcPoints (t : Triangle) : List Pt :=
  collectFuel TriSrc.TriPoints_Iterator_next (pointsBudget t) (TriSrc.Triangle_PointsIter_points t)

/-- **The points a `for` loop over the regenerated `triangle.points()` sees are the hand model's `Triangle.points`.** -/
theorem src_points_eq_model (t : Triangle) : srcPoints t = t.points := by
  unfold srcPoints Triangle.points
  rw [TriPoints_collect_src_eq_model, Triangle_points_src_eq_model]

/-! ### C19's headline theorems over the regenerated functions -/

/-- `sorted_yx` of the regenerated code: all six vertex orders sort to the same triple. -/
theorem src_sorted_yx_perm (t t' : Triangle) (h : t' ∈ orders t) :
    TriSrc.Triangle_sorted_yx t' = TriSrc.Triangle_sorted_yx t := by
  rw [Triangle_sorted_yx_src_eq_model, Triangle_sorted_yx_src_eq_model]; exact sorted_yx_perm t t' h
example : (⟨⟨3, 1⟩, ⟨0, 0⟩, ⟨5, 7⟩⟩ : Triangle) ∈ orders ⟨⟨0, 0⟩, ⟨5, 7⟩, ⟨3, 1⟩⟩ := by decide

/-- **The regenerated `points()` yields the same list for all six vertex orders.** -/
theorem src_points_order_independent (t t' : Triangle) (h : t' ∈ orders t) : srcPoints t' = srcPoints t := by
  rw [src_points_eq_model, src_points_eq_model]; exact triangle_points_order_independent t t' h
example : (⟨⟨3, 1⟩, ⟨0, 0⟩, ⟨5, 7⟩⟩ : Triangle) ∈ orders ⟨⟨0, 0⟩, ⟨5, 7⟩, ⟨3, 1⟩⟩ := by decide

/-- Closed form of the regenerated `points()`: one span per row of the bounding box. -/
theorem src_points_closed_form (t : Triangle) :
    srcPoints t = (rowsSpec t.span t.boundingBox.tl.y t.boundingBox.rowsEnd).take t.pointsBudget := by
  rw [src_points_eq_model]; exact triangle_points_closed_form t

/-- **A degenerate triangle (regenerated `area_doubled` = 0) is the line between its `(y, x)`-extreme vertices**:
the regenerated `scanline_intersection` intersects that single line, the regenerated `points()` has exactly that
line's pixels, and the line is the first edge followed by the second without the joint. -/
theorem src_degenerate_triangle_is_line (t : Triangle) (ha : TriSrc.Triangle_area_doubled t = 0) :
    (∀ y, TriSrc.Triangle_scanline_intersection t y =
      (Scanline.newEmpty y).bint ⟨(TriSrc.Triangle_sorted_yx t).v1, (TriSrc.Triangle_sorted_yx t).v3⟩) ∧
    (t.boundingBox.InRange → ∀ p, p ∈ srcPoints t ↔
      p ∈ Line.points ⟨(TriSrc.Triangle_sorted_yx t).v1, (TriSrc.Triangle_sorted_yx t).v3⟩) ∧
    Line.points ⟨(TriSrc.Triangle_sorted_yx t).v1, (TriSrc.Triangle_sorted_yx t).v3⟩ =
      Line.points ⟨(TriSrc.Triangle_sorted_yx t).v1, (TriSrc.Triangle_sorted_yx t).v2⟩ ++
        (Line.points ⟨(TriSrc.Triangle_sorted_yx t).v2, (TriSrc.Triangle_sorted_yx t).v3⟩).tail := by
  rw [Triangle_area_doubled_src_eq_model] at ha
  simp only [Triangle_scanline_intersection_src_eq_model, Triangle_sorted_yx_src_eq_model, src_points_eq_model]
  have h := degenerate_triangle_is_line t ha
  exact ⟨h.1, h.2.1, h.2.2.2⟩
example : TriSrc.Triangle_area_doubled ⟨⟨4, 6⟩, ⟨0, 0⟩, ⟨2, 3⟩⟩ = 0 ∧
    (⟨⟨4, 6⟩, ⟨0, 0⟩, ⟨2, 3⟩⟩ : Triangle).boundingBox.InRange := by decide

/-- Nothing else of the impls of `Triangle`, `ScanlineIterator`, `triangle::Points`, `Polyline`, `polyline::Points`
is outside the translation: an added function (an override of `Iterator::nth` or `fold`, say) changes this list. -/
theorem tri_untranslated_pinned : TriSrc.untranslated =
    [("impl Dimensions for Polyline", ["bounding_box"]),
     ("impl Transform for Polyline", ["translate_mut"]),
     ("impl ScanlineIntersections", ["edge_intersections"]),
     ("impl Triangle", ["is_collapsed", "joins"]),
     ("impl Transform for Triangle", ["translate", "translate_mut"])] := by decide

end EG.C19.Src
