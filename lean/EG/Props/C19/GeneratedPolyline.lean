/-
  C19 — the REGENERATED `Polyline` / `polyline::Points` equal the hand-written model (`EG/Model/Polyline.lean`).

  `tools/tr_trisrc.py` translates src/primitives/polyline/mod.rs (`Polyline::new`, `Transform::translate`,
  `PointsIter::points`) and src/primitives/polyline/points.rs (`Points::new` with its `split_first().and_then(..
  first().map(..)).unwrap_or_else(..)` chain, `Iterator::next` with its `?`s, the assignments to `self.vertices` /
  `self.segment_iter` and the recursion through `self.nth(1)`) into `EG.Generated.TriSrc.Polyline_* / PolyPoints_*`.
  `next` calls itself through the default `Iterator::nth`; the regenerated function runs on explicit fuel (one unit
  per level of that recursion; each level drops a vertex). This file proves that one regenerated `next` on `fuel`
  is exactly the hand model's `nextFuel fuel` (same point, same state after; `None` together) for EVERY fuel, that
  `Points::new` builds the model's initial state, hence that the list a `for` loop collects from the regenerated
  iterator is `Polyline.points`, and restates C19's polyline theorems over the regenerated code.

  Differences: `line::Points` (the segment iterator) and `Line::new` are not regenerated here (the prelude binds them
  to the hand model of the line, C17's subject); a slice is a list; `next` returns (`Option<Point>`, state after)
  where the hand model returns `Option (point, state after)` (`nextViewP`). No guard is needed.
-/
import EG.Props.C19.Generated
import EG.Props.C19.Polyline
namespace EG.C19.Src
open EG EG.Polyline EG.RectSrcPrelude EG.TriSrcPrelude EG.Generated EG.C16.Src

theorem Polyline_new_src_eq_model (vs : List Pt) : TriSrc.Polyline_new vs = Polyline.new vs := rfl

theorem Polyline_translate_src_eq_model (pl : Polyline) (d : Pt) :
    TriSrc.Polyline_Transform_translate pl d = pl.translateBy d := rfl

/-- The regenerated `Points { vertices, translate, segment_iter }` as the hand model's record. -/
def ppOf (p : TriSrc.PolyPointsS) : Polyline.PointsIt := ⟨p.vertices, p.translate, p.segment_iter⟩

/-- What one call of `next` shows to the caller, in the hand model's vocabulary. -/
def nextViewP (r : Option Pt × TriSrc.PolyPointsS) : Option (Pt × Polyline.PointsIt) :=
  r.1.map (fun pt => (pt, ppOf r.2))

theorem PolyPoints_new_src_eq_model (pl : Polyline) : ppOf (TriSrc.PolyPoints_new pl) = Polyline.pointsIt pl := by
  unfold TriSrc.PolyPoints_new Polyline.pointsIt
  cases hv : pl.vertices with
  | nil => tri_simp [hv, ppOf]; rfl
  | cons a rest =>
    cases rest with
    | nil => tri_simp [hv, ppOf]; rfl
    | cons b rest' => tri_simp [hv, ppOf, Point_add_src_eq_model]

theorem Polyline_points_src_eq_model (pl : Polyline) :
    ppOf (TriSrc.Polyline_PointsIter_points pl) = Polyline.pointsIt pl := PolyPoints_new_src_eq_model pl

/-- One call of the regenerated `next` on `fuel` is the hand model's `nextFuel fuel`, for every fuel. -/
theorem PolyPoints_next_fuel_src_eq_model : ∀ (fuel : Nat) (p : TriSrc.PolyPointsS),
    nextViewP (TriSrc.PolyPoints_Iterator_next fuel p) = (ppOf p).nextFuel fuel := by
  intro fuel
  induction fuel with
  | zero => intro p; rfl
  | succ n ih =>
    intro p
    unfold TriSrc.PolyPoints_Iterator_next PointsIt.nextFuel
    tri_simp [ppOf, nextViewP, Point_add_src_eq_model]
    cases hs : p.segment_iter.next with
    | some x => rfl
    | none =>
      simp only []
      cases hv : p.vertices with
      | nil => rfl
      | cons a rest =>
        cases rest with
        | nil => rfl
        | cons b rest' =>
          simp only [iterator_nth]
          have h1 := ih { p with vertices := b :: rest', segment_iter := Line.pointsIt ⟨a + p.translate, b + p.translate⟩ }
          unfold nextViewP ppOf at h1
          simp only [] at h1
          rw [← h1]
          cases hq : TriSrc.PolyPoints_Iterator_next n
              { p with vertices := b :: rest', segment_iter := Line.pointsIt ⟨a + p.translate, b + p.translate⟩ } with
          | mk v s' =>
            cases v with
            | none => rfl
            | some q =>
              simp only [Option.map_some]
              have h2 := ih s'
              unfold nextViewP ppOf at h2
              exact h2

/-- One call of `next` with the fuel the hand model's `PointsIt.next` uses (the number of vertices left + 1). -/
def srcPolyNext (p : TriSrc.PolyPointsS) : Option Pt × TriSrc.PolyPointsS :=
  TriSrc.PolyPoints_Iterator_next (p.vertices.length + 1) p

theorem PolyPoints_next_src_eq_model (p : TriSrc.PolyPointsS) : nextViewP (srcPolyNext p) = (ppOf p).next :=
  PolyPoints_next_fuel_src_eq_model _ p

/-- The list collected from the regenerated iterator is the list collected from the hand model. -/
theorem PolyPoints_collect_src_eq_model : ∀ (fuel : Nat) (p : TriSrc.PolyPointsS),
    collectFuel srcPolyNext fuel p = (ppOf p).toListFuel fuel := by
  intro fuel
  induction fuel with
  | zero => intro p; rfl
  | succ n ih =>
    intro p
    have h := PolyPoints_next_src_eq_model p
    unfold collectFuel PointsIt.toListFuel
    rw [← h]
    unfold nextViewP
    cases h2 : srcPolyNext p with
    | mk v s' =>
      cases v with
      | none => rfl
      | some a => simp only [Option.map_some]; rw [ih]

/-- `polyline.points()` collected from the regenerated code (budget of the hand model). -/
def srcPolyPoints (pl : Polyline) : List Pt :=
  collectFuel srcPolyNext (budget pl.translate pl.vertices) (TriSrc.Polyline_PointsIter_points pl)

/-- **The points a `for` loop over the regenerated `polyline.points()` sees are the hand model's `Polyline.points`.** -/
theorem src_polyline_points_eq_model (pl : Polyline) : srcPolyPoints pl = pl.points := by
  unfold srcPolyPoints Polyline.points
  rw [PolyPoints_collect_src_eq_model, Polyline_points_src_eq_model]

/-! ### C19's polyline theorems over the regenerated functions -/

/-- **The regenerated `Polyline::points()` is the first segment line followed by the later segment lines without
their first point** (each joint once), for all vertex lists. -/
theorem src_polyline_points (tr v0 v1 : Pt) (rest : List Pt) :
    srcPolyPoints ⟨tr, v0 :: v1 :: rest⟩ = Line.points ⟨v0 + tr, v1 + tr⟩ ++ laterSegments tr (v1 :: rest) := by
  rw [src_polyline_points_eq_model]; exact polyline_points tr v0 v1 rest

/-- Fewer than two vertices: the regenerated iterator yields nothing. -/
theorem src_polyline_points_short (tr : Pt) (vs : List Pt) (h : vs.length < 2) : srcPolyPoints ⟨tr, vs⟩ = [] := by
  rw [src_polyline_points_eq_model]; exact polyline_points_short tr vs h
example : ([⟨3, 4⟩] : List Pt).length < 2 := by decide

/-- The joint of two segments is emitted once by the regenerated iterator. -/
theorem src_polyline_joint_once (tr v0 v1 v2 : Pt) :
    srcPolyPoints ⟨tr, [v0, v1, v2]⟩ =
      Line.points ⟨v0 + tr, v1 + tr⟩ ++ (Line.points ⟨v1 + tr, v2 + tr⟩).tail := by
  rw [src_polyline_points_eq_model]; exact polyline_joint_once tr v0 v1 v2

/-- The regenerated `translate` only moves the `translate` field; the points move with it. -/
theorem src_polyline_points_translate (tr d : Pt) (vs : List Pt) :
    srcPolyPoints (TriSrc.Polyline_Transform_translate ⟨tr, vs⟩ d) = (srcPolyPoints ⟨tr, vs⟩).map (· + d) := by
  rw [Polyline_translate_src_eq_model, src_polyline_points_eq_model, src_polyline_points_eq_model]
  exact polyline_points_translate tr d vs

end EG.C19.Src
