/-
  C19 — "a one-pixel triangle outline consists of its three edge lines": the join code at stroke
  width 1. The triangle scanline code (`edge_intersections`) builds, for every edge, a
  `ThickSegment` from two `LineJoin::from_points(.., 1, offset)` and intersects it with the row;
  `ScanlineIntersections::new` asks the join code whether the stroke has collapsed
  (`is_collapsed(1, offset) && offset == Right`).
  Proved here, for ALL three alignments (`StrokeOffset::None / Left / Right` = `Center / Outside /
  Inside`): `Line::extents(1, _)` is the line itself twice (for Left / Right: the last parallel of
  one side is the centre line), every corner of a width-1 join is its middle vertex - for every
  join kind, without rounding -, the segment is a skeleton segment and its scanline is the
  Bresenham intersection of the plain edge `Line(v[i+1], v[i+2])`; a width-1 join is never
  `Degenerate`, and `is_collapsed(1, _)` is `area_doubled <= 0`.
  Lemmas: EG.Lemmas.JoinsWidth1, JoinsBBoxWidth1Off, JoinsWidth1Align.
  `skeleton_seg_is_join_code` identifies that scanline with the parameter `skeletonSeg` of the
  triangle outline model, `collapsed_flag_is_join_code` the flag with `Triangle.collapsedFlag1`
  (EG/Model/TriangleAligned.lean); over these two the outline is proved to be the three edge lines
  (`outline_is_edge_lines`, `outline_all_alignments`, Props/C19/Triangle.lean).
-/
import EG.Lemmas.JoinsWidth1
import EG.Lemmas.JoinsWidth1Align
import EG.Model.ThickPolyline
import EG.Model.Triangle
import EG.Model.ThickTriangle
import EG.Model.TriangleAligned
namespace EG.C19.Joins
open EG EG.Joins

/-- `Line::extents(1, StrokeOffset::None)` is the line itself, twice. -/
theorem extents_width1 (l : Line) : extents l 1 .none = some (l, l) :=
  extents_width1_none l

/-- `Line::extents(1, offset)` is the line itself, twice, for every stroke offset (`Left` / `Right`
take the last parallel of one side: with thickness 1 that is the centre line). -/
theorem extents_width1_any (l : Line) (off : Thick.StrokeOffset) : extents l 1 off = some (l, l) :=
  EG.Joins.extents_width1 l off

/-- Every corner of a width-1 join is its middle vertex (guard: the vertex is an `i32` point, so
the cast of the exact intersection does not saturate). -/
theorem join_width1_corners (a m b : Pt) (hx : inI32 m.x) (hy : inI32 m.y) :
    ∃ j, LineJoin.fromPoints a m b 1 .none = some j ∧
      j.firstEdgeEnd = ⟨m, m⟩ ∧ j.secondEdgeStart = ⟨m, m⟩ :=
  fromPoints_width1 a m b hx hy

example : inI32 (⟨-1, 5⟩ : Pt).x ∧ inI32 (⟨-1, 5⟩ : Pt).y := by decide

/-- The same for every stroke offset. -/
theorem join_width1_corners_any (a m b : Pt) (off : Thick.StrokeOffset) (hx : inI32 m.x) (hy : inI32 m.y) :
    ∃ j, LineJoin.fromPoints a m b 1 off = some j ∧
      j.firstEdgeEnd = ⟨m, m⟩ ∧ j.secondEdgeStart = ⟨m, m⟩ ∧ j.isDegenerate = false := by
  refine ⟨join1 a m b, fromPoints_width1_eq a m b off, (join1_corners a m b hx hy).1,
    (join1_corners a m b hx hy).2, join1_not_degenerate a m b⟩

example : inI32 (⟨-1, 5⟩ : Pt).x ∧ inI32 (⟨-1, 5⟩ : Pt).y := by decide

/-- The thick segment of one triangle / polyline edge at stroke width 1 is the thin edge line, for
every stroke offset: it is a skeleton segment and paints, in every row, the Bresenham intersection
of `Line(m1, m2)`. -/
theorem one_pixel_segment_is_edge_line (a m1 m2 b : Pt) (off : Thick.StrokeOffset) (h1x : inI32 m1.x)
    (h1y : inI32 m1.y) (h2x : inI32 m2.x) (h2y : inI32 m2.y) :
    ∃ j1 j2, LineJoin.fromPoints a m1 m2 1 off = some j1 ∧
      LineJoin.fromPoints m1 m2 b 1 off = some j2 ∧
      (ThickSegment.mk j1 j2).isSkeleton = true ∧
      ∀ y, (ThickSegment.mk j1 j2).intersection y = bint (Scanline.newEmpty y) ⟨m1, m2⟩ :=
  segment_width1_off a m1 m2 b off h1x h1y h2x h2y

example : inI32 (⟨-5, -4⟩ : Pt).x ∧ inI32 (⟨-5, -4⟩ : Pt).y ∧ inI32 (⟨-5, -1⟩ : Pt).x ∧
    inI32 (⟨-5, -1⟩ : Pt).y := by decide

-- the three edges of the triangle (-5,-4), (-5,-1), (-1,-4) in row -3
example : (do
    let j1 ← LineJoin.fromPoints ⟨-1, -4⟩ ⟨-5, -4⟩ ⟨-5, -1⟩ 1 .none
    let j2 ← LineJoin.fromPoints ⟨-5, -4⟩ ⟨-5, -1⟩ ⟨-1, -4⟩ 1 .none
    pure ((ThickSegment.mk j1 j2).intersection (-3))) =
    some (bint (Scanline.newEmpty (-3)) ⟨⟨-5, -4⟩, ⟨-5, -1⟩⟩) := by decide
-- the same edge with `StrokeOffset::Right` (Inside) and `StrokeOffset::Left` (Outside)
example : (do
    let j1 ← LineJoin.fromPoints ⟨-1, -4⟩ ⟨-5, -4⟩ ⟨-5, -1⟩ 1 .right
    let j2 ← LineJoin.fromPoints ⟨-5, -4⟩ ⟨-5, -1⟩ ⟨-1, -4⟩ 1 .right
    pure ((ThickSegment.mk j1 j2).intersection (-3))) =
    some (bint (Scanline.newEmpty (-3)) ⟨⟨-5, -4⟩, ⟨-5, -1⟩⟩) := by decide
example : (do
    let j1 ← LineJoin.fromPoints ⟨-1, -4⟩ ⟨-5, -4⟩ ⟨-5, -1⟩ 1 .left
    let j2 ← LineJoin.fromPoints ⟨-5, -4⟩ ⟨-5, -1⟩ ⟨-1, -4⟩ 1 .left
    pure ((ThickSegment.mk j1 j2).intersection (-3))) =
    some (bint (Scanline.newEmpty (-3)) ⟨⟨-5, -4⟩, ⟨-5, -1⟩⟩) := by decide

/-- A one-pixel polyline: `draw` is one `draw_iter` call with `points()`, and `pixels()` is
`points()` (the `Thin` arm of `StyledPixelsIterator`) - definitional, these are the `1 =>` arms of
the model as of the source. The picture on both targets and the `translate` field:
`EG.C19.one_pixel_polyline_picture`, `one_pixel_polyline_picture_translate`; the union-of-segments
claim about `points()` itself: `EG.C19.polyline_points`, `polyline_point_set`
(Props/C19/Polyline.lean). -/
theorem one_pixel_polyline_is_points (pl : Polyline) :
    pixels pl 1 = some (Polyline.points pl) ∧
    (match drawStyled pl 1 with | some (.drawIter pts) => pts = Polyline.points pl | _ => False) :=
  ⟨rfl, rfl⟩

/-- The two transcriptions of `Scanline::bresenham_intersection(&line)` (thick-segment model and
triangle model) are the same function: they differ only in where the y-range test sits. -/
theorem joins_bint_eq_scanline_bint (s : Scanline) (l : Line) : Joins.bint s l = s.bint l := by
  unfold Joins.bint Scanline.bint Scanline.bresenhamIntersection
  dsimp only
  cases (if l.start.y ≤ l.stop.y then decide (l.start.y ≤ s.y ∧ s.y ≤ l.stop.y)
    else decide (l.stop.y ≤ s.y ∧ s.y ≤ l.start.y)) <;> rfl

/-- **The model parameter `skeletonSeg` of the triangle outline model IS the join code at width 1,
for every stroke offset** (`None` = Center, `Left` = Outside, `Right` = Inside): for edge `idx` of a
triangle, `edge_intersections` builds
`ThickSegment::new(LineJoin::from_points(v[idx], v[idx+1], v[idx+2], 1, off),
                   LineJoin::from_points(v[idx+1], v[idx+2], v[idx+3], 1, off))`;
that segment is a skeleton segment and its `intersection(y)` is `Triangle.skeletonSeg t idx y`, the
function over which `outline_is_edge_lines` / `outline_all_alignments` (Props/C19/Triangle.lean) are
proved. Guard: the vertices are `i32` points (the cast of the exact join intersection does not
saturate). -/
theorem skeleton_seg_is_join_code (t : Triangle) (idx : Nat) (off : Thick.StrokeOffset)
    (h : ∀ i, inI32 (t.vertex i).x ∧ inI32 (t.vertex i).y) :
    ∃ j1 j2,
      LineJoin.fromPoints (t.vertex idx) (t.vertex (idx + 1)) (t.vertex (idx + 2)) 1 off = some j1 ∧
      LineJoin.fromPoints (t.vertex (idx + 1)) (t.vertex (idx + 2)) (t.vertex (idx + 3)) 1 off = some j2 ∧
      (ThickSegment.mk j1 j2).isSkeleton = true ∧
      ∀ y, (ThickSegment.mk j1 j2).intersection y = t.skeletonSeg idx y := by
  obtain ⟨j1, j2, e1, e2, hs, hi⟩ := segment_width1_off (t.vertex idx) (t.vertex (idx + 1))
    (t.vertex (idx + 2)) (t.vertex (idx + 3)) off (h _).1 (h _).2 (h _).1 (h _).2
  refine ⟨j1, j2, e1, e2, hs, fun y => ?_⟩
  rw [hi y, joins_bint_eq_scanline_bint]
  rfl

example : ∀ i, inI32 ((⟨⟨-5, -4⟩, ⟨-5, -1⟩, ⟨-1, -4⟩⟩ : Triangle).vertex i).x ∧
    inI32 ((⟨⟨-5, -4⟩, ⟨-5, -1⟩, ⟨-1, -4⟩⟩ : Triangle).vertex i).y := by
  intro i
  unfold Triangle.vertex
  split <;> decide

/-! ## `is_collapsed` at stroke width 1 -/

/-- **`Triangle::is_collapsed(1, offset)` is `area_doubled <= 0`**, for every stroke offset and
every triangle with `i32` vertices: no width-1 join is `Degenerate`, the inner point of each join is
its vertex, the "opposite edge" `extents(1, offset).1` is the plain opposite edge, and the signed
distance of the vertex from it is `area_doubled` for each of the three joins. -/
theorem is_collapsed_width1 (t : Tri) (off : Thick.StrokeOffset) (hi : TriI32 t) :
    t.isCollapsed 1 off = some (decide (t.areaDoubled ≤ 0)) :=
  isCollapsed_width1 t off hi

example : TriI32 ⟨⟨-5, -4⟩, ⟨-5, -1⟩, ⟨-1, -4⟩⟩ := by decide

/-- For the `sorted_clockwise` triangle (the one `ScanlineIterator::new` passes on) that is
`area_doubled == 0`: only colinear / coincident vertices collapse a one-pixel stroke. -/
theorem is_collapsed_width1_sorted (t : Tri) (off : Thick.StrokeOffset) (hi : TriI32 t) :
    t.sortedClockwise.isCollapsed 1 off = some (decide (t.areaDoubled = 0)) :=
  isCollapsed_width1_sortedClockwise t off hi

example : TriI32 ⟨⟨0, 0⟩, ⟨4, 6⟩, ⟨2, 3⟩⟩ ∧ (Tri.mk ⟨0, 0⟩ ⟨4, 6⟩ ⟨2, 3⟩).areaDoubled = 0 := by decide

/-- **The model parameter `collapsedFlag1` of the aligned outline model
(EG/Model/TriangleAligned.lean) IS the flag `ScanlineIntersections::new` computes at stroke width 1**
(`triangle.is_collapsed(1, offset) && offset == StrokeOffset::Right`), for every alignment; the
other fields are the ones passed in. -/
theorem collapsed_flag_is_join_code (tc : Tri) (a : TriAlign) (hasFill : Bool) (y : Int)
    (hi : TriI32 tc) (it : TriIntersections)
    (h : TriIntersections.new tc 1 (alignOffset a) hasFill y = some it) :
    it.isCollapsed = tc.toTriangle.collapsedFlag1 a ∧ it.triangle = tc ∧ it.strokeWidth = 1 ∧
      it.strokeOffset = alignOffset a ∧ it.hasFill = hasFill := by
  obtain ⟨_, h2, h3, h4, h5⟩ := new_isCollapsed_width1 tc _ hasFill y hi it h
  exact ⟨new_isCollapsed_eq_flag tc a hasFill y hi it h, h2, h3, h4, h5⟩

example : TriI32 ⟨⟨0, 0⟩, ⟨2, 3⟩, ⟨4, 6⟩⟩ ∧
    (TriIntersections.new ⟨⟨0, 0⟩, ⟨2, 3⟩, ⟨4, 6⟩⟩ 1 (alignOffset .inside) false 0).isSome = true := by
  decide

/-- `alignOffset` is `StrokeOffset::from(StrokeAlignment)`. -/
theorem alignOffset_eq : alignOffset .inside = StrokeAlignment.inside.toOffset ∧
    alignOffset .center = StrokeAlignment.center.toOffset ∧
    alignOffset .outside = StrokeAlignment.outside.toOffset := ⟨rfl, rfl, rfl⟩

/-! ## The two transcriptions of the styled-triangle iterators at stroke width 1

`EG.Joins.triPixels` (EG/Model/ThickTriangle.lean: every width and alignment, join code inlined;
tied to the real `pixels()` by the `thick.triangle` stream) and `Triangle.outlinePixelsAligned`
(EG/Model/TriangleAligned.lean: width 1, the join code replaced by its two proved values
`skeletonSeg` / `collapsedFlag1`; tied to the real `pixels()` by the `tri.outline_al` stream: all
ordered vertex triples of the unit grid with Inside and Outside alignment) transcribe the same Rust
iterators. Their general equality is not proved; it is kernel-checked here on a sample (all three
alignments; proper, colinear and coincident triangles, both orientations); evaluated (`#eval`, not
part of the build) they agree on all 4096 vertex triples of a 4 x 4 grid x 3 alignments. -/

/-- `StrokeAlignment` of the join model. -/
def alignJ : TriAlign → StrokeAlignment
  | .inside => .inside
  | .center => .center
  | .outside => .outside

def sampleTriangles : List Triangle :=
  [⟨⟨0, 0⟩, ⟨3, 1⟩, ⟨2, 4⟩⟩, ⟨⟨0, 0⟩, ⟨2, 4⟩, ⟨3, 1⟩⟩, ⟨⟨0, 0⟩, ⟨2, 3⟩, ⟨4, 6⟩⟩,
   ⟨⟨4, 6⟩, ⟨0, 0⟩, ⟨2, 3⟩⟩, ⟨⟨1, 1⟩, ⟨1, 1⟩, ⟨4, 3⟩⟩, ⟨⟨2, -1⟩, ⟨2, -1⟩, ⟨2, -1⟩⟩]

theorem aligned_outline_models_agree_on_sample :
    ∀ t ∈ sampleTriangles, ∀ a ∈ [TriAlign.inside, TriAlign.center, TriAlign.outside],
      triPixels ⟨t.v1, t.v2, t.v3⟩ ⟨none, some 7, 1, alignJ a⟩ =
        some (t.outlinePixelsAligned 7 a) := by
  decide +kernel

end EG.C19.Joins
