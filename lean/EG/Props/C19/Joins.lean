/-
  C19 — "a one-pixel triangle outline consists of its three edge lines": the join code at stroke
  width 1. The triangle scanline code (`edge_intersections`) builds, for every edge, a
  `ThickSegment` from two `LineJoin::from_points(.., 1, offset)` and intersects it with the row.
  Proved here for the centre alignment (`StrokeOffset::None`, the default of
  `PrimitiveStyle::with_stroke`): that segment is a skeleton segment and its scanline is the
  Bresenham intersection of the plain edge `Line(v[i+1], v[i+2])` - for every join kind, without
  rounding (the edge lines of a width-1 stroke are the lines themselves and meet exactly in the
  shared vertex). Lemmas: EG.Lemmas.JoinsWidth1. `skeleton_seg_is_join_code` identifies that scanline
  with the parameter `skeletonSeg` of the triangle outline model, over which the merge of the three
  edge scanlines per row is proved (`outline_is_edge_lines`, Props/C19/Triangle.lean).
-/
import EG.Lemmas.JoinsWidth1
import EG.Model.ThickPolyline
import EG.Model.Triangle
namespace EG.C19.Joins
open EG EG.Joins

/-- `Line::extents(1, StrokeOffset::None)` is the line itself, twice. -/
theorem extents_width1 (l : Line) : extents l 1 .none = some (l, l) :=
  extents_width1_none l

/-- Every corner of a width-1 join is its middle vertex (guard: the vertex is an `i32` point, so
the cast of the exact intersection does not saturate). -/
theorem join_width1_corners (a m b : Pt) (hx : inI32 m.x) (hy : inI32 m.y) :
    ∃ j, LineJoin.fromPoints a m b 1 .none = some j ∧
      j.firstEdgeEnd = ⟨m, m⟩ ∧ j.secondEdgeStart = ⟨m, m⟩ :=
  fromPoints_width1 a m b hx hy

example : inI32 (⟨-1, 5⟩ : Pt).x ∧ inI32 (⟨-1, 5⟩ : Pt).y := by decide

/-- The thick segment of one triangle / polyline edge at stroke width 1 is the thin edge line:
it is a skeleton segment and paints, in every row, the Bresenham intersection of `Line(m1, m2)`. -/
theorem one_pixel_segment_is_edge_line (a m1 m2 b : Pt) (h1x : inI32 m1.x) (h1y : inI32 m1.y)
    (h2x : inI32 m2.x) (h2y : inI32 m2.y) :
    ∃ j1 j2, LineJoin.fromPoints a m1 m2 1 .none = some j1 ∧
      LineJoin.fromPoints m1 m2 b 1 .none = some j2 ∧
      (ThickSegment.mk j1 j2).isSkeleton = true ∧
      ∀ y, (ThickSegment.mk j1 j2).intersection y = bint (Scanline.newEmpty y) ⟨m1, m2⟩ :=
  segment_width1 a m1 m2 b h1x h1y h2x h2y

-- the three edges of the triangle (-5,-4), (-5,-1), (-1,-4) in row -3
example : (do
    let j1 ← LineJoin.fromPoints ⟨-1, -4⟩ ⟨-5, -4⟩ ⟨-5, -1⟩ 1 .none
    let j2 ← LineJoin.fromPoints ⟨-5, -4⟩ ⟨-5, -1⟩ ⟨-1, -4⟩ 1 .none
    pure ((ThickSegment.mk j1 j2).intersection (-3))) =
    some (bint (Scanline.newEmpty (-3)) ⟨⟨-5, -4⟩, ⟨-5, -1⟩⟩) := by decide

/-- A one-pixel polyline: `draw` is one `draw_iter` call with `points()`, and `pixels()` is
`points()` (the `Thin` arm of `StyledPixelsIterator`); the union-of-segments claim about
`points()` itself is `EG.C19.polyline_points` (Props/C19/Polyline.lean). -/
theorem one_pixel_polyline_is_points (pl : Polyline) :
    pixels pl 1 = some (Polyline.points pl) ∧
    (match drawStyled pl 1 with | some (.drawIter pts) => pts = Polyline.points pl | _ => False) :=
  ⟨rfl, rfl⟩

/-- The two transcriptions of `Scanline::bresenham_intersection(&line)` (thick-segment model and
triangle model) are the same function: they differ only in where the y-range test sits. -/
theorem joins_bint_eq_scanline_bint (s : Scanline) (l : Line) : Joins.bint s l = s.bint l := by
  unfold Joins.bint Scanline.bint Scanline.bresenhamIntersection
  dsimp only
  cases (if l.start.y ≤ l.stop.y then decide (l.start.y ≤ s.y ∧ s.y ≤ l.stop.y)
    else decide (l.stop.y ≤ s.y ∧ s.y ≤ l.start.y)) <;> rfl

/-- **The model parameter `skeletonSeg` of the triangle outline model IS the join code at width 1**:
for edge `idx` of a triangle, `edge_intersections` builds
`ThickSegment::new(LineJoin::from_points(v[idx], v[idx+1], v[idx+2], 1, None),
                   LineJoin::from_points(v[idx+1], v[idx+2], v[idx+3], 1, None))`;
that segment is a skeleton segment and its `intersection(y)` is `Triangle.skeletonSeg t idx y`, the
function over which `outline_is_edge_lines` (Props/C19/Triangle.lean) is proved. Guard: the vertices
are `i32` points (the cast of the exact join intersection does not saturate). -/
theorem skeleton_seg_is_join_code (t : Triangle) (idx : Nat)
    (h : ∀ i, inI32 (t.vertex i).x ∧ inI32 (t.vertex i).y) :
    ∃ j1 j2,
      LineJoin.fromPoints (t.vertex idx) (t.vertex (idx + 1)) (t.vertex (idx + 2)) 1 .none = some j1 ∧
      LineJoin.fromPoints (t.vertex (idx + 1)) (t.vertex (idx + 2)) (t.vertex (idx + 3)) 1 .none = some j2 ∧
      (ThickSegment.mk j1 j2).isSkeleton = true ∧
      ∀ y, (ThickSegment.mk j1 j2).intersection y = t.skeletonSeg idx y := by
  obtain ⟨j1, j2, e1, e2, hs, hi⟩ := segment_width1 (t.vertex idx) (t.vertex (idx + 1))
    (t.vertex (idx + 2)) (t.vertex (idx + 3)) (h _).1 (h _).2 (h _).1 (h _).2
  refine ⟨j1, j2, e1, e2, hs, fun y => ?_⟩
  rw [hi y, joins_bint_eq_scanline_bint]
  rfl

example : ∀ i, inI32 ((⟨⟨-5, -4⟩, ⟨-5, -1⟩, ⟨-1, -4⟩⟩ : Triangle).vertex i).x ∧
    inI32 ((⟨⟨-5, -4⟩, ⟨-5, -1⟩, ⟨-1, -4⟩⟩ : Triangle).vertex i).y := by
  intro i
  unfold Triangle.vertex
  split <;> decide

-- [V] the one-pixel outline with Inside / Outside alignment (StrokeOffset::Right / Left: `extents` takes the last parallel of one side) is the same three edge lines: carried by correspondence + oracle only

end EG.C19.Joins
