/-
  C19 — "a one-pixel triangle outline consists of its three edge lines": the join code at stroke
  width 1. The triangle scanline code (`edge_intersections`) builds, for every edge, a
  `ThickSegment` from two `LineJoin::from_points(.., 1, offset)` and intersects it with the row.
  Proved here for the centre alignment (`StrokeOffset::None`, the default of
  `PrimitiveStyle::with_stroke`): that segment is a skeleton segment and its scanline is the
  Bresenham intersection of the plain edge `Line(v[i+1], v[i+2])` - for every join kind, without
  rounding (the edge lines of a width-1 stroke are the lines themselves and meet exactly in the
  shared vertex). Lemmas: EG.Lemmas.JoinsWidth1.
-/
import EG.Lemmas.JoinsWidth1
import EG.Model.ThickPolyline
namespace EG.C19.Joins
open EG EG.Joins

/-- `Line::extents(1, StrokeOffset::None)` is the line itself, twice. -/
theorem extents_width1 (l : Line) : extents l 1 .none = some (l, l) :=
  extents_width1_none l

/-- Every corner of a width-1 join is its middle vertex (guard: the vertex is an `i32` point, so
the cast of the exact intersection does not saturate). -/
theorem join_width1_corners (a m b : Pt) (hx : inI32 m.x) (hy : inI32 m.y) :
    ∃ j, LineJoin.fromPoints a m b 1 .none = some j ∧
      j.firstEdgeEnd = ⟨m, m⟩ ∧ j.secondEdgeStart = ⟨m, m⟩ :=
  fromPoints_width1 a m b hx hy

example : inI32 (⟨-1, 5⟩ : Pt).x ∧ inI32 (⟨-1, 5⟩ : Pt).y := by decide

/-- The thick segment of one triangle / polyline edge at stroke width 1 is the thin edge line:
it is a skeleton segment and paints, in every row, the Bresenham intersection of `Line(m1, m2)`. -/
theorem one_pixel_segment_is_edge_line (a m1 m2 b : Pt) (h1x : inI32 m1.x) (h1y : inI32 m1.y)
    (h2x : inI32 m2.x) (h2y : inI32 m2.y) :
    ∃ j1 j2, LineJoin.fromPoints a m1 m2 1 .none = some j1 ∧
      LineJoin.fromPoints m1 m2 b 1 .none = some j2 ∧
      (ThickSegment.mk j1 j2).isSkeleton = true ∧
      ∀ y, (ThickSegment.mk j1 j2).intersection y = bint (Scanline.newEmpty y) ⟨m1, m2⟩ :=
  segment_width1 a m1 m2 b h1x h1y h2x h2y

-- the three edges of the triangle (-5,-4), (-5,-1), (-1,-4) in row -3
example : (do
    let j1 ← LineJoin.fromPoints ⟨-1, -4⟩ ⟨-5, -4⟩ ⟨-5, -1⟩ 1 .none
    let j2 ← LineJoin.fromPoints ⟨-5, -4⟩ ⟨-5, -1⟩ ⟨-1, -4⟩ 1 .none
    pure ((ThickSegment.mk j1 j2).intersection (-3))) =
    some (bint (Scanline.newEmpty (-3)) ⟨⟨-5, -4⟩, ⟨-5, -1⟩⟩) := by decide

/-- A one-pixel polyline: `draw` is one `draw_iter` call with `points()`, and `pixels()` is
`points()` (the `Thin` arm of `StyledPixelsIterator`); the union-of-segments claim about
`points()` itself is `EG.C19.polyline_points` (Props/C19/Polyline.lean). -/
theorem one_pixel_polyline_is_points (pl : Polyline) :
    pixels pl 1 = some (Polyline.points pl) ∧
    (match drawStyled pl 1 with | some (.drawIter pts) => pts = Polyline.points pl | _ => False) :=
  ⟨rfl, rfl⟩

-- [V] the one-pixel outline with Inside / Outside alignment (StrokeOffset::Right / Left: `extents` takes the last parallel of one side) is the same three edge lines: carried by correspondence + oracle only
-- [V] the merge of the three edge scanlines per row (`edge_intersections`: left / right accumulators, `try_extend`) yields exactly the union of the three edge lines' points, in one of the two orientations of each edge: carried by correspondence + oracle only

end EG.C19.Joins
