/-
  C19 (polyline part) — "a one-pixel polyline equals the union of its segment lines with shared
  joints emitted once". Model: `EG.Polyline.points` (= `Polyline::points()`,
  src/primitives/polyline/points.rs). Helper lemmas: EG/Lemmas/Polyline.lean.

  The styled polyline with stroke width 1 (`EG.Joins.drawStyled` / `pixels`,
  EG/Model/ThickPolyline.lean = src/primitives/polyline/styled.rs): `draw_styled` is ONE
  `draw_iter` call with `points().map(|p| Pixel(p, stroke_color))`, and `pixels()` is the `Thin` arm
  `points()`; both are the `1 =>` arms of the model, so `one_pixel_polyline_is_points` is
  definitional (`rfl`) - the thick-polyline code is reached for widths above 1 only. What is not
  definitional is the picture: `one_pixel_polyline_picture` - on a target with any box, through
  the native methods or the trait defaults, the pixels painted are exactly the points of `points()`
  inside the box, in the stroke colour (a point of a self-crossing polyline is written several
  times, always with the same colour) - and `one_pixel_polyline_picture_translate`: the `translate`
  field moves the picture.
-/
import EG.Lemmas.Polyline
import EG.Lemmas.PolylineSet
import EG.Lemmas.RectTranslate
import EG.Model.ThickPolyline
namespace EG.C19
open EG EG.Polyline

/-- The union of the segment lines after the first, each without its first point (the joint shared
with the previous segment). -/
def laterSegments (tr : Pt) : List Pt → List Pt
  | [] => []
  | [_] => []
  | a :: b :: rest => (Line.points ⟨a + tr, b + tr⟩).tail ++ laterSegments tr (b :: rest)

theorem laterSegments_eq (tr : Pt) : ∀ vs, laterSegments tr vs = tailSegs tr vs
  | [] => rfl
  | [_] => rfl
  | a :: b :: rest => by simp only [laterSegments, tailSegs, laterSegments_eq tr (b :: rest)]

/-- `Polyline::points()` of vertices `v0, v1, v2, ..` (all shifted by the `translate` field) is
`points(v0 v1) ++ tail (points(v1 v2)) ++ tail (points(v2 v3)) ++ ..`: the union of the segment
lines in order, each joint emitted once — for all vertex lists, also through repeated vertices
(zero-length segments contribute nothing after their joint) and reversals. -/
theorem polyline_points (tr v0 v1 : Pt) (rest : List Pt) :
    (Polyline.points ⟨tr, v0 :: v1 :: rest⟩) =
      Line.points ⟨v0 + tr, v1 + tr⟩ ++ laterSegments tr (v1 :: rest) := by
  rw [points_eq_spec, laterSegments_eq]; rfl

/-- Fewer than two vertices: no point at all. -/
theorem polyline_points_short (tr : Pt) (vs : List Pt) (h : vs.length < 2) :
    Polyline.points ⟨tr, vs⟩ = [] := by
  rw [points_eq_spec]
  match vs, h with
  | [], _ => rfl
  | [_], _ => rfl

example : ([⟨3, 4⟩] : List Pt).length < 2 := by decide

/-- The joint is emitted once: a segment's contribution after the first segment starts with the
point after the joint (the first point of `Line.points` is its start, C17 `points_head`). -/
theorem polyline_joint_once (tr v0 v1 v2 : Pt) :
    Polyline.points ⟨tr, [v0, v1, v2]⟩ =
      Line.points ⟨v0 + tr, v1 + tr⟩ ++ (Line.points ⟨v1 + tr, v2 + tr⟩).tail := by
  rw [polyline_points]; simp [laterSegments]

/-- Translating the polyline (the `translate` field) shifts every point. -/
theorem polyline_points_translate (tr d : Pt) (vs : List Pt) :
    Polyline.points ((⟨tr, vs⟩ : Polyline).translateBy d) = (Polyline.points ⟨tr, vs⟩).map (· + d) := by
  have hline : ∀ a b : Pt, Line.points ⟨a + (tr + d), b + (tr + d)⟩ =
      (Line.points ⟨a + tr, b + tr⟩).map (· + d) := by
    intro a b
    rw [← Line.points_translate]
    congr 1
    simp only [Line.translate, Line.mk.injEq, Pt.ext_iff', Pt.add_x, Pt.add_y]
    refine ⟨⟨?_, ?_⟩, ?_, ?_⟩ <;> omega
  have htail : ∀ ws : List Pt, tailSegs (tr + d) ws = (tailSegs tr ws).map (· + d) := by
    intro ws
    induction ws with
    | nil => rfl
    | cons a t ih =>
      cases t with
      | nil => rfl
      | cons b u =>
        simp only [tailSegs, List.map_append, hline, List.map_tail]
        rw [ih]
  rw [points_eq_spec, points_eq_spec]
  unfold pointsSpec translateBy
  match vs with
  | [] => rfl
  | [_] => rfl
  | a :: b :: u =>
    simp only [List.map_append, hline, htail]

/-! ## The point set: the union of the segment lines -/

/-- **A one-pixel polyline equals the union of its segment lines** (as a point set; the list form
with each joint emitted once is `polyline_points`): `p` is a point of `points()` iff it is a point
of `Line(v[i], v[i+1]).points()` for some `i`. For all vertex lists and every `translate`. -/
theorem polyline_point_set (tr : Pt) (vs : List Pt) (p : Pt) :
    p ∈ Polyline.points ⟨tr, vs⟩ ↔ ∃ l ∈ segments tr vs, p ∈ Line.points l := by
  match vs with
  | [] => rw [polyline_points_short tr [] (by decide)]; simp [segments]
  | [a] => rw [polyline_points_short tr [a] (by simp)]; simp [segments]
  | a :: b :: rest =>
    rw [polyline_points]
    have hstop : b + tr ∈ Line.points ⟨a + tr, b + tr⟩ := Line.stop_mem_points ⟨a + tr, b + tr⟩
    have hl := later_segments_set tr p rest b
    rw [← laterSegments_eq] at hl
    simp only [segments, List.mem_append, List.mem_cons, exists_eq_or_imp]
    constructor
    · rintro (h | h)
      · exact Or.inl h
      · rcases hl.mp (Or.inr h) with h' | h'
        · left; rw [h']; exact hstop
        · exact Or.inr h'
    · rintro (h | h)
      · exact Or.inl h
      · rcases hl.mpr (Or.inr h) with h' | h'
        · left; rw [h']; exact hstop
        · exact Or.inr h'

/-! ## The styled polyline with stroke width 1 -/

/-- The calls of `draw_styled` on a target, for the stroke colour `c`: nothing, one `draw_iter`
with the points paired with `c`, or one `fill_solid` per rectangle. -/
def polyCalls (c : Color) : Joins.PolyDraw → List Call
  | .nothing => []
  | .drawIter pts => [Call.drawIter (pts.map (fun p => (p, c)))]
  | .fillSolids rs => rs.map (fun r => Call.fillSolid r c)

/-- **Definitional** (the `1 =>` arms of the model, as of the source): with stroke width 1
`draw_styled` is one `draw_iter` call with `points()`, and `pixels()` is `points()`. -/
theorem one_pixel_polyline_is_points (pl : Polyline) (c : Color) :
    Joins.drawStyled pl 1 = some (.drawIter (Polyline.points pl)) ∧
    Joins.pixels pl 1 = some (Polyline.points pl) ∧
    (Joins.drawStyled pl 1).map (polyCalls c) =
      some [Call.drawIter ((Polyline.points pl).map (fun p => (p, c)))] :=
  ⟨rfl, rfl, rfl⟩

/-- **A stroke-width-1 styled polyline draws exactly the point set of `points()`**: on a target
with box `B`, whether it implements the fill methods natively or through the trait defaults, a
point carries the stroke colour iff it is a point of `points()` inside `B`, and nothing otherwise. -/
theorem one_pixel_polyline_picture (pl : Polyline) (c : Color) (B : Rect) (d : Joins.PolyDraw)
    (hd : Joins.drawStyled pl 1 = some d) (p : Pt) :
    runNative B (polyCalls c d) p =
      (if p ∈ Polyline.points pl ∧ B.contains p = true then some c else none) ∧
    runDefault B (polyCalls c d) p = runNative B (polyCalls c d) p := by
  have e : d = .drawIter (Polyline.points pl) := by
    have : Joins.drawStyled pl 1 = some (.drawIter (Polyline.points pl)) := rfl
    rw [this] at hd
    exact (Option.some.inj hd).symm
  subst e
  unfold polyCalls
  rw [runNative_drawIter, runDefault_drawIter]
  exact ⟨picture_of_points B _ c p, rfl⟩

example : Joins.drawStyled ⟨⟨1, 0⟩, [⟨0, 0⟩, ⟨3, 2⟩, ⟨0, 2⟩, ⟨3, 0⟩]⟩ 1 =
    some (.drawIter (Polyline.points ⟨⟨1, 0⟩, [⟨0, 0⟩, ⟨3, 2⟩, ⟨0, 2⟩, ⟨3, 0⟩]⟩)) := rfl

/-- **The `translate` field moves the picture**: the polyline translated by `d`, drawn on the
target moved by `d`, paints at `p + d` what the polyline paints at `p`. -/
theorem one_pixel_polyline_picture_translate (tr d : Pt) (vs : List Pt) (c : Color) (B : Rect)
    (p : Pt) :
    runNative (B.translate d)
        (polyCalls c (.drawIter (Polyline.points ((⟨tr, vs⟩ : Polyline).translateBy d)))) (p + d) =
      runNative B (polyCalls c (.drawIter (Polyline.points ⟨tr, vs⟩))) p ∧
    runDefault (B.translate d)
        (polyCalls c (.drawIter (Polyline.points ((⟨tr, vs⟩ : Polyline).translateBy d)))) (p + d) =
      runDefault B (polyCalls c (.drawIter (Polyline.points ⟨tr, vs⟩))) p := by
  have key : PMap.empty.apply (clipWrites (B.translate d)
        ((Polyline.points ((⟨tr, vs⟩ : Polyline).translateBy d)).map (fun q => (q, c)))) (p + d) =
      PMap.empty.apply (clipWrites B ((Polyline.points ⟨tr, vs⟩).map (fun q => (q, c)))) p := by
    rw [picture_of_points, picture_of_points, polyline_points_translate, Rect.contains_translate]
    have hm : p + d ∈ (Polyline.points ⟨tr, vs⟩).map (· + d) ↔ p ∈ Polyline.points ⟨tr, vs⟩ := by
      rw [List.mem_map]
      constructor
      · rintro ⟨q, hq, he⟩
        have e : q = p := by
          rw [Pt.ext_iff'] at he ⊢
          simp only [Pt.add_x, Pt.add_y] at he
          constructor <;> omega
        rw [e] at hq
        exact hq
      · intro h; exact ⟨p, h, rfl⟩
    simp only [hm]
  unfold polyCalls
  rw [runNative_drawIter, runNative_drawIter, runDefault_drawIter, runDefault_drawIter]
  exact ⟨key, key⟩

end EG.C19
