/-
  C19 (polyline part) — "a one-pixel polyline equals the union of its segment lines with shared
  joints emitted once". Model: `EG.Polyline.points` (= `Polyline::points()`,
  src/primitives/polyline/points.rs). Helper lemmas: EG/Lemmas/Polyline.lean.

  -- [V] a stroke-width-1 styled polyline draws exactly the point set of `points()` (`draw` goes through the thick-polyline code only for width > 1): carried by correspondence + oracle only
-/
import EG.Lemmas.Polyline
namespace EG.C19
open EG EG.Polyline

/-- The union of the segment lines after the first, each without its first point (the joint shared
with the previous segment). -/
def laterSegments (tr : Pt) : List Pt → List Pt
  | [] => []
  | [_] => []
  | a :: b :: rest => (Line.points ⟨a + tr, b + tr⟩).tail ++ laterSegments tr (b :: rest)

theorem laterSegments_eq (tr : Pt) : ∀ vs, laterSegments tr vs = tailSegs tr vs
  | [] => rfl
  | [_] => rfl
  | a :: b :: rest => by simp only [laterSegments, tailSegs, laterSegments_eq tr (b :: rest)]

/-- `Polyline::points()` of vertices `v0, v1, v2, ..` (all shifted by the `translate` field) is
`points(v0 v1) ++ tail (points(v1 v2)) ++ tail (points(v2 v3)) ++ ..`: the union of the segment
lines in order, each joint emitted once — for all vertex lists, also through repeated vertices
(zero-length segments contribute nothing after their joint) and reversals. -/
theorem polyline_points (tr v0 v1 : Pt) (rest : List Pt) :
    (Polyline.points ⟨tr, v0 :: v1 :: rest⟩) =
      Line.points ⟨v0 + tr, v1 + tr⟩ ++ laterSegments tr (v1 :: rest) := by
  rw [points_eq_spec, laterSegments_eq]; rfl

/-- Fewer than two vertices: no point at all. -/
theorem polyline_points_short (tr : Pt) (vs : List Pt) (h : vs.length < 2) :
    Polyline.points ⟨tr, vs⟩ = [] := by
  rw [points_eq_spec]
  match vs, h with
  | [], _ => rfl
  | [_], _ => rfl

example : ([⟨3, 4⟩] : List Pt).length < 2 := by decide

/-- The joint is emitted once: a segment's contribution after the first segment starts with the
point after the joint (the first point of `Line.points` is its start, C17 `points_head`). -/
theorem polyline_joint_once (tr v0 v1 v2 : Pt) :
    Polyline.points ⟨tr, [v0, v1, v2]⟩ =
      Line.points ⟨v0 + tr, v1 + tr⟩ ++ (Line.points ⟨v1 + tr, v2 + tr⟩).tail := by
  rw [polyline_points]; simp [laterSegments]

/-- Translating the polyline (the `translate` field) shifts every point. -/
theorem polyline_points_translate (tr d : Pt) (vs : List Pt) :
    Polyline.points ((⟨tr, vs⟩ : Polyline).translateBy d) = (Polyline.points ⟨tr, vs⟩).map (· + d) := by
  have hline : ∀ a b : Pt, Line.points ⟨a + (tr + d), b + (tr + d)⟩ =
      (Line.points ⟨a + tr, b + tr⟩).map (· + d) := by
    intro a b
    rw [← Line.points_translate]
    congr 1
    simp only [Line.translate, Line.mk.injEq, Pt.ext_iff', Pt.add_x, Pt.add_y]
    refine ⟨⟨?_, ?_⟩, ?_, ?_⟩ <;> omega
  have htail : ∀ ws : List Pt, tailSegs (tr + d) ws = (tailSegs tr ws).map (· + d) := by
    intro ws
    induction ws with
    | nil => rfl
    | cons a t ih =>
      cases t with
      | nil => rfl
      | cons b u =>
        simp only [tailSegs, List.map_append, hline, List.map_tail]
        rw [ih]
  rw [points_eq_spec, points_eq_spec]
  unfold pointsSpec translateBy
  match vs with
  | [] => rfl
  | [_] => rfl
  | a :: b :: u =>
    simp only [List.map_append, hline, htail]

end EG.C19
