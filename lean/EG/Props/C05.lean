/-
  C05 — property theorems (placeholder: no theorem yet, the property is not claimed).
-/
import EG.Basic.Core
namespace EG.C05
end EG.C05
