/-
  C17 — lines. Property theorems about the models `EG.Line.points` (= `Line::points()`,
  src/primitives/line/{bresenham,points}.rs) and `EG.Thick.thickPoints` (= the pixels of a stroked
  line, src/primitives/line/{thick_points,styled}.rs). Helper lemmas: EG/Lemmas/Line*.lean.

  Property text: "Line::points() starts at start, ends at end, has max(|dx|, |dy|) + 1 points, each
  step moves one pixel along the major axis and at most one along the minor axis, and every point
  is within half a pixel of the ideal line. A stroked line of width w contains the thin line,
  yields no pixel twice, stays within w/2 + 2.5 pixels of the ideal line and within one pixel of
  the segment's two ends, is at least w - 1 pixels wide at its middle, and for width 1 equals
  points()."

  TIE BY REGENERATION: EG/Props/C17/GeneratedLine.lean and GeneratedThick.lean prove the hand models used here equal, function
  by function and for all inputs, to definitions that tools/tr_linesrc.py regenerates from the Rust text on every check
  (EG/Generated/LineSrc.lean, ThickSrc.lean), and restate the theorems below over the regenerated functions (`src_*`).

  All thin-line claims are proved for all end points (unbounded integers). Of the stroked-line
  sentence "for width 1 equals points()" (`thick_width1_eq_points`) and "contains the thin line"
  (`thick_contains_thin`: the centre line is the first parallel emitted, for every width) are
  theorems, and the model is total (`thick_points_total`: for every line and width it yields a
  list; no loop bound or step budget is ever exhausted). "Yields no pixel twice" and "within one
  pixel of the segment's two ends" are theorems of EG/Props/C17/Stroke.lean (`thick_no_pixel_twice`,
  `thick_within_one_pixel_of_ends`, with the oracle's exact metrics, every line and width), and so is
  the "no hole" reading of the middle width (`thick_solid`: every lattice point within w/2 - 1 of the
  ideal line and at least 1 px inside both ends is a stroked pixel). The others:
  -- [V] a stroked line stays within w/2 + 2.5 pixels of the ideal line AS DRAWN (no discount), on the oblique strokes of width <= 33 that have more `Extra` parallels than the guard of `thick_band_partial` allows: carried by correspondence + oracle only (the oracle never saw a failure below width 34; the first real failure is at width 34, so no inequality with slack can close it). Proved in EG/Props/C17/Stroke.lean: `thick_band_with_skipped_discount` - EVERY line and width: with the skipped `Extra` steps of the pixel's side discounted (t = 2|cross| - 2 min(|dx|,|dy|) sk(side), the oracle's exact form and counters) every pixel is within w/2 + 1.25 px, hence within the oracle's attribution tolerance w/2 + 1.5 (`thick_band_overcount_explained_all`: on the model EVERY band failure is the known finding) and the text's w/2 + 2.5 (`thick_band_discounted_all`); `thick_band_axis_parallel_or_diagonal` - axis-parallel, diagonal and zero-length lines of every width, even within w/2 + 0.75 as drawn; `thick_band_partial` - as drawn, every stroke with 2 (D - d) E <= 7 D + d, E = number of Extra parallels, D/d = max/min(|dx|,|dy|); `thick_band_overcount_partial` - as drawn, every stroke: distance <= w/2 + (3D - d)/(4L) + (E/2)(D - d)/L
  -- [V] [N] "a stroked line stays within w/2 + 2.5 pixels of the ideal line" for ALL widths is FALSE of the model and of the real code (KNOWN FINDING, class `C17:thick-band:wide-stroke-overcount`; kernel-decided witness `thick_band_false`: line (0,0)-(2,1) width 37, pixel (9,-19); on the real code from width 34, corpus/C17.ops): `next_parallel` skips an `Extra` perpendicular step without adding its thickness to the accumulator (`next_adds_one_step`, `skipped_step_not_counted`), wide oblique strokes are up to ~11 % too wide; the oracle reports every occurrence under that class exactly when each pixel is inside the band after the uncounted displacement min(|dx|,|dy|)/L per skipped step of its side is discounted, any other band failure keeps the class `C17:thick-band` (theorem `thick_band_overcount_explained_all`, EG/Props/C17/Stroke.lean: on the MODEL the discounted predicate holds for every stroke, even with 1.25 px, so the unsuffixed class can fire only on a stroke that departs from the model, which the correspondence would report as well)
  -- [V] a stroked line is at least w - 1 pixels wide at its middle, read as the perpendicular EXTENT of the middle slab ((max cross - min cross)^2 >= (w - 2)^2 L2 over the pixels whose projection is within one pixel of the midpoint; `Stroke.ThickMiddleWidth`), on the oblique strokes outside the three proved regimes: carried by correspondence + oracle only. Proved (EG/Props/C17/Stroke.lean): the full claim for axis-parallel and diagonal lines of every width (`thick_middle_width_axis_parallel_or_diagonal`), for every stroke with enough Extra parallels, 5D + d - 2(D - d)E <= 4L (`thick_middle_width_extras_partial`), and for flat thin strokes, (w - 2) d^2 <= 2D (`thick_middle_width_flat_partial`) - together 83 % of all strokes with D <= 40, 3 <= w <= 40; for EVERY line of non-zero length and every width the solid reading (`thick_solid`: no hole within w/2 - 1 of the line) and `thick_middle_width_partial` (the middle slab is never empty and its extent is at least w - 3, one pixel less than claimed). The claim has no slack: on (0,0)-(D,1) with w = 2D the margin is (1 + 1/D)/L px (0.0084 px at D = 120, tending to 0; this family lies in the flat regime and is proved), so the rest needs the exact positions of the parallels' minor steps relative to the slab, not an inequality; no counterexample exists for max(|dx|,|dy|) <= 60 x w <= 40 (all octants), min <= 8 x max <= 120 x w <= 6 max/min + 10, max <= 40 x w <= 400 (searched on the real code)
-/
import EG.Lemmas.LineProps
import EG.Lemmas.ThickWidth1
import EG.Lemmas.ThickAccumulator
import EG.Lemmas.ThickTotal
namespace EG.C17
open EG EG.Line

/-- `max(|dx|, |dy|)` of a line. -/
def majorLen (l : Line) : Nat := max (l.stop.x - l.start.x).natAbs (l.stop.y - l.start.y).natAbs

/-- The y axis is the major axis (ties count as y-major, as in `BresenhamParameters::new`). -/
def yIsMajor (l : Line) : Prop := (l.stop.y - l.start.y).natAbs ≥ (l.stop.x - l.start.x).natAbs

theorem dmaj_eq_majorLen (l : Line) : dmaj l = (majorLen l : Int) := by
  unfold dmaj yMajor aabs dxOf dyOf majorLen; omega

theorem yMajor_iff (l : Line) : yMajor l ↔ yIsMajor l := by
  unfold yMajor yIsMajor aabs dxOf dyOf; omega

/-- `points()` starts at `start`. -/
theorem points_head (l : Line) : (points l).head? = some l.start := by
  rw [points_eq, List.range_succ_eq_map]
  simp [ptAt_zero]

/-- `points()` ends at `end`. -/
theorem points_last (l : Line) : (points l).getLast? = some l.stop := by
  rw [points_eq, List.range_succ, List.map_append]
  simp only [List.map_cons, List.map_nil, List.getLast?_append, List.getLast?_singleton,
    Option.some_or]
  rw [ptAt_last l _ (by have := dmaj_nonneg l; omega)]

/-- `points()` has `max(|dx|, |dy|) + 1` points. -/
theorem points_length (l : Line) : (points l).length = majorLen l + 1 := by
  rw [points_length']; have := dmaj_eq_majorLen l; omega

/-- Each step moves exactly one pixel along the major axis and at most one along the minor axis. -/
theorem points_steps (l : Line) (i : Nat) (h : i + 1 < (points l).length) :
    (yIsMajor l →
      ((points l)[i + 1].y - (points l)[i].y).natAbs = 1 ∧
      ((points l)[i + 1].x - (points l)[i].x).natAbs ≤ 1) ∧
    (¬ yIsMajor l →
      ((points l)[i + 1].x - (points l)[i].x).natAbs = 1 ∧
      ((points l)[i + 1].y - (points l)[i].y).natAbs ≤ 1) := by
  rw [points_getElem, points_getElem]
  obtain ⟨hy, hx⟩ := ptAt_step l i
  rw [← yMajor_iff]
  refine ⟨fun hm => ?_, fun hm => ?_⟩
  · obtain ⟨h1, h2⟩ := hy hm
    rcases sgn_cases (dyOf l) with ⟨_, s1, _⟩ | ⟨_, s1, _⟩ <;>
      rcases sgn_cases (dxOf l) with ⟨_, s2, _⟩ | ⟨_, s2, _⟩ <;>
      refine ⟨?_, ?_⟩ <;> omega
  · obtain ⟨h1, h2⟩ := hx hm
    rcases sgn_cases (dyOf l) with ⟨_, s1, _⟩ | ⟨_, s1, _⟩ <;>
      rcases sgn_cases (dxOf l) with ⟨_, s2, _⟩ | ⟨_, s2, _⟩ <;>
      refine ⟨?_, ?_⟩ <;> omega

example : (3 : Nat) + 1 < (points ⟨⟨1, 2⟩, ⟨5, 4⟩⟩).length := by decide

/-- Every point is within half a pixel of the ideal line (measured along the minor axis):
`|2 (dx (y - y0) - dy (x - x0))| ≤ max(|dx|, |dy|)`. -/
theorem points_within_half_pixel (l : Line) (p : Pt) (hp : p ∈ points l) :
    (2 * ((l.stop.x - l.start.x) * (p.y - l.start.y)
        - (l.stop.y - l.start.y) * (p.x - l.start.x))).natAbs ≤ majorLen l := by
  obtain ⟨k, hk, rfl⟩ := mem_points.mp hp
  have := ptAt_cross l k hk
  have := dmaj_eq_majorLen l
  unfold dxOf dyOf at *
  omega

example : (⟨3, 3⟩ : Pt) ∈ points ⟨⟨1, 2⟩, ⟨5, 4⟩⟩ := by decide

/-- A zero-length line yields exactly `[start]`. -/
theorem points_zero_length (s : Pt) : points ⟨s, s⟩ = [s] := Line.points_zero_length s

/-- Every point lies coordinate-wise between `start` and `end` (used by C02). -/
theorem line_points_in_box (l : Line) (p : Pt) (hp : p ∈ points l) :
    min l.start.x l.stop.x ≤ p.x ∧ p.x ≤ max l.start.x l.stop.x ∧
    min l.start.y l.stop.y ≤ p.y ∧ p.y ≤ max l.start.y l.stop.y := by
  obtain ⟨k, hk, rfl⟩ := mem_points.mp hp
  exact ptAt_in_box l k hk

example : (⟨2, 3⟩ : Pt) ∈ points ⟨⟨5, 4⟩, ⟨1, 2⟩⟩ := by decide

/-- `points()` commutes with translation (used by C07). -/
theorem line_points_translate (l : Line) (d : Pt) :
    points (l.translate d) = (points l).map (· + d) := Line.points_translate l d

/-! ## Stroked lines (`Thick.thickPoints l w` = the points of
`Line::new(s, e).into_styled(PrimitiveStyle::with_stroke(c, w)).pixels()` in emission order;
`none` would mean that a loop bound or the step budget of the model was exceeded, see
EG/Model/ThickLine.lean; `thick_points_total`: that never happens) -/

/-- The model of a stroked line is total: for every line and every stroke width it yields a pixel
list. Neither the bound of the two inner loops (`next_parallel`, `ThickPoints::next`: at most two
rounds each) nor the step budget is ever exhausted, so the model never answers "stuck" and never
truncates; the theorems below that assume `thickPoints l w = some ps` are not vacuous for any input. -/
theorem thick_points_total (l : Line) (w : Nat) : ∃ ps, Thick.thickPoints l w = some ps :=
  Thick.thickPoints_total l w

/-- For width 1 the stroked line equals `points()` (same points, same order). -/
theorem thick_width1_eq_points (l : Line) : Thick.thickPoints l 1 = some (points l) :=
  Thick.thickPoints_width1 l

/-- A stroked line of width `w ≥ 1` contains the thin line: its pixel sequence starts with
`points()`. (`w ≤ i32::MAX`: `stroke_width.saturating_as::<i32>()` is the identity.) -/
theorem thick_contains_thin (l : Line) (w : Nat) (hw : 1 ≤ w) (hw2 : w ≤ 2147483647)
    (ps : List Pt) (h : Thick.thickPoints l w = some ps) :
    (∃ more, ps = points l ++ more) ∧ ∀ p ∈ points l, p ∈ ps := by
  obtain ⟨more, hm⟩ := Thick.thickPoints_prefix l w hw hw2 ps h
  exact ⟨⟨more, hm⟩, fun p hp => by rw [hm]; exact List.mem_append_left _ hp⟩

/-- Unconditional form: the pixel list exists and starts with `points()`. -/
theorem thick_contains_thin_total (l : Line) (w : Nat) (hw : 1 ≤ w) (hw2 : w ≤ 2147483647) :
    ∃ ps, Thick.thickPoints l w = some ps ∧ (∃ more, ps = points l ++ more) ∧
      ∀ p ∈ points l, p ∈ ps := by
  obtain ⟨ps, h⟩ := thick_points_total l w
  exact ⟨ps, h, thick_contains_thin l w hw hw2 ps h⟩

example : (1 : Nat) ≤ 85 ∧ (85 : Nat) ≤ 2147483647 := by decide

/-- Stroke width 0 draws nothing. -/
theorem thick_width0_empty (l : Line) : Thick.thickPoints l 0 = some [] :=
  Thick.thickPoints_width0 l

/-! ### The band claim "within w/2 + 2.5 pixels of the ideal line" is false for wide strokes -/

/-- `p` is within `w/2 + 2.5` pixels of the ideal line through `l` (exact form: with
`cross = dx (p.y - y0) - dy (p.x - x0)` = length × signed distance, `4 cross² ≤ (w + 5)² (dx² + dy²)`). -/
def InBand (l : Line) (w : Nat) (p : Pt) : Prop :=
  4 * ((l.stop.x - l.start.x) * (p.y - l.start.y) - (l.stop.y - l.start.y) * (p.x - l.start.x)) ^ 2
    ≤ ((w : Int) + 5) ^ 2 * ((l.stop.x - l.start.x) ^ 2 + (l.stop.y - l.start.y) ^ 2)

instance (l : Line) (w : Nat) (p : Pt) : Decidable (InBand l w p) := by unfold InBand; infer_instance

/-- The band claim of the property text, as a statement about the model (every width). -/
def ThickBandAll : Prop :=
  ∀ (l : Line) (w : Nat) (ps : List Pt), Thick.thickPoints l w = some ps → ∀ p ∈ ps, InBand l w p

/-- **[N] The band claim is false for wide strokes.** Smallest instance found: the line (0,0)-(2,1)
stroked with width 37 (129 pixels) contains the pixel (9,-19), whose distance from the ideal line
is 47/√5 = 21.02 > 37/2 + 2.5 = 21. Kernel-decided; the real code yields the same pixels
(corpus/C17.ops; on the real code the claim first fails at width 34, line (119,57)-(-119,-52)). -/
theorem thick_band_false : ¬ ThickBandAll := by
  intro h
  have hm : (match Thick.thickPoints ⟨⟨0, 0⟩, ⟨2, 1⟩⟩ 37 with
      | some ps => decide ((⟨9, -19⟩ : Pt) ∈ ps)
      | none => false) = true := by decide +kernel
  cases hps : Thick.thickPoints ⟨⟨0, 0⟩, ⟨2, 1⟩⟩ 37 with
  | none => rw [hps] at hm; exact absurd hm (by decide)
  | some ps =>
    rw [hps] at hm
    have := h ⟨⟨0, 0⟩, ⟨2, 1⟩⟩ 37 ps hps ⟨9, -19⟩ (of_decide_eq_true hm)
    exact absurd this (by decide)

/-- The mechanism, part 1: one call of `ParallelsIterator::next` that returns a parallel adds
exactly ONE perpendicular step's thickness to the accumulator - `error_step.minor` of the
perpendicular parameters for a `Normal` parallel, `error_step.major` for an `Extra` one - however
many perpendicular steps `next_parallel` took to find it. -/
theorem next_adds_one_step (it it' : Thick.ParallelsIterator) (b : Bresenham)
    (ty : Thick.ParallelLineType) (h : it.next = some (some (b, ty), it')) :
    it'.perpendicularParameters = it.perpendicularParameters ∧
    it'.thicknessAccumulator = it.thicknessAccumulator +
      (match ty with
       | .normal => it.perpendicularParameters.errorStep.minor
       | .extra => it.perpendicularParameters.errorStep.major) :=
  Thick.next_adds_one_step it it' b ty h

example : ((Thick.ParallelsIterator.new ⟨⟨0, 0⟩, ⟨2, 1⟩⟩ 37 .none).bind (·.next)).bind (·.1) =
    some (⟨⟨0, 0⟩, 0⟩, .normal) := by decide

/-- The mechanism, part 2: when the perpendicular walk of a side yields an `Extra` point and the
parallel error does not wrap, `next_parallel` loops: the start point of that side has moved by the
perpendicular `position_step.minor` (one pixel along the line's major axis, `min(|dx|,|dy|)/L`
pixels away from the line) and the accumulator is unchanged - the step is never counted. -/
theorem skipped_step_not_counted (fuel : Nat) (it : Thick.ParallelsIterator)
    (hx : it.left.error > it.perpendicularParameters.errorThreshold)
    (hflip : it.flip = false)
    (hw : (it.parallelParameters.increaseError it.leftError).2 = false) :
    Thick.ParallelsIterator.nextParallelFuel (fuel + 1) it .left =
      Thick.ParallelsIterator.nextParallelFuel fuel
        { it with
          left := ⟨it.left.point + it.perpendicularParameters.positionStep.minor,
                   it.left.error - it.perpendicularParameters.errorStep.minor⟩
          leftError := (it.parallelParameters.increaseError it.leftError).1 } .left :=
  Thick.nextParallelFuel_skip_left fuel it hx hflip hw

/-- The state of the parallels iterator of the line (0,0)-(2,1), width 37, after three calls of
`next` (centre line, first left, first right parallel): the next left perpendicular point is an
`Extra` one (`left.error = 4 > 2`) and the parallel error does not wrap (`0 + 2 ≤ 2`). -/
def skipState : Thick.ParallelsIterator :=
  { parallelParameters := ⟨2, ⟨2, 4⟩, ⟨⟨1, 0⟩, ⟨0, 1⟩⟩⟩
    perpendicularParameters := ⟨2, ⟨2, 4⟩, ⟨⟨0, -1⟩, ⟨1, 0⟩⟩⟩
    thicknessAccumulator := 13, thicknessThreshold := 27380, flip := false
    left := ⟨⟨0, -2⟩, 4⟩, leftError := 0, right := ⟨⟨-1, 1⟩, 2⟩, rightError := 2
    nextSide := .left, strokeOffset := .none }

/-- `skipState` is reached by the model, satisfies the hypotheses of `skipped_step_not_counted`,
and its `next` call moves the left start point by TWO perpendicular steps, (0,-2) -> (1,-3) (from
cross -4 to cross -7, i.e. 3/√5 px farther from the line), while the accumulator grows by one
`Normal` step only, 13 -> 17 (= 2·2, i.e. 2/√5 px). -/
example :
    ((Thick.ParallelsIterator.new ⟨⟨0, 0⟩, ⟨2, 1⟩⟩ 37 .none).bind (fun it0 =>
      (it0.next).bind (fun r1 => (r1.2.next).bind (fun r2 => (r2.2.next).map (·.2))))) = some skipState ∧
    skipState.left.error > skipState.perpendicularParameters.errorThreshold ∧
    skipState.flip = false ∧
    (skipState.parallelParameters.increaseError skipState.leftError).2 = false ∧
    (skipState.next).map (fun r => (r.1.map (·.2), r.2.left.point, r.2.thicknessAccumulator)) =
      some (some .normal, ⟨1, -3⟩, 17) := by decide

example : Thick.thickPoints ⟨⟨2, 2⟩, ⟨6, 4⟩⟩ 3 =
    some [⟨2, 2⟩, ⟨3, 2⟩, ⟨4, 3⟩, ⟨5, 3⟩, ⟨6, 4⟩, ⟨2, 1⟩, ⟨3, 1⟩, ⟨4, 2⟩, ⟨5, 2⟩, ⟨6, 3⟩,
          ⟨2, 3⟩, ⟨3, 3⟩, ⟨4, 4⟩, ⟨5, 4⟩, ⟨3, 0⟩, ⟨4, 1⟩, ⟨5, 1⟩, ⟨6, 2⟩, ⟨7, 2⟩] := by decide

end EG.C17
