/-
  C17 — property theorems (placeholder: no theorem yet, the property is not claimed).
-/
import EG.Basic.Core
namespace EG.C17
end EG.C17
