/-
  C06 — property theorems (placeholder: no theorem yet, the property is not claimed).
-/
import EG.Basic.Core
namespace EG.C06
end EG.C06
