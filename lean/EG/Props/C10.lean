/-
  C10 — property theorems (placeholder: no theorem yet, the property is not claimed).
-/
import EG.Basic.Core
namespace EG.C10
end EG.C10
