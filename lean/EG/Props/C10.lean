/-
  C10 — Framebuffer reads back what was written, in the layout of ImageRaw.

  Property theorems only (helper lemmas: EG/Lemmas/Framebuffer.lean, FramebufferHist.lean, on top of
  the C11 lemmas EG/Lemmas/Raw*.lean). All statements are about the model `EG.Model.Framebuffer`
  (a literal transcription of src/framebuffer.rs and of `ImageRaw::{new, data_width, pixel}`, tied
  to the code by the `fb.hist` correspondence stream over 7 depths x 2 orders x 5 sizes x 2 buffer
  lengths of the real, macro-instantiated `Framebuffer`).

  Second tie for the WRITE path: EG/Props/C10/Generated.lean proves `Fb.setPixel`, `Fb.drawIter`, `Fb.new`, `bufferSize`
  equal to the definitions regenerated from src/framebuffer.rs on every check (EG/Generated/FbSrc.lean).

  Quantifiers: `fb` ranges over ALL well-formed framebuffers (`Fb.Wf`: one of the seven raw types,
  either data order, ANY width and height, ANY `N >= BUFFER_SIZE` below 2^61 bytes, any byte
  content); points over all of `Int x Int`; colours over all raw values of the depth (`c < 2^bits`,
  what `C::into()` yields); histories over ALL lists of writes / `DrawTarget` calls.
  Everything is proved for all inputs; the only kernel-evaluated ingredient is C11's byte-level
  table for the sub-byte depths.

  Not modelled: `ImageRaw::pixel` compares `p.x >= self.size.width as i32`; the `as i32` cast wraps
  for WIDTH/HEIGHT above `i32::MAX` (no such framebuffer fits in memory at >= 1 bit per pixel times
  2^31 columns only if HEIGHT is tiny — outside every display scale); the model compares in `Int`.

  -- (closed) the colour <-> raw conversions `C::into()` / `C::from(raw)` lose nothing: get / set and histories restated in COLOURS for every built-in colour type in Props/C10/Colours.lean (from C12 `into_fits`, `raw_roundtrip`); the Rust-level remainder is listed there
-/
import EG.Lemmas.FramebufferHist
namespace EG.C10
open EG EG.Raw EG.Fb

/-! ### Buffer size and row padding -/

/-- `buffer_size`: rows are padded to whole bytes. -/
theorem buffer_size_spec (w h bits : Nat) :
    bufferSize w h bits = (w * bits + 7) / 8 * h ∧ bufferSize w h bits = bytesPerRow w bits * h :=
  ⟨rfl, rfl⟩

/-- The used prefix holds exactly `height` rows of `rowPixels >= width` pixels (the padding
pixels of a row are never addressed), and every pixel of the area has its index — hence all of
its bytes — inside that prefix: no slice access of `set_pixel` can be out of bounds. -/
theorem rows_padded (fb : Fb) (hw : fb.Wf) :
    pixelCount fb.bits fb.bufSize = fb.height * fb.rowPixels ∧ fb.width ≤ fb.rowPixels ∧
    ∀ p, fb.inside p → fb.index p < pixelCount fb.bits fb.bufSize :=
  ⟨pixelCount_bufSize fb hw.bits, width_le_rowPixels fb hw.bits,
    fun _ hp => index_lt_prefix fb hw.bits hp⟩

/-- Distinct pixels of the area occupy distinct raw indices (hence, by C11, disjoint bits). -/
theorem index_injective (fb : Fb) (hw : fb.Wf) {p q : Pt} (hp : fb.inside p) (hq : fb.inside q)
    (h : fb.index p = fb.index q) : p = q :=
  index_inj fb hw.bits hp hq h

/-! ### Reader and writer agree -/

/-- `pixel(p)` is `load` at index `x + y * data_width` of the data, `None` outside WIDTH x HEIGHT;
`set_pixel` inside is `store` at the same index (all three macro families). -/
theorem pixel_is_load_set_pixel_is_store (fb : Fb) (hw : fb.Wf) (p : Pt) (c : Nat) :
    (fb.pixel p = if fb.inside p then load fb.bits fb.order fb.data (fb.index p) else none) ∧
    (fb.inside p →
      fb.setPixel p c = { fb with data := (store fb.bits fb.order c fb.data (fb.index p)).2 }) :=
  ⟨pixel_eq_load fb hw p, fun hp => setPixel_inside fb hw c hp⟩

/-- get/set: after `set_pixel(p, c)`, `pixel(q)` is `c` at `q = p` (if `p` is inside) and what it
was everywhere else — for every depth, both orders, every size and every `N`. -/
theorem get_set (fb : Fb) (hw : fb.Wf) (p : Pt) {c : Nat} (hc : c < 2 ^ fb.bits) (q : Pt) :
    (fb.setPixel p c).pixel q = if q = p ∧ fb.inside p then some c else fb.pixel q :=
  pixel_setPixel fb hw p hc q

/-- `pixel` is `None` exactly outside WIDTH x HEIGHT. -/
theorem pixel_none_iff_outside (fb : Fb) (hw : fb.Wf) (q : Pt) :
    fb.pixel q = none ↔ ¬ fb.inside q := by
  rw [pixel_eq_load fb hw]
  by_cases hq : fb.inside q
  · simp only [hq, ↓reduceIte, not_true_eq_false, iff_false]
    obtain ⟨v, hv⟩ := load_inside hw.bits fb.order fb.data _ (index_lt fb hw hq)
    rw [hv]; simp
  · simp only [hq, ↓reduceIte, not_false_eq_true]

/-- `set_pixel` keeps the framebuffer well formed (so every statement here applies again). -/
theorem set_pixel_wf (fb : Fb) (hw : fb.Wf) (p : Pt) {c : Nat} (hc : c < 2 ^ fb.bits) :
    (fb.setPixel p c).Wf := setPixel_wf fb hw p hc

/-! ### Histories -/

/-- After ANY sequence of pixel writes on a fresh framebuffer, `pixel(q)` is the colour most
recently written to `q` (`PMap.apply`: last write wins), the all-zero colour if `q` was never
written, and `None` outside WIDTH x HEIGHT. -/
theorem history_refines_map {bits : Nat} (hb : validBits bits = true) (o : Order) (w h n : Nat)
    (hn : bufferSize w h bits ≤ n) (hf : n * 8 ≤ usizeMax) (ws : Writes) (hc : ColorsOk bits ws)
    (q : Pt) :
    ((Fb.new bits o w h n).drawIter ws).pixel q =
      if (Fb.new bits o w h n).inside q then some (((PMap.empty.apply ws) q).getD 0) else none := by
  have := (refines_drawIter _ (new_wf hb o w h n hn hf) _ (new_refines hb o w h n hn hf) ws hc).2 q
  rw [this]
  by_cases hq : (Fb.new bits o w h n).inside q
  · have hq' := (drawIter_inside_iff (Fb.new bits o w h n) ws q).mpr hq
    simp only [hq, hq', ↓reduceIte]
  · have hq' : ¬ ((Fb.new bits o w h n).drawIter ws).inside q :=
      fun h => hq ((drawIter_inside_iff _ ws q).mp h)
    simp only [hq, hq', ↓reduceIte]

/-- The same from any well-formed state that agrees with an abstract map (e.g. after `data_mut`). -/
theorem history_refines_map_from (fb : Fb) (hw : fb.Wf) (m : PMap) (hr : Refines fb m)
    (ws : Writes) (hc : ColorsOk fb.bits ws) :
    (fb.drawIter ws).Wf ∧ Refines (fb.drawIter ws) (m.apply ws) :=
  refines_drawIter fb hw m hr ws hc

/-- Drawing operations other than `set_pixel`: `Framebuffer` implements only `draw_iter`
(= `set_pixel` per pixel); `fill_contiguous`, `fill_solid`, `clear` are the trait defaults. Hence
any sequence of `DrawTarget` calls IS one history of `set_pixel`s ... -/
theorem drawing_ops_are_set_pixel_histories (fb : Fb) (calls : List Call) :
    fb.run calls = fb.drawIter (calls.flatMap (Call.lowerDefault fb.bbox)) :=
  run_eq_drawIter fb calls

/-- ... and reads back as the last-write map of the pixels those calls address. -/
theorem drawing_history_refines_map {bits : Nat} (hb : validBits bits = true) (o : Order)
    (w h n : Nat) (hn : bufferSize w h bits ≤ n) (hf : n * 8 ≤ usizeMax) (calls : List Call)
    (hc : ColorsOk bits (calls.flatMap (Call.lowerDefault (Fb.new bits o w h n).bbox))) (q : Pt) :
    ((Fb.new bits o w h n).run calls).pixel q =
      if (Fb.new bits o w h n).inside q then
        some (((PMap.empty.apply
          (calls.flatMap (Call.lowerDefault (Fb.new bits o w h n).bbox))) q).getD 0)
      else none := by
  rw [run_eq_drawIter]
  exact history_refines_map hb o w h n hn hf _ hc q

/-! ### Writes outside; bytes beyond the used prefix -/

/-- A write outside WIDTH x HEIGHT changes no byte (nothing at all). -/
theorem outside_noop (fb : Fb) {p : Pt} (c : Nat) (hp : ¬ fb.inside p) : fb.setPixel p c = fb :=
  setPixel_outside fb c hp

theorem outside_noop_history (fb : Fb) (ws : Writes) (ho : ∀ w ∈ ws, ¬ fb.inside w.1) :
    fb.drawIter ws = fb := drawIter_outside fb ws ho

/-- Bytes at positions `>= BUFFER_SIZE` of an oversized buffer are never modified, and the
buffer keeps its length `N` — for one write ... -/
theorem tail_untouched (fb : Fb) (hw : fb.Wf) (p : Pt) (c : Nat) :
    (fb.setPixel p c).data.length = fb.data.length ∧
    ∀ k, fb.bufSize ≤ k → (fb.setPixel p c).data[k]? = fb.data[k]? :=
  ⟨setPixel_length fb hw p c, fun _ hk => setPixel_tail fb hw p c hk⟩

/-- ... and for any history. -/
theorem tail_untouched_history (fb : Fb) (hw : fb.Wf) (ws : Writes) (hc : ColorsOk fb.bits ws) :
    (fb.drawIter ws).data.length = fb.data.length ∧
    ∀ k, fb.bufSize ≤ k → (fb.drawIter ws).data[k]? = fb.data[k]? :=
  ⟨drawIter_length fb hw ws hc, fun _ hk => drawIter_tail fb hw ws hc hk⟩

/-! ### `as_image` -/

/-- `as_image()` succeeds and is the `ImageRaw` of the same depth and data order, of size
WIDTH x HEIGHT, over exactly the first `BUFFER_SIZE` bytes; `pixel` is that image's `pixel`. -/
theorem as_image_spec (fb : Fb) (hw : fb.Wf) :
    fb.asImage = some ⟨fb.bits, fb.order, fb.data.take fb.bufSize, fb.width, fb.height⟩ ∧
    ∀ p, fb.pixel p
      = Img.pixel ⟨fb.bits, fb.order, fb.data.take fb.bufSize, fb.width, fb.height⟩ p := by
  refine ⟨asImage_eq fb hw, fun p => ?_⟩
  unfold Fb.pixel
  rw [asImage_eq fb hw]

/-! ### Non-vacuity: concrete instances of the hypotheses used above -/

example : bufferSize 9 2 1 = 4 ∧ bufferSize 5 3 2 = 6 ∧ bufferSize 13 3 24 = 117 := by decide
example : (Fb.new 2 .be 5 3 9).Wf :=
  new_wf (bits := 2) (by decide) .be 5 3 9 (by decide) (by unfold usizeMax; omega)
example : (Fb.new 2 .be 5 3 9).inside ⟨4, 2⟩ ∧ ¬ (Fb.new 2 .be 5 3 9).inside ⟨5, 0⟩ ∧
    ¬ (Fb.new 2 .be 5 3 9).inside ⟨-1, 1⟩ := by decide
example : ((Fb.new 2 .be 5 3 9).setPixel ⟨4, 1⟩ 3).data = [0, 0, 0, 3, 0, 0, 0, 0, 0] := by decide
example : ((Fb.new 2 .le 5 3 9).setPixel ⟨4, 1⟩ 3).data = [0, 0, 0, 192, 0, 0, 0, 0, 0] := by decide
example : ((Fb.new 2 .le 5 3 9).setPixel ⟨4, 1⟩ 3).pixel ⟨4, 1⟩ = some 3 := by decide
example : ColorsOk 2 [(⟨4, 1⟩, 3), (⟨7, 7⟩, 1), (⟨4, 1⟩, 2)] := by
  intro w hw; simp at hw; rcases hw with rfl | rfl | rfl <;> decide
example : ((Fb.new 16 .be 5 3 33).run [.clear 0x1234, .fillSolid ⟨⟨3, 1⟩, ⟨4, 4⟩⟩ 7]).pixel ⟨4, 2⟩
    = some 7 := by decide +kernel

end EG.C10
