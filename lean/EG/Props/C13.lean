/-
  C13 — Colour conversions scale to the nearest value and preserve the extremes.

  Property theorems only (helper lemmas: EG/Lemmas/ColorConv.lean, ColorConvLift.lean). Statements
  are about the model `EG.Model.Conv` (the bodies of the conversion macros of conversion.rs written
  once over pairs of `ColorSpec`s) and quantify over `resolvedTable`: the generated `convTable`
  (one entry per `impl From<A> for B` the translator saw in the source today) with the type names
  looked up in the generated `colorTable`; `table_counts` says nothing was lost on the way.

  Strength. `convert_channel` facts are decided by kernel evaluation over the whole finite table
  they are used on: (channel maxima occurring in `colorTable`)² x every value up to the source
  maximum (`cc_*`). Statements about whole colours hold for ALL colour values of the source type
  (`x.a.Valid c`, up to 2^24 of them): they are lifted from the channel facts by arithmetic, using
  that every generated conversion is channel-wise `new` of converted channels and the C12 lemmas
  about `new` and the accessors. `black_white`, `gray_rgb_gray_roundtrip` and
  `gray_binary_threshold` are decided directly over (pairs x all gray values), again finite tables.
  `Nearest F T v out` is `|out - v*T/F| ≤ 1/2` multiplied out: `2*F*out ≤ 2*v*T + F ∧ 2*v*T ≤ 2*F*out + F`.

  The bodies this model transcribes (`convert_channel`, `luma`, every conversion macro) are also REGENERATED
  from the Rust text (tools/tr_colorsrc.py -> EG/Generated/ColorSrc.lean) and proved equal to the model in
  EG/Props/C13/Generated.lean (`*_src_eq_model`, `apply_src_eq_model`; headline theorems restated as `src_*`).
-/
import EG.Lemmas.ColorLuma
namespace EG.C13
open EG EG.Generated EG.ColorSpec EG.Conv

/-! ### the generated tables -/

/-- The table built by the translator's table parser has, in total and per kind, as many entries as
the translator's INDEPENDENT second count (`seen*`, tools/tr_color.py `census_convs`: occurrences of
`impl From<` in each macro body x lengths of the invocations' lists counted as separators + 1, no type
name parsed), and every entry resolves against the colour table. The stronger, source-independent
statement is `table_complete` below; the harness's compile-checked pair list is compared with the
table by the `conv.pairs` op. -/
theorem table_counts :
    convTable.length = seenConvImpls
    ∧ (convTable.filter (·.kind == .rgbRgb)).length = seenRgbRgb
    ∧ (convTable.filter (·.kind == .grayGray)).length = seenGrayGray
    ∧ (convTable.filter (·.kind == .grayRgb)).length = seenGrayRgb
    ∧ (convTable.filter (·.kind == .rgbGray)).length = seenRgbGray
    ∧ (convTable.filter (·.kind == .fromBinary)).length = seenFromBinary
    ∧ (convTable.filter (·.kind == .grayBinary)).length = seenGrayBinary
    ∧ (convTable.filter (·.kind == .rgbBinary)).length = seenRgbBinary
    ∧ resolvedTable.length = convTable.length := by decide +kernel

/-- The table is the COMPLETE matrix: exactly one conversion for every ordered pair of distinct colour
types of `colorTable` (whose size is pinned by `C12.table_counts`), `n * (n - 1)` in all, each of the
kind the two types' kinds call for. Since Rust rejects a second `impl From<A> for B`, no conversion
between built-in types can exist in the source that this table lacks. -/
theorem table_complete :
    convTable.length = colorTable.length * (colorTable.length - 1)
    ∧ (∀ a ∈ colorTable, ∀ b ∈ colorTable, a.name ≠ b.name →
        ∃ e ∈ convTable, e.src = a.name ∧ e.dst = b.name ∧ some e.kind = kindFor a.kind b.kind)
    ∧ (convTable.map (fun e => (e.src, e.dst))).Nodup := Conv.table_complete_check

/-- The helper conversions the RGB -> gray / binary bodies call (`Rgb888::from(other)`, `.into()`
from `Gray8`) are the named types of the colour table and are themselves generated conversions
(or the reflexive `From<T> for T`). -/
theorem helper_conversions_exist : ∀ x ∈ resolvedTable,
    x.via ∈ colorTable ∧ x.via.isRgb = true ∧ x.via.name = lumaVia ∧ x.g8 ∈ colorTable ∧ x.g8.kind = .gray ∧ x.g8.name = grayVia
    ∧ ((x.kind = .rgbGray ∨ x.kind = .rgbBinary) → x.a.name ≠ x.via.name → (⟨x.a.name, x.via.name, .rgbRgb⟩ : ConvSpec) ∈ convTable)
    ∧ (x.kind = .rgbGray → x.b.name ≠ x.g8.name → (⟨x.g8.name, x.b.name, .grayGray⟩ : ConvSpec) ∈ convTable) :=
  Conv.typed_via

/-! ### every provided conversion maps black to black and white to white -/

/-- all 182 generated conversions, all seven kinds (`BinaryColor`: `Off` is black, `On` is white) -/
theorem black_white : ∀ x ∈ resolvedTable,
    x.apply (black x.a) = black x.b ∧ x.apply (white x.a) = white x.b := Conv.black_white_table

/-! ### `convert_channel` on the table it is used on -/

theorem cc_extremes : ∀ F ∈ chanMaxima, ∀ T ∈ chanMaxima,
    convertChannel F T 0 = 0 ∧ convertChannel F T F = T := Conv.cc_table_extremes

theorem cc_range : ∀ F ∈ chanMaxima, ∀ T ∈ chanMaxima, ∀ v, v ≤ F → convertChannel F T v ≤ T :=
  fun F hF T hT v hv => Conv.cc_table_range F hF T hT v (mem_upTo.mpr hv)

/-- the representable value nearest to the exactly scaled one (error at most half a target step) -/
theorem cc_nearest : ∀ F ∈ chanMaxima, ∀ T ∈ chanMaxima, ∀ v, v ≤ F → Nearest F T v (convertChannel F T v) :=
  fun F hF T hT v hv => Conv.cc_table_nearest F hF T hT v (mem_upTo.mpr hv)

theorem cc_monotone : ∀ F ∈ chanMaxima, ∀ T ∈ chanMaxima, ∀ v w, v ≤ w → w ≤ F →
    convertChannel F T v ≤ convertChannel F T w :=
  fun _ hF _ hT v w hvw hw => Conv.cc_monotone hF hT w hw v hvw

theorem cc_widen_narrow : ∀ F ∈ chanMaxima, ∀ T ∈ chanMaxima, F ≤ T → ∀ v, v ≤ F →
    convertChannel T F (convertChannel F T v) = v :=
  fun F hF T hT h v hv => Conv.cc_table_widen_narrow F hF T hT h v (mem_upTo.mpr hv)

/-- the `u32` intermediates of `convert_channel` stay below 2^32 (so the mathematical model is the code) -/
theorem cc_no_overflow : ∀ F ∈ chanMaxima, ∀ T ∈ chanMaxima, ∀ v, v ≤ F →
    T <<< ccShift < 2 ^ 32 ∧ v * ((T <<< ccShift) / F) + (1 <<< (ccShift - 1)) < 2 ^ 32 :=
  fun F hF T hT v hv => Conv.cc_table_no_overflow F hF T hT v (mem_upTo.mpr hv)

example : (31 : Nat) ∈ chanMaxima ∧ (255 : Nat) ∈ chanMaxima ∧ (31 : Nat) ≤ 255 ∧ convertChannel 31 255 17 = 140 := by decide

/-! ### RGB -> RGB (90 conversions, every source colour) -/

theorem rgb_channelwise : ∀ x ∈ resolvedTable, x.kind = .rgbRgb → ∀ c, x.a.Valid c →
    x.b.chanR (x.apply c) = convertChannel x.a.maxR x.b.maxR (x.a.chanR c)
    ∧ x.b.chanG (x.apply c) = convertChannel x.a.maxG x.b.maxG (x.a.chanG c)
    ∧ x.b.chanB (x.apply c) = convertChannel x.a.maxB x.b.maxB (x.a.chanB c) := Conv.rgb_channelwise

theorem rgb_nearest : ∀ x ∈ resolvedTable, x.kind = .rgbRgb → ∀ c, x.a.Valid c →
    Nearest x.a.maxR x.b.maxR (x.a.chanR c) (x.b.chanR (x.apply c))
    ∧ Nearest x.a.maxG x.b.maxG (x.a.chanG c) (x.b.chanG (x.apply c))
    ∧ Nearest x.a.maxB x.b.maxB (x.a.chanB c) (x.b.chanB (x.apply c)) := Conv.rgb_nearest

theorem rgb_monotone : ∀ x ∈ resolvedTable, x.kind = .rgbRgb → ∀ c c', x.a.Valid c → x.a.Valid c' →
    (x.a.chanR c ≤ x.a.chanR c' → x.b.chanR (x.apply c) ≤ x.b.chanR (x.apply c'))
    ∧ (x.a.chanG c ≤ x.a.chanG c' → x.b.chanG (x.apply c) ≤ x.b.chanG (x.apply c'))
    ∧ (x.a.chanB c ≤ x.a.chanB c' → x.b.chanB (x.apply c) ≤ x.b.chanB (x.apply c')) := Conv.rgb_monotone

/-- RGB <-> BGR (or any pair) of equal depth in every channel keeps all channels -/
theorem rgb_same_depth : ∀ x ∈ resolvedTable, x.kind = .rgbRgb →
    x.a.rbits = x.b.rbits → x.a.gbits = x.b.gbits → x.a.bbits = x.b.bbits → ∀ c, x.a.Valid c →
    x.b.chanR (x.apply c) = x.a.chanR c ∧ x.b.chanG (x.apply c) = x.a.chanG c
    ∧ x.b.chanB (x.apply c) = x.a.chanB c := Conv.rgb_same_depth

/-- converting to a type with at least as many bits in every channel and back is the identity -/
theorem rgb_widen_roundtrip : ∀ x ∈ resolvedTable, ∀ y ∈ resolvedTable, x.kind = .rgbRgb → y.kind = .rgbRgb →
    y.a = x.b → y.b = x.a → x.a.rbits ≤ x.b.rbits → x.a.gbits ≤ x.b.gbits → x.a.bbits ≤ x.b.bbits →
    ∀ c, x.a.Valid c → y.apply (x.apply c) = c := Conv.rgb_widen_roundtrip

/-- non-vacuity: Rgb565 -> Bgr888 and back is such a pair, `0xF81F` a colour of Rgb565; and
Rgb565 -> Bgr565 is a same-depth pair -/
example : ∃ x ∈ resolvedTable, ∃ y ∈ resolvedTable, x.kind = .rgbRgb ∧ y.kind = .rgbRgb ∧ y.a = x.b ∧ y.b = x.a
    ∧ x.a.name = "Rgb565" ∧ x.b.name = "Bgr888" ∧ x.a.rbits ≤ x.b.rbits ∧ x.a.gbits ≤ x.b.gbits ∧ x.a.bbits ≤ x.b.bbits
    ∧ x.a.Valid 0xF81F ∧ x.apply 0xF81F = 0xFF00FF := by decide +kernel
example : ∃ x ∈ resolvedTable, x.kind = .rgbRgb ∧ x.a.name = "Rgb565" ∧ x.b.name = "Bgr565"
    ∧ x.a.rbits = x.b.rbits ∧ x.a.gbits = x.b.gbits ∧ x.a.bbits = x.b.bbits ∧ x.a.Valid 0xF800 ∧ x.apply 0xF800 = 0x001F := by
  decide +kernel

/-! ### gray -> gray (6 conversions) -/

theorem gray_channelwise : ∀ x ∈ resolvedTable, x.kind = .grayGray → ∀ c, x.a.Valid c →
    x.b.luma (x.apply c) = convertChannel (maxLuma x.a) (maxLuma x.b) (x.a.luma c) := Conv.gray_channelwise

theorem gray_nearest : ∀ x ∈ resolvedTable, x.kind = .grayGray → ∀ c, x.a.Valid c →
    Nearest (maxLuma x.a) (maxLuma x.b) (x.a.luma c) (x.b.luma (x.apply c)) := Conv.gray_nearest

theorem gray_monotone : ∀ x ∈ resolvedTable, x.kind = .grayGray → ∀ c c', x.a.Valid c → x.a.Valid c' →
    x.a.luma c ≤ x.a.luma c' → x.b.luma (x.apply c) ≤ x.b.luma (x.apply c') := Conv.gray_monotone

theorem gray_widen_roundtrip : ∀ x ∈ resolvedTable, ∀ y ∈ resolvedTable, x.kind = .grayGray → y.kind = .grayGray →
    y.a = x.b → y.b = x.a → x.a.rawBpp ≤ x.b.rawBpp → ∀ c, x.a.Valid c → y.apply (x.apply c) = c :=
  Conv.gray_widen_roundtrip

example : ∃ x ∈ resolvedTable, ∃ y ∈ resolvedTable, x.kind = .grayGray ∧ y.kind = .grayGray ∧ y.a = x.b ∧ y.b = x.a
    ∧ x.a.name = "Gray2" ∧ x.b.name = "Gray8" ∧ x.a.rawBpp ≤ x.b.rawBpp ∧ x.a.Valid 2 ∧ x.apply 2 = 170 := by
  decide +kernel

/-! ### gray -> RGB gives equally scaled channels, and back -/

/-- every channel is `convert_channel` of the luma to that channel's width, i.e. the value nearest
to the luma scaled to that width -/
theorem gray_rgb_equal_scaling : ∀ x ∈ resolvedTable, x.kind = .grayRgb → ∀ c, x.a.Valid c →
    (x.b.chanR (x.apply c) = convertChannel (maxLuma x.a) x.b.maxR (x.a.luma c)
     ∧ x.b.chanG (x.apply c) = convertChannel (maxLuma x.a) x.b.maxG (x.a.luma c)
     ∧ x.b.chanB (x.apply c) = convertChannel (maxLuma x.a) x.b.maxB (x.a.luma c))
    ∧ Nearest (maxLuma x.a) x.b.maxR (x.a.luma c) (x.b.chanR (x.apply c))
    ∧ Nearest (maxLuma x.a) x.b.maxG (x.a.luma c) (x.b.chanG (x.apply c))
    ∧ Nearest (maxLuma x.a) x.b.maxB (x.a.luma c) (x.b.chanB (x.apply c)) := Conv.gray_rgb_equal_scaling

theorem gray_rgb_monotone : ∀ x ∈ resolvedTable, x.kind = .grayRgb → ∀ c c', x.a.Valid c → x.a.Valid c' →
    x.a.luma c ≤ x.a.luma c' →
    x.b.chanR (x.apply c) ≤ x.b.chanR (x.apply c') ∧ x.b.chanG (x.apply c) ≤ x.b.chanG (x.apply c')
    ∧ x.b.chanB (x.apply c) ≤ x.b.chanB (x.apply c') := Conv.gray_rgb_monotone

/-- converting back returns the original gray whenever every RGB channel has at least as many bits
as the gray type (decided over every such pair and every gray value) -/
theorem gray_rgb_gray_roundtrip : ∀ x ∈ resolvedTable, ∀ y ∈ resolvedTable,
    x.kind = .grayRgb → y.kind = .rgbGray → y.a = x.b → y.b = x.a →
    x.a.rawBpp ≤ x.b.rbits → x.a.rawBpp ≤ x.b.gbits → x.a.rawBpp ≤ x.b.bbits →
    ∀ c, x.a.Valid c → y.apply (x.apply c) = c := Conv.gray_rgb_gray_roundtrip

example : ∃ x ∈ resolvedTable, ∃ y ∈ resolvedTable, x.kind = .grayRgb ∧ y.kind = .rgbGray ∧ y.a = x.b ∧ y.b = x.a
    ∧ x.a.name = "Gray4" ∧ x.b.name = "Rgb565" ∧ x.a.rawBpp ≤ x.b.rbits ∧ x.a.rawBpp ≤ x.b.gbits ∧ x.a.rawBpp ≤ x.b.bbits
    ∧ x.a.Valid 9 ∧ x.apply 9 = 0x9CD3 ∧ y.apply 0x9CD3 = 9 := by decide +kernel

/-! ### RGB -> gray, RGB -> binary: monotone in every channel; the luma -/

theorem rgb_gray_monotone : ∀ y ∈ resolvedTable, y.kind = .rgbGray → ∀ c c', y.a.Valid c → y.a.Valid c' →
    y.a.chanR c ≤ y.a.chanR c' → y.a.chanG c ≤ y.a.chanG c' → y.a.chanB c ≤ y.a.chanB c' →
    y.b.luma (y.apply c) ≤ y.b.luma (y.apply c') := Conv.rgb_gray_monotone

theorem rgb_binary_monotone : ∀ y ∈ resolvedTable, y.kind = .rgbBinary → ∀ c c', y.a.Valid c → y.a.Valid c' →
    y.a.chanR c ≤ y.a.chanR c' → y.a.chanG c ≤ y.a.chanG c' → y.a.chanB c ≤ y.a.chanB c' →
    y.apply c ≤ y.apply c' := Conv.rgb_binary_monotone

/-- the luma of an RGB colour (`luma(Rgb888::from(c))`) is what its conversion to the 8-bit gray type returns -/
theorem rgb_gray8_is_luma : ∀ y ∈ resolvedTable, y.kind = .rgbGray → y.b = y.g8 → ∀ c,
    y.b.luma (y.apply c) = rgbLuma y.a y.via c := Conv.rgb_gray8_is_luma

/-! ### conversions to `BinaryColor`: `On` exactly for the upper half of the luma range -/

/-- gray types: luma range `0..=MAX_LUMA`, `On` iff `luma ≥ (MAX_LUMA+1)/2` -/
theorem gray_binary_threshold : ∀ x ∈ resolvedTable, x.kind = .grayBinary → ∀ c, x.a.Valid c →
    (x.apply c = 1 ↔ maxLuma x.a + 1 ≤ 2 * x.a.luma c) ∧ (x.apply c = 0 ∨ x.apply c = 1) :=
  Conv.gray_binary_threshold

/-- RGB types: luma range `0..=255` (`rgb_gray8_is_luma`), `On` iff `luma ≥ 128` -/
theorem rgb_binary_threshold : ∀ x ∈ resolvedTable, x.kind = .rgbBinary → ∀ c,
    (x.apply c = 1 ↔ 255 + 1 ≤ 2 * rgbLuma x.a x.via c) ∧ (x.apply c = 0 ∨ x.apply c = 1)
    ∧ rgbLuma x.a x.via c ≤ 255 := Conv.rgb_binary_threshold

example : ∃ x ∈ resolvedTable, x.kind = .grayBinary ∧ x.a.name = "Gray4" ∧ x.a.Valid 8 ∧ x.apply 8 = 1 ∧ x.apply 7 = 0 := by
  decide +kernel
example : ∃ x ∈ resolvedTable, x.kind = .rgbBinary ∧ x.a.name = "Rgb565" ∧ x.a.Valid 0x07E0 ∧ x.apply 0x07E0 = 1
    ∧ x.apply 0xF81F = 0 := by decide +kernel
example : ∃ y ∈ resolvedTable, y.kind = .rgbGray ∧ y.b = y.g8 ∧ y.a.name = "Bgr555" ∧ y.a.Valid 0x7C00 ∧ y.apply 0x7C00 = 29 := by
  decide +kernel

/-! ### the luma is the ITU-R BT.601 luma `0.299 R + 0.587 G + 0.114 B`, to within one 8-bit step

Stated in integers (`256000 * L` against `256 * (299 R + 587 G + 114 B)`; `244280 / 256000 = 0.95422`). -/

/-- The weights regenerated from conversion.rs ARE the BT.601 coefficients in 1/256 units: each is the
integer nearest to `coefficient * 256` (which determines 77, 150, 29), they sum to the divisor 256 and
half the divisor is added before dividing (round half up). Exchanging or changing weights in the
source makes this false. -/
theorem luma_weights_bt601 :
    lumaDiv = 256 ∧ 2 * lumaRound = lumaDiv
    ∧ (1000 * lumaWR ≤ 299 * lumaDiv + 500 ∧ 299 * lumaDiv ≤ 1000 * lumaWR + 500)
    ∧ (1000 * lumaWG ≤ 587 * lumaDiv + 500 ∧ 587 * lumaDiv ≤ 1000 * lumaWG + 500)
    ∧ (1000 * lumaWB ≤ 114 * lumaDiv + 500 ∧ 114 * lumaDiv ≤ 1000 * lumaWB + 500)
    ∧ lumaWR + lumaWG + lumaWB = lumaDiv := Conv.luma_weights_check

/-- For ALL 8-bit `r, g, b`: the luma expression of the code differs from the exact
`0.299 r + 0.587 g + 0.114 b` by at most `0.95422` (< 1), stays a `u8`, and reproduces a gray input. -/
theorem luma_close_bt601 (r g b : Nat) (hr : r ≤ 255) (hg : g ≤ 255) (hb : b ≤ 255) :
    256000 * lumaFormula r g b ≤ 256 * (299 * r + 587 * g + 114 * b) + 244280
    ∧ 256 * (299 * r + 587 * g + 114 * b) ≤ 256000 * lumaFormula r g b + 244280
    ∧ lumaFormula r g b ≤ 255
    ∧ (r = g → g = b → lumaFormula r g b = r) := Conv.lumaFormula_close r g b hr hg hb

/-- ... and `lumaFormula` on the colour's channels is what the model's `luma` computes (definitional) -/
theorem luma_is_formula (v : ColorSpec) (z : Nat) :
    lumaOf v z = lumaFormula (v.chanR z) (v.chanG z) (v.chanB z) := rfl

example : lumaFormula 255 0 0 = 77 ∧ lumaFormula 0 255 0 = 149 ∧ lumaFormula 0 0 255 = 29
    ∧ lumaFormula 200 100 50 = 124 := by decide

/-- RGB -> gray, all 30 conversions, every source colour: with `r8 g8 b8` the source channels scaled to
8 bits (each the nearest value) and `L` an 8-bit luma within `0.95422` of their exact BT.601 luma, the
result is the value nearest to `L` scaled to the target's luma range (`L` itself for `Gray8`). -/
theorem rgb_gray_close : ∀ y ∈ resolvedTable, y.kind = .rgbGray → ∀ c, y.a.Valid c →
    ∃ r8 g8 b8 L,
      Nearest y.a.maxR 255 (y.a.chanR c) r8 ∧ Nearest y.a.maxG 255 (y.a.chanG c) g8
      ∧ Nearest y.a.maxB 255 (y.a.chanB c) b8
      ∧ r8 ≤ 255 ∧ g8 ≤ 255 ∧ b8 ≤ 255
      ∧ 256000 * L ≤ 256 * (299 * r8 + 587 * g8 + 114 * b8) + 244280
      ∧ 256 * (299 * r8 + 587 * g8 + 114 * b8) ≤ 256000 * L + 244280
      ∧ L ≤ 255
      ∧ Nearest 255 (maxLuma y.b) L (y.b.luma (y.apply c)) := Conv.rgb_gray_close

/-- The same in the form the harness oracle evaluates on the real results (`C13:rgb-gray-not-bt601`):
`|out - Y * T/255| ≤ 1/2 + T/255` with `Y = (299 r8 + 587 g8 + 114 b8)/1000`, `T = MAX_LUMA` of the
target, multiplied out by 510000; for the 8-bit gray type `|out - Y| ≤ 1`. -/
theorem rgb_gray_within : ∀ y ∈ resolvedTable, y.kind = .rgbGray → ∀ c, y.a.Valid c →
    ∃ r8 g8 b8,
      Nearest y.a.maxR 255 (y.a.chanR c) r8 ∧ Nearest y.a.maxG 255 (y.a.chanG c) g8
      ∧ Nearest y.a.maxB 255 (y.a.chanB c) b8
      ∧ 510000 * y.b.luma (y.apply c)
          ≤ 2 * maxLuma y.b * (299 * r8 + 587 * g8 + 114 * b8) + 255000 + 2000 * maxLuma y.b
      ∧ 2 * maxLuma y.b * (299 * r8 + 587 * g8 + 114 * b8)
          ≤ 510000 * y.b.luma (y.apply c) + 255000 + 2000 * maxLuma y.b
      ∧ (maxLuma y.b = 255 →
          1000 * y.b.luma (y.apply c) ≤ 299 * r8 + 587 * g8 + 114 * b8 + 1000
          ∧ 299 * r8 + 587 * g8 + 114 * b8 ≤ 1000 * y.b.luma (y.apply c) + 1000) := Conv.rgb_gray_within

/-- RGB -> binary, every source colour: `On` iff that 8-bit luma (within `0.95422` of the exact BT.601
luma of the 8-bit channels) is in the upper half `128..=255` of its range. -/
theorem rgb_binary_close : ∀ x ∈ resolvedTable, x.kind = .rgbBinary → ∀ c, x.a.Valid c →
    ∃ r8 g8 b8 L,
      Nearest x.a.maxR 255 (x.a.chanR c) r8 ∧ Nearest x.a.maxG 255 (x.a.chanG c) g8
      ∧ Nearest x.a.maxB 255 (x.a.chanB c) b8
      ∧ r8 ≤ 255 ∧ g8 ≤ 255 ∧ b8 ≤ 255
      ∧ 256000 * L ≤ 256 * (299 * r8 + 587 * g8 + 114 * b8) + 244280
      ∧ 256 * (299 * r8 + 587 * g8 + 114 * b8) ≤ 256000 * L + 244280
      ∧ (x.apply c = 1 ↔ 128 ≤ L) ∧ (x.apply c = 0 ∨ x.apply c = 1) := Conv.rgb_binary_close

/-- non-vacuity: Rgb565 -> Gray4 is such a conversion, `0x07E0` (pure green) a colour of Rgb565;
green scales to 255, `L = 149` (exact 149.685), nearest of `149 * 15 / 255 = 8.76` is 9 -/
example : ∃ y ∈ resolvedTable, y.kind = .rgbGray ∧ y.a.name = "Rgb565" ∧ y.b.name = "Gray4" ∧ y.a.Valid 0x07E0
    ∧ y.apply 0x07E0 = 9 ∧ maxLuma y.b = 15 := by decide +kernel

-- RGB -> gray relative to the luma of the EXACTLY scaled channels (`r * 255 / MAX_R` as a rational instead of
-- the nearest 8-bit `r8`): the 8-bit rounding of the channels adds at most `1/2` (the weights sum to 1), i.e.
-- `|L - Y_exact| ≤ 1.45422`; this composition of `rgb_gray_close` with `Nearest` is left to the reader (it needs
-- the three channel maxima as common denominator), the oracle checks the `r8` form that is proved.

end EG.C13
