/-
  C13 — property theorems (placeholder: no theorem yet, the property is not claimed).
-/
import EG.Basic.Core
namespace EG.C13
end EG.C13
