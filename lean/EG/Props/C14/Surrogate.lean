/-
  C14 — `\0 start end` ranges of a glyph-mapping string that CROSS the surrogate gap.

  `StrGlyphMapping::chars()` expands `'\0' s e` to `s..=e`, a `RangeInclusive<char>`: its iterator
  steps with `<char as Step>::forward`, which jumps from U+D7FF to U+E000 (the model: `nextScalar`,
  `charRange`, EG/Model/Font.lean). `range_is_interval` (Props/C14.lean) covers the ranges on one
  side of the gap - all ranges of the 14 built-in strings. Here the other case, for every pair of
  `char`s: the range lists `s ..= U+D7FF` and then `U+E000 ..= e`; it contains exactly the scalar
  values between its ends, each once; position `k` holds `s + k` before the gap and `s + k + 2048`
  after it. So "every mapped character has its own index" (`index_injective_on_mapped`,
  `index_getElem_of_nodup`) needs no exclusion of such ranges.
  Helper lemmas: EG/Lemmas/Glue3Surrogate.lean.
-/
import EG.Lemmas.Glue3Surrogate
namespace EG.C14.Surrogate
open EG EG.Font

/-- **A range across the surrogate gap** (`s <= U+D7FF`, `e >= U+E000`): the characters up to the
gap, then those after it; U+D800 ..= U+DFFF are skipped. -/
theorem range_crossing_surrogate_gap (s e : Nat) (hs : s ≤ 0xD7FF) (he : 0xE000 ≤ e) :
    charRange s e = List.range' s (0xD800 - s) ++ List.range' 0xE000 (e + 1 - 0xE000) :=
  charRange_crossing s e hs he
example : charRange 0xD7FE 0xE001 = [0xD7FE, 0xD7FF, 0xE000, 0xE001] := by decide

/-- Position `k` of a crossing range: `s + k` before the gap, `s + k + 2048` after it (consecutive
indices, the gap's 2048 code points left out). -/
theorem range_crossing_position (s e k : Nat) (hs : s ≤ 0xD7FF) (he : 0xE000 ≤ e)
    (hk : k < (charRange s e).length) :
    (charRange s e)[k] = if s + k ≤ 0xD7FF then s + k else s + k + 2048 := by
  have hlen := charRange_crossing_length s e hs he
  have e1 := charRange_crossing s e hs he
  have hk' : k < (List.range' s (0xD800 - s) ++ List.range' 0xE000 (e + 1 - 0xE000)).length := by
    rw [← e1]; exact hk
  have : (charRange s e)[k] =
      (List.range' s (0xD800 - s) ++ List.range' 0xE000 (e + 1 - 0xE000))[k] := by
    simp only [e1]
  rw [this]
  by_cases hb : s + k ≤ 0xD7FF
  · rw [if_pos hb, List.getElem_append_left (by rw [List.length_range']; omega), List.getElem_range']
    omega
  · rw [if_neg hb, List.getElem_append_right (by rw [List.length_range']; omega), List.getElem_range',
      List.length_range']
    omega
example : (55294 : Nat) ≤ 0xD7FF ∧ 0xE000 ≤ (57345 : Nat) ∧ 2 < (charRange 0xD7FE 0xE001).length := by decide

/-- **Any range between two `char`s** (neither end a surrogate; crossing the gap or not, empty if
`e < s`): its members are exactly the scalar values between the ends ... -/
theorem range_members (s e c : Nat) (hs : ¬ isSurrogate s) (he : ¬ isSurrogate e) :
    c ∈ charRange s e ↔ s ≤ c ∧ c ≤ e ∧ ¬ isSurrogate c :=
  mem_charRange_scalar s e c hs he
example : ¬ isSurrogate 0x20 ∧ ¬ isSurrogate 0xFFFD := by decide

/-- ... and each is listed once. -/
theorem range_no_duplicates (s e : Nat) (hs : ¬ isSurrogate s) (he : ¬ isSurrogate e) :
    (charRange s e).Nodup := charRange_nodup_scalar s e hs he

/-- A crossing range has `e - s + 1 - 2048` characters. (`StrGlyphMapping::ranges()`, which is not
used by `index`, advances its start index by `end as usize - start as usize + 1`: observation, for a
crossing range that is 2048 more than the number of glyphs the range occupies.) -/
theorem range_crossing_length (s e : Nat) (hs : s ≤ 0xD7FF) (he : 0xE000 ≤ e) :
    (charRange s e).length + 2048 = e + 1 - s := charRange_crossing_length s e hs he

end EG.C14.Surrogate
