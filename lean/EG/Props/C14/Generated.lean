/-
  C14 — the REGENERATED glyph / draw_string code equals the hand-written model.

  `EG/Generated/TextSrc.lean` is written by `tools/tr_textsrc.py` from /repo's Rust text on every run of a check.
  This file proves `<name>_src_eq_model` for the functions C14 rests on — `StrGlyphMapping::{chars, index, contains}`
  (src/mono_font/mapping.rs), `MonoFont::glyph`, `DecorationDimensions::get_bounding_box` (src/mono_font/mod.rs),
  `DecorationColor::effective_color` (src/text/mod.rs), `MonoTextStyle::{line_elements, draw_string_binary,
  draw_decorations, draw_string, draw_whitespace}` (src/mono_font/mono_text_style.rs) — against `EG/Model/Font.lean`, and restates C14's `index` and
  cell-position claims over the generated functions (`src_*`).

  A draw target is the list of calls made on it (`DrawTargetD`); a function with a `target: &mut D` parameter
  returns the updated target: `f .. target = (value, target ++ calls of the hand model)`.

  Where source and hand model differ (stated exactly, as decidable guards):
  * `glyph`: `index(c) as u32` truncates and `char_x as i32` / `char_y as i32` wrap; the hand model computes in `Nat`.
    Equal when the index fits `u32` and the cell origin fits `i32` (`GlyphFits`; true for every built-in font).
  * `get_bounding_box` / `draw_string`'s transparent arm add a `Size` to a `Point` (`as i32` behind a
    `debug_assert!`): equal when the decoration offsets and the advance `(cw + spacing) * n` fit `i32`, and
    `text.chars().count() as u32` does not truncate (`DrawFits`).
  * `line_elements` casts `character_size.width` / `character_spacing` with `as i32` (`AdvanceFits`); its `from_fn`
    closure is tied step by step to the hand model's `LineIt.next` (`line_elements_step`), the `for` loop of
    `draw_string_binary` (with its `return` at `Done`) to the hand model's `drawStringBinary` for every `fuel >=
    2 * len + 1` (`loop_src_eq_model`, `draw_string_binary_src_eq_model`; guard `GlyphsFit` = `GlyphFits` for
    every character of the text).
  * `StrGlyphMapping::chars()` (the `from_fn(..).flatten()` decoder of `\0 start end` ranges, `?` inside the
    closure) = the hand model's `expand` for every `fuel > data.len()` (`chars_go`, `chars_src_eq_model`); `index` and
    `contains` take the same `fuel`. `start..=end` on chars is the prelude's `char_range_inclusive` = `Font.charRange`.
  NOT regenerated (bound by the prelude to the hand model, see its header): the image draw of a glyph (`Image_draw`),
  `MonoFontDrawTarget`'s lowering, the iteration of a `RangeInclusive<char>` (std).

  -- [V] `Image::new(&glyph, p).draw(target)` and `MonoFontDrawTarget`'s colour lowering (src/mono_font/draw_target.rs) are bound by the prelude to C09's image model / `Font.Mode.lower`, not regenerated
-/
import EG.Generated.TextSrc
import EG.Props.C15.Generated
import EG.Props.C14
namespace EG.C14.Src
open EG EG.Font EG.RectSrcPrelude EG.TextSrcPrelude EG.Generated EG.C16.Src EG.C15.Src

/-! ### `StrGlyphMapping::{index, contains}` -/

/-- the prelude's `StrGlyphMapping` as the hand model's `StrMapping` -/
abbrev mappingOf (m : StrGlyphMapping) : StrMapping := ⟨m.data, m.replacement_index⟩

/-- the `from_fn` closure of `chars()` as the translator writes it (`chars_unfold`: by `rfl`) -/
def charsStep : List Nat → Option (List Nat) × List Nat := fun chars =>
      let (q_, chars) := iter_next chars
      match q_ with
        | Option.none => (Option.none, chars)
        | Option.some scrut_ =>
          (match scrut_ with
            | 0 =>
                let (q_, chars) := iter_next chars
                match q_ with
                  | Option.none => (Option.none, chars)
                  | Option.some start =>
                    let (q_, chars) := iter_next chars
                    match q_ with
                      | Option.none => (Option.none, chars)
                      | Option.some end_ =>
                        let range := char_range_inclusive start end_
                        (Option.some range, chars)
            | c =>
                let range := char_range_inclusive c c
                (Option.some range, chars))

theorem chars_unfold (fuel : Nat) (m : StrGlyphMapping) :
    TextSrc.StrGlyphMapping_chars fuel m =
      iter_flatten_from_fn fuel (from_fn_mk (str_chars (StrGlyphMapping_data m)) charsStep) := rfl

theorem charRange_self (c : Nat) : charRange c c = [c] := by
  simp [charRange, charRangeGo]

/-- the regenerated decoder, from any rest of the mapping string: the concatenated ranges are the hand model's
`expand` as soon as the fuel exceeds the number of characters left -/
theorem chars_go : ∀ (n : Nat) (l : List Nat), l.length < n →
    (from_fn_to_list n ⟨l, charsStep⟩).flatten = expand l := by
  intro n
  induction n with
  | zero => intro l h; omega
  | succ n ih =>
    intro l h
    cases l with
    | nil => rfl
    | cons c rest =>
      cases c with
      | succ k =>
        have hs : charsStep ((k + 1) :: rest) = (some (charRange (k + 1) (k + 1)), rest) := rfl
        simp only [from_fn_to_list, hs, List.flatten_cons, charRange_self]
        rw [ih rest (by simp at h; omega)]
        rfl
      | zero =>
        cases rest with
        | nil => rfl
        | cons s r2 =>
          cases r2 with
          | nil => rfl
          | cons e r3 =>
            have hs : charsStep (0 :: s :: e :: r3) = (some (charRange s e), r3) := rfl
            simp only [from_fn_to_list, hs, List.flatten_cons]
            rw [ih r3 (by simp at h; omega)]
            rfl

/-- `StrGlyphMapping::chars()` = the hand model's `expand`, for every fuel above the length of the mapping string. -/
theorem chars_src_eq_model (fuel : Nat) (m : StrGlyphMapping) (h : m.data.length < fuel) :
    TextSrc.StrGlyphMapping_chars fuel m = expand m.data := by
  rw [chars_unfold]
  exact chars_go fuel m.data h

example : TextSrc.StrGlyphMapping_chars 7 ⟨[0, 97, 102, 0, 49, 52], 0⟩ = [97, 98, 99, 100, 101, 102, 49, 50, 51, 52] := by
  decide

theorem find_enumerate_eq_findGo (c : Nat) (l : List Nat) (k : Nat) :
    option_map (iter_find (List.map (fun p => (p.2, p.1)) (l.zipIdx k)) (fun ((_, v) : Nat × Nat) => char_eq c v))
      (fun ((index, _) : Nat × Nat) => index) = findGo c l k := by
  induction l generalizing k with
  | nil => rfl
  | cons v vs ih =>
    simp only [option_map, iter_find, List.zipIdx_cons, List.map_cons, List.find?_cons, findGo, char_eq]
    by_cases h : c = v
    · simp [h]
    · simp only [h, decide_false]
      exact ih (k + 1)

theorem index_src_eq_model (fuel : Nat) (m : StrGlyphMapping) (c : Nat) (h : m.data.length < fuel) :
    TextSrc.StrGlyphMapping_GlyphMapping_index fuel m c = (mappingOf m).index c := by
  unfold TextSrc.StrGlyphMapping_GlyphMapping_index StrMapping.index
  simp only [iter_enumerate, chars_src_eq_model fuel m h, StrGlyphMapping_replacement_index]
  rw [find_enumerate_eq_findGo]
  cases findGo c (expand m.data) 0 <;> rfl

theorem contains_src_eq_model (fuel : Nat) (m : StrGlyphMapping) (c : Nat) (h : m.data.length < fuel) :
    TextSrc.StrGlyphMapping_contains fuel m c = (mappingOf m).contains c := by
  unfold TextSrc.StrGlyphMapping_contains StrMapping.contains
  simp only [iter_any, chars_src_eq_model fuel m h, char_eq]
  congr 1

/-! ### `MonoFont::glyph` -/

/-- the glyph index fits `u32` and the cell origin fits `i32` -/
def GlyphFits (f : Font.MonoFont) (c : Nat) : Prop :=
  f.index c < 4294967296 ∧
  (f.index c - f.index c / (f.imgW / f.cw) * (f.imgW / f.cw)) * f.cw ≤ 2147483647 ∧
  f.index c / (f.imgW / f.cw) * f.ch ≤ 2147483647
instance (f : Font.MonoFont) (c : Nat) : Decidable (GlyphFits f c) := by unfold GlyphFits; exact inferInstance

example : GlyphFits ⟨96, 54, 6, 9, 0, 6, 10, 1, 4, 1, fun c => c - 32⟩ 65 := by decide

theorem glyph_src_eq_model (m : TextSrcPrelude.MonoFont) (c : Nat) (h : GlyphFits m.f c) :
    TextSrc.MonoFont_glyph m c = ⟨MonoFont_image m, m.f.glyphArea c⟩ := by
  obtain ⟨h1, h2, h3⟩ := h
  unfold TextSrc.MonoFont_glyph MonoFont.glyphArea MonoFont.glyphAreaOfIndex
  simp only [bool_or, u32_eq, u32_lt, Size_width, Size_height, MonoFont_character_size, ImageRawBinary_size,
    MonoFont_image, Bool.or_eq_true, decide_eq_true_eq, usize_as_u32, DynGlyphMapping_index, MonoFont_glyph_mapping,
    Nat.mod_eq_of_lt h1, u32_div, u32_mul, u32_sub, u32_as_i32, SubImage_new_unchecked, RectSrc.new, RectSrc.zero,
    RectSrc.Point_new, Rectangle_mk, Point_mk]
  split
  · rfl
  · simp only [h2, h3, ↓reduceIte]

/-! ### decorations -/

theorem effective_color_src_eq_model (d : DecoColor) (tc : Option Color) :
    TextSrc.DecorationColor_effective_color d tc = d.effective tc := by
  cases d <;> rfl

theorem get_bounding_box_src_eq_model (d : DecorationDimensions) (pos : Pt) (w : Nat) (h : d.offset ≤ 2147483647) :
    TextSrc.DecorationDimensions_get_bounding_box d pos w = decoRect d.offset d.height pos w := by
  unfold TextSrc.DecorationDimensions_get_bounding_box decoRect
  have hfit : FitsI32 (RectSrc.Size_new 0 (DecorationDimensions_offset d)) := by
    unfold FitsI32 RectSrc.Size_new; simp only [Size_mk, DecorationDimensions_offset]; omega
  rw [Point_add_Size_src_eq_model _ _ hfit]
  simp only [RectSrc.new, RectSrc.Size_new, Rectangle_mk, Size_mk, DecorationDimensions_offset,
    DecorationDimensions_height, Int.natCast_zero, Int.add_zero]

/-- the decoration offsets of the font fit `i32` (the `debug_assert!` of `Point + Size`) -/
def DecoFits (f : Font.MonoFont) : Prop := f.stOff ≤ 2147483647 ∧ f.ulOff ≤ 2147483647
instance (f : Font.MonoFont) : Decidable (DecoFits f) := by unfold DecoFits; exact inferInstance
example : DecoFits ⟨96, 54, 6, 9, 0, 6, 10, 1, 4, 1, fun _ => 0⟩ := by decide

theorem draw_decorations_src_eq_model (s : MonoTextStyle) (w : Nat) (pos : Pt) (target : List Call)
    (h : DecoFits s.font.f) :
    TextSrc.MonoTextStyle_draw_decorations s w pos target = target ++ s.font.f.drawDecorations s.st w pos := by
  obtain ⟨h1, h2⟩ := h
  unfold TextSrc.MonoTextStyle_draw_decorations MonoFont.drawDecorations
  simp only [effective_color_src_eq_model, MonoTextStyle_strikethrough_color, MonoTextStyle_underline_color,
    MonoTextStyle_text_color, MonoTextStyle_font, MonoFont_strikethrough, MonoFont_underline,
    get_bounding_box_src_eq_model ⟨s.font.f.stOff, s.font.f.stH⟩ _ _ h1,
    get_bounding_box_src_eq_model ⟨s.font.f.ulOff, s.font.f.ulH⟩ _ _ h2, DrawTargetD_fill_solid]
  cases s.st.strikethrough.effective s.st.textColor <;> cases s.st.underline.effective s.st.textColor <;> simp

/-! ### `line_elements`, `draw_string_binary` -/

/-- `character_size.width as i32` and `character_spacing as i32` do not wrap -/
def AdvanceFits (f : Font.MonoFont) : Prop := f.cw ≤ 2147483647 ∧ f.spacing ≤ 2147483647
instance (f : Font.MonoFont) : Decidable (AdvanceFits f) := by unfold AdvanceFits; exact inferInstance
example : AdvanceFits ⟨96, 54, 6, 9, 0, 6, 10, 1, 4, 1, fun _ => 0⟩ := by decide

/-- the captured variables of the `from_fn` closure of `line_elements` (`position`, `add_spacing`, `next_char`,
`chars`) for a state of the hand model's iterator (`rest` = `next_char` followed by `chars`) -/
def stOf (it : LineIt) : Pt × Bool × Option Nat × List Nat := (it.pos, it.addSpacing, it.rest.head?, it.rest.tail)

theorem line_elements_init (s : MonoTextStyle) (pos : Pt) (text : List Nat) :
    TextSrc.MonoTextStyle_line_elements s pos text =
      ⟨stOf (lineIt pos text), (TextSrc.MonoTextStyle_line_elements s pos text).step⟩ := rfl

/-- one call of the regenerated closure = one `LineIt.next` of the hand model -/
theorem line_elements_step (s : MonoTextStyle) (pos0 : Pt) (text0 : List Nat) (it : LineIt)
    (h : AdvanceFits s.font.f) :
    (TextSrc.MonoTextStyle_line_elements s pos0 text0).step (stOf it) =
      (some (it.next s.font.f).1, stOf (it.next s.font.f).2) := by
  obtain ⟨h1, h2⟩ := h
  obtain ⟨pos, rest, sp⟩ := it
  unfold TextSrc.MonoTextStyle_line_elements stOf LineIt.next
  simp only [from_fn_mk, u32_as_i32, Size_width, MonoFont_character_size, MonoFont_character_spacing,
    MonoTextStyle_font, h1, h2, ↓reduceIte, iter_next, Point_set_x, Point_x, Point_y, i32_add, option_is_some]
  cases sp
  · cases rest with
    | nil => rfl
    | cons c cs => cases cs <;> rfl
  · rfl

/-- the body of the `for` loop of `draw_string_binary` as the translator writes it -/
def loopBody (self : MonoTextStyle) : MonoFontDrawTarget → Pt × Elem → ForStep MonoFontDrawTarget (Pt × MonoFontDrawTarget) :=
  fun target (p, element) =>
      (match element with
        | LineElement.Char c =>
            let glyph := TextSrc.MonoFont_glyph (MonoTextStyle_font self) c
            let target := Image_draw (Image_new glyph p) target
            ForStep.next target
        | LineElement.Spacing =>
            if u32_gt (MonoFont_character_spacing (MonoTextStyle_font self)) (0 : Nat) then
              let target := (if option_is_some (MonoTextStyle_background_color self) then
                let target := MonoFontDrawTarget_fill_solid target (RectSrc.new p (RectSrc.Size_new (MonoFont_character_spacing (MonoTextStyle_font self)) (Size_height (MonoFont_character_size (MonoTextStyle_font self))))) BinaryColor.Off
                target
              else
                target)
              ForStep.next target
            else
              ForStep.next target
        | LineElement.Done =>
            ForStep.ret (p, target))

theorem draw_string_binary_unfold (fuel : Nat) (s : MonoTextStyle) (text : List Nat) (pos : Pt)
    (t : MonoFontDrawTarget) :
    TextSrc.MonoTextStyle_draw_string_binary fuel s text pos t =
      (match for_from_fn fuel (TextSrc.MonoTextStyle_line_elements s pos text) t (loopBody s) with
        | ForStep.ret r => r
        | ForStep.next t => (pos, t)) := rfl

theorem calls_nil (t : MonoFontDrawTarget) : MonoFontDrawTarget_calls t [] = t := by
  cases t; simp [MonoFontDrawTarget_calls]

theorem calls_calls (t : MonoFontDrawTarget) (a b : List BCall) :
    MonoFontDrawTarget_calls (MonoFontDrawTarget_calls t a) b = MonoFontDrawTarget_calls t (a ++ b) := by
  simp [MonoFontDrawTarget_calls, List.flatMap_append, List.append_assoc]

/-- a character / spacing element: the loop goes on with the hand model's calls of that element appended -/
theorem loopBody_char (s : MonoTextStyle) (t : MonoFontDrawTarget) (p : Pt) (c : Nat) (hg : GlyphFits s.font.f c) :
    loopBody s t (p, Elem.char c) =
      ForStep.next (MonoFontDrawTarget_calls t (s.font.f.elemCalls s.font.atlas s.st.bgColor.isSome (p, Elem.char c))) := by
  have key : ∀ (m : TextSrcPrelude.MonoFont) (a : Rect),
      Image_draw (Image_new ⟨MonoFont_image m, a⟩ p) t = MonoFontDrawTarget_calls t
        (if m.f.areaDrawable a then [BCall.fillContiguous ⟨p, a.size⟩ (cellBits m.atlas a)] else []) :=
    fun _ _ => rfl
  unfold loopBody
  simp only [MonoTextStyle_font, glyph_src_eq_model _ _ hg, key]
  rfl

theorem loopBody_spacing (s : MonoTextStyle) (t : MonoFontDrawTarget) (p : Pt) :
    loopBody s t (p, Elem.spacing) =
      ForStep.next (MonoFontDrawTarget_calls t (s.font.f.elemCalls s.font.atlas s.st.bgColor.isSome (p, Elem.spacing))) := by
  unfold loopBody
  simp only [MonoTextStyle_font, MonoFont_character_spacing, u32_gt, option_is_some, MonoTextStyle_background_color,
    MonoFontDrawTarget_fill_solid, BinaryColor.Off, RectSrc.new, RectSrc.Size_new, Rectangle_mk, Size_mk, Size_height,
    MonoFont_character_size, MonoFont.elemCalls, decide_eq_true_eq]
  by_cases h1 : s.font.f.spacing > 0 <;> by_cases h2 : s.st.bgColor.isSome = true <;> simp [h1, h2, calls_nil]

theorem loopBody_done (s : MonoTextStyle) (t : MonoFontDrawTarget) (p : Pt) :
    loopBody s t (p, Elem.done) = ForStep.ret (p, t) := rfl

/-- the regenerated loop over the regenerated iterator, from any state of the hand model's iterator and with any
fuel: it returns at the first `Done` among the first `fuel` items of the hand model's iterator, with the hand model's
calls of those items appended to the target -/
theorem loop_src_eq_model (s : MonoTextStyle) (pos0 : Pt) (text0 : List Nat) (h : AdvanceFits s.font.f) :
    ∀ (n : Nat) (it : LineIt) (t : MonoFontDrawTarget), (∀ c ∈ it.rest, GlyphFits s.font.f c) →
      for_from_fn n ⟨stOf it, (TextSrc.MonoTextStyle_line_elements s pos0 text0).step⟩ t (loopBody s) =
        (match (it.toListFuel s.font.f n).find? (fun e => e.2 == Elem.done) with
          | some (p, _) => ForStep.ret (p, MonoFontDrawTarget_calls t
              ((it.toListFuel s.font.f n).flatMap (s.font.f.elemCalls s.font.atlas s.st.bgColor.isSome)))
          | none => ForStep.next (MonoFontDrawTarget_calls t
              ((it.toListFuel s.font.f n).flatMap (s.font.f.elemCalls s.font.atlas s.st.bgColor.isSome)))) := by
  intro n
  have e1 : (Elem.spacing == Elem.done) = false := by decide
  have e2 : ∀ c, (Elem.char c == Elem.done) = false := fun c => by simp
  induction n with
  | zero => intro it t _; simp [for_from_fn, LineIt.toListFuel, calls_nil]
  | succ n ih =>
    intro it t hg
    obtain ⟨pos, rest, sp⟩ := it
    unfold for_from_fn
    simp only [line_elements_step s pos0 text0 _ h]
    cases sp with
    | true =>
      have hi := ih ⟨⟨pos.x + (s.font.f.spacing : Int), pos.y⟩, rest, false⟩
        (MonoFontDrawTarget_calls t (s.font.f.elemCalls s.font.atlas s.st.bgColor.isSome (pos, Elem.spacing))) hg
      simp only [LineIt.next, ↓reduceIte, loopBody_spacing, LineIt.toListFuel, hi, List.find?_cons, List.flatMap_cons,
        calls_calls, e1]
    | false =>
      cases rest with
      | nil =>
        simp [LineIt.next, loopBody_done, LineIt.toListFuel, MonoFont.elemCalls, calls_nil]
      | cons c cs =>
        have hi := ih ⟨⟨pos.x + (s.font.f.cw : Int), pos.y⟩, cs, !cs.isEmpty⟩
          (MonoFontDrawTarget_calls t (s.font.f.elemCalls s.font.atlas s.st.bgColor.isSome (pos, Elem.char c)))
          (fun c' hc' => hg c' (List.mem_cons_of_mem _ hc'))
        simp only [LineIt.next, Bool.false_eq_true, ↓reduceIte, loopBody_char s t pos c (hg c List.mem_cons_self), LineIt.toListFuel, hi,
          List.find?_cons, List.flatMap_cons, calls_calls, e2]

/-- every character of the text designates a glyph whose index and cell origin the casts of `glyph` can carry -/
def GlyphsFit (f : Font.MonoFont) (text : List Nat) : Prop := ∀ c ∈ text, GlyphFits f c
instance (f : Font.MonoFont) (text : List Nat) : Decidable (GlyphsFit f text) := by unfold GlyphsFit; exact inferInstance
example : GlyphsFit ⟨96, 54, 6, 9, 0, 6, 10, 1, 4, 1, fun c => c - 32⟩ [72, 105, 33] := by decide

/-- `draw_string_binary` (with `line_elements`) = the hand model's `drawStringBinary`, for every fuel that covers the
`2 * len + 1` line elements. -/
theorem draw_string_binary_src_eq_model (fuel : Nat) (s : MonoTextStyle) (text : List Nat) (pos : Pt)
    (t : MonoFontDrawTarget) (hf : 2 * text.length + 1 ≤ fuel) (h : AdvanceFits s.font.f)
    (hg : GlyphsFit s.font.f text) :
    TextSrc.MonoTextStyle_draw_string_binary fuel s text pos t =
      ((s.font.f.drawStringBinary s.font.atlas s.st.bgColor.isSome text pos).2,
       MonoFontDrawTarget_calls t (s.font.f.drawStringBinary s.font.atlas s.st.bgColor.isSome text pos).1) := by
  rw [draw_string_binary_unfold, line_elements_init, loop_src_eq_model s pos text h fuel (lineIt pos text) t hg]
  unfold MonoFont.drawStringBinary
  have e1 : (lineIt pos text).toListFuel s.font.f fuel = lineElements s.font.f pos text := by
    rw [lineElements_eq_lineSpec]; exact toListFuel_eq_lineSpec s.font.f text pos fuel hf
  rw [e1]
  dsimp only
  cases (lineElements s.font.f pos text).find? (fun e => e.2 == Elem.done) with
  | none => rfl
  | some pe => obtain ⟨p, e⟩ := pe; rfl

/-! ### `draw_whitespace`, `draw_string` -/

theorem draw_whitespace_src_eq_model (s : MonoTextStyle) (w : Nat) (p : Pt) (bl : Font.Baseline) (target : List Call)
    (h : DecoFits s.font.f) :
    TextSrc.MonoTextStyle_TextRenderer_draw_whitespace s w p bl target =
      ((s.font.f.drawWhitespace s.st w p bl).2, target ++ (s.font.f.drawWhitespace s.st w p bl).1) := by
  unfold TextSrc.MonoTextStyle_TextRenderer_draw_whitespace MonoFont.drawWhitespace
  simp only [baseline_offset_src_eq_model, draw_decorations_src_eq_model _ _ _ _ h, u32_ne, MonoTextStyle_background_color,
    DrawTargetD_fill_solid, decide_eq_true_eq, RectSrc.Point_op_sub_Point, RectSrc.Point_op_add_Point, RectSrc.Point_new,
    Point_mk, Point_x, Point_y, i32_sub, i32_add, RectSrc.new, RectSrc.Size_new, Rectangle_mk, Size_mk, Size_height,
    MonoFont_character_size, MonoTextStyle_font, Int.sub_zero, u32_saturating_as_i32]
  by_cases hw : w = 0
  · simp [hw, satAsI32]
  · cases s.st.bgColor <;> simp [hw, satAsI32]

/-- a text of `n` characters is drawn without a cast wrapping -/
def DrawFits (f : Font.MonoFont) (n : Nat) : Prop :=
  n < 4294967296 ∧ (f.cw + f.spacing) * n ≤ 2147483647 ∧ DecoFits f
instance (f : Font.MonoFont) (n : Nat) : Decidable (DrawFits f n) := by unfold DrawFits; exact inferInstance
example : DrawFits ⟨96, 54, 6, 9, 0, 6, 10, 1, 4, 1, fun _ => 0⟩ 1000 := by decide

theorem DrawFits.mono {f : Font.MonoFont} {n m : Nat} (h : DrawFits f n) (hm : m ≤ n) : DrawFits f m := by
  obtain ⟨h1, h2, h3⟩ := h
  exact ⟨by omega, Nat.le_trans (Nat.mul_le_mul_left _ hm) h2, h3⟩

theorem i32_as_u32_of_gt (a b : Int) (h : a > b) : i32_as_u32 (a - b) = (a - b).toNat := by
  unfold i32_as_u32; rw [if_pos (by omega)]

/-- `<MonoTextStyle as TextRenderer>::draw_string` = the hand model's `drawString`: the returned position and the
calls appended to the target. -/
theorem draw_string_src_eq_model (fuel : Nat) (s : MonoTextStyle) (text : List Nat) (p : Pt) (bl : Font.Baseline)
    (target : List Call) (hf : 2 * text.length + 1 ≤ fuel) (h : DrawFits s.font.f text.length)
    (ha : AdvanceFits s.font.f) (hg : GlyphsFit s.font.f text) :
    TextSrc.MonoTextStyle_TextRenderer_draw_string fuel s text p bl target =
      ((s.font.f.drawString s.font.atlas s.st text p bl).2,
       target ++ (s.font.f.drawString s.font.atlas s.st text p bl).1) := by
  obtain ⟨h1, h2, h3⟩ := h
  have hfit : FitsI32 (RectSrc.Size_new ((s.font.f.cw + s.font.f.spacing) * text.length) 0) := by
    unfold FitsI32 RectSrc.Size_new; simp only [Size_mk]; omega
  unfold TextSrc.MonoTextStyle_TextRenderer_draw_string MonoFont.drawString
  simp only [baseline_offset_src_eq_model, draw_decorations_src_eq_model _ _ _ _ h3, MonoTextStyle_background_color,
    MonoTextStyle_text_color, draw_string_binary_src_eq_model fuel s text _ _ hf ha hg, MonoFontDrawTarget_new, MonoFontDrawTarget_into_parent,
    MonoFontDrawTarget_calls, Both, Foreground, Background, usize_as_u32, iter_count, str_chars, Nat.mod_eq_of_lt h1,
    u32_mul, u32_add, Size_width, MonoFont_character_size, MonoFont_character_spacing, MonoTextStyle_font,
    Point_add_Size_src_eq_model _ _ hfit, i32_gt, i32_sub, i32_add, Point_x, Point_y, decide_eq_true_eq,
    RectSrc.Point_op_sub_Point, RectSrc.Point_op_add_Point, RectSrc.Point_new, Point_mk, Int.sub_zero]
  cases htc : s.st.textColor <;> cases hbc : s.st.bgColor <;>
    simp only [Option.isSome, RectSrc.Size_new, Size_mk, Int.natCast_zero, Int.add_zero] <;>
    split <;> rename_i hgt <;>
    first
      | simp only [hgt, ↓reduceIte, List.append_nil, List.nil_append, List.append_assoc, i32_as_u32_of_gt _ _ hgt]
      | simp only [hgt, ↓reduceIte, List.append_nil, List.nil_append]

/-! ### C14's claims, about the regenerated functions -/

/-- the regenerated `index`: the first position of `c` among the mapped characters, else the replacement index -/
theorem src_index_spec (fuel : Nat) (m : StrGlyphMapping) (c : Nat) (h : m.data.length < fuel) :
    TextSrc.StrGlyphMapping_GlyphMapping_index fuel m c =
      if c ∈ TextSrc.StrGlyphMapping_chars fuel m then (TextSrc.StrGlyphMapping_chars fuel m).idxOf c
      else m.replacement_index := by
  rw [index_src_eq_model fuel m c h, chars_src_eq_model fuel m h]; exact C14.index_spec _ _

example : TextSrc.StrGlyphMapping_GlyphMapping_index 7 ⟨[0, 97, 102, 0, 49, 52], 0⟩ 50 = 7 := by decide

theorem src_index_of_unmapped (fuel : Nat) (m : StrGlyphMapping) (c : Nat) (hf : m.data.length < fuel)
    (h : c ∉ TextSrc.StrGlyphMapping_chars fuel m) :
    TextSrc.StrGlyphMapping_GlyphMapping_index fuel m c = m.replacement_index := by
  rw [chars_src_eq_model fuel m hf] at h
  rw [index_src_eq_model fuel m c hf]; exact C14.index_of_unmapped (mappingOf m) c h

theorem src_mapped_chars_own_index (fuel : Nat) (m : StrGlyphMapping) (c₁ c₂ : Nat) (hf : m.data.length < fuel)
    (h₁ : c₁ ∈ TextSrc.StrGlyphMapping_chars fuel m) (h₂ : c₂ ∈ TextSrc.StrGlyphMapping_chars fuel m)
    (h : TextSrc.StrGlyphMapping_GlyphMapping_index fuel m c₁ = TextSrc.StrGlyphMapping_GlyphMapping_index fuel m c₂) :
    c₁ = c₂ := by
  rw [chars_src_eq_model fuel m hf] at h₁ h₂
  rw [index_src_eq_model fuel m _ hf, index_src_eq_model fuel m _ hf] at h
  exact C14.mapped_chars_own_index (mappingOf m) c₁ c₂ h₁ h₂ h

theorem src_contains_iff (fuel : Nat) (m : StrGlyphMapping) (c : Nat) (hf : m.data.length < fuel) :
    TextSrc.StrGlyphMapping_contains fuel m c = true ↔ c ∈ TextSrc.StrGlyphMapping_chars fuel m := by
  rw [contains_src_eq_model fuel m c hf, chars_src_eq_model fuel m hf]
  unfold StrMapping.contains
  simp [List.any_eq_true]

/-- the cell the regenerated `glyph` cuts out of the atlas: glyph `index(c)` counted row-major, `glyphs_per_row =
image width / cw` per row, each cell `cw x ch` -/
theorem src_glyph_cell (m : TextSrcPrelude.MonoFont) (c : Nat) (h : GlyphFits m.f c) (hcw : 0 < m.f.cw)
    (hw : m.f.cw ≤ m.f.imgW) :
    (TextSrc.MonoFont_glyph m c).area =
      ⟨⟨(((m.f.index c - m.f.index c / (m.f.imgW / m.f.cw) * (m.f.imgW / m.f.cw)) * m.f.cw : Nat) : Int),
        ((m.f.index c / (m.f.imgW / m.f.cw) * m.f.ch : Nat) : Int)⟩, ⟨m.f.cw, m.f.ch⟩⟩ := by
  rw [glyph_src_eq_model m c h]
  unfold MonoFont.glyphArea MonoFont.glyphAreaOfIndex
  rw [if_neg (by omega)]

/-- a glyph index below `glyphs_per_row * rows`: the cell of the regenerated `glyph` lies inside the font image -/
theorem src_cell_inside_image (m : TextSrcPrelude.MonoFont) (c : Nat) (h : GlyphFits m.f c) (hcw : 0 < m.f.cw)
    (hch : 0 < m.f.ch) (hlt : m.f.index c < (m.f.imgW / m.f.cw) * (m.f.imgH / m.f.ch)) :
    m.f.areaDrawable (TextSrc.MonoFont_glyph m c).area = true := by
  rw [glyph_src_eq_model m c h]
  exact C14.cell_inside_image m.f (m.f.index c) hcw hch hlt

/-- different glyph indices, different cells (regenerated `glyph`) -/
theorem src_cells_distinct (m : TextSrcPrelude.MonoFont) (c₁ c₂ : Nat) (h₁ : GlyphFits m.f c₁) (h₂ : GlyphFits m.f c₂)
    (hcw : 0 < m.f.cw) (hch : 0 < m.f.ch) (hw : m.f.cw ≤ m.f.imgW)
    (h : (TextSrc.MonoFont_glyph m c₁).area = (TextSrc.MonoFont_glyph m c₂).area) : m.f.index c₁ = m.f.index c₂ := by
  rw [glyph_src_eq_model m c₁ h₁, glyph_src_eq_model m c₂ h₂] at h
  exact C14.cells_distinct m.f _ _ hcw hch hw h

/-- Without the guard the two DO differ: a glyph index of 2^32 is truncated by `as u32`. -/
theorem glyph_differs_without_guard :
    (TextSrc.MonoFont_glyph ⟨⟨8, 8, 4, 4, 0, 0, 0, 0, 0, 0, fun _ => 4294967296⟩, fun _ => false⟩ 65).area
      ≠ (⟨8, 8, 4, 4, 0, 0, 0, 0, 0, 0, fun _ => 4294967296⟩ : Font.MonoFont).glyphArea 65 := by
  decide

end EG.C14.Src
