/-
  C14 / draw_whitespace — `<MonoTextStyle as TextRenderer>::draw_whitespace(width, position, baseline)`:
  a background rectangle `width x character height` at the top of the glyph row (if a background
  colour is set), then the decorations (strikethrough, underline) over the given width; nothing for
  width 0; returns the position advanced by `width`.

  `EG/Props/C14.lean` lists this as modelled and compared but without a theorem. The model is
  `MonoFont.drawWhitespace` (EG/Model/Font.lean); the pixel-map lemmas are those of
  EG/Lemmas/GlueChainPicture.lean (`lw`: last write of a call list on a native target).
  Hypotheses: the three rectangles fit into `i32` coordinates (`DecoInRange`, `Rect.InRange`: beyond
  that `Rectangle::points` saturates, C08's topic).
-/
import EG.Lemmas.GlueChainPicture
import EG.Props.C14
namespace EG.C14.Whitespace
open EG EG.Tgt EG.Font EG.Glue

/-- The top-left corner of the glyph row for a position given relative to baseline `bl`. -/
def rowPos (f : MonoFont) (position : Pt) (bl : Baseline) : Pt :=
  ⟨position.x, position.y - f.baselineOffset bl⟩

/-- The background rectangle of a whitespace of the given width. -/
def bgRect (f : MonoFont) (position : Pt) (bl : Baseline) (width : Nat) : Rect :=
  ⟨rowPos f position bl, ⟨width, f.ch⟩⟩

/-- **Calls**: for a non-zero width one `fill_solid` of the `width x ch` box with the background
colour (if set), then the decoration calls of `draw_string` over exactly `width` columns from the
same corner; no call at all for width 0 (whatever the style). -/
theorem draw_whitespace_calls (f : MonoFont) (st : Style) (width : Nat) (position : Pt) (bl : Baseline) :
    (f.drawWhitespace st width position bl).1 =
      if width = 0 then [] else
        (match st.bgColor with
         | some bc => [Call.fillSolid (bgRect f position bl width) bc]
         | none => []) ++ f.drawDecorations st width (rowPos f position bl) := by
  unfold MonoFont.drawWhitespace bgRect rowPos
  by_cases h : width = 0
  · simp [h]
  · simp only [ne_eq, h, not_false_eq_true, ↓reduceIte]
    cases st.bgColor <;> rfl

/-- **Returned position**: advanced by `width` (saturated to `i32`) in x, same y as given. -/
theorem draw_whitespace_next (f : MonoFont) (st : Style) (width : Nat) (position : Pt) (bl : Baseline) :
    (f.drawWhitespace st width position bl).2 = ⟨position.x + satAsI32 width, position.y⟩ := by
  unfold MonoFont.drawWhitespace
  rw [Pt.ext_iff']
  simp only
  exact ⟨trivial, by omega⟩

/-- Whitespace of width 0 draws nothing and returns the position unchanged. -/
theorem draw_whitespace_zero (f : MonoFont) (st : Style) (position : Pt) (bl : Baseline) :
    f.drawWhitespace st 0 position bl = ([], position) := by
  rw [Prod.ext_iff]
  refine ⟨by rw [draw_whitespace_calls]; simp, ?_⟩
  rw [draw_whitespace_next, Pt.ext_iff']; simp [satAsI32]

/-- **Picture** (native-fill target, any box `B`): a point gets the underline colour if it lies in
the underline rectangle over the given width, else the strikethrough colour if it lies in the
strikethrough rectangle, else the background colour if it lies in the `width x ch` box, else it is
untouched. (Each colour only if the style has it; `TextColor` decorations need a text colour.) -/
theorem draw_whitespace_pixels (f : MonoFont) (st : Style) (width : Nat) (position : Pt) (bl : Baseline)
    (hd : DecoInRange f (rowPos f position bl) width) (hb : (bgRect f position bl width).InRange)
    (B : Rect) (q : Pt) :
    runNative B (f.drawWhitespace st width position bl).1 q =
      ((decoAt B (st.underline.effective st.textColor)
          (decoRect f.ulOff f.ulH (rowPos f position bl) width) q).or
        (decoAt B (st.strikethrough.effective st.textColor)
          (decoRect f.stOff f.stH (rowPos f position bl) width) q)).or
        (decoAt B st.bgColor (bgRect f position bl width) q) := by
  rw [runNative_eq_lw, draw_whitespace_calls]
  by_cases h0 : width = 0
  · subst h0
    simp only [↓reduceIte, lw_nil, decoAt_zero_width, Option.or_none]
    unfold decoAt
    cases st.bgColor with
    | none => rfl
    | some c =>
      have : ¬ (bgRect f position bl 0).contains q = true := by
        rw [Rect.contains_iff]; simp only [bgRect]; omega
      simp only [this, Bool.false_eq_true, false_and, ↓reduceIte, Option.or_none]
  · simp only [h0, ↓reduceIte]
    rw [lw_append, lw_drawDecorations B f st width _ hd]
    congr 1
    cases st.bgColor with
    | none => rfl
    | some c => simp only [decoAt, lw_fillSolid _ _ _ hb]
example : DecoInRange (⟨64, 36, 4, 6, 0, 4, 6, 1, 3, 1, fun _ => 0⟩ : MonoFont)
      (rowPos ⟨64, 36, 4, 6, 0, 4, 6, 1, 3, 1, fun _ => 0⟩ ⟨-3, 10⟩ .alphabetic) 9 ∧
    (bgRect (⟨64, 36, 4, 6, 0, 4, 6, 1, 3, 1, fun _ => 0⟩ : MonoFont) ⟨-3, 10⟩ .alphabetic 9).InRange := by
  decide

/-- The same on a target that implements `draw_iter` only. -/
theorem draw_whitespace_pixels_default (f : MonoFont) (st : Style) (width : Nat) (position : Pt)
    (bl : Baseline) (B : Rect) (q : Pt) :
    runDefault B (f.drawWhitespace st width position bl).1 q =
      runNative B (f.drawWhitespace st width position bl).1 q := by
  rw [Tgt.runDefault_eq_runNative]

/-- **Background over the given width**: with a background colour and no decorations every point of
the `width x ch` box inside the target gets the background colour and no other point is touched. -/
theorem draw_whitespace_background (f : MonoFont) (tc : Option Color) (bc : Color) (width : Nat)
    (position : Pt) (bl : Baseline) (hd : DecoInRange f (rowPos f position bl) width)
    (hb : (bgRect f position bl width).InRange) (B : Rect) (q : Pt) :
    runNative B (f.drawWhitespace ⟨tc, some bc, .none, .none⟩ width position bl).1 q =
      if (bgRect f position bl width).contains q = true ∧ B.contains q = true then some bc else none := by
  rw [draw_whitespace_pixels f _ width position bl hd hb B q]
  simp only [DecoColor.effective, decoAt, Option.or_none, Option.none_or]

/-- **Decorations cover the full width**: every point of the underline rectangle over the given
width (inside the target) gets the underline colour. -/
theorem draw_whitespace_underline_covers (f : MonoFont) (st : Style) (width : Nat) (position : Pt)
    (bl : Baseline) (hd : DecoInRange f (rowPos f position bl) width)
    (hb : (bgRect f position bl width).InRange) (B : Rect) (q : Pt) (c : Color)
    (hu : st.underline.effective st.textColor = some c)
    (hq : (decoRect f.ulOff f.ulH (rowPos f position bl) width).contains q = true)
    (hB : B.contains q = true) :
    runNative B (f.drawWhitespace st width position bl).1 q = some c := by
  rw [draw_whitespace_pixels f st width position bl hd hb B q, hu]
  simp only [decoAt, hq, hB, and_self, ↓reduceIte, Option.some_or]
example : (⟨some 5, none, .textColor, .none⟩ : Style).underline.effective (some 5) = some 5 ∧
    (decoRect 6 1 (rowPos ⟨64, 36, 4, 6, 0, 4, 6, 1, 3, 1, fun _ => 0⟩ ⟨-3, 10⟩ .alphabetic) 9).contains
      ⟨5, 12⟩ = true := by decide

/-- A whitespace of the width of `n` character cells continues a text: its background box and
decoration rectangles are those `draw_string` uses for `n` characters of a font without spacing
(same corner, same width, same rows) — so text, whitespace, text chain like text
(`EG.C15.ChainPicture`). -/
theorem draw_whitespace_like_text_decorations (f : MonoFont) (st : Style) (n : Nat) (position : Pt)
    (bl : Baseline) (hn : 0 < n * f.cw) :
    (f.drawWhitespace st (n * f.cw) position bl).1 =
      (match st.bgColor with
       | some bc => [Call.fillSolid ⟨rowPos f position bl, ⟨n * f.cw, f.ch⟩⟩ bc]
       | none => []) ++ f.drawDecorations st (n * f.cw) (rowPos f position bl) := by
  rw [draw_whitespace_calls, if_neg (by omega)]; rfl
example : 0 < 3 * (⟨64, 36, 4, 6, 0, 4, 6, 1, 3, 1, fun _ => 0⟩ : MonoFont).cw := by decide

end EG.C14.Whitespace
