/-
  C14 (glue to C15) — `Text::draw` of a one-line text IS `draw_string`.

  src/text/text.rs: `Text::draw` runs `character_style.draw_string(line, position, baseline, target)?`
  for every `(line, position)` of `lines()` (`text.split('\n')`, one trailing `'\r'` stripped, the
  position moved by the alignment) and returns what the last call returned. The model
  (`TextLayout.draw`, EG/Model/TextLayout.lean) follows it arm for arm; the glyph run model is
  `Font.MonoFont.drawString` (EG/Model/Font.lean), the subject of C14's theorems.
  Here: for a text without `'\n'` the call list and the returned point of `Text::draw` are exactly
  those of ONE `draw_string` of the `'\r'`-stripped text at the aligned position; for
  `Alignment::Left` and a text that does not end in `'\r'` that is `draw_string(text, position,
  baseline)` itself, whatever the baseline, the line height and the character style - so every
  C14 theorem about `drawString` is a theorem about `Text::new(..).draw(..)` of such a text.
  The multi-line form (the call list is the concatenation of the `draw_string` call lists of the
  lines at the positions `lines()` gives, the returned point that of the last line) is
  `multiline_eq_lines` / `text_draw_returns_last_line` in Props/C15.lean.
-/
import EG.Lemmas.TextLayoutLines
import EG.Lemmas.TextLayoutChain
namespace EG.C14.TextDraw
open EG EG.Font EG.TextLayout

/-- **A text without `'\n'`: `Text::draw` = one `draw_string`** of the text without its trailing
`'\r'` (if any) at the aligned position - same target calls, same returned point; every alignment,
baseline, line height and character style. -/
theorem text_draw_single_line (f : MonoFont) (atlas : Pt → Bool) (t : Text) (h : 10 ∉ t.text) :
    draw f atlas t =
      f.drawString atlas t.style (stripCR t.text)
        (alignedPos f t.style t.ts (stripCR t.text) t.position) t.ts.baseline := by
  unfold draw
  rw [lines_single f t h]
  simp [drawLines]
example : (10 : Nat) ∉ ([72, 105, 13] : List Nat) := by decide

/-- **`Text::draw` of a single-line, left-aligned text equals `draw_string`** at the text's position
with the text style's baseline: the same call list and the same returned position, for every
baseline, line height, character style and font. -/
theorem text_draw_left_single_line_eq_draw_string (f : MonoFont) (atlas : Pt → Bool) (t : Text)
    (hnl : 10 ∉ t.text) (hcr : t.text.getLast? ≠ some 13) (hal : t.ts.alignment = .left) :
    draw f atlas t = f.drawString atlas t.style t.text t.position t.ts.baseline := by
  rw [text_draw_single_line f atlas t hnl, stripCR_of_not_cr t.text hcr]
  unfold alignedPos
  rw [hal]
example : (10 : Nat) ∉ ([72, 105, 33] : List Nat) ∧ ([72, 105, 33] : List Nat).getLast? ≠ some 13 ∧
    (⟨.left, .bottom, .pixels 7⟩ : TextStyle).alignment = .left := by decide

/-- The same for the text API's usual constructor `Text::new(text, position, style)` (default text
style: left aligned, alphabetic baseline, line height 100 %) when the text contains neither `'\n'`
nor `'\r'`. -/
theorem text_new_draw_eq_draw_string (f : MonoFont) (atlas : Pt → Bool) (text : List Nat) (p : Pt)
    (st : Style) (hnl : 10 ∉ text) (hcr : 13 ∉ text) :
    draw f atlas ⟨text, p, st, TextStyle.default⟩ = f.drawString atlas st text p .alphabetic := by
  have hl : text.getLast? ≠ some 13 := by
    intro e
    exact hcr (List.mem_of_getLast? e)
  exact text_draw_left_single_line_eq_draw_string f atlas ⟨text, p, st, TextStyle.default⟩ hnl hl rfl
example : (10 : Nat) ∉ ([72, 105, 33] : List Nat) ∧ (13 : Nat) ∉ ([72, 105, 33] : List Nat) := by decide

/-- **General form (any number of lines, any alignment)**: the call list of `Text::draw` is the
concatenation, in order, of the `draw_string` call lists of the lines of `lines()` at the positions
`lines()` gives (C15: `lines_positions`, `align_*`), and the returned point is what `draw_string`
returned for the last line. -/
theorem text_draw_eq_draw_strings (f : MonoFont) (atlas : Pt → Bool) (t : Text) :
    (draw f atlas t).1 =
        (lines f t).flatMap (fun lp => (f.drawString atlas t.style lp.1 lp.2 t.ts.baseline).1) ∧
      ∃ lp, (lines f t).getLast? = some lp ∧
        (draw f atlas t).2 = (f.drawString atlas t.style lp.1 lp.2 t.ts.baseline).2 := by
  refine ⟨by unfold draw; rw [drawLines_calls], ?_⟩
  have hne := lines_ne_nil f t
  cases h : (lines f t).getLast? with
  | none => exact absurd (List.getLast?_eq_none_iff.mp h) hne
  | some lp =>
    refine ⟨lp, rfl, ?_⟩
    unfold draw
    rw [drawLines_next, h]

end EG.C14.TextDraw
