/-
  C14 / glyph stream — the colour stream handed to `fill_contiguous` for a glyph is exactly the
  cell's `w * h` atlas bits.

  Closes the sub-claim `EG/Props/C14.lean` lists as carried by correspondence only. The font model
  (`EG.Model.Font`, C14) postulates the stream of a glyph as `cellBits atlas cell`; the real glyph is
  `SubImage::new_unchecked(&font.image, cell)` of the one-bit `ImageRaw<BinaryColor>` atlas (default
  data order `LittleEndianMsb0`, src/mono_font/mod.rs) drawn by `Image::new(&glyph, p).draw(..)`,
  i.e. through `ImageRaw::draw_sub_image` and the `ContiguousPixels` iterator, which the image model
  (`EG.Model.ImageRaw`, C09) transcribes. Here the two models are combined: with
  `atlas p := (image.pixel(p) == Some(On))`, C09's call list for the glyph IS the font model's
  `glyphCalls` (colours as raw values 0 / 1): same guard, same box, same stream, `cw * ch` items —
  for every one-bit image (either data order), every font geometry and glyph index, and in
  particular for all 292 built-in fonts with ANY atlas bytes of the file's length.

  -- [V] the atlas bitmap content itself (which bits are on in the 292 raw files) stays a parameter (`data`); `BinaryColor::from(RawU1)` (on iff the bit is set) is C12's topic: carried by correspondence + oracle only
-/
import EG.Lemmas.GlueFontImage
import EG.Lemmas.FontTables
import EG.Props.C09
namespace EG.C14.GlyphStream
open EG EG.Raw EG.Img EG.Font EG.Generated EG.Glue

/-- The font `f` reads its glyphs from the image `im`: a one-bit image of the size the font states. -/
structure ReadsAtlas (f : MonoFont) (im : ImageRaw) : Prop where
  wf : im.WF
  oneBit : im.bits = 1
  w : f.imgW = im.size.w
  h : f.imgH = im.size.h

/-- `MonoFont::glyph(c)` as a C09 drawable: `SubImage::new_unchecked(&self.image, area)`. -/
def glyphDrawable (f : MonoFont) (im : ImageRaw) (c : Nat) : Drawable := .sub (.raw im) (f.glyphArea c)

/-- The font model's guard is the guard of C09's `draw_sub_image`. -/
theorem area_drawable_iff_accepts (f : MonoFont) (im : ImageRaw) (hw : f.imgW = im.size.w)
    (hh : f.imgH = im.size.h) (a : Rect) : f.areaDrawable a = true ↔ im.Accepts a := by
  rw [areaDrawable_iff]; unfold ImageRaw.Accepts; rw [hw, hh]
  constructor <;> (intro h; omega)
example : (⟨64, 36, 4, 6, 0, 4, 6, 1, 3, 1, fun _ => 0⟩ : MonoFont).imgW =
    (⟨1, .le, List.replicate 288 0, ⟨64, 36⟩⟩ : ImageRaw).size.w := rfl

/-- **`glyph_stream`**: for a well-formed one-bit image whose `pixel` function is the font model's
atlas, the C09 sub-image stream of an accepted area (in particular a glyph cell inside the image)
equals the font model's `cellBits` for that area: row-major, exactly `w * h` items. -/
theorem glyph_stream (im : ImageRaw) (hw : im.WF) (h1 : im.bits = 1) (a : Rect) (ha : im.Accepts a) :
    im.drawSubImage a =
        [Call.fillContiguous ⟨Pt.zero, a.size⟩ ((cellBits (atlasOf im) a).map bitColor)] ∧
      (cellBits (atlasOf im) a).length = a.size.w * a.size.h :=
  drawSubImage_eq_cellBits hw h1 ha
example : exIm.WF ∧ exIm.bits = 1 ∧ exIm.Accepts ⟨⟨6, 1⟩, ⟨3, 2⟩⟩ := ⟨exIm_wf, rfl, by decide⟩
example : (cellBits (atlasOf exIm) ⟨⟨6, 1⟩, ⟨3, 2⟩⟩).map bitColor = [0, 1, 1, 1, 0, 1] := by decide

/-- **The two models issue the same calls for a glyph**: drawing `Image::new(&font.glyph(c), p)` in
the image model (C09: `SubImage::draw` -> `draw_sub_image` on the translated target ->
`ContiguousPixels`) yields exactly the call list `glyphCalls` the font model (C14) postulates —
one `fill_contiguous(⟨p, cell size⟩, cellBits)` when the cell lies inside the image, nothing
otherwise. Every font geometry, every mapping, every character, every position. -/
theorem glyph_draw_eq_font_model (f : MonoFont) (im : ImageRaw) (hf : ReadsAtlas f im) (c : Nat) (p : Pt) :
    (Image.new (glyphDrawable f im c) p).draw = (f.glyphCalls (atlasOf im) c p).map bcallToCall := by
  unfold MonoFont.glyphCalls
  simp only [Image.draw, Image.new, glyphDrawable, Drawable.draw, Drawable.drawSubImage]
  by_cases hd : f.areaDrawable (f.glyphArea c) = true
  · have ha := (area_drawable_iff_accepts f im hf.w hf.h _).mp hd
    rw [(drawSubImage_eq_cellBits hf.wf hf.oneBit ha).1]
    simp only [hd, ↓reduceIte, List.map_cons, List.map_nil, translatedCall, bcallToCall, Rect.translate,
      pt_zero_add]
  · have ha : ¬ im.Accepts (f.glyphArea c) := fun h => hd ((area_drawable_iff_accepts f im hf.w hf.h _).mpr h)
    rw [ImageRaw.drawSubImage_reject ha]
    simp only [hd, Bool.false_eq_true, ↓reduceIte, List.map_nil]
example : ReadsAtlas ⟨9, 3, 3, 3, 0, 2, 3, 1, 1, 1, fun c => c⟩ exIm := ⟨exIm_wf, rfl, rfl, rfl⟩

/-- The stream of a glyph whose cell lies inside the image (C14's `cell_inside_image`) has exactly
`cw * ch` items and the call's box is the cell's size placed at `p`. -/
theorem glyph_stream_of_index (f : MonoFont) (im : ImageRaw) (hf : ReadsAtlas f im) (c : Nat) (p : Pt)
    (hcw : 0 < f.cw) (hch : 0 < f.ch) (h : f.index c < (f.imgW / f.cw) * (f.imgH / f.ch)) :
    (Image.new (glyphDrawable f im c) p).draw =
        [Call.fillContiguous ⟨p, ⟨f.cw, f.ch⟩⟩ ((cellBits (atlasOf im) (f.glyphArea c)).map bitColor)] ∧
      (cellBits (atlasOf im) (f.glyphArea c)).length = f.cw * f.ch := by
  have hd : f.areaDrawable (f.glyphArea c) = true := EG.Font.cell_inside_of_lt f _ hcw hch h
  have ha := (area_drawable_iff_accepts f im hf.w hf.h _).mp hd
  have hsz : (f.glyphArea c).size = ⟨f.cw, f.ch⟩ := by
    have hle : ¬ (f.cw = 0 ∨ f.imgW < f.cw) := by
      intro h'
      rcases h' with h' | h'
      · omega
      · have : f.imgW / f.cw = 0 := Nat.div_eq_of_lt h'
        rw [this] at h; simp at h
    unfold MonoFont.glyphArea MonoFont.glyphAreaOfIndex
    simp only [hle, ↓reduceIte]
  rw [glyph_draw_eq_font_model f im hf c p]
  unfold MonoFont.glyphCalls
  simp only [hd, ↓reduceIte, List.map_cons, List.map_nil, bcallToCall, hsz]
  refine ⟨trivial, ?_⟩
  rw [(drawSubImage_eq_cellBits hf.wf hf.oneBit ha).2, hsz]
example : (0 : Nat) < 3 ∧ (fun c : Nat => c) 2 < (9 / 3) * (3 / 3) := by decide

/-! ### The 292 built-in fonts -/

/-- Size facts of the generated table the image model needs ([F]): image sizes survive `as i32`, the
atlas file is far below `usize::MAX / 8` bytes. -/
theorem builtin_atlas_sizes : ∀ r ∈ fontTable,
    r.imgW ≤ 2147483647 ∧ r.imgH ≤ 2147483647 ∧ r.rawLen * 8 ≤ usizeMax := by decide +kernel

/-- The atlas image of a built-in font over its file content `data` (`ImageRaw::new(include_bytes!(..),
width)` in the `mono_font` modules: one bit per pixel, default order). -/
def atlasImage (r : FontRec) (data : List Nat) : ImageRaw := ⟨1, .le, data, ⟨r.imgW, r.imgH⟩⟩

/-- For every built-in font and ANY file content of the file's length the atlas is a well-formed
image that the font reads (`ImageRaw::new` accepts it). -/
theorem builtin_reads_atlas (r : FontRec) (hr : r ∈ fontTable) (data : List Nat)
    (hl : data.length = r.rawLen) : ReadsAtlas (fontOfRec r) (atlasImage r data) := by
  obtain ⟨_, _, _, _, hlen⟩ := fontTable_ok r hr
  obtain ⟨hW, hH, hU⟩ := builtin_atlas_sizes r hr
  refine ⟨⟨(rfl : validBits 1 = true), ?_, hW, hH, ?_⟩, rfl, rfl, rfl⟩
  · show data.length = Img.bytesPerRow r.imgW 1 * r.imgH
    rw [hl, hlen]; unfold Img.bytesPerRow; simp only [Nat.mul_one]
  · show pixelCount 1 data.length ≤ usizeMax
    rw [hl]
    show r.rawLen * 8 ≤ usizeMax
    exact hU
example : ∃ r ∈ fontTable, ∃ data : List Nat, data.length = r.rawLen := by
  obtain ⟨r, hr⟩ := List.exists_mem_of_length_pos (l := fontTable) (by rw [fontTable_length]; decide)
  exact ⟨r, hr, List.replicate r.rawLen 0xA5, List.length_replicate ..⟩

/-- **Built-in fonts**: for every one of the 292 fonts, ANY atlas bytes of the file's length, EVERY
character (mapped or not) and every position, drawing the glyph in the image model issues exactly
one `fill_contiguous` whose box is the character cell placed at `p` and whose colour stream is the
cell's atlas bits row-major (`cellBits`, as raw values), exactly `cw * ch` of them — what the font
model takes as given. -/
theorem builtin_glyph_stream (r : FontRec) (hr : r ∈ fontTable) (data : List Nat)
    (hl : data.length = r.rawLen) (c : Nat) (p : Pt) :
    (Image.new (glyphDrawable (fontOfRec r) (atlasImage r data) c) p).draw =
        ((fontOfRec r).glyphCalls (atlasOf (atlasImage r data)) c p).map bcallToCall ∧
      (fontOfRec r).glyphCalls (atlasOf (atlasImage r data)) c p =
        [BCall.fillContiguous ⟨p, ((fontOfRec r).glyphArea c).size⟩
          (cellBits (atlasOf (atlasImage r data)) ((fontOfRec r).glyphArea c))] ∧
      ((fontOfRec r).glyphArea c).size = ⟨r.cw, r.ch⟩ ∧
      (cellBits (atlasOf (atlasImage r data)) ((fontOfRec r).glyphArea c)).length = r.cw * r.ch := by
  have hf := builtin_reads_atlas r hr data hl
  have hd := builtin_glyph_drawable r hr c
  have ha := (area_drawable_iff_accepts _ _ hf.w hf.h _).mp hd
  obtain ⟨_, hcw, hch, _, _⟩ := fontTable_ok r hr
  have hsz : ((fontOfRec r).glyphArea c).size = ⟨r.cw, r.ch⟩ := by
    have h2 := (areaDrawable_iff _ _).mp hd
    unfold MonoFont.glyphArea MonoFont.glyphAreaOfIndex at h2 ⊢
    by_cases hz : (fontOfRec r).cw = 0 ∨ (fontOfRec r).imgW < (fontOfRec r).cw
    · simp only [hz, ↓reduceIte, Rect.zero, Sz.zero] at h2; omega
    · simp only [hz, ↓reduceIte]; rfl
  refine ⟨glyph_draw_eq_font_model _ _ hf c p, ?_, hsz, ?_⟩
  · unfold MonoFont.glyphCalls; simp only [hd, ↓reduceIte]
  · rw [(drawSubImage_eq_cellBits hf.wf hf.oneBit ha).2, hsz]

end EG.C14.GlyphStream
