/-
  C02 (Rectangle) — everything a styled rectangle draws lies inside its `bounding_box()`
  (`styled_bounding_box` = the rectangle offset by the outside stroke width = the stroke area),
  and a completely transparent style draws nothing.
  Models: EG.Model.StyledRect. Helper lemmas: EG/Lemmas/StyledRectDraw.lean.
-/
import EG.Lemmas.StyledRectDraw
namespace EG.C02.Rectangle
open EG.Tgt
open EG EG.Rect EG.StyledRect

/-- `styled_bounding_box` is the stroke area. -/
theorem styled_bounding_box_eq_stroke_area (s : Style) (r : Rect) :
    styledBoundingBox s r = strokeArea s r := rfl

/-- Every pixel offered by any call of `draw()` (before the target clips it) lies inside the
bounding box. -/
theorem styled_rect_calls_inside_bbox (s : Style) (r : Rect) (h : Guard s r) (B : Rect)
    (c : Call) (hc : c ∈ drawCalls s r) (w : Pt × Color) (hw : w ∈ c.lowerNative B) :
    (styledBoundingBox s r).contains w.1 = true :=
  mem_drawCalls_lowerNative h B hc hw

/-- The same for a draw_iter-only target. -/
theorem styled_rect_calls_inside_bbox_default (s : Style) (r : Rect) (h : Guard s r) (B : Rect)
    (c : Call) (hc : c ∈ drawCalls s r) (w : Pt × Color) (hw : w ∈ c.lowerDefault B) :
    (styledBoundingBox s r).contains w.1 = true := by
  rw [Call.lowerDefault_eq_lowerNative] at hw
  exact mem_drawCalls_lowerNative h B hc hw

/-- Every pixel left on a target by `draw()` lies inside the bounding box. -/
theorem styled_rect_drawn_inside_bbox (s : Style) (r : Rect) (h : Guard s r) (B : Rect) (p : Pt)
    (hp : runNative B (drawCalls s r) p ≠ none) : (styledBoundingBox s r).contains p = true := by
  rw [runNative_drawCalls s r h B p] at hp
  by_cases hB : B.contains p = true
  · rw [if_pos hB] at hp
    exact expectedColor_ne_none h.noSat hp
  · rw [if_neg hB] at hp; exact absurd rfl hp

/-- Every pixel yielded by `pixels()` lies inside the bounding box. -/
theorem styled_rect_pixels_inside_bbox (s : Style) (r : Rect) (h : Guard s r)
    (w : Pt × Color) (hw : w ∈ pixelsList s r) : (styledBoundingBox s r).contains w.1 = true :=
  mem_pixelsList_contains h hw

/-- A completely transparent style makes no target call at all ... -/
theorem styled_rect_transparent_draws_nothing (s : Style) (r : Rect) (h : s.isTransparent = true) :
    drawCalls s r = [] := drawCalls_of_transparent s r h

/-- ... and `pixels()` is empty. -/
theorem styled_rect_transparent_no_pixels (s : Style) (r : Rect) (h : s.isTransparent = true) :
    pixelsList s r = [] := pixelsList_of_transparent s r h

/-- `is_transparent` means: no fill colour, and no stroke colour or zero stroke width. -/
theorem is_transparent_iff (s : Style) :
    s.isTransparent = true ↔ (s.stroke = none ∨ s.width = 0) ∧ s.fill = none :=
  s.isTransparent_iff

/-! Non-vacuity -/
example : Guard ⟨some 7, some 9, 5, .outside⟩ ⟨⟨-2, -1⟩, ⟨4, 0⟩⟩ := by decide
example : (⟨none, some 9, 0, .center⟩ : Style).isTransparent = true := by decide
example : (⟨none, none, 4, .inside⟩ : Style).isTransparent = true := by decide
example : styledBoundingBox ⟨some 7, some 9, 5, .outside⟩ ⟨⟨-2, -1⟩, ⟨4, 3⟩⟩ = ⟨⟨-7, -6⟩, ⟨14, 13⟩⟩ := by decide

end EG.C02.Rectangle
