/-
  EG.Props.C02.GuardBits — the guard bits the model driver prints for `thick.polyline` / `thick.triangle`
  ops (field ` g=..`, EG/Driver/Thick.lean, computed by the Mathlib-free functions of
  EG/Model/JoinGuards.lean) ARE the decidable guards of the C02 join theorems
  (EG/Props/C02/JoinsBBox.lean): each Bool function is `true` exactly when the guard holds.
  With these, `coverage.guard_bits` of the evidence reports on how many ops of a run the hypotheses
  `PolyBBoxGuard` / `TriStrokeGuard` / `TriOutlineGuard` / `TriTopGuard` of those theorems hold.
-/
import EG.Model.JoinGuards
import EG.Props.C02.JoinsBBox
import EG.Props.C02.JoinsBBoxAlign
namespace EG.C02.GuardBitsSpec
open EG EG.Joins EG.C02.JoinsBBox

theorem guardBits_fillerSide (j : LineJoin) : GuardBits.fillerSide j = fillerSide j := rfl

theorem guardBits_adjOK (U : Rect) (s s' : ThickSegment) : GuardBits.adjOK U s s' = adjOK U s s' := rfl

theorem guardBits_chainOK (U : Rect) (segs : List ThickSegment) :
    GuardBits.chainOK U segs = chainOK U segs := by
  induction segs with
  | nil => rfl
  | cons s rest ih =>
    cases rest with
    | nil => rfl
    | cons s' rest' =>
      simp only [GuardBits.chainOK, chainOK, guardBits_adjOK]
      rw [ih]

theorem guardBits_closedSegments3 (t : Tri) (w : Nat) (off : Thick.StrokeOffset) :
    GuardBits.closedSegments3 t w off = closedSegments3 t w off := rfl

/-- The driver's bit for `PolyBBoxGuard`. -/
theorem polyBBoxGuard_bit_iff (pl : Polyline) (w : Nat) :
    GuardBits.polyBBoxGuard pl w = true ↔ PolyBBoxGuard pl w := by
  unfold GuardBits.polyBBoxGuard PolyBBoxGuard polySegments
  cases untranslatedBoundingBox pl w with
  | none => simp
  | some ubb =>
    cases (ThickSegmentIter.new pl.vertices w).bind ThickSegmentIter.toList with
    | none => simp
    | some segs => simp [guardBits_chainOK]

/-- The driver's bit for the `chainOK` conjunct of `PolyBBoxGuard`. -/
theorem polyChainOK_bit_iff (pl : Polyline) (w : Nat) :
    GuardBits.polyChainOK pl w = true ↔
      match untranslatedBoundingBox pl w, polySegments pl.vertices w with
      | some ubb, some segs => chainOK ubb segs = true
      | _, _ => True := by
  unfold GuardBits.polyChainOK polySegments
  cases untranslatedBoundingBox pl w with
  | none => simp
  | some ubb =>
    cases (ThickSegmentIter.new pl.vertices w).bind ThickSegmentIter.toList with
    | none => simp
    | some segs => simp [guardBits_chainOK]

/-- The driver's bit for `TriStrokeGuard`. -/
theorem triStrokeGuard_bit_iff (t : Tri) (style : TriStyle) :
    GuardBits.triStrokeGuard t style = true ↔ TriStrokeGuard t style := by
  unfold GuardBits.triStrokeGuard TriStrokeGuard
  rw [guardBits_closedSegments3]
  generalize closedSegments3 t.sortedClockwise style.strokeWidth style.strokeAlignment.toOffset = o
  rcases o with _ | (_ | ⟨a, _ | ⟨b, _ | ⟨c, _ | ⟨d, r⟩⟩⟩⟩)
  · simp
  · simp
  · simp
  · simp
  · simp only [guardBits_adjOK, Bool.and_eq_true, decide_eq_true_eq, Bool.or_eq_true,
      Bool.not_eq_true']
    constructor
    · rintro ⟨⟨⟨⟨h0, h1⟩, h2⟩, h3⟩, h4⟩
      refine ⟨h0, h1, h2, h3, ?_⟩
      intro hf
      rcases h4 with h4 | h4
      · rw [h4] at hf; cases hf
      · exact ⟨h4.1.1, h4.1.2, h4.2⟩
    · rintro ⟨h0, h1, h2, h3, h4⟩
      refine ⟨⟨⟨⟨h0, h1⟩, h2⟩, h3⟩, ?_⟩
      cases hfc : style.fillColor.isSome with
      | false => exact Or.inl rfl
      | true =>
        have := h4 hfc
        exact Or.inr ⟨⟨this.1, this.2.1⟩, this.2.2⟩
  · simp

/-- The driver's bit for the three `adjOK` conjuncts of `TriStrokeGuard`. -/
theorem triAdjOK_bit_iff (t : Tri) (style : TriStyle) :
    GuardBits.triAdjOK t style = true ↔
      match closedSegments3 t.sortedClockwise style.strokeWidth style.strokeAlignment.toOffset with
      | some [a, b, c] =>
        adjOK (foldEdgeBoxes [a, b, c]) a b = true ∧ adjOK (foldEdgeBoxes [a, b, c]) b c = true ∧
          adjOK (foldEdgeBoxes [a, b, c]) c a = true
      | _ => True := by
  unfold GuardBits.triAdjOK
  rw [guardBits_closedSegments3]
  generalize closedSegments3 t.sortedClockwise style.strokeWidth style.strokeAlignment.toOffset = o
  rcases o with _ | (_ | ⟨a, _ | ⟨b, _ | ⟨c, _ | ⟨d, r⟩⟩⟩⟩)
  · simp
  · simp
  · simp
  · simp
  · simp only [guardBits_adjOK, Bool.and_eq_true, and_assoc]
  · simp

/-- The driver's bit for `TriOutlineGuard`. -/
theorem triOutlineGuard_bit_iff (t : Tri) (style : TriStyle) :
    GuardBits.triOutlineGuard t style = true ↔ TriOutlineGuard t style := by
  unfold GuardBits.triOutlineGuard TriOutlineGuard
  rw [guardBits_closedSegments3]
  generalize closedSegments3 t.sortedClockwise style.strokeWidth style.strokeAlignment.toOffset = o
  cases triStyledBoundingBox t style with
  | none => simp
  | some bb =>
    cases o with
    | none => simp
    | some segs =>
      simp only [Bool.and_eq_true, decide_eq_true_eq, List.all_eq_true, and_assoc]

/-- The driver's bit for `TriTopGuard`. -/
theorem triTopGuard_bit_iff (t : Tri) : GuardBits.triTopGuard t = true ↔ TriTopGuard t := by
  unfold GuardBits.triTopGuard TriTopGuard
  simp

/-- For an Outside stroke (`i32` vertices) the driver's bit for `TriStrokeGuard` is the guard
`TriOutsideStrokeGuard` of `triangle_outside_stroke_in_bounding_box_partial`
(EG/Props/C02/JoinsBBoxAlign.lean): the vertex clause holds by proof. -/
theorem triOutsideStrokeGuard_bit_iff (t : Tri) (style : TriStyle)
    (hal : style.strokeAlignment = .outside) (hi : TriI32 t) :
    GuardBits.triStrokeGuard t style = true ↔ TriOutsideStrokeGuard t style :=
  (triStrokeGuard_bit_iff t style).trans (triStrokeGuard_outside_iff t style hal hi)

/-- Where the driver's bit for `TriOutlineGuard` is set on an Inside stroke, the weaker guard
`TriInsideGuard` of `triangle_inside_in_bounding_box_of_inner_corners` holds. -/
theorem triInsideGuard_of_bit (t : Tri) (style : TriStyle) (hal : style.strokeAlignment = .inside)
    (h : GuardBits.triOutlineGuard t style = true) : TriInsideGuard t style.strokeWidth :=
  triInsideGuard_of_outline t style hal ((triOutlineGuard_bit_iff t style).mp h)

/-- The driver's sixth bit of a `thick.triangle` op (`bit 5` in the evidence) is `TriStrokeColumnsGuard`,
the guard of `triangle_stroke_in_bounding_box_of_columns_partial`. -/
theorem triStrokeColumnsGuard_bit_iff (t : Tri) (style : TriStyle) :
    GuardBits.triStrokeColumnsGuard t style = true ↔ TriStrokeColumnsGuard t style := by
  unfold GuardBits.triStrokeColumnsGuard TriStrokeColumnsGuard
  rw [guardBits_closedSegments3]
  generalize closedSegments3 t.sortedClockwise style.strokeWidth style.strokeAlignment.toOffset = o
  rcases o with _ | (_ | ⟨a, _ | ⟨b, _ | ⟨c, _ | ⟨d, r⟩⟩⟩⟩)
  · simp
  · simp
  · simp
  · simp
  · simp only [guardBits_adjOK, Bool.and_eq_true, decide_eq_true_eq, Bool.or_eq_true,
      Bool.not_eq_true']
    constructor
    · rintro ⟨⟨⟨⟨h0, h1⟩, h2⟩, h3⟩, h4⟩
      refine ⟨h0, h1, h2, h3, ?_⟩
      intro hf
      rcases h4 with h4 | h4
      · rw [h4] at hf; cases hf
      · obtain ⟨⟨⟨⟨⟨a1, a2⟩, b1⟩, b2⟩, c1⟩, c2⟩ := h4
        exact ⟨⟨a1, a2⟩, ⟨b1, b2⟩, ⟨c1, c2⟩⟩
    · rintro ⟨h0, h1, h2, h3, h4⟩
      refine ⟨⟨⟨⟨h0, h1⟩, h2⟩, h3⟩, ?_⟩
      cases hfc : style.fillColor.isSome with
      | false => exact Or.inl rfl
      | true =>
        obtain ⟨⟨a1, a2⟩, ⟨b1, b2⟩, ⟨c1, c2⟩⟩ := h4 hfc
        exact Or.inr ⟨⟨⟨⟨⟨a1, a2⟩, b1⟩, b2⟩, c1⟩, c2⟩
  · simp

end EG.C02.GuardBitsSpec
