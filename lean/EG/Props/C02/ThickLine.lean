/-
  C02 — bounding boxes contain everything that is drawn: STROKED LINES of any width.
  `Line::styled_bounding_box` (src/primitives/line/styled.rs:72) is the box spanned by the four end
  points of the two lines `Line::extents(width, StrokeOffset::None)` returns: the last parallel the
  `ParallelsIterator` yields on the left and on the right side, each from its start to
  `start + delta` (minus `major + minor` step for an "extra" parallel). `draw` is one `draw_iter`
  call with the points of `pixels()` (`ThickPoints`: the points of every parallel of the same
  iterator). Models: EG.Model.ThickLine (`Thick.thickPoints`, `Thick.styledBoundingBox`; streams
  `thick.points`, `thick.bbox`); lemmas: EG.Lemmas.ThickBBox{Frame, Bres, Side, Run, Main, Final}.

  The proof, for ALL lines and widths (no guard): in the quadrant order spanned by the two steps of
  the perpendicular walk, the start points of the parallels of one side move monotonically away
  from the centre line, and so do their shortened end points (this is where `mirror_extra_points`
  and the shortening by `major + minor` fit together); hence starts and ends of all parallels lie in
  the box of the two last ones. The initial error of a parallel is at most the threshold, of an
  extra parallel at most `2 dmin - dmaj` (it has just wrapped), which bounds the number of minor
  steps of the parallel by `dmin` resp. `dmin - 1`: every point of a parallel lies between its
  start and its shortened end.
-/
import EG.Lemmas.ThickBBoxFinal
namespace EG.C02.ThickLine
open EG

/-- **Every pixel of a stroked line (any width, any direction, zero length included) lies inside
its `bounding_box()`.** -/
theorem thick_line_pixels_in_bounding_box (l : Line) (w : Nat) (ps : List Pt)
    (hps : Thick.thickPoints l w = some ps) (bb : Rect) (hbb : Thick.styledBoundingBox l w = some bb) :
    ∀ p ∈ ps, bb.contains p = true :=
  Thick.thickPoints_in_bbox l w ps hps bb hbb

example : Thick.styledBoundingBox ⟨⟨2, -3⟩, ⟨9, 1⟩⟩ 5 = some ⟨⟨1, -5⟩, ⟨10, 8⟩⟩ := by decide
example : (Thick.thickPoints ⟨⟨2, -3⟩, ⟨9, 1⟩⟩ 5).map (·.length) = some 46 := by decide

/-- Every parallel of a stroked line starts, and ends (shortened by `major + minor` if it is an
extra parallel), between the last right and the last left parallel of the run, in the quadrant
order of the perpendicular walk; its initial error is bounded (the order theorem behind the box). -/
theorem parallels_between_last_parallels (l : Line) (t : Int) (F : Nat) :
    ∃ it, Thick.ParallelsIterator.new l t .none = some it ∧
      ∀ x ∈ Thick.runPar F it,
        let fin := Thick.lasts (Thick.runPar F it) ((l.start, .normal), (l.start, .normal))
        Thick.Cone (Thick.ctxOf l).M' (Thick.ctxOf l).m' (fin.1.1 - x.2.1.point) ∧
        Thick.Cone (Thick.ctxOf l).M' (Thick.ctxOf l).m' (x.2.1.point - fin.2.1) ∧
        Thick.Cone (Thick.ctxOf l).M' (Thick.ctxOf l).m'
          (Thick.adj (Thick.ctxOf l) fin.1 - Thick.adj (Thick.ctxOf l) (x.2.1.point, x.2.2)) ∧
        Thick.Cone (Thick.ctxOf l).M' (Thick.ctxOf l).m'
          (Thick.adj (Thick.ctxOf l) (x.2.1.point, x.2.2) - Thick.adj (Thick.ctxOf l) fin.2) ∧
        Thick.ErrOK (Thick.ctxOf l) x.2.1 x.2.2 := by
  obtain ⟨it, h1, _, hg⟩ := Thick.new_ginv l t
  exact ⟨it, h1, (Thick.run_order (Thick.ctxOf l) (Thick.ctxOf_valid l) l.start F it _ _ hg).2.2.2.2⟩

end EG.C02.ThickLine
