/-
  C02 (rectangle part) over the REGENERATED code: `styled_bounding_box` of `src/primitives/rectangle/styled.rs` as
  translated by tools/tr_styled.py (`EG/Generated/StyledSrc.lean`) is the hand model's, it is the generated `stroke_area`,
  and every pixel offered by the calls of the generated `draw_styled` lies inside it.
  Equivalence theorems: `Props/C06/Generated.lean`.
-/
import EG.Props.C06.Generated
import EG.Props.C02.Rectangle
namespace EG.C02.Src
open EG EG.Rect EG.StyledRect EG.Generated EG.C16.Src EG.C06.Src

/-- The generated `styled_bounding_box` is the generated `stroke_area` (every Rust style, also dotted). -/
theorem src_styled_bounding_box_eq_stroke_area (p : StyledSrc.PrimitiveStyle) (r : Rect) (h : IsU32 r.size) :
    StyledSrc.Rectangle_StyledDimensions_styled_bounding_box r p = StyledSrc.PrimitiveStyle_stroke_area p r := by
  rw [styled_bounding_box_src_eq_model p r h, stroke_area_src_eq_model p r h]; rfl

/-- Every pixel offered by any call of the generated `draw_styled` (solid stroke) lies inside the generated
`styled_bounding_box`. -/
theorem src_styled_rect_calls_inside_bbox (s : Style) (r : Rect) (h : Guard s r) (hu : IsU32 r.size) (dotted : List Call)
    (B : Rect) (c : Call) (hc : c ∈ StyledSrc.Rectangle_StyledDrawable_draw_styled r (ofStyle s) dotted)
    (w : Pt × Color) (hw : w ∈ c.lowerNative B) :
    (StyledSrc.Rectangle_StyledDimensions_styled_bounding_box r (ofStyle s)).contains w.1 = true := by
  rw [draw_styled_src_eq_model s r (bordersFit_of_guard h hu)] at hc
  rw [styled_bounding_box_src_eq_model _ r hu, toStyle_ofStyle]
  exact C02.Rectangle.styled_rect_calls_inside_bbox s r h B c hc w hw

/-- A transparent style: the generated `draw_styled` makes no call. -/
theorem src_styled_rect_transparent_draws_nothing (s : Style) (r : Rect) (hu : BordersFit s r)
    (dotted : List Call) (h : StyledSrc.PrimitiveStyle_is_transparent (ofStyle s) = true) :
    StyledSrc.Rectangle_StyledDrawable_draw_styled r (ofStyle s) dotted = [] := by
  rw [is_transparent_src_eq_model, toStyle_ofStyle] at h
  rw [draw_styled_src_eq_model s r hu]
  exact C02.Rectangle.styled_rect_transparent_draws_nothing s r h

example : Guard ⟨some 7, some 9, 5, .outside⟩ ⟨⟨-2, -1⟩, ⟨4, 0⟩⟩ ∧ IsU32 (⟨⟨-2, -1⟩, ⟨4, 0⟩⟩ : Rect).size := by decide
example : StyledSrc.Rectangle_StyledDimensions_styled_bounding_box ⟨⟨-2, -1⟩, ⟨4, 3⟩⟩ (ofStyle ⟨some 7, some 9, 5, .outside⟩) =
    ⟨⟨-7, -6⟩, ⟨14, 13⟩⟩ := by decide

end EG.C02.Src
