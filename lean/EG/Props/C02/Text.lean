/-
  C02 (Text) — "Every pixel drawn by a built-in drawable lies inside the rectangle returned by its
  bounding_box(), and a drawable whose style is completely transparent draws nothing. This holds for ...
  text with every built-in font, decoration, baseline, alignment and line count."

  Models: EG.Model.TextLayout (`Text::{draw, bounding_box}`, `measure_string` with the repaired
  underline rule `max(char height, underline offset + height)`), EG.Model.Font (`draw_string`).
  Helper lemmas: EG/Lemmas/TextLayoutBox.lean.

  [P] per line and for the whole text, for every font record satisfying
  `FontBoxOK f := strikethrough.offset + strikethrough.height <= char_height`;
  [F] `FontBoxOK` and `spacing = 0` hold for all 292 generated font records (kernel evaluation).

  -- [V] text: `i32` overflow / saturation of cell coordinates far outside the display range (the theorems assume the box's corner is not below i32::MIN, which every real `Point` satisfies; sums are unbounded integers): carried by correspondence + oracle only
  -- [V] text: observation outside the quantifier (custom font with spacing > 0, neither text nor background colour, custom-coloured decoration): the decoration is `spacing` columns wider than the box (`transparent_spacing_decoration_outside`, witness in corpus/C15.ops): checked on the real code by the oracle, not a claim of the property
-/
import EG.Lemmas.TextLayoutBox
import EG.Lemmas.FontTables
namespace EG.C02.Text
open EG EG.Font EG.TextLayout EG.Generated

/-- **Per line**: every call `draw_string` makes on the target — glyph cells (whatever the colour adapter
turns them into: `fill_contiguous`, or `draw_iter` over the on / off pixels), spacing cells, strikethrough
and underline rectangles — lies inside the box `measure_string` reports for the same arguments. -/
theorem text_line_in_box (f : MonoFont) (atlas : Pt → Bool) (st : Style) (text : List Nat) (p : Pt)
    (bl : Baseline) (hok : FontBoxOK f)
    (hadv : st.textColor ≠ none ∨ st.bgColor ≠ none ∨ f.spacing = 0)
    (hb : LowerBound (measureString f st text p bl).bbox) :
    ∀ c ∈ (f.drawString atlas st text p bl).1, CallIn (measureString f st text p bl).bbox c :=
  drawString_in_box f atlas st text p bl hok hadv hb

/-- Every line box lies inside `bounding_box()` (the union skips only zero-sized boxes, which contain
no pixel). -/
theorem text_line_boxes_in_bbox (f : MonoFont) (t : TextLayout.Text) :
    ∀ lp ∈ lines f t, RectIn (measureString f t.style lp.1 lp.2 t.ts.baseline).bbox (boundingBox f t) :=
  lineBox_in_boundingBox f t

/-- **Whole text** (any number of lines, alignment, baseline, line height): every call of `Text::draw`
lies inside `Text::bounding_box()`. -/
theorem text_in_bbox (f : MonoFont) (atlas : Pt → Bool) (t : TextLayout.Text) (hok : FontBoxOK f)
    (hadv : t.style.textColor ≠ none ∨ t.style.bgColor ≠ none ∨ f.spacing = 0)
    (hb : LowerBound (boundingBox f t)) :
    ∀ c ∈ (draw f atlas t).1, CallIn (boundingBox f t) c :=
  draw_in_boundingBox f atlas t hok hadv hb

/-- Pixel form, for a draw_iter-only target (trait defaults) and for a native-fill target: every write
of every call goes to a point the bounding box contains. -/
theorem text_pixels_in_bbox (f : MonoFont) (atlas : Pt → Bool) (t : TextLayout.Text) (hok : FontBoxOK f)
    (hadv : t.style.textColor ≠ none ∨ t.style.bgColor ≠ none ∨ f.spacing = 0)
    (hb : LowerBound (boundingBox f t)) (B : Rect) (c : Call) (hc : c ∈ (draw f atlas t).1)
    (w : Pt × Color) (hw : w ∈ c.lowerDefault B ∨ w ∈ c.lowerNative B) :
    (boundingBox f t).contains w.1 = true := by
  have hin := draw_in_boundingBox f atlas t hok hadv hb c hc
  rcases hw with hw | hw
  · exact CallIn.writes hb B hin w hw
  · exact CallIn.writesNative hb B hin w hw

/-- [F] All 292 built-in fonts: the strikethrough lies inside the character cell and the character
spacing is 0 (decided on the table `tools/tr_fonts.py` regenerates from the sources). -/
theorem builtin_fonts_box_ok : ∀ r ∈ fontTable, FontBoxOK (fontOfRec r) ∧ (fontOfRec r).spacing = 0 := by
  intro r hr
  obtain ⟨h1, _, _, _, h5⟩ := fontTable_deco_ok r hr
  exact ⟨h1, h5⟩

/-- **Every built-in font**, every style, string, alignment, baseline, line height, position:
everything `Text::draw` draws lies inside `bounding_box()`. -/
theorem builtin_text_in_bbox (r : FontRec) (hr : r ∈ fontTable) (atlas : Pt → Bool) (t : TextLayout.Text)
    (hb : LowerBound (boundingBox (fontOfRec r) t)) (B : Rect) (c : Call)
    (hc : c ∈ (draw (fontOfRec r) atlas t).1) (w : Pt × Color) (hw : w ∈ c.lowerDefault B ∨ w ∈ c.lowerNative B) :
    (boundingBox (fontOfRec r) t).contains w.1 = true :=
  text_pixels_in_bbox (fontOfRec r) atlas t (builtin_fonts_box_ok r hr).1
    (Or.inr (Or.inr (builtin_fonts_box_ok r hr).2)) hb B c hc w hw

/-- A completely transparent style (`is_transparent()`: no text, background, underline, strikethrough
colour) makes no call at all, for any font. -/
theorem text_transparent_draws_nothing (f : MonoFont) (atlas : Pt → Bool) (t : TextLayout.Text)
    (h : styleTransparent t.style = true) : (draw f atlas t).1 = [] :=
  draw_transparent f atlas t h

/-- The repaired underline rule: the box height is the character height, or with an underline colour
(anything but `DecorationColor::None`) the larger of character height and underline bottom. -/
theorem bbox_height_rule (f : MonoFont) (st : Style) (text : List Nat) (p : Pt) (bl : Baseline) :
    (measureString f st text p bl).bbox.size.h =
      if st.underline ≠ DecoColor.none then max (f.ulH + f.ulOff) f.ch else f.ch := rfl

/-! Non-vacuity and the recorded observation -/

example : FontBoxOK ⟨144, 90, 9, 15, 0, 11, 13, 1, 7, 1, fun _ => 0⟩ := by decide
example : LowerBound (boundingBox ⟨144, 90, 9, 15, 0, 11, 13, 1, 7, 1, fun _ => 0⟩
    ⟨[65, 66, 10, 67], ⟨-30, 4⟩, ⟨some 1, none, .textColor, .none⟩, ⟨.right, .alphabetic, .pixels 20⟩⟩) := by
  decide
example : styleTransparent ⟨none, none, .none, .none⟩ = true := by decide
/-- FONT_9X15 (underline at row 13 of 15, inside the cell): underlined box height is 15, not 14. -/
example : (measureString ⟨144, 90, 9, 15, 0, 11, 13, 1, 7, 1, fun _ => 0⟩ ⟨some 1, none, .textColor, .none⟩
    [65] ⟨0, 0⟩ .top).bbox = ⟨⟨0, 0⟩, ⟨9, 15⟩⟩ := by decide

/-- Observation (outside the property's quantifier: custom font with spacing 1, decorations only):
the underline call is 12 columns wide, the box 11. The hypothesis `hadv` of `text_in_bbox` excludes
exactly this combination. -/
theorem transparent_spacing_decoration_outside :
    let f : MonoFont := ⟨80, 42, 5, 7, 1, 5, 8, 1, 3, 1, fun _ => 0⟩
    let t : TextLayout.Text := ⟨[65, 66], ⟨0, 0⟩, ⟨none, none, .custom 9, .none⟩, ⟨.left, .top, .percent 100⟩⟩
    (draw f (fun _ => false) t).1 = [Call.fillSolid ⟨⟨0, 8⟩, ⟨12, 1⟩⟩ 9] ∧ boundingBox f t = ⟨⟨0, 0⟩, ⟨11, 9⟩⟩ := by
  decide

end EG.C02.Text
