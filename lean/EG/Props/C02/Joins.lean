/-
  C02 — bounding boxes contain everything that is drawn: thick segments (the building block of
  stroked polylines and triangles). Models: EG.Model.{ThickSegment, ThickPolyline, ThickTriangle};
  lemmas: EG.Lemmas.JoinsBox.

  `styled_bounding_box` of a polyline / triangle is the fold of `ThickSegment::edges_bounding_box`
  over its segments. Proved here: the segment box contains the end points of the edges it is made
  of (for a skeleton segment the edge that is DRAWN - the defect repaired by /repo a55c264), every
  pixel of a skeleton segment lies in its box, the scanline of any segment stays inside the column
  hull of its outline lines, and transparent styles draw nothing.
-/
import EG.Lemmas.JoinsBox
import EG.Lemmas.JoinsTransparent
import EG.Model.ThickPolyline
import EG.Model.ThickTriangle
namespace EG.C02.Joins
open EG EG.Joins

/-- The box of a skeleton segment contains both end points of the one edge that is drawn. -/
theorem thick_segment_edges_bounding_box_skeleton (s : ThickSegment) (h : s.isSkeleton = true) :
    s.edgesBoundingBox.contains s.edges.1.start = true ∧
    s.edgesBoundingBox.contains s.edges.1.stop = true :=
  edgesBoundingBox_skeleton s h

/-- The box of a thick (non-skeleton) segment contains the end points of both edges. -/
theorem thick_segment_edges_bounding_box (s : ThickSegment) (h : s.isSkeleton = false) :
    s.edgesBoundingBox.contains s.edges.1.start = true ∧
    s.edgesBoundingBox.contains s.edges.1.stop = true ∧
    s.edgesBoundingBox.contains s.edges.2.start = true ∧
    s.edgesBoundingBox.contains s.edges.2.stop = true :=
  edgesBoundingBox_thick s h

/-- The last segment of the former C02 witness `[(-5,-4),(-1,5),(3,2),(7,-4)]`, width 2. -/
def witnessSegment : Option ThickSegment := do
  let a ← LineJoin.fromPoints ⟨-1, 5⟩ ⟨3, 2⟩ ⟨7, -4⟩ 2 .none
  let b ← LineJoin.stop ⟨3, 2⟩ ⟨7, -4⟩ 2 .none
  pure ⟨a, b⟩

-- it is a skeleton segment (start join: a rounded miter whose corners coincide) ...
example : witnessSegment.map (·.isSkeleton) = some true := by decide
-- ... whose two edges end in different points, (7,-4) and (6,-4): boxing the undrawn edge lost the drawn end point
example : witnessSegment.map (fun s => s.edges.1.stop != s.edges.2.start) = some true := by decide

/-- A skeleton segment's scanline is the Bresenham intersection of the drawn edge only. -/
theorem skeleton_segment_intersection (s : ThickSegment) (h : s.isSkeleton = true) (y : Int) :
    s.intersection y = bint (Scanline.newEmpty y) s.edges.1 :=
  intersection_skeleton s h y

/-- Every pixel painted for a skeleton segment (any row) lies inside its `edges_bounding_box`. -/
theorem skeleton_segment_pixels_in_box (s : ThickSegment) (h : s.isSkeleton = true) (y : Int) (p : Pt)
    (hp : p ∈ (s.intersection y).points) : s.edgesBoundingBox.contains p = true :=
  skeleton_pixels_in_box s h y p hp

example : witnessSegment.map (fun s => (s.intersection (-4)).points) = some [⟨7, -4⟩] := by decide

/-- The scanline of ANY thick segment is empty or lies between the smallest and largest x of the
end points of its outline lines (caps, filler half-lines, both edges), in the row asked for. -/
theorem thick_segment_scanline_within_outline_hull (s : ThickSegment) (y lo hi : Int)
    (hl : ∀ l ∈ s.outline, lo ≤ l.start.x ∧ lo ≤ l.stop.x ∧ l.start.x ≤ hi ∧ l.stop.x ≤ hi) :
    Within (s.intersection y) lo hi ∧ (s.intersection y).y = y :=
  intersection_within_outline s y lo hi hl

example : witnessSegment.map (fun s => decide (∀ l ∈ s.outline,
    (3:Int) ≤ l.start.x ∧ (3:Int) ≤ l.stop.x ∧ l.start.x ≤ 7 ∧ l.stop.x ≤ 7)) = some true := by decide

/-- A polyline style of width 0 draws nothing (`draw` makes no call, `pixels()` is empty). -/
theorem polyline_width0_draws_nothing (pl : Polyline) :
    (match drawStyled pl 0 with | some .nothing => True | _ => False) ∧ pixels pl 0 = some [] :=
  ⟨trivial, rfl⟩

/-- A transparent style (no fill colour, no stroke colour or width 0) makes `draw` of a triangle
issue no call. -/
theorem triangle_transparent_draws_nothing (t : Tri) (style : TriStyle)
    (h : style.isTransparent = true) : triDraw t style = some [] := by
  unfold triDraw; simp only [h, ↓reduceIte]

example : (⟨none, some 1, 0, .center⟩ : TriStyle).isTransparent = true := by decide

/-- ... and `pixels()` yields nothing (the scanline iterator is walked, every scanline skipped). -/
theorem triangle_transparent_no_pixels (t : Tri) (style : TriStyle)
    (h : style.isTransparent = true) (ps : List (Pt × Nat)) (hps : triPixels t style = some ps) :
    ps = [] :=
  triPixels_transparent t style h ps hps

example : triPixels ⟨⟨0, 0⟩, ⟨4, 1⟩, ⟨2, 5⟩⟩ ⟨none, some 1, 0, .center⟩ = some [] := by decide

-- (stroked polylines / triangles of width > 1 against bounding_box(): EG/Props/C02/JoinsBBox.lean)

end EG.C02.Joins
