/-
  C02 — bounding boxes contain everything that is drawn: thin lines.
  `Line::bounding_box()` is `Rectangle::with_corners(start, end)`; every point of `points()` lies
  coordinate-wise between start and end (C17), hence inside that box; a one-pixel stroke draws
  exactly `points()`.
-/
import EG.Props.C17
import EG.Lemmas.Rect
namespace EG.C02.Line
open EG

/-- Every point of a thin line lies inside `Rectangle::with_corners(start, end)`. -/
theorem line_points_in_bounding_box (l : Line) (p : Pt) (hp : p ∈ Line.points l) :
    (Rect.withCorners l.start l.stop).contains p = true := by
  rw [Rect.contains_withCorners]
  exact C17.line_points_in_box l p hp

/-- Every pixel of a width-1 stroked line lies inside that box. -/
theorem thin_stroke_in_bounding_box (l : Line) (ps : List Pt) (h : Thick.thickPoints l 1 = some ps)
    (p : Pt) (hp : p ∈ ps) : (Rect.withCorners l.start l.stop).contains p = true := by
  rw [C17.thick_width1_eq_points] at h
  cases h
  exact line_points_in_bounding_box l p hp

example : (⟨2, 3⟩ : Pt) ∈ Line.points ⟨⟨5, 4⟩, ⟨1, 2⟩⟩ := by decide

end EG.C02.Line
