/-
  C02 — bounding boxes contain everything that is drawn: styled triangles, what the stroke ALIGNMENT
  settles by proof (lemmas: EG.Lemmas.JoinsBBoxTriAlign; the guarded theorems these strengthen are in
  EG/Props/C02/JoinsBBox.lean).

  * OUTSIDE strokes of width > 1: the right edge line of every side of the (clockwise) triangle is the
    side itself, the right corners of the three joins are the vertices exactly, and the right edge is
    what `edges_bounding_box` holds for every segment (skeleton or not). So the three vertices ALWAYS lie
    in the stroke box, and the vertex clause of `TriStrokeGuard` - the one that fails on thin slivers
    with a Center stroke - is not needed: `triangle_outside_stroke_in_bounding_box_partial` keeps only
    the `adjOK` midpoint test and the `i32` top row.
  * INSIDE strokes of width > 1 that are not collapsed: the left corners of the joins are the vertices,
    the box is the vertex box; of the up to 24 outline end points of `TriOutlineGuard` only the inner
    (right) corners of the three joins - rounded intersections of the inner edge lines - remain a
    hypothesis: `triangle_inside_in_bounding_box_of_inner_corners`.
  Hypothesis of both: the vertices are `i32` values (the rounding division of `intersection()` saturates).
-/
import EG.Lemmas.JoinsBBoxTriAlign
import EG.Props.C02.JoinsBBox
namespace EG.C02.JoinsBBoxAlign
open EG EG.Joins

/-- **Outside stroke (any width): the three vertices of the triangle lie in the fold of the boxes of
the three stroke segments** (`styled_bounding_box` for widths > 1). -/
theorem triangle_outside_vertices_in_stroke_box (t : Tri) (w : Nat) (hi : TriI32 t)
    (a b c : ThickSegment) (hs : closedSegments3 t.sortedClockwise w .left = some [a, b, c]) :
    (foldEdgeBoxes [a, b, c]).contains t.v1 = true ∧ (foldEdgeBoxes [a, b, c]).contains t.v2 = true ∧
      (foldEdgeBoxes [a, b, c]).contains t.v3 = true :=
  outside_vertices_in_stroke_box t w hi a b c hs

/-- **Outside stroke of width > 1, with or without fill: every `fill_solid` rectangle of `draw` and
every point of `pixels()` lies inside `bounding_box()`** - no hypothesis on where the vertices are
(guard: the `adjOK` midpoint test for skeleton segments, the top row of the box is an `i32`). -/
theorem triangle_outside_stroke_in_bounding_box_partial (t : Tri) (style : TriStyle)
    (hw : 2 ≤ style.strokeWidth) (hal : style.strokeAlignment = .outside) (hi : TriI32 t)
    (hg : TriOutsideStrokeGuard t style) (bb : Rect) (hbb : triStyledBoundingBox t style = some bb) :
    (∀ calls, triDraw t style = some calls →
      ∀ rc ∈ calls, ∀ p, rc.1.contains p = true → bb.contains p = true) ∧
    (∀ px, triPixels t style = some px → ∀ pc ∈ px, bb.contains pc.1 = true) := by
  have hg' := triStrokeGuard_of_outside t style hal hi hg
  have hal' : style.strokeAlignment ≠ .inside := by rw [hal]; decide
  exact ⟨fun calls hd => JoinsBBox.triangle_stroke_draw_in_bounding_box_partial t style hw hal' hg' bb hbb calls hd,
    fun px hpx => JoinsBBox.triangle_stroke_pixels_in_bounding_box_partial t style hw hal' hg' bb hbb px hpx⟩

-- a filled sliver with an Outside stroke; the Center stroke of the same sliver fails `TriStrokeGuard`
example : TriOutsideStrokeGuard ⟨⟨0, 0⟩, ⟨-5, -5⟩, ⟨2, 3⟩⟩ ⟨some 1, some 2, 3, .outside⟩ := by decide
example : TriI32 ⟨⟨0, 0⟩, ⟨-5, -5⟩, ⟨2, 3⟩⟩ := by decide
-- a triangle with a skeleton segment beside a left-side filler (the guard's midpoint test)
example : TriOutsideStrokeGuard ⟨⟨0, 0⟩, ⟨-5, 3⟩, ⟨5, 3⟩⟩ ⟨some 1, some 2, 2, .outside⟩ := by decide

/-- **Inside stroke (any width, collapsed or not), with or without fill: if the inner (right) corners
of the three joins - at most six points - lie in the plain vertex box `bounding_box()`, then everything
`draw` fills and every point of `pixels()` does.** -/
theorem triangle_inside_in_bounding_box_of_inner_corners (t : Tri) (style : TriStyle)
    (hal : style.strokeAlignment = .inside) (hi : TriI32 t) (hg : TriInsideGuard t style.strokeWidth)
    (bb : Rect) (hbb : triStyledBoundingBox t style = some bb) :
    (∀ calls, triDraw t style = some calls →
      ∀ rc ∈ calls, ∀ p, rc.1.contains p = true → bb.contains p = true) ∧
    (∀ px, triPixels t style = some px → ∀ pc ∈ px, bb.contains pc.1 = true) :=
  JoinsBBox.triangle_in_bounding_box_of_outline t style (triOutlineGuard_of_inside t style hal hi hg) bb hbb

-- an Inside stroke of width 3 that is not collapsed
example : TriInsideGuard ⟨⟨0, 0⟩, ⟨20, 3⟩, ⟨6, 18⟩⟩ 3 := by decide
example : TriInsideGuard ⟨⟨-3, 2⟩, ⟨15, -9⟩, ⟨8, 14⟩⟩ 2 := by decide

/-- **Center / Outside stroke of width > 1 (with or without fill): `draw` and `pixels()` stay inside
`bounding_box()` when the x coordinates of the vertices lie in the COLUMNS of the stroke box** - the
vertex clause of `TriStrokeGuard` weakened to what is used (a vertex above or below the box is
harmless: only the rows of the box are iterated). `TriStrokeColumnsGuard` holds wherever
`TriStrokeGuard` does (`triStrokeColumnsGuard_of_guard`) and on half of the slivers where it fails. -/
theorem triangle_stroke_in_bounding_box_of_columns_partial (t : Tri) (style : TriStyle)
    (hw : 2 ≤ style.strokeWidth) (hal : style.strokeAlignment ≠ .inside)
    (hg : TriStrokeColumnsGuard t style) (bb : Rect) (hbb : triStyledBoundingBox t style = some bb) :
    (∀ calls, triDraw t style = some calls →
      ∀ rc ∈ calls, ∀ p, rc.1.contains p = true → bb.contains p = true) ∧
    (∀ px, triPixels t style = some px → ∀ pc ∈ px, bb.contains pc.1 = true) := by
  obtain ⟨hmin, ctx⟩ := triCtx_stroke_columns t style hw hal hg bb hbb
  exact ⟨fun calls hd => triDraw_in_box t style bb hbb hmin (fun c _ => ctx c) calls hd,
    fun px hpx => triPixels_in_box t style bb hbb hmin (fun c _ => ctx c) px hpx⟩

-- the filled sliver of the quick run on which `TriStrokeGuard` fails: its vertex (2, 3) lies BELOW the
-- stroke box (rows -6 ..= 2), inside its columns
example : TriStrokeColumnsGuard ⟨⟨0, 0⟩, ⟨-5, -5⟩, ⟨2, 3⟩⟩ ⟨some 1, some 2, 3, .center⟩ := by decide
example : triStyledBoundingBox ⟨⟨0, 0⟩, ⟨-5, -5⟩, ⟨2, 3⟩⟩ ⟨some 1, some 2, 3, .center⟩ =
    some ⟨⟨-6, -6⟩, ⟨10, 9⟩⟩ := by decide
-- a sliver with a vertex left of the stroke box (columns -5 ..= 6): still outside the proof
example : ¬ TriStrokeColumnsGuard ⟨⟨0, 0⟩, ⟨-6, 4⟩, ⟨5, -5⟩⟩ ⟨some 1, some 2, 3, .center⟩ := by decide

end EG.C02.JoinsBBoxAlign
