/-
  C02 — bounding boxes contain everything that is drawn: STROKED POLYLINES AND TRIANGLES of stroke
  width > 1 (the headline of the "lines / triangles / polylines" mechanism: the box is computed from
  the thick-segment edge corners, `ThickSegment::edges_bounding_box` folded over all segments).
  Models: EG.Model.{ThickSegment, ThickPolyline, ThickTriangle} (tied op by op to the real code by
  the streams `thick.polyline` / `thick.triangle`); lemmas: EG.Lemmas.JoinsBBox{Cover, Chain, Poly,
  PolyMain, Tri, TriMain}.

  The argument. A segment paints, row by row, the hull of the Bresenham intersections of its
  OUTLINE lines: its two edges, the start cap of its start join and the end cap of its end join.
  The edges end in the segment's own four corners (inside its own box). A cap of a bevel /
  degenerate join is split at the midpoint of the join's filler line, which runs from a corner of the
  segment BEFORE the join to a corner of the segment AFTER it - so the midpoint lies in the envelope
  of the boxes of the two neighbours ("other segments expand the box", thick_segment.rs). Hence
  every outline line ends inside the fold of all segment boxes (`*_outline_in_bounding_box`), the
  scanline of every segment stays in the box's columns (`thick_segment_scanline_within_outline_hull`),
  merging scanlines (`try_extend`) and the fill between two stroke scanlines stay there too, and the
  rows iterated are the rows of the box.

  Guards (all decidable, `example`s below):
  * `adjOK` (in `PolyBBoxGuard` / `TriStrokeGuard`): a SKELETON segment (`is_skeleton`, possible only
    for width 2: about 3 of 1000 random small polylines have one) is boxed by its right edge only
    (/repo a55c264); when it meets a non-skeleton segment in a join whose filler line is on the
    LEFT side, the far end of the filler is a corner no box is guaranteed to hold, and the guard
    asks for the midpoint of that filler line to be in the box directly. No input violating it has
    been found (exhaustive 3- and 4-vertex lattices, 6 * 10^6 random polylines / triangles: it
    held in all ~3000 such configurations met).
  * the top row of the box is at least `i32::MIN` (`Rectangle::rows` saturates there; the model's
    coordinates are unbounded integers);
  * filled triangles: the three vertices lie in the stroke box (used only for rows that no stroke
    scanline reaches, where the plain triangle scanline is filled; the vertices can be outside the
    box of a thin sliver - 16 of 117128 lattice triangles - but then every row has stroke scanlines).
    EG/Props/C02/JoinsBBoxAlign.lean removes this clause for OUTSIDE strokes (the vertices are the right
    corners of the joins, always boxed) and weakens it to the COLUMNS of the box for Center strokes; for
    Inside strokes it reduces `TriOutlineGuard` to the inner corners of the three joins.
-/
import EG.Lemmas.JoinsBBoxPolyMain
import EG.Lemmas.JoinsBBoxTriMain
import EG.Lemmas.JoinsBBoxWidth1
import EG.Lemmas.JoinsBBoxTriWidth1
namespace EG.C02.JoinsBBox
open EG EG.Joins

/-! ### Stroked polylines -/

/-- The full claim for stroked polylines: `draw` writes inside `bounding_box()`. -/
def PolylineDrawInBoundingBox : Prop :=
  ∀ (pl : Polyline) (w : Nat) (bb : Rect) (rs : List Rect), styledBoundingBox pl w = some bb →
    drawStyled pl w = some (.fillSolids rs) → ∀ r ∈ rs, ∀ p, r.contains p = true → bb.contains p = true

/-- The full claim for stroked polylines: `pixels()` lies inside `bounding_box()`. -/
def PolylinePixelsInBoundingBox : Prop :=
  ∀ (pl : Polyline) (w : Nat) (bb : Rect) (ps : List Pt), styledBoundingBox pl w = some bb →
    pixels pl w = some ps → ∀ p ∈ ps, bb.contains p = true

/-- Every outline line (edge, cap line, filler half-line) of every segment of a stroked polyline
with at least two vertices ends inside the fold of the segment boxes (the untranslated bounding
box). -/
theorem polyline_outline_in_bounding_box (vs : List Pt) (w : Nat) (hn : 2 ≤ vs.length)
    (segs : List ThickSegment) (hs : polySegments vs w = some segs)
    (hg : chainOK (foldEdgeBoxes segs) segs = true) :
    ∀ s ∈ segs, ∀ l ∈ s.outline,
      (foldEdgeBoxes segs).contains l.start = true ∧ (foldEdgeBoxes segs).contains l.stop = true := by
  rw [polySegments_eq_chain vs w hn] at hs
  obtain ⟨h1, h2, h3⟩ := polyChain_spec vs w segs hs
  exact chain_outline_covered (foldEdgeBoxes segs) segs h1 hg
    (fun s hs => foldEdgeBoxes_boxIn segs s hs)
    (by intro s hs _ f hf; rw [h2 s hs] at hf; cases hf)
    (by intro s hs _ f hf; rw [h3 s hs] at hf; cases hf)

/-- **Every `fill_solid` rectangle that `draw` of a stroked polyline (any vertex list, any
`translate`, stroke width > 1) issues lies inside its `bounding_box()`.** -/
theorem polyline_draw_in_bounding_box_partial (pl : Polyline) (w : Nat) (hw : 2 ≤ w)
    (hg : PolyBBoxGuard pl w) (bb : Rect) (hbb : styledBoundingBox pl w = some bb) (rs : List Rect)
    (hd : drawStyled pl w = some (.fillSolids rs)) :
    ∀ r ∈ rs, ∀ p, r.contains p = true → bb.contains p = true :=
  drawStyled_in_bbox pl w hw hg bb hbb rs hd

/-- **Every point of `pixels()` of a stroked polyline (stroke width > 1) lies inside its
`bounding_box()`.** -/
theorem polyline_pixels_in_bounding_box_partial (pl : Polyline) (w : Nat) (hw : 2 ≤ w)
    (hg : PolyBBoxGuard pl w) (bb : Rect) (hbb : styledBoundingBox pl w = some bb) (ps : List Pt)
    (hps : pixels pl w = some ps) : ∀ p ∈ ps, bb.contains p = true :=
  pixels_in_bbox pl w hw hg bb hbb ps hps

-- the former C02 witness (its last segment is a skeleton segment), translated
example : PolyBBoxGuard ⟨⟨5, 3⟩, [⟨-5, -4⟩, ⟨-1, 5⟩, ⟨3, 2⟩, ⟨7, -4⟩]⟩ 2 := by decide
-- a polyline where the guard's midpoint test is what holds: its middle segment is a skeleton
-- segment followed by a bevel join with the filler on the left
example : PolyBBoxGuard ⟨⟨0, 0⟩, [⟨6, -5⟩, ⟨0, 0⟩, ⟨-5, 6⟩, ⟨-4, 2⟩]⟩ 2 := by decide
example : (polySegments [⟨6, -5⟩, ⟨0, 0⟩, ⟨-5, 6⟩, ⟨-4, 2⟩] 2).map (·.map (·.isSkeleton)) =
    some [false, true, false] := by decide
-- wide strokes, sharp and degenerate joins, a repeated vertex
example : PolyBBoxGuard ⟨⟨-7, -9⟩, [⟨0, 0⟩, ⟨9, 1⟩, ⟨0, 2⟩, ⟨0, 2⟩, ⟨4, -6⟩]⟩ 5 := by decide
example : (pixels ⟨⟨5, 3⟩, [⟨-5, -4⟩, ⟨-1, 5⟩, ⟨3, 2⟩, ⟨7, -4⟩]⟩ 2).map (·.length) = some 30 := by decide

/-- **Stroke width 1: `draw` (one `draw_iter` call with `points()`) and `pixels()` stay inside
`bounding_box()`** - the fold over the boxes of the width-1 segments, whose corners are the vertices
themselves. Hypothesis: the vertices are `i32` values (the rounding division of the join
intersections saturates to `i32`). -/
theorem polyline_width1_in_bounding_box (pl : Polyline) (hi : AllI32 pl.vertices) (bb : Rect)
    (hbb : styledBoundingBox pl 1 = some bb) :
    (∀ pts, drawStyled pl 1 = some (.drawIter pts) → ∀ p ∈ pts, bb.contains p = true) ∧
    (∀ ps, pixels pl 1 = some ps → ∀ p ∈ ps, bb.contains p = true) := by
  constructor
  · intro pts h
    simp only [drawStyled, Option.some.injEq, PolyDraw.drawIter.injEq] at h
    subst h
    exact points_in_bbox_width1 pl hi bb hbb
  · intro ps h
    simp only [pixels, Option.some.injEq] at h
    subst h
    exact points_in_bbox_width1 pl hi bb hbb

example : AllI32 [⟨-5, -4⟩, ⟨-1, 5⟩, ⟨3, 2⟩, ⟨7, -4⟩] := by decide

/-! ### Stroked and filled triangles -/

/-- The full claim for styled triangles: `draw` writes inside `bounding_box()`. -/
def TriangleDrawInBoundingBox : Prop :=
  ∀ (t : Tri) (style : TriStyle) (bb : Rect) (calls : List (Rect × Nat)),
    triStyledBoundingBox t style = some bb → triDraw t style = some calls →
    ∀ rc ∈ calls, ∀ p, rc.1.contains p = true → bb.contains p = true

/-- The full claim for styled triangles: `pixels()` lies inside `bounding_box()`. -/
def TrianglePixelsInBoundingBox : Prop :=
  ∀ (t : Tri) (style : TriStyle) (bb : Rect) (px : List (Pt × Nat)),
    triStyledBoundingBox t style = some bb → triPixels t style = some px →
    ∀ pc ∈ px, bb.contains pc.1 = true

/-- Every outline line of the three closed segments of a triangle's stroke ends inside the fold of
their boxes (`styled_bounding_box` for Center / Outside strokes of width > 1). -/
theorem triangle_outline_in_bounding_box (t : Tri) (w : Nat) (off : Thick.StrokeOffset)
    (a b c : ThickSegment) (hs : closedSegments3 t w off = some [a, b, c])
    (g1 : adjOK (foldEdgeBoxes [a, b, c]) a b = true) (g2 : adjOK (foldEdgeBoxes [a, b, c]) b c = true)
    (g3 : adjOK (foldEdgeBoxes [a, b, c]) c a = true) :
    ∀ s ∈ [a, b, c], ∀ l ∈ s.outline,
      (foldEdgeBoxes [a, b, c]).contains l.start = true ∧
      (foldEdgeBoxes [a, b, c]).contains l.stop = true := by
  unfold closedSegments3 at hs
  cases h0 : LineJoin.fromPoints t.v3 t.v1 t.v2 w off with
  | none => rw [h0] at hs; cases hs
  | some j0 =>
    cases h1 : LineJoin.fromPoints t.v1 t.v2 t.v3 w off with
    | none => rw [h0, h1] at hs; cases hs
    | some j1 =>
      cases h2 : LineJoin.fromPoints t.v2 t.v3 t.v1 w off with
      | none => rw [h0, h1, h2] at hs; cases hs
      | some j2 =>
        rw [h0, h1, h2] at hs
        simp only [Option.bind_eq_bind, Option.bind_some, pure, Option.some.injEq, List.cons.injEq,
          and_true] at hs
        obtain ⟨rfl, rfl, rfl⟩ := hs
        exact closed3_outline_covered _ _ _ rfl rfl rfl g1 g2 g3

/-- **Center / Outside stroke of width > 1 (with or without fill): every `fill_solid` rectangle of
`draw` lies inside `bounding_box()`.** -/
theorem triangle_stroke_draw_in_bounding_box_partial (t : Tri) (style : TriStyle)
    (hw : 2 ≤ style.strokeWidth) (hal : style.strokeAlignment ≠ .inside) (hg : TriStrokeGuard t style)
    (bb : Rect) (hbb : triStyledBoundingBox t style = some bb) (calls : List (Rect × Nat))
    (hd : triDraw t style = some calls) :
    ∀ rc ∈ calls, ∀ p, rc.1.contains p = true → bb.contains p = true := by
  obtain ⟨hmin, ctx⟩ := triCtx_stroke t style hw hal hg bb hbb
  exact triDraw_in_box t style bb hbb hmin (fun c _ => ctx c) calls hd

/-- **Center / Outside stroke of width > 1: every point of `pixels()` lies inside
`bounding_box()`.** -/
theorem triangle_stroke_pixels_in_bounding_box_partial (t : Tri) (style : TriStyle)
    (hw : 2 ≤ style.strokeWidth) (hal : style.strokeAlignment ≠ .inside) (hg : TriStrokeGuard t style)
    (bb : Rect) (hbb : triStyledBoundingBox t style = some bb) (px : List (Pt × Nat))
    (hpx : triPixels t style = some px) : ∀ pc ∈ px, bb.contains pc.1 = true := by
  obtain ⟨hmin, ctx⟩ := triCtx_stroke t style hw hal hg bb hbb
  exact triPixels_in_box t style bb hbb hmin (fun c _ => ctx c) px hpx

example : TriStrokeGuard ⟨⟨0, 0⟩, ⟨9, 1⟩, ⟨2, 7⟩⟩ ⟨some 1, some 2, 3, .center⟩ := by decide
-- a triangle with a skeleton segment beside a left-side filler (the guard's midpoint test)
example : TriStrokeGuard ⟨⟨0, 0⟩, ⟨-5, 3⟩, ⟨5, 3⟩⟩ ⟨some 1, some 2, 2, .outside⟩ := by decide
-- a sliver whose vertices are not all in the stroke box: covered without fill colour
example : TriStrokeGuard ⟨⟨0, 0⟩, ⟨-5, -5⟩, ⟨2, 3⟩⟩ ⟨none, some 2, 3, .center⟩ := by decide
example : ¬ TriStrokeGuard ⟨⟨0, 0⟩, ⟨-5, -5⟩, ⟨2, 3⟩⟩ ⟨some 1, some 2, 3, .center⟩ := by decide
example : (triDraw ⟨⟨0, 0⟩, ⟨9, 1⟩, ⟨2, 7⟩⟩ ⟨some 1, some 2, 3, .center⟩).map (·.length) = some 17 := by
  decide

/-- The plain vertex box of a triangle with `i32` rows. -/
def TriTopGuard (t : Tri) : Prop := -2147483648 ≤ t.boundingBox.tl.y

instance (t : Tri) : Decidable (TriTopGuard t) := by unfold TriTopGuard; exact inferInstance

/-- **Fill only (stroke width 0, any alignment): `draw` and `pixels()` stay inside
`bounding_box()`** (the plain vertex box). -/
theorem triangle_fill_in_bounding_box (t : Tri) (style : TriStyle) (hw : style.strokeWidth = 0)
    (hg : TriTopGuard t) (bb : Rect) (hbb : triStyledBoundingBox t style = some bb) :
    (∀ calls, triDraw t style = some calls →
      ∀ rc ∈ calls, ∀ p, rc.1.contains p = true → bb.contains p = true) ∧
    (∀ px, triPixels t style = some px → ∀ pc ∈ px, bb.contains pc.1 = true) := by
  have hb : bb = t.boundingBox := by
    unfold triStyledBoundingBox at hbb
    have : style.strokeWidth < 2 ∨ style.strokeAlignment = .inside := Or.inl (by omega)
    simp only [this, ↓reduceIte, Option.some.injEq] at hbb
    exact hbb.symm
  subst hb
  have ctx : ∀ c, t.sortedClockwise.isCollapsed style.strokeWidth style.strokeAlignment.toOffset = some c →
      TriCtx t.sortedClockwise style.strokeWidth style.strokeAlignment.toOffset t.boundingBox.tl.x
        (t.boundingBox.tl.x + t.boundingBox.size.w - 1)
        (c && style.strokeAlignment.toOffset == .right) style.fillColor.isSome :=
    fun c _ => triCtx_vertexBox t _ _ _ _ (Or.inl hw)
  exact ⟨fun calls hd => triDraw_in_box t style _ hbb hg ctx calls hd,
    fun px hpx => triPixels_in_box t style _ hbb hg ctx px hpx⟩

example : TriTopGuard ⟨⟨0, 0⟩, ⟨9, 1⟩, ⟨2, 7⟩⟩ := by decide

/-- **Stroke width 1 (any alignment, with or without fill): `draw` and `pixels()` stay inside
`bounding_box()`** (the plain vertex box). Every corner of a width-1 join is the vertex itself
(`Line::extents(1, _)` returns the line twice for every stroke offset), so the edge segments are
skeleton segments running between the vertices. Hypothesis: `i32` vertices. -/
theorem triangle_width1_in_bounding_box (t : Tri) (style : TriStyle) (hw : style.strokeWidth = 1)
    (hi : TriI32 t) (hg : TriTopGuard t) (bb : Rect) (hbb : triStyledBoundingBox t style = some bb) :
    (∀ calls, triDraw t style = some calls →
      ∀ rc ∈ calls, ∀ p, rc.1.contains p = true → bb.contains p = true) ∧
    (∀ px, triPixels t style = some px → ∀ pc ∈ px, bb.contains pc.1 = true) := by
  have hb : bb = t.boundingBox := by
    unfold triStyledBoundingBox at hbb
    have : style.strokeWidth < 2 ∨ style.strokeAlignment = .inside := Or.inl (by omega)
    simp only [this, ↓reduceIte, Option.some.injEq] at hbb
    exact hbb.symm
  subst hb
  have ctx : ∀ c, t.sortedClockwise.isCollapsed style.strokeWidth style.strokeAlignment.toOffset = some c →
      TriCtx t.sortedClockwise style.strokeWidth style.strokeAlignment.toOffset t.boundingBox.tl.x
        (t.boundingBox.tl.x + t.boundingBox.size.w - 1)
        (c && style.strokeAlignment.toOffset == .right) style.fillColor.isSome := by
    intro c _
    rw [hw]
    exact triCtx_width1 t _ hi _ _
  exact ⟨fun calls hd => triDraw_in_box t style _ hbb hg ctx calls hd,
    fun px hpx => triPixels_in_box t style _ hbb hg ctx px hpx⟩

example : TriI32 ⟨⟨0, 0⟩, ⟨9, 1⟩, ⟨2, 7⟩⟩ := by decide

/-- **Inside stroke (any width) that is collapsed (`is_collapsed`: the inner edges cross, the whole
triangle is painted in the stroke colour): `draw` and `pixels()` stay inside `bounding_box()`**
(the plain vertex box). -/
theorem triangle_collapsed_inside_in_bounding_box (t : Tri) (style : TriStyle)
    (hal : style.strokeAlignment = .inside)
    (hc : t.sortedClockwise.isCollapsed style.strokeWidth .right = some true)
    (hg : TriTopGuard t) (bb : Rect) (hbb : triStyledBoundingBox t style = some bb) :
    (∀ calls, triDraw t style = some calls →
      ∀ rc ∈ calls, ∀ p, rc.1.contains p = true → bb.contains p = true) ∧
    (∀ px, triPixels t style = some px → ∀ pc ∈ px, bb.contains pc.1 = true) := by
  have hb : bb = t.boundingBox := by
    unfold triStyledBoundingBox at hbb
    have : style.strokeWidth < 2 ∨ style.strokeAlignment = .inside := Or.inr hal
    simp only [this, ↓reduceIte, Option.some.injEq] at hbb
    exact hbb.symm
  subst hb
  have hoff : style.strokeAlignment.toOffset = .right := by rw [hal]; rfl
  have ctx : ∀ c, t.sortedClockwise.isCollapsed style.strokeWidth style.strokeAlignment.toOffset = some c →
      TriCtx t.sortedClockwise style.strokeWidth style.strokeAlignment.toOffset t.boundingBox.tl.x
        (t.boundingBox.tl.x + t.boundingBox.size.w - 1)
        (c && style.strokeAlignment.toOffset == .right) style.fillColor.isSome := by
    intro c hc'
    rw [hoff] at hc' ⊢
    rw [hc] at hc'
    cases hc'
    exact triCtx_vertexBox t _ _ _ _ (Or.inr rfl)
  exact ⟨fun calls hd => triDraw_in_box t style _ hbb hg ctx calls hd,
    fun px hpx => triPixels_in_box t style _ hbb hg ctx px hpx⟩

example : (⟨⟨0, 0⟩, ⟨9, 1⟩, ⟨2, 7⟩⟩ : Tri).sortedClockwise.isCollapsed 4 .right = some true := by decide

/-- **Any stroke width, any alignment, with or without fill: if the end points of the outline lines
of the three stroke segments (at most 24 points) and the three vertices lie in `bounding_box()`,
then everything `draw` fills and every point of `pixels()` does** (the reduction used above, with
the geometric part left as the decidable hypothesis `TriOutlineGuard`; it covers the case the
theorems above do not: Inside strokes of width > 1 that are not collapsed). -/
theorem triangle_in_bounding_box_of_outline (t : Tri) (style : TriStyle)
    (hg : TriOutlineGuard t style) (bb : Rect) (hbb : triStyledBoundingBox t style = some bb) :
    (∀ calls, triDraw t style = some calls →
      ∀ rc ∈ calls, ∀ p, rc.1.contains p = true → bb.contains p = true) ∧
    (∀ px, triPixels t style = some px → ∀ pc ∈ px, bb.contains pc.1 = true) := by
  have hmin := triOutlineGuard_top t style hg bb hbb
  have ctx := fun c hc => triCtx_outline t style hg bb hbb c hc
  exact ⟨fun calls hd => triDraw_in_box t style bb hbb hmin ctx calls hd,
    fun px hpx => triPixels_in_box t style bb hbb hmin ctx px hpx⟩

-- an Inside stroke of width 3 that is not collapsed
example : TriOutlineGuard ⟨⟨0, 0⟩, ⟨20, 3⟩, ⟨6, 18⟩⟩ ⟨some 1, some 2, 3, .inside⟩ := by decide
example : (⟨⟨0, 0⟩, ⟨20, 3⟩, ⟨6, 18⟩⟩ : Tri).sortedClockwise.isCollapsed 3 .right = some false := by decide
example : TriOutlineGuard ⟨⟨-3, 2⟩, ⟨15, -9⟩, ⟨8, 14⟩⟩ ⟨none, some 2, 2, .inside⟩ := by decide

-- [V] stroked polyline / triangle (width > 1) with a skeleton segment beside a join whose filler line is on the left side, when the midpoint of that filler line is NOT in the box (guard `adjOK`; no such input is known: none among 1.06 * 10^6 four-vertex lattice polylines of widths 2 and 3, 2.1 * 10^6 lattice triangles of widths 2..14 in all alignments, and every join found to make a skeleton segment - 516 of 6.7 * 10^5 lattice joins (Center and Outside) of widths 2..5 - is a width-2 MITER join with all corners on the vertex, which has no filler line): carried by correspondence + oracle only
-- [V] filled triangle with a CENTER stroke of width > 1 with a vertex whose x coordinate is outside the columns of the stroke box (thin slivers; guard `TriStrokeColumnsGuard`, Props/C02/JoinsBBoxAlign.lean; 12 of the 114 920 Center-stroke ops of the lattice v1 = 0, v2, v3 in [-6, 6]^2, widths 2..9; Outside strokes are proved: their vertices always lie in the stroke box): the plain triangle scanline of a row without stroke scanlines stays in the box: carried by correspondence + oracle only
-- [V] triangle with an Inside stroke of width > 1 that is not collapsed: the inner (right) corners of the three joins (at most six points, rounded intersections of the inner edge lines; hypothesis `TriInsideGuard` of `triangle_inside_in_bounding_box_of_inner_corners`, Props/C02/JoinsBBoxAlign.lean - everything else `TriOutlineGuard` asked for is proved; `TriOutlineGuard` held on all 49 331 non-collapsed Inside strokes among 160 000 random triangles with vertices within +-80 and widths 2..8, and on all 5 760 of the lattice v2, v3 in [-6, 6]^2) lie inside the plain vertex box: carried by correspondence + oracle only

end EG.C02.JoinsBBox
