/-
  C02 — the bounding-box theorems for stroked lines, polylines and triangles are not vacuous: the
  models they speak about are TOTAL.

  The theorems of Props/C02/ThickLine.lean and JoinsBBox.lean have the form "if `bounding_box()` is
  `some bb` and `draw` / `pixels()` is `some ..`, then everything drawn lies in `bb`", and the guards
  `PolyBBoxGuard` / `TriStrokeGuard` / `TriOutlineGuard` are `True` by definition when a model
  function returns `none` (= "a loop bound of the model was exceeded"). Here: `none` never occurs.
  `Line::extents` is total for every line, width and stroke offset (Lemmas/ExtentsTotal.lean), the
  styled polyline and triangle models return `some` for every input (Lemmas/JoinsTotalPoly.lean,
  JoinsTotalTri.lean). So each theorem can be read "there IS a box, there ARE calls / pixels, and
  they lie in the box" (`*_some` below), and the guards always speak about the actual segments.
-/
import EG.Lemmas.JoinsTotalPoly
import EG.Lemmas.JoinsTotalTri
import EG.Props.C02.ThickLine
import EG.Props.C02.JoinsBBox
namespace EG.C02.JoinsTotal
open EG EG.Joins EG.C02.JoinsBBox

/-! ### stroked lines -/

/-- `bounding_box()` of a stroked line is total (`Line::extents(w, StrokeOffset::None)`). -/
theorem thick_line_bounding_box_is_some (l : Line) (w : Nat) : (Thick.styledBoundingBox l w).isSome = true := by
  obtain ⟨r, h⟩ := thick_styledBoundingBox_total l w
  rw [h]; rfl

/-- **A stroked line (any width, direction, zero length included) HAS a bounding box and a pixel
list, and every pixel lies inside the box.** -/
theorem thick_line_pixels_in_bounding_box_some (l : Line) (w : Nat) :
    ∃ bb ps, Thick.styledBoundingBox l w = some bb ∧ Thick.thickPoints l w = some ps ∧
      ∀ p ∈ ps, bb.contains p = true := by
  obtain ⟨bb, h1⟩ := thick_styledBoundingBox_total l w
  obtain ⟨ps, h2⟩ := Thick.thickPoints_total l w
  exact ⟨bb, ps, h1, h2, EG.C02.ThickLine.thick_line_pixels_in_bounding_box l w ps h2 bb h1⟩

/-! ### stroked polylines -/

/-- `bounding_box()`, `draw` and `pixels()` of a stroked polyline are total (every vertex list,
`translate` and stroke width). -/
theorem polyline_models_are_some (pl : Polyline) (w : Nat) :
    (styledBoundingBox pl w).isSome = true ∧ (drawStyled pl w).isSome = true ∧
      (pixels pl w).isSome = true := by
  obtain ⟨a, h1⟩ := styledBoundingBox_total pl w
  obtain ⟨b, h2⟩ := drawStyled_total pl w
  obtain ⟨c, h3⟩ := pixels_total pl w
  rw [h1, h2, h3]; exact ⟨rfl, rfl, rfl⟩

/-- **The guard `PolyBBoxGuard` is never the vacuous `True`**: it always is the statement about the
actual box and the actual segments. -/
theorem poly_bbox_guard_never_vacuous (pl : Polyline) (w : Nat) :
    PolyBBoxGuard pl w ↔
      ∃ ubb segs, untranslatedBoundingBox pl w = some ubb ∧ polySegments pl.vertices w = some segs ∧
        -2147483648 ≤ ubb.tl.y ∧ chainOK ubb segs = true := by
  obtain ⟨ubb, h1⟩ := untranslatedBoundingBox_total pl w
  obtain ⟨segs, h2⟩ := polySegments_total pl.vertices w
  unfold PolyBBoxGuard
  rw [h1, h2]
  constructor
  · intro h; exact ⟨ubb, segs, rfl, rfl, h.1, h.2⟩
  · rintro ⟨a, b, ha, hb, h⟩
    simp only [Option.some.injEq] at ha hb
    subst ha; subst hb
    exact h

/-- For a stroke wider than one pixel `draw` is a list of `fill_solid` rectangles. -/
theorem polyline_draw_fill_solids (pl : Polyline) (w : Nat) (hw : 2 ≤ w) :
    ∃ rs, drawStyled pl w = some (.fillSolids rs) := by
  obtain ⟨k, rfl⟩ : ∃ k, w = k + 2 := ⟨w - 2, by omega⟩
  obtain ⟨rs, h⟩ := drawThickRects_total pl (k + 2)
  unfold drawStyled
  simp only [h, Option.bind_eq_bind, Option.bind_some]
  split <;> exact ⟨_, rfl⟩
example : (2 : Nat) ≤ 5 := by decide

/-- **A stroked polyline (stroke width > 1) HAS a bounding box, `draw` issues some `fill_solid`
rectangles and `pixels()` yields some points, and all of them lie inside the box** (guard
`PolyBBoxGuard`, see Props/C02/JoinsBBox.lean). -/
theorem polyline_in_bounding_box_some (pl : Polyline) (w : Nat) (hw : 2 ≤ w) (hg : PolyBBoxGuard pl w) :
    ∃ bb rs ps, styledBoundingBox pl w = some bb ∧ drawStyled pl w = some (.fillSolids rs) ∧
      pixels pl w = some ps ∧ (∀ r ∈ rs, ∀ p, r.contains p = true → bb.contains p = true) ∧
      (∀ p ∈ ps, bb.contains p = true) := by
  obtain ⟨bb, h1⟩ := styledBoundingBox_total pl w
  obtain ⟨rs, h2⟩ := polyline_draw_fill_solids pl w hw
  obtain ⟨ps, h3⟩ := pixels_total pl w
  exact ⟨bb, rs, ps, h1, h2, h3, polyline_draw_in_bounding_box_partial pl w hw hg bb h1 rs h2,
    polyline_pixels_in_bounding_box_partial pl w hw hg bb h1 ps h3⟩
example : (2 : Nat) ≤ 5 ∧ PolyBBoxGuard ⟨⟨-7, -9⟩, [⟨0, 0⟩, ⟨9, 1⟩, ⟨0, 2⟩, ⟨0, 2⟩, ⟨4, -6⟩]⟩ 5 := by decide

/-- **Stroke width 1: the polyline HAS a bounding box and it contains `points()`, which is what
`draw` and `pixels()` produce** (`i32` vertices). -/
theorem polyline_width1_in_bounding_box_some (pl : Polyline) (hi : AllI32 pl.vertices) :
    ∃ bb, styledBoundingBox pl 1 = some bb ∧ drawStyled pl 1 = some (.drawIter (Polyline.points pl)) ∧
      pixels pl 1 = some (Polyline.points pl) ∧ ∀ p ∈ Polyline.points pl, bb.contains p = true := by
  obtain ⟨bb, h1⟩ := styledBoundingBox_total pl 1
  exact ⟨bb, h1, rfl, rfl, (polyline_width1_in_bounding_box pl hi bb h1).2 _ rfl⟩
example : AllI32 [⟨-5, -4⟩, ⟨-1, 5⟩, ⟨3, 2⟩, ⟨7, -4⟩] := by decide

/-! ### styled triangles -/

/-- `bounding_box()`, `draw` and `pixels()` of a styled triangle are total (every stroke width,
alignment and fill). -/
theorem triangle_models_are_some (t : Tri) (style : TriStyle) :
    (triStyledBoundingBox t style).isSome = true ∧ (triDraw t style).isSome = true ∧
      (triPixels t style).isSome = true := by
  obtain ⟨a, h1⟩ := triStyledBoundingBox_total t style
  obtain ⟨b, h2⟩ := triDraw_total t style
  obtain ⟨c, h3⟩ := triPixels_total t style
  rw [h1, h2, h3]; exact ⟨rfl, rfl, rfl⟩

/-- The three closed segments of a triangle's stroke always exist (the `some [a, b, c]` arm of
`TriStrokeGuard` / `TriOutlineGuard` is the one that applies). -/
theorem triangle_segments_are_some (t : Tri) (w : Nat) (off : Thick.StrokeOffset) :
    ∃ a b c, closedSegments3 t w off = some [a, b, c] := by
  obtain ⟨j0, h0⟩ := fromPoints_total t.v3 t.v1 t.v2 w off
  obtain ⟨j1, h1⟩ := fromPoints_total t.v1 t.v2 t.v3 w off
  obtain ⟨j2, h2⟩ := fromPoints_total t.v2 t.v3 t.v1 w off
  refine ⟨⟨j0, j1⟩, ⟨j1, j2⟩, ⟨j2, j0⟩, ?_⟩
  unfold closedSegments3
  simp only [h0, h1, h2, Option.bind_eq_bind, Option.bind_some, pure]

/-- A reduction of this file: whenever one of the triangle theorems of Props/C02/JoinsBBox.lean
applies (it gives the two implications for the box `bb`), the triangle HAS that box, `draw` issues
some calls, `pixels()` yields some pixels, and they all lie in the box. -/
theorem triangle_in_bounding_box_some_of (t : Tri) (style : TriStyle)
    (h : ∀ bb, triStyledBoundingBox t style = some bb →
      (∀ calls, triDraw t style = some calls →
        ∀ rc ∈ calls, ∀ p, rc.1.contains p = true → bb.contains p = true) ∧
      (∀ px, triPixels t style = some px → ∀ pc ∈ px, bb.contains pc.1 = true)) :
    ∃ bb calls px, triStyledBoundingBox t style = some bb ∧ triDraw t style = some calls ∧
      triPixels t style = some px ∧
      (∀ rc ∈ calls, ∀ p, rc.1.contains p = true → bb.contains p = true) ∧
      (∀ pc ∈ px, bb.contains pc.1 = true) := by
  obtain ⟨bb, h1⟩ := triStyledBoundingBox_total t style
  obtain ⟨calls, h2⟩ := triDraw_total t style
  obtain ⟨px, h3⟩ := triPixels_total t style
  exact ⟨bb, calls, px, h1, h2, h3, (h bb h1).1 calls h2, (h bb h1).2 px h3⟩

/-- **Center / Outside stroke of width > 1 (with or without fill): the triangle HAS a bounding box,
`draw` issues some `fill_solid` calls, `pixels()` yields some pixels, all inside the box** (guard
`TriStrokeGuard`). -/
theorem triangle_stroke_in_bounding_box_some (t : Tri) (style : TriStyle) (hw : 2 ≤ style.strokeWidth)
    (hal : style.strokeAlignment ≠ .inside) (hg : TriStrokeGuard t style) :
    ∃ bb calls px, triStyledBoundingBox t style = some bb ∧ triDraw t style = some calls ∧
      triPixels t style = some px ∧
      (∀ rc ∈ calls, ∀ p, rc.1.contains p = true → bb.contains p = true) ∧
      (∀ pc ∈ px, bb.contains pc.1 = true) :=
  triangle_in_bounding_box_some_of t style (fun bb hbb =>
    ⟨fun calls hd => triangle_stroke_draw_in_bounding_box_partial t style hw hal hg bb hbb calls hd,
     fun px hpx => triangle_stroke_pixels_in_bounding_box_partial t style hw hal hg bb hbb px hpx⟩)
example : 2 ≤ (⟨some 1, some 2, 3, .center⟩ : TriStyle).strokeWidth ∧
    (⟨some 1, some 2, 3, .center⟩ : TriStyle).strokeAlignment ≠ .inside ∧
    TriStrokeGuard ⟨⟨0, 0⟩, ⟨9, 1⟩, ⟨2, 7⟩⟩ ⟨some 1, some 2, 3, .center⟩ := by decide

/-- **Fill only, stroke width 1, collapsed Inside stroke, or the outline guard: the triangle HAS a
box, calls and pixels, all inside the box** - the four remaining theorems of
Props/C02/JoinsBBox.lean with totality. -/
theorem triangle_fill_in_bounding_box_some (t : Tri) (style : TriStyle) (hw : style.strokeWidth = 0)
    (hg : TriTopGuard t) :
    ∃ bb calls px, triStyledBoundingBox t style = some bb ∧ triDraw t style = some calls ∧
      triPixels t style = some px ∧
      (∀ rc ∈ calls, ∀ p, rc.1.contains p = true → bb.contains p = true) ∧
      (∀ pc ∈ px, bb.contains pc.1 = true) :=
  triangle_in_bounding_box_some_of t style (fun bb hbb => triangle_fill_in_bounding_box t style hw hg bb hbb)
example : (⟨some 1, none, 0, .center⟩ : TriStyle).strokeWidth = 0 ∧ TriTopGuard ⟨⟨0, 0⟩, ⟨9, 1⟩, ⟨2, 7⟩⟩ := by
  decide

theorem triangle_width1_in_bounding_box_some (t : Tri) (style : TriStyle) (hw : style.strokeWidth = 1)
    (hi : TriI32 t) (hg : TriTopGuard t) :
    ∃ bb calls px, triStyledBoundingBox t style = some bb ∧ triDraw t style = some calls ∧
      triPixels t style = some px ∧
      (∀ rc ∈ calls, ∀ p, rc.1.contains p = true → bb.contains p = true) ∧
      (∀ pc ∈ px, bb.contains pc.1 = true) :=
  triangle_in_bounding_box_some_of t style (fun bb hbb => triangle_width1_in_bounding_box t style hw hi hg bb hbb)
example : (⟨some 1, some 2, 1, .outside⟩ : TriStyle).strokeWidth = 1 ∧ TriI32 ⟨⟨0, 0⟩, ⟨9, 1⟩, ⟨2, 7⟩⟩ ∧
    TriTopGuard ⟨⟨0, 0⟩, ⟨9, 1⟩, ⟨2, 7⟩⟩ := by decide

theorem triangle_collapsed_inside_in_bounding_box_some (t : Tri) (style : TriStyle)
    (hal : style.strokeAlignment = .inside)
    (hc : t.sortedClockwise.isCollapsed style.strokeWidth .right = some true) (hg : TriTopGuard t) :
    ∃ bb calls px, triStyledBoundingBox t style = some bb ∧ triDraw t style = some calls ∧
      triPixels t style = some px ∧
      (∀ rc ∈ calls, ∀ p, rc.1.contains p = true → bb.contains p = true) ∧
      (∀ pc ∈ px, bb.contains pc.1 = true) :=
  triangle_in_bounding_box_some_of t style
    (fun bb hbb => triangle_collapsed_inside_in_bounding_box t style hal hc hg bb hbb)
example : (⟨some 1, some 2, 4, .inside⟩ : TriStyle).strokeAlignment = .inside ∧
    (⟨⟨0, 0⟩, ⟨9, 1⟩, ⟨2, 7⟩⟩ : Tri).sortedClockwise.isCollapsed 4 .right = some true ∧
    TriTopGuard ⟨⟨0, 0⟩, ⟨9, 1⟩, ⟨2, 7⟩⟩ := by decide

theorem triangle_in_bounding_box_of_outline_some (t : Tri) (style : TriStyle) (hg : TriOutlineGuard t style) :
    ∃ bb calls px, triStyledBoundingBox t style = some bb ∧ triDraw t style = some calls ∧
      triPixels t style = some px ∧
      (∀ rc ∈ calls, ∀ p, rc.1.contains p = true → bb.contains p = true) ∧
      (∀ pc ∈ px, bb.contains pc.1 = true) :=
  triangle_in_bounding_box_some_of t style (fun bb hbb => triangle_in_bounding_box_of_outline t style hg bb hbb)
example : TriOutlineGuard ⟨⟨0, 0⟩, ⟨20, 3⟩, ⟨6, 18⟩⟩ ⟨some 1, some 2, 3, .inside⟩ := by decide

end EG.C02.JoinsTotal
