/-
  C02 (Arc, Sector) — bounding boxes contain everything that is drawn: styled arcs and sectors.

  Both pixel iterators walk the bounding box of the stroke's OUTER circle
  (`circle.offset(outside_stroke_width)`) and `styled_bounding_box` is
  `bounding_box().offset(outside_stroke_width)`: the two boxes are the same rectangle, so every
  pixel lies in `bounding_box()` of the styled shape — for every plane sector (all angles), bevel,
  diameter, stroke width, alignment and colour option. A transparent style iterates
  `DistanceIterator::empty()` and draws nothing.
  Guard: the styled bounding box does not leave the `i32` range (`Rect.InRange`, decidable; where it
  does the real code saturates / panics in a checked build: C08's topic).
  Models: EG.Model.StyledArc, EG.Model.StyledSector (streams `sector.sarc`, `sector.ssector`).
-/
import EG.Lemmas.StyledArcSector
namespace EG.C02.Arc
open EG EG.Tgt

/-! ### arc -/

/-- The styled bounding box of an arc is the bounding box of the stroke's outer edge circle — the
box its pixel iterator walks. -/
theorem arc_styled_bbox_eq (st : Style) (a : Arc) :
    a.styledBoundingBox st = (a.outsideEdge st).boundingBox := Arc.styledBoundingBox_eq st a

/-- Every item of `pixels()` of a styled arc lies inside `bounding_box()`; moreover it lies in the
ring between the two edge circles and in the plane sector, and carries the stroke colour. -/
theorem styled_arc_pixels_in_bbox (st : Style) (a : Arc) (h : (a.styledBoundingBox st).InRange)
    (w : Pt × Color) (hw : w ∈ a.styledPixels st) :
    (a.styledBoundingBox st).contains w.1 = true ∧ a.strokeAccepts st w.1 = true ∧
      st.stroke = some w.2 := by
  have := Arc.mem_styledPixels_imp st a w hw
  exact ⟨(Rect.mem_points h).mp this.1, this.2⟩

/-- Every point painted by `draw()` of a styled arc (on any target box, either kind of target) lies
inside `bounding_box()`. -/
theorem styled_arc_drawn_in_bbox (st : Style) (a : Arc) (B : Rect)
    (h : (a.styledBoundingBox st).InRange) (p : Pt)
    (hp : runNative B (a.drawStyled st) p ≠ none) : (a.styledBoundingBox st).contains p = true := by
  have e : runNative B (a.drawStyled st) = PMap.empty.apply (clipWrites B (a.styledPixels st)) :=
    runNative_drawIter B _
  rw [e] at hp
  obtain ⟨w, hw, rfl⟩ := exists_write_of_apply_clip B _ p hp
  exact (styled_arc_pixels_in_bbox st a h w hw).1

/-- The same on a draw_iter-only target. -/
theorem styled_arc_drawn_in_bbox_default (st : Style) (a : Arc) (B : Rect)
    (h : (a.styledBoundingBox st).InRange) (p : Pt)
    (hp : runDefault B (a.drawStyled st) p ≠ none) : (a.styledBoundingBox st).contains p = true := by
  rw [runDefault_eq_runNative] at hp
  exact styled_arc_drawn_in_bbox st a B h p hp

/-- A completely transparent style: `pixels()` is empty and `draw()` paints nothing. -/
theorem styled_arc_transparent (st : Style) (a : Arc) (B : Rect) (h : st.isTransparent = true) (p : Pt) :
    a.styledPixels st = [] ∧ runNative B (a.drawStyled st) p = none := by
  have e := Arc.styledPixels_transparent st a h
  refine ⟨e, ?_⟩
  have e2 : runNative B (a.drawStyled st) = PMap.empty.apply (clipWrites B (a.styledPixels st)) :=
    runNative_drawIter B _
  rw [e2, e]
  rfl

/-- An arc has no fill: a style without stroke colour draws nothing, whatever its fill colour. -/
theorem styled_arc_no_stroke_color (st : Style) (a : Arc) (h : st.stroke = none) :
    a.styledPixels st = [] := Arc.styledPixels_no_stroke st a h

/-! ### sector -/

/-- The styled bounding box of a sector is the bounding box of its stroke area's circle — the box
its pixel iterator walks. -/
theorem sector_styled_bbox_eq (st : Style) (s : Sector) :
    s.styledBoundingBox st = (s.strokeArea st).toCircle.boundingBox := Sector.styledBoundingBox_eq st s

/-- Every item of `pixels()` of a styled sector lies inside `bounding_box()`. -/
theorem styled_sector_pixels_in_bbox (st : Style) (s : Sector) (bevel : SectorBevel)
    (h : (s.styledBoundingBox st).InRange) (w : Pt × Color) (hw : w ∈ s.styledPixels st bevel) :
    (s.styledBoundingBox st).contains w.1 = true :=
  (Rect.mem_points h).mp (Sector.mem_styledPixels_imp st s bevel w hw).1

/-- Every point painted by `draw()` of a styled sector lies inside `bounding_box()`. -/
theorem styled_sector_drawn_in_bbox (st : Style) (s : Sector) (bevel : SectorBevel) (B : Rect)
    (h : (s.styledBoundingBox st).InRange) (p : Pt)
    (hp : runNative B (s.drawStyled st bevel) p ≠ none) : (s.styledBoundingBox st).contains p = true := by
  have e : runNative B (s.drawStyled st bevel) =
      PMap.empty.apply (clipWrites B (s.styledPixels st bevel)) := runNative_drawIter B _
  rw [e] at hp
  obtain ⟨w, hw, rfl⟩ := exists_write_of_apply_clip B _ p hp
  exact styled_sector_pixels_in_bbox st s bevel h w hw

/-- The same on a draw_iter-only target. -/
theorem styled_sector_drawn_in_bbox_default (st : Style) (s : Sector) (bevel : SectorBevel) (B : Rect)
    (h : (s.styledBoundingBox st).InRange) (p : Pt)
    (hp : runDefault B (s.drawStyled st bevel) p ≠ none) : (s.styledBoundingBox st).contains p = true := by
  rw [runDefault_eq_runNative] at hp
  exact styled_sector_drawn_in_bbox st s bevel B h p hp

/-- A completely transparent style: `pixels()` is empty and `draw()` paints nothing. -/
theorem styled_sector_transparent (st : Style) (s : Sector) (bevel : SectorBevel) (B : Rect)
    (h : st.isTransparent = true) (p : Pt) :
    s.styledPixels st bevel = [] ∧ runNative B (s.drawStyled st bevel) p = none := by
  have e := Sector.styledPixels_transparent st s bevel h
  refine ⟨e, ?_⟩
  have e2 : runNative B (s.drawStyled st bevel) =
      PMap.empty.apply (clipWrites B (s.styledPixels st bevel)) := runNative_drawIter B _
  rw [e2, e]
  rfl

/-- `is_transparent` in terms of the style's fields (the hypothesis of the two theorems above). -/
theorem is_transparent_iff (st : Style) :
    st.isTransparent = true ↔ (st.stroke = none ∨ st.width = 0) ∧ st.fill = none := by
  unfold Style.isTransparent
  cases st.stroke <;> cases st.fill <;> simp

example : (Arc.styledBoundingBox ⟨some 1, some 2, 9, .center⟩
    ⟨⟨-3, 2⟩, 7, ⟨.intersection, ⟨-1024, 0⟩, ⟨0, 1024⟩⟩⟩).InRange := by decide
example : (Sector.styledBoundingBox ⟨some 1, some 2, 5, .outside⟩
    ⟨⟨-30, 2⟩, 12, ⟨.union, ⟨724, 724⟩, ⟨0, 1024⟩⟩⟩).InRange := by decide
example : (⟨none, some 2, 0, .center⟩ : Style).isTransparent = true := by decide

-- [V] arc / sector: the plane sector and the sector's bevel handed to the model equal what the real trigonometric code computes (hooks `verif_hooks::plane_sector`, `StyledPixelsIterator::verif_bevel`); the theorems hold for EVERY plane sector and bevel, so this only matters for the tie: carried by correspondence + oracle only
-- [V] arc / sector: styled bounding boxes that leave the `i32` range (guard `Rect.InRange` false; the real code saturates or panics on overflow there, C08's topic): carried by correspondence + oracle only
-- [V] arc / sector: `i32` overflow of `delta.length_squared()` and of the half-plane dot products at coordinates beyond the display range (the model uses unbounded integers; C08's topic): carried by correspondence + oracle only

end EG.C02.Arc
