/-
  C02 (image part) — everything an `Image` draws lies inside its `bounding_box()`.
-/
import EG.Lemmas.ImageRawImage
namespace EG.C02
open EG EG.Img

/-- Every pixel left on the target (any target box, native or default semantics) lies inside the
image's bounding box. -/
theorem image_draw_in_bbox (i : Image) (hg : i.drawable.Good) (hr : i.boundingBox.InRange) (B : Rect)
    (q : Pt) (h : runNative B i.draw q ≠ none) : i.boundingBox.contains q = true :=
  (Image.drawn_in_boundingBox i hg hr B q h).1
example : (Image.new ((Drawable.raw exIm).subImage ⟨⟨6, 1⟩, ⟨9, 9⟩⟩) ⟨5, -1⟩).boundingBox.InRange := by decide

theorem image_draw_in_bbox_default (i : Image) (hg : i.drawable.Good) (hr : i.boundingBox.InRange)
    (B : Rect) (q : Pt) (h : runDefault B i.draw q ≠ none) : i.boundingBox.contains q = true := by
  rw [Image.runDefault_eq_runNative i hg] at h
  exact (Image.drawn_in_boundingBox i hg hr B q h).1

/-- Before clipping: the only call is a `fill_contiguous` whose area is the bounding box itself. -/
theorem image_fill_area_is_bbox (i : Image) (hg : i.drawable.Good) :
    (∃ cs, i.draw = [Call.fillContiguous i.boundingBox cs] ∧
        cs.length = i.drawable.size.w * i.drawable.size.h) ∨ i.draw = [] :=
  Image.calls_are_bbox_fills i hg

end EG.C02
