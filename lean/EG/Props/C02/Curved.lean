/-
  C02 — bounding boxes contain everything that is drawn: styled circles and ellipses.
  From the exact pixel-map theorems of C06 (`styled_circle_exact`, `styled_ellipse_exact`): a painted
  point lies in the fill area or the stroke area, the fill area lies in the stroke area, a shape's
  points lie in its own box, and `styled_bounding_box` is the box of the stroke area. A completely
  transparent style paints nothing.
-/
import EG.Props.C06.Circle
import EG.Props.C06.Ellipse
import EG.Props.C05.Circle
import EG.Props.C05.Ellipse
namespace EG.C02.Curved
open EG

/-- The styled bounding box of a circle is the bounding box of its stroke area. -/
theorem circle_styled_bbox_eq (st : PrimStyle) (c : Circle) :
    c.styledBoundingBox st = (c.strokeArea st).boundingBox := by
  have h0 : satAsI32 st.outsideStrokeWidth ≥ 0 := by unfold satAsI32; split <;> omega
  have h0' : (0 : Int) ≤ satAsI32 st.outsideStrokeWidth := h0
  simp only [Circle.styledBoundingBox, Circle.strokeArea, PrimStyle.strokeOffset, Circle.offset,
    Circle.boundingBox, Circle.withCenter, Circle.center, Rect.offset, h0, h0', ↓reduceIte,
    Sz.satAdd, Sz.newEqual, Rect.withCenter, Nat.mul_comm]

/-- Every point a styled circle paints lies inside its `bounding_box()`. -/
theorem styled_circle_drawn_in_bbox (st : PrimStyle) (c : Circle) (B : Rect)
    (hS : (c.strokeArea st).InRange) (hF : (c.fillArea st).InRange) (p : Pt)
    (hp : runNative B (c.drawStyled st) p ≠ none) : (c.styledBoundingBox st).contains p = true := by
  rw [circle_styled_bbox_eq]
  apply C05.circle_contains_inside_bbox
  rw [(C06.styled_circle_exact st c B hS hF p).1] at hp
  by_cases hB : B.contains p = true
  · rw [if_pos hB] at hp
    by_cases hfa : (c.fillArea st).contains p = true
    · exact C06.circle_fill_area_subset_stroke_area st c hS hF p hfa
    · rw [if_neg hfa] at hp
      by_cases hs : (c.strokeArea st).contains p = true ∧ st.strokeWidth > 0
      · exact hs.1
      · rw [if_neg hs] at hp; exact absurd rfl hp
  · rw [if_neg hB] at hp; exact absurd rfl hp

/-- A completely transparent style paints nothing (circle). -/
theorem styled_circle_transparent (st : PrimStyle) (c : Circle) (B : Rect)
    (hS : (c.strokeArea st).InRange) (hF : (c.fillArea st).InRange)
    (hf : st.fillColor = none) (hs : st.strokeColor = none ∨ st.strokeWidth = 0) (p : Pt) :
    runNative B (c.drawStyled st) p = none := by
  rw [(C06.styled_circle_exact st c B hS hF p).1, hf]
  rcases hs with hs | hs
  · rw [hs]; simp
  · simp [hs]

/-- The styled bounding box of an ellipse is the bounding box of its stroke area. -/
theorem ellipse_styled_bbox_eq (st : PrimStyle) (e : Ellipse) :
    e.styledBoundingBox st = (e.strokeArea st).boundingBox := by
  have h0 : satAsI32 st.outsideStrokeWidth ≥ 0 := by unfold satAsI32; split <;> omega
  have h0' : (0 : Int) ≤ satAsI32 st.outsideStrokeWidth := h0
  simp only [Ellipse.styledBoundingBox, Ellipse.strokeArea, PrimStyle.strokeOffset, Ellipse.offset,
    Ellipse.boundingBox, Ellipse.withCenter, Ellipse.center, Rect.offset, h0, h0', ↓reduceIte,
    Sz.satAdd, Sz.newEqual, Rect.withCenter, Nat.mul_comm]

/-- Every point a styled ellipse paints lies inside its `bounding_box()`. -/
theorem styled_ellipse_drawn_in_bbox (st : PrimStyle) (e : Ellipse) (B : Rect)
    (hS : (e.strokeArea st).InRange) (hF : (e.fillArea st).InRange) (p : Pt)
    (hp : runNative B (e.drawStyled st) p ≠ none) : (e.styledBoundingBox st).contains p = true := by
  rw [ellipse_styled_bbox_eq]
  apply C05.ellipse_contains_inside_bbox
  rw [(C06.styled_ellipse_exact st e B hS hF p).1] at hp
  by_cases hB : B.contains p = true
  · rw [if_pos hB] at hp
    by_cases hfa : (e.fillArea st).contains p = true
    · exact C06.ellipse_fill_area_subset_stroke_area st e hS hF p hfa
    · rw [if_neg hfa] at hp
      by_cases hs : (e.strokeArea st).contains p = true ∧ st.strokeWidth > 0
      · exact hs.1
      · rw [if_neg hs] at hp; exact absurd rfl hp
  · rw [if_neg hB] at hp; exact absurd rfl hp

/-- A completely transparent style paints nothing (ellipse). -/
theorem styled_ellipse_transparent (st : PrimStyle) (e : Ellipse) (B : Rect)
    (hS : (e.strokeArea st).InRange) (hF : (e.fillArea st).InRange)
    (hf : st.fillColor = none) (hs : st.strokeColor = none ∨ st.strokeWidth = 0) (p : Pt) :
    runNative B (e.drawStyled st) p = none := by
  rw [(C06.styled_ellipse_exact st e B hS hF p).1, hf]
  rcases hs with hs | hs
  · rw [hs]; simp
  · simp [hs]

example : (Circle.strokeArea ⟨some 1, some 2, 9, .center⟩ ⟨⟨-3, 2⟩, 7⟩).InRange ∧
    (Circle.fillArea ⟨some 1, some 2, 9, .center⟩ ⟨⟨-3, 2⟩, 7⟩).InRange := by decide

end EG.C02.Curved
