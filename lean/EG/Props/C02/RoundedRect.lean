/-
  C02 — bounding boxes contain everything that is drawn: styled rounded rectangles.

  For every styled `RoundedRectangle` — all corner radii (equal, unequal, larger than the rectangle,
  overlapping corner boxes), stroke widths, alignments, colour options — every point that `draw()`
  paints, on a native-fill target (`runNative` = R2) and on a `draw_iter`-only target (`runDefault` =
  R1), and every pixel `pixels()` yields lies inside `bounding_box()` of the styled shape
  (`styledBoundingBox`); a completely transparent style paints nothing.

  Route: the scanline-level theorems of C06 (`styled_rrect_lines_exact`: the styled scanlines colour
  only points of the stroke area; `styled_rrect_fill_only_exact`: the fill-only path paints the fill
  area) hold for ALL inputs — `FillInStroke` is not needed here: where the fill area is not inside the
  stroke area (the known `confine` defect recorded for C06) its escaping points are still inside the
  fill area's BOX, which lies in the stroke area's box. `RoundedRect.contains ⊆ boundingBox` is C05's
  theorem; `styled_bounding_box()` is the stroke area's box by definition
  (`C06.rrect_styled_bbox_eq_stroke_area_bbox`).
  Guards (decidable): the boxes of the two areas do not saturate / overflow `i32`.
-/
import EG.Lemmas.Glue2RRectBBox
import EG.Lemmas.Target
import EG.Props.C06.RoundedRect
import EG.Props.C05.RoundedRect
namespace EG.C02.RRect
open EG EG.RoundedRect

/-- The styled bounding box of a rounded rectangle is the bounding box of its stroke area. -/
theorem rrect_styled_bbox_eq (st : Style) (r : RoundedRect) :
    r.styledBoundingBox st = (r.strokeArea st).boundingBox :=
  C06.rrect_styled_bbox_eq_stroke_area_bbox st r

/-- The box of the fill area lies inside the styled bounding box (also when the fill AREA is not
inside the stroke AREA). -/
theorem rrect_fill_area_box_in_bbox (st : Style) (r : RoundedRect) (hS : (r.strokeArea st).InRange)
    (p : Pt) (hp : (r.fillArea st).boundingBox.contains p = true) :
    (r.styledBoundingBox st).contains p = true :=
  Glue2.fillArea_box_in_strokeArea_box st r hS p hp
example : let st : Style := ⟨some 1, some 2, 5, .center⟩
    let r : RoundedRect := ⟨⟨⟨-3, 2⟩, ⟨9, 7⟩⟩, CornerRadii.new ⟨3, 2⟩⟩
    (r.strokeArea st).InRange ∧ (r.fillArea st).boundingBox.contains ⟨0, 5⟩ = true := by decide

/-- **Every point a styled rounded rectangle paints lies inside its `bounding_box()`** — native-fill
target (R2), any target box `B`. -/
theorem styled_rrect_drawn_in_bbox (st : Style) (r : RoundedRect) (B : Rect)
    (hS : (r.strokeArea st).InRange) (hF : (r.fillArea st).InRange) (p : Pt)
    (hp : runNative B (r.drawStyled st) p ≠ none) : (r.styledBoundingBox st).contains p = true := by
  unfold runNative at hp
  rw [flatMap_writesNative] at hp
  obtain ⟨c, hc⟩ := Glue2.write_of_apply_ne_none _ p hp
  rw [Scan.mem_clipWrites] at hc
  exact Glue2.mem_draw_in_box hS hF B p c hc.1
example : let st : Style := ⟨some 1, some 2, 3, .center⟩
    let r : RoundedRect := ⟨⟨⟨-3, 2⟩, ⟨9, 7⟩⟩, ⟨⟨3, 2⟩, ⟨0, 0⟩, ⟨9, 9⟩, ⟨1, 4⟩⟩⟩
    (r.strokeArea st).InRange ∧ (r.fillArea st).InRange ∧
      (r.drawStyled st).flatMap (Call.lowerNative ⟨⟨-20, -20⟩, ⟨60, 60⟩⟩) ≠ [] := by decide

/-- The same on a `draw_iter`-only target (R1, trait defaults). -/
theorem styled_rrect_drawn_in_bbox_default (st : Style) (r : RoundedRect) (B : Rect)
    (hS : (r.strokeArea st).InRange) (hF : (r.fillArea st).InRange) (p : Pt)
    (hp : runDefault B (r.drawStyled st) p ≠ none) : (r.styledBoundingBox st).contains p = true := by
  rw [Tgt.runDefault_eq_runNative] at hp
  exact styled_rrect_drawn_in_bbox st r B hS hF p hp

/-- Every pixel of `pixels()` lies inside `bounding_box()`. -/
theorem styled_rrect_pixels_in_bbox (st : Style) (r : RoundedRect)
    (hS : (r.strokeArea st).InRange) (hF : (r.fillArea st).InRange) (p : Pt) (col : Color)
    (hp : (p, col) ∈ r.styledPixels st) : (r.styledBoundingBox st).contains p = true := by
  rw [Glue2.mem_pixels_all hS hF] at hp
  rcases hp with ⟨hs, _⟩ | ⟨hs, _⟩ <;> exact C05.rrect_contains_inside_bbox _ hS p hs
example : let st : Style := ⟨some 1, some 2, 3, .outside⟩
    let r : RoundedRect := ⟨⟨⟨-3, 2⟩, ⟨9, 7⟩⟩, ⟨⟨3, 2⟩, ⟨0, 0⟩, ⟨9, 9⟩, ⟨1, 4⟩⟩⟩
    (r.strokeArea st).InRange ∧ (r.fillArea st).InRange ∧ r.styledPixels st ≠ [] := by decide

/-- The known-defect shape of C06 (`C06.RoundedRectFillInStroke.not_fill_in_stroke_all`: `confine`
rescales the fill area's radii, `fill_area ⊄ stroke_area`), drawn with a fill colour only: the point
(1, 2) is painted although the stroke area does not contain it — and it is inside the bounding box
all the same, as is every other written point. C02 is not affected by that finding. -/
theorem styled_rrect_drawn_in_bbox_confined_witness :
    let st : Style := ⟨some 7, none, 1, .inside⟩
    let r : RoundedRect := ⟨⟨⟨0, 0⟩, ⟨3, 20⟩⟩, ⟨⟨3, 20⟩, ⟨0, 0⟩, ⟨0, 0⟩, ⟨0, 0⟩⟩⟩
    (r.strokeArea st).InRange ∧ (r.fillArea st).InRange ∧
      ((⟨1, 2⟩, 7) : Pt × Color) ∈ (r.drawStyled st).flatMap (Call.lowerNative ⟨⟨-8, -8⟩, ⟨64, 64⟩⟩) ∧
      (r.strokeArea st).contains ⟨1, 2⟩ = false ∧
      ∀ w ∈ (r.drawStyled st).flatMap (Call.lowerNative ⟨⟨-8, -8⟩, ⟨64, 64⟩⟩),
        (r.styledBoundingBox st).contains w.1 = true := by decide +kernel

/-- **A completely transparent style paints nothing** (no fill colour, and no stroke colour or a zero
stroke width) — no guard: `draw()` makes no call at all. -/
theorem styled_rrect_transparent_no_call (st : Style) (r : RoundedRect)
    (hf : st.fill = none) (hs : st.stroke = none ∨ st.width = 0) : r.drawStyled st = [] := by
  have he : st.effectiveStrokeColor = none := by
    rw [Style.effectiveStrokeColor_eq]
    rcases hs with hs | hs
    · rw [hs]; simp
    · simp [hs]
  unfold drawStyled
  rw [he, hf]
example : (⟨none, some 2, 0, .center⟩ : Style).fill = none ∧
    ((⟨none, some 2, 0, .center⟩ : Style).stroke = none ∨ (⟨none, some 2, 0, .center⟩ : Style).width = 0) := by
  decide

/-- Hence both pixel maps are empty. -/
theorem styled_rrect_transparent (st : Style) (r : RoundedRect) (B : Rect)
    (hf : st.fill = none) (hs : st.stroke = none ∨ st.width = 0) (p : Pt) :
    runNative B (r.drawStyled st) p = none ∧ runDefault B (r.drawStyled st) p = none := by
  rw [styled_rrect_transparent_no_call st r hf hs]
  exact ⟨rfl, rfl⟩

/-- `pixels()` of a transparent style yields nothing either (it looks at `stroke_color`, not at the
effective stroke colour: with a stroke colour and width 0 the two areas coincide, so every point of
the stroke area is a fill point, and there is no fill colour). -/
theorem styled_rrect_transparent_pixels (st : Style) (r : RoundedRect)
    (hS : (r.strokeArea st).InRange) (hF : (r.fillArea st).InRange)
    (hf : st.fill = none) (hs : st.stroke = none ∨ st.width = 0) : r.styledPixels st = [] := by
  apply List.eq_nil_iff_forall_not_mem.mpr
  rintro ⟨p, col⟩ hm
  rw [Glue2.mem_pixels_all hS hF, hf] at hm
  rcases hm with ⟨_, _, h⟩ | ⟨h1, h2, h3⟩
  · cases h
  · rcases hs with hs | hs
    · rw [hs] at h3; cases h3
    · rw [areas_eq_of_zero_width st r hs] at h1
      rw [h1] at h2; cases h2
example : let st : Style := ⟨none, some 2, 0, .center⟩
    let r : RoundedRect := ⟨⟨⟨-3, 2⟩, ⟨9, 7⟩⟩, CornerRadii.new ⟨3, 2⟩⟩
    (r.strokeArea st).InRange ∧ (r.fillArea st).InRange := by decide

/-- The transparent styles are exactly those of `is_transparent()`. -/
theorem styled_rrect_is_transparent_paints_nothing (st : Style) (r : RoundedRect) (B : Rect)
    (ht : st.isTransparent = true) (p : Pt) :
    runNative B (r.drawStyled st) p = none ∧ runDefault B (r.drawStyled st) p = none := by
  rw [Style.isTransparent_iff] at ht
  exact styled_rrect_transparent st r B ht.2 ht.1 p
example : (⟨none, none, 7, .inside⟩ : Style).isTransparent = true := by decide

-- [V] styled rounded rectangles whose stroke / fill area boxes leave the `i32` range (guards false; the real code saturates or panics on overflow there, C08's topic): carried by correspondence + oracle only
end EG.C02.RRect
