/-
  C20 — MockDisplay is a faithful test oracle.

  "After any sequence of drawing operations `MockDisplay::get_pixel` returns the colour last drawn
  to a point and `None` for untouched points; `from_pattern` and the `Debug` output round-trip; two
  displays compare equal, and `diff` is empty, exactly when all 64 x 64 cells agree;
  `affected_area` is the tight bounding box of the touched cells. Drawing panics exactly when a
  pixel lies outside the display or is drawn a second time while the respective check is enabled,
  and never otherwise."

  Property theorems only (helper lemmas live in EG/Lemmas/Mock*.lean). All statements are about
  the model `EG.Model.MockDisplay` (a literal transcription of src/mock_display/{mod,color_mapping}.rs)
  and hold for every display state, every history and every flag combination; a panic is the
  result value `Res.panic` / `none`. `get_pixel` is claimed for the 64 x 64 cells of the display
  (`Inside p`), which is what the property quantifies over; what the unchecked index does for
  other arguments is recorded as observations at the end.

  The model is tied to the source a second time by REGENERATION: tools/tr_mocksrc.py translates the two Rust files into
  EG/Generated/MockSrc.lean on every check, Props/C20/Generated.lean / GeneratedColors.lean / GeneratedPattern.lean prove
  each generated function equal to the model function used below, and Props/C20/GeneratedLaws.lean restates the headline
  theorems of this file over the generated functions (`src_get_pixel_last_drawn`, `src_draw_pixel_panics_iff`, ...).

  "Round trip" has two directions; both are proved here:
    [P] display -> text -> display:  `from_pattern(Debug rows of d) == d` for every display `d` whose
        colours belong to the colour set of its type (`pattern_debug_roundtrip`; the rows, not the framed
        `{:?}` text), with `from_pattern_cells` saying what `from_pattern` stores for a well-formed pattern;
    [P] text -> display -> text:     for every pattern `p` that `from_pattern` accepts,
        `Debug(from_pattern(p))` is `p` again, normalised: every row padded with spaces to 64 columns,
        lower-case hex digits (`Gray4`, `Gray8`) printed upper-case, trailing blank rows dropped
        (`debug_pattern_roundtrip`; exactly `p` when `p` is in that form: `debug_pattern_roundtrip_exact`).
  The list of colour types these statements range over (`allCT`, twelve types) is tied to the source's
  `impl ColorMapping for` list in EG/Props/C20/Types.lean.
-/
import EG.Lemmas.Mock
import EG.Lemmas.MockArea
import EG.Lemmas.MockPattern
import EG.Lemmas.MockPatternText
namespace EG.C20
open EG EG.Mock

/-! ### `get_pixel` after any history -/

/-- After any sequence of operations (draw_pixel, draw_iter, fill_contiguous, fill_solid, clear,
set_pixel, flag changes — with in-range, out-of-range and repeated points) that does not panic,
started from any display: `get_pixel p` returns, for every cell `p` of the display, the value last
written to `p`, and the old content if the history never wrote to `p`. Writes to points outside
the display (possible when out-of-bounds drawing is allowed) change nothing: they are not writes
to `p`. -/
theorem history_refines_map (d0 d : MD) (ops : List Op) (h : d0.run ops = .ok d)
    (p : Pt) (hp : Inside p) :
    d.getPixel p = some (lastTo (ops.flatMap Op.writes) p (d0.cell p)) := by
  rw [getPixel_inside d hp, run_ok_cell ops h hp]

example : ∃ d, (MD.new.setAllowOob true).run
    [.drawPixel ⟨1, 2⟩ 5, .drawPixel ⟨-1, 70⟩ 9, .call (.fillSolid ⟨⟨3, 3⟩, ⟨2, 1⟩⟩ 7)] = .ok d ∧
    Inside ⟨1, 2⟩ := ⟨_, rfl, by decide⟩

/-- On a fresh display: the colour last drawn, `None` for untouched points. -/
theorem history_refines_map_new (d0 d : MD) (ops : List Op) (hnew : d0.pixels = MD.new.pixels)
    (h : d0.run ops = .ok d) (p : Pt) (hp : Inside p) :
    d.getPixel p = some (lastTo (ops.flatMap Op.writes) p none) := by
  rw [history_refines_map d0 d ops h p hp]
  have : d0.cell p = none := by
    unfold MD.cell MD.get; rw [hnew]; exact cell_new p
  rw [this]

example : (MD.new.setAllowOverdraw true).pixels = MD.new.pixels := rfl

/-- `None` for untouched points. -/
theorem untouched_is_none (d0 d : MD) (ops : List Op) (hnew : d0.pixels = MD.new.pixels)
    (h : d0.run ops = .ok d) (p : Pt) (hp : Inside p)
    (hun : ∀ w ∈ ops.flatMap Op.writes, w.1 ≠ p) :
    d.getPixel p = some none := by
  rw [history_refines_map_new d0 d ops hnew h p hp, lastTo_eq_find]
  have : (ops.flatMap Op.writes).reverse.find? (fun w => decide (w.1 = p)) = none := by
    rw [List.find?_eq_none]
    intro w hw
    have := hun w (List.mem_reverse.mp hw)
    simpa using this
  rw [this]

example : ∀ w ∈ ([Op.drawPixel ⟨1, 2⟩ 5, Op.setOob true] : List Op).flatMap Op.writes, w.1 ≠ (⟨0, 0⟩ : Pt) := by
  decide

/-- Histories of `DrawTarget` calls only: `get_pixel` is the pixel map of `EG.Model.Target`
(`lastWrite` = the colour of the last pixel drawn to `p`), i.e. `MockDisplay` shows exactly what
the recording targets of the other properties record. -/
theorem drawing_history_last_write (d0 d : MD) (calls : List Call) (hnew : d0.pixels = MD.new.pixels)
    (h : d0.run (calls.map Op.call) = .ok d) (p : Pt) (hp : Inside p) :
    d.getPixel p = some (lastWrite (calls.flatMap (Call.lowerDefault displayArea)) p) := by
  have key : ∀ cs : List Call, (cs.map Op.call).flatMap Op.writes
      = drawWrites (cs.flatMap (Call.lowerDefault displayArea)) := by
    intro cs
    induction cs with
    | nil => rfl
    | cons c rest ih =>
      simp only [List.map_cons, List.flatMap_cons, drawWrites, List.map_append] at ih ⊢
      rw [ih]; rfl
  rw [history_refines_map_new d0 d _ hnew h p hp, ← lastTo_drawWrites, key]

example : ∃ d, MD.new.run ([Call.fillSolid ⟨⟨0, 0⟩, ⟨2, 2⟩⟩ 1, Call.drawIter []].map Op.call) = .ok d := ⟨_, rfl⟩

/-! ### When drawing panics -/

/-- `draw_pixel` panics exactly when the point lies outside the display while out-of-bounds
drawing is not allowed, or the point is inside, overdraw is not allowed and the cell already holds
a colour — and never otherwise. The order is the order of the source: for a point outside only the
bounds flag matters. -/
theorem panics_iff (d : MD) (p : Pt) (c : Color) :
    (d.drawPixel p c).isOk = false ↔
      (¬ Inside p ∧ d.allowOob = false) ∨
      (Inside p ∧ d.allowOverdraw = false ∧ ∃ old, d.getPixel p = some (some old)) := by
  rw [drawPixel_isOk_false_iff]
  unfold Offends
  constructor
  · rintro (h | ⟨hi, ha, hc⟩)
    · exact Or.inl h
    · refine Or.inr ⟨hi, ha, ?_⟩
      rw [getPixel_inside d hi]
      cases hcell : d.cell p with
      | none => rw [hcell] at hc; cases hc
      | some v => exact ⟨v, rfl⟩
  · rintro (h | ⟨hi, ha, v, hv⟩)
    · exact Or.inl h
    · refine Or.inr ⟨hi, ha, ?_⟩
      rw [getPixel_inside d hi] at hv
      have hc : d.cell p = some v := by simpa using hv
      rw [hc]; rfl

/-- A panicking `draw_pixel` leaves the display unchanged. -/
theorem panic_leaves_display (d d' : MD) (p : Pt) (c : Color) (h : d.drawPixel p c = .panic d') :
    d' = d := drawPixel_panic_state h

example : MD.new.drawPixel ⟨64, 0⟩ 1 = .panic MD.new := rfl

/-- The allowed out-of-bounds path: nothing changes (and the overdraw flag is not consulted). -/
theorem outside_allowed_unchanged (d : MD) (p : Pt) (c : Color) (hp : ¬ Inside p)
    (ha : d.allowOob = true) : d.drawPixel p c = .ok d := by
  rw [drawPixel_spec]; simp [hp, ha]

example : ¬ Inside ⟨-1, 3⟩ ∧ (MD.new.setAllowOob true).allowOob = true := by decide

/-- A draw that does not panic inside the display stores the colour, changes no other cell and
no flag. -/
theorem draw_ok_stores (d d' : MD) (p : Pt) (c : Color) (hp : Inside p)
    (h : d.drawPixel p c = .ok d') :
    d'.getPixel p = some (some c) ∧
    (∀ q, Inside q → q ≠ p → d'.getPixel q = d.getPixel q) ∧
    d'.allowOverdraw = d.allowOverdraw ∧ d'.allowOob = d.allowOob := by
  refine ⟨?_, ?_, drawPixel_ok_flags h⟩
  · rw [getPixel_inside d' hp, drawPixel_ok_cell h hp]; simp
  · intro q hq hne
    rw [getPixel_inside d' hq, getPixel_inside d hq, drawPixel_ok_cell h hq]
    have : ¬ p = q := fun e => hne e.symm
    simp [this]

example : ∃ d', MD.new.drawPixel ⟨3, 1⟩ 1 = .ok d' ∧ Inside ⟨3, 1⟩ := ⟨_, rfl, by decide⟩

/-- `draw_iter` (and with it `fill_contiguous`, `fill_solid`, `clear`, which `MockDisplay` inherits
from the trait defaults) panics exactly when one of its pixels lies outside the display while the
bounds check is on, or hits a cell that the display held or an earlier pixel of the same call has
drawn while the overdraw check is on. -/
theorem draw_iter_panics_iff (d : MD) (ws : Writes) :
    (d.drawIter ws).isOk = false ↔
      ∃ pre w post, ws = pre ++ w :: post ∧
        ((¬ Inside w.1 ∧ d.allowOob = false) ∨
         (Inside w.1 ∧ d.allowOverdraw = false ∧
            (lastTo (drawWrites pre) w.1 (d.cell w.1)).isSome = true)) :=
  drawIter_isOk_false_iff ws d

theorem draw_call_panics_iff (d : MD) (c : Call) :
    (d.step (.call c)).isOk = false ↔
      ∃ pre w post, c.lowerDefault displayArea = pre ++ w :: post ∧
        ((¬ Inside w.1 ∧ d.allowOob = false) ∨
         (Inside w.1 ∧ d.allowOverdraw = false ∧
            (lastTo (drawWrites pre) w.1 (d.cell w.1)).isSome = true)) :=
  drawIter_isOk_false_iff _ d

/-- What a panicking `draw_iter` leaves behind (observable through `catch_unwind`): exactly the
pixels before the offending one have been drawn. -/
theorem draw_iter_panic_state (d d' : MD) (ws : Writes) (h : d.drawIter ws = .panic d') :
    ∃ pre w post, ws = pre ++ w :: post ∧ d.drawIter pre = .ok d' ∧
      (d'.drawPixel w.1 w.2).isOk = false := drawIter_panic_state ws h

example : ∃ d', MD.new.drawIter [(⟨0, 0⟩, 1), (⟨0, 0⟩, 2)] = .panic d' := ⟨_, rfl⟩

/-- `set_pixel` panics exactly outside the display, whatever the flags; inside it overwrites or
erases the cell without any check. -/
theorem set_pixel_panics_iff (d : MD) (p : Pt) (c : Option Color) :
    d.setPixel p c = none ↔ ¬ Inside p := by
  rw [setPixel_spec]; by_cases hp : Inside p <;> simp [hp]

/-! ### Equality and `diff` -/

/-- Two displays compare equal exactly when all 64 x 64 cells agree (stated over the cell
function; the two flags are not part of the comparison). -/
theorem eq_iff_cells (a b : MD) :
    a.eq b = true ↔ ∀ p, Inside p → a.getPixel p = b.getPixel p := by
  rw [eq_iff_pixels, pixels_eq_iff_cells]

/-- `PartialEq` ignores `allow_overdraw` / `allow_out_of_bounds_drawing`. -/
theorem eq_ignores_flags (a : MD) (o b : Bool) : a.eq ⟨a.pixels, o, b⟩ = true := by
  rw [eq_iff_pixels]

/-- `diff` never panics. -/
theorem diff_total (a b : MD) : ∃ D, a.diff b = some D := by
  obtain ⟨D, h, _⟩ := diff_spec a b; exact ⟨D, h⟩

/-- Each cell of `diff` carries the documented colour code of the two cells it compares:
`None` equal, green only in `self`, red only in `other`, blue both set and different. -/
theorem diff_cells (a b D : MD) (h : a.diff b = some D) (p : Pt) (hp : Inside p)
    (s o : Option Color) (hs : a.getPixel p = some s) (ho : b.getPixel p = some o) :
    D.getPixel p = some (diffColor s o) := by
  obtain ⟨D', h', hc⟩ := diff_spec a b
  rw [h] at h'; cases h'
  rw [getPixel_inside a hp] at hs
  rw [getPixel_inside b hp] at ho
  cases hs; cases ho
  rw [getPixel_inside D hp, hc p hp]

example : ∃ D, (MD.new.upd 5 (some 1)).diff MD.new = some D ∧ Inside ⟨5, 0⟩ ∧
    (MD.new.upd 5 (some 1)).getPixel ⟨5, 0⟩ = some (some 1) ∧ MD.new.getPixel ⟨5, 0⟩ = some none := by
  obtain ⟨D, h⟩ := diff_total (MD.new.upd 5 (some 1)) MD.new
  exact ⟨D, h, by decide, rfl, rfl⟩

/-- `diff` is empty (equal to a fresh display) exactly when all 64 x 64 cells agree. -/
theorem diff_empty_iff (a b D : MD) (h : a.diff b = some D) :
    D.eq MD.new = true ↔ ∀ p, Inside p → a.getPixel p = b.getPixel p := by
  obtain ⟨D', h', hc⟩ := diff_spec a b
  rw [h] at h'; cases h'
  rw [eq_iff_cells]
  constructor
  · intro hD p hp
    have := hD p hp
    rw [getPixel_inside D hp, getPixel_inside MD.new hp, hc p hp, cell_new] at this
    have hn : diffColor (a.cell p) (b.cell p) = none := by simpa using this
    rw [getPixel_inside a hp, getPixel_inside b hp, (diffColor_eq_none_iff _ _).mp hn]
  · intro hab p hp
    have := hab p hp
    rw [getPixel_inside a hp, getPixel_inside b hp] at this
    have he : a.cell p = b.cell p := by simpa using this
    rw [getPixel_inside D hp, getPixel_inside MD.new hp, hc p hp, cell_new,
      (diffColor_eq_none_iff _ _).mpr he]

/-- ... i.e. exactly when the displays compare equal. -/
theorem diff_empty_iff_eq (a b D : MD) (h : a.diff b = some D) :
    D.eq MD.new = true ↔ a.eq b = true := by
  rw [diff_empty_iff a b D h, eq_iff_cells]

/-! ### `affected_area` -/

/-- `affected_area` contains every touched cell. -/
theorem affected_area_contains (d : MD) (p : Pt) (h : Touched d p) :
    d.affectedArea.contains p = true := by
  obtain ⟨tl, br, he, ht⟩ := affectedArea_of_touched d ⟨p, h⟩
  have hb := ht.bound p ((touched_iff d p).mpr h)
  rw [he, Rect.contains_withCorners]; omega

example : Touched (MD.new.upd 5 (some 1)) ⟨5, 0⟩ := ⟨by decide, 1, rfl⟩

/-- Tight: each of the four sides of `affected_area` passes through a touched cell. -/
theorem affected_area_sides_touch (d : MD) (h : ∃ p, Touched d p) :
    (∃ p, Touched d p ∧ p.x = d.affectedArea.tl.x) ∧
    (∃ p, Touched d p ∧ p.y = d.affectedArea.tl.y) ∧
    (∃ p, Touched d p ∧ p.x = d.affectedArea.tl.x + d.affectedArea.size.w - 1) ∧
    (∃ p, Touched d p ∧ p.y = d.affectedArea.tl.y + d.affectedArea.size.h - 1) := by
  obtain ⟨tl, br, he, ht⟩ := affectedArea_of_touched d h
  obtain ⟨e1, e2, e3⟩ := tight_sides ht
  rw [he, e2, e3, e1]
  obtain ⟨l, hl, hl'⟩ := ht.left
  obtain ⟨t, htt, ht'⟩ := ht.top
  obtain ⟨r, hr, hr'⟩ := ht.right
  obtain ⟨b, hb, hb'⟩ := ht.bottom
  exact ⟨⟨l, (touched_iff d l).mp hl, hl'⟩, ⟨t, (touched_iff d t).mp htt, ht'⟩,
    ⟨r, (touched_iff d r).mp hr, hr'⟩, ⟨b, (touched_iff d b).mp hb, hb'⟩⟩

/-- Hence it is the least rectangle containing the touched cells. -/
theorem affected_area_least (d : MD) (r : Rect) (h : ∀ p, Touched d p → r.contains p = true)
    (q : Pt) (hq : d.affectedArea.contains q = true) : r.contains q = true := by
  by_cases hex : ∃ p, Touched d p
  · obtain ⟨⟨l, hl, hl'⟩, ⟨t, ht, ht'⟩, ⟨rr, hr, hr'⟩, ⟨b, hb, hb'⟩⟩ := affected_area_sides_touch d hex
    have h1 := Rect.contains_iff.mp (h l hl)
    have h2 := Rect.contains_iff.mp (h t ht)
    have h3 := Rect.contains_iff.mp (h rr hr)
    have h4 := Rect.contains_iff.mp (h b hb)
    rw [Rect.contains_iff] at hq ⊢
    omega
  · rw [affectedArea_of_untouched d hex] at hq
    rw [Rect.contains_false_of_zero (Or.inl rfl)] at hq
    cases hq

/-- Zero-sized (`Rectangle::zero()`) when nothing is touched. -/
theorem affected_area_zero_of_untouched (d : MD) (h : ¬ ∃ p, Touched d p) :
    d.affectedArea = Rect.zero := affectedArea_of_untouched d h

example : ¬ ∃ p, Touched MD.new p := by
  rintro ⟨p, hp, c, hc⟩
  rw [getPixel_inside MD.new hp, cell_new] at hc
  cases hc

/-! ### `from_pattern` and the `Debug` output -/

/-- [F] per colour type (finite table, all twelve `ColorMapping` types): every colour of the type's
colour set is printed as a character that reads back as the same colour. -/
theorem char_color_roundtrip (ct : CT) (c : Color) (h : c ∈ palette ct) :
    charToColor ct (colorToChar ct c) = some c := (color_char_color ct (mem_allCT ct) c h).1

example : (0xF800 : Color) ∈ palette .rgb565 := by decide +kernel

/-- [F] and every character of the type's character set is accepted by `char_to_color` and printed
back as itself by `color_to_char`. -/
theorem color_char_roundtrip (ct : CT) (ch : Char) (h : ch ∈ charset ct) :
    ∃ c, charToColor ct ch = some c ∧ colorToChar ct c = ch := by
  have := char_color_char ct (mem_allCT ct) ch h
  cases hc : charToColor ct ch with
  | none => rw [hc] at this; cases this
  | some c => rw [hc] at this; exact ⟨c, rfl, by simpa using this⟩

example : 'A' ∈ charset .gray8 := by decide

/-- The colour sets: all values of `BinaryColor`, `Gray2`, `Gray4`; the sixteen multiples of `0x11`
of `Gray8`; black, the three primaries, their three mixtures and white of the RGB types. -/
theorem palettes : palette .binary = [0, 1] ∧ palette .gray2 = [0, 1, 2, 3] ∧
    palette .gray4 = List.range 16 ∧ palette .gray8 = (List.range 16).map (· * 17) ∧
    palette .rgb565 = [0, 0xF800, 0x07E0, 0x001F, 0xFFE0, 0xF81F, 0x07FF, 0xFFFF] ∧
    palette .rgb888 = [0, 0xFF0000, 0x00FF00, 0x0000FF, 0xFFFF00, 0xFF00FF, 0x00FFFF, 0xFFFFFF] :=
  palette_small

/-- `from_pattern` of the rows the `Debug` impl prints gives back the display: it does not panic
and the result compares equal to the original (all 64 x 64 cells agree, by `eq_iff_cells`), for
every display whose colours belong to the colour set of its colour type — any history, any number
of trailing empty rows (they are printed as "(n empty rows skipped)" and re-created as `None`). -/
theorem pattern_debug_roundtrip (ct : CT) (d : MD)
    (hpal : ∀ p, Inside p → ∀ c, d.getPixel p = some (some c) → c ∈ palette ct) :
    ∃ d', fromPattern ct (d.debugRows ct) = .ok d' ∧ d'.eq d = true ∧ d.eq d' = true := by
  refine ⟨⟨d.pixels, false, false⟩, ?_, by rw [eq_iff_pixels], by rw [eq_iff_pixels]⟩
  apply fromPattern_debugRows
  intro c hc col hcol
  obtain ⟨p, hp, hcell⟩ := mem_pixels_toList d c hc
  apply hpal p hp col
  rw [getPixel_inside d hp, hcell, hcol]

example : ∀ p, Inside p → ∀ c, (MD.new.upd 5 (some 1)).getPixel p = some (some c) → c ∈ palette .binary := by
  intro p hp c hc
  rw [getPixel_inside _ hp] at hc
  unfold MD.cell at hc
  rw [get_upd _ _ _ _ (by decide), get_new] at hc
  split at hc
  · simp only [Option.some.injEq] at hc; subst hc; decide
  · cases hc

/-- `from_pattern` on a well-formed pattern (rows of one byte width `w ≤ 64`, at most 64 rows,
every character a space or convertible by `char_to_color` — `convRows` returns the converted rows)
does not panic and puts character `x` of row `y` into cell `(x, y)`; every cell beyond the pattern
is `None`. -/
theorem from_pattern_cells (ct : CT) (pat : List (List Char)) (rows : List (List (Option Color)))
    (w : Nat) (hw : w ≤ 64) (h1 : ∀ r ∈ pat, rowLen r = w) (h2 : pat.length ≤ 64)
    (h3 : convRows ct pat = some rows) :
    ∃ d, fromPattern ct pat = .ok d ∧ ∀ x y : Nat, x < 64 → y < 64 →
      d.getPixel ⟨(x : Int), (y : Int)⟩ = some (((rows[y]?).bind (fun r => r[x]?)).join) :=
  fromPattern_cells ct pat rows w hw h1 h2 h3

example : (∀ r ∈ [['#', ' '], ['.', '#']], rowLen r = 2) ∧
    convRows .binary [['#', ' '], ['.', '#']] = some [[some 1, none], [some 0, some 1]] := by decide

/-! ### text -> display -> text -/

/-- **`Debug` of `from_pattern(pattern)` is the pattern again, normalised** — for EVERY pattern that
`from_pattern` accepts (any colour type; rows of any common width up to 64, up to 64 rows, spaces
and the type's characters, hex digits in either case): the rows `Debug` prints are the pattern's
rows in canonical characters (`canonChar`: `a`..`f` become `A`..`F` for `Gray4` / `Gray8`, nothing
else changes), each padded with spaces to 64 columns (`normRow`), without the trailing blank rows
(`dropTrailing blankRow`; `Debug` reports them as "(n empty rows skipped)"). -/
theorem debug_pattern_roundtrip (ct : CT) (pat : List (List Char)) (d : MD)
    (h : fromPattern ct pat = .ok d) :
    d.debugRows ct = dropTrailing blankRow (pat.map (normRow ct)) :=
  debugRows_fromPattern ct pat d h

example : ∃ d, fromPattern .gray4 [['a', ' ', '3'], [' ', ' ', ' ']] = .ok d :=
  ⟨_, fromPattern_ok .gray4 _ [[some 10, none, some 3], [none, none, none]] 3 (by omega)
    (by decide) (by decide) (by decide)⟩

/-- The normal form of that example: one row `A 3` padded to 64 columns; the blank row is gone. -/
theorem debug_pattern_roundtrip_example :
    dropTrailing blankRow ([['a', ' ', '3'], [' ', ' ', ' ']].map (normRow .gray4)) =
      [['A', ' ', '3'] ++ List.replicate 61 ' '] := by decide +kernel

/-- What the normalisation does to a row (at most 64 characters, as `from_pattern` demands) and to
a character: the documented characters of every colour type are unchanged. -/
theorem normal_form (ct : CT) :
    (∀ r : List Char, r.length ≤ 64 →
      normRow ct r = r.map (canonChar ct) ++ List.replicate (64 - r.length) ' ') ∧
    (∀ ch ∈ charset ct, canonChar ct ch = ch) ∧ canonChar ct ' ' = ' ' :=
  ⟨normRow_of_le ct, canonChar_charset ct (mem_allCT ct), canonChar_space ct⟩

/-- **A pattern in normal form is printed back exactly**: full-width rows, canonical characters, the
last row not blank. (The `Debug` rows of any display are of this form, so `Debug ∘ from_pattern` is
the identity on them; with `pattern_debug_roundtrip` the two maps are mutually inverse between
displays over the type's colour set and patterns in normal form.) -/
theorem debug_pattern_roundtrip_exact (ct : CT) (pat : List (List Char)) (d : MD)
    (h : fromPattern ct pat = .ok d) (hw : ∀ r ∈ pat, r.length = 64)
    (hc : ∀ r ∈ pat, ∀ c ∈ r, canonChar ct c = c)
    (hl : ∀ last, pat.getLast? = some last → blankRow last = false) : d.debugRows ct = pat :=
  debugRows_fromPattern_exact ct pat d h hw hc hl

example : let pat := [List.replicate 63 ' ' ++ ['#'], ['.'] ++ List.replicate 63 ' ']
    (∀ r ∈ pat, r.length = 64) ∧ (∀ r ∈ pat, ∀ c ∈ r, canonChar .binary c = c) ∧
    (∀ last, pat.getLast? = some last → blankRow last = false) := by decide +kernel

-- (closed) `from_pattern` panics on over-wide / over-tall / ragged patterns and unknown characters, and which assertion fires first: the decision table of the model's four checks is `C20.PatternText.from_pattern_decision` (Props/C20/PatternText.lean); the model is compared with the code on every `mock.pattern` op (`err=`)
-- (closed) the framing text of `{:?}` ("MockDisplay[", "(n empty rows skipped)", "]") is modelled (`MD.debugText`) and is a function of the printed rows: `C20.PatternText.debug_text_is_frame_of_rows`, with both round trips restated on the complete text (Props/C20/PatternText.lean); the model text is compared with the real one through the hash `dh=` on every `mock.hist` op
-- (closed, an observation outside the property's quantifier "patterns over each colour type's character set") colours outside a type's colour set (`Gray8` values that are not multiples of 0x11, RGB colours other than the eight named ones) print as '?', which `from_pattern` rejects: proved on the model in Props/C20/Unrepresentable.lean (`color_to_char_question_iff`: exactly those colours, for every type and raw value; `question_mark_is_rejected`; `pattern_with_question_mark_panics`); the harness only counts the outcome (`obs:debug-unrepresentable:rt-*`), no oracle class
-- (closed, an observation: not claimed by the property) `get_pixel` for arguments outside the 64 x 64 cells: what the code does for EVERY `i32` argument is proved on the model below (`get_pixel_outside_negative`: a negative coordinate panics; `get_pixel_outside_aliases`: otherwise cell `(x % 64, y + x / 64)` while `x + 64 y < 4096`, a panic beyond) and compared on the `mock.get` stream

/-! ### Observations (not claims of the property): `get_pixel` outside the display -/

/-- In a build with overflow checks, negative coordinates always panic. -/
theorem get_pixel_outside_negative (d : MD) (p : Pt) (h : p.x < 0 ∨ p.y < 0)
    (hr : -2147483648 ≤ p.x ∧ p.x ≤ 2147483647 ∧ -2147483648 ≤ p.y ∧ p.y ≤ 2147483647) :
    d.getPixel p = none := getPixel_negative d h hr

/-- For `x ≥ 64` (and `y ≥ 0`) `get_pixel` silently returns the cell `(x % 64, y + x / 64)` as long
as `x + 64 y < 4096`, and panics beyond. -/
theorem get_pixel_outside_aliases (d : MD) (p : Pt) (hx : 0 ≤ p.x) (hy : 0 ≤ p.y)
    (hr : p.x ≤ 2147483647 ∧ p.y ≤ 2147483647) :
    d.getPixel p = if p.x + p.y * 64 < 4096 then some (d.cell ⟨p.x % 64, p.y + p.x / 64⟩) else none :=
  getPixel_alias d hx hy hr

example : (MD.new.upd 64 (some 7)).getPixel ⟨64, 0⟩ = some (some 7) := rfl

end EG.C20
