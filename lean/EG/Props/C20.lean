/-
  C20 — property theorems (placeholder: no theorem yet, the property is not claimed).
-/
import EG.Basic.Core
namespace EG.C20
end EG.C20
