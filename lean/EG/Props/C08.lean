/-
  C08 — property theorems (placeholder: no theorem yet, the property is not claimed).
-/
import EG.Basic.Core
namespace EG.C08
end EG.C08
