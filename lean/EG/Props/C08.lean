/-
  C08 — Rendering is total and allocation-free on display-scale inputs.

  What is proved here (models: `EG.Model.Checked*`, the CHECKED form of the arithmetic kernels,
  every intermediate operation in the integer type the Rust code uses now, `none` = the panic of a
  build with overflow checks and debug assertions):

  * range theorems `*_checked_eq_plain`: on display-scale inputs (`EG.DS`, file
    EG/Lemmas/CheckedDS.lean) the checked kernel returns `some` of the plain (unbounded) kernel that
    the geometric theorems of C01..C20 are about — so no arithmetic panic, and the plain models
    describe the real computation there. Stated for the derived domain `DS.x*` (stroke areas,
    their points, stroke offsets), which contains the display scale proper (`DS.rect_x` etc.);
    the lemmas behind them hold on much larger domains (`Chk.W`: 2^28, `Chk.S`: 4096 / 8192).
    This file: `Rectangle`, `Point (+|-) Size`.  C08/Shapes.lean: `Circle`, `Ellipse`,
    `EllipseContains`.  C08/Lines.lean: Bresenham, thick-line threshold, intersections, miter.
    C08/Data.lean: `ImageRaw`, `Framebuffer`, raw `load`/`store`, text metrics.
    C08/Triangle.lean: `Triangle::{bounding_box, area_doubled, contains, sorted_clockwise,
    scanline_intersection, translate}` (with the lazily consumed `Line::points()` and
    `Scanline::{extend, bresenham_intersection}` below them).
    C08/RRect.lean: `CornerRadii::confine` (total for all `u32`), `EllipseQuadrant`,
    `RoundedRectangle::{contains, offset, translate}`, `RoundedRectangleContains`, the `Scanlines`
    iterator and the `fill_range` search of `StyledScanlines` (any `u32` radii).
    C08/Sector.lean: `PlaneSector::{contains, point_type}`, `DistanceIterator`, `Sector` / `Arc`
    (`contains`, `offset`, `points()`), the styled iterators of both (thresholds, bevel line), for
    any plane sector with normals within +-1024; for the `fixed_point` build also
    `PlaneSector::new` and the bevel selection on I16F16 bits (total for start angles within
    about +-9600 degrees and every sweep).
    C08/Scanlines.lean: `Scanline::{extend, bresenham_intersection, touches, try_extend,
    to_rectangle, draw}`, `StyledScanline` draws, the `Scanlines` / `StyledScanlines` iterators
    of circles and ellipses, and the thick polyline / triangle machinery above the joins (cap
    midpoints, `ThickSegment::{intersection, edges_bounding_box}`, the bounding-box fold), with
    the bound that every corner of a display-scale join is within 2^27 + 4096.
    C08/Glyphs.lean: `MonoFont::glyph`, the guard and skips of `ImageRaw::draw_sub_image`,
    `line_elements`, decoration rectangles, `MonoTextStyle::{draw_string, draw_whitespace}`;
    all 292 built-in fonts are inside the domain.
  * `old_*` witness theorems: the integer widths of the tree before the `fix:` commits did not
    suffice at display scale (why each widening was needed).
  * C08/Reject.lean: rejection without panic (corollaries of C09, C10, C11 + `checked_mul`,
    sub-image crop).  C08/Termination.lean, C08/TerminationThick.lean: the modelled iterators
    reach `None`, with step bounds (rectangles, lines, circles, ellipses, raw data, images, cropped
    streams, polylines; stroked lines / polylines, styled triangles, rounded rectangles, sectors, arcs).

  Not proved (what Lean cannot carry):
  -- [V] no heap allocation in any constructor, query or draw: carried by correspondence + oracle only (counting global allocator, streams scale.shape/text/image/reject)
  -- [V] no panic in code that has no checked model (f32 trigonometry of the default build (`PlaneSector::new`, bevel selection: micromath), the point steps of `ParallelsIterator` inside `Line::extents`, and the slicing / control flow of `ThickSegmentIter`, `ClosedThickSegmentIter`, `ScanlineIntersections` around the checked join and segment kernels): carried by correspondence + oracle only
  -- [V] the `fixed_point` feature build: the f32 -> I16F16 conversions of angles (`Angle::from_degrees`, `I16F16::from_num` range; the I16F16 pipeline behind them is proved total in C08/Sector.lean): carried by correspondence + oracle only (thorough tier)
  -- [V] termination of the real iterators within the step bounds of C08/Termination.lean and C08/TerminationThick.lean (proved for the models, all inputs): carried by correspondence + oracle only (iteration budgets of the scale.* streams)
  -- [V] the checked kernels transcribe the operation sequence and integer widths of the Rust source: carried by correspondence only (streams scale.chk.*: `panic` exactly where the checked model says `none`, also far outside the display scale)
-/
import EG.Lemmas.CheckedDS
namespace EG.C08
open EG EG.Chk

/-! ### `Point + Size`, `Point - Size` (with their `debug_assert!(width >= 0)`) -/

/-- `Point + Size` on the derived display-scale domain: the casts `width as i32` are non-negative
(no debug assertion fires) and the sums fit `i32`. -/
theorem point_add_size_checked_eq_plain {p : Pt} {s : Sz} (hp : DS.xpt p) (hs : DS.xsz s) :
    ptAddSize p s = some ⟨p.x + s.w, p.y + s.h⟩ := by
  obtain ⟨⟨_, _⟩, ⟨_, _⟩⟩ := hp
  obtain ⟨hw, hh⟩ := hs
  unfold DS.xsize at hw hh
  exact ptAddSize_ok (by omega) (by omega) (by omega) (by omega)
example : DS.xpt ⟨-1152, 2176⟩ ∧ DS.xsz ⟨1280, 0⟩ := by decide

theorem point_sub_size_checked_eq_plain {p : Pt} {s : Sz} (hp : DS.xpt p) (hs : DS.xsz s) :
    ptSubSize p s = some ⟨p.x - s.w, p.y - s.h⟩ := by
  obtain ⟨⟨_, _⟩, ⟨_, _⟩⟩ := hp
  obtain ⟨hw, hh⟩ := hs
  unfold DS.xsize at hw hh
  exact ptSubSize_ok (by omega) (by omega) (by omega) (by omega)
example : DS.xpt ⟨-1152, 2176⟩ ∧ DS.xsz ⟨1280, 0⟩ := by decide

/-- The debug assertion is real: a size above `i32::MAX` panics whatever the point is. -/
theorem point_add_size_asserts (p : Pt) : ptAddSize p ⟨2147483648, 0⟩ = none :=
  ptAddSize_assert (by decide) (by decide)

/-! ### `Rectangle` -/

theorem rect_bottom_right_checked_eq_plain {r : Rect} (h : DS.xrect r) :
    bottomRight r = some r.bottomRight := bottomRight_ok (DS.xrect_W h)
example : DS.xrect ⟨⟨-1152, 2176⟩, ⟨1280, 0⟩⟩ := by decide

/-- for every probe point (no bound on `p`: `contains` only compares it) -/
theorem rect_contains_checked_eq_plain {r : Rect} (h : DS.xrect r) (p : Pt) :
    contains r p = some (r.contains p) := contains_ok (DS.xrect_W h) p
example : DS.xrect ⟨⟨-1024, -1024⟩, ⟨1024, 1024⟩⟩ := by decide

theorem rect_intersection_checked_eq_plain {a b : Rect} (ha : DS.xrect a) (hb : DS.xrect b) :
    intersection a b = some (a.intersection b) := intersection_ok (DS.xrect_W ha) (DS.xrect_W hb)
example : DS.xrect ⟨⟨-1024, -1024⟩, ⟨1024, 1024⟩⟩ ∧ DS.xrect ⟨⟨0, 5⟩, ⟨0, 1024⟩⟩ := by decide

theorem rect_envelope_checked_eq_plain {a b : Rect} (ha : DS.xrect a) (hb : DS.xrect b) :
    envelope a b = some (a.envelope b) := envelope_ok (DS.xrect_W ha) (DS.xrect_W hb)
example : DS.xrect ⟨⟨-1024, -1024⟩, ⟨1024, 1024⟩⟩ ∧ DS.xrect ⟨⟨1024, 1024⟩, ⟨0, 0⟩⟩ := by decide

theorem rect_center_checked_eq_plain {r : Rect} (h : DS.xrect r) : center r = some r.center := by
  have hs := h.2
  unfold DS.xsz DS.xsize at hs
  exact center_ok (DS.xpt_W h.1) (by omega)
example : DS.xrect ⟨⟨-1024, 1024⟩, ⟨1024, 1⟩⟩ := by decide

theorem rect_with_center_checked_eq_plain {c : Pt} {s : Sz} (hc : DS.xpt c) (hs : DS.xsz s) :
    withCenter c s = some (Rect.withCenter c s) := by
  obtain ⟨⟨_, _⟩, ⟨_, _⟩⟩ := hc
  unfold DS.xsz DS.xsize at hs
  exact withCenter_ok (by omega) (by omega)
example : DS.xpt ⟨-1024, 1024⟩ ∧ DS.xsz ⟨1024, 0⟩ := by decide

/-- `offset` by a stroke offset (`-128 ..= 128`, also larger than the rectangle). -/
theorem rect_offset_checked_eq_plain {r : Rect} (h : DS.xrect r) {o : Int} (ho : DS.offs o) :
    offset r o = some (r.offset o) := offset_ok (DS.xrect_W h) (DS.offs_W ho)
example : DS.xrect ⟨⟨3, 4⟩, ⟨5, 0⟩⟩ ∧ DS.offs (-128) := by decide

theorem rect_resized_checked_eq_plain {r : Rect} (h : DS.xrect r) {s : Sz} (hs : DS.xsz s) (a : Anchor) :
    resized r s a = some (r.resized s a) := resized_ok (DS.xrect_W h) (DS.xsz_W hs) a
example : DS.xrect ⟨⟨3, 4⟩, ⟨5, 0⟩⟩ ∧ DS.xsz ⟨1024, 0⟩ := by decide

theorem rect_anchor_point_checked_eq_plain {r : Rect} (h : DS.xrect r) (a : Anchor) :
    anchorPoint r a = some (r.anchorPoint a) := anchorPoint_ok (DS.xrect_W h) a
example : DS.xrect ⟨⟨3, 4⟩, ⟨0, 1024⟩⟩ := by decide

theorem rect_translate_checked_eq_plain {r : Rect} (h : DS.xrect r) {d : Pt} (hd : DS.xpt d) :
    translate r d = some (r.translate d) := translate_ok (DS.xpt_W h.1) (DS.xpt_W hd)
example : DS.xrect ⟨⟨3, 4⟩, ⟨0, 1024⟩⟩ ∧ DS.xpt ⟨-1024, 1024⟩ := by decide

/-- `rows()` / `columns()` use saturating arithmetic only: no panic for any `i32` / `u32`. -/
theorem rect_rows_columns_total (r : Rect) : rows r = some r.rows ∧ columns r = some r.columns :=
  ⟨rfl, rfl⟩

/-- The display scale is far inside the safe range: the same statements hold for coordinates and
sizes up to 2^28 (`Chk.W`), e.g. the intersection. -/
theorem rect_intersection_wide {a b : Rect} (ha : W.rect a) (hb : W.rect b) :
    intersection a b = some (a.intersection b) := intersection_ok ha hb
example : W.rect ⟨⟨-268435456, 268435456⟩, ⟨268435456, 1⟩⟩ := by decide

/-- ... and the `i32` range does end: a rectangle whose corner is not representable panics in
`bottom_right()` (this is what `sub_image` has to avoid, see C08/Reject.lean). -/
theorem rect_bottom_right_overflows : bottomRight ⟨⟨2147483647, 0⟩, ⟨2, 1⟩⟩ = none := by decide

end EG.C08
