/-
  C19 — triangles and polylines. This root file holds no theorem of its own: the property theorems
  are in the files of `EG/Props/C19/` (every file there is built and audited by `./check C19`):
    Triangle.lean  filled triangles: interior covered, covered points within one pixel of an edge,
                   vertex-order independence, shared edges (no gap, same pixels), one-pixel outline =
                   the three edge lines (scanline model)
    Polyline.lean  one-pixel polylines = the segment lines, shared joints once
    Joins.lean     the one-pixel outline as drawn by the styled path (thick-segment / join model)
    Arithmetic.lean  the i32 products of `area_doubled` / `contains` do not overflow for |coordinates| <= 8192
    Generated.lean, GeneratedPolyline.lean  the model REGENERATED from the Rust text (tools/tr_trisrc.py ->
                   EG/Generated/TriSrc.lean) equals the hand model, function by function; headlines restated over it
  Sub-claims that are not proved are the `-- [V]` lines of those files.
-/
import EG.Basic.Core
namespace EG.C19
end EG.C19
