/-
  C19 — property theorems (placeholder: no theorem yet, the property is not claimed).
-/
import EG.Basic.Core
namespace EG.C19
end EG.C19
