/-
  C15 — the DRAWN extent of a line is its line box (when a text and a background colour are set).

  The alignment theorems of Props/C15.lean are about the line box `measure_string` reports (and
  `draw_string` is given): "its box starts at / ends at / is centred on x". What is PAINTED could be
  narrower: without a background colour a glyph bitmap may leave columns of its cell empty. With a
  text colour AND a background colour every pixel of the box `text width x character height` at the
  line's position gets a colour (glyph cells: text or background colour by the atlas bit; gaps of a
  spaced font: background colour; or the colour of a decoration drawn over it) and - C14
  `outside_untouched` - nothing beside that box is touched except by decorations. So for such a style
  the painted columns are exactly `x .. x + width` of the measured box, and the alignment statements
  are statements about the picture. (`bbox.size.w = text width`, `bbox.tl = position - baseline`:
  `measured_box_is_cell_box`.) Model: EG.Model.Font `drawString`; pixel-map lemmas EG/Lemmas/FontText.lean.
-/
import EG.Props.C14
import EG.Model.TextLayout
namespace EG.C15.DrawnExtent
open EG EG.Font EG.TextLayout

/-- A column `k` of `n` cells of width `cw` with `n - 1` gaps of width `sp` between them is a column
`dx` of a cell `i` or a column `dx` of the gap after cell `i`. -/
theorem column_split (cw sp n k : Nat) (hk : k < n * cw + (n - 1) * sp) :
    (∃ i dx, i < n ∧ dx < cw ∧ k = i * (cw + sp) + dx) ∨
    (∃ i dx, i + 1 < n ∧ dx < sp ∧ k = i * (cw + sp) + cw + dx) := by
  obtain ⟨m, rfl⟩ : ∃ m, n = m + 1 := ⟨n - 1, by
    have : n ≠ 0 := by intro h; subst h; simp at hk
    omega⟩
  have hs : 0 < cw + sp := by
    rcases Nat.eq_zero_or_pos (cw + sp) with h | h
    · have h1 : cw = 0 := by omega
      have h2 : sp = 0 := by omega
      subst h1; subst h2; simp at hk
    · exact h
  have hk' : k < m * (cw + sp) + cw := by
    have : (m + 1) * cw + (m + 1 - 1) * sp = m * (cw + sp) + cw := by
      rw [Nat.add_sub_cancel, Nat.mul_add, Nat.succ_mul]; omega
    omega
  have hdm := Nat.div_add_mod k (cw + sp)
  have hr := Nat.mod_lt k hs
  have hcomm : (cw + sp) * (k / (cw + sp)) = k / (cw + sp) * (cw + sp) := Nat.mul_comm _ _
  rw [hcomm] at hdm
  by_cases hc : k % (cw + sp) < cw
  · left
    refine ⟨k / (cw + sp), k % (cw + sp), ?_, hc, hdm.symm⟩
    rcases Nat.lt_or_ge (k / (cw + sp)) (m + 1) with h | h
    · exact h
    · have := Nat.mul_le_mul_right (cw + sp) h
      rw [Nat.succ_mul] at this
      omega
  · right
    refine ⟨k / (cw + sp), k % (cw + sp) - cw, ?_, by omega, by omega⟩
    rcases Nat.lt_or_ge (k / (cw + sp)) m with h | h
    · omega
    · have := Nat.mul_le_mul_right (cw + sp) h
      omega

/-- The box `measure_string` reports starts at the (baseline-adjusted) position and is as wide as
the cells and gaps of the line. -/
theorem measured_box_is_cell_box (f : MonoFont) (st : Style) (text : List Nat) (position : Pt) (bl : Baseline) :
    (measureString f st text position bl).bbox.tl = ⟨position.x, position.y - f.baselineOffset bl⟩ ∧
    (measureString f st text position bl).bbox.size.w = textWidth f text.length := by
  refine ⟨rfl, ?_⟩
  show bbWidth f text.length = textWidth f text.length
  unfold bbWidth textWidth
  cases text.length with
  | zero => simp
  | succ n =>
    have h1 : (n + 1) * (f.cw + f.spacing) = (n + 1) * f.cw + n * f.spacing + f.spacing := by
      rw [Nat.mul_add, Nat.succ_mul n f.spacing]; omega
    rw [h1, Nat.add_sub_cancel, Nat.add_sub_cancel]

section Painted
variable (B : Rect) (f : MonoFont) (atlas : Pt → Bool) (st : Style) (tc bc : Color)
  (hm : st.mode = some (.both tc bc))
  (text : List Nat) (position : Pt) (bl : Baseline)
  (hd : ∀ c ∈ text, f.areaDrawable (f.glyphArea c) = true)
  (hr : TextInRange f ⟨position.x, position.y - f.baselineOffset bl⟩ text.length)
  (hdr : DecoInRange f ⟨position.x, position.y - f.baselineOffset bl⟩ (textWidth f text.length))
include hm hd hr hdr

/-- **With a text and a background colour every pixel of the line's box is painted**: each point of
`[x, x + text width) x [y - baseline offset, + character height)` on the target has a colour in
the final pixel map of `draw_string`. -/
theorem line_box_fully_painted (q : Pt) (hB : B.contains q = true)
    (hx : position.x ≤ q.x ∧ q.x < position.x + (textWidth f text.length : Int))
    (hy : position.y - f.baselineOffset bl ≤ q.y ∧ q.y < position.y - f.baselineOffset bl + (f.ch : Int)) :
    (runDefault B (f.drawString atlas st text position bl).1 q).isSome = true := by
  have hW : 0 < textWidth f text.length := by omega
  by_cases hnd : NotDecorated f st (textWidth f text.length) ⟨position.x, position.y - f.baselineOffset bl⟩ q
  · have hk : (q.x - position.x).toNat < text.length * f.cw + (text.length - 1) * f.spacing := by
      have : (textWidth f text.length : Int) = ((text.length * f.cw + (text.length - 1) * f.spacing : Nat) : Int) := rfl
      omega
    have hdy : (q.y - (position.y - f.baselineOffset bl)).toNat < f.ch := by omega
    rcases column_split f.cw f.spacing text.length _ hk with ⟨i, dx, hi, hdx, hkk⟩ | ⟨i, dx, hi, hdx, hkk⟩
    · have hq : q = ⟨position.x + ((i * (f.cw + f.spacing) : Nat) : Int) + (dx : Int),
          position.y - f.baselineOffset bl + ((q.y - (position.y - f.baselineOffset bl)).toNat : Int)⟩ := by
        rw [Pt.ext_iff']
        refine ⟨?_, ?_⟩ <;> simp only <;> omega
      rw [hq] at hB hnd ⊢
      have hget : text[i]? = some text[i] := List.getElem?_eq_getElem hi
      rw [EG.C14.glyph_cell_pixels B f atlas st (.both tc bc) hm text position bl hd hr hdr i text[i] dx _
        hget hdx hdy hB hnd]
      cases atlas ⟨(f.glyphArea text[i]).tl.x + (dx : Int),
        (f.glyphArea text[i]).tl.y + ((q.y - (position.y - f.baselineOffset bl)).toNat : Int)⟩ <;> rfl
    · have hq : q = ⟨position.x + ((i * (f.cw + f.spacing) : Nat) : Int) + (f.cw : Int) + (dx : Int),
          position.y - f.baselineOffset bl + ((q.y - (position.y - f.baselineOffset bl)).toNat : Int)⟩ := by
        rw [Pt.ext_iff']
        refine ⟨?_, ?_⟩ <;> simp only <;> omega
      rw [hq] at hB hnd ⊢
      rw [EG.C14.spacing_pixels B f atlas st (.both tc bc) hm text position bl hd hr hdr i dx _ hi hdx hdy hB hnd]
      rfl
  · unfold NotDecorated at hnd
    by_cases hu : st.underline.effective st.textColor = none ∨
        (decoRect f.ulOff f.ulH ⟨position.x, position.y - f.baselineOffset bl⟩ (textWidth f text.length)).contains q = false
    · -- the strikethrough covers the pixel
      have hs : ¬ (st.strikethrough.effective st.textColor = none ∨
          (decoRect f.stOff f.stH ⟨position.x, position.y - f.baselineOffset bl⟩ (textWidth f text.length)).contains q = false) :=
        fun h => hnd ⟨h, hu⟩
      cases hc : st.strikethrough.effective st.textColor with
      | none => exact absurd (Or.inl hc) hs
      | some c =>
        have hin : (decoRect f.stOff f.stH ⟨position.x, position.y - f.baselineOffset bl⟩ (textWidth f text.length)).contains q = true := by
          cases hcc : (decoRect f.stOff f.stH ⟨position.x, position.y - f.baselineOffset bl⟩ (textWidth f text.length)).contains q with
          | true => rfl
          | false => exact absurd (Or.inr hcc) hs
        rw [EG.C14.strikethrough_covers B f atlas st (.both tc bc) hm text position bl hd hr hdr c hc hW q hB hin hu]
        rfl
    · cases hc : st.underline.effective st.textColor with
      | none => exact absurd (Or.inl hc) hu
      | some c =>
        have hin : (decoRect f.ulOff f.ulH ⟨position.x, position.y - f.baselineOffset bl⟩ (textWidth f text.length)).contains q = true := by
          cases hcc : (decoRect f.ulOff f.ulH ⟨position.x, position.y - f.baselineOffset bl⟩ (textWidth f text.length)).contains q with
          | true => rfl
          | false => exact absurd (Or.inr hcc) hu
        rw [EG.C14.underline_covers B f atlas st (.both tc bc) hm text position bl hd hr hdr c hc hW q hB hin]
        rfl

/-- **The painted columns are exactly the columns of the measured box** (rows of the character
cells, no decoration outside them considered): a point in a character row is painted iff its x lies
in `[box.x, box.x + box.width)` of the box `measure_string` reports for the line. -/
theorem drawn_columns_eq_measured_box (q : Pt) (hB : B.contains q = true)
    (hy : position.y - f.baselineOffset bl ≤ q.y ∧ q.y < position.y - f.baselineOffset bl + (f.ch : Int))
    (hnd : NotDecorated f st (textWidth f text.length) ⟨position.x, position.y - f.baselineOffset bl⟩ q) :
    (runDefault B (f.drawString atlas st text position bl).1 q).isSome = true ↔
      (measureString f st text position bl).bbox.tl.x ≤ q.x ∧
      q.x < (measureString f st text position bl).bbox.tl.x + ((measureString f st text position bl).bbox.size.w : Int) := by
  obtain ⟨e1, e2⟩ := measured_box_is_cell_box f st text position bl
  rw [e1, e2]
  constructor
  · intro h
    by_cases hx : position.x ≤ q.x ∧ q.x < position.x + (textWidth f text.length : Int)
    · exact hx
    · have := EG.C14.outside_untouched B f atlas st (.both tc bc) hm text position bl hd hr hdr q
        (by omega) hnd
      rw [this] at h; cases h
  · intro hx
    exact line_box_fully_painted B f atlas st tc bc hm text position bl hd hr hdr q hB hx hy

end Painted

section Example
private def exFont : MonoFont := ⟨16, 8, 4, 4, 1, 3, 5, 1, 2, 1, fun c => c % 8⟩
private def exStyle : Style := ⟨some 7, some 2, .none, .none⟩
private def exBox : Rect := ⟨⟨0, 0⟩, ⟨100, 100⟩⟩
private def exAtlas : Pt → Bool := fun p => p.x % 2 == 0

/-- the gap column between two characters of a spaced font is painted (background colour) -/
example : (runDefault exBox (exFont.drawString exAtlas exStyle [5, 2] ⟨3, 20⟩ .alphabetic).1 ⟨7, 18⟩).isSome = true :=
  line_box_fully_painted exBox exFont exAtlas exStyle 7 2 (by decide) [5, 2] ⟨3, 20⟩ .alphabetic
    (by decide) (by decide) (by decide) ⟨7, 18⟩ (by decide) (by decide) (by decide)
end Example

end EG.C15.DrawnExtent
