/-
  C15 / chain picture — "drawing s1 and then s2 at the returned position EQUALS drawing s1 + s2 for
  fonts without spacing", as PICTURES.

  `EG/Props/C15.lean` proves the call-list level (`chaining_cells`: same glyph calls,
  `chaining_next`: same returned position, `chaining_decorations`: the decoration rectangle of the
  whole is the union of the parts). The pixel-map equality is derived here (helper lemmas: EG/Lemmas/GlueChainPicture.lean, on top of the pixel-map
  lemmas of EG/Lemmas/PMap.lean / Target.lean and the box lemmas of EG/Lemmas/TextLayoutBox.lean):
  the call list of the chained drawing, `glyphs(s1), deco(s1), glyphs(s2), deco(s2)`, and the call
  list of the whole text, `glyphs(s1 ++ s2), deco(s1 ++ s2)`, leave the same colour at EVERY point
  of every target box, on native-fill and draw_iter-only targets — for every font without spacing
  (any metrics, any atlas, any glyph mapping), every style (all colour / decoration combinations),
  every baseline, all strings.

  Hypotheses (besides `spacing = 0`, which is the property's own): the top-left corner of the text's
  glyph row is a real `Point` (not below `i32::MIN`), and the decoration rectangles over the whole
  width fit into `i32` coordinates (`DecoInRange`, the guard C14 uses: beyond it `Rectangle::points`
  saturates; C08's topic).

  -- [V] `i32` overflow / saturation of positions and decoration rectangles beyond the `i32` range (hypotheses `DecoInRange`, corner >= i32::MIN): carried by correspondence + oracle only
-/
import EG.Lemmas.GlueChainPicture
import EG.Props.C15
namespace EG.C15.ChainPicture
open EG EG.Tgt EG.Font EG.TextLayout EG.Glue

/-- Two adjacent solid rectangles of the same colour paint exactly what the one rectangle over both
widths paints (as pixel maps on any target box): the decoration of `s1` followed by the decoration
of `s2` started at the returned position, against the decoration of `s1 ++ s2`. -/
theorem chaining_decoration_picture (B : Rect) (off hgt : Nat) (pos : Pt) (W1 W2 : Nat) (c : Color)
    (hr : (decoRect off hgt pos (W1 + W2)).InRange) (q : Pt) :
    runNative B [Call.fillSolid (decoRect off hgt pos W1) c,
        Call.fillSolid (decoRect off hgt ⟨pos.x + (W1 : Int), pos.y⟩ W2) c] q =
      runNative B [Call.fillSolid (decoRect off hgt pos (W1 + W2)) c] q := by
  have hr1 : (decoRect off hgt pos W1).InRange := by
    unfold Rect.InRange inI32 decoRect at *; simp only [Int.natCast_add] at hr; simp only; omega
  have hr2 : (decoRect off hgt ⟨pos.x + (W1 : Int), pos.y⟩ W2).InRange := by
    unfold Rect.InRange inI32 decoRect at *; simp only [Int.natCast_add] at hr; simp only; omega
  rw [runNative_eq_lw, runNative_eq_lw,
    show [Call.fillSolid (decoRect off hgt pos W1) c,
        Call.fillSolid (decoRect off hgt ⟨pos.x + (W1 : Int), pos.y⟩ W2) c] =
      [Call.fillSolid (decoRect off hgt pos W1) c] ++
        [Call.fillSolid (decoRect off hgt ⟨pos.x + (W1 : Int), pos.y⟩ W2) c] from rfl,
    lw_append, lw_fillSolid _ _ _ hr1, lw_fillSolid _ _ _ hr2, lw_fillSolid _ _ _ hr]
  have h := decoRect_split off hgt pos W1 W2 q
  by_cases h1 : (decoRect off hgt pos W1).contains q = true <;>
    by_cases h2 : (decoRect off hgt ⟨pos.x + (W1 : Int), pos.y⟩ W2).contains q = true <;>
    by_cases hB : B.contains q = true <;>
    simp [h, h1, h2, hB]
example : (decoRect 7 1 ⟨-5, 3⟩ (12 + 8)).InRange := by decide

/-- **`chaining_picture`** (`draw_string`, native-fill target): for a font without spacing, drawing
`s1` at `p` and then `s2` at the returned position leaves the same pixel map as drawing `s1 ++ s2`
at `p` — glyph cells, background, strikethrough and underline included, last write wins. -/
theorem chaining_picture (f : MonoFont) (h : f.spacing = 0) (atlas : Pt → Bool) (st : Style)
    (s1 s2 : List Nat) (p : Pt) (bl : Baseline)
    (hx : -2147483648 ≤ p.x) (hy : -2147483648 ≤ p.y - f.baselineOffset bl)
    (hd : DecoInRange f ⟨p.x, p.y - f.baselineOffset bl⟩ (bbWidth f (s1 ++ s2).length))
    (B : Rect) (q : Pt) :
    runNative B ((f.drawString atlas st s1 p bl).1 ++
        (f.drawString atlas st s2 (f.drawString atlas st s1 p bl).2 bl).1) q =
      runNative B (f.drawString atlas st (s1 ++ s2) p bl).1 q := by
  rw [List.length_append, bbWidth_add f h] at hd
  rw [runNative_eq_lw, runNative_eq_lw, drawString_next]
  simp only [drawString_calls, decoPartCalls, drawAdvance_eq_bbWidth f st _ (Or.inr (Or.inr (Or.inl h))),
    List.length_append, bbWidth_add f h]
  exact chain_lw B f h atlas st s1 s2 ⟨p.x, p.y - f.baselineOffset bl⟩ hx hy hd q
example : (⟨64, 36, 4, 6, 0, 4, 6, 1, 3, 1, fun _ => 0⟩ : MonoFont).spacing = 0 ∧
    DecoInRange (⟨64, 36, 4, 6, 0, 4, 6, 1, 3, 1, fun _ => 0⟩ : MonoFont) ⟨-3, 10 - 4⟩
      (bbWidth (⟨64, 36, 4, 6, 0, 4, 6, 1, 3, 1, fun _ => 0⟩ : MonoFont) ([72, 105] ++ [33]).length) := by
  decide

/-- The same on a target that implements `draw_iter` only (trait defaults). -/
theorem chaining_picture_default (f : MonoFont) (h : f.spacing = 0) (atlas : Pt → Bool) (st : Style)
    (s1 s2 : List Nat) (p : Pt) (bl : Baseline)
    (hx : -2147483648 ≤ p.x) (hy : -2147483648 ≤ p.y - f.baselineOffset bl)
    (hd : DecoInRange f ⟨p.x, p.y - f.baselineOffset bl⟩ (bbWidth f (s1 ++ s2).length))
    (B : Rect) (q : Pt) :
    runDefault B ((f.drawString atlas st s1 p bl).1 ++
        (f.drawString atlas st s2 (f.drawString atlas st s1 p bl).2 bl).1) q =
      runDefault B (f.drawString atlas st (s1 ++ s2) p bl).1 q := by
  rw [Tgt.runDefault_eq_runNative, Tgt.runDefault_eq_runNative]
  exact chaining_picture f h atlas st s1 s2 p bl hx hy hd B q

/-- As equality of pixel maps (functions), both kinds of target. -/
theorem chaining_picture_maps (f : MonoFont) (h : f.spacing = 0) (atlas : Pt → Bool) (st : Style)
    (s1 s2 : List Nat) (p : Pt) (bl : Baseline)
    (hx : -2147483648 ≤ p.x) (hy : -2147483648 ≤ p.y - f.baselineOffset bl)
    (hd : DecoInRange f ⟨p.x, p.y - f.baselineOffset bl⟩ (bbWidth f (s1 ++ s2).length)) (B : Rect) :
    runNative B ((f.drawString atlas st s1 p bl).1 ++
        (f.drawString atlas st s2 (f.drawString atlas st s1 p bl).2 bl).1) =
      runNative B (f.drawString atlas st (s1 ++ s2) p bl).1 ∧
    runDefault B ((f.drawString atlas st s1 p bl).1 ++
        (f.drawString atlas st s2 (f.drawString atlas st s1 p bl).2 bl).1) =
      runDefault B (f.drawString atlas st (s1 ++ s2) p bl).1 :=
  ⟨funext (chaining_picture f h atlas st s1 s2 p bl hx hy hd B),
   funext (chaining_picture_default f h atlas st s1 s2 p bl hx hy hd B)⟩

/-- **`Text` level** (one line, left aligned; `s1` must not end in `\r`, see `chaining_text`):
`Text(s1).draw` followed by `Text(s2).draw` at the returned position paints what `Text(s1 ++ s2).draw`
paints. -/
theorem chaining_text_picture (f : MonoFont) (h : f.spacing = 0) (atlas : Pt → Bool) (st : Style)
    (ts : TextStyle) (hal : ts.alignment = .left) (s1 s2 : List Nat) (p : Pt) (h1 : 10 ∉ s1) (h2 : 10 ∉ s2)
    (hcr : s1.getLast? ≠ some 13)
    (hx : -2147483648 ≤ p.x) (hy : -2147483648 ≤ p.y - f.baselineOffset ts.baseline)
    (hd : DecoInRange f ⟨p.x, p.y - f.baselineOffset ts.baseline⟩ (bbWidth f (s1 ++ stripCR s2).length))
    (B : Rect) (q : Pt) :
    runNative B ((draw f atlas ⟨s1, p, st, ts⟩).1 ++
        (draw f atlas ⟨s2, (draw f atlas ⟨s1, p, st, ts⟩).2, st, ts⟩).1) q =
      runNative B (draw f atlas ⟨s1 ++ s2, p, st, ts⟩).1 q := by
  have h12 : 10 ∉ s1 ++ s2 := by simp [h1, h2]
  have hs : stripCR (s1 ++ s2) = s1 ++ stripCR s2 := by
    by_cases he : s2 = []
    · subst he; simp only [List.append_nil, stripCR_of_not_cr s1 hcr, stripCR_nil]
    · exact stripCR_append s1 s2 he
  rw [draw_single f atlas ⟨s1 ++ s2, p, st, ts⟩ h12, draw_single f atlas ⟨s2, _, st, ts⟩ h2,
    draw_single f atlas ⟨s1, p, st, ts⟩ h1]
  simp only [alignedPos_left f st ts _ _ hal, hs, stripCR_of_not_cr s1 hcr]
  exact chaining_picture f h atlas st s1 (stripCR s2) p ts.baseline hx hy hd B q
example : (10 : Nat) ∉ [72, 105] ∧ (10 : Nat) ∉ [33, 13] ∧ ([72, 105] : List Nat).getLast? ≠ some 13 ∧
    stripCR [33, 13] = [33] := by decide

/-- A concrete chained drawing through the model (4x6 font, underlined and struck through, both
colours): seam columns of the decorations and glyph pixels of `s2` agree in both pictures. -/
def exFont : MonoFont := ⟨8, 6, 4, 6, 0, 4, 6, 1, 3, 1, fun c => c % 2⟩
def exAtlas : Pt → Bool := fun p => (p.x + p.y) % 2 == 0
def exStyle : Style := ⟨some 5, some 2, .textColor, .custom 9⟩
example : ([⟨8, 10⟩, ⟨7, 10⟩, ⟨9, 5⟩, ⟨8, 7⟩, ⟨11, 10⟩, ⟨12, 10⟩] : List Pt).map (fun q =>
    (runNative ⟨⟨0, 0⟩, ⟨64, 64⟩⟩ ((exFont.drawString exAtlas exStyle [0, 1] ⟨0, 8⟩ .alphabetic).1 ++
        (exFont.drawString exAtlas exStyle [1]
          (exFont.drawString exAtlas exStyle [0, 1] ⟨0, 8⟩ .alphabetic).2 .alphabetic).1) q : Option Nat)) =
    ([⟨8, 10⟩, ⟨7, 10⟩, ⟨9, 5⟩, ⟨8, 7⟩, ⟨11, 10⟩, ⟨12, 10⟩] : List Pt).map (fun q =>
      (runNative ⟨⟨0, 0⟩, ⟨64, 64⟩⟩
        (exFont.drawString exAtlas exStyle ([0, 1] ++ [1]) ⟨0, 8⟩ .alphabetic).1 q : Option Nat)) := by
  decide +kernel
example : runNative ⟨⟨0, 0⟩, ⟨64, 64⟩⟩ (exFont.drawString exAtlas exStyle ([0, 1] ++ [1]) ⟨0, 8⟩ .alphabetic).1
    ⟨8, 10⟩ = some 5 := by decide +kernel

end EG.C15.ChainPicture
