/-
  C15 — the REGENERATED text layout code equals the hand-written model.

  `EG/Generated/TextSrc.lean` is written by `tools/tr_textsrc.py` from /repo's Rust text on every run of a check (one
  Lean `def` per Rust function, arm for arm; every Rust primitive is a function of the trusted prelude
  `EG/Model/TextSrcPrelude.lean`, the `Point` / `Size` / `Rectangle` helpers are the regenerated functions of
  `EG/Generated/RectSrc.lean`). This file proves `<name>_src_eq_model` for the functions C15 rests on —
  `LineHeight::to_absolute`, `MonoTextStyle::{baseline_offset, line_height, measure_string}`,
  `Text::{line_height, lines, draw, bounding_box, translate}`, `update_min_max` — against `EG/Model/TextLayout.lean`, and restates
  the headline theorems of C15 over the generated functions (`src_*`). A semantic change of one of these Rust
  bodies changes the generated definition and breaks a theorem here.

  Where source and hand model differ (stated exactly, as the decidable guard `LineFits`):
  * `text.chars().count() as u32` truncates, `Point + Size` casts the size with `as i32` behind a
    `debug_assert!`, `Rectangle::bottom_right` likewise; the hand model computes in `Nat` / `Int`. They agree when
    the character count fits `u32` and the line box (width `n * (cw + spacing)`, height `bb_height`) fits `i32`:
    `LineFits f st n`, monotone in `n` (`LineFits.mono`), so ONE hypothesis on the whole text covers all its lines.
  * `Text::draw` (`draw_string`) is tied in `EG/Props/C14/Generated.lean`; here `Text_Drawable_draw_src_eq_model`
    takes the `draw_string` equality as proved there.
-/
import EG.Generated.TextSrc
import EG.Props.C16.Generated
import EG.Props.C15
namespace EG.C15.Src
open EG EG.Font EG.TextLayout EG.RectSrcPrelude EG.TextSrcPrelude EG.Generated EG.C16.Src

/-! ### vocabulary -/

/-- A line of `n` characters is measured without a cast wrapping: `n` fits `u32`, the advance `n * (cw + spacing)`
and the box height fit `i32`. -/
def LineFits (f : Font.MonoFont) (st : Style) (n : Nat) : Prop :=
  n < 4294967296 ∧ n * (f.cw + f.spacing) ≤ 2147483647 ∧ bbHeight f st ≤ 2147483647
instance (f : Font.MonoFont) (st : Style) (n : Nat) : Decidable (LineFits f st n) := by
  unfold LineFits; exact inferInstance

theorem LineFits.mono {f : Font.MonoFont} {st : Style} {n m : Nat} (h : LineFits f st n) (hm : m ≤ n) :
    LineFits f st m := by
  obtain ⟨h1, h2, h3⟩ := h
  refine ⟨by omega, ?_, h3⟩
  exact Nat.le_trans (Nat.mul_le_mul_right _ hm) h2

/-- a 6x9 font, a 1000-character line -/
example : LineFits ⟨96, 54, 6, 9, 0, 6, 10, 1, 4, 1, fun _ => 0⟩ ⟨some 1, none, .none, .none⟩ 1000 := by decide

theorem bbWidth_le (f : Font.MonoFont) (n : Nat) : bbWidth f n ≤ n * (f.cw + f.spacing) := by
  unfold bbWidth; omega

/-! ### `LineHeight::to_absolute`, `baseline_offset`, `line_height` -/

theorem LineHeight_to_absolute_src_eq_model (lh : TextLayout.LineHeight) (b : Nat) :
    TextSrc.LineHeight_to_absolute lh b = lh.toAbsolute b := by
  cases lh <;> rfl

theorem baseline_offset_src_eq_model (s : MonoTextStyle) (bl : Font.Baseline) :
    TextSrc.MonoTextStyle_baseline_offset s bl = s.font.f.baselineOffset bl := by
  cases bl <;> rfl

theorem TextRenderer_line_height_src_eq_model (s : MonoTextStyle) :
    TextSrc.MonoTextStyle_TextRenderer_line_height s = fontLineHeight s.font.f := rfl

theorem Text_line_height_src_eq_model (t : TextSrcPrelude.Text) :
    TextSrc.Text_line_height t = lineHeight t.character_style.font.f t.text_style := by
  unfold TextSrc.Text_line_height lineHeight
  rw [LineHeight_to_absolute_src_eq_model]
  rfl

/-! ### `measure_string` -/

theorem measure_string_src_eq_model (s : MonoTextStyle) (text : List Nat) (p : Pt) (bl : Font.Baseline)
    (h : LineFits s.font.f s.st text.length) :
    TextSrc.MonoTextStyle_TextRenderer_measure_string s text p bl = measureString s.font.f s.st text p bl := by
  obtain ⟨h1, h2, h3⟩ := h
  have hw := bbWidth_le s.font.f text.length
  unfold TextSrc.MonoTextStyle_TextRenderer_measure_string measureString
  rw [baseline_offset_src_eq_model]
  have hfit : FitsI32 (RectSrc.Size_x_axis (RectSrc.Size_new (bbWidth s.font.f text.length) (bbHeight s.font.f s.st))) := by
    unfold FitsI32 RectSrc.Size_x_axis RectSrc.Size_new
    simp only [Size_width]
    omega
  have hbw : u32_saturating_sub (u32_mul (usize_as_u32 (iter_count (str_chars text)))
      (u32_add (Size_width (MonoFont_character_size (MonoTextStyle_font s))) (MonoFont_character_spacing (MonoTextStyle_font s))))
      (MonoFont_character_spacing (MonoTextStyle_font s)) = bbWidth s.font.f text.length := by
    simp only [u32_saturating_sub, u32_mul, usize_as_u32, iter_count, str_chars, u32_add, Size_width,
      MonoFont_character_spacing, MonoTextStyle_font, Nat.mod_eq_of_lt h1]
    rfl
  have hbh : (if DecorationColor_ne (MonoTextStyle_underline_color s) DecorationColor.None then
      u32_max (u32_add (DecorationDimensions_height (MonoFont_underline (MonoTextStyle_font s)))
        (DecorationDimensions_offset (MonoFont_underline (MonoTextStyle_font s))))
        (Size_height (MonoFont_character_size (MonoTextStyle_font s)))
    else Size_height (MonoFont_character_size (MonoTextStyle_font s))) = bbHeight s.font.f s.st := by
    unfold bbHeight
    simp only [DecorationColor_ne, MonoTextStyle_underline_color, DecorationColor.None, decide_eq_true_eq]
  simp only [hbw, hbh]
  rw [Point_add_Size_src_eq_model _ _ hfit]
  simp only [TextMetrics_mk, RectSrc.new, Rectangle_mk, RectSrc.Point_op_sub_Point, RectSrc.Point_new, Point_mk, Point_x,
    Point_y, i32_sub, RectSrc.Size_x_axis, RectSrc.Size_new, Size_mk, Size_width, Int.sub_zero, Int.add_zero,
    Int.natCast_zero]

/-! ### `Text::lines` -/

theorem str_split_nl_eq (t : List Nat) : str_split t 10 = splitNL t := by
  induction t with
  | nil => rfl
  | cons c cs ih => simp only [str_split, splitNL, ih]; rfl

theorem strip_cr_eq (l : List Nat) : option_unwrap_or (str_strip_suffix l 13) l = stripCR l := by
  unfold stripCR
  simp only [option_unwrap_or, str_strip_suffix]
  by_cases h : l.getLast? = some 13 <;> simp [h]

/-- the `match self.text_style.alignment` of the closure of `lines()` -/
theorem aligned_src_eq_model (t : TextSrcPrelude.Text) (line : List Nat) (position : Pt)
    (h : LineFits t.character_style.font.f t.character_style.st line.length) :
    (match TextStyle_alignment (Text_text_style t) with
      | Alignment.Left => position
      | Alignment.Right =>
        let metrics := TextSrc.MonoTextStyle_TextRenderer_measure_string (Text_character_style t) line RectSrc.Point_zero
          (TextStyle_baseline (Text_text_style t))
        RectSrc.Point_op_sub_Point position
          (RectSrc.Point_op_sub_Point (TextMetrics_next_position metrics) (RectSrc.Point_new (1 : Int) (0 : Int)))
      | Alignment.Center =>
        let metrics := TextSrc.MonoTextStyle_TextRenderer_measure_string (Text_character_style t) line RectSrc.Point_zero
          (TextStyle_baseline (Text_text_style t))
        RectSrc.Point_op_sub_Point position
          (RectSrc.Point_op_div_i32 (RectSrc.Point_op_sub_Point (TextMetrics_next_position metrics)
            (RectSrc.Point_new (1 : Int) (0 : Int))) (2 : Int)))
    = alignedPos t.character_style.font.f t.character_style.st t.text_style line position := by
  unfold alignedPos
  simp only [TextStyle_alignment, Text_text_style, Text_character_style, TextStyle_baseline]
  rw [measure_string_src_eq_model _ _ _ _ h]
  cases t.text_style.alignment
  · rfl
  · simp only [RectSrc.Point_op_sub_Point, RectSrc.Point_op_div_i32, RectSrc.Point_new, Point_mk, Point_x, Point_y,
      i32_sub, i32_div, TextMetrics_next_position, tdiv_two, RectSrc.Point_zero]
    rfl
  · simp only [RectSrc.Point_op_sub_Point, RectSrc.Point_new, Point_mk, Point_x, Point_y, i32_sub,
      TextMetrics_next_position, RectSrc.Point_zero]
    rfl

theorem stripCR_length_le (l : List Nat) : (stripCR l).length ≤ l.length := by
  unfold stripCR; split
  · simp
  · exact Nat.le_refl _

theorem splitNL_length_le (t : List Nat) : ∀ l ∈ splitNL t, l.length ≤ t.length := by
  induction t with
  | nil => intro l hl; simp [splitNL] at hl; simp [hl]
  | cons c cs ih =>
    intro l hl
    unfold splitNL at hl
    split at hl
    · rcases List.mem_cons.mp hl with h | h
      · simp [h]
      · have := ih l h; simp only [List.length_cons]; omega
    · split at hl
      · rename_i l0 ls heq
        rcases List.mem_cons.mp hl with h | h
        · have := ih l0 (by rw [heq]; exact List.mem_cons_self)
          simp only [h, List.length_cons]; omega
        · have := ih l (by rw [heq]; exact List.mem_cons_of_mem _ h)
          simp only [List.length_cons]; omega
      · simp at hl; simp [hl]

/-- the closure of `lines()` as the translator writes it (`Text_lines_unfold`: by `rfl`) -/
def linesStep (t : TextSrcPrelude.Text) : Pt → List Nat → (List Nat × Pt) × Pt := fun position line =>
      let line := option_unwrap_or (str_strip_suffix line (13 : Nat)) line
      let p := (match TextStyle_alignment (Text_text_style t) with
        | Alignment.Left => position
        | Alignment.Right =>
          let metrics := TextSrc.MonoTextStyle_TextRenderer_measure_string (Text_character_style t) line RectSrc.Point_zero
            (TextStyle_baseline (Text_text_style t))
          RectSrc.Point_op_sub_Point position
            (RectSrc.Point_op_sub_Point (TextMetrics_next_position metrics) (RectSrc.Point_new (1 : Int) (0 : Int)))
        | Alignment.Center =>
          let metrics := TextSrc.MonoTextStyle_TextRenderer_measure_string (Text_character_style t) line RectSrc.Point_zero
            (TextStyle_baseline (Text_text_style t))
          RectSrc.Point_op_sub_Point position
            (RectSrc.Point_op_div_i32 (RectSrc.Point_op_sub_Point (TextMetrics_next_position metrics)
              (RectSrc.Point_new (1 : Int) (0 : Int))) (2 : Int)))
      let position := Point_set_y position (i32_add (Point_y position) (TextSrc.Text_line_height t))
      ((line, p), position)

theorem Text_lines_unfold (t : TextSrcPrelude.Text) :
    TextSrc.Text_lines t = iter_map_mut (str_split (Text_text t) 10) (Text_position t) (linesStep t) := rfl

theorem linesStep_eq (t : TextSrcPrelude.Text) (position : Pt) (raw : List Nat)
    (h : LineFits t.character_style.font.f t.character_style.st raw.length) :
    linesStep t position raw =
      ((stripCR raw, alignedPos t.character_style.font.f t.character_style.st t.text_style (stripCR raw) position),
       ⟨position.x, position.y + lineHeight t.character_style.font.f t.text_style⟩) := by
  have hl : LineFits t.character_style.font.f t.character_style.st (stripCR raw).length :=
    h.mono (stripCR_length_le raw)
  have ha := aligned_src_eq_model t (stripCR raw) position hl
  unfold linesStep
  simp only [strip_cr_eq, Text_line_height_src_eq_model]
  exact Prod.ext (Prod.ext rfl ha) rfl

theorem lines_go_src_eq_model (t : TextSrcPrelude.Text) (raws : List (List Nat)) (position : Pt)
    (h : ∀ l ∈ raws, LineFits t.character_style.font.f t.character_style.st l.length) :
    iter_map_mut raws position (linesStep t)
      = linesGo t.character_style.font.f t.character_style.st t.text_style position raws := by
  induction raws generalizing position with
  | nil => rfl
  | cons raw rest ih =>
    have hr := ih ⟨position.x, position.y + lineHeight t.character_style.font.f t.text_style⟩
      (fun l hl' => h l (List.mem_cons_of_mem _ hl'))
    unfold iter_map_mut linesGo
    rw [linesStep_eq t position raw (h raw List.mem_cons_self)]
    exact congrArg (List.cons _) hr

/-- `Text::lines()` = the hand model's `lines`, for every text whose length the casts can carry. -/
theorem Text_lines_src_eq_model (t : TextSrcPrelude.Text)
    (h : LineFits t.character_style.font.f t.character_style.st t.text.length) :
    TextSrc.Text_lines t = lines t.character_style.font.f t.toModel := by
  rw [Text_lines_unfold]
  unfold lines
  simp only [Text_text, Text_position, str_split_nl_eq]
  exact lines_go_src_eq_model t _ _ (fun l hl => h.mono (splitNL_length_le _ l hl))

/-! ### `update_min_max`, `bounding_box` -/

theorem update_min_max_src_eq_model (mm : Option (Pt × Pt)) (m : Metrics) (h : FitsI32 m.bbox.size) :
    TextSrc.update_min_max mm m = updateMinMax mm m := by
  unfold TextSrc.update_min_max updateMinMax
  simp only [TextMetrics_bounding_box]
  rw [bottom_right_src_eq_model _ h]
  cases m.bbox.bottomRight with
  | none => rfl
  | some br =>
    cases mm with
    | none => rfl
    | some mm => obtain ⟨mn, mx⟩ := mm; rfl

theorem measure_box_fits (f : Font.MonoFont) (st : Style) (line : List Nat) (p : Pt) (bl : Font.Baseline)
    (h : LineFits f st line.length) : FitsI32 (measureString f st line p bl).bbox.size := by
  obtain ⟨_, h2, h3⟩ := h
  have hw := bbWidth_le f line.length
  unfold measureString FitsI32
  simp only
  omega

/-- the body of the `for` loop of `bounding_box` as the translator writes it -/
def bboxStep (t : TextSrcPrelude.Text) : Option (Pt × Pt) → List Nat × Pt → Option (Pt × Pt) :=
  fun min_max (line, position) =>
      let metrics := TextSrc.MonoTextStyle_TextRenderer_measure_string (Text_character_style t) line position
        (TextStyle_baseline (Text_text_style t))
      let min_max := TextSrc.update_min_max min_max metrics
      min_max

theorem bbox_fold_src_eq_model (t : TextSrcPrelude.Text) (raws : List (List Nat)) (position : Pt)
    (mm : Option (Pt × Pt))
    (h : ∀ l ∈ raws, LineFits t.character_style.font.f t.character_style.st l.length) :
    for_in (linesGo t.character_style.font.f t.character_style.st t.text_style position raws) mm (bboxStep t)
      = minMaxGo t.character_style.font.f t.character_style.st t.text_style.baseline mm
          (linesGo t.character_style.font.f t.character_style.st t.text_style position raws) := by
  induction raws generalizing position mm with
  | nil => rfl
  | cons raw rest ih =>
    have hl : LineFits t.character_style.font.f t.character_style.st (stripCR raw).length :=
      (h raw List.mem_cons_self).mono (stripCR_length_le raw)
    unfold linesGo
    simp only [for_in, List.foldl_cons, minMaxGo]
    have hstep : ∀ p, bboxStep t mm (stripCR raw, p) = updateMinMax mm
        (measureString t.character_style.font.f t.character_style.st (stripCR raw) p t.text_style.baseline) := by
      intro p
      unfold bboxStep
      simp only [Text_character_style, TextStyle_baseline, Text_text_style]
      rw [measure_string_src_eq_model _ _ _ _ hl, update_min_max_src_eq_model _ _ (measure_box_fits _ _ _ _ _ hl)]
    rw [hstep]
    exact ih _ _ (fun l hl' => h l (List.mem_cons_of_mem _ hl'))

/-- `<Text as Dimensions>::bounding_box` = the hand model's `boundingBox`. -/
theorem Text_bounding_box_src_eq_model (t : TextSrcPrelude.Text)
    (h : LineFits t.character_style.font.f t.character_style.st t.text.length) :
    TextSrc.Text_Dimensions_bounding_box t = boundingBox t.character_style.font.f t.toModel := by
  have hfold : TextSrc.Text_Dimensions_bounding_box t =
      (match for_in (TextSrc.Text_lines t) (Option.none : Option (Pt × Pt)) (bboxStep t) with
        | Option.some (mn, mx) => RectSrc.with_corners mn mx
        | _ => RectSrc.new (Text_position t) RectSrc.Size_zero) := rfl
  rw [hfold, Text_lines_src_eq_model t h]
  unfold boundingBox lines
  rw [bbox_fold_src_eq_model t _ _ _ (fun l hl => h.mono (splitNL_length_le _ l hl))]
  cases minMaxGo t.character_style.font.f t.toModel.style t.toModel.ts.baseline none
      (linesGo t.character_style.font.f t.toModel.style t.toModel.ts t.toModel.position (splitNL t.toModel.text)) with
  | none => rfl
  | some mm => obtain ⟨mn, mx⟩ := mm; exact with_corners_src_eq_model mn mx

/-! ### `Transform::translate` -/

/-- `Text::translate` moves the position and keeps everything else (the hand model's `Text.translate`). -/
theorem Text_translate_src_eq_model (t : TextSrcPrelude.Text) (d : Pt) :
    TextSrc.Text_Transform_translate t d = { t with position := t.position + d } ∧
    (TextSrc.Text_Transform_translate t d).toModel = t.toModel.translate d := ⟨rfl, rfl⟩

/-! ### the headline theorems of C15, about the regenerated functions -/

/-- **The i-th line** (segment between `\n`s, one trailing `\r` stripped) of the REGENERATED `Text::lines()` is laid
out at `(x, y + i * line_height)` and then aligned (`lines_positions` over the source). -/
theorem src_lines_positions (t : TextSrcPrelude.Text)
    (h : LineFits t.character_style.font.f t.character_style.st t.text.length) :
    TextSrc.Text_lines t = (splitNL t.text).mapIdx (fun i seg =>
      (stripCR seg, alignedPos t.character_style.font.f t.character_style.st t.text_style (stripCR seg)
        ⟨t.position.x, t.position.y + (i : Int) * TextSrc.Text_line_height t⟩)) := by
  rw [Text_lines_src_eq_model t h, Text_line_height_src_eq_model]
  exact C15.lines_positions _ _

/-- `line_height` of the regenerated code: `Pixels(p)` is `p`, `Percent(q)` is `ch * q / 100`, saturated to `i32`. -/
theorem src_line_height_value (t : TextSrcPrelude.Text) :
    TextSrc.Text_line_height t = satAsI32 (match t.text_style.lineHeight with
      | .pixels px => px
      | .percent pc => t.character_style.font.f.ch * pc / 100) := by
  rw [Text_line_height_src_eq_model]; exact C15.line_height_value _ _

/-- the regenerated `measure_string`: the box starts `baseline_offset` above the position, is `bb_width` wide, and the
next position is `bb_width` to the right (what `draw_next_eq_measure` and the alignment theorems are about). -/
theorem src_measure_string_value (s : MonoTextStyle) (text : List Nat) (p : Pt) (bl : Font.Baseline)
    (h : LineFits s.font.f s.st text.length) :
    TextSrc.MonoTextStyle_TextRenderer_measure_string s text p bl =
      { bbox := ⟨⟨p.x, p.y - s.font.f.baselineOffset bl⟩, ⟨bbWidth s.font.f text.length, bbHeight s.font.f s.st⟩⟩,
        next := ⟨p.x + (bbWidth s.font.f text.length : Int), p.y⟩ } :=
  measure_string_src_eq_model s text p bl h

/-- Without the guard the two DO differ: a (custom) font 2^31 pixels wide makes `Point + Size` wrap. -/
theorem measure_string_differs_without_guard :
    TextSrc.MonoTextStyle_TextRenderer_measure_string
        ⟨⟨some 1, none, .none, .none⟩, ⟨⟨0, 0, 2147483648, 1, 0, 0, 0, 0, 0, 0, fun _ => 0⟩, fun _ => false⟩⟩ [65] ⟨0, 0⟩ .top
      ≠ measureString ⟨0, 0, 2147483648, 1, 0, 0, 0, 0, 0, 0, fun _ => 0⟩ ⟨some 1, none, .none, .none⟩ [65] ⟨0, 0⟩ .top := by
  decide

end EG.C15.Src
